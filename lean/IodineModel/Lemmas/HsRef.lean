import IodineModel.Lemmas.HsSys
import IodineModel.Lemmas.C11b
/-
Lemmas about the handshake step machine, part 3: the machine driven by a FIXED path (`HsPath`: one reply, or none,
per probe content — a relay of C11 is a fixed transformation, the server's replies are determined by the query)
reaches, phase by phase, the decisions of the abstract negotiation `C11L.clientHandshakeTail`.
-/
namespace Iodine.Client
open Iodine Iodine.Gen

/-- what the path answers to each probe of the handshake after the login (`none`: never an answer); the payload is what
`read_dns_withq` delivers (`in[0..read)`) -/
structure HsPath where
  edns : Option (List Nat)
  up : List Nat → Option (List Nat)
  switchUp : Nat → Option (List Nat)
  down : Nat → Option (List Nat)
  switchDown : Option (List Nat)
  lazy : Option (List Nat)
  frag : Nat → Option (List Nat)
  setFrag : Option (List Nat)

/-- the reply to the query outstanding at `p` -/
def HsPath.replyAt (π : HsPath) : HPos → Option (List Nat)
  | .edns _ => π.edns
  | .upenc p _ => π.up (upPattern p)
  | .switchCodec b _ => π.switchUp b
  | .downenc c _ _ => π.down c
  | .switchDown _ => π.switchDown
  | .lazy _ => π.lazy
  | .frag pr _ _ _ => π.frag pr
  | .setFrag _ _ => π.setFrag
  | _ => none

/-- replies are non-empty and fit every `in[]` of the handshake -/
def HsPath.Ok (π : HsPath) : Prop := ∀ p buf, π.replyAt p = some buf → 0 < buf.length ∧ buf.length ≤ 4095

/-- what the path makes the parked `select` return: the reply to the outstanding query (right id, right first character,
right away), or a timeout -/
def envInput (π : HsPath) (s : HState) : CInput :=
  match s.pos with
  | none => .tick
  | some p =>
    match π.replyAt p with
    | some buf => .rq ⟨buf.length, s.c.chunkid, s.c.doQtype, 0, p.wait.1, buf⟩
    | none => .tick

/-- the machine run on the path -/
inductive Reaches (π : HsPath) : HOut → HOut → Prop
  | refl (o : HOut) : Reaches π o o
  | step {o o' : HOut} : Reaches π (hstep o.1 (envInput π o.1)) o' → Reaches π o o'

theorem Reaches.trans {π : HsPath} {a b c : HOut} (h1 : Reaches π a b) (h2 : Reaches π b c) : Reaches π a c := by
  induction h1 with
  | refl => exact h2
  | step _ ih => exact Reaches.step (ih h2)

/-- the select at `p` times out -/
theorem step_tick (π : HsPath) (s : HState) (p : HPos) (hp : s.pos = some p) (hr : p.rawLogin? = none)
    (hn : π.replyAt p = none) :
    hstep s (envInput π s) = hsGot { s with c := { s.c with now := s.c.now + p.wait.2.1 }, inb := [] } p (-3) := by
  obtain ⟨c, pos, inb, args, pw, dev⟩ := s
  simp only at hp
  subst hp
  simp only [hstep, envInput, hn, fire, advanceClock, hstepAt, hr, hsWaitIn, hsWaitRound]
  congr 3
  simp [HPos.sel]

/-- the select at `p` delivers the path's reply -/
theorem step_reply (π : HsPath) (s : HState) (p : HPos) (hp : s.pos = some p) (hr : p.rawLogin? = none)
    (buf : List Nat) (hn : π.replyAt p = some buf) (hl : buf.length ≤ 4095) :
    hstep s (envInput π s) = hsGot { s with inb := buf } p buf.length := by
  obtain ⟨c, pos, inb, args, pw, dev⟩ := s
  simp only at hp
  subst hp
  have hb : 4095 ≤ p.wait.2.2 := by cases p <;> simp [HPos.wait]
  have hk : min buf.length p.wait.2.2 = buf.length := by omega
  have hneg : ¬ ((buf.length : Int) < 0) := by omega
  simp only [hstep, envInput, hn, fire, hstepAt, hr, hsWaitIn, hsWaitRound]
  simp [hk, hneg]

/-! ### what the sends and waits leave alone -/

/-- the statics the decisions of the handshake tail depend on / result in -/
structure Neg where
  running : Bool
  dataenc : Enc
  downenc : Nat
  lazymode : Bool
  selecttimeout : Int
  edns0 : Bool
  doQtype : Nat
deriving DecidableEq, Repr

def neg (c : Cli) : Neg := ⟨c.running, c.dataenc, c.downenc, c.lazymode, c.selecttimeout, c.edns0, c.doQtype⟩

/-- same decisions-relevant statics, same arguments -/
def Keep (s s' : HState) : Prop := neg s'.c = neg s.c ∧ s'.args = s.args

theorem Keep.refl (s : HState) : Keep s s := ⟨rfl, rfl⟩
theorem Keep.trans {a b c : HState} (h1 : Keep a b) (h2 : Keep b c) : Keep a c := ⟨h2.1.trans h1.1, h2.2.trans h1.2⟩

theorem neg_sendQueryPlain (c : Cli) (h : List Nat) : neg (sendQueryPlain c h).1.1 = neg c := by
  unfold sendQueryPlain
  simp only
  split <;> simp [neg, rotateChunkid]

theorem neg_sendHandshakeQuery (c : Cli) (p : List Nat) : neg (sendHandshakeQuery c p).1 = neg c := by
  unfold sendHandshakeQuery
  simp only
  rw [neg_sendQueryPlain]
  rfl

theorem neg_hsSendPacket (c : Cli) (cmd : Nat) (d : List Nat) : neg (hsSendPacket c cmd d).1 = neg c := by
  unfold hsSendPacket
  rw [neg_sendQueryPlain]

theorem neg_sendDownenctest (c : Cli) (codec : Nat) : neg (sendDownenctest c codec).1 = neg c :=
  neg_sendHandshakeQuery _ _

theorem neg_sendUpenctest (c : Cli) (p : List Nat) : neg (sendUpenctest c p).1 = neg c := by
  unfold sendUpenctest
  simp only
  rw [neg_sendQueryPlain]
  rfl

theorem neg_sendLazySwitch (c : Cli) : neg (sendLazySwitch c).1 = neg c := neg_sendHandshakeQuery _ _

theorem neg_sendFragsizeProbe (c : Cli) (f : Nat) : neg (sendFragsizeProbe c f).1 = neg c := by
  unfold sendFragsizeProbe
  simp only
  rw [neg_sendQueryPlain]
  rfl

theorem neg_sendSetFragsize (c : Cli) (f : Int) : neg (sendSetFragsize c f).1 = neg c := by
  unfold sendSetFragsize
  rw [neg_hsSendPacket]
  rfl

/-- a list of (zero-extended) bytes starts with the literal -/
def litAt (buf : List Nat) (lit : String) : Bool :=
  (List.range (ascii lit).length).all fun k => buf.getD k 0 == (ascii lit).getD k 0

theorem inIs_eq (s : HState) (lit : String) : s.inIs lit = litAt s.inb lit := rfl

/-- the bytes are at least as many as the literal's and start with it -/
def litAtN (buf : List Nat) (lit : String) : Bool := decide (buf.length ≥ (ascii lit).length) && litAt buf lit

theorem inIsN_eq (s : HState) (buf : List Nat) (h : s.inb = buf) (lit : String) : s.inIsN buf.length lit = litAtN buf lit := by
  unfold HState.inIsN litAtN
  rw [inIs_eq, h]
  congr 1
  simp

/-- comparing the first `l.length` bytes one by one = comparing lists -/
theorem all_range_eq (a l rest : List Nat) (h : a.length = l.length) :
    ((List.range l.length).all fun k => (a ++ rest).getD k 0 == l.getD k 0) = decide (a = l) := by
  rw [Bool.eq_iff_iff]
  simp only [List.all_eq_true, List.mem_range, beq_iff_eq, decide_eq_true_eq]
  constructor
  · intro hall
    apply List.ext_getElem h
    intro k h1 h2
    have := hall k h2
    simp only [List.getD_eq_getElem?_getD, List.getElem?_append_left h1, List.getElem?_eq_getElem h1,
      List.getElem?_eq_getElem h2, Option.getD_some] at this
    exact this
  · intro e k hk
    subst e
    simp [List.getD_eq_getElem?_getD, List.getElem?_append_left hk]

theorem inIsCheck_eq (s : HState) (buf rest : List Nat) (hi : s.inb = buf ++ rest) (hl : buf.length = DOWNCODECCHECK1.length) :
    inIsCheck s = decide (buf = DOWNCODECCHECK1) := by
  unfold inIsCheck HState.inAt
  rw [hi]
  exact all_range_eq buf DOWNCODECCHECK1 rest hl

/-- `handshake_downenctest` / `handshake_edns0_check` on the reply `buf` decide as the abstract `downencTest` -/
theorem checkReply_reply (s : HState) (buf rest : List Nat) (hi : s.inb = buf ++ rest) (hp : 0 < buf.length) :
    checkReply s buf.length = some (C11L.downencTest (some buf)) := by
  unfold checkReply C11L.downencTest
  have h1 : ¬ ((buf.length : Int) = -2) := by omega
  have h2 : (buf.length : Int) > 0 := by omega
  simp only [h1, if_false, h2, true_and]
  by_cases hl : buf.length = DOWNCODECCHECK1.length
  · have : ¬ ((buf.length : Int) ≠ (DOWNCODECCHECK1.length : Int)) := by omega
    simp only [this, if_false, if_true]
    rw [inIsCheck_eq s buf rest hi hl]
    simp [hl]
    intro _; omega
  · have : (buf.length : Int) ≠ (DOWNCODECCHECK1.length : Int) := by omega
    simp [this, hl]

theorem checkReply_timeout (s : HState) : checkReply s (-3) = none := by
  simp [checkReply]

theorem Keep.running {s s' : HState} (h : Keep s s') : s'.c.running = s.c.running := congrArg Neg.running h.1
theorem Keep.doQtype {s s' : HState} (h : Keep s s') : s'.c.doQtype = s.c.doQtype := congrArg Neg.doQtype h.1
theorem Keep.downenc {s s' : HState} (h : Keep s s') : s'.c.downenc = s.c.downenc := congrArg Neg.downenc h.1
theorem Keep.lazymode {s s' : HState} (h : Keep s s') : s'.c.lazymode = s.c.lazymode := congrArg Neg.lazymode h.1
theorem Keep.dataenc {s s' : HState} (h : Keep s s') : s'.c.dataenc = s.c.dataenc := congrArg Neg.dataenc h.1
theorem Keep.edns0 {s s' : HState} (h : Keep s s') : s'.c.edns0 = s.c.edns0 := congrArg Neg.edns0 h.1
theorem Keep.selecttimeout {s s' : HState} (h : Keep s s') : s'.c.selecttimeout = s.c.selecttimeout := congrArg Neg.selecttimeout h.1

/-- the state in which a `select` that timed out finds the thread -/
def afterTick (s : HState) (r : Res) (p : HPos) : HState :=
  { s with c := { r.1 with now := r.1.now + p.wait.2.1 }, pos := some p, inb := [] }

/-- the state after the path's reply `buf` has been received at `p` -/
def afterReply (s : HState) (r : Res) (p : HPos) (buf : List Nat) : HState :=
  { s with c := r.1, pos := some p, inb := buf }

theorem keep_afterTick (s : HState) (r : Res) (p : HPos) (h : neg r.1 = neg s.c) : Keep s (afterTick s r p) := ⟨h, rfl⟩
theorem keep_afterReply (s : HState) (r : Res) (p : HPos) (buf : List Nat) (h : neg r.1 = neg s.c) : Keep s (afterReply s r p buf) :=
  ⟨h, rfl⟩

/-- one step of a parked thread on a path without reply: the loop body runs with `read = -3` -/
theorem park_step_tick (π : HsPath) (s : HState) (r : Res) (evs : List CEvent) (p : HPos) (hr : p.rawLogin? = none)
    (hn : π.replyAt p = none) {o : HOut} (h : Reaches π (hsGot (afterTick s r p) p (-3)) o) : Reaches π (s.park r evs p) o := by
  apply Reaches.step
  rw [step_tick π (s.park r evs p).1 p rfl hr hn]
  exact h

/-- one step of a parked thread on a path with reply `buf`: the loop body runs with `read = |buf|` -/
theorem park_step_reply (π : HsPath) (s : HState) (r : Res) (evs : List CEvent) (p : HPos) (hr : p.rawLogin? = none)
    (buf : List Nat) (hn : π.replyAt p = some buf) (hl : buf.length ≤ 4095) {o : HOut}
    (h : Reaches π (hsGot (afterReply s r p buf) p buf.length) o) : Reaches π (s.park r evs p) o := by
  apply Reaches.step
  rw [step_reply π (s.park r evs p).1 p rfl hr buf hn hl]
  exact h

/-! ### handshake_downenctest -/

theorem reach_downencTest_none (π : HsPath) (codec : Nat) (b64 : Bool) (hdn : π.down codec = none) :
    ∀ k i, i + k = 3 → ∀ (s : HState) (evs : List CEvent), s.c.running = true →
      ∃ s' evs', Reaches π (downencTestHead s evs codec b64 i) (downencTestRet s' evs' codec b64 false) ∧ Keep s s' := by
  intro k
  induction k with
  | zero =>
    intro i hi s evs _
    have : i = 3 := by omega
    subst this
    refine ⟨s, evs, ?_, Keep.refl _⟩
    simp [downencTestHead]
    exact Reaches.refl _
  | succ k ih =>
    intro i hi s evs hrun
    have hlt : i < 3 := by omega
    have hk := keep_afterTick s (sendDownenctest s.c codec) (.downenc codec b64 i) (neg_sendDownenctest _ _)
    obtain ⟨s', evs', h1, h2⟩ := ih (i + 1) (by omega) (afterTick s (sendDownenctest s.c codec) (.downenc codec b64 i)) []
      (by rw [hk.running]; exact hrun)
    refine ⟨s', evs', ?_, hk.trans h2⟩
    simp only [downencTestHead, hrun, hlt, and_self, if_true]
    apply park_step_tick π _ _ _ _ rfl (by simpa [HsPath.replyAt] using hdn)
    simp only [hsGot, downencTestGot, checkReply_timeout]
    exact h1

theorem reach_downencTest_some (π : HsPath) (codec : Nat) (b64 : Bool) (buf : List Nat) (hdn : π.down codec = some buf)
    (hok : 0 < buf.length ∧ buf.length ≤ 4095) (s : HState) (evs : List CEvent) (hrun : s.c.running = true) :
    ∃ s' evs', Reaches π (downencTestHead s evs codec b64 0) (downencTestRet s' evs' codec b64 (C11L.downencTest (some buf))) ∧
      Keep s s' := by
  have hk := keep_afterReply s (sendDownenctest s.c codec) (.downenc codec b64 0) buf (neg_sendDownenctest _ _)
  refine ⟨_, [], ?_, hk⟩
  simp only [downencTestHead, hrun, and_self, if_true, show (0 : Nat) < 3 by omega]
  apply park_step_reply π _ _ _ _ rfl buf (by simpa [HsPath.replyAt] using hdn) hok.2
  simp only [hsGot, downencTestGot]
  rw [checkReply_reply (afterReply s (sendDownenctest s.c codec) (.downenc codec b64 0) buf) buf [] (List.append_nil buf).symm hok.1]
  exact Reaches.refl _

/-- `handshake_downenctest(codec)` on the path: decides as `C11L.downencTest` on the path's reply -/
theorem reach_downencTest (π : HsPath) (hπ : π.Ok) (codec : Nat) (b64 : Bool) (s : HState) (evs : List CEvent)
    (hrun : s.c.running = true) :
    ∃ s' evs', Reaches π (downencTestHead s evs codec b64 0) (downencTestRet s' evs' codec b64 (C11L.downencTest (π.down codec))) ∧
      Keep s s' := by
  cases hdn : π.down codec with
  | none => exact reach_downencTest_none π codec b64 hdn 3 0 rfl s evs hrun
  | some buf => exact reach_downencTest_some π codec b64 buf hdn (hπ (.downenc codec b64 0) buf (by simpa [HsPath.replyAt] using hdn)) s evs hrun

/-! ### handshake_edns0_check -/

theorem reach_edns_none (π : HsPath) (hdn : π.edns = none) :
    ∀ k i, i + k = 3 → ∀ (s : HState) (evs : List CEvent), s.c.running = true →
      ∃ s' evs', Reaches π (ednsHead s evs i) (ednsRet s' evs' false) ∧ Keep s s' := by
  intro k
  induction k with
  | zero =>
    intro i hi s evs _
    have : i = 3 := by omega
    subst this
    refine ⟨s, evs, ?_, Keep.refl _⟩
    simp [ednsHead]
    exact Reaches.refl _
  | succ k ih =>
    intro i hi s evs hrun
    have hlt : i < 3 := by omega
    have hk := keep_afterTick s (sendDownenctest s.c (ednsCodec s.c)) (.edns i) (neg_sendDownenctest _ _)
    obtain ⟨s', evs', h1, h2⟩ := ih (i + 1) (by omega) (afterTick s (sendDownenctest s.c (ednsCodec s.c)) (.edns i)) []
      (by rw [hk.running]; exact hrun)
    refine ⟨s', evs', ?_, hk.trans h2⟩
    simp only [ednsHead, hrun, hlt, and_self, if_true]
    apply park_step_tick π _ _ _ _ rfl (by simpa [HsPath.replyAt] using hdn)
    simp only [hsGot, ednsGot, checkReply_timeout]
    exact h1

/-- `handshake_edns0_check` on the path -/
theorem reach_edns (π : HsPath) (hπ : π.Ok) (s : HState) (evs : List CEvent) (hrun : s.c.running = true) :
    ∃ s' evs', Reaches π (ednsHead s evs 0) (ednsRet s' evs' (C11L.downencTest π.edns)) ∧ Keep s s' := by
  cases hdn : π.edns with
  | none => exact reach_edns_none π hdn 3 0 rfl s evs hrun
  | some buf =>
    have hok := hπ (.edns 0) buf (by simpa [HsPath.replyAt] using hdn)
    have hk := keep_afterReply s (sendDownenctest s.c (ednsCodec s.c)) (.edns 0) buf (neg_sendDownenctest _ _)
    refine ⟨_, [], ?_, hk⟩
    simp only [ednsHead, hrun, and_self, if_true, show (0 : Nat) < 3 by omega]
    apply park_step_reply π _ _ _ _ rfl buf (by simpa [HsPath.replyAt] using hdn) hok.2
    simp only [hsGot, ednsGot]
    rw [checkReply_reply (afterReply s (sendDownenctest s.c (ednsCodec s.c)) (.edns 0) buf) buf [] (List.append_nil buf).symm hok.1]
    exact Reaches.refl _

/-! ### handshake_upenctest -/

/-- the return value of `handshake_upenctest` -/
def upResInt : C11L.UpRes → Int
  | .caseSwap => -1
  | .differ => 0
  | .same => 1

theorem getD_drop (l : List Nat) (n k : Nat) : (l.drop n).getD k 0 = l.getD (k + n) 0 := by
  simp [List.getD_eq_getElem?_getD, List.getElem?_drop, Nat.add_comm]

/-- the loop body of `handshake_upenctest` on a reply decides as the abstract `upencTest` -/
theorem upencTestGot_reply (s : HState) (p i : Nat) (buf : List Nat) (hi : s.inb = buf) (hp : 0 < buf.length) :
    upencTestGot s p i buf.length = upencTestRet s [] p (upResInt (C11L.upencTest (upPattern p) (some buf))) := by
  unfold upencTestGot C11L.upencTest
  have h1 : ¬ ((buf.length : Int) = -2) := by omega
  have h2 : (buf.length : Int) > 0 := by omega
  have h3 : ¬ buf.length = 0 := by omega
  simp only [h1, if_false, h2, true_and, h3, HState.inAt, hi]
  by_cases hs : buf.length < (upPattern p).length + 4
  · have : (buf.length : Int) < ((upPattern p).length : Int) + 4 := by omega
    simp [this, hs, upResInt]
  · have : ¬ (buf.length : Int) < ((upPattern p).length : Int) + 4 := by omega
    simp only [this, if_false, hs]
    simp only [List.getD_eq_getElem?_getD]
    by_cases h4 : buf[4]?.getD 0 = 65
    · simp [h4, upResInt]
    · simp only [h4, if_false]
      by_cases h5 : buf[5]?.getD 0 = 97
      · simp [h5, upResInt]
      · simp only [h5, if_false]
        have hlen : ((buf.drop 4).take (upPattern p).length).length = (upPattern p).length := by
          simp; omega
        have hall := all_range_eq ((buf.drop 4).take (upPattern p).length) (upPattern p) ((buf.drop 4).drop (upPattern p).length) hlen
        rw [List.take_append_drop] at hall
        simp only [getD_drop] at hall
        simp only [List.getD_eq_getElem?_getD] at hall
        rw [hall]
        by_cases he : (buf.drop 4).take (upPattern p).length = upPattern p
        · simp [he, upResInt]
        · simp [he, upResInt]

theorem upencTestGot_timeout (s : HState) (p i : Nat) : upencTestGot s p i (-3) = upencTestHead s [] p (i + 1) := by
  simp [upencTestGot]

theorem reach_upencTest_none (π : HsPath) (p : Nat) (hdn : π.up (upPattern p) = none) :
    ∀ k i, i + k = 3 → ∀ (s : HState) (evs : List CEvent), s.c.running = true →
      ∃ s' evs', Reaches π (upencTestHead s evs p i) (upencTestRet s' evs' p 0) ∧ Keep s s' := by
  intro k
  induction k with
  | zero =>
    intro i hi s evs hrun
    have : i = 3 := by omega
    subst this
    refine ⟨s, evs, ?_, Keep.refl _⟩
    simp [upencTestHead, hrun]
    exact Reaches.refl _
  | succ k ih =>
    intro i hi s evs hrun
    have hlt : i < 3 := by omega
    have hk := keep_afterTick s (sendUpenctest s.c (upPattern p)) (.upenc p i) (neg_sendUpenctest _ _)
    obtain ⟨s', evs', h1, h2⟩ := ih (i + 1) (by omega) (afterTick s (sendUpenctest s.c (upPattern p)) (.upenc p i)) []
      (by rw [hk.running]; exact hrun)
    refine ⟨s', evs', ?_, hk.trans h2⟩
    simp only [upencTestHead, hrun, hlt, and_self, if_true]
    apply park_step_tick π _ _ _ _ rfl (by simpa [HsPath.replyAt] using hdn)
    simp only [hsGot, upencTestGot_timeout]
    exact h1

/-- `handshake_upenctest(pattern p)` on the path decides as `C11L.upencTest` on the path's reply -/
theorem reach_upencTest (π : HsPath) (hπ : π.Ok) (p : Nat) (s : HState) (evs : List CEvent) (hrun : s.c.running = true) :
    ∃ s' evs', Reaches π (upencTestHead s evs p 0)
        (upencTestRet s' evs' p (upResInt (C11L.upencTest (upPattern p) (π.up (upPattern p))))) ∧ Keep s s' := by
  cases hdn : π.up (upPattern p) with
  | none => exact reach_upencTest_none π p hdn 3 0 rfl s evs hrun
  | some buf =>
    have hok := hπ (.upenc p 0) buf (by simpa [HsPath.replyAt] using hdn)
    have hk := keep_afterReply s (sendUpenctest s.c (upPattern p)) (.upenc p 0) buf (neg_sendUpenctest _ _)
    refine ⟨_, [], ?_, hk⟩
    simp only [upencTestHead, hrun, and_self, if_true, show (0 : Nat) < 3 by omega]
    apply park_step_reply π _ _ _ _ rfl buf (by simpa [HsPath.replyAt] using hdn) hok.2
    simp only [hsGot]
    rw [upencTestGot_reply _ p 0 buf (by simp [afterReply]) hok.1]
    exact Reaches.refl _

/-! ### handshake_upenc_autodetect -/

theorem upencTestHead_zero (s : HState) (evs : List CEvent) (q : Nat) (hrun : s.c.running = true) :
    upencTestHead s evs q 0 = s.park (sendUpenctest s.c (upPattern q)) evs (.upenc q 0) := by
  simp [upencTestHead, hrun]

theorem upencTestRet_neg (s : HState) (evs : List CEvent) (p : Nat) : upencTestRet s evs p (-1) = upencRet s evs 0 := by
  unfold upencTestRet
  simp only
  repeat' split
  all_goals first | rfl | omega

theorem upencTestRet_zero_lt5 (s : HState) (evs : List CEvent) (p : Nat) (hp : p < 5) (hrun : s.c.running = true) :
    upencTestRet s evs p 0 = upencTestHead { s with inb := [] } evs 5 0 := by
  rw [upencTestHead_zero { s with inb := [] } _ _ hrun]
  simp [upencTestRet, hp, hrun]

theorem upencTestRet_one_lt4 (s : HState) (evs : List CEvent) (p : Nat) (hp : p < 4) (hrun : s.c.running = true) :
    upencTestRet s evs p 1 = upencTestHead { s with inb := [] } evs (p + 1) 0 := by
  rw [upencTestHead_zero { s with inb := [] } _ _ hrun]
  have h5 : p < 5 := by omega
  have h4 : ¬ p = 4 := by omega
  simp [upencTestRet, h5, h4, hrun]

theorem upencTestRet_one_4 (s : HState) (evs : List CEvent) : upencTestRet s evs 4 1 = upencRet s evs 3 := by
  simp [upencTestRet]

theorem upencTestRet_zero_5 (s : HState) (evs : List CEvent) (hrun : s.c.running = true) :
    upencTestRet s evs 5 0 = upencTestHead { s with inb := [] } evs 6 0 := by
  rw [upencTestHead_zero { s with inb := [] } _ _ hrun]
  simp [upencTestRet, hrun]

theorem upencTestRet_one_5 (s : HState) (evs : List CEvent) : upencTestRet s evs 5 1 = upencRet s evs 1 := by
  simp [upencTestRet]

theorem upencTestRet_zero_6 (s : HState) (evs : List CEvent) : upencTestRet s evs 6 0 = upencRet s evs 0 := by
  simp [upencTestRet]

theorem upencTestRet_one_6 (s : HState) (evs : List CEvent) : upencTestRet s evs 6 1 = upencRet s evs 2 := by
  simp [upencTestRet]

/-- the probe outcomes of the path, as the abstract negotiation sees them -/
def HsPath.upT (π : HsPath) (s : List Nat) : C11L.UpRes := C11L.upencTest s (π.up s)

/-- the tail of `C11L.upencAutodetect` from the Base128 pattern number `4 - n` on -/
def upTailF (t : List Nat → C11L.UpRes) : Nat → Nat
  | 0 => match t pat128e with
    | .caseSwap => 0
    | .differ => C11L.upencTry64 t
    | .same => 3
  | n + 1 => match t (upPattern (3 - n)) with
    | .caseSwap => 0
    | .differ => C11L.upencTry64 t
    | .same => upTailF t n

theorem upencAutodetect_eq_tail (t : List Nat → C11L.UpRes) : C11L.upencAutodetect t = upTailF t 4 := rfl

theorem reach_up6 (π : HsPath) (hπ : π.Ok) (s : HState) (evs : List CEvent) (hrun : s.c.running = true) :
    ∃ s' evs', Reaches π (upencTestHead s evs 6 0)
      (upencRet s' evs' (match π.upT pat64u with | .caseSwap => 0 | .same => 2 | .differ => 0)) ∧ Keep s s' := by
  obtain ⟨s1, e1, h1, k1⟩ := reach_upencTest π hπ 6 s evs hrun
  refine ⟨s1, e1, ?_, k1⟩
  have : upPattern 6 = pat64u := rfl
  rw [this] at h1
  unfold HsPath.upT
  cases hr : C11L.upencTest pat64u (π.up pat64u) <;> rw [hr] at h1 <;> simp only [upResInt] at h1
  · rw [upencTestRet_neg] at h1; exact h1
  · rw [upencTestRet_zero_6] at h1; exact h1
  · rw [upencTestRet_one_6] at h1; exact h1

theorem reach_up5 (π : HsPath) (hπ : π.Ok) (s : HState) (evs : List CEvent) (hrun : s.c.running = true) :
    ∃ s' evs', Reaches π (upencTestHead s evs 5 0) (upencRet s' evs' (C11L.upencTry64 π.upT)) ∧ Keep s s' := by
  obtain ⟨s1, e1, h1, k1⟩ := reach_upencTest π hπ 5 s evs hrun
  have : upPattern 5 = pat64 := rfl
  rw [this] at h1
  unfold C11L.upencTry64
  have hu : π.upT pat64 = C11L.upencTest pat64 (π.up pat64) := rfl
  rw [hu]
  cases hr : C11L.upencTest pat64 (π.up pat64) <;> rw [hr] at h1 <;> simp only [upResInt] at h1
  · rw [upencTestRet_neg] at h1; exact ⟨s1, e1, h1, k1⟩
  · rw [upencTestRet_zero_5 _ _ (by rw [k1.running]; exact hrun)] at h1
    obtain ⟨s2, e2, h2, k2⟩ := reach_up6 π hπ { s1 with inb := [] } e1 (by rw [show ({ s1 with inb := [] } : HState).c = s1.c from rfl, k1.running]; exact hrun)
    exact ⟨s2, e2, h1.trans h2, k1.trans (Keep.trans ⟨rfl, rfl⟩ k2)⟩
  · rw [upencTestRet_one_5] at h1; exact ⟨s1, e1, h1, k1⟩

theorem reach_upTail (π : HsPath) (hπ : π.Ok) :
    ∀ n, n ≤ 4 → ∀ (s : HState) (evs : List CEvent), s.c.running = true →
      ∃ s' evs', Reaches π (upencTestHead s evs (4 - n) 0) (upencRet s' evs' (upTailF π.upT n)) ∧ Keep s s' := by
  intro n
  induction n with
  | zero =>
    intro _ s evs hrun
    obtain ⟨s1, e1, h1, k1⟩ := reach_upencTest π hπ 4 s evs hrun
    have hr1 : s1.c.running = true := by rw [k1.running]; exact hrun
    have : upPattern 4 = pat128e := rfl
    rw [this] at h1
    show ∃ s' evs', Reaches π (upencTestHead s evs 4 0) (upencRet s' evs' (upTailF π.upT 0)) ∧ Keep s s'
    unfold upTailF
    have hu : π.upT pat128e = C11L.upencTest pat128e (π.up pat128e) := rfl
    rw [hu]
    cases hr : C11L.upencTest pat128e (π.up pat128e) <;> rw [hr] at h1 <;> simp only [upResInt] at h1
    · rw [upencTestRet_neg] at h1; exact ⟨s1, e1, h1, k1⟩
    · rw [upencTestRet_zero_lt5 _ _ 4 (by omega) hr1] at h1
      obtain ⟨s2, e2, h2, k2⟩ := reach_up5 π hπ { s1 with inb := [] } e1 hr1
      exact ⟨s2, e2, h1.trans h2, k1.trans (Keep.trans ⟨rfl, rfl⟩ k2)⟩
    · rw [upencTestRet_one_4] at h1; exact ⟨s1, e1, h1, k1⟩
  | succ n ih =>
    intro hn s evs hrun
    have hp : 4 - (n + 1) = 3 - n := by omega
    rw [hp]
    obtain ⟨s1, e1, h1, k1⟩ := reach_upencTest π hπ (3 - n) s evs hrun
    have hr1 : s1.c.running = true := by rw [k1.running]; exact hrun
    unfold upTailF
    have hu : π.upT (upPattern (3 - n)) = C11L.upencTest (upPattern (3 - n)) (π.up (upPattern (3 - n))) := rfl
    rw [hu]
    cases hr : C11L.upencTest (upPattern (3 - n)) (π.up (upPattern (3 - n))) <;> rw [hr] at h1 <;> simp only [upResInt] at h1
    · rw [upencTestRet_neg] at h1; exact ⟨s1, e1, h1, k1⟩
    · rw [upencTestRet_zero_lt5 _ _ (3 - n) (by omega) hr1] at h1
      obtain ⟨s2, e2, h2, k2⟩ := reach_up5 π hπ { s1 with inb := [] } e1 hr1
      exact ⟨s2, e2, h1.trans h2, k1.trans (Keep.trans ⟨rfl, rfl⟩ k2)⟩
    · rw [upencTestRet_one_lt4 _ _ (3 - n) (by omega) hr1] at h1
      have hq : 3 - n + 1 = 4 - n := by omega
      rw [hq] at h1
      obtain ⟨s2, e2, h2, k2⟩ := ih (by omega) { s1 with inb := [] } e1 hr1
      exact ⟨s2, e2, h1.trans h2, k1.trans (Keep.trans ⟨rfl, rfl⟩ k2)⟩

/-- `handshake_upenc_autodetect` on the path returns what `C11L.upencAutodetect` computes from the path's replies -/
theorem reach_upencAutodetect (π : HsPath) (hπ : π.Ok) (s : HState) (evs : List CEvent) (hrun : s.c.running = true) :
    ∃ s' evs', Reaches π (upencTestHead s evs 0 0) (upencRet s' evs' (C11L.upencAutodetect π.upT)) ∧ Keep s s' := by
  rw [upencAutodetect_eq_tail]
  exact reach_upTail π hπ 4 (Nat.le_refl _) s evs hrun

/-! ### handshake_switch_codec -/

/-- a reply that `handshake_switch_codec` / `handshake_switch_downenc` / `handshake_try_lazy` read as a refusal -/
def isBad (buf : List Nat) : Bool := litAtN buf "BADLEN" || (litAtN buf "BADIP" || litAtN buf "BADCODEC")

/-- the server acknowledged the switch of the upstream codec -/
def HsPath.switchAck (π : HsPath) (bits : Nat) : Bool :=
  match π.switchUp bits with
  | some buf => !isBad buf
  | none => false

theorem reach_switchCodec_none (π : HsPath) (bits : Nat) (hdn : π.switchUp bits = none) :
    ∀ k i, i + k = 5 → ∀ (s : HState) (evs : List CEvent), s.c.running = true →
      ∃ s' evs', Reaches π (switchCodecHead s evs bits i) (afterSwitchCodec s' evs') ∧ Keep s s' := by
  intro k
  induction k with
  | zero =>
    intro i hi s evs _
    have : i = 5 := by omega
    subst this
    refine ⟨s, evs, ?_, Keep.refl _⟩
    simp [switchCodecHead]
    exact Reaches.refl _
  | succ k ih =>
    intro i hi s evs hrun
    have hlt : i < 5 := by omega
    have hk := keep_afterTick s (sendHandshakeQuery s.c [115, b32_5to8 s.c.userid, b32_5to8 (bits : Int)]) (.switchCodec bits i)
      (neg_sendHandshakeQuery _ _)
    obtain ⟨s', evs', h1, h2⟩ := ih (i + 1) (by omega) _ [] (by rw [hk.running]; exact hrun)
    refine ⟨s', evs', ?_, hk.trans h2⟩
    simp only [switchCodecHead, hrun, hlt, and_self, if_true]
    apply park_step_tick π _ _ _ _ rfl (by simpa [HsPath.replyAt] using hdn)
    simp only [hsGot, switchCodecGot, show ¬ ((-3 : Int) > 0) by omega, if_false]
    exact h1

/-- `handshake_switch_codec(bits)` on the path: `dataenc` is switched iff the path's reply is an acknowledgement -/
theorem reach_switchCodec (π : HsPath) (hπ : π.Ok) (bits : Nat) (s : HState) (evs : List CEvent) (hrun : s.c.running = true) :
    ∃ s' evs', Reaches π (switchCodecHead s evs bits 0) (afterSwitchCodec s' evs') ∧
      neg s'.c = { neg s.c with dataenc := if π.switchAck bits then encOfBits bits else s.c.dataenc } ∧ s'.args = s.args := by
  unfold HsPath.switchAck
  cases hdn : π.switchUp bits with
  | none =>
    obtain ⟨s', evs', h1, h2⟩ := reach_switchCodec_none π bits hdn 5 0 rfl s evs hrun
    exact ⟨s', evs', h1, by simp only [Bool.false_eq_true, if_false]; exact h2.1, h2.2⟩
  | some buf =>
    have hok := hπ (.switchCodec bits 0) buf (by simpa [HsPath.replyAt] using hdn)
    have hk := keep_afterReply s (sendHandshakeQuery s.c [115, b32_5to8 s.c.userid, b32_5to8 (bits : Int)]) (.switchCodec bits 0) buf
      (neg_sendHandshakeQuery _ _)
    have hpos : (buf.length : Int) > 0 := by omega
    have hb : (afterReply s (sendHandshakeQuery s.c [115, b32_5to8 s.c.userid, b32_5to8 (bits : Int)]) (.switchCodec bits 0) buf).inb = buf := by
      simp [afterReply]
    by_cases hbad : isBad buf = true
    · refine ⟨_, [], ?_, by simp only [hbad, Bool.not_true, Bool.false_eq_true, if_false]; exact hk.1, hk.2⟩
      simp only [switchCodecHead, hrun, and_self, if_true, show (0 : Nat) < 5 by omega]
      apply park_step_reply π _ _ _ _ rfl buf (by simpa [HsPath.replyAt] using hdn) hok.2
      simp only [hsGot, switchCodecGot, hpos, if_true, inIsN_eq _ buf hb]
      have : (litAtN buf "BADLEN" = true ∨ litAtN buf "BADIP" = true ∨ litAtN buf "BADCODEC" = true) := by
        simpa [isBad] using hbad
      simp only [this, if_true]
      exact Reaches.refl _
    · have hbad' : isBad buf = false := by simpa using hbad
      refine ⟨{ (afterReply s (sendHandshakeQuery s.c [115, b32_5to8 s.c.userid, b32_5to8 (bits : Int)]) (.switchCodec bits 0) buf) with
                c := { (sendHandshakeQuery s.c [115, b32_5to8 s.c.userid, b32_5to8 (bits : Int)]).1 with dataenc := encOfBits bits } }, [], ?_, ?_, hk.2⟩
      · simp only [switchCodecHead, hrun, and_self, if_true, show (0 : Nat) < 5 by omega]
        apply park_step_reply π _ _ _ _ rfl buf (by simpa [HsPath.replyAt] using hdn) hok.2
        simp only [hsGot, switchCodecGot, hpos, if_true, inIsN_eq _ buf hb]
        have : ¬ (litAtN buf "BADLEN" = true ∨ litAtN buf "BADIP" = true ∨ litAtN buf "BADCODEC" = true) := by
          simpa [isBad] using hbad'
        simp only [this, if_false]
        exact Reaches.refl _
      · have := hk.1
        simp only [neg, afterReply] at this ⊢
        simp [hbad']
        injection this with a b c d e f g
        exact ⟨a, c, d, e, f, g⟩

/-! ### handshake_switch_downenc -/

theorem reach_switchDown_none (π : HsPath) (hdn : π.switchDown = none) :
    ∀ k i, i + k = 5 → ∀ (s : HState) (evs : List CEvent), s.c.running = true →
      ∃ s' evs', Reaches π (switchDownHead s evs i) (afterSwitchDown s' evs') ∧ Keep s s' := by
  intro k
  induction k with
  | zero =>
    intro i hi s evs _
    have : i = 5 := by omega
    subst this
    refine ⟨s, evs, ?_, Keep.refl _⟩
    simp [switchDownHead]
    exact Reaches.refl _
  | succ k ih =>
    intro i hi s evs hrun
    have hlt : i < 5 := by omega
    have hk := keep_afterTick s (sendHandshakeQuery s.c (switchDownPrefix s.c)) (.switchDown i) (neg_sendHandshakeQuery _ _)
    obtain ⟨s', evs', h1, h2⟩ := ih (i + 1) (by omega) _ [] (by rw [hk.running]; exact hrun)
    refine ⟨s', evs', ?_, hk.trans h2⟩
    simp only [switchDownHead, hrun, hlt, and_self, if_true]
    apply park_step_tick π _ _ _ _ rfl (by simpa [HsPath.replyAt] using hdn)
    simp only [hsGot, switchDownGot, show ¬ ((-3 : Int) > 0) by omega, if_false]
    exact h1

/-- `handshake_switch_downenc` changes nothing on the client, whatever the path answers -/
theorem reach_switchDown (π : HsPath) (hπ : π.Ok) (s : HState) (evs : List CEvent) (hrun : s.c.running = true) :
    ∃ s' evs', Reaches π (switchDownHead s evs 0) (afterSwitchDown s' evs') ∧ Keep s s' := by
  cases hdn : π.switchDown with
  | none => exact reach_switchDown_none π hdn 5 0 rfl s evs hrun
  | some buf =>
    have hok := hπ (.switchDown 0) buf (by simpa [HsPath.replyAt] using hdn)
    have hk := keep_afterReply s (sendHandshakeQuery s.c (switchDownPrefix s.c)) (.switchDown 0) buf (neg_sendHandshakeQuery _ _)
    have hpos : (buf.length : Int) > 0 := by omega
    refine ⟨_, [], ?_, hk⟩
    simp only [switchDownHead, hrun, and_self, if_true, show (0 : Nat) < 5 by omega]
    apply park_step_reply π _ _ _ _ rfl buf (by simpa [HsPath.replyAt] using hdn) hok.2
    simp only [hsGot, switchDownGot, hpos, if_true]
    exact Reaches.refl _

/-! ### handshake_downenc_autodetect -/

def HsPath.downT (π : HsPath) (codec : Nat) : Bool := C11L.downencTest (π.down codec)

theorem downencTestHead_zero (s : HState) (evs : List CEvent) (codec : Nat) (b64 : Bool) (hrun : s.c.running = true) :
    downencTestHead s evs codec b64 0 = s.park (sendDownenctest s.c codec) evs (.downenc codec b64 0) := by
  simp [downencTestHead, hrun]

theorem downencFinish_running (s : HState) (evs : List CEvent) (a b c : Bool) (hrun : s.c.running = true) :
    downencFinish s evs a b c = downencRet s evs (if c then 86 else if a then 83 else if b then 85 else 32) := by
  unfold downencFinish
  simp only [hrun, Bool.not_true, Bool.false_eq_true, if_false]
  cases c <;> cases a <;> cases b <;> rfl

/-- `handshake_downenc_autodetect` (query type neither NULL nor PRIVATE) on the path returns what
`C11L.downencAutodetect` computes from the path's replies -/
theorem reach_downencAutodetect (π : HsPath) (hπ : π.Ok) (s : HState) (evs : List CEvent) (hrun : s.c.running = true)
    (hq : ¬ (s.c.doQtype = T_NULL ∨ s.c.doQtype = T_PRIVATE)) :
    ∃ s' evs', Reaches π (downencTestHead s evs 83 false 0)
      (downencRet s' evs' (C11L.downencAutodetect s.c.doQtype π.downT)) ∧ Keep s s' := by
  have run : ∀ {a b : HState}, Keep a b → a.c.running = true → b.c.running = true := fun k h => by rw [k.running]; exact h
  have kin : ∀ a : HState, Keep a { a with inb := [] } := fun a => ⟨rfl, rfl⟩
  unfold C11L.downencAutodetect
  simp only [hq, if_false]
  obtain ⟨s1, e1, h1, k1⟩ := reach_downencTest π hπ 83 false s evs hrun
  have r1 := run k1 hrun
  have t83 : π.downT 83 = C11L.downencTest (π.down 83) := rfl
  have t85 : π.downT 85 = C11L.downencTest (π.down 85) := rfl
  have t86 : π.downT 86 = C11L.downencTest (π.down 86) := rfl
  have t82 : π.downT 82 = C11L.downencTest (π.down 82) := rfl
  -- the 'V' test and what follows it, shared by the two ways of getting there
  have fromV : ∀ (b64 : Bool) (sa : HState) (ea : List CEvent), sa.c.running = true → sa.c.doQtype = s.c.doQtype →
      ∃ s' evs', Reaches π (downencTestHead sa ea 86 b64 0)
        (downencRet s' evs' (if π.downT 86 && decide (s.c.doQtype = T_TXT) && π.downT 82 then 82
          else if π.downT 86 then 86 else if b64 then 83 else 85)) ∧ Keep sa s' := by
    intro b64 sa ea ra qa
    obtain ⟨s2, e2, h2, k2⟩ := reach_downencTest π hπ 86 b64 sa ea ra
    have r2 := run k2 ra
    rw [← t86] at h2
    cases h86 : π.downT 86 <;> rw [h86] at h2
    · -- base128 fails
      simp only [downencTestRet, show ¬ (86 = 83) by omega, show ¬ (86 = 85) by omega, if_false, if_true,
        Bool.false_eq_true, and_false, false_and] at h2
      rw [downencFinish_running _ _ _ _ _ r2] at h2
      refine ⟨s2, e2, ?_, k2⟩
      cases b64 <;> simpa using h2
    · by_cases hT : s.c.doQtype = T_TXT
      · have hT2 : s2.c.doQtype = T_TXT := by rw [k2.doQtype, qa, hT]
        simp only [downencTestRet, show ¬ (86 = 83) by omega, show ¬ (86 = 85) by omega, if_false, if_true,
          r2, hT2, and_self] at h2
        rw [← downencTestHead_zero { s2 with inb := [] } e2 82 b64 r2] at h2
        obtain ⟨s3, e3, h3, k3⟩ := reach_downencTest π hπ 82 b64 { s2 with inb := [] } e2 r2
        have r3 := run k3 r2
        rw [← t82] at h3
        cases h82 : π.downT 82 <;> rw [h82] at h3
        · simp only [downencTestRet, show ¬ (82 = 83) by omega, show ¬ (82 = 85) by omega, show ¬ (82 = 86) by omega,
            if_false, Bool.false_eq_true] at h3
          rw [downencFinish_running _ _ _ _ _ r3] at h3
          refine ⟨s3, e3, h2.trans (by simpa [hT] using h3), k2.trans ((kin s2).trans k3)⟩
        · simp only [downencTestRet, show ¬ (82 = 83) by omega, show ¬ (82 = 85) by omega, show ¬ (82 = 86) by omega,
            if_false, if_true] at h3
          refine ⟨s3, e3, h2.trans (by simpa [hT] using h3), k2.trans ((kin s2).trans k3)⟩
      · have hT2 : ¬ s2.c.doQtype = T_TXT := by rw [k2.doQtype, qa]; exact hT
        simp only [downencTestRet, show ¬ (86 = 83) by omega, show ¬ (86 = 85) by omega, if_false, if_true,
          r2, hT2, and_false, and_true] at h2
        rw [downencFinish_running _ _ _ _ _ r2] at h2
        refine ⟨s2, e2, by simpa [hT] using h2, k2⟩
  rw [← t83] at h1
  cases h83 : π.downT 83 <;> rw [h83] at h1
  · -- Base64 fails: try Base64u
    simp only [downencTestRet, if_true, Bool.false_eq_true, if_false, r1] at h1
    rw [← downencTestHead_zero { s1 with inb := [] } e1 85 false r1] at h1
    obtain ⟨s2, e2, h2, k2⟩ := reach_downencTest π hπ 85 false { s1 with inb := [] } e1 r1
    have r2 := run k2 r1
    rw [← t85] at h2
    cases h85 : π.downT 85 <;> rw [h85] at h2
    · simp only [downencTestRet, show ¬ (85 = 83) by omega, if_false, if_true, Bool.false_eq_true, false_and] at h2
      rw [downencFinish_running _ _ _ _ _ r2] at h2
      exact ⟨s2, e2, h1.trans (by simpa using h2), k1.trans ((kin s1).trans k2)⟩
    · simp only [downencTestRet, show ¬ (85 = 83) by omega, if_false, if_true, r2, and_self] at h2
      rw [← downencTestHead_zero { s2 with inb := [] } e2 86 false r2] at h2
      obtain ⟨s3, e3, h3, k3⟩ := fromV false { s2 with inb := [] } e2 r2
        (by show s2.c.doQtype = _; rw [k2.doQtype]; show s1.c.doQtype = _; rw [k1.doQtype])
      refine ⟨s3, e3, h1.trans (h2.trans (by simpa using h3)), k1.trans ((kin s1).trans (k2.trans ((kin s2).trans k3)))⟩
  · simp only [downencTestRet, if_true, r1] at h1
    rw [← downencTestHead_zero { s1 with inb := [] } e1 86 true r1] at h1
    obtain ⟨s3, e3, h3, k3⟩ := fromV true { s1 with inb := [] } e1 r1 (by show s1.c.doQtype = _; rw [k1.doQtype])
    refine ⟨s3, e3, h1.trans (by simpa using h3), k1.trans ((kin s1).trans k3)⟩

/-! ### the probes of the path as the abstract negotiation sees them -/

/-- the server answered "Lazy" (and no refusal) -/
def HsPath.lazyAck (π : HsPath) : Bool :=
  match π.lazy with
  | some buf => !isBad buf && litAtN buf "Lazy"
  | none => false

/-- what the (up to three) tries for fragment size `n` leave behind when every try gets the reply `reply`:
`fragsize_check` on that reply -/
def fragRes (n : Nat) (reply : Option (List Nat)) : C11L.ProbeRes :=
  match reply with
  | none => .bad
  | some buf =>
    if buf.length < 2 then .bad
    else if buf.length ≥ 5 ∧ litAt buf "BADIP" = true then .bad
    else if buf.getD 0 0 * 256 + buf.getD 1 0 ≠ n then .bad
    else if buf.length ≠ n then .bad
    else if buf.length < 3 then .ok
    else if buf.getD 2 0 ≠ 107 then .fatal
    else if (List.range (n - 3)).all fun j =>
        buf.getD (3 + j) 0 == ((if buf.length > 3 then buf.getD 3 0 else 0) + 107 * j) % 256 then .ok
    else .bad

def HsPath.probes (π : HsPath) : C11L.HsProbes :=
  { edns0 := C11L.downencTest π.edns, up := π.upT, switchUp := π.switchAck, down := π.downT, lazyAck := π.lazyAck,
    frag := fun n => fragRes n (π.frag n) }

/-- `dataenc` as the number of bits `handshake_switch_codec` is called with -/
def bitsOf : Enc → Nat
  | .b32 => 5
  | .b64 => 6
  | .b64u => 26
  | .b128 => 7

/-- the configuration the abstract negotiation starts from, read off the state in which the login returned -/
def cfgOf (s : HState) : C11L.HsCfg :=
  { qtype := s.c.doQtype, downenc := s.c.downenc, lazymode := s.c.lazymode, autoFrag := s.args.autoFrag,
    fragsize := s.args.fragsize.toNat }

/-- the bits `client_handshake` asks `handshake_switch_codec` for, and whether it got them -/
def upBitsOf (P : C11L.HsProbes) : Nat :=
  let upcodec := C11L.upencAutodetect P.up
  let bits := if upcodec = 1 then 6 else if upcodec = 2 then 26 else if upcodec = 3 then 7 else 5
  if bits ≠ 5 ∧ P.switchUp bits then bits else 5

theorem tail_fields (cfg : C11L.HsCfg) (P : C11L.HsProbes) :
    (C11L.clientHandshakeTail cfg P).edns0 = P.edns0 ∧
    (C11L.clientHandshakeTail cfg P).upBits = upBitsOf P ∧
    (C11L.clientHandshakeTail cfg P).downenc = (if cfg.downenc = 32 then C11L.downencAutodetect cfg.qtype P.down else cfg.downenc) ∧
    (C11L.clientHandshakeTail cfg P).lazymode = (if cfg.lazymode then P.lazyAck else false) := by
  unfold C11L.clientHandshakeTail upBitsOf
  simp only
  split
  · split <;> exact ⟨rfl, rfl, rfl, rfl⟩
  · exact ⟨rfl, rfl, rfl, rfl⟩

theorem afterSwitchCodec_running (s : HState) (evs : List CEvent) (hrun : s.c.running = true) :
    afterSwitchCodec s evs =
      if s.c.downenc = 32 then
        if s.c.doQtype = T_NULL ∨ s.c.doQtype = T_PRIVATE then downencRet s evs 32
        else downencTestHead { s with inb := [] } evs 83 false 0
      else afterDownenc s evs := by
  simp [afterSwitchCodec, hrun]

/-- **codec part of the refinement**: from `dnsc_use_edns0 = 1` on, the machine driven by the path reaches the point behind
the downstream codec autodetection (`if (downenc != ' ') handshake_switch_downenc`) with EDNS0, upstream codec and
downstream codec as `C11L.clientHandshakeTail` computes them from the path's replies -/
theorem reach_codecs (π : HsPath) (hπ : π.Ok) (s : HState) (evs : List CEvent) (hrun : s.c.running = true)
    (henc : s.c.dataenc = .b32) :
    ∃ s' evs', Reaches π (dnsBranch s evs) (afterDownenc s' evs') ∧
      s'.c.running = true ∧ s'.args = s.args ∧ s'.c.doQtype = s.c.doQtype ∧ s'.c.lazymode = s.c.lazymode ∧
      s'.c.selecttimeout = s.c.selecttimeout ∧
      s'.c.edns0 = (C11L.clientHandshakeTail (cfgOf s) π.probes).edns0 ∧
      bitsOf s'.c.dataenc = (C11L.clientHandshakeTail (cfgOf s) π.probes).upBits ∧
      s'.c.downenc = (C11L.clientHandshakeTail (cfgOf s) π.probes).downenc := by
  have run : ∀ {a b : HState}, Keep a b → a.c.running = true → b.c.running = true := fun k h => by rw [k.running]; exact h
  -- EDNS0
  obtain ⟨s1, e1, h1, k1⟩ := reach_edns π hπ { s with c := { s.c with edns0 := true }, inb := [] } evs hrun
  have r1 := run k1 hrun
  -- the state in which handshake_upenc_autodetect starts
  obtain ⟨sa, hsa, ka, ea0⟩ : ∃ sa : HState, ednsRet s1 e1 (C11L.downencTest π.edns) = upencTestHead sa e1 0 0 ∧
      (neg sa.c = { neg s.c with edns0 := C11L.downencTest π.edns } ∧ sa.args = s.args) ∧ sa.inb = [] := by
    have k1e : s1.c.edns0 = true := k1.edns0
    have k1n := k1.1
    cases hE : C11L.downencTest π.edns
    · refine ⟨{ s1 with c := { s1.c with edns0 := false }, inb := [] }, by simp [ednsRet, r1], ⟨?_, k1.2⟩, rfl⟩
      simp only [neg] at k1n ⊢
      injection k1n with a b c d e f g
      simp [a, b, c, d, e, g]
    · refine ⟨{ s1 with inb := [] }, by simp [ednsRet, r1], ⟨?_, k1.2⟩, rfl⟩
      simp only [neg] at k1n ⊢
      injection k1n with a b c d e f g
      simp [a, b, c, d, e, g, k1e]
  have ra : sa.c.running = true := by have := congrArg Neg.running ka.1; simpa [neg, hrun] using this
  rw [hsa] at h1
  -- upstream codec detection
  obtain ⟨s2, e2, h2, k2⟩ := reach_upencAutodetect π hπ sa e1 ra
  have r2 := run k2 ra
  -- switch
  obtain ⟨s3, e3, h3, n3, a3⟩ : ∃ s3 e3, Reaches π (upencRet s2 e2 (C11L.upencAutodetect π.upT)) (afterSwitchCodec s3 e3) ∧
      neg s3.c = { neg s2.c with dataenc := encOfBits (C11L.clientHandshakeTail (cfgOf s) π.probes).upBits } ∧ s3.args = s2.args := by
    have hd2 : s2.c.dataenc = .b32 := by
      rw [k2.dataenc]; have := congrArg Neg.dataenc ka.1; simpa [neg, henc] using this
    have hle := C11L.upencAutodetect_le π.upT
    have key : ∀ bits, bits = 6 ∨ bits = 26 ∨ bits = 7 →
        ∃ s3 e3, Reaches π (switchCodecHead { s2 with inb := [] } e2 bits 0) (afterSwitchCodec s3 e3) ∧
          neg s3.c = { neg s2.c with dataenc := encOfBits (if π.switchAck bits then bits else 5) } ∧ s3.args = s2.args := by
      intro bits hb
      obtain ⟨s3, e3, h3, n3, a3⟩ := reach_switchCodec π hπ bits { s2 with inb := [] } e2 r2
      refine ⟨s3, e3, h3, ?_, a3⟩
      rw [n3]
      show ({ neg s2.c with dataenc := _ } : Neg) = _
      cases π.switchAck bits
      · simp [hd2, encOfBits]
      · simp
    rw [(tail_fields _ _).2.1]
    unfold upBitsOf
    simp only [HsPath.probes]
    by_cases u1 : C11L.upencAutodetect π.upT = 1
    · obtain ⟨s3, e3, h3, n3, a3⟩ := key 6 (Or.inl rfl)
      refine ⟨s3, e3, ?_, ?_, a3⟩
      · simpa [upencRet, r2, u1] using h3
      · simpa [u1] using n3
    · by_cases u2 : C11L.upencAutodetect π.upT = 2
      · obtain ⟨s3, e3, h3, n3, a3⟩ := key 26 (Or.inr (Or.inl rfl))
        refine ⟨s3, e3, ?_, ?_, a3⟩
        · simpa [upencRet, r2, u2] using h3
        · simpa [u2] using n3
      · by_cases u3 : C11L.upencAutodetect π.upT = 3
        · obtain ⟨s3, e3, h3, n3, a3⟩ := key 7 (Or.inr (Or.inr rfl))
          refine ⟨s3, e3, ?_, ?_, a3⟩
          · simpa [upencRet, r2, u3] using h3
          · simpa [u3] using n3
        · refine ⟨s2, e2, ?_, ?_, rfl⟩
          · simp only [upencRet, r2, u1, u2, u3, Bool.not_true, Bool.false_eq_true, if_false]
            exact Reaches.refl _
          · simp [u1, u2, u3, encOfBits, neg, hd2]
  have r3 : s3.c.running = true := by have := congrArg Neg.running n3; simpa [neg, r2] using this
  have q3 : s3.c.doQtype = s.c.doQtype := by
    have a := congrArg Neg.doQtype n3; have b := k2.doQtype; have c := congrArg Neg.doQtype ka.1
    simp only [neg] at a c; rw [a, b, c]
  have d3 : s3.c.downenc = s.c.downenc := by
    have a := congrArg Neg.downenc n3; have b := k2.downenc; have c := congrArg Neg.downenc ka.1
    simp only [neg] at a c; rw [a, b, c]
  have l3 : s3.c.lazymode = s.c.lazymode := by
    have a := congrArg Neg.lazymode n3; have b := k2.lazymode; have c := congrArg Neg.lazymode ka.1
    simp only [neg] at a c; rw [a, b, c]
  have t3 : s3.c.selecttimeout = s.c.selecttimeout := by
    have a := congrArg Neg.selecttimeout n3; have b := k2.selecttimeout; have c := congrArg Neg.selecttimeout ka.1
    simp only [neg] at a c; rw [a, b, c]
  have e3' : s3.c.edns0 = C11L.downencTest π.edns := by
    have a := congrArg Neg.edns0 n3; have b := k2.edns0; have c := congrArg Neg.edns0 ka.1
    simp only [neg] at a c; rw [a, b, c]
  have b3 : bitsOf s3.c.dataenc = (C11L.clientHandshakeTail (cfgOf s) π.probes).upBits := by
    have a := congrArg Neg.dataenc n3
    simp only [neg] at a
    rw [a]
    rw [(tail_fields _ _).2.1]
    unfold upBitsOf
    simp only [HsPath.probes]
    by_cases u1 : C11L.upencAutodetect π.upT = 1
    · cases hA : π.switchAck 6 <;> simp [u1, hA, encOfBits, bitsOf]
    · by_cases u2 : C11L.upencAutodetect π.upT = 2
      · cases hA : π.switchAck 26 <;> simp [u2, hA, encOfBits, bitsOf]
      · by_cases u3 : C11L.upencAutodetect π.upT = 3
        · cases hA : π.switchAck 7 <;> simp [u3, hA, encOfBits, bitsOf]
        · simp [u1, u2, u3, encOfBits, bitsOf]
  have a3' : s3.args = s.args := by rw [a3, k2.2, ka.2]
  have base := h1.trans (h2.trans h3)
  rw [afterSwitchCodec_running s3 e3 r3] at base
  have hdn : (C11L.clientHandshakeTail (cfgOf s) π.probes).downenc =
      if s.c.downenc = 32 then C11L.downencAutodetect s.c.doQtype π.downT else s.c.downenc :=
    (tail_fields _ _).2.2.1
  have hed : (C11L.clientHandshakeTail (cfgOf s) π.probes).edns0 = C11L.downencTest π.edns := (tail_fields _ _).1
  rw [hdn, hed]
  by_cases hd : s.c.downenc = 32
  · have hd3 : s3.c.downenc = 32 := by rw [d3, hd]
    simp only [hd3, if_true] at base
    simp only [hd, if_true]
    by_cases hq : s.c.doQtype = T_NULL ∨ s.c.doQtype = T_PRIVATE
    · have hq3 : s3.c.doQtype = T_NULL ∨ s3.c.doQtype = T_PRIVATE := by rw [q3]; exact hq
      simp only [hq3, if_true] at base
      refine ⟨{ s3 with c := { s3.c with downenc := 32 } }, e3, base, r3, a3', q3, l3, t3, e3', b3, ?_⟩
      simp [C11L.downencAutodetect, hq]
    · have hq3 : ¬ (s3.c.doQtype = T_NULL ∨ s3.c.doQtype = T_PRIVATE) := by rw [q3]; exact hq
      simp only [hq3, if_false] at base
      obtain ⟨s4, e4, h4, k4⟩ := reach_downencAutodetect π hπ { s3 with inb := [] } e3 r3 hq3
      have r4 := run k4 r3
      refine ⟨{ s4 with c := { s4.c with downenc := C11L.downencAutodetect s.c.doQtype π.downT } }, e4, ?_, r4, ?_, ?_, ?_, ?_, ?_, ?_, rfl⟩
      · have : ({ s3 with inb := [] } : HState).c.doQtype = s.c.doQtype := q3
        rw [this] at h4
        exact base.trans h4
      · show s4.args = _; rw [k4.2]; exact a3'
      · show s4.c.doQtype = _; rw [k4.doQtype]; exact q3
      · show s4.c.lazymode = _; rw [k4.lazymode]; exact l3
      · show s4.c.selecttimeout = _; rw [k4.selecttimeout]; exact t3
      · show s4.c.edns0 = _; rw [k4.edns0]; exact e3'
      · show bitsOf s4.c.dataenc = _; rw [k4.dataenc]; exact b3
  · have hd3 : ¬ s3.c.downenc = 32 := by rw [d3]; exact hd
    simp only [hd3, if_false] at base
    simp only [hd, if_false]
    exact ⟨s3, e3, base, r3, a3', q3, l3, t3, e3', b3, d3⟩

/-! ### handshake_set_fragsize -/

theorem reach_setFrag_none (π : HsPath) (f : Int) (hdn : π.setFrag = none) :
    ∀ k i, i + k = 5 → ∀ (s : HState) (evs : List CEvent), s.c.running = true →
      ∃ s' evs', Reaches π (setFragHead s evs f i) (hsEnd s' evs') ∧ Keep s s' := by
  intro k
  induction k with
  | zero =>
    intro i hi s evs _
    have : i = 5 := by omega
    subst this
    refine ⟨s, evs, ?_, Keep.refl _⟩
    simp [setFragHead]
    exact Reaches.refl _
  | succ k ih =>
    intro i hi s evs hrun
    have hlt : i < 5 := by omega
    have hk := keep_afterTick s (sendSetFragsize s.c f) (.setFrag f i) (neg_sendSetFragsize _ _)
    obtain ⟨s', evs', h1, h2⟩ := ih (i + 1) (by omega) _ [] (by rw [hk.running]; exact hrun)
    refine ⟨s', evs', ?_, hk.trans h2⟩
    simp only [setFragHead, hrun, hlt, and_self, if_true]
    apply park_step_tick π _ _ _ _ rfl (by simpa [HsPath.replyAt] using hdn)
    simp only [hsGot, setFragGot, show ¬ ((-3 : Int) > 0) by omega, if_false]
    exact h1

/-- `handshake_set_fragsize(f)` on the path: the handshake returns, nothing on the client changes -/
theorem reach_setFrag (π : HsPath) (hπ : π.Ok) (f : Int) (s : HState) (evs : List CEvent) (hrun : s.c.running = true) :
    ∃ s' evs', Reaches π (setFragHead s evs f 0) (hsEnd s' evs') ∧ Keep s s' := by
  cases hdn : π.setFrag with
  | none => exact reach_setFrag_none π f hdn 5 0 rfl s evs hrun
  | some buf =>
    have hok := hπ (.setFrag f 0) buf (by simpa [HsPath.replyAt] using hdn)
    have hk := keep_afterReply s (sendSetFragsize s.c f) (.setFrag f 0) buf (neg_sendSetFragsize _ _)
    have hpos : (buf.length : Int) > 0 := by omega
    refine ⟨_, [], ?_, hk⟩
    simp only [setFragHead, hrun, and_self, if_true, show (0 : Nat) < 5 by omega]
    apply park_step_reply π _ _ _ _ rfl buf (by simpa [HsPath.replyAt] using hdn) hok.2
    simp only [hsGot, setFragGot, hpos, if_true]
    exact Reaches.refl _

/-! ### handshake_try_lazy -/

theorem neg_lazyRevert (s : HState) : neg (lazyRevert s).c = { neg s.c with lazymode := false, selecttimeout := 1 } := rfl

/-- all five tries end without a usable reply (no reply at all, or five times the same reply that is neither a refusal
nor "Lazy"): fall back to legacy mode -/
theorem reach_lazy_fail (π : HsPath) (hcase : π.lazy = none ∨ ∃ buf, π.lazy = some buf ∧ 0 < buf.length ∧ buf.length ≤ 4095 ∧
      isBad buf = false ∧ litAtN buf "Lazy" = false) :
    ∀ k i, i + k = 5 → ∀ (s : HState) (evs : List CEvent), s.c.running = true →
      ∃ s' evs', Reaches π (lazyHead s evs i) (afterLazy (lazyRevert s') evs') ∧ Keep s s' := by
  intro k
  induction k with
  | zero =>
    intro i hi s evs hrun
    have : i = 5 := by omega
    subst this
    refine ⟨s, evs, ?_, Keep.refl _⟩
    simp [lazyHead, hrun]
    exact Reaches.refl _
  | succ k ih =>
    intro i hi s evs hrun
    have hlt : i < 5 := by omega
    rcases hcase with hdn | ⟨buf, hdn, hp, hl, hb, hz⟩
    · have hk := keep_afterTick s (sendLazySwitch s.c) (.lazy i) (neg_sendLazySwitch _)
      obtain ⟨s', evs', h1, h2⟩ := ih (i + 1) (by omega) (afterTick s (sendLazySwitch s.c) (.lazy i)) []
        (by rw [hk.running]; exact hrun)
      refine ⟨s', evs', ?_, hk.trans h2⟩
      simp only [lazyHead, hrun, hlt, and_self, if_true]
      apply park_step_tick π _ _ _ _ rfl (by simpa [HsPath.replyAt] using hdn)
      simp only [hsGot, lazyGot, show ¬ ((-3 : Int) > 0) by omega, if_false]
      exact h1
    · have hk := keep_afterReply s (sendLazySwitch s.c) (.lazy i) buf (neg_sendLazySwitch _)
      have hb' : (afterReply s (sendLazySwitch s.c) (.lazy i) buf).inb = buf := by
        simp [afterReply]
      obtain ⟨s', evs', h1, h2⟩ := ih (i + 1) (by omega) (afterReply s (sendLazySwitch s.c) (.lazy i) buf) []
        (by rw [hk.running]; exact hrun)
      refine ⟨s', evs', ?_, hk.trans h2⟩
      simp only [lazyHead, hrun, hlt, and_self, if_true]
      apply park_step_reply π _ _ _ _ rfl buf (by simpa [HsPath.replyAt] using hdn) hl
      have hpos : (buf.length : Int) > 0 := by omega
      have hnb : ¬ (litAtN buf "BADLEN" = true ∨ litAtN buf "BADIP" = true ∨ litAtN buf "BADCODEC" = true) := by
        simpa [isBad] using hb
      simp only [hsGot, lazyGot, hpos, if_true, inIsN_eq _ buf hb', hnb, if_false, hz, Bool.false_eq_true]
      exact h1

/-- `handshake_try_lazy` on the path: lazy mode iff the path's reply is "Lazy"; otherwise legacy mode with a 1 s interval -/
theorem reach_lazy (π : HsPath) (hπ : π.Ok) (s : HState) (evs : List CEvent) (hrun : s.c.running = true) :
    ∃ s' evs', Reaches π (lazyHead s evs 0) (afterLazy s' evs') ∧
      neg s'.c = { neg s.c with lazymode := π.lazyAck, selecttimeout := if π.lazyAck then s.c.selecttimeout else 1 } ∧
      s'.args = s.args := by
  have fail : (π.lazy = none ∨ ∃ buf, π.lazy = some buf ∧ 0 < buf.length ∧ buf.length ≤ 4095 ∧ isBad buf = false ∧
      litAtN buf "Lazy" = false) → π.lazyAck = false →
      ∃ s' evs', Reaches π (lazyHead s evs 0) (afterLazy s' evs') ∧
        neg s'.c = { neg s.c with lazymode := π.lazyAck, selecttimeout := if π.lazyAck then s.c.selecttimeout else 1 } ∧
        s'.args = s.args := by
    intro hc hack
    obtain ⟨s', evs', h1, h2⟩ := reach_lazy_fail π hc 5 0 rfl s evs hrun
    refine ⟨lazyRevert s', evs', h1, ?_, h2.2⟩
    rw [neg_lazyRevert, h2.1, hack]
    simp
  unfold HsPath.lazyAck at fail ⊢
  cases hdn : π.lazy with
  | none =>
    have h := fail (Or.inl hdn) (by simp [hdn])
    rw [hdn] at h
    exact h
  | some buf =>
    have hok := hπ (.lazy 0) buf (by simpa [HsPath.replyAt] using hdn)
    have hk := keep_afterReply s (sendLazySwitch s.c) (.lazy 0) buf (neg_sendLazySwitch _)
    have hb' : (afterReply s (sendLazySwitch s.c) (.lazy 0) buf).inb = buf := by simp [afterReply]
    have hpos : (buf.length : Int) > 0 := by omega
    by_cases hbad : isBad buf = true
    · refine ⟨lazyRevert (afterReply s (sendLazySwitch s.c) (.lazy 0) buf), [], ?_, ?_, hk.2⟩
      · simp only [lazyHead, hrun, and_self, if_true, show (0 : Nat) < 5 by omega]
        apply park_step_reply π _ _ _ _ rfl buf (by simpa [HsPath.replyAt] using hdn) hok.2
        have : (litAtN buf "BADLEN" = true ∨ litAtN buf "BADIP" = true ∨ litAtN buf "BADCODEC" = true) := by
          simpa [isBad] using hbad
        simp only [hsGot, lazyGot, hpos, if_true, inIsN_eq _ buf hb', this]
        exact Reaches.refl _
      · rw [neg_lazyRevert, hk.1]; simp [hbad]
    · have hbad' : isBad buf = false := by simpa using hbad
      have hnb : ¬ (litAtN buf "BADLEN" = true ∨ litAtN buf "BADIP" = true ∨ litAtN buf "BADCODEC" = true) := by
        simpa [isBad] using hbad'
      by_cases hz : litAtN buf "Lazy" = true
      · refine ⟨{ (afterReply s (sendLazySwitch s.c) (.lazy 0) buf) with
                  c := { (sendLazySwitch s.c).1 with lazymode := true } }, [], ?_, ?_, hk.2⟩
        · simp only [lazyHead, hrun, and_self, if_true, show (0 : Nat) < 5 by omega]
          apply park_step_reply π _ _ _ _ rfl buf (by simpa [HsPath.replyAt] using hdn) hok.2
          simp only [hsGot, lazyGot, hpos, if_true, inIsN_eq _ buf hb', hnb, if_false, hz]
          exact Reaches.refl _
        · have := hk.1
          simp only [neg, afterReply] at this ⊢
          injection this with a b c d e f g
          simp [hbad', hz, a, b, c, e, f, g]
      · have hz' : litAtN buf "Lazy" = false := by simpa using hz
        have h := fail (Or.inr ⟨buf, hdn, hok.1, hok.2, hbad', hz'⟩) (by simp [hdn, hbad', hz'])
        rw [hdn] at h
        exact h

/-! ### handshake_autoprobe_fragsize -/

theorem getD_append_lt (buf tail : List Nat) (k : Nat) (h : k < buf.length) : (buf ++ tail).getD k 0 = buf.getD k 0 := by
  simp [List.getD_eq_getElem?_getD, List.getElem?_append_left h]

theorem all_range_congr (n : Nat) (f g : Nat → Bool) (h : ∀ k, k < n → f k = g k) :
    (List.range n).all f = (List.range n).all g := by
  rw [Bool.eq_iff_iff]
  simp only [List.all_eq_true, List.mem_range]
  constructor
  · intro hf k hk; rw [← h k hk]; exact hf k hk
  · intro hg k hk; rw [h k hk]; exact hg k hk

/-- `fragsize_check` on the bytes of one reply: new `max_fragsize`, and whether the `for` loop is left -/
def fragCk (buf : List Nat) (proposed : Nat) (max : Int) : Int × Bool :=
  if buf.length < 2 then (max, false)
  else if buf.length ≥ 5 ∧ litAt buf "BADIP" = true then (max, false)
  else if buf.getD 0 0 * 256 + buf.getD 1 0 ≠ proposed then (max, false)
  else if buf.length ≠ proposed then (max, true)
  else if buf.length < 3 then ((proposed : Int), true)
  else if buf.getD 2 0 ≠ 107 then (-1, true)
  else if (List.range (proposed - 3)).all fun j =>
      buf.getD (3 + j) 0 == ((if buf.length > 3 then buf.getD 3 0 else 0) + 107 * j) % 256 then ((proposed : Int), true)
  else (max, true)

/-- `fragsize_check` judges a reply by its own bytes -/
theorem fragsizeCheck_reply (s : HState) (buf : List Nat) (hi : s.inb = buf) (pr : Nat) (m : Int) :
    fragsizeCheck s buf.length pr m = fragCk buf pr m := by
  unfold fragsizeCheck fragCk
  simp only [HState.inAt, inIs_eq, hi]
  by_cases c0 : buf.length < 2
  · have c0i : (buf.length : Int) < 2 := by omega
    rw [if_pos c0i, if_pos c0]
  · have c0i : ¬ (buf.length : Int) < 2 := by omega
    rw [if_neg c0i, if_neg c0]
    by_cases c1 : buf.length ≥ 5 ∧ litAt buf "BADIP" = true
    · have c1' : ((buf.length : Int) ≥ 5 ∧ litAt buf "BADIP" = true) := ⟨by omega, c1.2⟩
      rw [if_pos c1', if_pos c1]
    · have c1' : ¬ ((buf.length : Int) ≥ 5 ∧ litAt buf "BADIP" = true) := fun ⟨a, b⟩ => c1 ⟨by omega, b⟩
      rw [if_neg c1', if_neg c1]
      by_cases c2 : buf.getD 0 0 * 256 + buf.getD 1 0 ≠ pr
      · rw [if_pos c2, if_pos c2]
      · rw [if_neg c2, if_neg c2]
        have ha : buf.getD 0 0 * 256 + buf.getD 1 0 = pr := Decidable.of_not_not c2
        by_cases c3 : buf.length = pr
        · have c3i : ¬ ((buf.length : Int) ≠ (pr : Int)) := by omega
          have c3n : ¬ buf.length ≠ pr := by omega
          rw [if_neg c3i, if_neg c3n]
          by_cases c5 : buf.length < 3
          · have c5i : (buf.length : Int) < 3 := by omega
            rw [if_pos c5i, if_pos c5, ha]
          · have c5i : ¬ (buf.length : Int) < 3 := by omega
            rw [if_neg c5i, if_neg c5]
            by_cases c4 : buf.getD 2 0 ≠ 107
            · rw [if_pos c4, if_pos c4]
            · rw [if_neg c4, if_neg c4]
              have hv : (if (buf.length : Int) > 3 then buf.getD 3 0 else 0) = (if buf.length > 3 then buf.getD 3 0 else 0) := by
                by_cases h : buf.length > 3
                · have : (buf.length : Int) > 3 := by omega
                  rw [if_pos this, if_pos h]
                · have : ¬ (buf.length : Int) > 3 := by omega
                  rw [if_neg this, if_neg h]
              rw [hv, ha]
        · have c3i : (buf.length : Int) ≠ (pr : Int) := by omega
          have c3n : buf.length ≠ pr := c3
          rw [if_pos c3i, if_pos c3n]

/-- the length guards of `fragsize_check` suffice: whatever lies in `in[]` BEHIND the reply (`junk`: what earlier replies or
the stack left there) is not looked at -/
theorem fragsizeCheck_junk (s : HState) (buf junk : List Nat) (hi : s.inb = buf ++ junk) (pr : Nat) (m : Int) :
    fragsizeCheck s buf.length pr m = fragCk buf pr m := by
  unfold fragsizeCheck fragCk
  have g : ∀ k, k < buf.length → s.inAt k = buf.getD k 0 := by
    intro k hk; unfold HState.inAt; rw [hi]; exact getD_append_lt _ _ _ hk
  have hbadip : buf.length ≥ 5 → s.inIs "BADIP" = litAt buf "BADIP" := by
    intro h5
    unfold HState.inIs litAt
    apply all_range_congr
    intro k hk
    have : (ascii "BADIP").length = 5 := by decide
    rw [g k (by omega)]
  simp only
  by_cases c0 : buf.length < 2
  · have c0i : (buf.length : Int) < 2 := by omega
    rw [if_pos c0i, if_pos c0]
  · have c0i : ¬ (buf.length : Int) < 2 := by omega
    rw [if_neg c0i, if_neg c0, g 0 (by omega), g 1 (by omega)]
    by_cases c1 : buf.length ≥ 5 ∧ litAt buf "BADIP" = true
    · have c1' : ((buf.length : Int) ≥ 5 ∧ s.inIs "BADIP" = true) := ⟨by omega, by rw [hbadip c1.1]; exact c1.2⟩
      rw [if_pos c1', if_pos c1]
    · have c1' : ¬ ((buf.length : Int) ≥ 5 ∧ s.inIs "BADIP" = true) :=
        fun ⟨a, b⟩ => c1 ⟨by omega, by rw [← hbadip (by omega)]; exact b⟩
      rw [if_neg c1', if_neg c1]
      by_cases c2 : buf.getD 0 0 * 256 + buf.getD 1 0 ≠ pr
      · rw [if_pos c2, if_pos c2]
      · rw [if_neg c2, if_neg c2]
        have ha : buf.getD 0 0 * 256 + buf.getD 1 0 = pr := Decidable.of_not_not c2
        by_cases c3 : buf.length = pr
        · have c3i : ¬ ((buf.length : Int) ≠ (pr : Int)) := by omega
          have c3n : ¬ buf.length ≠ pr := by omega
          rw [if_neg c3i, if_neg c3n]
          by_cases c5 : buf.length < 3
          · have c5i : (buf.length : Int) < 3 := by omega
            rw [if_pos c5i, if_pos c5, ha]
          · have c5i : ¬ (buf.length : Int) < 3 := by omega
            rw [if_neg c5i, if_neg c5, g 2 (by omega)]
            by_cases c4 : buf.getD 2 0 ≠ 107
            · rw [if_pos c4, if_pos c4]
            · rw [if_neg c4, if_neg c4]
              have hv : (if (buf.length : Int) > 3 then s.inAt 3 else 0) = (if buf.length > 3 then buf.getD 3 0 else 0) := by
                by_cases h : buf.length > 3
                · have : (buf.length : Int) > 3 := by omega
                  rw [if_pos this, if_pos h, g 3 h]
                · have : ¬ (buf.length : Int) > 3 := by omega
                  rw [if_neg this, if_neg h]
              have hall : ((List.range (pr - 3)).all fun j =>
                    s.inAt (3 + j) == ((if (buf.length : Int) > 3 then s.inAt 3 else 0) + 107 * j) % 256) =
                  ((List.range (pr - 3)).all fun j =>
                    buf.getD (3 + j) 0 == ((if buf.length > 3 then buf.getD 3 0 else 0) + 107 * j) % 256) := by
                rw [hv]
                apply all_range_congr
                intro k hk
                rw [g (3 + k) (by omega)]
              rw [hall, ha]
        · have c3i : (buf.length : Int) ≠ (pr : Int) := by omega
          have c3n : buf.length ≠ pr := c3
          rw [if_pos c3i, if_pos c3n]

/-- … and so do the guards of the four switch handshakes -/
theorem inIsN_junk (s : HState) (buf junk : List Nat) (hi : s.inb = buf ++ junk) (lit : String) :
    s.inIsN buf.length lit = litAtN buf lit := by
  unfold HState.inIsN litAtN
  by_cases h : buf.length ≥ (ascii lit).length
  · have hi' : (buf.length : Int) ≥ ((ascii lit).length : Int) := by omega
    simp only [hi', h, decide_true, Bool.true_and]
    unfold HState.inIs litAt
    apply all_range_congr
    intro k hk
    unfold HState.inAt
    rw [hi, getD_append_lt _ _ _ (by omega)]
  · have hi' : ¬ (buf.length : Int) ≥ ((ascii lit).length : Int) := by omega
    simp [hi', h]

/-- `max_fragsize` after the tries for size `pr` on the path -/
def probeMaxOf (π : HsPath) (pr : Nat) (m : Int) : Int :=
  match fragRes pr (π.frag pr) with
  | .ok => pr
  | .bad => m
  | .fatal => -1

theorem fragCk_fst (buf : List Nat) (pr : Nat) (m : Int) :
    (fragCk buf pr m).1 = (match fragRes pr (some buf) with | .ok => (pr : Int) | .bad => m | .fatal => -1) := by
  unfold fragCk fragRes
  simp only
  by_cases c0 : buf.length < 2
  · rw [if_pos c0, if_pos c0]
  · rw [if_neg c0, if_neg c0]
    by_cases c1 : buf.length ≥ 5 ∧ litAt buf "BADIP" = true
    · rw [if_pos c1, if_pos c1]
    · rw [if_neg c1, if_neg c1]
      by_cases c2 : buf.getD 0 0 * 256 + buf.getD 1 0 ≠ pr
      · rw [if_pos c2, if_pos c2]
      · rw [if_neg c2, if_neg c2]
        by_cases c3 : buf.length ≠ pr
        · rw [if_pos c3, if_pos c3]
        · rw [if_neg c3, if_neg c3]
          by_cases c5 : buf.length < 3
          · rw [if_pos c5, if_pos c5]
          · rw [if_neg c5, if_neg c5]
            by_cases c4 : buf.getD 2 0 ≠ 107
            · rw [if_pos c4, if_pos c4]
            · rw [if_neg c4, if_neg c4]
              by_cases c6 : ((List.range (pr - 3)).all fun j =>
                  buf.getD (3 + j) 0 == ((if buf.length > 3 then buf.getD 3 0 else 0) + 107 * j) % 256) = true
              · rw [if_pos c6, if_pos c6]
              · rw [if_neg c6, if_neg c6]

/-- a reply after which `fragsize_check` says "keep checking" leaves `max_fragsize` alone and counts as `.bad` -/
theorem fragCk_retry (buf : List Nat) (pr : Nat) (m : Int) (h : (fragCk buf pr m).2 = false) :
    fragCk buf pr m = (m, false) ∧ fragRes pr (some buf) = .bad := by
  unfold fragCk fragRes at *
  simp only at *
  by_cases c0 : buf.length < 2
  · rw [if_pos c0]; rw [if_pos c0]; exact ⟨rfl, rfl⟩
  · rw [if_neg c0] at h ⊢; rw [if_neg c0]
    by_cases c1 : buf.length ≥ 5 ∧ litAt buf "BADIP" = true
    · rw [if_pos c1]; rw [if_pos c1]; exact ⟨rfl, rfl⟩
    · rw [if_neg c1] at h ⊢; rw [if_neg c1]
      by_cases c2 : buf.getD 0 0 * 256 + buf.getD 1 0 ≠ pr
      · rw [if_pos c2]; rw [if_pos c2]; exact ⟨rfl, rfl⟩
      · rw [if_neg c2] at h
        exfalso
        by_cases c3 : buf.length ≠ pr
        · rw [if_pos c3] at h; cases h
        · rw [if_neg c3] at h
          by_cases c5 : buf.length < 3
          · rw [if_pos c5] at h; cases h
          · rw [if_neg c5] at h
            by_cases c4 : buf.getD 2 0 ≠ 107
            · rw [if_pos c4] at h; cases h
            · rw [if_neg c4] at h
              by_cases c6 : ((List.range (pr - 3)).all fun j =>
                  buf.getD (3 + j) 0 == ((if buf.length > 3 then buf.getD 3 0 else 0) + 107 * j) % 256) = true
              · rw [if_pos c6] at h; cases h
              · rw [if_neg c6] at h; cases h

theorem fragHead_lt (s : HState) (evs : List CEvent) (pr rg : Nat) (m : Int) (i : Nat) (hrun : s.c.running = true) (hi : i < 3) :
    fragHead s evs pr rg m i = s.park (sendFragsizeProbe s.c pr) evs (.frag pr rg m i) := by
  simp [fragHead, hrun, hi]

theorem reach_fragInner_retry (π : HsPath) (pr rg : Nat) (m : Int)
    (hc : π.frag pr = none ∨ ∃ buf, π.frag pr = some buf ∧ 0 < buf.length ∧ buf.length ≤ 4095 ∧ fragCk buf pr m = (m, false)) :
    ∀ k i, i + k = 3 → ∀ (s : HState) (evs : List CEvent), s.c.running = true →
      ∃ s' evs', Reaches π (fragHead s evs pr rg m i) (fragHead s' evs' pr rg m 3) ∧ Keep s s' := by
  intro k
  induction k with
  | zero =>
    intro i hi s evs _
    have : i = 3 := by omega
    subst this
    exact ⟨s, evs, Reaches.refl _, Keep.refl _⟩
  | succ k ih =>
    intro i hi s evs hrun
    have hlt : i < 3 := by omega
    rw [fragHead_lt s evs pr rg m i hrun hlt]
    rcases hc with hdn | ⟨buf, hdn, hp0, hl, hck⟩
    · have hk := keep_afterTick s (sendFragsizeProbe s.c pr) (.frag pr rg m i) (neg_sendFragsizeProbe _ _)
      obtain ⟨s', evs', h1, h2⟩ := ih (i + 1) (by omega) (afterTick s (sendFragsizeProbe s.c pr) (.frag pr rg m i)) []
        (by rw [hk.running]; exact hrun)
      refine ⟨s', evs', ?_, hk.trans h2⟩
      apply park_step_tick π _ _ _ _ rfl (by simpa [HsPath.replyAt] using hdn)
      simp only [hsGot, fragGot, show ¬ ((-3 : Int) > 0) by omega, if_false]
      exact h1
    · have hk := keep_afterReply s (sendFragsizeProbe s.c pr) (.frag pr rg m i) buf (neg_sendFragsizeProbe _ _)
      obtain ⟨s', evs', h1, h2⟩ := ih (i + 1) (by omega) (afterReply s (sendFragsizeProbe s.c pr) (.frag pr rg m i) buf) []
        (by rw [hk.running]; exact hrun)
      refine ⟨s', evs', ?_, hk.trans h2⟩
      apply park_step_reply π _ _ _ _ rfl buf (by simpa [HsPath.replyAt] using hdn) hl
      have hpos : (buf.length : Int) > 0 := by omega
      simp only [hsGot, fragGot, hpos, if_true]
      rw [fragsizeCheck_reply _ buf rfl, hck]
      simp only [Bool.false_eq_true, if_false]
      exact h1

/-- the `for` loop of `handshake_autoprobe_fragsize` for one proposed size, on the path -/
theorem reach_fragInner (π : HsPath) (hπ : π.Ok) (pr rg : Nat) (m : Int)
    (s : HState) (evs : List CEvent) (hrun : s.c.running = true) :
    ∃ s' evs', Reaches π (fragHead s evs pr rg m 0) (fragHead s' evs' pr rg (probeMaxOf π pr m) 3) ∧ Keep s s' := by
  unfold probeMaxOf
  cases hdn : π.frag pr with
  | none => exact reach_fragInner_retry π pr rg m (Or.inl hdn) 3 0 rfl s evs hrun
  | some buf =>
    have hok := hπ (.frag pr rg m 0) buf (by simpa [HsPath.replyAt] using hdn)
    cases hbrk : (fragCk buf pr m).2 with
    | false =>
      obtain ⟨hck, hres⟩ := fragCk_retry buf pr m hbrk
      rw [hres]
      exact reach_fragInner_retry π pr rg m (Or.inr ⟨buf, hdn, hok.1, hok.2, hck⟩) 3 0 rfl s evs hrun
    | true =>
      rw [← fragCk_fst]
      have hk := keep_afterReply s (sendFragsizeProbe s.c pr) (.frag pr rg m 0) buf (neg_sendFragsizeProbe _ _)
      refine ⟨_, [], ?_, hk⟩
      rw [fragHead_lt s evs pr rg m 0 hrun (by omega)]
      apply park_step_reply π _ _ _ _ rfl buf (by simpa [HsPath.replyAt] using hdn) hok.2
      have hpos : (buf.length : Int) > 0 := by omega
      simp only [hsGot, fragGot, hpos, if_true]
      rw [fragsizeCheck_reply _ buf rfl, hbrk]
      simp only [if_true]
      exact Reaches.refl _

/-- behind the `for` loop: the rest of one turn of the `while` loop -/
theorem fragHead_three (s : HState) (evs : List CEvent) (pr rg : Nat) (m : Int) (hrun : s.c.running = true) :
    fragHead s evs pr rg m 3 =
      if m < 0 then fragFinish s evs m
      else if rg / 2 > 0 ∧ (rg / 2 ≥ 8 ∨ m < 300) then
        fragHead s evs (if m = (pr : Int) then pr + rg / 2 else pr - rg / 2) (rg / 2) m 0
      else fragFinish s evs m := by
  rw [fragHead_lt s evs _ (rg / 2) m 0 hrun (by omega)]
  simp [fragHead, hrun]

/-- the `while` loop of `handshake_autoprobe_fragsize` on the path computes `C11L.fragLoop` -/
theorem reach_fragLoop (π : HsPath) (hπ : π.Ok) :
    ∀ (fuel : Nat) (st : C11L.FragSt) (s : HState) (evs : List CEvent), s.c.running = true → C11L.fragCond st = true →
      st.range < 2 ^ fuel →
      ∃ s' evs', Reaches π (fragHead s evs st.proposed st.range st.max 0)
        (fragFinish s' evs' (C11L.fragLoop (fun n => fragRes n (π.frag n)) fuel st).max) ∧ Keep s s' := by
  intro fuel
  induction fuel with
  | zero =>
    intro st s evs _ hc hr
    simp [C11L.fragCond] at hc
    omega
  | succ fuel ih =>
    intro st s evs hrun hc hr
    obtain ⟨s1, e1, h1, k1⟩ := reach_fragInner π hπ st.proposed st.range st.max s evs hrun
    have r1 : s1.c.running = true := by rw [k1.running]; exact hrun
    rw [fragHead_three s1 e1 _ _ _ r1] at h1
    have hpm : C11L.probeMax (fun n => fragRes n (π.frag n)) st = probeMaxOf π st.proposed st.max := by
      unfold C11L.probeMax probeMaxOf
      rfl
    unfold C11L.fragLoop
    simp only [hc, if_true, C11L.fragStep, hpm]
    by_cases hneg : probeMaxOf π st.proposed st.max < 0
    · simp only [hneg, if_true] at h1 ⊢
      exact ⟨s1, e1, h1, k1⟩
    · simp only [hneg, if_false] at h1 ⊢
      by_cases heq : probeMaxOf π st.proposed st.max = (st.proposed : Int)
      · simp only [heq, if_true] at h1 ⊢
        by_cases hc2 : st.range / 2 > 0 ∧ (st.range / 2 ≥ 8 ∨ (st.proposed : Int) < 300)
        · simp only [hc2, and_self, if_true] at h1
          obtain ⟨s2, e2, h2, k2⟩ := ih ⟨st.proposed + st.range / 2, st.range / 2, st.proposed, st.proposed :: st.asked⟩ s1 e1 r1
            (by simp only [C11L.fragCond]; simpa using hc2) (by show st.range / 2 < 2 ^ fuel; omega)
          exact ⟨s2, e2, h1.trans h2, k1.trans k2⟩
        · simp only [hc2, if_false] at h1
          refine ⟨s1, e1, ?_, k1⟩
          have : C11L.fragCond ⟨st.proposed + st.range / 2, st.range / 2, st.proposed, st.proposed :: st.asked⟩ = false := by
            simp only [C11L.fragCond]; simpa using hc2
          cases fuel <;> simp [C11L.fragLoop, this] <;> exact h1
      · simp only [heq, if_false] at h1 ⊢
        by_cases hc2 : st.range / 2 > 0 ∧ (st.range / 2 ≥ 8 ∨ probeMaxOf π st.proposed st.max < 300)
        · simp only [hc2, and_self, if_true] at h1
          obtain ⟨s2, e2, h2, k2⟩ := ih ⟨st.proposed - st.range / 2, st.range / 2, probeMaxOf π st.proposed st.max, st.proposed :: st.asked⟩ s1 e1 r1
            (by simp only [C11L.fragCond]; simpa using hc2) (by show st.range / 2 < 2 ^ fuel; omega)
          exact ⟨s2, e2, h1.trans h2, k1.trans k2⟩
        · simp only [hc2, if_false] at h1
          refine ⟨s1, e1, ?_, k1⟩
          have : C11L.fragCond ⟨st.proposed - st.range / 2, st.range / 2, probeMaxOf π st.proposed st.max, st.proposed :: st.asked⟩ = false := by
            simp only [C11L.fragCond]; simpa using hc2
          cases fuel <;> simp [C11L.fragLoop, this] <;> exact h1

/-! ### the end of the handshake: switch_downenc, try_lazy, fragment size -/

/-- what a finished run must show to agree with the abstract result `R` on lazy mode, return value and fragment size -/
def EndsWith (π : HsPath) (start : HOut) (s : HState) (R : C11L.HsResult) : Prop :=
  ∃ o : HOut, Reaches π start o ∧ o.1.pos = none ∧ o.2.2 = .finished R.rc ∧
    o.1.c.lazymode = R.lazymode ∧ o.1.c.dataenc = s.c.dataenc ∧ o.1.c.downenc = s.c.downenc ∧ o.1.c.edns0 = s.c.edns0 ∧
    (∀ f, R.setFrag = some f → ∃ (sm : HState) (em : List CEvent) (fi : Int), Reaches π start (setFragEnter sm em fi) ∧ fi.toNat = f)

/-- from `if (autodetect_frag_size)` on -/
theorem reach_afterLazy (π : HsPath) (hπ : π.Ok)
    (s : HState) (evs : List CEvent) (hrun : s.c.running = true) :
    ∃ o : HOut, Reaches π (afterLazy s evs) o ∧ o.1.pos = none ∧ Keep s o.1 ∧
      (if s.args.autoFrag then
         (if C11L.autoprobeFragsize (fun n => fragRes n (π.frag n)) = 0 then o.2.2 = .finished 1
          else o.2.2 = .finished 0 ∧ ∃ (sm : HState) (em : List CEvent) (fi : Int), Reaches π (afterLazy s evs) (setFragEnter sm em fi) ∧
            fi.toNat = C11L.autoprobeFragsize (fun n => fragRes n (π.frag n)))
       else o.2.2 = .finished 0 ∧ ∃ (sm : HState) (em : List CEvent) (fi : Int), Reaches π (afterLazy s evs) (setFragEnter sm em fi) ∧
            fi.toNat = s.args.fragsize.toNat) := by
  have fin : ∀ (sa : HState) (ea : List CEvent) (f : Int), sa.c.running = true →
      ∃ o : HOut, Reaches π (setFragEnter sa ea f) o ∧ o.1.pos = none ∧ Keep sa o.1 ∧ o.2.2 = .finished 0 := by
    intro sa ea f ra
    obtain ⟨s4, e4, h4, k4⟩ := reach_setFrag π hπ f { sa with inb := [] } ea ra
    have r4 : s4.c.running = true := by rw [k4.running]; exact ra
    refine ⟨hsEnd s4 e4, h4, rfl, Keep.trans ⟨rfl, rfl⟩ k4, ?_⟩
    simp [hsEnd, HState.done, r4]
  have hnr : ¬ ((!s.c.running) = true) := by simp [hrun]
  unfold afterLazy
  simp only [hnr]
  by_cases ha : s.args.autoFrag = true
  · simp only [ha, if_true]
    have hE : fragEnter s evs = fragHead { s with inb := [] } evs 768 768 0 0 := by simp [fragEnter, hrun]
    rw [hE]
    obtain ⟨s3, e3, h3', k3⟩ := reach_fragLoop π hπ 10 C11L.fragInit { s with inb := [] } evs hrun (by decide) (by decide)
    have r3 : s3.c.running = true := by rw [k3.running]; exact hrun
    have hM : (C11L.fragLoop (fun n => fragRes n (π.frag n)) 10 C11L.fragInit).max = (C11L.fragSearch (fun n => fragRes n (π.frag n))).max := rfl
    rw [hM] at h3'
    have h3'' : Reaches π (fragHead { s with inb := [] } evs 768 768 0 0)
        (fragFinish s3 e3 (C11L.fragSearch (fun n => fragRes n (π.frag n))).max) := h3'
    unfold C11L.autoprobeFragsize
    simp only
    by_cases hm : (C11L.fragSearch (fun n => fragRes n (π.frag n))).max ≤ 2
    · simp only [hm, if_true]
      refine ⟨fragFinish s3 e3 (C11L.fragSearch (fun n => fragRes n (π.frag n))).max, h3'', ?_, ?_, ?_⟩
      · simp [fragFinish, r3, hm, HState.done]
      · simp only [fragFinish, r3, hm, HState.done]
        simp only [Bool.not_true, Bool.false_eq_true, if_false, if_true]
        exact ⟨k3.1, k3.2⟩
      · simp [fragFinish, r3, hm, HState.done]
    · simp only [hm, if_false]
      have hne : ¬ ((C11L.fragSearch (fun n => fragRes n (π.frag n))).max - 2).toNat = 0 := by omega
      simp only [hne, if_false]
      have hF : fragFinish s3 e3 (C11L.fragSearch (fun n => fragRes n (π.frag n))).max =
          setFragEnter s3 e3 ((C11L.fragSearch (fun n => fragRes n (π.frag n))).max - 2) := by
        have : ¬ ((C11L.fragSearch (fun n => fragRes n (π.frag n))).max - 2 = 0) := by omega
        simp [fragFinish, r3, hm, this]
      rw [hF] at h3''
      obtain ⟨o, ho, hp, hk, hr⟩ := fin s3 e3 _ r3
      exact ⟨o, h3''.trans ho, hp, (Keep.trans ⟨rfl, rfl⟩ k3).trans hk, hr, s3, e3, _, h3'', rfl⟩
  · simp only [ha]
    obtain ⟨o, ho, hp, hk, hr⟩ := fin s evs s.args.fragsize hrun
    exact ⟨o, ho, hp, hk, hr, s, evs, _, Reaches.refl _, rfl⟩

theorem tail_rc (cfg : C11L.HsCfg) (P : C11L.HsProbes) :
    if cfg.autoFrag then
      (if C11L.autoprobeFragsize P.frag = 0 then
         (C11L.clientHandshakeTail cfg P).rc = 1 ∧ (C11L.clientHandshakeTail cfg P).setFrag = none
       else (C11L.clientHandshakeTail cfg P).rc = 0 ∧
         (C11L.clientHandshakeTail cfg P).setFrag = some (C11L.autoprobeFragsize P.frag))
    else (C11L.clientHandshakeTail cfg P).rc = 0 ∧ (C11L.clientHandshakeTail cfg P).setFrag = some cfg.fragsize := by
  unfold C11L.clientHandshakeTail
  simp only
  split
  · split <;> exact ⟨rfl, rfl⟩
  · exact ⟨rfl, rfl⟩

/-- **the refinement**: from `dnsc_use_edns0 = 1` on (DNS mode), the handshake machine driven by the path `π` returns,
with the return value, EDNS0 flag, upstream codec, downstream codec and lazy mode that the abstract negotiation
`C11L.clientHandshakeTail` computes from the path's probe outcomes, and it asks `handshake_set_fragsize` for the abstract
fragment size -/
theorem hs_refines (π : HsPath) (hπ : π.Ok)
    (s : HState) (evs : List CEvent) (hrun : s.c.running = true) (henc : s.c.dataenc = .b32) :
    ∃ o : HOut, Reaches π (dnsBranch s evs) o ∧ o.1.pos = none ∧
      o.2.2 = .finished (C11L.clientHandshakeTail (cfgOf s) π.probes).rc ∧
      o.1.c.edns0 = (C11L.clientHandshakeTail (cfgOf s) π.probes).edns0 ∧
      bitsOf o.1.c.dataenc = (C11L.clientHandshakeTail (cfgOf s) π.probes).upBits ∧
      o.1.c.downenc = (C11L.clientHandshakeTail (cfgOf s) π.probes).downenc ∧
      o.1.c.lazymode = (C11L.clientHandshakeTail (cfgOf s) π.probes).lazymode ∧
      (∀ f, (C11L.clientHandshakeTail (cfgOf s) π.probes).setFrag = some f →
        ∃ (sm : HState) (em : List CEvent) (fi : Int), Reaches π (dnsBranch s evs) (setFragEnter sm em fi) ∧ fi.toNat = f) := by
  obtain ⟨s5, e5, base, r5, a5, q5, l5, t5, ed5, b5, d5⟩ := reach_codecs π hπ s evs hrun henc
  -- handshake_switch_downenc
  obtain ⟨s6, e6, h6, k6⟩ : ∃ s6 e6, Reaches π (afterDownenc s5 e5) (afterSwitchDown s6 e6) ∧ Keep s5 s6 := by
    have hnr : ¬ ((!s5.c.running) = true) := by simp [r5]
    unfold afterDownenc
    simp only [hnr]
    by_cases hd : s5.c.downenc ≠ 32
    · rw [if_neg (by simp), if_pos hd]
      obtain ⟨s6, e6, h6, k6⟩ := reach_switchDown π hπ { s5 with inb := [] } e5 r5
      exact ⟨s6, e6, h6, Keep.trans ⟨rfl, rfl⟩ k6⟩
    · rw [if_neg (by simp), if_neg hd]
      exact ⟨s5, e5, Reaches.refl _, Keep.refl _⟩
  have r6 : s6.c.running = true := by rw [k6.running]; exact r5
  -- handshake_try_lazy
  obtain ⟨s7, e7, h7, r7, a7, l7, d7, dn7, ed7⟩ : ∃ s7 e7, Reaches π (afterSwitchDown s6 e6) (afterLazy s7 e7) ∧
      s7.c.running = true ∧ s7.args = s6.args ∧ s7.c.lazymode = (if s6.c.lazymode then π.lazyAck else false) ∧
      s7.c.dataenc = s6.c.dataenc ∧ s7.c.downenc = s6.c.downenc ∧ s7.c.edns0 = s6.c.edns0 := by
    have hnr : ¬ ((!s6.c.running) = true) := by simp [r6]
    unfold afterSwitchDown
    simp only [hnr]
    by_cases hl : s6.c.lazymode = true
    · simp only [hl, if_true]
      obtain ⟨s7, e7, h7, n7, a7⟩ := reach_lazy π hπ { s6 with inb := [] } e6 r6
      refine ⟨s7, e7, h7, ?_, a7, ?_, ?_, ?_, ?_⟩
      · have := congrArg Neg.running n7; simpa [neg, r6] using this
      · have := congrArg Neg.lazymode n7; simpa [neg] using this
      · have := congrArg Neg.dataenc n7; simpa [neg] using this
      · have := congrArg Neg.downenc n7; simpa [neg] using this
      · have := congrArg Neg.edns0 n7; simpa [neg] using this
    · have hl' : s6.c.lazymode = false := by simpa using hl
      simp only [hl', Bool.false_eq_true, if_false]
      exact ⟨s6, e6, Reaches.refl _, r6, rfl, hl', rfl, rfl, rfl⟩
  -- fragment size
  obtain ⟨o, ho, hp, hk, hrc⟩ := reach_afterLazy π hπ s7 e7 r7
  have tf := tail_fields (cfgOf s) π.probes
  have trc := tail_rc (cfgOf s) π.probes
  have hauto : s7.args.autoFrag = (cfgOf s).autoFrag := by rw [a7, k6.2, a5]; rfl
  have hfs : s7.args.fragsize.toNat = (cfgOf s).fragsize := by rw [a7, k6.2, a5]; rfl
  have start7 := base.trans (h6.trans h7)
  refine ⟨o, start7.trans ho, hp, ?_, ?_, ?_, ?_, ?_, ?_⟩
  · -- return value
    rw [hauto] at hrc
    cases hA : (cfgOf s).autoFrag <;> simp only [hA, Bool.false_eq_true, if_false, if_true] at hrc trc
    · rw [trc.1]; exact hrc.1
    · by_cases h0 : C11L.autoprobeFragsize π.probes.frag = 0
      · have h0' : C11L.autoprobeFragsize (fun n => fragRes n (π.frag n)) = 0 := h0
        simp only [h0, if_true] at trc
        simp only [h0', if_true] at hrc
        rw [trc.1]; exact hrc
      · have h0' : ¬ C11L.autoprobeFragsize (fun n => fragRes n (π.frag n)) = 0 := h0
        simp only [h0, if_false] at trc
        simp only [h0', if_false] at hrc
        rw [trc.1]; exact hrc.1
  · rw [hk.edns0, ed7, k6.edns0]; exact ed5
  · rw [hk.dataenc, d7, k6.dataenc]; exact b5
  · rw [hk.downenc, dn7, k6.downenc]; exact d5
  · rw [hk.lazymode, l7, k6.lazymode, l5, tf.2.2.2]; rfl
  · intro f hf
    rw [hauto] at hrc
    cases hA : (cfgOf s).autoFrag <;> simp only [hA, Bool.false_eq_true, if_false, if_true] at hrc trc
    · obtain ⟨_, sm, em, fi, hr, hfi⟩ := hrc
      rw [trc.2] at hf
      injection hf with hf
      exact ⟨sm, em, fi, start7.trans hr, by rw [hfi, hfs, hf]⟩
    · by_cases h0 : C11L.autoprobeFragsize π.probes.frag = 0
      · simp only [h0, if_true] at trc
        rw [trc.2] at hf; cases hf
      · have h0' : ¬ C11L.autoprobeFragsize (fun n => fragRes n (π.frag n)) = 0 := h0
        simp only [h0, if_false] at trc
        simp only [h0', if_false] at hrc
        obtain ⟨_, sm, em, fi, hr, hfi⟩ := hrc
        rw [trc.2] at hf
        injection hf with hf
        exact ⟨sm, em, fi, start7.trans hr, by rw [hfi]; exact hf⟩

end Iodine.Client
