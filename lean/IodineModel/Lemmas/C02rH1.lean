import IodineModel.Lemmas.C02qO3
/-
C02 / lazy mode, overlapping transfers — server side: an upstream fragment that is NOT the last one arrives while the
server holds NO query (`q.id = 0`, `qs.id = 0`) and has NO downstream packet in flight (`outpacket.len = 0`, e.g. the
only fragment of a one-fragment packet was sent and dropped already).  The upstream fragment is stored; the new query is
answered at once with a DATALESS packet that acknowledges it, and remembered.
-/
namespace Iodine.C02L
open Iodine Iodine.Gen Iodine.Server Iodine.World

/-- a fragment that is not the last one on a slot that holds no query and has nothing to send downstream: stored, and the
query is answered at once with a dataless packet that acknowledges it (`dataSess_imm_mid` without the `lazy = false`) -/
theorem dataSess_noq_mid_idle_rO (x : Session) (u : Nat) (Q : Query) (h : UpHdr) (payload : List Nat) (now : Nat) (I : Packet)
    (hout : x.outpacket.len = 0) (hq : x.q.id = 0) (hqs : x.qs.id = 0) (hlast : h.last = false) (hid2 : Q.id2 = 0)
    (hup : dataUpstream x h.upSeq h.upFrag = ({ x with inpacket := I }, true)) :
    dataSess x u Q h payload now =
      (let y := saveQ (stored x I payload) Q now
       ({ cacheUpd (qmemUpd y Q) Q (scPkt y 0) with q := { Q with id := 0 } }, [writeDns Q (scPkt y 0) y.downenc (.chunk u)])) := by
  unfold dataSess
  rw [dataASess_accept x h payload I hout hup]
  simp only [hlast, Bool.false_eq_true, and_false, if_false]
  have e1 : stepQsSess (stored x I payload) u = ((stored x I payload, []), false) := by
    simp [stepQsSess, stored, dataStore, hqs]
  rw [e1]
  simp only
  have e2 : stepQSess (stored x I payload) u true false false = ((stored x I payload, []), false) := by
    simp [stepQSess, stored, dataStore, hq]
  rw [e2]
  simp only
  have e3 : stepFinalSess (saveQ (stored x I payload) Q now) u true false false =
      (scSess (saveQ (stored x I payload) Q now) u .q).1 := by
    simp [stepFinalSess, saveQ, stored, dataStore, hout]
  rw [e3, scSess_dataless _ _ _ (by simp [saveQ, stored, dataStore, hout]) (by simp [QSel.get, saveQ, hid2])]
  simp [QSel.get, QSel.set, saveQ]

theorem srv_recv_mid_noq_idle {P : Par} (hP : P.Ok) {s : Srv} (hS : SStat P s) (hp : PingSrvL P s)
    (hout : (getUser s P.u).outpacket.len = 0)
    {k sd : Nat} (hk : k < 36) (hA : Aged P (getUser s P.u) k 1) (hPA : PAged P (getUser s P.u) sd 1)
    {Q : Query} {sq fr : Nat} {dsq dfr : Int} {out : List Nat} {o m : Nat}
    (hQ : UpQ P Q ⟨sq, fr, dsq, dfr, false⟩ k ((out.drop o).take m))
    (hE : Expect (getUser s P.u) out sq o fr) (hsq : sq < 8) (hfr : fr < 16)
    (hm : o + m ≤ out.length) (h64 : out.length ≤ 65536) :
    ∃ s' evs t pkt, iteration s (.q Q) s.now = (s', evs, t) ∧
      downOfEvents evs = [.ans Q.id Q.type Q.name pkt] ∧ tunOfSEvents evs = [] ∧
      PingSrvL P s' ∧ (getUser s' P.u).outpacket = (getUser s P.u).outpacket ∧
      Expect (getUser s' P.u) out sq (o + m) (fr + 1) ∧
      (getUser s' P.u).tunIp = (getUser s P.u).tunIp ∧ (getUser s' P.u).fragsize = (getUser s P.u).fragsize ∧ s'.now = s.now ∧
      (pkt.length : Int) = 2 ∧ (Client.decodeHdr pkt).dnSeq = (getUser s P.u).outpacket.seqno ∧
      (Client.decodeHdr pkt).upSeq = (sq : Int) ∧ (Client.decodeHdr pkt).upFrag = (fr : Int) ∧
      Aged P (getUser s' P.u) ((k + 1) % 36) 1 ∧ PAged P (getUser s' P.u) sd 1 := by
  obtain ⟨dlen, hdl, h6, hparse, hpl⟩ := hQ.parse
  have htop := topSess_live hS
  have hu := hS.solo.lt
  have hF := hA.fresh hk (by omega)
  -- the slot at the top of the loop
  generalize hx0 : ({ getUser s P.u with qsNew := false } : Session) = x0 at htop
  have hx0s : XStat P x0 := by subst hx0; exact ⟨hS.x.active, hS.x.auth, hS.x.enabled, hS.x.conn, hS.x.enc, hS.x.oseq, hS.x.ofrag, hS.x.iseq, hS.x.ifrag⟩
  have hx0o : x0.outpacket = (getUser s P.u).outpacket := by subst hx0; rfl
  have hx0out : x0.outpacket.len = 0 := by rw [hx0o]; exact hout
  have hx0q : x0.q.id = 0 := by subst hx0; exact hp.q
  have hx0qs : x0.qs.id = 0 := by subst hx0; exact hp.qs
  have hx0lz : x0.lazy = true := by subst hx0; exact hp.lz
  have hx0oq : x0.oqFilled = 0 := by subst hx0; exact hp.oq
  have hx0res : x0.outfragresent = (getUser s P.u).outfragresent := by subst hx0; rfl
  have hx0f : Fresh P x0 k (0 + 1) := by subst hx0; exact ⟨hF.cache, hF.qmem⟩
  have hx0e : Expect x0 out sq o fr := by subst hx0; exact hE
  have hx0h : x0.host = (getUser s P.u).host := by subst hx0; rfl
  have hx0t : x0.tunIp = (getUser s P.u).tunIp := by subst hx0; rfl
  have hx0fs : x0.fragsize = (getUser s P.u).fragsize := by subst hx0; rfl
  have hx0A : Aged P x0 ((k + 1) % 36) 2 := by subst hx0; exact (hA.step hk (by omega)).congr rfl rfl rfl rfl
  have hx0PA : PAged P x0 sd 1 := by subst hx0; exact hPA.congr rfl rfl rfl rfl
  obtain ⟨I, hup, hI⟩ := accept_of_expect hx0e hx0s.iseq
  have hit := iteration_data hS.solo Q s.now dlen hP.hu (by rw [hS.td]; exact hdl) h6 hQ.c0 (hQ.ty ▸ hP.tty) hQ.id
    (admitted_entry hS Q hQ.from_)
    (by rw [htop]; exact hx0f.cacheMiss Q hQ.ty hQ.c0 hQ.c4 hk)
    (by rw [htop]; exact hx0f.qmemMiss Q hQ.ty hQ.c4 hk)
    (by rw [htop]; exact Or.inl hx0q) (by rw [htop]; exact Or.inl hx0qs)
    (by rw [hparse]; intro h; cases h)
  rw [htop, hparse, dataSess_noq_mid_idle_rO x0 P.u Q _ _ s.now I hx0out hx0q hx0qs rfl hQ.id2 hup] at hit
  simp only at hit
  obtain ⟨e1, e2, e3, e4, e5, _⟩ := expect_stored hP (sq := sq) (f := fr) hx0s.enc _ hpl hI hm h64
  generalize hst : stored x0 I ((Q.name.take (min dlen 512)).drop 5) = st at hit e1 e2 e3 e4 e5
  have hstc : core st = core { x0 with inpacket := st.inpacket } := by
    subst hst; unfold stored dataStore; rfl
  have hstA : Aged P st ((k + 1) % 36) 2 := by subst hst; exact hx0A.congr rfl rfl rfl rfl
  have hstPA : PAged P st sd 1 := by subst hst; exact hx0PA.congr rfl rfl rfl rfl
  -- the slot `send_chunk_or_dataless` works on
  generalize hy : saveQ st Q s.now = y at hit
  have hyc : core y = core { x0 with inpacket := st.inpacket, q := Q, lastPkt := s.now } := by
    subst hy
    have := hstc
    unfold core at this ⊢
    unfold saveQ
    simp only [Session.mk.injEq] at this ⊢
    simp [this]
  have hyo : y.outpacket = x0.outpacket := by have h9 := core_outpacket hyc; exact h9
  have hyin : y.inpacket = st.inpacket := by have h9 := core_inpacket hyc; exact h9
  have hyA : Aged P y ((k + 1) % 36) 2 := by subst hy; exact hstA.congr rfl rfl rfl rfl
  have hyPA : PAged P y sd 1 := by subst hy; exact hstPA.congr rfl rfl rfl rfl
  have hAm := hyA.memo Q (scPkt y 0) (scPkt0_len y) k 1 ⟨by omega, by omega⟩ (behind_next k hk) hk hQ.c4 hQ.len5
    (by rw [hQ.c0]; exact hexLower_ne_p hP.hu)
  have hPm := hyPA.memo_data hP.hu Q (scPkt y 0) (scPkt0_len y) hQ.len5 hQ.c0
  generalize hY : ({ cacheUpd (qmemUpd y Q) Q (scPkt y 0) with q := { Q with id := 0 } } : Session) = Y at hit
  have hYA : Aged P Y ((k + 1) % 36) 1 := by subst hY; exact hAm.congr rfl rfl rfl rfl
  have hYPA : PAged P Y sd 1 := by subst hY; exact hPm.congr rfl rfl rfl rfl
  have hYc : core Y = core { x0 with inpacket := st.inpacket, q := { Q with id := 0 }, lastPkt := s.now } := by
    subst hY
    have h1 := core_memo y Q (scPkt y 0)
    have h3 := hyc
    unfold core at h1 h3 ⊢
    simp only [Session.mk.injEq] at h1 h3 ⊢
    simp [h1, h3]
  have fA : Y.active = x0.active := by have h9 := core_active hYc; exact h9
  have fB : Y.authenticated = x0.authenticated := by have h9 := core_authenticated hYc; exact h9
  have fC : Y.disabled = x0.disabled := by have h9 := core_disabled hYc; exact h9
  have fD : Y.conn = x0.conn := by have h9 := core_conn hYc; exact h9
  have fE : Y.encoder = x0.encoder := by have h9 := core_encoder hYc; exact h9
  have fF : Y.outpacket = x0.outpacket := by have h9 := core_outpacket hYc; exact h9
  have fG : Y.inpacket = st.inpacket := by have h9 := core_inpacket hYc; exact h9
  have fH : Y.q = { Q with id := 0 } := by have h9 := core_q hYc; exact h9
  have fI : Y.qs = x0.qs := by have h9 := core_qs hYc; exact h9
  have fJ : Y.lazy = x0.lazy := by have h9 := core_lazy hYc; exact h9
  have fK : Y.host = x0.host := by have h9 := core_host hYc; exact h9
  have fL : Y.lastPkt = s.now := by have h9 := core_lastPkt hYc; exact h9
  have fQ : Y.oqFilled = x0.oqFilled := by have h9 := core_oqFilled hYc; exact h9
  have fT : Y.tunIp = x0.tunIp := by have h9 := core_tunIp hYc; exact h9
  have fS : Y.fragsize = x0.fragsize := by have h9 := core_fragsize hYc; exact h9
  have fR : Y.outfragresent = x0.outfragresent := by have h9 := core_outfragresent hYc; exact h9
  -- the sweep does nothing: no query is parked
  have hsw : sweepSess Y P.u s.now = (Y, []) := by
    unfold sweepSess
    rw [if_neg (by intro hc; apply hc.2.1; rw [fI]; exact hx0qs)]
  rw [hsw] at hit
  dsimp only at hit
  have hg : getUser { putUser s P.u Y with now := s.now } P.u = Y := by
    rw [getUser_withNow, getUser_putUser_self _ _ _ hu]
  have hy1 : 0 ≤ y.inpacket.seqno ∧ y.inpacket.seqno < 8 := by rw [hyin, e1]; omega
  have hy2 : 0 ≤ y.inpacket.fragment ∧ y.inpacket.fragment < 16 := by rw [hyin, e2]; omega
  obtain ⟨a1, a2, a3, a4⟩ := ack_hdr (x := getUser s P.u) (y := y) (pkt := scPkt y 0) rfl hy1 hy2 (hyo.trans hx0o) hS.x.oseq hS.x.ofrag
  have hstat' : SStat P { putUser s P.u Y with now := s.now } := by
    refine ⟨(hS.solo.putUser Y).withNow _, hS.td, ?_, ?_, ?_⟩
    · rw [hg]
      refine ⟨fA ▸ hx0s.active, fB ▸ hx0s.auth, fC ▸ hx0s.enabled, fD ▸ hx0s.conn, fE ▸ hx0s.enc, fF ▸ hx0s.oseq, fF ▸ hx0s.ofrag, ?_, ?_⟩
      · rw [fG, e1]; omega
      · rw [fG, e2]; omega
    · rw [hg, fK, hx0h]; exact hS.host
    · rw [hg, fL]; show s.now < s.now + 60; omega
  refine ⟨_, _, _, scPkt y 0, hit, ?_, ?_, ?_, ?_, ?_, ?_, ?_, rfl, a1, a2, ?_, ?_, ?_, ?_⟩
  · simp only [List.append_nil, downOfEvents_append, downOfEvents_sweep, downOfEvents_writeDns _ _ _ _ hQ.from_]
  · simp only [List.append_nil, tunOfSEvents_append, tunOfSEvents_writeDns, tunOfSEvents_sweep]
  · refine ⟨hstat', ?_, ?_, ?_, ?_, ?_⟩
    · rw [hg, fH]
    · rw [hg, fI]; exact hx0qs
    · rw [hg, fJ]; exact hx0lz
    · rw [hg, fQ]; exact hx0oq
    · rw [hg, fR, hx0res]; exact hp.res
  · rw [hg, fF, hx0o]
  · rw [hg]
    right
    rw [fG]
    refine ⟨by omega, e1, by rw [e2]; omega, e3, e4, by rw [e5]; exact List.take_take .. |>.trans (by simp)⟩
  · rw [hg, fT, hx0t]
  · rw [hg, fS, hx0fs]
  · rw [a3, hyin, e1]
  · rw [a4, hyin, e2]
  · rw [hg]; exact hYA
  · rw [hg]; exact hYPA

#print axioms srv_recv_mid_noq_idle

end Iodine.C02L
