import IodineModel.Lemmas.C02d7
/-
Downstream transfer in immediate mode, world level: the shared steps (offer, poll, ping reaches the server).
-/
namespace Iodine.C02L
open Iodine Iodine.Gen Iodine.World

/-! ### the poll: `tickC` with nothing in flight -/

theorem stepC_tick (w : W) (cs' : Client.CState) (evs : List Client.CEvent) (nx : Client.Next)
    (h : Client.cstep w.cs .tick = (cs', evs, nx)) :
    stepC w .tick = { w with cs := cs', srv := { w.srv with now := w.srv.now + (cs'.c.now - w.cs.c.now) },
                             up := w.up ++ upOfEvents evs, tunC := w.tunC ++ tunOfCEvents evs } := by
  unfold stepC
  simp only [h]

theorem step_tickC (w : W) : step w .tickC = stepC w .tick := rfl

/-- the server with its clock advanced keeps its static facts as long as the session stays alive -/
theorem SStat.advance {P : Par} {s : Server.Srv} (h : SStat P s) (dt : Nat)
    (hl : s.now + dt < (Server.getUser s P.u).lastPkt + 60) : SStat P { s with now := s.now + dt } :=
  ⟨h.solo.withNow _, h.td, h.x, h.host, hl⟩

/-- The client's `select` times out with nothing in flight and nothing being sent: a ping goes out.  `T` = whole seconds
of the timeout; both clocks advance by it. -/
theorem poll_step {P : Par} (hP : P.Ok) {w : W} (hph : w.cs.ph = .tunnel) (hc : CStat P w.cs.c)
    (hs : Client.isSending w.cs.c = false) (hup : w.up = []) (hdown : w.down = [])
    (hto : (Client.selectOf w.cs.c).to < 10000000) (hts : timeoutS w = 10000000)
    (hexp : ¬ w.cs.c.lastdownstreamtime + 60 < w.cs.c.now + ((Client.selectOf w.cs.c).to / 1000000).toNat)
    (hnq : quiet P.u w = false) :
    ∃ name c1, step w (promptEv w) =
        { w with cs := ⟨pingState c1, .tunnel⟩,
                 srv := { w.srv with now := w.srv.now + ((Client.selectOf w.cs.c).to / 1000000).toNat },
                 up := [.query (pingState c1).chunkid P.ty name] } ∧
      c1 = Client.advanceClock w.cs.c (Client.selectOf w.cs.c) ∧
      PingQ P (upQuery (pingState c1).chunkid P.ty name) w.cs.c.inpkt.seqno w.cs.c.inpkt.fragment w.cs.c.randSeed := by
  have hcs := cstate_eta w.cs hph
  generalize hc1 : Client.advanceClock w.cs.c (Client.selectOf w.cs.c) = c1
  have hfr : c1 = { w.cs.c with now := c1.now } := by rw [← hc1]; rfl
  have hnow : c1.now = w.cs.c.now + ((Client.selectOf w.cs.c).to / 1000000).toNat := by rw [← hc1]; rfl
  have hc1st : CStat P c1 := by
    rw [hfr]
    exact ⟨hc.running, hc.conn, hc.imm, hc.uid, hc.uch, hc.td, hc.L, hc.enc, hc.ty, hc.cid, hc.cmc,
      by show ¬ w.cs.c.lastdownstreamtime + 60 < c1.now; rw [hnow]; exact hexp, hc.oseq, hc.iseq, hc.ifrag, hc.seed⟩
  obtain ⟨name, hsend, hpq⟩ := sendPing_ready hP hc1st
  have hpe : promptEv w = .tickC := by
    unfold promptEv
    have htc : timeoutC w = some (Client.selectOf w.cs.c).to := by
      unfold timeoutC Client.pending
      rw [hph]
    simp only [hup, hdown, List.isEmpty_nil, Bool.not_true, Bool.false_eq_true, if_false, htc, hts]
    rw [if_neg (by omega)]
  have hstep : Client.cstep w.cs .tick = (⟨pingState c1, .tunnel⟩, [.query (pingState c1).chunkid P.ty name],
      .sel (Client.selectOf (pingState c1))) := by
    rw [hcs]
    show Client.tunnelStep w.cs.c .tick = _
    rw [tunnelStep_tick w.cs.c hc.running (by rw [advanceClock_now]; exact hexp), hc1,
      timeoutBranch_idle c1 (by rw [hfr]; exact hs)]
    have hrun : (Client.rotateChunkid { c1 with randSeed := (c1.randSeed + 1) % 65536 }).running = true := by
      have : (Client.rotateChunkid { c1 with randSeed := (c1.randSeed + 1) % 65536 }).running = c1.running := by
        simp [Client.rotateChunkid]
      rw [this]; exact hc1st.running
    rw [settle_afterSend _ _ _ (by rw [hsend]) (by rw [hsend]; exact hrun), hsend]
    have e : ({ Client.rotateChunkid { c1 with randSeed := (c1.randSeed + 1) % 65536 } with sendPingSoon := 0 } : Client.Cli) =
        pingState c1 := by unfold pingState; rfl
    simp only [List.nil_append]
    rw [e]
    have e2 : (Client.rotateChunkid { c1 with randSeed := (c1.randSeed + 1) % 65536 }).chunkid = (pingState c1).chunkid := by
      rw [← e]
    rw [e2]
  refine ⟨name, c1, ?_, rfl, ?_⟩
  · rw [hpe, step_tickC, stepC_tick w _ _ _ hstep, hup]
    have hn2 : (pingState c1).now - w.cs.c.now = ((Client.selectOf w.cs.c).to / 1000000).toNat := by
      rw [(pingFacts c1).now, hnow]; omega
    simp only [hn2, List.nil_append, upOfEvents, tunOfCEvents, List.append_nil]
  · have e1 : c1.inpkt = w.cs.c.inpkt := by rw [hfr]
    have e2 : c1.randSeed = w.cs.c.randSeed := by rw [hfr]
    have e3 : (pingState c1).chunkid = (Client.rotateChunkid { c1 with randSeed := (c1.randSeed + 1) % 65536 }).chunkid := by
      simp [pingState]
    rw [← e1, ← e2, e3]
    exact hpq

/-! ### the ping reaches the server -/

theorem ping_up_step {P : Par} (hP : P.Ok) {w : W} {Q : Server.Query} {a b : Int} {sd k : Nat}
    (hup : w.up = [.query Q.id Q.type Q.name]) (hQe : upQuery Q.id Q.type Q.name = Q) (hdown : w.down = [])
    (hS : SStat P w.srv) (hq : (Server.getUser w.srv P.u).q.id = 0) (hqs : (Server.getUser w.srv P.u).qs.id = 0)
    (hlz : (Server.getUser w.srv P.u).lazy = false) (hoq : (Server.getUser w.srv P.u).oqFilled = 0)
    (hres : (Server.getUser w.srv P.u).outfragresent ≤ 5) (hQ : PingQ P Q a b sd)
    (hA : Aged P (Server.getUser w.srv P.u) k 1) (hPA : PAged P (Server.getUser w.srv P.u) sd 1) :
    ∃ s' pkt, step w (promptEv w) = { w with up := [], srv := s', down := [.ans Q.id Q.type Q.name pkt] } ∧
      quiet P.u w = false ∧ AfterPing P w.srv s' Q a b pkt ∧
      Aged P (Server.getUser s' P.u) k 1 ∧ PAged P (Server.getUser s' P.u) ((sd + 1) % 65536) 1 := by
  obtain ⟨s', evs, t, pkt, hit, hd, ht, hap, hA', hP'⟩ := srv_ping_imm hP hS hq hqs hlz hoq hres hQ hA hPA
  refine ⟨s', pkt, ?_, quiet_false_of_up _ _ _ _ hup, hap, hA', hP'⟩
  rw [promptEv_up w _ _ hup, step_deliverUp w _ _ hup, srvInput_query, hQe,
    stepS_zero { w with up := [] } _ s' evs t hit, hd, ht]
  simp [hdown]

end Iodine.C02L
