import IodineModel.Lemmas.C01e
import IodineModel.Props.C16
/-
Helper lemmas for C01, part f: a NEW data query of an established session gets to `dataFresh` (bridge to the vocabulary
of C16: `Accepted`, cache hit, query-memory hit, pending duplicate), and the step of the run that feeds the next fragment.
-/
namespace Iodine.C01L
open Iodine Iodine.Server Iodine.Gen

theorem rememberDuplicate_none {e : Srv} {q : Query} {u : Nat} (hp : ¬ C16.PendingInQ e q u)
    (hps : ¬ C16.PendingInQs e q u) : rememberDuplicate e u q = none := by
  unfold rememberDuplicate
  dsimp only
  rw [if_neg, if_neg]
  · rintro ⟨a, b, c⟩; exact hps ⟨a, b.symm, c.symm⟩
  · rintro ⟨a, b, c, d⟩; exact hp ⟨a, b.symm, c.symm, d⟩

/-- a data query of the established session `u` that is in neither the answer cache nor the query memory and is not a
repeat of a held query is processed by `dataFresh` -/
theorem dispatch_newData {e : Srv} {q : Query} {u : Nat} (ts : Bool) (ha : C16.Accepted e q u)
    (hd : C16.IsData q.name) (hc : dnscacheFind (getUser e u) q DNSCACHE_LEN 0 = none)
    (hq : ¬ C16.QmemHit e q u) (hp : ¬ C16.PendingInQ e q u) (hps : ¬ C16.PendingInQs e q u) :
    dispatch e (.q q) ts = dataFresh e u q (inbOfQ e q) ∧ u < e.users.length := by
  have hlt : u < e.users.length := lt_length_of_active ha.2.2.2.1.2.1
  refine ⟨?_, hlt⟩
  rcases C16.dispatch_accepted ts ha with ⟨hpi, _⟩ | ⟨_, h⟩
  · exfalso; unfold C16.IsPing at hpi; unfold C16.IsData at hd; omega
  · rw [h]
    unfold C16L.dataFilters answerFromDnscache
    simp only [hc]
    have hqm : answerFromQmemData e u q = none := by
      unfold answerFromQmemData answerFromQmem
      rw [if_neg]
      intro hany
      apply hq
      right
      refine ⟨hd, ?_⟩
      rw [C16.dataPrint_eq]
      exact (C16.remembered_iff _ _ _).mpr hany
    rw [hqm, rememberDuplicate_none hp hps]
    rfl


/-- the step of the last fragment: `handle_full_packet` is called (once, by the data handler) in a state `s2` that
differs from the handler state only in slot `u`, with `u`'s buffer holding exactly the image; the events of the handler
phase are those of `handOn s2 img` followed by events that write nothing to tun -/
theorem final_handoff {s : Nat} {fs : List (List Nat)} (hc : Cut s fs) {e : Srv} {u k : Nat} {q : Query} {inb : List Nat}
    (ts : Bool) (hk : k + 1 = fs.length) (hinv : SxInv s fs k (getUser e u).inpacket)
    (hdisp : dispatch e (.q q) ts = dataFresh e u q inb) (hu : u < e.users.length)
    (hhdr : upHdr inb = (s, k, true))
    (hpay : Encoding.unpackData (getUser e u).encoder.codec 65536 (inb.drop 5) = fs.getD k []) :
    ∃ (s2 : Srv) (tail : Res), (∀ v, v ≠ u → getUser s2 v = getUser e v) ∧
      (∀ ip, findUserByIp s2 ip = findUserByIp e ip) ∧
      (getUser s2 u).inpacket.data.take (getUser s2 u).inpacket.len = fs.flatten ∧
      dispatch e (.q q) ts = (tail.1, (handOn s2 fs.flatten).2 ++ tail.2) ∧ stunws tail.2 = [] := by
  have hklt : k < fs.length := by omega
  obtain ⟨s2, tail, f1, h2, hrest⟩ := dataFresh_eq e u q inb
  have h2 := h2 hu
  rw [hhdr, hpay] at h2
  dsimp only at h2 hrest
  obtain ⟨hok, htk⟩ := sxTake_next hc hklt hinv
  rw [htk] at h2
  rw [hhdr] at hrest
  dsimp only at hrest
  rw [if_pos ⟨hok, rfl⟩] at hrest
  obtain ⟨it, he⟩ := hrest
  have hdata : (getUser s2 u).inpacket.data.take (getUser s2 u).inpacket.len = fs.flatten := by
    rw [h2]
    show List.take (pre fs (k + 1)).length (pre fs (k + 1)) = _
    rw [List.take_of_length_le (Nat.le_refl _), hk, pre_all]
  have hlen : (getUser s2 u).inpacket.len = fs.flatten.length := by
    rw [h2]
    show (pre fs (k + 1)).length = _
    rw [hk, pre_all]
  refine ⟨s2, tail, fun v hv => f1.other v hv, fun ip => f1.findUserByIp_eq ip, hdata, ?_, it.quiet⟩
  rw [hdisp, he, handleFullPacket_handOn s2 u fs.flatten hdata hlen hc.size]

end Iodine.C01L
