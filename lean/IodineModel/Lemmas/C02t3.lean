import IodineModel.Lemmas.C02t
/-
TESTS, part 3 (see `C02t.lean`): the other upstream codecs and sequences in lazy mode.
-/
namespace Iodine.C02L
open Iodine Iodine.World

/-- TEST the other upstream codecs (lazy mode, 2 fragments up) -/
theorem test_lazy_up_b64 : deliversOnce (demoLazy .b64 .b64) true (demoFrame 9 30) 5 = true := by decide +kernel
theorem test_lazy_up_b64u : deliversOnce (demoLazy .b64u .b64u) true (demoFrame 9 30) 5 = true := by decide +kernel
theorem test_lazy_up_b128 : deliversOnce (demoLazy .b128 .b128) true (demoFrame 9 30) 5 = true := by decide +kernel

/-- TEST sequences in lazy mode -/
theorem test_seq_lazy_up : deliversInOrder (demoLazy .b32 .b32) true [demoFrame 9 4, demoFrame 9 40, demoFrame 9 10] = true := by
  decide +kernel
theorem test_seq_lazy_down : deliversInOrder (demoLazy .b32 .b32) false [demoFrame 2 4, demoFrame 2 40, demoFrame 2 10] = true := by
  decide +kernel

end Iodine.C02L
