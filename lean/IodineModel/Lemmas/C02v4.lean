import IodineModel.Lemmas.C02v3
/-
Server side of an upstream transfer in immediate mode, in terms of the invariants: a fragment that is expected is
accepted, stored and acknowledged.
-/
namespace Iodine.C02L
open Iodine Iodine.Gen Iodine.Server Iodine.World

/-! ### the memories do not touch the rest of the slot -/

/-- the slot without its duplicate memories -/
def core (x : Session) : Session :=
  { x with dnscache := [], dcLast := 0, qmemping := [], qmempingLast := 0, qmemdata := [], qmemdataLast := 0 }

theorem core_cacheUpd (x : Session) (q : Query) (a : List Nat) : core (cacheUpd x q a) = core x := by
  unfold cacheUpd; split <;> rfl

theorem core_qmemUpd (x : Session) (q : Query) : core (qmemUpd x q) = core x := by
  unfold qmemUpd
  simp only
  split
  · cases List.idxOf? 46 q.name with
    | none => rfl
    | some cp => simp only; split <;> rfl
  · split <;> rfl

theorem core_memo (x : Session) (q : Query) (a : List Nat) : core (cacheUpd (qmemUpd x q) q a) = core x := by
  rw [core_cacheUpd, core_qmemUpd]

theorem core_active {a b : Session} (h : core a = core b) : a.active = b.active := show (core a).active = (core b).active from congrArg Session.active h
theorem core_authenticated {a b : Session} (h : core a = core b) : a.authenticated = b.authenticated := show (core a).authenticated = (core b).authenticated from congrArg Session.authenticated h
theorem core_authenticatedRaw {a b : Session} (h : core a = core b) : a.authenticatedRaw = b.authenticatedRaw := show (core a).authenticatedRaw = (core b).authenticatedRaw from congrArg Session.authenticatedRaw h
theorem core_disabled {a b : Session} (h : core a = core b) : a.disabled = b.disabled := show (core a).disabled = (core b).disabled from congrArg Session.disabled h
theorem core_conn {a b : Session} (h : core a = core b) : a.conn = b.conn := show (core a).conn = (core b).conn from congrArg Session.conn h
theorem core_encoder {a b : Session} (h : core a = core b) : a.encoder = b.encoder := show (core a).encoder = (core b).encoder from congrArg Session.encoder h
theorem core_outpacket {a b : Session} (h : core a = core b) : a.outpacket = b.outpacket := show (core a).outpacket = (core b).outpacket from congrArg Session.outpacket h
theorem core_inpacket {a b : Session} (h : core a = core b) : a.inpacket = b.inpacket := show (core a).inpacket = (core b).inpacket from congrArg Session.inpacket h
theorem core_q {a b : Session} (h : core a = core b) : a.q = b.q := show (core a).q = (core b).q from congrArg Session.q h
theorem core_qs {a b : Session} (h : core a = core b) : a.qs = b.qs := show (core a).qs = (core b).qs from congrArg Session.qs h
theorem core_qsNew {a b : Session} (h : core a = core b) : a.qsNew = b.qsNew := show (core a).qsNew = (core b).qsNew from congrArg Session.qsNew h
theorem core_lazy {a b : Session} (h : core a = core b) : a.lazy = b.lazy := show (core a).lazy = (core b).lazy from congrArg Session.lazy h
theorem core_host {a b : Session} (h : core a = core b) : a.host = b.host := show (core a).host = (core b).host from congrArg Session.host h
theorem core_lastPkt {a b : Session} (h : core a = core b) : a.lastPkt = b.lastPkt := show (core a).lastPkt = (core b).lastPkt from congrArg Session.lastPkt h
theorem core_downenc {a b : Session} (h : core a = core b) : a.downenc = b.downenc := show (core a).downenc = (core b).downenc from congrArg Session.downenc h
theorem core_tunIp {a b : Session} (h : core a = core b) : a.tunIp = b.tunIp := show (core a).tunIp = (core b).tunIp from congrArg Session.tunIp h
theorem core_oqFilled {a b : Session} (h : core a = core b) : a.oqFilled = b.oqFilled := show (core a).oqFilled = (core b).oqFilled from congrArg Session.oqFilled h
theorem core_oqNext {a b : Session} (h : core a = core b) : a.oqNext = b.oqNext := show (core a).oqNext = (core b).oqNext from congrArg Session.oqNext h
theorem core_outpacketq {a b : Session} (h : core a = core b) : a.outpacketq = b.outpacketq := show (core a).outpacketq = (core b).outpacketq from congrArg Session.outpacketq h
theorem core_fragsize {a b : Session} (h : core a = core b) : a.fragsize = b.fragsize := show (core a).fragsize = (core b).fragsize from congrArg Session.fragsize h
theorem core_outfragresent {a b : Session} (h : core a = core b) : a.outfragresent = b.outfragresent := show (core a).outfragresent = (core b).outfragresent from congrArg Session.outfragresent h
theorem core_optionsLocked {a b : Session} (h : core a = core b) : a.optionsLocked = b.optionsLocked := show (core a).optionsLocked = (core b).optionsLocked from congrArg Session.optionsLocked h
theorem core_seed {a b : Session} (h : core a = core b) : a.seed = b.seed := show (core a).seed = (core b).seed from congrArg Session.seed h

/-- transfer of the static facts along `core` -/
theorem XStat.of_core {P : Par} {x y : Session} (h : core y = core x) (hx : XStat P x) : XStat P y := by
  have e1 : y.active = x.active := show (core y).active = (core x).active from congrArg Session.active h
  have e2 : y.authenticated = x.authenticated := show (core y).authenticated = (core x).authenticated from congrArg Session.authenticated h
  have e3 : y.disabled = x.disabled := show (core y).disabled = (core x).disabled from congrArg Session.disabled h
  have e4 : y.conn = x.conn := show (core y).conn = (core x).conn from congrArg Session.conn h
  have e5 : y.encoder = x.encoder := show (core y).encoder = (core x).encoder from congrArg Session.encoder h
  have e6 : y.outpacket = x.outpacket := show (core y).outpacket = (core x).outpacket from congrArg Session.outpacket h
  have e7 : y.inpacket = x.inpacket := show (core y).inpacket = (core x).inpacket from congrArg Session.inpacket h
  exact ⟨e1 ▸ hx.active, e2 ▸ hx.auth, e3 ▸ hx.enabled, e4 ▸ hx.conn, e5 ▸ hx.enc, e6 ▸ hx.oseq, e6 ▸ hx.ofrag, e7 ▸ hx.iseq,
    e7 ▸ hx.ifrag⟩

/-! ### the memories stay fresh -/

theorem cmcChar_facts : ∀ k, k < 36 → (∀ j, j < 36 → cmcChar j = cmcChar k → j = k) ∧
    ¬ (65 ≤ cmcChar k ∧ cmcChar k ≤ 90) ∧ cmcChar k ≠ 0 := by decide

theorem not_inWin_self {k n : Nat} (hk : k < 36) (hn : n ≤ 35) : ¬ InWin ((k + 1) % 36) n (cmcChar k) := by
  intro ⟨i, hi, he⟩
  have := (cmcChar_facts k hk).1 (((k + 1) % 36 + i) % 36) (Nat.mod_lt _ (by omega)) he.symm
  omega

/-- after the answer to a data query with data-CMC character `cmcChar k` was remembered, the memories are fresh for the
following characters -/
theorem Fresh.memo {P : Par} {x : Session} {k n : Nat} (h : Fresh P x k (n + 1)) (hk : k < 36) (hn : n ≤ 35)
    (q : Query) (a : List Nat) (h4 : q.name.getD 4 0 = cmcChar k) (h5 : 5 ≤ q.name.length)
    (h0 : q.name.getD 0 0 ≠ 80 ∧ q.name.getD 0 0 ≠ 112) :
    Fresh P (cacheUpd (qmemUpd x q) q a) ((k + 1) % 36) n := by
  have hq : (qmemUpd x q).dnscache = x.dnscache := by
    have := congrArg Session.dnscache (show qmemUpd x q = { qmemUpd x q with dnscache := x.dnscache } from by
      unfold qmemUpd; simp only; split
      · cases List.idxOf? 46 q.name with
        | none => rfl
        | some cp => simp only; split <;> rfl
      · split <;> rfl)
    exact this
  have hqm : ∀ e ∈ (qmemUpd x q).qmemdata, e ∈ x.qmemdata ∨ e = ⟨dataCmc q.name, q.type⟩ := by
    intro e he
    unfold qmemUpd at he
    simp only at he
    rw [if_neg (by intro hc; rcases hc with hc | hc; exact h0.1 hc; exact h0.2 hc), if_neg (by omega)] at he
    simp only [saveToQmem] at he
    rcases List.mem_or_eq_of_mem_set he with h1 | h1
    · exact Or.inl h1
    · exact Or.inr h1
  have hcm : (cacheUpd (qmemUpd x q) q a).qmemdata = (qmemUpd x q).qmemdata := by
    unfold cacheUpd; split <;> rfl
  have hdc : ∀ e ∈ (cacheUpd (qmemUpd x q) q a).dnscache, e ∈ x.dnscache ∨ e = ⟨q, a, a.length⟩ := by
    intro e he
    unfold cacheUpd at he
    split at he
    · exact Or.inl (hq ▸ he)
    · simp only at he
      rcases List.mem_or_eq_of_mem_set he with h1 | h1
      · exact Or.inl (hq ▸ h1)
      · exact Or.inr h1
  have h' := h.next
  constructor
  · intro e he h1 h2
    rcases hdc e he with h3 | h3
    · exact h'.cache e h3 h1 h2
    · subst h3
      simp only
      rw [h4]
      exact not_inWin_self hk hn
  · intro e he h1
    rw [hcm] at he
    rcases hqm e he with h3 | h3
    · exact h'.qmem e h3 h1
    · subst h3
      simp only
      have : (dataCmc q.name).getD 3 0 = cmcChar k := by
        unfold dataCmc
        simp only [List.range, List.range.loop, List.map, List.getD_cons_succ, List.getD_cons_zero]
        rw [h4, if_neg (cmcChar_facts k hk).2.1]
      rw [this]
      exact not_inWin_self hk hn

/-- a fresh memory has no fingerprint of a data query that carries the current data-CMC character -/
theorem Fresh.qmemMiss {P : Par} {x : Session} {k n : Nat} (h : Fresh P x k (n + 1)) (q : Query)
    (hty : q.type = P.ty) (h4 : q.name.getD 4 0 = cmcChar k) (hk : k < 36) : QmemMiss x q := by
  intro e he ⟨_, h2, h3⟩
  apply h.qmem e he (h2.trans hty)
  refine ⟨0, by omega, ?_⟩
  rw [h3]
  have : (dataCmc q.name).getD 3 0 = cmcChar k := by
    unfold dataCmc
    simp only [List.range, List.range.loop, List.map, List.getD_cons_succ, List.getD_cons_zero]
    rw [h4, if_neg (cmcChar_facts k hk).2.1]
  rw [this]
  congr 1
  omega

end Iodine.C02L
