import IodineModel.Lemmas.SrvC03b
/-
Helper lemmas for property C03, part c: the outcome of every request handler, of `tunnelDns`, of the raw
handlers and of `dispatch`.
-/
namespace Iodine.C03L
open Iodine Iodine.Server Iodine.Gen

section
variable (s : Srv) (q : Query) (dlen : Nat)
  (hd : Common.queryDatalen q.name s.cfg.topdomain = some dlen) (h2 : 2 ≤ dlen)
include hd h2

theorem reqSlot_LNP (hc : q.name.getD 0 0 = 76 ∨ q.name.getD 0 0 = 108 ∨ q.name.getD 0 0 = 78 ∨
      q.name.getD 0 0 = 110 ∨ q.name.getD 0 0 = 80 ∨ q.name.getD 0 0 = 112) :
    reqSlot s.cfg (.q q) =
      some (charVal ((Encoding.unpackData Codec.b32 65536 ((q.name.take (min dlen 512)).drop 1)).getD 0 0)) := by
  unfold reqSlot
  simp only [hd]
  rw [if_neg (by omega), if_pos hc]

theorem reqSlot_ISO (hc : q.name.getD 0 0 = 73 ∨ q.name.getD 0 0 = 105 ∨ q.name.getD 0 0 = 83 ∨
      q.name.getD 0 0 = 115 ∨ q.name.getD 0 0 = 79 ∨ q.name.getD 0 0 = 111) :
    reqSlot s.cfg (.q q) = some ((b32_8to5 ((q.name.take (min dlen 512)).getD 1 0) : Nat) : Int) := by
  unfold reqSlot
  simp only [hd]
  rw [if_neg (by omega), if_neg (by omega), if_pos hc]

theorem reqSlot_R (hc : q.name.getD 0 0 = 82 ∨ q.name.getD 0 0 = 114) :
    reqSlot s.cfg (.q q) =
      some ((((b32_8to5 ((q.name.take (min dlen 512)).getD 1 0)) >>> 1) &&& 15 : Nat) : Int) := by
  unfold reqSlot
  simp only [hd]
  rw [if_neg (by omega), if_neg (by omega), if_neg (by omega), if_pos hc]

theorem reqSlot_hex (hc : isHexDigit (q.name.getD 0 0) = true) :
    reqSlot s.cfg (.q q) = some (hexCode (q.name.getD 0 0)) := by
  have hx : ¬ (q.name.getD 0 0 = 76 ∨ q.name.getD 0 0 = 108 ∨ q.name.getD 0 0 = 78 ∨
      q.name.getD 0 0 = 110 ∨ q.name.getD 0 0 = 80 ∨ q.name.getD 0 0 = 112) ∧
      ¬ (q.name.getD 0 0 = 73 ∨ q.name.getD 0 0 = 105 ∨ q.name.getD 0 0 = 83 ∨
      q.name.getD 0 0 = 115 ∨ q.name.getD 0 0 = 79 ∨ q.name.getD 0 0 = 111) ∧
      ¬ (q.name.getD 0 0 = 82 ∨ q.name.getD 0 0 = 114) := by
    unfold isHexDigit at hc
    simp only [Bool.or_eq_true, Bool.and_eq_true, decide_eq_true_eq] at hc
    omega
  unfold reqSlot
  simp only [hd]
  rw [if_neg (by omega), if_neg hx.1, if_neg hx.2.1, if_neg hx.2.2, if_pos hc]


theorem outcome_handleIp (hc : q.name.getD 0 0 = 73 ∨ q.name.getD 0 0 = 105) :
    Outcome s (.q q) (handleIp s q (q.name.take (min dlen 512))) := by
  unfold handleIp
  simp only []
  split
  · apply Outcome.quiet
    refine quietH_answer _ _ (harmless_writeDns _ _ _ ?_) (noChunk_writeDns _ _ _)
    refine ⟨fun h => ?_, fun h => ?_⟩
    · have := h.2; simp [ascii] at this
    · omega
  · next hchk =>
    exact Outcome.authedQ_of_view _ (reqSlot_ISO s q dlen hd h2 (by omega)) ((Bool.not_eq_true _).mp hchk) rfl

theorem outcome_handleSwitchCodec (hc : q.name.getD 0 0 = 83 ∨ q.name.getD 0 0 = 115) :
    Outcome s (.q q) (handleSwitchCodec s q dlen (q.name.take (min dlen 512))) := by
  have hn : q.name.getD 0 0 ≠ 73 ∧ q.name.getD 0 0 ≠ 105 ∧ q.name.getD 0 0 ≠ 86 ∧ q.name.getD 0 0 ≠ 118 := by omega
  have hreq := reqSlot_ISO s q dlen hd h2 (by omega)
  unfold handleSwitchCodec
  simp only []
  split
  · exact Outcome.quiet (quietH_notIV _ q _ _ hn)
  · split
    · exact Outcome.quiet (quietH_notIV _ q _ _ hn)
    · next hchk =>
      have hchk' := auth_of_checkOptions ((Bool.not_eq_true _).mp hchk)
      have hsw : ∀ e : Enc, Outcome s (.q q) (userSwitchCodec s
          ((b32_8to5 ((q.name.take (min dlen 512)).getD 1 0) : Nat) : Int).toNat e,
          [writeDns q e.cname (getUser s ((b32_8to5 ((q.name.take (min dlen 512)).getD 1 0) : Nat) : Int).toNat).downenc]) := by
        intro e
        unfold userSwitchCodec
        split
        · exact Outcome.authedQ_of_view _ hreq hchk' rfl
        · exact Outcome.authedQ_of_setUser _ _ _ hreq hchk' (fun x => rfl)
      split
      · exact hsw _
      · split
        · exact hsw _
        · split
          · exact hsw _
          · split
            · exact hsw _
            · exact Outcome.authedQ_of_view _ hreq hchk' rfl

theorem outcome_handleOptions (hc : q.name.getD 0 0 = 79 ∨ q.name.getD 0 0 = 111) :
    Outcome s (.q q) (handleOptions s q dlen (q.name.take (min dlen 512))) := by
  have hn : q.name.getD 0 0 ≠ 73 ∧ q.name.getD 0 0 ≠ 105 ∧ q.name.getD 0 0 ≠ 86 ∧ q.name.getD 0 0 ≠ 118 := by omega
  have hreq := reqSlot_ISO s q dlen hd h2 (by omega)
  unfold handleOptions
  split
  · exact Outcome.quiet (quietH_notIV _ q _ _ hn)
  · simp only []
    split
    · exact Outcome.quiet (quietH_notIV _ q _ _ hn)
    · next hchk =>
      have hchk' := auth_of_checkOptions ((Bool.not_eq_true _).mp hchk)
      repeat' split
      all_goals first
        | exact Outcome.authedQ_of_setUser _ _ _ hreq hchk' (fun x => rfl)
        | exact Outcome.authedQ_of_view _ hreq hchk' rfl

theorem outcome_handleFragsizeProbe (hc : q.name.getD 0 0 = 82 ∨ q.name.getD 0 0 = 114) :
    Outcome s (.q q) (handleFragsizeProbe s q dlen (q.name.take (min dlen 512))) := by
  have hn : q.name.getD 0 0 ≠ 73 ∧ q.name.getD 0 0 ≠ 105 ∧ q.name.getD 0 0 ≠ 86 ∧ q.name.getD 0 0 ≠ 118 := by omega
  have hreq := reqSlot_R s q dlen hd h2 hc
  unfold handleFragsizeProbe
  simp only []
  split
  · exact Outcome.quiet (quietH_notIV _ q _ _ hn)
  · split
    · exact Outcome.quiet (quietH_notIV _ q _ _ hn)
    · next hchk =>
      have hchk' := (Bool.not_eq_true _).mp hchk
      split
      · exact Outcome.authedQ_of_view _ hreq hchk' rfl
      · refine Outcome.authedQ_of_view _ hreq hchk' ?_
        simp only []
        unfold popRand
        split <;> rfl

theorem outcome_handleSetFragsize (hc : q.name.getD 0 0 = 78 ∨ q.name.getD 0 0 = 110) :
    Outcome s (.q q) (handleSetFragsize s q (q.name.take (min dlen 512))) := by
  have hn : q.name.getD 0 0 ≠ 73 ∧ q.name.getD 0 0 ≠ 105 ∧ q.name.getD 0 0 ≠ 86 ∧ q.name.getD 0 0 ≠ 118 := by omega
  have hreq := reqSlot_LNP s q dlen hd h2 (by omega)
  unfold handleSetFragsize
  simp only []
  split
  · exact Outcome.quiet (quietH_notIV _ q _ _ hn)
  · split
    · exact Outcome.quiet (quietH_notIV _ q _ _ hn)
    · next hchk =>
      have hchk' := auth_of_checkOptions ((Bool.not_eq_true _).mp hchk)
      split
      · exact Outcome.authedQ_of_view _ hreq hchk' rfl
      · exact Outcome.authedQ_of_setUser _ _ _ hreq hchk' (fun x => rfl)


theorem outcome_handlePing (hc : q.name.getD 0 0 = 80 ∨ q.name.getD 0 0 = 112) :
    Outcome s (.q q) (handlePing s q (q.name.take (min dlen 512))) := by
  have hn : q.name.getD 0 0 ≠ 73 ∧ q.name.getD 0 0 ≠ 105 ∧ q.name.getD 0 0 ≠ 86 ∧ q.name.getD 0 0 ≠ 118 := by omega
  have hreq := reqSlot_LNP s q dlen hd h2 (by omega)
  unfold handlePing
  split
  · exact Outcome.quiet (QuietH.refl_nil s)
  · simp only []
    split
    · exact Outcome.quiet (QuietH.refl_nil s)
    · split
      · exact Outcome.quiet (quietH_notIV _ q _ _ hn)
      · next hchk =>
        have hchk' := (Bool.not_eq_true _).mp hchk
        split
        · exact Outcome.authedQ_of_view _ hreq hchk' rfl
        · split
          · exact Outcome.authedQ_of_view _ hreq hchk' rfl
          · split
            · next hr => exact Outcome.authedQ_of_view _ hreq hchk' (view_rememberDuplicate hr)
            · exact Outcome.authedQ_of_view _ hreq hchk' (view_pingFresh _ _ _ _)

theorem outcome_handleData (hc : isHexDigit (q.name.getD 0 0) = true) :
    Outcome s (.q q) (handleData s q dlen (q.name.take (min dlen 512))) := by
  have hn : q.name.getD 0 0 ≠ 73 ∧ q.name.getD 0 0 ≠ 105 ∧ q.name.getD 0 0 ≠ 86 ∧ q.name.getD 0 0 ≠ 118 := by
    unfold isHexDigit at hc
    simp only [Bool.or_eq_true, Bool.and_eq_true, decide_eq_true_eq] at hc
    omega
  have hreq := reqSlot_hex s q dlen hd h2 hc
  have h0 : (q.name.take (min dlen 512)).getD 0 0 = q.name.getD 0 0 := getD_take_zero _ _ (by omega)
  unfold handleData
  split
  · exact Outcome.quiet (QuietH.refl_nil s)
  · split
    · exact Outcome.quiet (QuietH.refl_nil s)
    · simp only []
      rw [h0]
      split
      · exact Outcome.quiet (quietH_notIV _ q _ _ hn)
      · next hchk =>
        have hchk' := (Bool.not_eq_true _).mp hchk
        split
        · exact Outcome.authedQ_of_view _ hreq hchk' rfl
        · split
          · exact Outcome.authedQ_of_view _ hreq hchk' rfl
          · split
            · next hr => exact Outcome.authedQ_of_view _ hreq hchk' (view_rememberDuplicate hr)
            · exact Outcome.authedQ_of_view _ hreq hchk' (view_dataFresh _ _ _ _)

omit hd h2 in
theorem outcome_handleZ (hc : q.name.getD 0 0 = 90 ∨ q.name.getD 0 0 = 122) :
    Outcome s (.q q) (handleZ s q (q.name.take (min dlen 512))) := by
  have hn : q.name.getD 0 0 ≠ 73 ∧ q.name.getD 0 0 ≠ 105 ∧ q.name.getD 0 0 ≠ 86 ∧ q.name.getD 0 0 ≠ 118 := by omega
  exact Outcome.quiet (quietH_notIV _ q _ _ hn)

omit hd h2 in
theorem outcome_handleDownCodecCheck (hc : q.name.getD 0 0 = 89 ∨ q.name.getD 0 0 = 121) :
    Outcome s (.q q) (handleDownCodecCheck s q dlen (q.name.take (min dlen 512))) := by
  have hn : q.name.getD 0 0 ≠ 73 ∧ q.name.getD 0 0 ≠ 105 ∧ q.name.getD 0 0 ≠ 86 ∧ q.name.getD 0 0 ≠ 118 := by omega
  unfold handleDownCodecCheck
  split
  · exact Outcome.quiet (quietH_notIV _ q _ _ hn)
  · split
    · exact Outcome.quiet (quietH_notIV _ q _ _ hn)
    · simp only []
      split
      · exact Outcome.quiet (quietH_notIV _ q _ _ hn)
      · exact Outcome.quiet (quietH_notIV _ q _ _ hn)

end
end Iodine.C03L
