import IodineModel.Lemmas.C05N3
/-
Helper lemmas for C05 "established sessions continue", part 4: the handler phase of a FOREIGN input (one that does not
come from the address session `u` is bound to) leaves slot `u` alone and sends no tunnel-data answer for `u` — provided
`u` is live (no allocation), the input is not a raw login frame carrying `u`'s hash, and it does not complete a tunnelled
packet that `find_user_by_ip` routes to `u`.  Lifted to one iteration (foreign input ≈ time-out) and to runs.
-/
namespace Iodine.C05N
open Iodine Iodine.Server Iodine.Gen Iodine.C04L

/-- slot `u` is allocated and bound to (the family and address of) `a`, and source checking is on -/
structure Bound (s : Srv) (u : Nat) (a : Addr) : Prop where
  ck : s.cfg.checkIp = true
  act : (getUser s u).active = true
  fam : (getUser s u).host.fam = a.fam
  ip : (getUser s u).host.ip = a.ip

/-- the input does not come from `a` (tun frames are nobody's: not foreign) -/
def foreign (a : Addr) : Input → Prop
  | .q q => ¬ (q.from_.fam = a.fam ∧ q.from_.ip = a.ip)
  | .rawf src _ => ¬ (src.fam = a.fam ∧ src.ip = a.ip)
  | .bind _ => True
  | .tick => True
  | .tun _ => False

/-- the input is a raw-mode login frame for `u` that `handle_raw_login` accepts -/
def rawLoginFor (s : Srv) (inp : Input) (u : Nat) : Prop :=
  match inp with
  | .rawf _ bytes =>
    RAW_HDR_LEN ≤ (bytes.take 65536).length ∧ (bytes.take 65536).take 3 = rawHeader.take 3 ∧
    ((bytes.take 65536).getD 3 0 &&& RAW_HDR_CMD_MASK) = RAW_HDR_CMD_LOGIN ∧
    ((bytes.take 65536).getD 3 0 &&& RAW_HDR_USR_MASK) = u ∧ rawLoginOk s ((bytes.take 65536).drop RAW_HDR_LEN) u
  | _ => False

/-- the handler phase for `inp` hands a completed tunnelled packet of another session to session `u` -/
def fwdTo (s : Srv) (inp : Input) (u : Nat) : Prop :=
  match inp with
  | .q q => ∃ dlen, Common.queryDatalen q.name s.cfg.topdomain = some dlen ∧ 2 ≤ dlen ∧
      cmdOf ((inbOf q dlen).getD 0 0) = some .data ∧ rejected s q (uidOf q dlen .data) .data = false ∧
      DataFwd s (uidOf q dlen .data).toNat (inbOf q dlen) u
  | .rawf src bytes =>
    RAW_HDR_LEN ≤ (bytes.take 65536).length ∧ (bytes.take 65536).take 3 = rawHeader.take 3 ∧
    ((bytes.take 65536).getD 3 0 &&& RAW_HDR_CMD_MASK) = RAW_HDR_CMD_DATA ∧
    checkAuthenticatedUserAndIp s (((bytes.take 65536).getD 3 0 &&& RAW_HDR_USR_MASK : Nat) : Int) (rawQuery src) = false ∧
    RawFwd s ((bytes.take 65536).drop RAW_HDR_LEN) (rawQuery src) ((bytes.take 65536).getD 3 0 &&& RAW_HDR_USR_MASK) u
  | _ => False

/-- with source checking, a request from a foreign address naming `u` is refused -/
theorem foreign_checkUserAndIp {s : Srv} {u : Nat} {a : Addr} (hb : Bound s u a) (q : Query)
    (hf : ¬ (q.from_.fam = a.fam ∧ q.from_.ip = a.ip)) (uid : Int) (hu : uid.toNat = u) :
    checkUserAndIp s uid q = true := by
  cases h : checkUserAndIp s uid q with
  | true => rfl
  | false =>
    exfalso
    obtain ⟨_, _, _, _, _, c5⟩ := checkUserAndIp_false s uid q h
    rw [hu] at c5
    have := c5 hb.ck
    exact hf ⟨this.1.trans hb.fam, this.2.trans hb.ip⟩

theorem foreign_rejected {s : Srv} {u : Nat} {a : Addr} (hb : Bound s u a) (q : Query)
    (hf : ¬ (q.from_.fam = a.fam ∧ q.from_.ip = a.ip)) (uid : Int) (hu : uid.toNat = u) (cmd : Cmd) :
    rejected s q uid cmd = true :=
  rejected_of_check s q uid cmd (foreign_checkUserAndIp hb q hf uid hu)

/-- a live slot is not handed out -/
theorem live_not_allocated {s : Srv} {u : Nat} (hact : (getUser s u).active = true)
    (hl : ¬ (getUser s u).lastPkt + 60 < s.now) : (findAvailableUser s).1 ≠ some u := by
  intro h
  have := ((findAvailableUser_some_iff s u).1 h).2.1.1
  rcases this with h1 | h1
  · rw [hact] at h1; cases h1
  · exact hl h1

/-- **a foreign DNS query** leaves slot `u` alone and is not answered with tunnel data of `u` -/
theorem foreign_tunnelDns {s : Srv} {u : Nat} {a : Addr} (hb : Bound s u a)
    (hl : ¬ (getUser s u).lastPkt + 60 < s.now) (q : Query)
    (hf : ¬ (q.from_.fam = a.fam ∧ q.from_.ip = a.ip)) (hw : ¬ fwdTo s (.q q) u) :
    getUser (tunnelDns s q).1 u = getUser s u ∧ dataOf u (tunnelDns s q).2 = [] := by
  have hT : ¬ dnsTouches s q u := by
    rintro ⟨dlen, cmd, hd, _, _, _, h2, hc, hrej, ht⟩
    rcases ht with ht | ⟨hcd, ht⟩
    · have := foreign_rejected hb q hf (uidOf q dlen cmd) ht.symm cmd
      rw [this] at hrej; cases hrej
    · subst hcd
      exact hw ⟨dlen, hd, h2, hc, hrej, ht⟩
  exact ⟨tunnelDns_spares s q u (live_not_allocated hb.act hl) hT, (tg_tunnelDns s q).dataOf_nil u hT⟩

theorem handleRawPing_refused (s : Srv) (q : Query) (w : Nat) (h : checkAuthenticatedUserAndIp s w q = true) :
    handleRawPing s q w = (s, []) := by
  unfold handleRawPing; rw [if_pos h]

/-- **a foreign raw-mode datagram** leaves slot `u` alone and is not answered with tunnel data of `u` -/
theorem foreign_rawDecode {s : Srv} {u : Nat} {a : Addr} (hb : Bound s u a) (src : Addr) (bytes : List Nat)
    (hf : ¬ (src.fam = a.fam ∧ src.ip = a.ip)) (hlog : ¬ rawLoginFor s (.rawf src bytes) u)
    (hw : ¬ fwdTo s (.rawf src bytes) u) (r : Res) (h : rawDecode s (bytes.take 65536) src = some r) :
    getUser r.1 u = getUser s u ∧ dataOf u r.2 = [] := by
  have hck : ∀ w : Nat, w = u → checkAuthenticatedUserAndIp s (w : Int) (rawQuery src) = true := by
    intro w hwu
    exact checkAuth_of_check s _ _ (foreign_checkUserAndIp hb (rawQuery src) hf (w : Int) (by simpa using hwu))
  unfold rawDecode at h
  split at h
  · cases h
  next h1 =>
  split at h
  · cases h
  next h2 =>
  dsimp only at h
  split at h
  · next h3 =>
    cases h
    refine ⟨(frame_handleRawLogin s _ _ _).other u ?_, (tg_handleRawLogin (fun _ => False) _ _ _ _).dataOf_nil u (fun x => x)⟩
    rintro ⟨hu, hok⟩
    apply hlog
    refine ⟨by omega, by simpa using h2, h3, hu.symm, ?_⟩
    rw [← hu] at hok; exact hok
  split at h
  · next h3 h4 =>
    cases h
    have k := handleRawData_sharp s (List.drop RAW_HDR_LEN (List.take 65536 bytes)) (rawQuery src)
      ((List.take 65536 bytes).getD 3 0 &&& RAW_HDR_USR_MASK)
    have hno : ¬ (checkAuthenticatedUserAndIp s ((List.take 65536 bytes).getD 3 0 &&& RAW_HDR_USR_MASK : Nat) (rawQuery src) = false ∧
        (u = ((List.take 65536 bytes).getD 3 0 &&& RAW_HDR_USR_MASK) ∨
          RawFwd s (List.drop RAW_HDR_LEN (List.take 65536 bytes)) (rawQuery src)
            ((List.take 65536 bytes).getD 3 0 &&& RAW_HDR_USR_MASK) u)) := by
      rintro ⟨hc, hu | hu⟩
      · rw [hck _ hu.symm] at hc; cases hc
      · exact hw ⟨by omega, by simpa using h2, h4, hc, hu⟩
    exact ⟨k.1.other u hno, k.2.dataOf_nil u (fun x => hno ⟨x.1, Or.inr x.2⟩)⟩
  split at h
  · cases h
    refine ⟨?_, (tg_handleRawPing (fun _ => False) _ _ _).dataOf_nil u (fun x => x)⟩
    by_cases hu : ((List.take 65536 bytes).getD 3 0 &&& RAW_HDR_USR_MASK) = u
    · rw [handleRawPing_refused s _ _ (hck _ hu)]
    · exact (frame_handleRawPing s _ _).other u (fun e => hu e.symm)
  · cases h; exact ⟨rfl, rfl⟩

/-- **N3: the handler phase of a foreign input** leaves slot `u` alone and sends no tunnel data of `u` -/
theorem foreign_dispatch {s : Srv} {u : Nat} {a : Addr} (hb : Bound s u a)
    (hl : ¬ (getUser s u).lastPkt + 60 < s.now) (inp : Input) (ts : Bool) (hf : foreign a inp)
    (hlog : ¬ rawLoginFor s inp u) (hw : ¬ fwdTo s inp u) :
    getUser (dispatch s inp ts).1 u = getUser s u ∧ dataOf u (dispatch s inp ts).2 = [] := by
  unfold dispatch
  cases inp with
  | tick => exact ⟨rfl, rfl⟩
  | tun f => exact absurd hf (fun x => x)
  | q q => exact foreign_tunnelDns hb hl q hf hw
  | rawf src bytes =>
    dsimp only
    split
    · next r h => exact foreign_rawDecode hb src bytes hf hlog hw r h
    · exact ⟨rfl, rfl⟩
  | bind bytes =>
    dsimp only
    split
    · rw [tunnelBind_fst]
      refine ⟨rfl, ?_⟩
      unfold tunnelBind
      split
      · rfl
      split <;> rfl
    · exact ⟨rfl, rfl⟩

/-! ### one iteration -/

theorem bound_pre {s : Srv} {u : Nat} {a : Addr} (hb : Bound s u a) (n : Nat) : Bound (pre s n) u a := by
  have : (getUser (pre s n) u).active = (getUser s u).active ∧ (getUser (pre s n) u).host = (getUser s u).host := by
    rw [getUser_pre]; split <;> exact ⟨rfl, rfl⟩
  exact ⟨hb.ck, by rw [this.1]; exact hb.act, by rw [this.2]; exact hb.fam, by rw [this.2]; exact hb.ip⟩

theorem lastPkt_pre (s : Srv) (u n : Nat) : (getUser (pre s n) u).lastPkt = (getUser s u).lastPkt := by
  rw [getUser_pre]; split <;> rfl

/-- **(a) one foreign iteration is like a time-out for slot `u`**: if the two states agree on slot `u` before, they do
after, and the same tunnel-data answers of `u` are sent (all of them by the sweep) -/
theorem foreign_iteration {s t : Srv} {u : Nat} {a : Addr} (h : Agree u s t) (hb : Bound s u a) (inp : Input) (n : Nat)
    (hl : ¬ (getUser s u).lastPkt + 60 < n) (hf : foreign a inp)
    (hlog : ¬ rawLoginFor (pre s n) inp u) (hw : ¬ fwdTo (pre s n) inp u) :
    Agree u (next s ⟨inp, n⟩) (next t ⟨.tick, n⟩) ∧ dataOf u (out s ⟨inp, n⟩) = dataOf u (out t ⟨.tick, n⟩) := by
  apply agree_iteration
  have hp := agree_pre h n
  have k := foreign_dispatch (bound_pre hb n) (by rw [lastPkt_pre]; exact hl) inp (tunsel s) hf hlog hw
  have fd := frame_dispatch (pre s n) inp (tunsel s)
  refine ⟨⟨?_, ?_, ?_, ?_, ?_⟩, ?_⟩
  · rw [k.1]; exact hp.user
  · rw [fd.now]; exact hp.now
  · rw [fd.cfg]; exact hp.cfg
  · rw [fd.len]; exact hp.l1
  · exact hp.l2
  · rw [k.2]; rfl

theorem erData_active {x y : Session} (h : erData x = erData y) : x.active = y.active := by
  have := congrArg Session.active h; exact this
theorem erData_host {x y : Session} (h : erData x = erData y) : x.host = y.host := by
  have := congrArg Session.host h; exact this

theorem erData_disabled {x y : Session} (h : erData x = erData y) : x.disabled = y.disabled := by
  have := congrArg Session.disabled h; exact this
theorem erData_authenticated {x y : Session} (h : erData x = erData y) : x.authenticated = y.authenticated := by
  have := congrArg Session.authenticated h; exact this

/-- the binding of slot `u` survives an iteration whose handler phase leaves slot `u` alone -/
theorem bound_next {s : Srv} {u : Nat} {a : Addr} (hb : Bound s u a) (inp : Input) (n : Nat)
    (hk : getUser (dispatch (pre s n) inp (tunsel s)).1 u = getUser (pre s n) u) : Bound (next s ⟨inp, n⟩) u a := by
  have hp := bound_pre hb n
  have hs := (frame_sweep (dispatch (pre s n) inp (tunsel s)).1).rel u
  rw [hk] at hs
  have e1 : (getUser (next s ⟨inp, n⟩) u).active = (getUser (pre s n) u).active := by
    rw [next_eq, body_fst]; exact erData_active hs
  have e2 : (getUser (next s ⟨inp, n⟩) u).host = (getUser (pre s n) u).host := by
    rw [next_eq, body_fst]; exact erData_host hs
  exact ⟨by rw [next_cfg]; exact hb.ck, by rw [e1]; exact hp.act, by rw [e2]; exact hp.fam, by rw [e2]; exact hp.ip⟩

/-! ### runs -/

/-- the per-iteration lists of tunnel-data answers of session `u` along a run -/
def dataTrace (u : Nat) : Srv → List Step → List (List Event)
  | _, [] => []
  | s, st :: rest => dataOf u (out s st) :: dataTrace u (next s st) rest

/-- the run hypotheses, stated on the run itself: every step is foreign, `u` is not expired when its handler runs, it is
not an accepted raw login for `u` and does not forward a packet to `u` -/
def ForeignRun (u : Nat) (a : Addr) : Srv → List Step → Prop
  | _, [] => True
  | s, st :: rest =>
    (foreign a st.inp ∧ ¬ (getUser s u).lastPkt + 60 < st.now ∧ ¬ rawLoginFor (pre s st.now) st.inp u ∧
      ¬ fwdTo (pre s st.now) st.inp u) ∧ ForeignRun u a (next s st) rest

/-- the all-time-out run with the same clock values -/
def ticks (l : List Step) : List Step := l.map fun st => ⟨.tick, st.now⟩

/-- **(b) a run of foreign steps is like a run of time-outs for slot `u`** -/
theorem foreign_run {u : Nat} {a : Addr} : ∀ (l : List Step) (s t : Srv), Agree u s t → Bound s u a →
    ForeignRun u a s l →
    Agree u (runFrom s l) (runFrom t (ticks l)) ∧ Bound (runFrom s l) u a ∧
      dataTrace u s l = dataTrace u t (ticks l) := by
  intro l
  induction l with
  | nil => intro s t h hb _; exact ⟨h, hb, rfl⟩
  | cons st rest ih =>
    intro s t h hb hr
    obtain ⟨⟨hf, hl, hlog, hw⟩, hrest⟩ := hr
    have k := foreign_iteration h hb st.inp st.now hl hf hlog hw
    have hk := (foreign_dispatch (bound_pre hb st.now) (by rw [lastPkt_pre]; exact hl) st.inp (tunsel s) hf hlog hw).1
    have hb' := bound_next hb st.inp st.now hk
    have r := ih (next s st) (next t ⟨.tick, st.now⟩) k.1 hb' hrest
    refine ⟨r.1, r.2.1, ?_⟩
    show dataOf u (out s st) :: dataTrace u (next s st) rest =
      dataOf u (out t ⟨.tick, st.now⟩) :: dataTrace u (next t ⟨.tick, st.now⟩) (ticks rest)
    rw [k.2, r.2.2]

end Iodine.C05N
