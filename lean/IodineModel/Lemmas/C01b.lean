import IodineModel.Lemmas.C01a
/-
Helper lemmas for C01, part b: the client's reassembly machine `rxStep` fed with the fragments of one image in order,
interleaved with duplicates and junk.
-/
namespace Iodine.C01L
open Iodine Iodine.Client

/-- the second header byte of a downstream data answer: `seq`, `frag`, last-fragment flag -/
def hdrByte (s i : Nat) (last : Bool) : Nat := s * 32 + i * 2 + (if last then 1 else 0)

theorem decodeHdr_hdrByte (s i : Nat) (last : Bool) (b0 : Nat) (f : List Nat) (hs : s < 8) (hi : i < 16) :
    (decodeHdr (b0 :: hdrByte s i last :: f)).dnSeq = (s : Int) ∧
    (decodeHdr (b0 :: hdrByte s i last :: f)).dnFrag = (i : Int) ∧
    (decodeHdr (b0 :: hdrByte s i last :: f)).last = last := by
  unfold decodeHdr hdrByte
  simp only [List.getD_cons_zero, List.getD_cons_succ]
  refine ⟨?_, ?_, ?_⟩
  · congr 1; cases last <;> simp <;> omega
  · congr 1; cases last <;> simp <;> omega
  · cases last <;> simp <;> omega

theorem sChar_small (x : Int) (h0 : 0 ≤ x) (h1 : x < 128) : sChar x = x := by
  unfold sChar; omega

/-- the first `k` fragments, concatenated -/
def pre (fs : List (List Nat)) (k : Nat) : List Nat := (fs.take k).flatten

theorem pre_succ (fs : List (List Nat)) (k : Nat) (hk : k < fs.length) : pre fs (k + 1) = pre fs k ++ fs.getD k [] := by
  unfold pre
  rw [List.take_add_one, List.flatten_append]
  simp [List.getD_eq_getElem?_getD, List.getElem?_eq_getElem hk]

theorem pre_all (fs : List (List Nat)) : pre fs fs.length = fs.flatten := by
  unfold pre; rw [List.take_length]

theorem pre_length_le (fs : List (List Nat)) (k : Nat) : (pre fs k).length ≤ fs.flatten.length := by
  unfold pre
  have : fs.flatten = (fs.take k).flatten ++ (fs.drop k).flatten := by
    rw [← List.flatten_append, List.take_append_drop]
  rw [this, List.length_append]; omega

/-- one image cut into fragments: downstream seqno `s`, at most 16 non-empty fragments, at most 64 KiB -/
structure Cut (s : Nat) (fs : List (List Nat)) : Prop where
  seq : s < 8
  ne : fs ≠ []
  le16 : fs.length ≤ 16
  frag_ne : ∀ f ∈ fs, f ≠ []
  size : fs.flatten.length ≤ Gen.PACKET_DATA_SIZE

/-- the state of `inpkt` after `k` fragments of the image have been taken -/
def RxInv (s : Nat) (fs : List (List Nat)) (k : Nat) (p : Packet) : Prop :=
  if k = 0 then p.seqno ≠ (s : Int) ∧ recentSeqno p.seqno (s : Int) = false
  else p.seqno = (s : Int) ∧ p.fragment = ((k - 1 : Nat) : Int) ∧
    (if k < fs.length then p.len = (pre fs k).length ∧ p.data.take p.len = pre fs k ∧ 0 < p.len else p.len = 0)

/-- the answer carrying fragment `i` (raw content; ids and `q.name[0]` are judged by `accepted`) -/
def IsFragRq (s : Nat) (fs : List (List Nat)) (i : Nat) (rq : Rq) : Prop :=
  i < fs.length ∧ ∃ b0, rq.buf = b0 :: hdrByte s i (i + 1 = fs.length) :: fs.getD i [] ∧ rq.rv = (rq.buf.length : Int)

theorem getD_ne_nil {s : Nat} {fs : List (List Nat)} (hc : Cut s fs) {i : Nat} (hi : i < fs.length) : fs.getD i [] ≠ [] := by
  apply hc.frag_ne
  rw [List.getD_eq_getElem?_getD, List.getElem?_eq_getElem hi]
  exact List.getElem_mem hi

theorem pre_pos {s : Nat} {fs : List (List Nat)} (hc : Cut s fs) {k : Nat} (hk : k < fs.length) : 0 < (pre fs (k + 1)).length := by
  rw [pre_succ fs k hk, List.length_append]
  have := List.length_pos_iff.mpr (getD_ne_nil hc hk)
  omega


/-- what the header and payload of the answer carrying fragment `i` look like to the reassembly code -/
theorem fragRq_facts {s : Nat} {fs : List (List Nat)} (hc : Cut s fs) {i : Nat} {rq : Rq} (h : IsFragRq s fs i rq) :
    (decodeHdr rq.buf).dnSeq = (s : Int) ∧ (decodeHdr rq.buf).dnFrag = (i : Int) ∧
    (decodeHdr rq.buf).last = decide (i + 1 = fs.length) ∧ rq.rv > 2 ∧
    (rq.buf.take rq.rv.toNat).drop 2 = fs.getD i [] := by
  obtain ⟨hi, b0, hb, hrv⟩ := h
  have hne := List.length_pos_iff.mpr (getD_ne_nil hc hi)
  have hi16 : i < 16 := Nat.lt_of_lt_of_le hi hc.le16
  obtain ⟨a, b, c⟩ := decodeHdr_hdrByte s i (decide (i + 1 = fs.length)) b0 (fs.getD i []) hc.seq hi16
  rw [hb] at hrv ⊢
  refine ⟨a, b, c, ?_, ?_⟩
  · rw [hrv]; simp only [List.length_cons]; omega
  · rw [hrv, Int.toNat_natCast, List.take_of_length_le (Nat.le_refl _)]; rfl

theorem rxStep_next {s : Nat} {fs : List (List Nat)} (hc : Cut s fs) {k : Nat} {p : Packet} {rq : Rq}
    (hk : k < fs.length) (hinv : RxInv s fs k p) (hrq : IsFragRq s fs k rq) :
    (rxStep p true rq).2 = (if k + 1 = fs.length then frames fs.flatten else []) ∧
    RxInv s fs (k + 1) (rxStep p true rq).1 := by
  obtain ⟨hS, hF, hL, hrv, hpay⟩ := fragRq_facts hc hrq
  have hfl := List.length_pos_iff.mpr (getD_ne_nil hc hk)
  have hsz := hc.size
  have hpl := pre_length_le fs (k + 1)
  rw [pre_succ fs k hk, List.length_append] at hpl
  have hk16 : k < 16 := Nat.lt_of_lt_of_le hk hc.le16
  have hs8 := hc.seq
  unfold rxStep
  simp only [if_true]
  unfold RxInv at hinv
  by_cases hk0 : k = 0
  · -- first fragment: a new, not recent seqno
    subst hk0
    simp only [if_true] at hinv
    obtain ⟨hne, hnr⟩ := hinv
    have hread : rxRead p (decodeHdr rq.buf) rq.rv = rq.rv := by
      unfold rxRead; rw [hS, hnr]; simp
    rw [hread]
    have hadopt : rxAdopt p (decodeHdr rq.buf) rq.rv = p := by
      unfold rxAdopt; rw [if_neg]; omega
    rw [hadopt]
    unfold rxDown
    rw [if_pos hrv]
    have hacc : rxAccept p (decodeHdr rq.buf) = some { p with seqno := (s : Int), fragment := 0, len := 0 } := by
      unfold rxAccept
      rw [hS, hF, if_pos (Ne.symm hne), sChar_small _ (by omega) (by omega)]
      rfl
    rw [hacc]
    dsimp only
    rw [hL]
    have happ : rxAppend { p with seqno := (s : Int), fragment := 0, len := 0 } (decodeHdr rq.buf) rq.buf rq.rv
        = { p with seqno := (s : Int), fragment := 0, data := fs.getD 0 [], len := (fs.getD 0 []).length } := by
      unfold rxAppend
      simp only [hpay, hF, List.take_zero, List.nil_append, Nat.zero_add, Nat.sub_zero]
      rw [List.take_of_length_le (by simp only [pre, List.take_zero, List.flatten_nil, List.length_nil] at hpl; omega)]
      rfl
    rw [happ]
    by_cases hlast : 0 + 1 = fs.length
    · simp only [hlast, decide_true, if_true]
      unfold rxDeliver
      dsimp only
      refine ⟨?_, ?_⟩
      · rw [List.take_of_length_le (Nat.le_refl _)]
        have : fs.flatten = fs.getD 0 [] := by
          have h1 := pre_succ fs 0 hk
          rw [hlast, pre_all] at h1
          simpa [pre] using h1
        rw [this]
      · unfold RxInv
        simp [← hlast]
    · simp only [hlast, decide_false, Bool.false_eq_true, if_false]
      refine ⟨trivial, ?_⟩
      unfold RxInv
      have h1 := pre_succ fs 0 hk
      simp only [pre, List.take_zero, List.flatten_nil, List.nil_append] at h1
      have hlt : 0 + 1 < fs.length := by omega
      simp only [Nat.succ_ne_zero, if_false, Nat.add_sub_cancel, hlt, if_true]
      refine ⟨trivial, rfl, ?_, ?_, hfl⟩
      · show (fs.getD 0 []).length = (pre fs (0 + 1)).length
        unfold pre; rw [h1]
      · show List.take (fs.getD 0 []).length (fs.getD 0 []) = pre fs (0 + 1)
        unfold pre; rw [h1, List.take_of_length_le (Nat.le_refl _)]
  · -- a later fragment: same seqno, fragment number one higher
    simp only [hk0, if_false, hk, if_true] at hinv
    obtain ⟨hseq, hfrag, hlen, hdata, hpos⟩ := hinv
    have hread : rxRead p (decodeHdr rq.buf) rq.rv = rq.rv := by
      unfold rxRead; rw [hS, hseq]; simp
    rw [hread]
    have hadopt : rxAdopt p (decodeHdr rq.buf) rq.rv = p := by
      unfold rxAdopt; rw [if_neg]; omega
    rw [hadopt]
    unfold rxDown
    rw [if_pos hrv]
    have hacc : rxAccept p (decodeHdr rq.buf) = some p := by
      unfold rxAccept
      rw [hS, hF, hseq, hfrag, if_neg (by simp), if_neg (by omega), if_neg (by omega), if_neg (by omega)]
    rw [hacc]
    dsimp only
    rw [hL]
    have hlen' : (pre fs k).length + (fs.getD k []).length ≤ Gen.PACKET_DATA_SIZE := by omega
    have happ : rxAppend p (decodeHdr rq.buf) rq.buf rq.rv
        = { p with fragment := (k : Int), data := pre fs (k + 1), len := (pre fs (k + 1)).length } := by
      unfold rxAppend
      simp only [hpay, hF, hdata]
      rw [List.take_of_length_le (by omega), sChar_small _ (by omega) (by omega), pre_succ fs k hk,
        List.length_append, hlen]
    rw [happ]
    by_cases hlast : k + 1 = fs.length
    · simp only [hlast, decide_true, if_true]
      unfold rxDeliver
      dsimp only
      refine ⟨?_, ?_⟩
      · rw [List.take_of_length_le (Nat.le_refl _), pre_all]
      · unfold RxInv
        rw [if_neg (by omega), if_neg (by omega)]
        exact ⟨hseq, by simp; omega, rfl⟩
    · simp only [hlast, decide_false, Bool.false_eq_true, if_false]
      refine ⟨trivial, ?_⟩
      unfold RxInv
      have hlt : k + 1 < fs.length := by omega
      rw [if_neg (by omega), if_pos hlt]
      exact ⟨hseq, by simp, rfl, List.take_of_length_le (Nat.le_refl _), pre_pos hc hk⟩


theorem rxStep_false (p : Packet) (rq : Rq) : rxStep p false rq = (p, []) := rfl

/-- an answer whose downstream seqno is a recent one (not the current): nothing happens to `inpkt` -/
theorem rxStep_stale (p : Packet) (rq : Rq) (h1 : (decodeHdr rq.buf).dnSeq ≠ p.seqno)
    (h2 : recentSeqno p.seqno (decodeHdr rq.buf).dnSeq = true) : rxStep p true rq = (p, []) := by
  unfold rxStep
  simp only [if_true]
  have hread : rxRead p (decodeHdr rq.buf) rq.rv ≤ 2 := by
    unfold rxRead
    split
    · exact Int.le_refl 2
    · next h => simp only [h1, h2, ne_eq, not_false_eq_true, and_self, and_true] at h; omega
  have hadopt : rxAdopt p (decodeHdr rq.buf) (rxRead p (decodeHdr rq.buf) rq.rv) = p := by
    unfold rxAdopt; rw [if_neg]; simp [h2]
  rw [hadopt]
  unfold rxDown
  rw [if_neg (by omega)]

/-- a header-only answer for the current seqno: nothing happens to `inpkt` -/
theorem rxStep_dataless (p : Packet) (rq : Rq) (h1 : (decodeHdr rq.buf).dnSeq = p.seqno) (h2 : rq.rv ≤ 2) :
    rxStep p true rq = (p, []) := by
  unfold rxStep
  simp only [if_true]
  have hread : rxRead p (decodeHdr rq.buf) rq.rv = rq.rv := by
    unfold rxRead; rw [if_neg]; omega
  rw [hread]
  have hadopt : rxAdopt p (decodeHdr rq.buf) rq.rv = p := by
    unfold rxAdopt; rw [if_neg]; simp [h1]
  rw [hadopt]
  unfold rxDown
  rw [if_neg (by omega)]

/-- a duplicate of a fragment that was already taken (while the packet is incomplete, or after completion of a packet of
at least two fragments): nothing happens to `inpkt` -/
theorem rxStep_dup {s : Nat} {fs : List (List Nat)} (hc : Cut s fs) {k j : Nat} {p : Packet} {rq : Rq}
    (hk : k ≤ fs.length) (hj : j < k) (h2 : k < fs.length ∨ 2 ≤ fs.length)
    (hinv : RxInv s fs k p) (hrq : IsFragRq s fs j rq) :
    rxStep p true rq = (p, []) := by
  obtain ⟨hS, hF, hL, hrv, hpay⟩ := fragRq_facts hc hrq
  unfold RxInv at hinv
  rw [if_neg (by omega)] at hinv
  obtain ⟨hseq, hfrag, hrest⟩ := hinv
  unfold rxStep
  simp only [if_true]
  have hread : rxRead p (decodeHdr rq.buf) rq.rv = rq.rv := by
    unfold rxRead; rw [hS, hseq]; simp
  rw [hread]
  have hadopt : rxAdopt p (decodeHdr rq.buf) rq.rv = p := by
    unfold rxAdopt; rw [if_neg]; omega
  rw [hadopt]
  unfold rxDown
  rw [if_pos hrv]
  have hacc : rxAccept p (decodeHdr rq.buf) = none := by
    unfold rxAccept
    rw [hS, hF, hseq, hfrag, if_neg (by simp)]
    have hw : ¬ (((k - 1 : Nat) : Int) = 0 ∧ (j : Int) = 0 ∧ p.len = 0) := by
      rintro ⟨a, b, c⟩
      split at hrest
      · omega
      · omega
    rw [if_neg hw, if_pos (by omega)]
  rw [hacc]

/-- **Finding.**  A packet that fits into ONE fragment is delivered again by every duplicate of that fragment: after
the delivery `inpkt.fragment = 0` and `inpkt.len = 0`, which is the "weird situation" test of `tunnel_dns`. -/
theorem rxStep_single_again {s : Nat} {fs : List (List Nat)} (hc : Cut s fs) {p : Packet} {rq : Rq}
    (h1 : fs.length = 1) (hinv : RxInv s fs 1 p) (hrq : IsFragRq s fs 0 rq) :
    (rxStep p true rq).2 = frames fs.flatten ∧ RxInv s fs 1 (rxStep p true rq).1 := by
  obtain ⟨hS, hF, hL, hrv, hpay⟩ := fragRq_facts hc hrq
  have hsz := hc.size
  have hpre : fs.flatten = fs.getD 0 [] := by
    have h := pre_succ fs 0 (by omega)
    rw [Nat.zero_add, ← h1, pre_all] at h
    simpa [pre] using h
  unfold RxInv at hinv
  rw [if_neg (by omega), if_neg (by omega)] at hinv
  obtain ⟨hseq, hfrag, hlen⟩ := hinv
  unfold rxStep
  simp only [if_true]
  have hread : rxRead p (decodeHdr rq.buf) rq.rv = rq.rv := by
    unfold rxRead; rw [hS, hseq]; simp
  rw [hread]
  have hadopt : rxAdopt p (decodeHdr rq.buf) rq.rv = p := by
    unfold rxAdopt; rw [if_neg]; omega
  rw [hadopt]
  unfold rxDown
  rw [if_pos hrv]
  have hacc : rxAccept p (decodeHdr rq.buf) = some p := by
    unfold rxAccept
    rw [hS, hF, hseq, hfrag, if_neg (by simp), if_pos ⟨by simp, by simp, hlen⟩]
  rw [hacc]
  dsimp only
  rw [hL]
  simp only [h1, decide_true, if_true]
  have happ : rxAppend p (decodeHdr rq.buf) rq.buf rq.rv
      = { p with fragment := 0, data := fs.flatten, len := fs.flatten.length } := by
    unfold rxAppend
    simp only [hpay, hF, hlen, List.take_zero, List.nil_append, Nat.zero_add, Nat.sub_zero]
    rw [List.take_of_length_le (by rw [← hpre]; exact hsz), ← hpre]
    rfl
  rw [happ]
  unfold rxDeliver
  dsimp only
  refine ⟨by rw [List.take_of_length_le (Nat.le_refl _)], ?_⟩
  unfold RxInv
  rw [if_neg (by omega), if_neg (by omega)]
  exact ⟨hseq, rfl, rfl⟩

end Iodine.C01L
