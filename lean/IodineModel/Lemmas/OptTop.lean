import IodineModel.Server.Options
import IodineModel.Server.Run
import IodineModel.Server.Bytes
import IodineModel.Lemmas.OptSrv
import IodineModel.Props.Top
/-
From `main()` to the session machine: the state `tunnel()` is entered with is `Server.start` / `bstart` of the configuration the
options model yields; the clock value stored in that state is irrelevant.
-/
namespace Iodine.OptL
open Iodine Iodine.Getopt Iodine.Server Iodine.Server.Options

theorem clearNewFrom_inactive (now c : Nat) : ∀ (xs : List Session) (i : Nat), (∀ x ∈ xs, x.active = false) →
    clearNewFrom now c xs i = xs
  | [], _, _ => rfl
  | x :: xs, i, h => by
    have hx : live x now = false := by simp [live, h x (by simp)]
    simp only [clearNewFrom, hx, Bool.false_eq_true, and_false, if_false]
    rw [clearNewFrom_inactive now c xs (i + 1) (fun y hy => h y (by simp [hy]))]

theorem timeoutFrom_inactive (now c : Nat) : ∀ (xs : List Session) (i : Nat), (∀ x ∈ xs, x.active = false) →
    timeoutFrom now c xs i = 10000000
  | [], _, _ => rfl
  | x :: xs, i, h => by
    have hx : live x now = false := by simp [live, h x (by simp)]
    simp only [timeoutFrom, hx, Bool.false_eq_true, false_and, and_false, if_false]
    exact timeoutFrom_inactive now c xs (i + 1) (fun y hy => h y (by simp [hy]))

theorem waiting_inactive (s : Srv) (h : ∀ x ∈ s.users, x.active = false) : allUsersWaitingToSend s = true := by
  unfold allUsersWaitingToSend
  rw [Bool.not_eq_true', List.any_eq_false]
  intro x hx
  simp [live, h x hx]

/-- with every slot inactive, one iteration does not depend on the clock value stored in the state before it -/
theorem iteration_clock_irrelevant (s : Srv) (h : ∀ x ∈ s.users, x.active = false) (t : Nat) (inp : Input) (now' : Nat) :
    iteration { s with now := t } inp now' = iteration s inp now' := by
  unfold iteration topOfLoop
  simp only [clearNewFrom_inactive _ _ _ _ h, timeoutFrom_inactive _ _ _ _ h]
  have h1 : allUsersWaitingToSend { s with now := t, users := s.users } = true := waiting_inactive _ h
  have h2 : allUsersWaitingToSend { s with users := s.users } = true := waiting_inactive _ h
  simp only [h1, h2]

theorem start_inactive (cfg : Config) (rnd : List Nat) : ∀ x ∈ (start cfg rnd).users, x.active = false := by
  intro x hx
  simp only [start, Srv.init, List.mem_map] at hx
  obtain ⟨ip, _, rfl⟩ := hx
  rfl

/-- **the clock at start-up is irrelevant**: `Server.start` stores 1000; a process started at any other time behaves the same from
its first iteration on -/
theorem start_clock_irrelevant (cfg : Config) (rnd : List Nat) (t : Nat) (inp : Input) (now' : Nat) :
    iteration { start cfg rnd with now := t } inp now' = iteration (start cfg rnd) inp now' :=
  iteration_clock_irrelevant _ (start_inactive cfg rnd) t inp now'

/-- the state after `main()` is the start state of the session model -/
theorem srv_eq_start (env : Env) (argv : List (List Nat)) (f : Final) (h : (serverMain env argv).final = some f)
    (rnd : List Nat) (d4 d6 : Nat) : f.srv rnd d4 d6 1000 = start (f.cfg d4 d6) rnd := by
  obtain ⟨o, v, evs, v4, v6, _, _, hf⟩ := serverMain_final env argv f h
  subst hf
  simp only [Final.srv, start, Srv.init, Final.cfg, Final.toConfig, finalOf, List.length_map]

theorem entry_eq_start {env : Env} {argv : List (List Nat)} {f : Final} (h : Top.Starts env argv f)
    (rnd : List Nat) (d4 d6 : Nat) : Top.entry f rnd d4 d6 = start (f.cfg d4 d6) rnd := srv_eq_start env argv f h rnd d4 d6

theorem bentry_eq_bstart {env : Env} {argv : List (List Nat)} {f : Final} (h : Top.Starts env argv f)
    (rnd : List Nat) (d4 d6 : Nat) : Top.bentry f rnd d4 d6 = bstart (f.cfg d4 d6) rnd := by
  unfold Top.bentry bstart; rw [entry_eq_start h]

/-- what `validate` established, about the configuration of the running process -/
theorem cfg_ranges {env : Env} {argv : List (List Nat)} {f : Final} (h : Top.Starts env argv f) (d4 d6 : Nat) :
    8 ≤ (f.cfg d4 d6).netmask ∧ (f.cfg d4 d6).netmask ≤ 30 ∧ (f.cfg d4 d6).myIp < 2 ^ 32 ∧
    0 < (f.cfg d4 d6).mtu ∧ (f.cfg d4 d6).mtu < 2 ^ 31 ∧ Common.checkTopdomain (f.cfg d4 d6).topdomain true = 0 := by
  obtain ⟨o, v, evs, v4, v6, ho, hv, hf⟩ := serverMain_final env argv f h
  have hi := srv_optLoop_inv _ _ o none sinv_init ho
  have hval := validate_ok env o _ v evs hv
  subst hf
  have hnm := hval.nm
  have hip := hval.ip_le
  have ho' : v.o = o := hval.o_eq
  refine ⟨?_, ?_, ?_, ?_, ?_, hval.td⟩
  · show 8 ≤ v.netmask.toNat; omega
  · show v.netmask.toNat ≤ 30; omega
  · show v.myIp < 2 ^ 32; omega
  · show 0 < v.o.mtu; rw [ho']; exact hval.mtu
  · show v.o.mtu < 2 ^ 31; rw [ho']; exact hi.mtu

end Iodine.OptL
