import IodineModel.Lemmas.C02base
/-
Session-level forms of the server functions on the data / ping path: each of them reads and writes only slot `u`, so
`F s u … = (putUser s u (FSess (getUser s u) …), events (getUser s u))`.
-/
namespace Iodine.C02L
open Iodine Iodine.Gen Iodine.Server

/-- `start_new_outpacket` on the slot -/
def startOut (x : Session) (data : List Nat) (datalen : Nat) : Session :=
  { x with outpacket := { x.outpacket with data := data.take (min datalen PACKET_DATA_SIZE), len := min datalen PACKET_DATA_SIZE,
                                           offset := 0, sentlen := 0, seqno := (x.outpacket.seqno + 1) % 8, fragment := 0 },
           outfragresent := 0 }

theorem startNewOutpacket_eq (s : Srv) (u : Nat) (d : List Nat) (n : Nat) :
    startNewOutpacket s u d n = putUser s u (startOut (getUser s u) d n) := by
  unfold startNewOutpacket
  rw [setUser_eq_putUser]
  rfl

/-- `get_from_outpacketq` on the slot -/
def fromQueue (x : Session) : Session × Bool :=
  if x.oqFilled = 0 then (x, false)
  else
    let p := x.outpacketq.getD x.oqNext Packet.zero
    let y := startOut x p.data p.len
    ({ y with oqNext := if x.oqNext + 1 ≥ OUTPACKETQ_LEN then 0 else x.oqNext + 1, oqFilled := y.oqFilled - 1 }, true)

theorem getFromOutpacketq_eq (s : Srv) (u : Nat) (h : u < s.users.length) :
    getFromOutpacketq s u = (putUser s u (fromQueue (getUser s u)).1, (fromQueue (getUser s u)).2) := by
  unfold getFromOutpacketq fromQueue
  simp only
  split
  · simp [putUser_getUser]
  · simp only [startNewOutpacket_eq, setUser_eq_putUser, putUser_putUser, getUser_putUser_self _ _ _ h]

/-- `save_to_qmem_pingordata` on the slot -/
def qmemUpd (x : Session) (q : Query) : Session :=
  let c0 := q.name.getD 0 0
  if c0 = 80 ∨ c0 = 112 then
    match q.name.idxOf? 46 with
    | none => x
    | some cp =>
      let cmc := Codec.dec Codec.b32 8 (cp - 1) (q.name.drop 1)
      if cmc.length < 4 then x
      else
        let r := saveToQmem x.qmemping x.qmempingLast QMEMPING_LEN (cmc.take 4) q.type
        { x with qmemping := r.1, qmempingLast := r.2 }
  else
    if q.name.length < 5 then x
    else
      let r := saveToQmem x.qmemdata x.qmemdataLast QMEMDATA_LEN (dataCmc q.name) q.type
      { x with qmemdata := r.1, qmemdataLast := r.2 }

theorem saveToQmemPingOrData_eq (s : Srv) (u : Nat) (q : Query) :
    saveToQmemPingOrData s u q = putUser s u (qmemUpd (getUser s u) q) := by
  unfold saveToQmemPingOrData qmemUpd
  simp only
  split
  · cases List.idxOf? 46 q.name with
    | none => simp only [putUser_getUser]
    | some cp =>
      simp only
      split
      · simp only [putUser_getUser]
      · rw [setUser_eq_putUser]
  · split
    · simp only [putUser_getUser]
    · rw [setUser_eq_putUser]

/-- `save_to_dnscache` on the slot -/
def cacheUpd (x : Session) (q : Query) (answer : List Nat) : Session :=
  if answer.length > DNSCACHE_ANSWER_SIZE then x
  else
    let fill := if x.dcLast + 1 ≥ DNSCACHE_LEN then 0 else x.dcLast + 1
    { x with dnscache := x.dnscache.set fill ⟨q, answer, answer.length⟩, dcLast := fill }

theorem saveToDnscache_eq (s : Srv) (u : Nat) (q : Query) (a : List Nat) :
    saveToDnscache s u q a = putUser s u (cacheUpd (getUser s u) q a) := by
  unfold saveToDnscache cacheUpd
  split
  · simp [putUser_getUser]
  · rw [setUser_eq_putUser]

/-- first block of `send_chunk_or_dataless` on the slot -/
def dropResent (x : Session) : Session :=
  if x.outpacket.len > 0 ∧ x.outfragresent > 5 then (fromQueue (dropOut x)).1 else x

theorem scDropResent_eq (s : Srv) (u : Nat) (h : u < s.users.length) :
    scDropResent s u = putUser s u (dropResent (getUser s u)) := by
  unfold scDropResent dropResent
  simp only
  split
  · rw [setUser_eq_putUser, getFromOutpacketq_eq _ _ (by simpa using h)]
    simp only [putUser_putUser, getUser_putUser_self _ _ _ h]
  · simp [putUser_getUser]

/-- second block on the slot -/
def prepare (x : Session) : Session :=
  if x.outpacket.len > 0 then
    { x with outpacket := { x.outpacket with sentlen := scDatalen x }, outfragresent := x.outfragresent + 1 }
  else x

theorem scPrepare_eq (s : Srv) (u : Nat) : scPrepare s u = putUser s u (prepare (getUser s u)) := by
  unfold scPrepare prepare
  split
  · rw [setUser_eq_putUser]
  · simp [putUser_getUser]

/-- `send_chunk_or_dataless` on the slot: new slot, events, return value -/
def scSess (x0 : Session) (u : Nat) (w : QSel) : (Session × List Event) × Bool :=
  let x := prepare (dropResent x0)
  let datalen := scDatalen x
  let pkt := scPkt x datalen
  let a := scAnswer (w.get x) pkt x.downenc u
  let y := w.set (cacheUpd (qmemUpd x a.1) a.1 pkt) { a.1 with id := 0 }
  if datalen > 0 ∧ datalen = x.outpacket.len then
    (((fromQueue (dropOut y)).1, a.2), (fromQueue (dropOut y)).2)
  else ((y, a.2), false)

theorem sendChunkOrDataless_eq (s : Srv) (u : Nat) (w : QSel) (h : u < s.users.length) :
    sendChunkOrDataless s u w =
      ((putUser s u (scSess (getUser s u) u w).1.1, (scSess (getUser s u) u w).1.2), (scSess (getUser s u) u w).2) := by
  unfold sendChunkOrDataless scSess
  simp only [scDropResent_eq _ _ h, scPrepare_eq, saveToQmemPingOrData_eq, saveToDnscache_eq, setUser_eq_putUser,
    putUser_putUser, getUser_putUser_self _ _ _ h]
  split
  · rw [getFromOutpacketq_eq _ _ (by simpa using h)]
    simp only [putUser_putUser, getUser_putUser_self _ _ _ h]
  · rfl

/-- `process_downstream_ack` on the slot -/
def ackSess (x : Session) (dnSeq dnFrag : Int) : Session :=
  if x.outpacket.len = 0 then x
  else if x.outpacket.seqno ≠ dnSeq ∨ x.outpacket.fragment ≠ dnFrag then x
  else if x.outpacket.sentlen = 0 then x
  else
    let off := x.outpacket.offset + x.outpacket.sentlen
    let y := { x with outpacket := { x.outpacket with offset := off, sentlen := 0, fragment := sChar (x.outpacket.fragment + 1) },
                      outfragresent := 0 }
    if off ≥ x.outpacket.len then
      (fromQueue { y with outpacket := { y.outpacket with len := 0, offset := 0, fragment := sChar (y.outpacket.fragment - 1) } }).1
    else y

theorem processDownstreamAck_eq (s : Srv) (u : Nat) (a b : Int) (h : u < s.users.length) :
    processDownstreamAck s u a b = putUser s u (ackSess (getUser s u) a b) := by
  unfold processDownstreamAck ackSess
  simp only
  split
  · simp [putUser_getUser]
  · split
    · simp [putUser_getUser]
    · split
      · simp [putUser_getUser]
      · split
        · simp only [setUser_eq_putUser, putUser_putUser, getUser_putUser_self _ _ _ h]
          rw [getFromOutpacketq_eq _ _ (by simpa using h)]
          simp only [putUser_putUser, getUser_putUser_self _ _ _ h]
        · rw [setUser_eq_putUser]

end Iodine.C02L
