import IodineModel.Lemmas.C02qL4
/-
C02 phase 2 / upstream, lazy mode, desynchronised — the client's 1 s timer in the drop flow: a resend (`drop_resend`, three
times), then the give-up (`drop_giveup`: the packet is forgotten, a ping goes out, the server answers the data query it
held and holds the ping, the client reads that answer: quiescent, `outpkt.seqno` one further ahead).
-/
namespace Iodine.C02L
open Iodine Iodine.Gen Iodine.World

theorem promptEv_tickC (w : W) (h1 : w.up = []) (h2 : w.down = []) (t : Int) (h3 : timeoutC w = some t)
    (h4 : ¬ (timeoutS w : Int) ≤ t) : promptEv w = .tickC := by
  simp [promptEv, h1, h2, h3, h4]

theorem timeoutS_idle_lazy {P : Par} {w : W} (hS : SStat P w.srv) (hi : IdleLazy (Server.getUser w.srv P.u)) :
    timeoutS w = 10000000 := by
  unfold timeoutS
  rw [topOfLoop_timeout hS.solo, if_neg (by intro hc; exact hc.2 hi.qs)]

/-- what the drop flow knows about the client while it waits for its timer -/
structure BouncedCli (P : Par) (out : List Nat) (c0 cb c1 : Client.Cli) : Prop where
  stat : CStatL P c1
  cnt : CntOk c1 1
  sending : Client.isSending c1 = true
  data : c1.outpkt.data = out
  len : c1.outpkt.len = out.length
  off : c1.outpkt.offset = 0
  frag : c1.outpkt.fragment = 0
  seq : c1.outpkt.seqno = c0.outpkt.seqno
  res : c1.outchunkresent = c0.outchunkresent
  inpkt : c1.inpkt = c0.inpkt
  cmc : c1.datacmc = (c0.datacmc + 1) % 36
  seed : c1.randSeed = c0.randSeed
  cid : c1.chunkid = (sentState c0).chunkid
  now : c1.now = cb.now + 1
  toC : (Client.selectOf cb).to = 1000000
  step : Client.tunnelStep cb .tick = Client.settle (Client.timeoutBranch c1)

theorem bounced_cli {P : Par} {out : List Nat} {c0 : Client.Cli} (hr : CReadyL P c0 out 0 0) :
    ∃ c1, BouncedCli P out c0 (ackBook { sentStateL c0 with sendPingSoon := 0 }) c1 := by
  have hsf := sentFactsL c0
  have hsi := sentIdsL c0
  have hcst := cstat_sentL hr
  have hcnt2 : CntOk { sentStateL c0 with sendPingSoon := 0 } 2 := hsi.cnt hr.cnt
  have hres : ({ sentStateL c0 with sendPingSoon := 0 } : Client.Cli).outchunkresent = c0.outchunkresent := sentStateL_resentL c0
  generalize hc : ({ sentStateL c0 with sendPingSoon := 0 } : Client.Cli) = c at hsf hcst hsi hcnt2 hres
  have hb := cstat_ackBookL hcst
  have hlen0 : out.length ≠ 0 := by have := hr.ho; omega
  have hsending : Client.isSending (ackBook c) = true := by
    unfold Client.isSending
    show (c.outpkt.len != 0) = true
    rw [hsf.olen, hr.len]
    simpa using hlen0
  have hto : (Client.selectOf (ackBook c)).to = 1000000 := by
    have : (ackBook c).sendPingSoon = 0 := hsf.sps
    simp [Client.selectOf, this, hsending]
  generalize hc1 : Client.advanceClock (ackBook c) (Client.selectOf (ackBook c)) = c1
  have hfr : c1 = { ackBook c with now := c1.now } := by rw [← hc1]; rfl
  have hnow : c1.now = (ackBook c).now + 1 := by
    rw [← hc1, advanceClock_now, hto]; rfl
  have hldt : (ackBook c).lastdownstreamtime = (ackBook c).now := rfl
  refine ⟨c1, ?_, ?_, ?_, ?_, ?_, ?_, ?_, ?_, ?_, ?_, ?_, ?_, ?_, hnow, hto, ?_⟩
  · rw [hfr]
    exact ⟨hb.running, hb.conn, hb.lz, hb.uid, hb.uch, hb.td, hb.L, hb.enc, hb.ty, hb.cid, hb.cmc,
      by show ¬ (ackBook c).lastdownstreamtime + 60 < c1.now; rw [hnow, hldt]; omega, hb.oseq, hb.iseq, hb.ifrag, hb.seed⟩
  · have := ackBook_cnt c hcnt2
    rw [hfr]
    unfold CntOk at *
    exact this
  · rw [hfr]; exact hsending
  · rw [hfr]; show c.outpkt.data = out; rw [hsf.odata]; exact hr.data
  · rw [hfr]; show c.outpkt.len = out.length; rw [hsf.olen]; exact hr.len
  · rw [hfr]; show c.outpkt.offset = 0; rw [hsf.ooff]; exact hr.off
  · rw [hfr]; show c.outpkt.fragment = 0; rw [hsf.ofrag, hr.frag]; rfl
  · rw [hfr]; show c.outpkt.seqno = _; exact hsf.oseq
  · rw [hfr]; show c.outchunkresent = _; exact hres
  · rw [hfr]; show c.inpkt = _; exact hsf.inpkt
  · rw [hfr]; show c.datacmc = _; rw [hsf.cmc]
    have := hr.stat.cmc
    split <;> omega
  · rw [hfr]; show c.randSeed = _; exact hsf.seed
  · rw [hfr]; show c.chunkid = _; exact hsi.cid
  · rw [tunnelStep_tick (ackBook c) hb.running (by rw [hc1, hnow, hldt]; omega), hc1]

/-- `tickC` with fewer than three resends behind: the same fragment goes out again, one second later -/
theorem drop_resend {P : Par} (hP : P.Ok) {out : List Nat} {w : W} {c0 : Client.Cli} {j r : Nat}
    (h : UpBouncedL P out w c0 j r) (hr : r < 3) :
    ∃ w' c0', promptSteps P.u 1 w = some w' ∧ UpDropL P out w' c0' j (r + 1) ∧
      w'.tunS = w.tunS ∧ w'.tunC = w.tunC ∧ c0'.outpkt.seqno = c0.outpkt.seqno ∧
      (Server.getUser w'.srv P.u).inpacket = (Server.getUser w.srv P.u).inpacket ∧
      (Server.getUser w'.srv P.u).tunIp = (Server.getUser w.srv P.u).tunIp ∧
      (Server.getUser w'.srv P.u).fragsize = (Server.getUser w.srv P.u).fragsize ∧
      w'.srv.now = w.srv.now + 1 ∧ w'.cs.c.now = w.cs.c.now + 1 := by
  obtain ⟨c1, hb⟩ := bounced_cli h.ready
  generalize hcb : ackBook { sentStateL c0 with sendPingSoon := 0 } = cb at hb
  have hcs : w.cs = ⟨cb, .tunnel⟩ := by rw [h.cs, hcb]
  have hq : quiet P.u w = false := by
    unfold World.quiet
    rw [hcs]
    have : Client.isSending cb = true := by
      have h1 := hb.sending
      have h2 : c1.outpkt.len = cb.outpkt.len := by
        have := hb.len
        rw [this, ← hcb]
        show _ = ({ sentStateL c0 with sendPingSoon := 0 } : Client.Cli).outpkt.len
        rw [(sentFactsL c0).olen, h.ready.len]
      unfold Client.isSending at h1 ⊢
      rw [← h2]; exact h1
    simp [this]
  have hpe : promptEv w = .tickC := by
    have htc : timeoutC w = some (Client.selectOf cb).to := by
      unfold timeoutC Client.pending
      rw [hcs]
    apply promptEv_tickC w h.up h.down _ htc
    rw [timeoutS_idle_lazy h.srv h.idle, hb.toC]
    decide
  -- the resend
  generalize hc0' : ({ c1 with outchunkresent := c1.outchunkresent + 1 } : Client.Cli) = c0'
  have hready' : CReadyL P c0' out 0 0 := by
    subst hc0'
    have hs := hb.stat
    refine ⟨⟨hs.running, hs.conn, hs.lz, hs.uid, hs.uch, hs.td, hs.L, hs.enc, hs.ty, hs.cid, hs.cmc, hs.alive, hs.oseq, hs.iseq, hs.ifrag, hs.seed⟩,
      ?_, hb.data, hb.len, hb.off, by rw [show ((0 : Nat) : Int) = 0 from rfl]; exact hb.frag, h.ready.ho, h.ready.hf, h.ready.bytes⟩
    have := hb.cnt
    unfold CntOk at *
    exact this
  obtain ⟨name', hsend', _, _, _⟩ := send_readyL hP hready'
  have hsf' := sentFactsL c0'
  have htb : Client.timeoutBranch c1 = Client.afterSend (Client.sendChunk c0') [] .timeout := by
    unfold Client.timeoutBranch
    rw [if_pos hb.sending, if_pos (by rw [hb.res, h.res]; exact hr), hc0']
  have hstep : Client.cstep w.cs .tick =
      (⟨{ sentStateL c0' with sendPingSoon := 0 }, .tunnel⟩, [] ++ (Client.sendChunk c0').evs,
       .sel (Client.selectOf { sentStateL c0' with sendPingSoon := 0 })) := by
    rw [hcs]
    show Client.tunnelStep cb .tick = _
    rw [hb.step, htb]
    rw [settle_afterSend _ _ _ (by rw [hsend']) (by rw [hsend']; have := hsf'.running; simpa using this.trans hready'.stat.running)]
    rw [hsend']
  have hnow' : ({ sentStateL c0' with sendPingSoon := 0 } : Client.Cli).now - w.cs.c.now = 1 := by
    rw [hsf'.now, hcs]
    have : c0'.now = c1.now := by subst hc0'; rfl
    rw [this, hb.now]
    show cb.now + 1 - cb.now = 1
    omega
  have hs1 : step w (promptEv w) =
      { w with cs := ⟨{ sentStateL c0' with sendPingSoon := 0 }, .tunnel⟩, srv := { w.srv with now := w.srv.now + 1 },
               up := upOfEvents (Client.sendChunk c0').evs } := by
    rw [hpe, step_tickC, stepC_tick w _ _ _ hstep, h.up]
    simp only [hnow', List.nil_append]
    rw [hsend']
    simp [tunOfCEvents]
  have hS' : SStat P { w.srv with now := w.srv.now + 1 } := h.srv.advance 1 (by rw [h.fresh]; omega)
  refine ⟨({ w with cs := ⟨{ sentStateL c0' with sendPingSoon := 0 }, .tunnel⟩, srv := { w.srv with now := w.srv.now + 1 },
                      up := upOfEvents (Client.sendChunk c0').evs } : W), c0', ?_, ?_, ?_, ?_, ?_, ?_, ?_, ?_, rfl, ?_⟩
  · rw [promptSteps_succ hq, hs1]; rfl
  · refine ⟨rfl, hready', ?_, rfl, rfl, h.down, hS', h.idle, h.oq, h.held, ?_, h.hj, ?_, h.noack, ?_, ?_⟩
    · subst hc0'; show c1.outchunkresent + 1 = r + 1; rw [hb.res, h.res]
    · show (Server.getUser w.srv P.u).q.id = c0'.chunkid
      rw [h.heldid]; subst hc0'; exact hb.cid.symm
    · show c0'.outpkt.seqno = _
      have : c0'.outpkt.seqno = c1.outpkt.seqno := by subst hc0'; rfl
      rw [this, hb.seq]; exact h.ahead
    · show (Server.getUser w.srv P.u).outpacket.seqno = c0'.inpkt.seqno
      have : c0'.inpkt = c1.inpkt := by subst hc0'; rfl
      rw [this, hb.inpkt]; exact h.syncd
    · show HeldMem P (Server.getUser w.srv P.u) (Server.getUser w.srv P.u).q c0'.datacmc c0'.randSeed
      have e1 : c0'.datacmc = c1.datacmc := by subst hc0'; rfl
      have e2 : c0'.randSeed = c1.randSeed := by subst hc0'; rfl
      rw [e1, e2, hb.cmc, hb.seed]; exact h.mem
  · rfl
  · rfl
  · have : c0'.outpkt.seqno = c1.outpkt.seqno := by subst hc0'; rfl
    rw [this, hb.seq]
  · rfl
  · rfl
  · rfl
  · show ({ sentStateL c0' with sendPingSoon := 0 } : Client.Cli).now = w.cs.c.now + 1
    rw [hsf'.now, hcs]
    have : c0'.now = c1.now := by subst hc0'; rfl
    rw [this, hb.now]

/-- the fourth `tickC` and the two steps after it: the client forgets the packet and sends a ping; the server answers the data
query it held (dataless) and holds the ping; the client reads that answer.  Quiescent again — the client's `outpkt.seqno`
is still the forgotten packet's, the server's `inpacket` is untouched. -/
theorem drop_giveup {P : Par} (hP : P.Ok) {out : List Nat} {w : W} {c0 : Client.Cli} {j : Nat}
    (h : UpBouncedL P out w c0 j 3) :
    ∃ w', promptSteps P.u 3 w = some w' ∧ QuietLazyD P (j % 8) 0 w' ∧
      w'.tunS = w.tunS ∧ w'.tunC = w.tunC ∧ w'.cs.c.outpkt.seqno = c0.outpkt.seqno ∧
      (Server.getUser w'.srv P.u).inpacket = (Server.getUser w.srv P.u).inpacket ∧
      (Server.getUser w'.srv P.u).tunIp = (Server.getUser w.srv P.u).tunIp ∧
      (Server.getUser w'.srv P.u).fragsize = (Server.getUser w.srv P.u).fragsize ∧
      w'.srv.now = w.srv.now + 1 ∧ w'.cs.c.now = w.cs.c.now + 1 := by
  obtain ⟨c1, hb⟩ := bounced_cli h.ready
  generalize hcb : ackBook { sentStateL c0 with sendPingSoon := 0 } = cb at hb
  have hcs : w.cs = ⟨cb, .tunnel⟩ := by rw [h.cs, hcb]
  have hq : quiet P.u w = false := by
    unfold World.quiet
    rw [hcs]
    have : Client.isSending cb = true := by
      have h1 := hb.sending
      have h2 : c1.outpkt.len = cb.outpkt.len := by
        have := hb.len
        rw [this, ← hcb]
        show _ = ({ sentStateL c0 with sendPingSoon := 0 } : Client.Cli).outpkt.len
        rw [(sentFactsL c0).olen, h.ready.len]
      unfold Client.isSending at h1 ⊢
      rw [← h2]; exact h1
    simp [this]
  have hpe : promptEv w = .tickC := by
    have htc : timeoutC w = some (Client.selectOf cb).to := by
      unfold timeoutC Client.pending
      rw [hcs]
    apply promptEv_tickC w h.up h.down _ htc
    rw [timeoutS_idle_lazy h.srv h.idle, hb.toC]
    decide
  -- step 1: the give-up
  generalize hcd : ({ c1 with outpkt := { c1.outpkt with offset := 0, len := 0, sentlen := 0 }, outchunkresent := 0 } : Client.Cli) = cd
  have hcdst : CStatL P cd := by
    subst hcd
    have hs := hb.stat
    exact ⟨hs.running, hs.conn, hs.lz, hs.uid, hs.uch, hs.td, hs.L, hs.enc, hs.ty, hs.cid, hs.cmc, hs.alive, hs.oseq, hs.iseq, hs.ifrag, hs.seed⟩
  have hcdcnt : CntOk cd 1 := by
    subst hcd
    have := hb.cnt
    unfold CntOk at *
    exact this
  have hcdidle : Client.isSending cd = false := by subst hcd; rfl
  obtain ⟨name, hsendp, hpq⟩ := sendPing_readyL hP hcdst hcdcnt
  have hpf := pingFactsL cd
  have hpi := pingStateL_ids cd
  have e : ({ bumpCnt (Client.rotateChunkid { cd with randSeed := (cd.randSeed + 1) % 65536 }) with sendPingSoon := 0 } : Client.Cli) =
      pingStateL cd := by unfold pingStateL; rfl
  have htb : Client.timeoutBranch c1 = Client.afterSend (Client.sendPing cd) [] .timeout := by
    unfold Client.timeoutBranch
    rw [if_pos hb.sending, if_neg (by rw [hb.res, h.res]; omega), hcd]
  have hstep : Client.cstep w.cs .tick =
      (⟨pingStateL cd, .tunnel⟩, [.query (pingStateL cd).chunkid P.ty name], .sel (Client.selectOf (pingStateL cd))) := by
    rw [hcs]
    show Client.tunnelStep cb .tick = _
    rw [hb.step, htb]
    have hrun : (bumpCnt (Client.rotateChunkid { cd with randSeed := (cd.randSeed + 1) % 65536 })).running = true := by
      have h1 : (pingStateL cd).running = cd.running := hpf.running
      rw [← e] at h1
      exact h1.trans hcdst.running
    rw [settle_afterSend _ _ _ (by rw [hsendp]) (by rw [hsendp]; exact hrun), hsendp]
    simp only [List.nil_append]
    rw [e]
  generalize hcp : pingStateL cd = cp at hstep hpf hpi hpq
  have hnow' : cp.now - w.cs.c.now = 1 := by
    rw [hpf.now, hcs]
    have : cd.now = c1.now := by subst hcd; rfl
    rw [this, hb.now]
    show cb.now + 1 - cb.now = 1
    omega
  have hs1 : step w (promptEv w) =
      { w with cs := ⟨cp, .tunnel⟩, srv := { w.srv with now := w.srv.now + 1 }, up := [.query cp.chunkid P.ty name] } := by
    rw [hpe, step_tickC, stepC_tick w _ _ _ hstep, h.up]
    simp only [hnow', List.nil_append, upOfEvents, tunOfCEvents, List.append_nil]
  have hS' : SStat P { w.srv with now := w.srv.now + 1 } := h.srv.advance 1 (by rw [h.fresh]; omega)
  generalize hw2 : ({ w with cs := ⟨cp, .tunnel⟩, srv := { w.srv with now := w.srv.now + 1 },
                             up := [.query cp.chunkid P.ty name] } : W) = w2 at hs1
  have hw2cs : w2.cs = ⟨cp, .tunnel⟩ := by subst hw2; rfl
  have hw2up : w2.up = [.query cp.chunkid P.ty name] := by subst hw2; rfl
  have hw2down : w2.down = [] := by subst hw2; exact h.down
  have hw2srv : w2.srv = { w.srv with now := w.srv.now + 1 } := by subst hw2; rfl
  have hw2tS : w2.tunS = w.tunS := by subst hw2; rfl
  have hw2tC : w2.tunC = w.tunC := by subst hw2; rfl
  have hq2 : quiet P.u w2 = false := quiet_false_of_up _ _ _ _ hw2up
  -- the memories: the held query is a data query
  have hmemD : Aged P (Server.getUser w.srv P.u) ((c0.datacmc + 1) % 36) 2 ∧ PAged P (Server.getUser w.srv P.u) c0.randSeed 1 := by
    rcases h.mem with ⟨_, _, _, a, b⟩ | ⟨_, a, _⟩
    · exact ⟨a, b⟩
    · have h1 := a.c0
      rw [h.heldd.c0] at h1
      exact absurd h1 (hexLower_ne_p hP.hu).2
  have hseed : cd.randSeed = c0.randSeed := by subst hcd; exact hb.seed
  rw [hseed] at hpq
  -- step 2: the ping reaches the server
  obtain ⟨s', evs, t, pkt, hit, hdown, htun, hsw, hmem⟩ :=
    srv_ping_lazy_swap hP hS' (s := { w.srv with now := w.srv.now + 1 }) h.idle h.held h.heldd
      (behind_next c0.datacmc h.ready.stat.cmc) hmemD.1 hmemD.2 hpq
  have hHid : (Server.getUser w.srv P.u).q.id = (sentState c0).chunkid := h.heldid
  have hHc0 := h.heldd.c0
  have hs1u : Server.getUser { w.srv with now := w.srv.now + 1 } P.u = Server.getUser w.srv P.u := rfl
  rw [hs1u] at hdown
  generalize hH : (Server.getUser w.srv P.u).q = H at hdown hHid hHc0
  have hs2 : step w2 (promptEv w2) = { w2 with up := [], srv := s', down := [.ans H.id H.type H.name pkt] } := by
    rw [promptEv_up w2 _ _ hw2up, step_deliverUp w2 _ _ hw2up, srvInput_query,
      stepS_zero { w2 with up := [] } _ s' evs t (by show Server.iteration w2.srv _ w2.srv.now = _; rw [hw2srv]; exact hit), hdown, htun]
    simp [hw2down]
  generalize hw3 : ({ w2 with up := [], srv := s', down := [.ans H.id H.type H.name pkt] } : W) = w3 at hs2
  have hw3cs : w3.cs = ⟨cp, .tunnel⟩ := by subst hw3; exact hw2cs
  have hw3up : w3.up = [] := by subst hw3; rfl
  have hw3down : w3.down = [.ans H.id H.type H.name pkt] := by subst hw3; rfl
  have hw3srv : w3.srv = s' := by subst hw3; rfl
  have hq3 : quiet P.u w3 = false := quiet_false_of_down _ _ _ _ hw3down
  -- step 3: the client reads the answer to its last data query
  obtain ⟨y, hpkt, hyo, hyi⟩ := hsw.pkt
  rw [hs1u] at hyo hyi
  obtain ⟨hlen2, hdn, hus, huf⟩ := ack_hdr (x := Server.getUser w.srv P.u) hpkt (by rw [hyi]; exact h.srv.x.iseq)
    (by rw [hyi]; exact h.srv.x.ifrag) hyo h.srv.x.oseq h.srv.x.ofrag
  have hcpst : CStatL P cp := by rw [← hcp]; exact cstatL_pingStateL hcdst
  have hcpcid : cd.chunkid = (sentState c0).chunkid := by subst hcd; exact hb.cid
  have hcpin : cp.inpkt = c0.inpkt := by rw [hpf.inpkt]; subst hcd; exact hb.inpkt
  generalize hrq : (Client.Rq.mk (pkt.length : Int) H.id (answerType H.type) 0 (H.name.headD 0) pkt) = rq
  have hdl : Client.tunnelDns cp rq = Client.upstream (ackBook cp) (Client.decodeHdr pkt) [] false 2 := by
    have := tunnelDns_dataless_lazy cp rq
      (by subst hrq; show Client.notData cp (H.name.headD 0) = false
          rw [headD_eq_getD]
          exact notData_held hcpst.uch _ (Or.inl hHc0))
      (by subst hrq; exact hlen2)
      (by subst hrq; unfold Client.recentId; show (H.id == cp.chunkid || H.id == cp.chunkidPrev || H.id == cp.chunkidPrev2) = true
          rw [hpi.1, hHid, hcpcid]; simp)
      hpf.sps
      (by subst hrq; show H.id ≠ cp.chunkid; rw [hHid, ← hcpcid]; exact fun e => hpi.2.1 hcdst.cid e.symm)
      (by subst hrq; show (Client.decodeHdr pkt).dnSeq = cp.inpkt.seqno; rw [hdn, hcpin]; exact h.syncd)
    subst hrq
    exact this
  have hcpidle : Client.isSending (ackBook cp) = false := by
    unfold Client.isSending
    show (cp.outpkt.len != 0) = false
    rw [hpf.outpkt]
    exact hcdidle
  have hother := (upstream_other_ack (ackBook cp) (Client.decodeHdr pkt) [] false 2
    (by intro ⟨h1, _⟩; rw [hcpidle] at h1; cases h1)).1
  have hfp : Client.finalPing (ackBook cp) [] false 2 = (ackBook cp, [], .ret 2) := by simp [Client.finalPing]
  have hcfst := cstat_ackBookL hcpst
  have hstep3 : Client.cstep w3.cs (.rq rq) = (⟨ackBook cp, .tunnel⟩, [], .sel (Client.selectOf (ackBook cp))) := by
    rw [hw3cs, cstep_rq cp rq hcpst.running hcpst.alive hcpst.conn, hdl, hother, hfp]
    simp [Client.settle, Client.loopTop, hcfst.running]
  have hnow3 : (ackBook cp).now = w3.cs.c.now := by rw [hw3cs]; rfl
  have hs3 : step w3 (promptEv w3) = { w3 with down := [], cs := ⟨ackBook cp, .tunnel⟩ } := by
    rw [promptEv_down w3 _ _ hw3up hw3down, step_deliverDown w3 _ _ hw3down]
    have hci : cliInput (.ans H.id H.type H.name pkt) = .rq rq := by subst hrq; rfl
    rw [hci, stepC_of _ _ _ _ _ (by exact hstep3) (by exact hnow3)]
    subst hw3
    simp [upOfEvents, tunOfCEvents]
  have hcfseq : (ackBook cp).outpkt.seqno = c0.outpkt.seqno := by
    show cp.outpkt.seqno = _
    rw [hpf.outpkt]; subst hcd; exact hb.seq
  have hin' : (Server.getUser s' P.u).inpacket = (Server.getUser w.srv P.u).inpacket := hsw.inp
  refine ⟨{ w3 with down := [], cs := ⟨ackBook cp, .tunnel⟩ }, ?_, ?_, ?_, ?_, hcfseq, ?_, ?_, ?_, ?_, ?_⟩
  · rw [promptSteps_succ hq, hs1, promptSteps_succ hq2, hs2, promptSteps_succ hq3, hs3]
    rfl
  · refine ⟨rfl, hcfst, ?_, hcpidle, hw3up, rfl, ?_, ?_, ?_, ?_, ?_, ?_, ?_, ?_⟩
    · exact ackBook_cnt cp (hpi.2.2 1 hcdcnt)
    · show SStat P w3.srv; rw [hw3srv]; exact hsw.stat
    · show IdleLazy (Server.getUser w3.srv P.u); rw [hw3srv]; exact hsw.idle
    · show (Server.getUser w3.srv P.u).oqFilled = 0; rw [hw3srv, hsw.oq]; exact h.oq
    · show HeldBase P (Server.getUser w3.srv P.u).q
      rw [hw3srv, hsw.qeq]; exact ⟨hpq.from_, hpq.id2, hpq.id, hpq.ty⟩
    · show (Server.getUser w3.srv P.u).q.id = (ackBook cp).chunkid
      rw [hw3srv, hsw.qeq, upQuery_id]; rfl
    · show (ackBook cp).outpkt.seqno = ((Server.getUser w3.srv P.u).inpacket.seqno + ((j % 8 : Nat) : Int)) % 8
      rw [hw3srv, hcfseq, hin', h.ahead]
      omega
    · show (Server.getUser w3.srv P.u).outpacket.seqno = ((ackBook cp).inpkt.seqno + ((0 : Nat) : Int)) % 8
      rw [hw3srv, hsw.outp]
      show (Server.getUser w.srv P.u).outpacket.seqno = (cp.inpkt.seqno + ((0 : Nat) : Int)) % 8
      rw [hcpin, h.syncd]
      have := h.ready.stat.iseq
      omega
    · show HeldMem P (Server.getUser w3.srv P.u) (Server.getUser w3.srv P.u).q (ackBook cp).datacmc (ackBook cp).randSeed
      have e1 : (ackBook cp).datacmc = (c0.datacmc + 1) % 36 := by
        show cp.datacmc = _
        rw [hpf.datacmc]; subst hcd; exact hb.cmc
      have e2 : (ackBook cp).randSeed = (c0.randSeed + 1) % 65536 := by
        show cp.randSeed = _
        rw [hpf.seed, hseed]
      rw [hw3srv, hsw.qeq, e1, e2]; exact hmem
  · subst hw3; exact hw2tS
  · subst hw3; exact hw2tC
  · show (Server.getUser w3.srv P.u).inpacket = _; rw [hw3srv]; exact hin'
  · show (Server.getUser w3.srv P.u).tunIp = _; rw [hw3srv]; exact hsw.tun
  · show (Server.getUser w3.srv P.u).fragsize = _; rw [hw3srv]; exact hsw.frag
  · show w3.srv.now = _; rw [hw3srv]; exact hsw.now
  · show cp.now = w.cs.c.now + 1
    rw [hpf.now, hcs]
    have : cd.now = c1.now := by subst hcd; rfl
    rw [this, hb.now]

end Iodine.C02L
