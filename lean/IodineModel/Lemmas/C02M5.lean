import IodineModel.Lemmas.C02M4
/-
C02 / lazy mode, DOWNSTREAM — part 5: a fragment that is NOT the last one (two scheduler steps: `deliverDown` — the client
appends it and pings at once — and `deliverUp` — the server acknowledges and answers the ping with the next fragment).
-/
namespace Iodine.C02L
open Iodine Iodine.Gen Iodine.World

theorem cstatL_pingStateL {P : Par} {c : Client.Cli} (hc : CStatL P c) : CStatL P (pingStateL c) := by
  have hpf := pingFactsL c
  exact ⟨hpf.running.trans hc.running, hpf.conn.trans hc.conn, hpf.lazymode.trans hc.lz, hpf.userid.trans hc.uid,
    hpf.useridChar.trans hc.uch, hpf.topdomain.trans hc.td, hpf.hostnameMaxlen.trans hc.L, hpf.dataenc.trans hc.enc,
    hpf.doQtype.trans hc.ty, hpf.cid, by rw [hpf.datacmc]; exact hc.cmc, by rw [hpf.ldt, hpf.now]; exact hc.alive,
    by rw [hpf.outpkt]; exact hc.oseq, by rw [hpf.inpkt]; exact hc.iseq, by rw [hpf.inpkt]; exact hc.ifrag,
    by rw [hpf.seed]; exact Nat.mod_lt _ (by omega)⟩

/-- the answer event carries the packet -/
theorem pkt_of_writeDns {Q : Server.Query} {p1 p2 : List Nat} {d1 d2 : Nat} {t : Server.Tag}
    (h : [Server.writeDns Q p1 d1 t] = [Server.writeDns Q p2 d2 t]) : p2 = p1 := by
  have h2 := List.cons.inj h
  have h3 := h2.1
  unfold Server.writeDns at h3
  injection h3 with _ _ _ _ _ h9
  exact h9.symm

theorem down_mid_lazy {P : Par} (hP : P.Ok) {out : List Nat} {w : W} {sq : Int} {o D f : Nat}
    (h : DownFlightL P out w sq o D f) (h64 : out.length ≤ 65536) (hlt : o + D < out.length) (hf : f + 1 < 16) :
    ∃ D', D' = downLen (Server.getUser w.srv P.u).fragsize (out.length - (o + D)) ∧
      ∃ w', promptSteps P.u 2 w = some w' ∧ DownFlightL P out w' sq (o + D) D' (f + 1) ∧ w'.cs.c.sendPingSoon = 0 ∧
        w'.tunS = w.tunS ∧ w'.tunC = w.tunC ∧
        (Server.getUser w'.srv P.u).fragsize = (Server.getUser w.srv P.u).fragsize ∧
        (Server.getUser w'.srv P.u).tunIp = (Server.getUser w.srv P.u).tunIp := by
  obtain ⟨name, pkt, hdown, hnd, hfp⟩ := h.down
  have hsqr := h.hsq
  have hfl : FragPkt pkt out sq o D f false := by
    have : decide (out.length > 0 ∧ out.length = o + D) = false := by
      rw [decide_eq_false_iff_not]; omega
    rw [this] at hfp; exact hfp
  have hop : (Server.getUser w.srv P.u).outpacket = ⟨out.length, D, o, out, sq, (f : Int)⟩ := by
    rcases h.op with h1 | ⟨_, h2, _, h4⟩
    · exact h1
    · omega
  generalize hc : w.cs.c = c at hdown hnd
  have hwc : w.cs = ⟨c, .tunnel⟩ := by rw [cstate_eta w.cs h.ph, hc]
  have hcst : CStatL P c := by rw [← hc]; exact h.cst
  have hcnt : CntOk c 1 := by rw [← hc]; exact h.cnt
  -- step 1: the client receives the fragment, appends it and pings at once
  generalize hrq : (Client.Rq.mk (pkt.length : Int) c.chunkid (answerType P.ty) 0 (name.headD 0) pkt) = rq
  have hci : cliInput (.ans c.chunkid P.ty name pkt) = .rq rq := by subst hrq; rfl
  have hrok : RecvOkL P c rq pkt := by
    subst hrq
    exact ⟨hcst, by rw [← hc]; exact h.idleC, hnd, rfl, rfl, rfl⟩
  obtain ⟨name', hstep, hpq⟩ := recv_midL hP hrok hcnt hfl h.hD (by rw [← hc]; exact h.dup) (by rw [← hc]; exact h.exp) hsqr (by omega)
    h.hle h64
  generalize hc3 : midStateL c out sq o D f = c3 at hstep hpq
  have hc3st : CStatL P c3 := by rw [← hc3]; exact cstatL_mid hcst out sq o D f hsqr (by omega)
  have hc3cnt : CntOk c3 0 := by rw [← hc3]; exact cntOk_mid out sq o D f 0 hcnt
  have hpf := pingFactsL c3
  have hq1 : quiet P.u w = false := quiet_false_of_down _ _ _ _ hdown
  have hs1 : step w (promptEv w) =
      { w with down := [], cs := ⟨pingStateL c3, .tunnel⟩, up := [.query (pingStateL c3).chunkid P.ty name'] } := by
    rw [promptEv_down w _ _ h.up hdown, step_deliverDown w _ _ hdown, hci,
      stepC_of { w with down := [] } (.rq rq) ⟨pingStateL c3, .tunnel⟩ [.query (pingStateL c3).chunkid P.ty name']
        (.sel (Client.selectOf (pingStateL c3)))
        (by show Client.cstep w.cs _ = _; rw [hwc]; exact hstep)
        (by show (pingStateL c3).now = w.cs.c.now; rw [hpf.now, hc, ← hc3]; rfl)]
    simp [upOfEvents, tunOfCEvents, h.up]
  generalize hw2 : ({ w with down := [], cs := ⟨pingStateL c3, .tunnel⟩, up := [.query (pingStateL c3).chunkid P.ty name'] } : W) = w2 at hs1
  have hw2srv : w2.srv = w.srv := by subst hw2; rfl
  have hw2up : w2.up = [.query (pingStateL c3).chunkid P.ty name'] := by subst hw2; rfl
  have hw2down : w2.down = [] := by subst hw2; rfl
  have hq2 : quiet P.u w2 = false := quiet_false_of_up _ _ _ _ hw2up
  -- step 2: the ping reaches the server; the acknowledged fragment is followed by the next one
  generalize hx0 : ({ Server.getUser w.srv P.u with qsNew := false } : Server.Session) = x0
  have hx0op : x0.outpacket = ⟨out.length, D, o, out, sq, (f : Int)⟩ := by subst hx0; exact hop
  have hack := ackSess_advance x0 sq f (by rw [hx0op]; show out.length ≠ 0; omega) (by rw [hx0op]) (by rw [hx0op])
    (by rw [hx0op]; show D ≠ 0; have := h.hD; omega) (by rw [hx0op]; exact hlt)
  obtain ⟨s', evs, t, pkt2, hit, hdown2, htun2, hap, hA', hPA'⟩ :=
    srv_ping_lazy_more hP h.srv.stat h.srv.q h.srv.qs h.srv.oq (by have := h.srv.res; omega) hpq
      (k := c.datacmc) (by rw [← hc]; exact h.aged) (by rw [← hc]; exact h.paged)
      (by rw [hx0, hack, hx0op]; show 0 < out.length; omega)
  generalize hQ : upQuery (pingStateL c3).chunkid P.ty name' = Q at hit hdown2 hap hpq
  have hQid2 : Q.id2 = 0 := by rw [← hQ]; rfl
  have hslot : Server.getUser s' P.u = pingZ x0 P.u Q sq f w.srv.now := by
    rw [afterPing_slot hap, hx0]
  obtain ⟨D', hDdef, hzo, hzr, hDpos, hDle, yy, hyev, hyo, hyi⟩ := pingZ_next x0 P.u Q w.srv.now out sq o D f hQid2
    (by subst hx0; exact h.srv.oq) (by subst hx0; have := h.srv.res; show (Server.getUser w.srv P.u).outfragresent ≤ 5; omega)
    hx0op h.hD hlt (by subst hx0; exact h.frag) (by omega)
  have hfs : x0.fragsize = (Server.getUser w.srv P.u).fragsize := by subst hx0; rfl
  rw [hfs] at hDdef
  rw [← hslot] at hzo hzr
  have hpkt : pkt2 = Server.scPkt yy D' := by
    have h1 := hap.pkt
    rw [hx0, hyev] at h1
    exact pkt_of_writeDns h1
  obtain ⟨hps, hfs', hin', htun', _⟩ := pingSrvL_after h.srv hQid2 hap (by rw [hzo]; exact hsqr)
    (by rw [hzo]; show (0 : Int) ≤ ((f + 1 : Nat) : Int) ∧ ((f + 1 : Nat) : Int) < 16; omega) (by rw [hzr]; omega)
  have hfp2 := fragPkt_of yy out sq (o + D) D' (f + 1) hyo hDle hsqr (by omega)
    (by rw [hyi]; subst hx0; exact h.srv.stat.x.iseq) (by rw [hyi]; subst hx0; exact h.srv.stat.x.ifrag)
  rw [← hpkt] at hfp2
  have hs2 : step w2 (promptEv w2) =
      { w2 with up := [], srv := s', down := [.ans (pingStateL c3).chunkid P.ty name' pkt2] } := by
    rw [promptEv_up w2 _ _ hw2up, step_deliverUp w2 _ _ hw2up, srvInput_query, hQ,
      stepS_zero { w2 with up := [] } _ s' evs t (by show Server.iteration w2.srv _ w2.srv.now = _; rw [hw2srv]; exact hit),
      hdown2, htun2]
    rw [← hQ]
    simp [hw2down, upQuery]
  refine ⟨D', hDdef, { w2 with up := [], srv := s', down := [.ans (pingStateL c3).chunkid P.ty name' pkt2] }, ?_, ?_, ?_, ?_, ?_, ?_, ?_⟩
  · rw [promptSteps_succ hq1, hs1, promptSteps_succ hq2, hs2]; rfl
  · subst hw2
    have hinp : (pingStateL c3).inpkt = inAfter c out sq o D f := by rw [hpf.inpkt, ← hc3]; rfl
    refine ⟨rfl, cstatL_pingStateL hc3st, (pingStateL_ids c3).2.2 0 hc3cnt, ?_, rfl,
      ⟨name', pkt2, rfl, ?_, hfp2⟩, ?_, ?_, hsqr, hDpos, hDle, hps, by rw [hfs']; exact h.frag, Or.inl hzo, ?_, ?_, ?_⟩
    · show Client.isSending (pingStateL c3) = false
      unfold Client.isSending
      rw [hpf.outpkt, ← hc3]
      have := h.idleC
      rw [hc] at this
      exact this
    · show Client.notData (pingStateL c3) (name'.headD 0) = false
      have h0 : name'.getD 0 0 = 112 := by have := hpq.c0; rw [← hQ] at this; exact this
      rw [headD_eq_getD, h0]; simp [Client.notData]
    · show CExpect (pingStateL c3) out sq (o + D) (f + 1)
      right
      rw [hinp]
      refine ⟨by omega, rfl, by show ((f : Nat) : Int) = ((f + 1 : Nat) : Int) - 1; omega, rfl, ?_⟩
      show (out.take (o + D)).take (o + D) = _
      rw [List.take_take, Nat.min_self]
    · left
      show sq = (pingStateL c3).inpkt.seqno
      rw [hinp]; rfl
    · show (Server.getUser s' P.u).inpacket.seqno = (pingStateL c3).outpkt.seqno
      rw [hin', h.syncu, hpf.outpkt, ← hc3, hc]; rfl
    · show Aged P (Server.getUser s' P.u) (pingStateL c3).datacmc 1
      have : (pingStateL c3).datacmc = c.datacmc := by rw [hpf.datacmc, ← hc3]; rfl
      rw [this]; exact hA'
    · show PAged P (Server.getUser s' P.u) (pingStateL c3).randSeed 1
      have : (pingStateL c3).randSeed = (c.randSeed + 1) % 65536 := by rw [hpf.seed, ← hc3]; rfl
      rw [this]; exact hPA'
  · subst hw2; exact hpf.sps
  · subst hw2; rfl
  · subst hw2; rfl
  · subst hw2; exact hfs'
  · subst hw2; exact htun'

end Iodine.C02L
