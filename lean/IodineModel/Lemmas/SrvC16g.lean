import IodineModel.Lemmas.SrvC16f
/-
Helper lemmas for C16, part g: the invariant through `handle_null_request`, `tunnel_dns`, the raw-mode
handlers, the sweep, one loop iteration and a whole run.
-/
namespace Iodine.C16L
open Iodine Iodine.Server Iodine.Gen

variable {td : List Nat} {u : Nat} {inp : Input}

theorem step_handleNullRequest (s : Srv) (q : Query) (dlen : Nat)
    (hd : Common.queryDatalen q.name td = some dlen) :
    Keeps td u (.q q) s (handleNullRequest s q dlen) := by
  rw [handleNullRequest]
  by_cases h2 : dlen < 2
  · rw [if_pos h2]; exact step_refl s
  · rw [if_neg h2]
    extract_lets inb c
    have hc : c = q.name.getD 0 0 := by
      simp only [c, inb]
      cases hn : q.name with
      | nil => simp
      | cons a l =>
        have : min dlen 512 = (min dlen 512 - 1) + 1 := by omega
        rw [this]; simp
    by_cases h : c = 86 ∨ c = 118
    · rw [if_pos h]; exact step_handleVersion s q inb
    rw [if_neg h]; clear h
    by_cases h : c = 76 ∨ c = 108
    · rw [if_pos h]; exact step_handleLogin s q inb
    rw [if_neg h]; clear h
    by_cases h : c = 73 ∨ c = 105
    · rw [if_pos h]; exact step_handleIp s q inb
    rw [if_neg h]; clear h
    by_cases h : c = 90 ∨ c = 122
    · rw [if_pos h]; exact step_handleZ s q inb
    rw [if_neg h]; clear h
    by_cases h : c = 83 ∨ c = 115
    · rw [if_pos h]; exact step_handleSwitchCodec s q dlen inb
    rw [if_neg h]; clear h
    by_cases h : c = 79 ∨ c = 111
    · rw [if_pos h]; exact step_handleOptions s q dlen inb
    rw [if_neg h]; clear h
    by_cases h : c = 89 ∨ c = 121
    · rw [if_pos h]; exact step_handleDownCodecCheck s q dlen inb
    rw [if_neg h]; clear h
    by_cases h : c = 82 ∨ c = 114
    · rw [if_pos h]; exact step_handleFragsizeProbe s q dlen inb
    rw [if_neg h]; clear h
    by_cases h : c = 78 ∨ c = 110
    · rw [if_pos h]
      rw [hc] at h
      exact step_handleSetFragsize s q dlen hd h
    rw [if_neg h]; clear h
    by_cases h : c = 80 ∨ c = 112
    · rw [if_pos h]; exact step_handlePing s q inb
    rw [if_neg h]; clear h
    by_cases h : isHexDigit c = true
    · rw [if_pos h]; exact step_handleData s q dlen inb
    rw [if_neg h]
    exact step_refl s

theorem step_tunnelDns (s : Srv) (q : Query) (htd : s.cfg.topdomain = td) :
    Keeps td u (.q q) s (tunnelDns s q) := by
  unfold tunnelDns
  split
  · exact step_refl s
  · split
    · rename_i dlen hd
      rw [htd] at hd
      extract_lets n
      split
      · unfold handleARequest
        extract_lets dest
        split
        · exact step_refl s
        · exact step_one (Same.refl u _) rfl
      · split
        · unfold handleARequest
          extract_lets dest
          split
          · exact step_refl s
          · exact step_one (Same.refl u _) rfl
        · split
          · exact step_handleNullRequest s q dlen hd
          · split
            · unfold handleNsRequest
              split
              · exact step_refl s
              · exact step_one (Same.refl u _) rfl
            · exact step_refl s
    · split
      · exact step_one (same_of_users rfl) rfl
      · exact step_refl s

/-! ### raw mode, bind -/

theorem step_rawDecode (s : Srv) (packet : List Nat) (src : Addr) (r : Res)
    (h : rawDecode s packet src = some r) : Keeps td u inp s r := by
  unfold rawDecode at h
  split at h
  · cases h
  · split at h
    · cases h
    · simp only [] at h
      split at h
      · injection h with h; subst h
        unfold handleRawLogin
        split
        · exact step_refl s
        · split
          · exact step_refl s
          · extract_lets x s1 s2 myhash
            split
            · exact step_refl s
            · split
              · exact step_refl s
              · split
                · exact step_refl s
                · split
                  · refine step_one ?_ rfl
                    have h1 : Same u s s1 := same_setUser u _ s _ (fun _ => rfl)
                    have h2 : Same u s1 s2 := same_userSetConnType u s1 _ _
                    exact Same.trans (Same.trans h1 h2) (same_setUser u _ s2 _ (fun _ => rfl))
                  · exact step_refl s
      · split at h
        · injection h with h; subst h
          unfold handleRawData
          split
          · exact step_refl s
          · split
            · exact step_refl s
            · extract_lets s1
              have h1 : Same u s s1 := same_setUser u _ s _ (fun _ => rfl)
              exact step_pre h1 (step_handleFullPacket s1 _)
        · split at h
          · injection h with h; subst h
            unfold handleRawPing
            split
            · exact step_refl s
            · split
              · exact step_refl s
              · exact step_one (same_setUser u _ s _ (fun _ => rfl)) rfl
          · injection h with h; subst h
            exact step_refl s

theorem step_tunnelBind (s : Srv) (d : List Nat) : Keeps td u inp s (tunnelBind s d) := by
  unfold tunnelBind
  split
  · exact step_refl s
  · split
    · exact step_refl s
    · exact step_one (Same.refl u _) rfl

/-! ### the loop -/

theorem step_dispatch (s : Srv) (tunsel : Bool) (htd : s.cfg.topdomain = td) :
    Keeps td u inp s (dispatch s inp tunsel) := by
  unfold dispatch
  split
  · exact step_refl s
  · split
    · exact step_tunnelTun s _
    · exact step_refl s
  · exact step_tunnelDns s _ htd
  · split
    · rename_i r hr; exact step_rawDecode s _ _ r hr
    · exact step_refl s
  · split
    · exact step_tunnelBind s _
    · exact step_refl s

theorem step_sweepFrom : ∀ (n i : Nat) (s : Srv), Keeps td u inp s (sweepFrom n i s) := by
  intro n
  induction n with
  | zero => intro i s; exact step_refl s
  | succ n ih =>
    intro i s
    unfold sweepFrom
    extract_lets x r
    have h1 : Keeps td u inp s r := by
      simp only [r]
      split
      · rename_i h; exact step_sendChunk s i .qs (fun _ => h.2.1)
      · exact step_refl s
    clear_value r
    exact step_andThen h1 (ih (i + 1) r.1)

theorem calm_sweep_marker : isChunk u Event.sweep = false := rfl

theorem step_body (s : Srv) (tunsel : Bool) (htd : s.cfg.topdomain = td) :
    Keeps td u inp s (body s inp tunsel) := by
  have hd := step_dispatch (u := u) (inp := inp) s tunsel htd
  have h1 : Keeps td u inp s (andThen (dispatch s inp tunsel) (fun s => (s, [Event.sweep]))) :=
    step_andThen hd (step_one (Same.refl u _) rfl)
  have h2 : Keeps td u inp s
      (andThen (andThen (dispatch s inp tunsel) (fun s => (s, [Event.sweep]))) sweep) :=
    step_andThen h1 (step_sweepFrom _ _ _)
  unfold body
  extract_lets r
  split
  · split
    · exact h2
    · exact step_seq h2 (step_one (s' := r.1) (e := Event.tunskip) (Same.refl u _) rfl)
  · exact h2

theorem clearNewFrom_length (now created : Nat) : ∀ (l : List Session) (i : Nat),
    (clearNewFrom now created l i).length = l.length := by
  intro l
  induction l with
  | nil => intro i; rfl
  | cons x xs ih => intro i; simp [clearNewFrom, ih]

theorem clearNewFrom_getD (now created : Nat) : ∀ (l : List Session) (i k : Nat),
    memOf ((clearNewFrom now created l i).getD k (Session.zero 0)) = memOf (l.getD k (Session.zero 0)) := by
  intro l
  induction l with
  | nil => intro i k; rfl
  | cons x xs ih =>
    intro i k
    cases k with
    | zero =>
      simp only [clearNewFrom, List.getD_cons_zero]
      split <;> rfl
    | succ k =>
      simp only [clearNewFrom, List.getD_cons_succ]
      exact ih (i + 1) k

theorem same_topOfLoop (s : Srv) (now' : Nat) : Same u s { (topOfLoop s).1 with now := now' } := by
  unfold topOfLoop
  exact ⟨clearNewFrom_length _ _ _ _, clearNewFrom_getD _ _ _ _ _⟩

/-- one iteration keeps monitor and state in step -/
theorem K_next (m : Mon) (s : Srv) (st : Server.Step) (h : K u m s) :
    K u (monEvents s.cfg.topdomain u st.inp m (out s st)) (next s st) := by
  have hs := same_topOfLoop (u := u) s st.now
  have hb := step_body (td := s.cfg.topdomain) (u := u) (inp := st.inp)
    { (topOfLoop s).1 with now := st.now } (topOfLoop s).2.2 rfl
  exact hb.2 m (K_same hs h)

/-- the monitor over a whole trace -/
def monTrace (u : Nat) (m : Mon) (tr : List TraceStep) : Mon :=
  tr.foldl (fun m t => monEvents t.pre.cfg.topdomain u t.step.inp m t.events) m

theorem K_run (u : Nat) : ∀ (steps : List Server.Step) (m : Mon) (s : Srv), K u m s →
    K u (monTrace u m (traceFrom s steps)) (runFrom s steps) := by
  intro steps
  induction steps with
  | nil => intro m s h; exact h
  | cons st rest ih =>
    intro m s h
    simp only [traceFrom, runFrom, monTrace, List.foldl_cons]
    exact ih _ _ (K_next m s st h)

/-- cache and query memories of a fresh slot -/
theorem inv_zero (ip : Nat) : Inv Mon.empty (Session.zero ip) := by
  refine ⟨⟨?_, ?_, ?_⟩, ⟨?_, ?_, ?_⟩, ⟨?_, ?_, ?_⟩⟩
  · simp [Session.zero]
  · simp [Session.zero, DNSCACHE_LEN]
  · intro i _ n t p hh; simp [Mon.empty] at hh
  · simp [Session.zero]
  · simp [Session.zero, QMEMPING_LEN]
  · intro i _ c t hh; simp [Mon.empty] at hh
  · simp [Session.zero]
  · simp [Session.zero, QMEMDATA_LEN]
  · intro i _ c t hh; simp [Mon.empty] at hh

theorem K_start (cfg : Config) (rnd : List Nat) (u : Nat) (h : u < (start cfg rnd).users.length) :
    K u Mon.empty (start cfg rnd) := by
  refine ⟨h, ?_⟩
  unfold getUser start Srv.init
  simp only [List.getD_eq_getElem?_getD, List.getElem?_map]
  cases hh : (Users.initUsers cfg.myIp cfg.netmask)[u]? with
  | none => exact inv_zero 0
  | some ip => exact inv_zero ip

theorem next_length (s : Srv) (st : Server.Step) : (next s st).users.length = s.users.length := by
  have hs := same_topOfLoop (u := 0) s st.now
  have hb := step_body (td := s.cfg.topdomain) (u := 0) (inp := st.inp)
    { (topOfLoop s).1 with now := st.now } (topOfLoop s).2.2 rfl
  exact hb.1.trans hs.1

/-- in every reachable state the cache and query memories of every slot are well-formed -/
theorem K_reachable {cfg : Config} {s : Srv} (h : Reachable cfg s) (u : Nat) (hu : u < s.users.length) :
    K u Mon.empty s := by
  induction h with
  | init rnd => exact K_start cfg rnd u hu
  | @step s0 st hr _ ih =>
    rw [next_length] at hu
    exact K_le ⟨Or.inr rfl, Or.inr rfl, Or.inr rfl⟩ (K_next Mon.empty s0 st (ih hu))

end Iodine.C16L
