import IodineModel.Lemmas.C02rA4
import IodineModel.Lemmas.C02qA6
/-
C02 phase 3, sub-package "lift" (5): one ONE-FRAGMENT packet upstream (immediate mode) at the World level from a state that is
quiescent but for the freshness clauses (`QuietBut`, C02qA6): `up_offer_rA`, `last_step_rA` — copies of `up_offer` (C02v8) and
`last_step` (C02v10), which are not edited, with the freshness INVARIANT replaced by the one-query freshness `Fresh … 1`.
-/
namespace Iodine.C02L
open Iodine Iodine.Gen Iodine.World

/-- `UpFlight` (C02v8) without its two freshness clauses -/
structure UpFlightR (P : Par) (out : List Nat) (w : W) (c0 : Client.Cli) (o f : Nat) : Prop where
  ph : w.cs.ph = .tunnel
  ready : CReady P c0 out o f
  cli : w.cs.c = { sentState c0 with sendPingSoon := 0 }
  up : w.up = upOfEvents (Client.sendChunk c0).evs
  down : w.down = []
  srv : SStat P w.srv
  idle : IdleImm (Server.getUser w.srv P.u)
  oq : (Server.getUser w.srv P.u).oqFilled = 0
  expect : Expect (Server.getUser w.srv P.u) out c0.outpkt.seqno.toNat o f
  syncd : (Server.getUser w.srv P.u).outpacket.seqno = c0.inpkt.seqno

/-- `offerC` from a state that is quiescent but for the freshness clauses (copy of `up_offer`, C02v8) -/
theorem up_offer_rA {P : Par} (hP : P.Ok) {w : W} (hq : QuietBut P w) (frame : List Nat) (hne : frame ≠ [])
    (hl : frame.length < 65536) (hb : Codec.Bytes frame) :
    ∃ w1, step w (.offerC frame) = w1 ∧ UpFlightR P (0x5a :: frame) w1 (newPacket w.cs.c frame) 0 0 ∧
      w1.tunS = w.tunS ∧ w1.tunC = w.tunC := by
  have hcs := cstate_eta w.cs hq.ph
  have hready := newPacket_ready hq.cst frame hl hb
  obtain ⟨name, hsend, _, _, _⟩ := send_ready hP hready
  have hsf := sentFacts (newPacket w.cs.c frame)
  have hsel : tunSelC w = true := by
    unfold tunSelC Client.pending
    rw [hq.ph]
    simp [Client.selectOf, hq.idleC]
  have hstep : Client.cstep w.cs (.tun frame) =
      (⟨{ sentState (newPacket w.cs.c frame) with sendPingSoon := 0 }, .tunnel⟩,
       [] ++ (Client.sendChunk (newPacket w.cs.c frame)).evs,
       .sel (Client.selectOf { sentState (newPacket w.cs.c frame) with sendPingSoon := 0 })) := by
    rw [hcs, cstep_tun w.cs.c frame hq.cst.running hq.cst.alive hq.idleC hne hq.cst.conn]
    have ht : frame.take 65536 = frame := List.take_of_length_le (by omega)
    rw [settle_afterSend _ _ _ (by rw [hsend]) (by rw [hsend]; have := hsf.running; simpa using this.trans hq.cst.running)]
    rw [hsend]
  refine ⟨_, rfl, ?_, ?_, ?_⟩
  · rw [step_offerC w frame hsel, stepC_of w _ _ _ _ hstep (by show _ = w.cs.c.now; exact hsf.now)]
    refine ⟨rfl, hready, rfl, ?_, hq.down, hq.srv, hq.idle, hq.oq, ?_, hq.syncd⟩
    · show w.up ++ upOfEvents ([] ++ _) = _
      rw [hq.up]; rfl
    · left
      refine ⟨rfl, rfl, 1, Nat.le_refl _, by omega, ?_⟩
      have hs : Client.sChar ((w.cs.c.outpkt.seqno + 1) % 8) = (w.cs.c.outpkt.seqno + 1) % 8 := sChar_small _ (by omega)
      show (((newPacket w.cs.c frame).outpkt.seqno).toNat : Int) = _
      have : (newPacket w.cs.c frame).outpkt.seqno = (w.cs.c.outpkt.seqno + 1) % 8 := hs
      rw [this, hq.syncu]
      omega
  · rw [step_offerC w frame hsel, stepC_of w _ _ _ _ hstep (by show _ = w.cs.c.now; exact hsf.now)]
  · rw [step_offerC w frame hsel, stepC_of w _ _ _ _ hstep (by show _ = w.cs.c.now; exact hsf.now)]
    show w.tunC ++ tunOfCEvents ([] ++ (Client.sendChunk (newPacket w.cs.c frame)).evs) = w.tunC
    rw [hsend]
    simp [tunOfCEvents]


/-- the three prompt steps of a packet whose (remaining) bytes fit one fragment: copy of `last_step` (C02v10) with `Fresh … 1`
in place of `Aged … 1` and with the effect on the memories made explicit -/
theorem last_step_rA {P : Par} (hP : P.Ok) {frame : List Nat} {w : W} {c0 : Client.Cli} {o f : Nat}
    (h : UpFlightR P (0x5a :: frame) w c0 o f)
    (hfr : Fresh P (Server.getUser w.srv P.u) c0.datacmc (0 + 1)) (h64 : (0x5a :: frame).length ≤ 65536)
    (heq : o + fragLen P ((0x5a :: frame).drop o) = (0x5a :: frame).length) (h24 : 24 ≤ frame.length)
    (hdst : Server.ipDst frame ≠ (Server.getUser w.srv P.u).tunIp) :
    ∃ w', promptSteps P.u 3 w = some w' ∧ QuietBut P w' ∧ w'.tunS = w.tunS ++ [[0, 0, 8, 0] ++ frame.drop 4] ∧
      w'.tunC = w.tunC ∧ w'.cs.c.outpkt.seqno = c0.outpkt.seqno ∧
      (Server.getUser w'.srv P.u).tunIp = (Server.getUser w.srv P.u).tunIp ∧
      w'.cs.c.sendPingSoon = 20 ∧ w'.cs.c.selecttimeout = c0.selecttimeout ∧
      (Server.getUser w'.srv P.u).fragsize = (Server.getUser w.srv P.u).fragsize ∧
      w'.cs.c.datacmc = (c0.datacmc + 1) % 36 ∧ w'.cs.c.randSeed = c0.randSeed ∧
      ∃ (x0 : Server.Session) (Q : Server.Query) (ans : List Nat), MemEq x0 (Server.getUser w.srv P.u) ∧
        MemEq (Server.getUser w'.srv P.u) (cacheUpd (qmemUpd x0 Q) Q ans) ∧ ans.length ≤ DNSCACHE_ANSWER_SIZE ∧
        Q.name.getD 0 0 = hexLower P.u ∧ Q.name.getD 4 0 = cmcChar c0.datacmc ∧ 5 ≤ Q.name.length := by
  generalize hout : (0x5a :: frame) = out at h h64 heq
  obtain ⟨name, hsend, hm1, hm2, hQ⟩ := send_ready hP h.ready
  generalize hm : fragLen P (out.drop o) = m at *
  have hlast : (m == out.length - o) = true := by
    rw [beq_iff_eq]; omega
  rw [hlast] at hQ
  have hsf := sentFacts c0
  have hcst := cstat_sent h.ready
  have hup : w.up = [.query (sentState c0).chunkid P.ty name] := by rw [h.up, hsend]; rfl
  have hsq : c0.outpkt.seqno.toNat < 8 := by have := h.ready.stat.oseq; omega
  have hsqc : ((c0.outpkt.seqno.toNat : Nat) : Int) = c0.outpkt.seqno := by have := h.ready.stat.oseq; omega
  -- step 1: the server receives the last fragment and writes the packet to its tun device
  subst hout
  obtain ⟨s', evs, t, hit, hdown, htun, hal⟩ :=
    srv_recv_last_rA hP h.srv h.idle h.ready.stat.cmc hfr hQ h.expect hsq h.ready.hf heq h64 h24 hdst
  have hq1 : quiet P.u w = false := quiet_false_of_up _ _ _ _ hup
  have hs1 : step w (promptEv w) =
      { w with up := [], srv := s', tunS := w.tunS ++ [[0, 0, 8, 0] ++ frame.drop 4] } := by
    rw [promptEv_up w _ _ hup, step_deliverUp w _ _ hup, srvInput_query, stepS_zero { w with up := [] } _ s' evs t hit, hdown, htun]
    simp [h.down]
  generalize hw2 : ({ w with up := [], srv := s', tunS := w.tunS ++ [[0, 0, 8, 0] ++ frame.drop 4] } : W) = w2 at hs1
  have hw2cs : w2.cs = w.cs := by subst hw2; rfl
  have hw2up : w2.up = [] := by subst hw2; rfl
  have hw2down : w2.down = [] := by subst hw2; exact h.down
  have hw2srv : w2.srv = s' := by subst hw2; rfl
  generalize hc : ({ sentState c0 with sendPingSoon := 0 } : Client.Cli) = c at hsf hcst
  have hwc : w.cs = ⟨c, .tunnel⟩ := by rw [cstate_eta w.cs h.ph, h.cli, hc]
  have hlen0 : (0x5a :: frame).length ≠ 0 := by simp
  have hsending : Client.isSending c = true := by
    unfold Client.isSending
    rw [hsf.olen, h.ready.len]
    simpa using hlen0
  -- step 2: nothing in flight; the server's 20 ms timer (parked query) expires before the client's second
  have hq2 : quiet P.u w2 = false := by
    unfold World.quiet
    rw [hw2cs, hwc]
    simp [hsending]
  have hQid : (upQuery (sentState c0).chunkid P.ty name).id ≠ 0 := hQ.id
  obtain ⟨s'', evs2, tunsel, hit2, hdown2, htun2, hS2, hidle2, hmem2, hin2, hout2, hoq2, htun2', hfrag2, hnow2⟩ :=
    srv_tick_ack_rA hal.stat (Q := upQuery (sentState c0).chunkid P.ty name)
      hal.q hal.qs hal.lazy (by rw [hal.outp]; exact h.idle.out) hQ.from_ hQ.id hQ.id2
  have htoS : timeoutS w2 = 20000 := by
    unfold timeoutS
    rw [hw2srv]
    have := congrArg (fun r => r.2.2.1) hit2
    simp only [Server.iteration] at this
    exact this
  have htoC : timeoutC w2 = some 1000000 := by
    unfold timeoutC Client.pending
    rw [hw2cs, hwc]
    simp [Client.selectOf, hsf.sps, hsending]
  have hs2 : step w2 (promptEv w2) =
      { w2 with srv := s'', down := [.ans (sentState c0).chunkid P.ty name (Server.scPkt (Server.getUser s' P.u) 0)] } := by
    rw [promptEv_tickS w2 hw2up hw2down _ htoC (by rw [htoS]; decide)]
    show stepS w2 .tick (timeoutS w2 / 1000000) = _
    rw [htoS, show (20000 : Nat) / 1000000 = 0 from rfl, stepS_zero w2 _ s'' evs2 (20000, tunsel) (by rw [hw2srv]; exact hit2),
      hdown2, htun2, hw2down]
    simp [upQuery]
  generalize hw3 : ({ w2 with srv := s'', down := [.ans (sentState c0).chunkid P.ty name (Server.scPkt (Server.getUser s' P.u) 0)] } : W) = w3 at hs2
  have hw3cs : w3.cs = w.cs := by subst hw3; exact hw2cs
  have hw3up : w3.up = [] := by subst hw3; exact hw2up
  have hw3down : w3.down = [.ans (sentState c0).chunkid P.ty name (Server.scPkt (Server.getUser s' P.u) 0)] := by subst hw3; rfl
  have hq3 : quiet P.u w3 = false := quiet_false_of_down _ _ _ _ hw3down
  -- step 3: the client receives the acknowledgement; the packet is complete
  generalize hpkt : Server.scPkt (Server.getUser s' P.u) 0 = pkt at hw3down hs2 hw3
  obtain ⟨hlen2, hdn, hus, huf⟩ := ack_hdr (x := Server.getUser s' P.u) (y := Server.getUser s' P.u) hpkt.symm
    (by rw [hal.iseq]; omega) (by rw [hal.ifrag]; have := h.ready.hf; omega) rfl hal.stat.x.oseq hal.stat.x.ofrag
  generalize hrq : (Client.Rq.mk (pkt.length : Int) (sentState c0).chunkid (answerType P.ty) 0 (name.headD 0) pkt) = rq
  have hcid : c.chunkid = (sentState c0).chunkid := by rw [← hc]
  have hdl : Client.tunnelDns c rq = Client.upstream (ackBook c) (Client.decodeHdr pkt) [] false 2 := by
    have := tunnelDns_dataless c rq (by subst hrq; show name.headD 0 = c.useridChar; rw [headD_eq_getD, hsf.useridChar, h.ready.stat.uch]; exact hQ.c0)
      (by subst hrq; exact hlen2)
      (by subst hrq; unfold Client.recentId; rw [hcid]; simp)
      hsf.sps hcst.imm (by subst hrq; show (Client.decodeHdr pkt).dnSeq = c.inpkt.seqno; rw [hdn, hal.outp, hsf.inpkt]; exact h.syncd)
    subst hrq
    exact this
  have hbk : (ackBook c).outpkt = c.outpkt := rfl
  have hdone := upstream_ack_done (ackBook c) (Client.decodeHdr pkt) [] false 2
    (by unfold Client.isSending; rw [hbk]; exact hsending)
    (by rw [hus, hal.iseq, hbk, hsf.oseq]; exact hsqc)
    (by rw [huf, hal.ifrag, hbk, hsf.ofrag, h.ready.frag])
    (by rw [hbk, hsf.ooff, hsf.osent, hsf.olen, cFragLen_ready h.ready, hm, h.ready.off, h.ready.len]; omega)
  generalize hcd : ackDone (ackBook c) = cd at hdone
  have hfp : Client.finalPing cd [] false 2 = (cd, [], .ret 2) := by simp [Client.finalPing]
  have hb := cstat_ackBook hcst
  have hcdstat : CStat P cd := by
    subst hcd
    exact ⟨hb.running, hb.conn, hb.imm, hb.uid, hb.uch, hb.td, hb.L, hb.enc, hb.ty, hb.cid, hb.cmc, hb.alive, hb.oseq, hb.iseq, hb.ifrag, hb.seed⟩
  have hstep3 : Client.cstep w3.cs (.rq rq) = (⟨cd, .tunnel⟩, [], .sel (Client.selectOf cd)) := by
    rw [hw3cs, hwc, cstep_rq c rq hcst.running hcst.alive hcst.conn, hdl, hdone, hfp]
    simp [Client.settle, Client.loopTop, hcdstat.running]
  have hnow3 : cd.now = w3.cs.c.now := by
    rw [hw3cs, hwc]; subst hcd; rfl
  have hs3 : step w3 (promptEv w3) = { w3 with down := [], cs := ⟨cd, .tunnel⟩ } := by
    rw [promptEv_down w3 _ _ hw3up hw3down, step_deliverDown w3 _ _ hw3down]
    have hci : cliInput (.ans (sentState c0).chunkid P.ty name pkt) = .rq rq := by subst hrq; rfl
    rw [hci, stepC_of _ _ _ _ _ (by exact hstep3) (by exact hnow3)]
    subst hw3
    simp [upOfEvents, tunOfCEvents, hw2up]
  refine ⟨{ w3 with down := [], cs := ⟨cd, .tunnel⟩ }, ?_, ?_, ?_, ?_, ?_, ?_, ?_, ?_, ?_, ?_, ?_, ?_⟩
  · rw [promptSteps_succ hq1, hs1, promptSteps_succ hq2, hs2, promptSteps_succ hq3, hs3]
    rfl
  · subst hw3; subst hw2
    refine ⟨rfl, hcdstat, ?_, rfl, rfl, hS2, hidle2, by rw [hoq2, hal.oq]; exact h.oq, ?_, ?_⟩
    · subst hcd; rfl
    · show (Server.getUser s'' P.u).inpacket.seqno = cd.outpkt.seqno
      rw [hin2, hal.iseq]
      subst hcd
      show _ = c.outpkt.seqno
      rw [hsf.oseq]; exact hsqc
    · show (Server.getUser s'' P.u).outpacket.seqno = cd.inpkt.seqno
      rw [hout2, hal.outp, h.syncd]
      subst hcd
      show c0.inpkt.seqno = c.inpkt.seqno
      rw [hsf.inpkt]
  · subst hw3; subst hw2; rfl
  · subst hw3; subst hw2; rfl
  · subst hcd; show c.outpkt.seqno = _; exact hsf.oseq
  · subst hw3; subst hw2
    show (Server.getUser s'' P.u).tunIp = _
    rw [htun2', hal.tun]
  · show cd.sendPingSoon = 20
    rw [← hcd]
    show (if c.sendPingSoon = 0 ∨ c.sendPingSoon > 20 then 20 else c.sendPingSoon) = 20
    rw [if_pos (Or.inl hsf.sps)]
  · show cd.selecttimeout = _
    rw [← hcd]
    show c.selecttimeout = _
    exact hsf.selto
  · subst hw3; subst hw2
    show (Server.getUser s'' P.u).fragsize = _
    rw [hfrag2, hal.frag]
  · show cd.datacmc = (c0.datacmc + 1) % 36
    subst hcd; show c.datacmc = _; rw [hsf.cmc]
    have := h.ready.stat.cmc
    split <;> omega
  · show cd.randSeed = c0.randSeed
    subst hcd; show c.randSeed = _; exact hsf.seed
  · obtain ⟨x0, hm1', hm2'⟩ := hmem2
    subst hw3; subst hw2
    exact ⟨x0, _, _, hm1'.trans ⟨hal.qmem, hal.qlast, hal.pmem, hal.plast, hal.cache, hal.clast⟩, hm2', scPkt0_len x0,
      hQ.c0, hQ.c4, hQ.len5⟩

end Iodine.C02L
