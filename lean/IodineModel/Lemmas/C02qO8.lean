import IodineModel.Lemmas.C02qO1
import IodineModel.Lemmas.C02qO2
import IodineModel.Lemmas.C02qO5
import IodineModel.Lemmas.C02qO6
import IodineModel.Lemmas.C02qO7
/-
C02 / OVERLAPPING transfers, lazy mode — the single-fragment × single-fragment case end to end, part 1: the first two
scheduler steps (`deliverUp`: the server writes the upstream packet to its tun device and PARKS the data query in
`q_sendrealsoon`, because it holds no other query it could answer; `deliverDown`: the client writes the downstream packet to
its tun device; its 5 ms ping timer is armed while the upstream chunk is still unacknowledged).
-/
namespace Iodine.C02L
open Iodine Iodine.Gen Iodine.World

/-- `CExpect` looks at `inpkt` only -/
theorem CExpect.congr {c c' : Client.Cli} {out : List Nat} {sq : Int} {o f : Nat} (h : CExpect c out sq o f)
    (he : c'.inpkt = c.inpkt) : CExpect c' out sq o f := by
  unfold CExpect at *
  rw [he]; exact h

theorem sentStateL_resent (c : Client.Cli) : (sentStateL c).outchunkresent = c.outchunkresent := by
  rw [sentStateL_eta]
  simp [sentState, Client.rotateChunkid]

/-- the joint state after the first scheduler step of the single × single case: the upstream packet is out, its data query
`Q` is parked in `q_sendrealsoon`; the downstream fragment is still on its way -/
structure ParkedL (P : Par) (outU outD : List Nat) (w : W) (c0 : Client.Cli) (Q : Server.Query) (sq : Int) (D : Nat) : Prop where
  ph : w.cs.ph = .tunnel
  ready : CReadyL P c0 outU 0 0
  cli : w.cs.c = { sentStateL c0 with sendPingSoon := 0 }
  up : w.up = []
  down : ∃ name pkt, w.down = [.ans c0.chunkid P.ty name pkt] ∧ Client.notData c0 (name.headD 0) = false ∧
    FragPkt pkt outD sq 0 D 0 true ∧
    ¬ ((Client.decodeHdr pkt).upSeq = c0.outpkt.seqno ∧ (Client.decodeHdr pkt).upFrag = ((0 : Nat) : Int))
  exp : CExpect c0 outD sq 0 0
  dup : sq = c0.inpkt.seqno ∨ Client.recentSeqno c0.inpkt.seqno sq = false
  hsq : 0 ≤ sq ∧ sq < 8
  hD : 0 < D ∧ D = outD.length
  srv : SStat P w.srv
  q : (Server.getUser w.srv P.u).q.id = 0
  qs : (Server.getUser w.srv P.u).qs = Q
  lz : (Server.getUser w.srv P.u).lazy = true
  oq : (Server.getUser w.srv P.u).oqFilled = 0
  op : (Server.getUser w.srv P.u).outpacket = ⟨0, 0, 0, outD, sq, 0⟩
  iseq : (Server.getUser w.srv P.u).inpacket.seqno = c0.outpkt.seqno
  ifrag : (Server.getUser w.srv P.u).inpacket.fragment = 0
  upq : ∃ dsq dfr lastf chunk, UpQ P Q ⟨c0.outpkt.seqno.toNat, 0, dsq, dfr, lastf⟩ c0.datacmc chunk
  qid : Q.id = (sentState c0).chunkid
  aged : Aged P (Server.getUser w.srv P.u) c0.datacmc 1
  paged : PAged P (Server.getUser w.srv P.u) c0.randSeed 1

/-- step 1 (`deliverUp`) -/
theorem single_step1 {P : Par} (hP : P.Ok) {fu : List Nat} {outD : List Nat} {w : W} {c0 : Client.Cli} {sq : Int} {D : Nat}
    (h : BothFlightL P (0x5a :: fu) outD w c0 0 0 sq 0 D 0) (h64 : (0x5a :: fu).length ≤ 65536)
    (hU1 : fragLen P (0x5a :: fu) = (0x5a :: fu).length) (hD1 : D = outD.length)
    (h24 : 24 ≤ fu.length) (hdst : Server.ipDst fu ≠ (Server.getUser w.srv P.u).tunIp) :
    ∃ w1 Q, promptSteps P.u 1 w = some w1 ∧ ParkedL P (0x5a :: fu) outD w1 c0 Q sq D ∧
      w1.tunS = w.tunS ++ [[0, 0, 8, 0] ++ fu.drop 4] ∧ w1.tunC = w.tunC ∧
      (Server.getUser w1.srv P.u).tunIp = (Server.getUser w.srv P.u).tunIp ∧
      (Server.getUser w1.srv P.u).fragsize = (Server.getUser w.srv P.u).fragsize := by
  obtain ⟨name, hsend, hm1, hm2, hQ⟩ := send_readyL hP h.ready
  simp only [List.drop_zero] at hQ hm1 hm2
  rw [hU1] at hQ
  have hlast : ((0x5a :: fu).length == (0x5a :: fu).length - 0) = true := by simp
  rw [hlast] at hQ
  have hup : w.up = [.query (sentState c0).chunkid P.ty name] := by rw [h.up, hsend]; rfl
  have hsqn : c0.outpkt.seqno.toNat < 8 := by have := h.ready.stat.oseq; omega
  have hsqc : ((c0.outpkt.seqno.toNat : Nat) : Int) = c0.outpkt.seqno := by have := h.ready.stat.oseq; omega
  have hop : (Server.getUser w.srv P.u).outpacket = ⟨0, 0, 0, outD, sq, 0⟩ := by
    rcases h.op with h2 | h1
    · have := h2.2; omega
    · exact h1.1
  obtain ⟨s', evs, t, hit, hdown, htun, hS', hq', hqs', hlz', hout', hoq', htip', hfr', hiseq', hifrag', hnow', m1, m2, m3, m4, m5, m6⟩ :=
    srv_recv_last_noq hP h.srv.stat h.srv (by rw [hop]) h.ready.stat.cmc h.aged (o := 0) (m := (0x5a :: fu).length)
      (by simpa using hQ) h.expect hsqn (by omega) (by simp) h64 h24 hdst
  have hq1 : quiet P.u w = false := quiet_false_of_up _ _ _ _ hup
  obtain ⟨dname, pkt, hdn, hnd, hfp, hst⟩ := h.down
  have hs1 : step w (promptEv w) =
      { w with up := [], srv := s', tunS := w.tunS ++ [[0, 0, 8, 0] ++ fu.drop 4] } := by
    rw [promptEv_up w _ _ hup, step_deliverUp w _ _ hup, srvInput_query, stepS_zero { w with up := [] } _ s' evs t hit, hdown, htun]
    simp
  refine ⟨{ w with up := [], srv := s', tunS := w.tunS ++ [[0, 0, 8, 0] ++ fu.drop 4] }, upQuery (sentState c0).chunkid P.ty name,
    by rw [promptSteps_succ hq1, hs1]; rfl, ?_, rfl, rfl, htip', hfr'⟩
  refine ⟨h.ph, h.ready, h.cli, rfl, ⟨dname, pkt, hdn, hnd, ?_, hst⟩, h.exp, h.dup, h.hsq, ⟨h.hD, hD1⟩, hS', hq', hqs', hlz',
    by show (Server.getUser s' P.u).oqFilled = 0; rw [hoq']; exact h.srv.oq,
    by show (Server.getUser s' P.u).outpacket = _; rw [hout', hop],
    by show (Server.getUser s' P.u).inpacket.seqno = _; rw [hiseq', hsqc],
    by show (Server.getUser s' P.u).inpacket.fragment = _; rw [hifrag']; rfl,
    ⟨_, _, _, _, hQ⟩, upQuery_id _ _ _, h.aged.congr m3 m4 m1 m2, h.paged.congr m5 m6 m1 m2⟩
  have : decide (outD.length > 0 ∧ outD.length = 0 + D) = true := by
    have := h.hD
    simp; omega
  rw [this] at hfp
  exact hfp

theorem sentStateL_uc2 (c : Client.Cli) : (sentStateL c).useridChar2 = c.useridChar2 := by
  rw [sentStateL_eta]
  simp [sentState, Client.rotateChunkid]

/-- the joint state after the third scheduler step of the single × single case: both packets are delivered; the client has
RESENT its chunk (the 5 ms ping timer fired while the chunk was unacknowledged: `c1` = the state `send_chunk` was called in,
`outchunkresent = 1`); the first data query `Q` is still parked at the server -/
structure ResentL (P : Par) (outU : List Nat) (w : W) (c0 c1 : Client.Cli) (Q : Server.Query) (sq : Int) : Prop where
  ph : w.cs.ph = .tunnel
  ready : CReadyL P c1 outU 0 0
  cli : w.cs.c = { sentStateL c1 with sendPingSoon := 0 }
  up : w.up = upOfEvents (Client.sendChunk c1).evs
  down : w.down = []
  c1id : c1.chunkid = (sentState c0).chunkid
  c1cmc : c1.datacmc = (c0.datacmc + 1) % 36
  c1seed : c1.randSeed = c0.randSeed
  c1oseq : c1.outpkt.seqno = c0.outpkt.seqno
  c1iseq : c1.inpkt.seqno = sq
  c0cmc : c0.datacmc < 36
  srv : SStat P w.srv
  q : (Server.getUser w.srv P.u).q.id = 0
  qs : (Server.getUser w.srv P.u).qs = Q
  lz : (Server.getUser w.srv P.u).lazy = true
  oq : (Server.getUser w.srv P.u).oqFilled = 0
  op : (Server.getUser w.srv P.u).outpacket.len = 0
  oseq : (Server.getUser w.srv P.u).outpacket.seqno = sq
  iseq : (Server.getUser w.srv P.u).inpacket.seqno = c0.outpkt.seqno
  ifrag : (Server.getUser w.srv P.u).inpacket.fragment = 0
  upq : ∃ dsq dfr lastf chunk, UpQ P Q ⟨c0.outpkt.seqno.toNat, 0, dsq, dfr, lastf⟩ c0.datacmc chunk
  qid : Q.id = (sentState c0).chunkid
  aged : Aged P (Server.getUser w.srv P.u) c0.datacmc 1
  paged : PAged P (Server.getUser w.srv P.u) c0.randSeed 1

/-- steps 2 and 3 (`deliverDown`, `tickC`) -/
theorem single_step23 {P : Par} (hP : P.Ok) {outU fd : List Nat} {w : W} {c0 : Client.Cli} {Q : Server.Query} {sq : Int} {D : Nat}
    (h : ParkedL P outU (0x5a :: fd) w c0 Q sq D) (h64 : (0x5a :: fd).length ≤ 65536) (h4 : 4 ≤ fd.length)
    (hres : c0.outchunkresent = 0) :
    ∃ w3 c1, promptSteps P.u 2 w = some w3 ∧ ResentL P outU w3 c0 c1 Q sq ∧
      w3.tunS = w.tunS ∧ w3.tunC = w.tunC ++ [tunImage fd] ∧ w3.srv = w.srv := by
  obtain ⟨dname, pkt, hdn, hnd, hfp, hst⟩ := h.down
  have hsf := sentFactsL c0
  have hsi := sentIdsL c0
  have hcst := cstat_sentL h.ready
  have hcnt2 : CntOk { sentStateL c0 with sendPingSoon := 0 } 2 := hsi.cnt h.ready.cnt
  have huc2 : ({ sentStateL c0 with sendPingSoon := 0 } : Client.Cli).useridChar2 = c0.useridChar2 := sentStateL_uc2 c0
  have hres' : ({ sentStateL c0 with sendPingSoon := 0 } : Client.Cli).outchunkresent = 0 := (sentStateL_resent c0).trans hres
  generalize hc : ({ sentStateL c0 with sendPingSoon := 0 } : Client.Cli) = c at hsf hcst hsi hcnt2 huc2 hres'
  have hwc : w.cs = ⟨c, .tunnel⟩ := by rw [cstate_eta w.cs h.ph, h.cli, hc]
  -- step 2: the client receives the downstream packet
  generalize hrq : (Client.Rq.mk (pkt.length : Int) c0.chunkid (answerType P.ty) 0 (dname.headD 0) pkt) = rq
  have hci : cliInput (.ans c0.chunkid P.ty dname pkt) = .rq rq := by subst hrq; rfl
  have hrp : RecvPrevL P c rq pkt := by
    subst hrq
    refine ⟨hcst, hsf.sps, ?_, rfl, rfl, ?_, ?_⟩
    · show Client.notData c (dname.headD 0) = false
      unfold Client.notData at hnd ⊢
      rw [hsf.useridChar, huc2]; exact hnd
    · show Client.recentId c c0.chunkid = true
      unfold Client.recentId
      rw [hsi.prev]; simp
    · show c0.chunkid ≠ c.chunkid
      exact fun e => hsi.ne h.ready.stat.cid e.symm
  have hlastp := tunnelDns_last_prev hrp hfp h.hD.1 (by rw [hsf.inpkt]; exact h.dup) (h.exp.congr hsf.inpkt) h.hsq (by omega)
    (by have := h.hD.2; omega) h64 (by rw [hsf.oseq, hsf.ofrag, h.ready.frag]; exact hst)
  generalize hc2 : lastState c (0x5a :: fd) sq 0 D 0 = c2 at hlastp
  have hc2run : c2.running = true := by rw [← hc2]; exact hcst.running
  have hstep2 : Client.cstep w.cs (.rq rq) = (⟨c2, .tunnel⟩, [Client.writeTun fd], .sel (Client.selectOf c2)) := by
    rw [hwc, cstep_rq c rq hcst.running hcst.alive hcst.conn, hlastp]
    simp [Client.settle, Client.loopTop, hc2run]
  have hq1 : quiet P.u w = false := quiet_false_of_down _ _ _ _ hdn
  have hs2 : step w (promptEv w) = { w with down := [], cs := ⟨c2, .tunnel⟩, tunC := w.tunC ++ [tunImage fd] } := by
    rw [promptEv_down w _ _ h.up hdn, step_deliverDown w _ _ hdn, hci,
      stepC_of { w with down := [] } (.rq rq) ⟨c2, .tunnel⟩ [Client.writeTun fd] (.sel (Client.selectOf c2))
        (by exact hstep2) (by show c2.now = w.cs.c.now; rw [hwc, ← hc2]; rfl)]
    rw [tunOfC_writeTun fd h4]
    have hno : upOfEvents [Client.writeTun fd] = [] := rfl
    rw [hno]
    simp [h.up]
  generalize hw2 : ({ w with down := [], cs := ⟨c2, .tunnel⟩, tunC := w.tunC ++ [tunImage fd] } : W) = w2 at hs2
  have hw2c : w2.cs.c = c2 := by subst hw2; rfl
  have hw2srv : w2.srv = w.srv := by subst hw2; rfl
  -- step 3: the client's 5 ms timer fires first (the server waits 20 ms for the parked query): the chunk is resent
  have hQid : Q.id ≠ 0 := by obtain ⟨_, _, _, _, hu⟩ := h.upq; exact hu.id
  have hts : timeoutS w2 = 20000 := by
    unfold timeoutS
    rw [hw2srv, topOfLoop_timeout h.srv.solo]
    have : Server.live (Server.getUser w.srv P.u) w.srv.now = true := by
      simp [Server.live, h.srv.x.active, h.srv.x.enabled, h.srv.live]
    rw [if_pos ⟨this, by rw [h.qs]; exact hQid⟩]
  have hc2flat : c2 = { ackBook c with inpkt := { inAfter (ackBook c) (0x5a :: fd) sq 0 D 0 with len := 0 }, sendPingSoon := 5 } := by
    rw [← hc2]; rfl
  have hready1 : CReadyL P { c2 with outchunkresent := c2.outchunkresent + 1 } outU 0 0 := by
    rw [hc2flat]
    refine ⟨⟨hcst.running, hcst.conn, hcst.lz, hcst.uid, hcst.uch, hcst.td, hcst.L, hcst.enc, hcst.ty, hcst.cid, hcst.cmc,
      by show ¬ c.now + 60 < c.now; omega, hcst.oseq, h.hsq, by show (0 : Int) ≤ ((0 : Nat) : Int) ∧ ((0 : Nat) : Int) < 16; omega, hcst.seed⟩,
      ?_, ?_, ?_, ?_, ?_, h.ready.ho, h.ready.hf, h.ready.bytes⟩
    · have := ackBook_cnt c hcnt2
      unfold CntOk at *
      exact this
    · show c.outpkt.data = outU; rw [hsf.odata]; exact h.ready.data
    · show c.outpkt.len = outU.length; rw [hsf.olen]; exact h.ready.len
    · show c.outpkt.offset = 0; rw [hsf.ooff]; exact h.ready.off
    · show c.outpkt.fragment = ((0 : Nat) : Int); rw [hsf.ofrag]; exact h.ready.frag
  obtain ⟨hpe, hst3⟩ := tick_resend_step hP (w := w2) (by subst hw2; rfl) (by subst hw2; exact h.up) (by subst hw2; rfl)
    (by rw [hw2c, hc2flat]) hts (by rw [hw2c, hc2flat]; show c.outchunkresent < 3; omega) (by rw [hw2c]; exact hready1)
  rw [hw2c] at hst3
  have hq2 : quiet P.u w2 = false := by
    unfold World.quiet
    simp [hw2srv, h.q, h.lz]
  generalize hc1 : ({ c2 with outchunkresent := c2.outchunkresent + 1 } : Client.Cli) = c1 at hst3 hready1
  refine ⟨{ w2 with cs := ⟨{ sentStateL c1 with sendPingSoon := 0 }, .tunnel⟩, up := upOfEvents (Client.sendChunk c1).evs }, c1, ?_, ?_, ?_, ?_, ?_⟩
  · rw [promptSteps_succ hq1, hs2, promptSteps_succ hq2, hpe, hst3]; rfl
  · refine ⟨rfl, hready1, rfl, rfl, by subst hw2; rfl, ?_, ?_, ?_, ?_, ?_, h.ready.stat.cmc,
      by subst hw2; exact h.srv, by subst hw2; exact h.q, by subst hw2; exact h.qs, by subst hw2; exact h.lz,
      by subst hw2; exact h.oq, by subst hw2; show (Server.getUser w.srv P.u).outpacket.len = 0; rw [h.op],
      by subst hw2; show (Server.getUser w.srv P.u).outpacket.seqno = sq; rw [h.op],
      by subst hw2; exact h.iseq, by subst hw2; exact h.ifrag, h.upq, h.qid,
      by subst hw2; exact h.aged, by subst hw2; exact h.paged⟩
    · rw [← hc1, hc2flat]; show c.chunkid = _; exact hsi.cid
    · rw [← hc1, hc2flat]; show c.datacmc = _; rw [hsf.cmc]
      have := h.ready.stat.cmc
      split <;> omega
    · rw [← hc1, hc2flat]; show c.randSeed = _; exact hsf.seed
    · rw [← hc1, hc2flat]; show c.outpkt.seqno = _; exact hsf.oseq
    · rw [← hc1, hc2flat]; rfl
  · subst hw2; rfl
  · subst hw2; rfl
  · subst hw2; rfl

/-- steps 4 and 5 (`deliverUp`: the server recognises the resent chunk as a duplicate, answers the PARKED query with the
acknowledgement and holds the new one; `deliverDown`: the client's packet is complete) -/
theorem single_step45 {P : Par} (hP : P.Ok) {outU : List Nat} {w : W} {c0 c1 : Client.Cli} {Q : Server.Query} {sq : Int}
    (h : ResentL P outU w c0 c1 Q sq) (hU1 : fragLen P (outU.drop 0) = outU.length) :
    ∃ w5, promptSteps P.u 2 w = some w5 ∧ QuietLazy P w5 ∧ w5.tunS = w.tunS ∧ w5.tunC = w.tunC ∧
      (Server.getUser w5.srv P.u).tunIp = (Server.getUser w.srv P.u).tunIp ∧
      (Server.getUser w5.srv P.u).fragsize = (Server.getUser w.srv P.u).fragsize := by
  obtain ⟨name, hsend, hm1, hm2, hQ1⟩ := send_readyL hP h.ready
  obtain ⟨dsq, dfr, lastf, chunk, hu⟩ := h.upq
  have hsf := sentFactsL c1
  have hsi := sentIdsL c1
  have hcst := cstat_sentL h.ready
  have hup : w.up = [.query (sentState c1).chunkid P.ty name] := by rw [h.up, hsend]; rfl
  have hsqc : ((c1.outpkt.seqno.toNat : Nat) : Int) = c1.outpkt.seqno := by have := h.ready.stat.oseq; omega
  rw [h.c1cmc] at hQ1
  -- step 4
  obtain ⟨s', evs, t, hit, hdown, htun, hS', hidle', hqeq', hmem', hin', hout', hoq', htip', hnow', hfrag'⟩ :=
    srv_recv_dup_qs hP h.srv h.c0cmc h.aged h.paged hu.heldBase (hu.heldData h.c0cmc) h.q h.qs h.lz h.op h.oq hQ1
      (by rw [h.iseq, hsqc, h.c1oseq]) (by rw [h.ifrag]; omega)
  have hq1 : quiet P.u w = false := quiet_false_of_up _ _ _ _ hup
  generalize hpkt : Server.scPkt (Server.getUser w.srv P.u) 0 = pkt at hdown
  have hs1 : step w (promptEv w) = { w with up := [], srv := s', down := [.ans Q.id Q.type Q.name pkt] } := by
    rw [promptEv_up w _ _ hup, step_deliverUp w _ _ hup, srvInput_query, stepS_zero { w with up := [] } _ s' evs t hit, hdown, htun]
    simp [h.down]
  generalize hw2 : ({ w with up := [], srv := s', down := [.ans Q.id Q.type Q.name pkt] } : W) = w2 at hs1
  have hw2cs : w2.cs = w.cs := by subst hw2; rfl
  have hw2up : w2.up = [] := by subst hw2; rfl
  have hw2down : w2.down = [.ans Q.id Q.type Q.name pkt] := by subst hw2; rfl
  have hq2 : quiet P.u w2 = false := quiet_false_of_down _ _ _ _ hw2down
  -- step 5
  obtain ⟨hlen2, hdn, hus, huf⟩ := ack_hdr (x := Server.getUser w.srv P.u) (y := Server.getUser w.srv P.u) hpkt.symm
    h.srv.x.iseq h.srv.x.ifrag rfl h.srv.x.oseq h.srv.x.ofrag
  have hcnt2 : CntOk { sentStateL c1 with sendPingSoon := 0 } 2 := hsi.cnt h.ready.cnt
  generalize hc : ({ sentStateL c1 with sendPingSoon := 0 } : Client.Cli) = c at hsf hcst hsi hcnt2
  have hwc : w.cs = ⟨c, .tunnel⟩ := by rw [cstate_eta w.cs h.ph, h.cli, hc]
  have hsending : Client.isSending c = true := by
    unfold Client.isSending
    rw [hsf.olen, h.ready.len]
    have hlen0 : outU.length ≠ 0 := by have := h.ready.ho; omega
    simpa using hlen0
  generalize hrq : (Client.Rq.mk (pkt.length : Int) Q.id (answerType Q.type) 0 (Q.name.headD 0) pkt) = rq
  have hdl : Client.tunnelDns c rq = Client.upstream (ackBook c) (Client.decodeHdr pkt) [] false 2 := by
    have := tunnelDns_dataless_lazy c rq
      (by subst hrq; show Client.notData c (Q.name.headD 0) = false
          rw [headD_eq_getD]
          exact notData_held (hsf.useridChar.trans h.ready.stat.uch) _ (Or.inl hu.c0))
      (by subst hrq; exact hlen2)
      (by subst hrq; unfold Client.recentId; show (Q.id == c.chunkid || Q.id == c.chunkidPrev || Q.id == c.chunkidPrev2) = true
          rw [hsi.prev, h.qid, h.c1id]; simp)
      hsf.sps
      (by subst hrq; show Q.id ≠ c.chunkid; rw [h.qid, ← h.c1id]; exact fun e => hsi.ne h.ready.stat.cid e.symm)
      (by subst hrq; show (Client.decodeHdr pkt).dnSeq = c.inpkt.seqno; rw [hdn, h.oseq, hsf.inpkt, h.c1iseq])
    subst hrq
    exact this
  have hbk : (ackBook c).outpkt = c.outpkt := rfl
  have hdone := upstream_ack_done (ackBook c) (Client.decodeHdr pkt) [] false 2
    (by unfold Client.isSending; rw [hbk]; exact hsending)
    (by rw [hus, h.iseq, hbk, hsf.oseq, h.c1oseq])
    (by rw [huf, h.ifrag, hbk, hsf.ofrag, h.ready.frag]; rfl)
    (by rw [hbk, hsf.ooff, hsf.osent, hsf.olen, cFragLen_readyL h.ready, hU1, h.ready.off, h.ready.len]; omega)
  generalize hcd : ackDone (ackBook c) = cd at hdone
  have hfp : Client.finalPing cd [] false 2 = (cd, [], .ret 2) := by simp [Client.finalPing]
  have hb := cstat_ackBookL hcst
  have hcdstat : CStatL P cd := by
    subst hcd
    exact ⟨hb.running, hb.conn, hb.lz, hb.uid, hb.uch, hb.td, hb.L, hb.enc, hb.ty, hb.cid, hb.cmc, hb.alive, hb.oseq, hb.iseq, hb.ifrag, hb.seed⟩
  have hcdcnt : CntOk cd 1 := by
    subst hcd
    exact cntOk_ackDone _ _ (ackBook_cnt c hcnt2)
  have hstep3 : Client.cstep w2.cs (.rq rq) = (⟨cd, .tunnel⟩, [], .sel (Client.selectOf cd)) := by
    rw [hw2cs, hwc, cstep_rq c rq hcst.running hcst.alive hcst.conn, hdl, hdone, hfp]
    simp [Client.settle, Client.loopTop, hcdstat.running]
  have hnow3 : cd.now = w2.cs.c.now := by
    rw [hw2cs, hwc]; subst hcd; rfl
  have hs2 : step w2 (promptEv w2) = { w2 with down := [], cs := ⟨cd, .tunnel⟩ } := by
    rw [promptEv_down w2 _ _ hw2up hw2down, step_deliverDown w2 _ _ hw2down]
    have hci : cliInput (.ans Q.id Q.type Q.name pkt) = .rq rq := by subst hrq; rfl
    rw [hci, stepC_of _ _ _ _ _ (by exact hstep3) (by exact hnow3)]
    subst hw2
    simp [upOfEvents, tunOfCEvents]
  have hcmc' : cd.datacmc = (c0.datacmc + 2) % 36 := by
    subst hcd; show c.datacmc = _; rw [hsf.cmc, h.c1cmc]
    have := h.c0cmc
    split <;> omega
  have hseed' : cd.randSeed = c0.randSeed := by subst hcd; show c.randSeed = _; rw [hsf.seed, h.c1seed]
  refine ⟨{ w2 with down := [], cs := ⟨cd, .tunnel⟩ }, ?_, ?_, ?_, ?_, ?_, ?_⟩
  · rw [promptSteps_succ hq1, hs1, promptSteps_succ hq2, hs2]; rfl
  · subst hw2
    refine ⟨rfl, hcdstat, hcdcnt, ?_, rfl, rfl, hS', hidle', by rw [hoq']; exact h.oq, ?_, ?_, ?_, ?_, ?_⟩
    · subst hcd; rfl
    · show HeldBase P (Server.getUser s' P.u).q
      rw [hqeq']; exact hQ1.heldBase
    · show (Server.getUser s' P.u).q.id = cd.chunkid
      rw [hqeq', upQuery_id]
      subst hcd; show _ = c.chunkid; exact hsi.cid.symm
    · show (Server.getUser s' P.u).inpacket.seqno = cd.outpkt.seqno
      rw [hin', h.iseq]
      subst hcd
      show _ = c.outpkt.seqno
      rw [hsf.oseq, h.c1oseq]
    · show (Server.getUser s' P.u).outpacket.seqno = cd.inpkt.seqno
      rw [hout', h.oseq]
      subst hcd
      show sq = c.inpkt.seqno
      rw [hsf.inpkt, h.c1iseq]
    · show HeldMem P (Server.getUser s' P.u) (Server.getUser s' P.u).q cd.datacmc cd.randSeed
      rw [hqeq', hcmc', hseed']; exact hmem'
  · subst hw2; rfl
  · subst hw2; rfl
  · subst hw2; exact htip'
  · subst hw2; exact hfrag'

end Iodine.C02L
