import IodineModel.Lemmas.C02d15
/-
C02 phase 2, downstream / immediate mode, desynchronised start — CLIENT side.

An answer whose downstream sequence number is NOT the expected next one:
* a DATA answer with a number that differs from `inpkt.seqno` and is in the window (`recent_seqno`): `read := 2`,
  `send_ping_soon := 500`, the data are thrown away (`tunnelDns_dupe`, `recv_dupe`);
* a DATALESS answer with the current number or one in the window: nothing (`recv_dataless_stale`);
* a DATALESS answer with a number outside the window: the client ADOPTS it (`recv_dataless_adopt`).
-/
namespace Iodine.C02L
open Iodine Iodine.Gen Iodine.World

/-- the client state after a data answer was thrown away as "previous seqno, or a bit earlier" -/
def dupeState (c : Client.Cli) : Client.Cli := { ackBook c with sendPingSoon := 500 }

theorem tunnelDns_dupe (c : Client.Cli) (rq : Client.Rq) (hn : Client.notData c rq.name0 = false) (hrv : 2 < rq.rv)
    (hbad : ¬ (rq.rv = 5 ∧ rq.buf.take 5 = Client.ascii "BADIP"))
    (hid : Client.recentId c rq.id = true) (hsps : c.sendPingSoon = 0) (hlz : c.lazymode = false)
    (hs : Client.isSending c = false)
    (hne : (Client.decodeHdr rq.buf).dnSeq ≠ c.inpkt.seqno)
    (hrec : Client.recentSeqno c.inpkt.seqno (Client.decodeHdr rq.buf).dnSeq = true) :
    Client.tunnelDns c rq = (dupeState c, [], .ret 2) := by
  have hc : { c with sendPingSoon := 0 } = c := by
    cases c; simp_all
  have hrid : Client.recentId (Client.countRecv { c with sendPingSoon := 500 }) rq.id = true := hid
  unfold Client.tunnelDns
  simp only [hn, Bool.false_eq_true, if_false, hsps, bne_self_eq_false, hc]
  rw [if_neg (by omega), if_neg hbad]
  have hd : Client.dupeSeqno c (Client.decodeHdr rq.buf) rq.rv = ({ c with sendPingSoon := 500 }, 2) := by
    unfold Client.dupeSeqno
    rw [if_pos ⟨by omega, hne, hrec⟩]
  simp only [hd, hrid, Bool.not_true, Bool.false_eq_true, if_false]
  generalize hc1 : ({ Client.countRecv { c with sendPingSoon := 500 } with
      lastdownstreamtime := (Client.countRecv { c with sendPingSoon := 500 }).now } : Client.Cli) = c1
  have hc1e : c1 = dupeState c := by rw [← hc1]; rfl
  have hl : Client.lazyHint c1 rq.id = c1 := by
    unfold Client.lazyHint
    rw [if_neg (by rw [← hc1]; simp [Client.countRecv, hlz])]
  rw [hl]
  have hda : Client.datalessAdopt c1 (Client.decodeHdr rq.buf) 2 = c1 := by
    unfold Client.datalessAdopt
    rw [if_neg (by
      have : c1.inpkt.seqno = c.inpkt.seqno := by rw [← hc1]; rfl
      rw [this, hrec]; simp)]
  rw [hda]
  have hds : Client.downstream c1 (Client.decodeHdr rq.buf) rq.buf 2 false = (c1, [], false) := by
    unfold Client.downstream
    rw [if_neg (by omega)]
  rw [hds]
  have hso : Client.isSending c1 = false := by rw [← hc1]; exact hs
  unfold Client.upstream
  simp only
  rw [if_neg (by rw [hso]; simp)]
  simp [Client.finalPing, hc1e]

/-- `tunnel_dns` on a dataless answer whose downstream sequence number is the current one or in the window: straight to the
upstream-ack code (generalises `tunnelDns_dataless'`) -/
theorem tunnelDns_dataless_stale (c : Client.Cli) (rq : Client.Rq) (hn : Client.notData c rq.name0 = false) (hrv : rq.rv = 2)
    (hid : Client.recentId c rq.id = true) (hsps : c.sendPingSoon = 0) (hlz : c.lazymode = false)
    (hdn : (Client.decodeHdr rq.buf).dnSeq = c.inpkt.seqno ∨
      Client.recentSeqno c.inpkt.seqno (Client.decodeHdr rq.buf).dnSeq = true) :
    Client.tunnelDns c rq = Client.upstream (ackBook c) (Client.decodeHdr rq.buf) [] false 2 := by
  have hc : { c with sendPingSoon := 0 } = c := by
    cases c; simp_all
  have hrid : Client.recentId (Client.countRecv c) rq.id = true := hid
  unfold Client.tunnelDns
  simp only [hn, Bool.false_eq_true, if_false, hrv, hsps, bne_self_eq_false, hc]
  have h1 : ¬ ((2 : Int) < 2) := by omega
  have h2 : ¬ ((2 : Int) = 5 ∧ rq.buf.take 5 = Client.ascii "BADIP") := by omega
  rw [if_neg h1, if_neg h2]
  have hd : Client.dupeSeqno c (Client.decodeHdr rq.buf) 2 = (c, 2) := by
    unfold Client.dupeSeqno
    rw [if_neg (by omega)]
  simp only [hd, hrid, Bool.not_true, Bool.false_eq_true, if_false]
  have hl : Client.lazyHint { Client.countRecv c with lastdownstreamtime := (Client.countRecv c).now } rq.id =
      { Client.countRecv c with lastdownstreamtime := (Client.countRecv c).now } := by
    unfold Client.lazyHint
    rw [if_neg (by simp [Client.countRecv, hlz])]
  rw [hl]
  have hda : Client.datalessAdopt { Client.countRecv c with lastdownstreamtime := (Client.countRecv c).now } (Client.decodeHdr rq.buf) 2 =
      { Client.countRecv c with lastdownstreamtime := (Client.countRecv c).now } := by
    unfold Client.datalessAdopt
    rw [if_neg (by
      show ¬ ((2 : Int) = 2 ∧ (Client.decodeHdr rq.buf).dnSeq ≠ c.inpkt.seqno ∧
        (!Client.recentSeqno c.inpkt.seqno (Client.decodeHdr rq.buf).dnSeq) = true)
      rcases hdn with h | h
      · intro hx; exact hx.2.1 h
      · rw [h]; simp)]
  rw [hda]
  have hds : Client.downstream { Client.countRecv c with lastdownstreamtime := (Client.countRecv c).now } (Client.decodeHdr rq.buf) rq.buf 2 false =
      ({ Client.countRecv c with lastdownstreamtime := (Client.countRecv c).now }, [], false) := by
    unfold Client.downstream
    rw [if_neg (by omega)]
  rw [hds]
  rfl

/-- the client state after a dataless answer with an unseen sequence number was adopted -/
def adoptState (c : Client.Cli) (sq fr : Int) : Client.Cli :=
  { ackBook c with inpkt := { c.inpkt with seqno := sq, fragment := fr, len := 0 }, sendPingSoon := 500 }

theorem tunnelDns_dataless_adopt (c : Client.Cli) (rq : Client.Rq) (hn : Client.notData c rq.name0 = false) (hrv : rq.rv = 2)
    (hid : Client.recentId c rq.id = true) (hsps : c.sendPingSoon = 0) (hlz : c.lazymode = false)
    (hne : (Client.decodeHdr rq.buf).dnSeq ≠ c.inpkt.seqno)
    (hrec : Client.recentSeqno c.inpkt.seqno (Client.decodeHdr rq.buf).dnSeq = false) :
    Client.tunnelDns c rq =
      Client.upstream (adoptState c (Client.sChar (Client.decodeHdr rq.buf).dnSeq) (Client.sChar (Client.decodeHdr rq.buf).dnFrag))
        (Client.decodeHdr rq.buf) [] false 2 := by
  have hc : { c with sendPingSoon := 0 } = c := by
    cases c; simp_all
  have hrid : Client.recentId (Client.countRecv c) rq.id = true := hid
  unfold Client.tunnelDns
  simp only [hn, Bool.false_eq_true, if_false, hrv, hsps, bne_self_eq_false, hc]
  have h1 : ¬ ((2 : Int) < 2) := by omega
  have h2 : ¬ ((2 : Int) = 5 ∧ rq.buf.take 5 = Client.ascii "BADIP") := by omega
  rw [if_neg h1, if_neg h2]
  have hd : Client.dupeSeqno c (Client.decodeHdr rq.buf) 2 = (c, 2) := by
    unfold Client.dupeSeqno
    rw [if_neg (by omega)]
  simp only [hd, hrid, Bool.not_true, Bool.false_eq_true, if_false]
  have hl : Client.lazyHint { Client.countRecv c with lastdownstreamtime := (Client.countRecv c).now } rq.id =
      { Client.countRecv c with lastdownstreamtime := (Client.countRecv c).now } := by
    unfold Client.lazyHint
    rw [if_neg (by simp [Client.countRecv, hlz])]
  rw [hl]
  have hda := (datalessAdopt_spec { Client.countRecv c with lastdownstreamtime := (Client.countRecv c).now }
    (Client.decodeHdr rq.buf) (by exact hne) (by exact hrec)).1
  rw [hda]
  generalize hc2 : ({ ({ Client.countRecv c with lastdownstreamtime := (Client.countRecv c).now } : Client.Cli) with
      inpkt := { ({ Client.countRecv c with lastdownstreamtime := (Client.countRecv c).now } : Client.Cli).inpkt with
        seqno := Client.sChar (Client.decodeHdr rq.buf).dnSeq, fragment := Client.sChar (Client.decodeHdr rq.buf).dnFrag, len := 0 },
      sendPingSoon := 500 } : Client.Cli) = c2
  have hc2e : c2 = adoptState c (Client.sChar (Client.decodeHdr rq.buf).dnSeq) (Client.sChar (Client.decodeHdr rq.buf).dnFrag) := by
    rw [← hc2]; rfl
  have hds : Client.downstream c2 (Client.decodeHdr rq.buf) rq.buf 2 false = (c2, [], false) := by
    unfold Client.downstream
    rw [if_neg (by omega)]
  rw [hds, hc2e]

/-! ### through the step machine -/

theorem cstat_dupeState {P : Par} {c : Client.Cli} (hc : CStat P c) : CStat P (dupeState c) :=
  ⟨hc.running, hc.conn, hc.imm, hc.uid, hc.uch, hc.td, hc.L, hc.enc, hc.ty, hc.cid, hc.cmc,
    by show ¬ c.now + 60 < c.now; omega, hc.oseq, hc.iseq, hc.ifrag, hc.seed⟩

theorem cstat_adoptState {P : Par} {c : Client.Cli} (hc : CStat P c) (sq fr : Int) (hsq : 0 ≤ sq ∧ sq < 8)
    (hfr : 0 ≤ fr ∧ fr < 16) : CStat P (adoptState c sq fr) :=
  ⟨hc.running, hc.conn, hc.imm, hc.uid, hc.uch, hc.td, hc.L, hc.enc, hc.ty, hc.cid, hc.cmc,
    by show ¬ c.now + 60 < c.now; omega, hc.oseq, hsq, hfr, hc.seed⟩

/-- a data fragment whose sequence number is in the window: thrown away, a ping is due in 500 ms -/
theorem recv_dupe {P : Par} {c : Client.Cli} {rq : Client.Rq} {pkt out : List Nat} {sq : Int} {o D f : Nat} {last : Bool}
    (h : RecvOk P c rq pkt) (hp : FragPkt pkt out sq o D f last) (hD : 0 < D)
    (hne : sq ≠ c.inpkt.seqno) (hrec : Client.recentSeqno c.inpkt.seqno sq = true) :
    Client.cstep ⟨c, .tunnel⟩ (.rq rq) = (⟨dupeState c, .tunnel⟩, [], .sel (Client.selectOf (dupeState c))) := by
  have hrv : rq.rv = ((2 + D : Nat) : Int) := by rw [h.rv, hp.len]
  rw [cstep_rq c rq h.cst.running h.cst.alive h.cst.conn]
  rw [tunnelDns_dupe c rq (by simp [Client.notData, h.name0]) (by rw [hrv]; omega)
    (by rw [h.buf]; intro hc; exact hp.notbad hc.2)
    (by unfold Client.recentId; rw [h.id]; simp) h.sps h.cst.imm h.idle
    (by rw [h.buf, hp.hdr.1]; exact hne) (by rw [h.buf, hp.hdr.1]; exact hrec)]
  simp [Client.settle, Client.loopTop, (cstat_dupeState h.cst).running]


/-- fragment 0 of a packet that carries the client's CURRENT sequence number while the client's last fragment number is
not 0: "duplicate fragment", thrown away, a ping is due in 500 ms — the same state as after `recv_dupe` -/
theorem recv_dupfrag {P : Par} {c : Client.Cli} {rq : Client.Rq} {pkt out : List Nat} {sq : Int} {o D : Nat} {last : Bool}
    (h : RecvOk P c rq pkt) (hp : FragPkt pkt out sq o D 0 last) (hD : 0 < D)
    (heq : sq = c.inpkt.seqno) (hfr : c.inpkt.fragment ≠ 0) :
    Client.cstep ⟨c, .tunnel⟩ (.rq rq) = (⟨dupeState c, .tunnel⟩, [], .sel (Client.selectOf (dupeState c))) := by
  rw [recv_common h hp hD (Or.inl heq)]
  have hfr0 := h.cst.ifrag
  have hacc : Client.acceptFragment (ackBook c) (Client.decodeHdr pkt) = none := by
    unfold Client.acceptFragment
    rw [if_neg (by show ¬ ((Client.decodeHdr pkt).dnSeq ≠ c.inpkt.seqno); rw [hp.hdr.1, heq]; simp),
      if_neg (by show ¬ (c.inpkt.fragment = 0 ∧ _); intro hc; exact hfr hc.1),
      if_pos (by show (Client.decodeHdr pkt).dnFrag ≤ c.inpkt.fragment; rw [hp.hdr.2.1]; omega)]
  have hds : Client.downstream (ackBook c) (Client.decodeHdr pkt) pkt ((2 + D : Nat) : Int) false = (dupeState c, [], false) := by
    unfold Client.downstream
    rw [if_pos (by omega), hacc]
    rfl
  rw [hds]
  simp [Client.finalPing, Client.settle, Client.loopTop, (cstat_dupeState h.cst).running]

/-- the conditions under which the client processes the answer `rq` as a dataless answer -/
structure RecvOk0 (P : Par) (c : Client.Cli) (rq : Client.Rq) (pkt : List Nat) : Prop where
  cst : CStat P c
  idle : Client.isSending c = false
  sps : c.sendPingSoon = 0
  name0 : rq.name0 = 112
  rv : rq.rv = 2
  buf : rq.buf = pkt
  id : rq.id = c.chunkid

/-- a dataless answer with the current sequence number or one in the window: only the bookkeeping -/
theorem recv_dataless_stale {P : Par} {c : Client.Cli} {rq : Client.Rq} {pkt : List Nat}
    (h : RecvOk0 P c rq pkt)
    (hdn : (Client.decodeHdr pkt).dnSeq = c.inpkt.seqno ∨ Client.recentSeqno c.inpkt.seqno (Client.decodeHdr pkt).dnSeq = true) :
    Client.cstep ⟨c, .tunnel⟩ (.rq rq) = (⟨ackBook c, .tunnel⟩, [], .sel (Client.selectOf (ackBook c))) := by
  rw [cstep_rq c rq h.cst.running h.cst.alive h.cst.conn]
  rw [tunnelDns_dataless_stale c rq (by simp [Client.notData, h.name0]) h.rv
    (by unfold Client.recentId; rw [h.id]; simp) h.sps h.cst.imm (by rw [h.buf]; exact hdn)]
  have hoth := (upstream_other_ack (ackBook c) (Client.decodeHdr rq.buf) [] false 2
    (by intro hc; have : Client.isSending (ackBook c) = false := h.idle; rw [this] at hc; exact absurd hc.1 (by decide))).1
  rw [hoth]
  simp [Client.finalPing, Client.settle, Client.loopTop, (cstat_ackBook h.cst).running]

/-- a dataless answer with a sequence number outside the window: adopted, a ping is due in 500 ms -/
theorem recv_dataless_adopt {P : Par} {c : Client.Cli} {rq : Client.Rq} {pkt : List Nat} {sq fr : Int}
    (h : RecvOk0 P c rq pkt) (hsq : (Client.decodeHdr pkt).dnSeq = sq) (hfr : (Client.decodeHdr pkt).dnFrag = fr)
    (hsqr : 0 ≤ sq ∧ sq < 8) (hfrr : 0 ≤ fr ∧ fr < 16)
    (hne : sq ≠ c.inpkt.seqno) (hrec : Client.recentSeqno c.inpkt.seqno sq = false) :
    Client.cstep ⟨c, .tunnel⟩ (.rq rq) = (⟨adoptState c sq fr, .tunnel⟩, [], .sel (Client.selectOf (adoptState c sq fr))) := by
  rw [cstep_rq c rq h.cst.running h.cst.alive h.cst.conn]
  rw [tunnelDns_dataless_adopt c rq (by simp [Client.notData, h.name0]) h.rv
    (by unfold Client.recentId; rw [h.id]; simp) h.sps h.cst.imm (by rw [h.buf, hsq]; exact hne) (by rw [h.buf, hsq]; exact hrec)]
  rw [h.buf, hsq, hfr, sChar_small sq (by omega), sChar_small fr (by omega)]
  have hoth := (upstream_other_ack (adoptState c sq fr) (Client.decodeHdr pkt) [] false 2
    (by intro hc; have : Client.isSending (adoptState c sq fr) = false := h.idle; rw [this] at hc; exact absurd hc.1 (by decide))).1
  rw [hoth]
  simp [Client.finalPing, Client.settle, Client.loopTop, (cstat_adoptState h.cst sq fr hsqr hfrr).running]

end Iodine.C02L
