import IodineModel.Lemmas.C02rO2
/-
C02 / OVERLAPPING transfers, lazy mode, ENDINGS — the state right after the downstream packet (of at least two fragments) is
complete at the CLIENT while upstream continues: `UpFlightNQP` = `UpFlightNQ` (C02rO2) except that the server still has the
LAST downstream fragment unacknowledged (it may have sent it twice: `outfragresent ≤ 2`); the upstream data query in flight
carries the acknowledgement, so the server drops the packet as soon as that query arrives.
-/
namespace Iodine.C02L
open Iodine Iodine.Gen Iodine.World

structure UpFlightNQP (P : Par) (out outD : List Nat) (w : W) (c0 : Client.Cli) (o f : Nat) (sq : Int) (od D fd : Nat) : Prop where
  ph : w.cs.ph = .tunnel
  ready : CReadyL P c0 out o f
  cnt0 : CntOk c0 0
  cli : w.cs.c = { sentStateL c0 with sendPingSoon := 0 }
  up : w.up = upOfEvents (Client.sendChunk c0).evs
  down : w.down = []
  sstat : SStat P w.srv
  q0 : (Server.getUser w.srv P.u).q.id = 0
  qs0 : (Server.getUser w.srv P.u).qs.id = 0
  lz : (Server.getUser w.srv P.u).lazy = true
  oq : (Server.getUser w.srv P.u).oqFilled = 0
  op : (Server.getUser w.srv P.u).outpacket = ⟨outD.length, D, od, outD, sq, (fd : Int)⟩
  hD : 0 < D
  heq : od + D = outD.length
  hfd : fd < 16
  hsq : 0 ≤ sq ∧ sq < 8
  ack : c0.inpkt.seqno = sq ∧ c0.inpkt.fragment = (fd : Int)
  expect : Expect (Server.getUser w.srv P.u) out c0.outpkt.seqno.toNat o f
  aged : Aged P (Server.getUser w.srv P.u) c0.datacmc 1
  paged : PAged P (Server.getUser w.srv P.u) c0.randSeed 1

end Iodine.C02L
