import IodineModel.Lemmas.C02v5
import IodineModel.Lemmas.C02f2
/-
Server side of an upstream transfer in immediate mode: the three iterations that occur (fragment that is not the last
one; last fragment; the sweep that answers the parked query).
-/
namespace Iodine.C02L
open Iodine Iodine.Gen Iodine.Server Iodine.World

theorem topSess_live {P : Par} {s : Srv} (hS : SStat P s) :
    topSess (getUser s P.u) s.now = { getUser s P.u with qsNew := false } := by
  have : live (getUser s P.u) s.now = true := by
    simp [live, hS.x.active, hS.x.enabled, hS.live]
  simp [topSess, this]

theorem admitted_entry {P : Par} {s : Srv} (hS : SStat P s) (Q : Query) (hfrom : Q.from_ = clientAddr) :
    Admitted (entryS s P.u s.now) P.u Q := by
  have hg := getUser_entryS hS.solo s.now
  rw [topSess_live hS] at hg
  refine ⟨?_, ?_, ?_, ?_, ?_, ?_⟩
  · show P.u < s.cfg.createdUsers
    rw [hS.solo.created]; exact hS.solo.lt
  · rw [hg]; exact hS.x.active
  · rw [hg]; exact hS.x.enabled
  · rw [hg]; show ¬ (getUser s P.u).lastPkt + 60 < s.now; have := hS.live; omega
  · rw [hg]
    rcases hS.host with h | ⟨h1, h2⟩
    · exact Or.inl h
    · right
      rw [hfrom]
      exact ⟨h1.symm, Or.inl rfl, h2⟩
  · rw [hg]; exact hS.x.auth

/-- the slot after an upstream fragment that is not the last one was stored and acknowledged -/
structure AfterMid (P : Par) (s s' : Srv) (out : List Nat) (sq o f : Nat) (pkt : List Nat) : Prop where
  stat : SStat P s'
  idle : IdleImm (getUser s' P.u)
  expect : Expect (getUser s' P.u) out sq o f
  outp : (getUser s' P.u).outpacket = (getUser s P.u).outpacket
  oq : (getUser s' P.u).oqFilled = (getUser s P.u).oqFilled
  tun : (getUser s' P.u).tunIp = (getUser s P.u).tunIp
  frag : (getUser s' P.u).fragsize = (getUser s P.u).fragsize
  now : s'.now = s.now
  pkt : ∃ y : Session, pkt = scPkt y 0 ∧ y.outpacket = (getUser s P.u).outpacket ∧ y.inpacket.seqno = (sq : Int) ∧
    y.inpacket.fragment = (f : Int) - 1

theorem behind_next (k : Nat) (hk : k < 36) : Behind 36 ((k + 1) % 36) k 1 := by
  unfold Behind; omega

theorem scPkt0_len (y : Session) : (scPkt y 0).length ≤ DNSCACHE_ANSWER_SIZE := by
  simp [scPkt, DNSCACHE_ANSWER_SIZE]

theorem srv_recv_mid {P : Par} (hP : P.Ok) {s : Srv} (hS : SStat P s) (hi : IdleImm (getUser s P.u)) {k : Nat}
    (hk : k < 36) {sl : Nat} (hA : Aged P (getUser s P.u) k sl) {sd sp : Nat} (hPA : PAged P (getUser s P.u) sd sp)
    {Q : Query} {sq fr : Nat} {dsq dfr : Int} {out : List Nat} {o m : Nat}
    (hQ : UpQ P Q ⟨sq, fr, dsq, dfr, false⟩ k ((out.drop o).take m))
    (hE : Expect (getUser s P.u) out sq o fr) (hsq : sq < 8) (hfr : fr < 16)
    (hm : o + m ≤ out.length) (h64 : out.length ≤ 65536) (hsl : 1 ≤ sl ∧ sl ≤ 21 := by omega) :
    ∃ s' evs t pkt, iteration s (.q Q) s.now = (s', evs, t) ∧ downOfEvents evs = [.ans Q.id Q.type Q.name pkt] ∧
      tunOfSEvents evs = [] ∧ AfterMid P s s' out sq (o + m) (fr + 1) pkt ∧ Aged P (getUser s' P.u) ((k + 1) % 36) sl ∧
      PAged P (getUser s' P.u) sd sp := by
  have hf : Fresh P (getUser s P.u) k (0 + 1) := hA.fresh hk (by omega)
  obtain ⟨dlen, hdl, h6, hparse, hpl⟩ := hQ.parse
  have htop := topSess_live hS
  have hu := hS.solo.lt
  -- the slot at the top of the loop
  generalize hx0 : ({ getUser s P.u with qsNew := false } : Session) = x0 at htop
  have hx0s : XStat P x0 := by subst hx0; exact ⟨hS.x.active, hS.x.auth, hS.x.enabled, hS.x.conn, hS.x.enc, hS.x.oseq, hS.x.ofrag, hS.x.iseq, hS.x.ifrag⟩
  have hx0i : IdleImm x0 := by subst hx0; exact ⟨hi.out, hi.q, hi.qs, hi.lazy⟩
  have hx0f : Fresh P x0 k (0 + 1) := by subst hx0; exact ⟨hf.cache, hf.qmem⟩
  have hx0A : Aged P x0 k sl := by subst hx0; exact hA.congr rfl rfl rfl rfl
  have hx0P : PAged P x0 sd sp := by subst hx0; exact hPA.congr rfl rfl rfl rfl
  have hx0e : Expect x0 out sq o fr := by subst hx0; exact hE
  have hx0o : x0.outpacket = (getUser s P.u).outpacket := by subst hx0; rfl
  have hx0h : x0.host = (getUser s P.u).host := by subst hx0; rfl
  have hx0q : x0.oqFilled = (getUser s P.u).oqFilled := by subst hx0; rfl
  have hx0t : x0.tunIp = (getUser s P.u).tunIp := by subst hx0; rfl
  have hx0g : x0.fragsize = (getUser s P.u).fragsize := by subst hx0; rfl
  obtain ⟨I, hup, hI⟩ := accept_of_expect hx0e hx0s.iseq
  have hit := iteration_data hS.solo Q s.now dlen hP.hu (by rw [hS.td]; exact hdl) h6 hQ.c0 (hQ.ty ▸ hP.tty) hQ.id
    (admitted_entry hS Q hQ.from_)
    (by rw [htop]; exact hx0f.cacheMiss Q hQ.ty hQ.c0 hQ.c4 hk)
    (by rw [htop]; exact hx0f.qmemMiss Q hQ.ty hQ.c4 hk)
    (by rw [htop]; exact Or.inl hx0i.q) (by rw [htop]; exact Or.inl hx0i.qs)
    (by rw [hparse]; intro h; cases h)
  rw [htop, hparse, dataSess_imm_mid x0 P.u Q _ _ s.now I hx0i rfl hQ.id2 hup] at hit
  simp only at hit
  obtain ⟨e1, e2, e3, e4, e5, _⟩ := expect_stored hP (sq := sq) (f := fr) hx0s.enc _ hpl hI hm h64
  generalize hy : saveQ (stored x0 I ((Q.name.take (min dlen 512)).drop 5)) Q s.now = y at hit
  have hyc : core y = core { x0 with inpacket := (stored x0 I ((Q.name.take (min dlen 512)).drop 5)).inpacket, q := Q, lastPkt := s.now } := by
    subst hy; unfold saveQ stored dataStore; rfl
  generalize hY : ({ cacheUpd (qmemUpd y Q) Q (scPkt y 0) with q := { Q with id := 0 } } : Session) = Y at hit
  have hYc : core Y = core { y with q := { Q with id := 0 } } := by
    subst hY
    have := core_memo y Q (scPkt y 0)
    unfold core at this ⊢
    simp only [Session.mk.injEq] at this ⊢
    simp [this]
  -- the sweep does nothing: no query is parked
  have hqs : Y.qs.id = 0 := by
    have h1 : Y.qs = y.qs := by have := core_qs hYc; exact this
    have h2 : y.qs = x0.qs := by have := core_qs hyc; exact this
    rw [h1, h2]; exact hx0i.qs
  have hsw : sweepSess Y P.u s.now = (Y, []) := by
    unfold sweepSess
    rw [if_neg (by intro hc; exact hc.2.1 hqs)]
  rw [hsw] at hit
  dsimp only at hit
  refine ⟨_, _, _, scPkt y 0, hit, ?_, ?_, ?_, ?_, ?_⟩
  · simp only [List.append_nil, downOfEvents_append, downOfEvents_sweep, downOfEvents_writeDns _ _ _ _ hQ.from_]
  · simp only [List.append_nil, tunOfSEvents_append, tunOfSEvents_writeDns, tunOfSEvents_sweep]
  · have hg : getUser { putUser s P.u Y with now := s.now } P.u = Y := by
      rw [getUser_withNow, getUser_putUser_self _ _ _ hu]
    have c1 : core Y = core { x0 with
        inpacket := (stored x0 I ((Q.name.take (min dlen 512)).drop 5)).inpacket, q := { Q with id := 0 }, lastPkt := s.now } := by
      rw [hYc]
      have := hyc
      unfold core at this ⊢
      simp only [Session.mk.injEq] at this ⊢
      simp [this]
    have fA : Y.active = x0.active := by have := core_active c1; exact this
    have fB : Y.authenticated = x0.authenticated := by have := core_authenticated c1; exact this
    have fC : Y.disabled = x0.disabled := by have := core_disabled c1; exact this
    have fD : Y.conn = x0.conn := by have := core_conn c1; exact this
    have fE : Y.encoder = x0.encoder := by have := core_encoder c1; exact this
    have fF : Y.outpacket = x0.outpacket := by have := core_outpacket c1; exact this
    have fG : Y.inpacket = (stored x0 I ((Q.name.take (min dlen 512)).drop 5)).inpacket := by have := core_inpacket c1; exact this
    have fH : Y.q = { Q with id := 0 } := by have := core_q c1; exact this
    have fI : Y.qs = x0.qs := by have := core_qs c1; exact this
    have fJ : Y.lazy = x0.lazy := by have := core_lazy c1; exact this
    have fK : Y.host = x0.host := by have := core_host c1; exact this
    have fL : Y.lastPkt = s.now := by have := core_lastPkt c1; exact this
    have fQ : Y.oqFilled = x0.oqFilled := by have := core_oqFilled c1; exact this
    have fT : Y.tunIp = x0.tunIp := by have := core_tunIp c1; exact this
    have fGz : Y.fragsize = x0.fragsize := by have := core_fragsize c1; exact this
    refine ⟨?_, ?_, ?_, ?_, ?_, ?_, ?_, rfl, ?_⟩
    · refine ⟨(hS.solo.putUser Y).withNow _, hS.td, ?_, ?_, ?_⟩
      · rw [hg]
        refine ⟨fA ▸ hx0s.active, fB ▸ hx0s.auth, fC ▸ hx0s.enabled, fD ▸ hx0s.conn, fE ▸ hx0s.enc, fF ▸ hx0s.oseq, fF ▸ hx0s.ofrag, ?_, ?_⟩
        · rw [fG, e1]; omega
        · rw [fG, e2]; omega
      · rw [hg, fK, hx0h]; exact hS.host
      · rw [hg, fL]; show s.now < s.now + 60; omega
    · rw [hg]
      exact ⟨fF ▸ hx0i.out, by rw [fH], fI ▸ hx0i.qs, fJ ▸ hx0i.lazy⟩
    · rw [hg]
      right
      rw [fG]
      refine ⟨by omega, e1, by rw [e2]; omega, e3, e4, by rw [e5]; exact List.take_take .. |>.trans (by simp)⟩
    · rw [hg, fF, hx0o]
    · rw [hg, fQ, hx0q]
    · rw [hg, fT, hx0t]
    · rw [hg, fGz, hx0g]
    · refine ⟨y, rfl, ?_, ?_, ?_⟩
      · have : y.outpacket = x0.outpacket := by have h9 := core_outpacket hyc; exact h9
        rw [this, hx0o]
      · have : y.inpacket = (stored x0 I ((Q.name.take (min dlen 512)).drop 5)).inpacket := by have h9 := core_inpacket hyc; exact h9
        rw [this, e1]
      · have : y.inpacket = (stored x0 I ((Q.name.take (min dlen 512)).drop 5)).inpacket := by have h9 := core_inpacket hyc; exact h9
        rw [this, e2]; omega
  · have hg : getUser { putUser s P.u Y with now := s.now } P.u = Y := by
      rw [getUser_withNow, getUser_putUser_self _ _ _ hu]
    rw [hg]
    subst hY
    have hyA : Aged P y k sl := by
      subst hy
      exact hx0A.congr rfl rfl rfl rfl
    have := (hyA.step hk (by omega)).memo Q (scPkt y 0) (scPkt0_len y) k 1 ⟨by omega, by omega⟩ (behind_next k hk) hk hQ.c4 hQ.len5
      (by rw [hQ.c0]; have := (hexLower_facts P.u hP.hu).2.2; constructor <;> (intro hc; apply this; rw [hc]; simp))
    exact this.congr rfl rfl rfl rfl
  · have hg : getUser { putUser s P.u Y with now := s.now } P.u = Y := by
      rw [getUser_withNow, getUser_putUser_self _ _ _ hu]
    rw [hg]
    subst hY
    have hyP : PAged P y sd sp := by
      subst hy
      exact hx0P.congr rfl rfl rfl rfl
    have := hyP.memo_data hP.hu Q (scPkt y 0) (scPkt0_len y) hQ.len5 hQ.c0
    exact this.congr rfl rfl rfl rfl


/-- the slot after the last fragment of an upstream packet arrived: the packet is out, the query is parked -/
structure AfterLast (P : Par) (s s' : Srv) (Q : Query) (sq f : Nat) : Prop where
  stat : SStat P s'
  q : (getUser s' P.u).q.id = 0
  qs : (getUser s' P.u).qs = Q
  lazy : (getUser s' P.u).lazy = false
  outp : (getUser s' P.u).outpacket = (getUser s P.u).outpacket
  oq : (getUser s' P.u).oqFilled = (getUser s P.u).oqFilled
  tun : (getUser s' P.u).tunIp = (getUser s P.u).tunIp
  frag : (getUser s' P.u).fragsize = (getUser s P.u).fragsize
  iseq : (getUser s' P.u).inpacket.seqno = (sq : Int)
  ifrag : (getUser s' P.u).inpacket.fragment = (f : Int)
  now : s'.now = s.now
  cache : (getUser s' P.u).dnscache = (getUser s P.u).dnscache
  qmem : (getUser s' P.u).qmemdata = (getUser s P.u).qmemdata
  clast : (getUser s' P.u).dcLast = (getUser s P.u).dcLast
  qlast : (getUser s' P.u).qmemdataLast = (getUser s P.u).qmemdataLast
  pmem : (getUser s' P.u).qmemping = (getUser s P.u).qmemping
  plast : (getUser s' P.u).qmempingLast = (getUser s P.u).qmempingLast

theorem uncompress_compress (frame : List Nat) (h : frame.length ≤ 65536) : uncompress (0x5a :: frame) 65536 = some frame := by
  simp [uncompress, h]

theorem srv_recv_last {P : Par} (hP : P.Ok) {s : Srv} (hS : SStat P s) (hi : IdleImm (getUser s P.u)) {k : Nat}
    (hk : k < 36) {sl : Nat} (hA : Aged P (getUser s P.u) k sl)
    {Q : Query} {sq fr : Nat} {dsq dfr : Int} {frame : List Nat} {o m : Nat}
    (hQ : UpQ P Q ⟨sq, fr, dsq, dfr, true⟩ k (((0x5a :: frame).drop o).take m))
    (hE : Expect (getUser s P.u) (0x5a :: frame) sq o fr) (hsq : sq < 8) (hfr : fr < 16)
    (hm : o + m = (0x5a :: frame).length) (h64 : (0x5a :: frame).length ≤ 65536) (h24 : 24 ≤ frame.length)
    (hdst : ipDst frame ≠ (getUser s P.u).tunIp) (hsl : sl ≤ 21 := by omega) :
    ∃ s' evs t, iteration s (.q Q) s.now = (s', evs, t) ∧ downOfEvents evs = [] ∧
      tunOfSEvents evs = [[0, 0, 8, 0] ++ frame.drop 4] ∧ AfterLast P s s' Q sq fr := by
  have hf : Fresh P (getUser s P.u) k (0 + 1) := hA.fresh hk (by omega)
  obtain ⟨dlen, hdl, h6, hparse, hpl⟩ := hQ.parse
  have htop := topSess_live hS
  have hu := hS.solo.lt
  generalize hx0 : ({ getUser s P.u with qsNew := false } : Session) = x0 at htop
  have hx0s : XStat P x0 := by subst hx0; exact ⟨hS.x.active, hS.x.auth, hS.x.enabled, hS.x.conn, hS.x.enc, hS.x.oseq, hS.x.ofrag, hS.x.iseq, hS.x.ifrag⟩
  have hx0i : IdleImm x0 := by subst hx0; exact ⟨hi.out, hi.q, hi.qs, hi.lazy⟩
  have hx0f : Fresh P x0 k (0 + 1) := by subst hx0; exact ⟨hf.cache, hf.qmem⟩
  have hx0e : Expect x0 (0x5a :: frame) sq o fr := by subst hx0; exact hE
  have hx0o : x0.outpacket = (getUser s P.u).outpacket := by subst hx0; rfl
  have hx0h : x0.host = (getUser s P.u).host := by subst hx0; rfl
  have hx0t : x0.tunIp = (getUser s P.u).tunIp := by subst hx0; rfl
  have hx0g : x0.fragsize = (getUser s P.u).fragsize := by subst hx0; rfl
  have hx0c : x0.dnscache = (getUser s P.u).dnscache := by subst hx0; rfl
  have hx0m : x0.qmemdata = (getUser s P.u).qmemdata := by subst hx0; rfl
  obtain ⟨I, hup, hI⟩ := accept_of_expect hx0e hx0s.iseq
  obtain ⟨e1, e2, e3, e4, e5, _⟩ := expect_stored hP (sq := sq) (f := fr) hx0s.enc _ hpl hI (Nat.le_of_eq hm) h64
  generalize hst : stored x0 I ((Q.name.take (min dlen 512)).drop 5) = st at e1 e2 e3 e4 e5
  have hstc : core st = core { x0 with inpacket := st.inpacket } := by
    subst hst; unfold stored dataStore; rfl
  have hun : uncompress (st.inpacket.data.take st.inpacket.len) 65536 = some frame := by
    rw [e5, e4, hm, List.take_take, Nat.min_self, List.take_length]
    exact uncompress_compress frame (by simp at h64; omega)
  have hit := iteration_data hS.solo Q s.now dlen hP.hu (by rw [hS.td]; exact hdl) h6 hQ.c0 (hQ.ty ▸ hP.tty) hQ.id
    (admitted_entry hS Q hQ.from_)
    (by rw [htop]; exact hx0f.cacheMiss Q hQ.ty hQ.c0 hQ.c4 hk)
    (by rw [htop]; exact hx0f.qmemMiss Q hQ.ty hQ.c4 hk)
    (by rw [htop]; exact Or.inl hx0i.q) (by rw [htop]; exact Or.inl hx0i.qs)
    (by
      rw [htop, hparse]
      intro _
      rw [dataASess_accept x0 _ _ I hx0i.out hup, hst]
      intro ⟨out', h1, _, _, _, _, _, h7⟩
      rw [hun] at h1
      have : out' = frame := (Option.some.inj h1).symm
      subst this
      have : st.tunIp = x0.tunIp := by have h9 := core_tunIp hstc; exact h9
      rw [this, hx0t] at h7
      exact hdst h7)
  rw [htop, hparse, dataSess_imm_last x0 P.u Q _ _ s.now I hx0i rfl hup, hst] at hit
  simp only at hit
  have hfe : fullEvs st = [writeTun frame] := by
    unfold fullEvs
    rw [hun]
    simp only
    rw [if_pos (by omega)]
  generalize hY : parkQ (saveQ (fullSess st) Q s.now) = Y at hit
  have hYc : core Y = core { x0 with
      inpacket := { st.inpacket with len := 0, offset := 0 }, qs := Q, qsNew := true, q := { Q with id := 0 }, lastPkt := s.now } := by
    subst hY
    have := hstc
    unfold core at this ⊢
    unfold parkQ saveQ fullSess
    simp only [Session.mk.injEq] at this ⊢
    simp [this]
  have fA : Y.active = x0.active := by have h9 := core_active hYc; exact h9
  have fB : Y.authenticated = x0.authenticated := by have h9 := core_authenticated hYc; exact h9
  have fC : Y.disabled = x0.disabled := by have h9 := core_disabled hYc; exact h9
  have fD : Y.conn = x0.conn := by have h9 := core_conn hYc; exact h9
  have fE : Y.encoder = x0.encoder := by have h9 := core_encoder hYc; exact h9
  have fF : Y.outpacket = x0.outpacket := by have h9 := core_outpacket hYc; exact h9
  have fG : Y.inpacket = { st.inpacket with len := 0, offset := 0 } := by have h9 := core_inpacket hYc; exact h9
  have fH : Y.q = { Q with id := 0 } := by have h9 := core_q hYc; exact h9
  have fI : Y.qs = Q := by have h9 := core_qs hYc; exact h9
  have fJ : Y.lazy = x0.lazy := by have h9 := core_lazy hYc; exact h9
  have fK : Y.host = x0.host := by have h9 := core_host hYc; exact h9
  have fL : Y.lastPkt = s.now := by have h9 := core_lastPkt hYc; exact h9
  have fM : Y.qsNew = true := by have h9 := core_qsNew hYc; exact h9
  have fN : Y.dnscache = x0.dnscache := by subst hY; subst hst; rfl
  have fO : Y.qmemdata = x0.qmemdata := by subst hY; subst hst; rfl
  have fN2 : Y.dcLast = x0.dcLast := by subst hY; subst hst; rfl
  have fO2 : Y.qmemdataLast = x0.qmemdataLast := by subst hY; subst hst; rfl
  have fP : Y.qmemping = x0.qmemping := by subst hY; subst hst; rfl
  have fP2 : Y.qmempingLast = x0.qmempingLast := by subst hY; subst hst; rfl
  have fQ : Y.oqFilled = x0.oqFilled := by have h9 := core_oqFilled hYc; exact h9
  have fT : Y.tunIp = x0.tunIp := by have h9 := core_tunIp hYc; exact h9
  have fGz : Y.fragsize = x0.fragsize := by have h9 := core_fragsize hYc; exact h9
  have hx0q : x0.oqFilled = (getUser s P.u).oqFilled := by subst hx0; rfl
  have hsw : sweepSess Y P.u s.now = (Y, []) := by
    unfold sweepSess
    rw [if_neg (by intro hc; have := hc.2.2.2; rw [fM] at this; simp at this)]
  rw [hsw, hfe] at hit
  dsimp only at hit
  have hg : getUser { putUser s P.u Y with now := s.now } P.u = Y := by
    rw [getUser_withNow, getUser_putUser_self _ _ _ hu]
  refine ⟨_, _, _, hit, ?_, ?_, ?_⟩
  · rfl
  · rfl
  · refine ⟨?_, ?_, ?_, ?_, ?_, ?_, ?_, ?_, ?_, ?_, rfl, ?_, ?_, ?_, ?_, ?_, ?_⟩
    · refine ⟨(hS.solo.putUser Y).withNow _, hS.td, ?_, ?_, ?_⟩
      · rw [hg]
        refine ⟨fA ▸ hx0s.active, fB ▸ hx0s.auth, fC ▸ hx0s.enabled, fD ▸ hx0s.conn, fE ▸ hx0s.enc, fF ▸ hx0s.oseq, fF ▸ hx0s.ofrag, ?_, ?_⟩
        · rw [fG]; show 0 ≤ st.inpacket.seqno ∧ st.inpacket.seqno < 8; rw [e1]; omega
        · rw [fG]; show 0 ≤ st.inpacket.fragment ∧ st.inpacket.fragment < 16; rw [e2]; omega
      · rw [hg, fK, hx0h]; exact hS.host
      · rw [hg, fL]; show s.now < s.now + 60; omega
    · rw [hg, fH]
    · rw [hg, fI]
    · rw [hg, fJ]; exact hx0i.lazy
    · rw [hg, fF, hx0o]
    · rw [hg, fQ, hx0q]
    · rw [hg, fT, hx0t]
    · rw [hg, fGz, hx0g]
    · rw [hg, fG]; exact e1
    · rw [hg, fG]; exact e2
    · rw [hg, fN, hx0c]
    · rw [hg, fO, hx0m]
    · rw [hg, fN2]; subst hx0; rfl
    · rw [hg, fO2]; subst hx0; rfl
    · rw [hg, fP]; subst hx0; rfl
    · rw [hg, fP2]; subst hx0; rfl

/-- an iteration in which `select` times out -/
theorem iteration_tick {u : Nat} {s : Srv} (hs : Solo u s) (now' : Nat) :
    iteration s .tick now' =
      ({ putUser s u (sweepSess (topSess (getUser s u) s.now) u now').1 with now := now' },
       [Event.sweep] ++ (sweepSess (topSess (getUser s u) s.now) u now').2, ((topOfLoop s).2.1, (topOfLoop s).2.2)) := by
  have := iteration_solo hs .tick now' (topSess (getUser s u) s.now) [] (by intro f hf; cases hf) rfl
  simpa using this

/-- the sweep answers the parked query of the last fragment with a dataless packet -/
theorem srv_tick_ack {P : Par} (hP : P.Ok) {s : Srv} (hS : SStat P s) {Q : Query} {k : Nat} (hk : k < 36)
    {sl : Nat} (hA : Aged P (getUser s P.u) k sl) {sd sp : Nat} (hPA : PAged P (getUser s P.u) sd sp)
    (hq : (getUser s P.u).q.id = 0) (hqs : (getUser s P.u).qs = Q) (hlz : (getUser s P.u).lazy = false)
    (hout : (getUser s P.u).outpacket.len = 0)
    (hfrom : Q.from_ = clientAddr) (hid : Q.id ≠ 0) (hid2 : Q.id2 = 0)
    (h0 : Q.name.getD 0 0 = hexLower P.u) (h4 : Q.name.getD 4 0 = cmcChar k) (h5 : 5 ≤ Q.name.length)
    (hsl : 1 ≤ sl ∧ sl ≤ 21 := by omega) :
    ∃ s' evs tunsel, iteration s .tick s.now = (s', evs, (20000, tunsel)) ∧
      downOfEvents evs = [.ans Q.id Q.type Q.name (scPkt (getUser s P.u) 0)] ∧ tunOfSEvents evs = [] ∧
      SStat P s' ∧ IdleImm (getUser s' P.u) ∧ Aged P (getUser s' P.u) ((k + 1) % 36) sl ∧ PAged P (getUser s' P.u) sd sp ∧
      (getUser s' P.u).inpacket = (getUser s P.u).inpacket ∧ (getUser s' P.u).outpacket = (getUser s P.u).outpacket ∧
      (getUser s' P.u).oqFilled = (getUser s P.u).oqFilled ∧ (getUser s' P.u).tunIp = (getUser s P.u).tunIp ∧
      (getUser s' P.u).fragsize = (getUser s P.u).fragsize ∧ s'.now = s.now := by
  have htop := topSess_live hS
  have hu := hS.solo.lt
  have hit := iteration_tick hS.solo s.now
  have hto : (topOfLoop s).2.1 = 20000 := by
    rw [topOfLoop_timeout hS.solo]
    have : live (getUser s P.u) s.now = true := by simp [live, hS.x.active, hS.x.enabled, hS.live]
    rw [if_pos ⟨this, by rw [hqs]; exact hid⟩]
  rw [hto, htop] at hit
  generalize hx0 : ({ getUser s P.u with qsNew := false } : Session) = x0 at hit
  have hlive : live x0 s.now = true := by subst hx0; simp [live, hS.x.active, hS.x.enabled, hS.live]
  have hx0qs : x0.qs = Q := by subst hx0; exact hqs
  have hx0out : x0.outpacket = (getUser s P.u).outpacket := by subst hx0; rfl
  have hx0in : x0.inpacket = (getUser s P.u).inpacket := by subst hx0; rfl
  have hsw : sweepSess x0 P.u s.now =
      ({ cacheUpd (qmemUpd x0 Q) Q (scPkt x0 0) with qs := { Q with id := 0 } }, [writeDns Q (scPkt x0 0) x0.downenc (.chunk P.u)]) := by
    unfold sweepSess
    rw [if_pos ⟨hlive, by rw [hx0qs]; exact hid, by subst hx0; exact hS.x.conn, by subst hx0; rfl⟩]
    rw [scSess_dataless x0 P.u .qs (by rw [hx0out]; exact hout) (by show x0.qs.id2 = 0; rw [hx0qs]; exact hid2)]
    simp only [QSel.get, QSel.set, hx0qs]
  rw [hsw] at hit
  dsimp only at hit
  generalize hY : ({ cacheUpd (qmemUpd x0 Q) Q (scPkt x0 0) with qs := { Q with id := 0 } } : Session) = Y at hit
  have hYc : core Y = core { x0 with qs := { Q with id := 0 } } := by
    subst hY
    have := core_memo x0 Q (scPkt x0 0)
    unfold core at this ⊢
    simp only [Session.mk.injEq] at this ⊢
    simp [this]
  have hg : getUser { putUser s P.u Y with now := s.now } P.u = Y := by
    rw [getUser_withNow, getUser_putUser_self _ _ _ hu]
  have hpk : scPkt x0 0 = scPkt (getUser s P.u) 0 := by subst hx0; rfl
  have fA : Y.active = x0.active := by have h9 := core_active hYc; exact h9
  have fB : Y.authenticated = x0.authenticated := by have h9 := core_authenticated hYc; exact h9
  have fC : Y.disabled = x0.disabled := by have h9 := core_disabled hYc; exact h9
  have fD : Y.conn = x0.conn := by have h9 := core_conn hYc; exact h9
  have fE : Y.encoder = x0.encoder := by have h9 := core_encoder hYc; exact h9
  have fF : Y.outpacket = x0.outpacket := by have h9 := core_outpacket hYc; exact h9
  have fG : Y.inpacket = x0.inpacket := by have h9 := core_inpacket hYc; exact h9
  have fH : Y.q = x0.q := by have h9 := core_q hYc; exact h9
  have fI : Y.qs = { Q with id := 0 } := by have h9 := core_qs hYc; exact h9
  have fJ : Y.lazy = x0.lazy := by have h9 := core_lazy hYc; exact h9
  have fK : Y.host = x0.host := by have h9 := core_host hYc; exact h9
  have fL : Y.lastPkt = x0.lastPkt := by have h9 := core_lastPkt hYc; exact h9
  have fQ : Y.oqFilled = x0.oqFilled := by have h9 := core_oqFilled hYc; exact h9
  have fT : Y.tunIp = x0.tunIp := by have h9 := core_tunIp hYc; exact h9
  have fGz : Y.fragsize = x0.fragsize := by have h9 := core_fragsize hYc; exact h9
  refine ⟨_, _, _, hit, ?_, ?_, ?_, ?_, ?_, ?_, ?_, ?_, ?_, ?_, ?_, rfl⟩
  · simp only [downOfEvents_append, downOfEvents_sweep, downOfEvents_writeDns _ _ _ _ hfrom, List.nil_append, hpk]
  · simp only [tunOfSEvents_append, tunOfSEvents_writeDns, tunOfSEvents_sweep, List.append_nil]
  · refine ⟨(hS.solo.putUser Y).withNow _, hS.td, ?_, ?_, ?_⟩
    · rw [hg]
      subst hx0
      exact ⟨fA ▸ hS.x.active, fB ▸ hS.x.auth, fC ▸ hS.x.enabled, fD ▸ hS.x.conn, fE ▸ hS.x.enc, fF ▸ hS.x.oseq, fF ▸ hS.x.ofrag,
        fG ▸ hS.x.iseq, fG ▸ hS.x.ifrag⟩
    · rw [hg, fK]; subst hx0; exact hS.host
    · rw [hg, fL]; subst hx0; exact hS.live
  · rw [hg]
    refine ⟨?_, ?_, ?_, ?_⟩
    · rw [fF, hx0out]; exact hout
    · rw [fH]; subst hx0; exact hq
    · rw [fI]
    · rw [fJ]; subst hx0; exact hlz
  · rw [hg]
    subst hY
    have hxA : Aged P x0 k sl := by subst hx0; exact hA.congr rfl rfl rfl rfl
    have := (hxA.step hk (by omega)).memo Q (scPkt x0 0) (scPkt0_len x0) k 1 ⟨by omega, by omega⟩ (behind_next k hk) hk h4 h5
      (by rw [h0]; have := (hexLower_facts P.u hP.hu).2.2; constructor <;> (intro hc; apply this; rw [hc]; simp))
    exact this.congr rfl rfl rfl rfl
  · rw [hg]
    subst hY
    have hxP : PAged P x0 sd sp := by subst hx0; exact hPA.congr rfl rfl rfl rfl
    have := hxP.memo_data hP.hu Q (scPkt x0 0) (scPkt0_len x0) h5 h0
    exact this.congr rfl rfl rfl rfl
  · rw [hg, fG, hx0in]
  · rw [hg, fF, hx0out]
  · rw [hg, fQ]; subst hx0; rfl
  · rw [hg, fT]; subst hx0; rfl
  · rw [hg, fGz]; subst hx0; rfl

end Iodine.C02L
