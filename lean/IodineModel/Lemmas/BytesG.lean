import IodineModel.Lemmas.BytesF
/-
Helper lemmas for the byte-level server, part G: the DATA invariant through the handlers of iodined.c.
Every lemma: from `DataInv s` (and byte-valued arguments) the handler's result is `Good`: the invariant holds afterwards
and every `write_dns` among its events carries a byte string of 1..4096 bytes.
-/
namespace Iodine.BytesL
open Iodine Iodine.Server Iodine.Gen Iodine.C10

theorem good_nil {s : Srv} (h : DataInv s) : Good (s, []) := ⟨h, ansOK_nil⟩

theorem good_ite {c : Prop} [Decidable c] {a b : Res} (ha : Good a) (hb : Good b) : Good (if c then a else b) := by
  split <;> assumption

/-! ### send_chunk_or_dataless -/

theorem scDatalen_le (x : Session) : scDatalen x ≤ 4094 := by
  unfold scDatalen; split <;> omega

theorem scPkt_ok {x : Session} (hx : SessOK x) (n : Nat) (hn : n ≤ 4094) :
    IsBytes (scPkt x n) ∧ 2 ≤ (scPkt x n).length ∧ (scPkt x n).length ≤ 4096 := by
  unfold scPkt
  extract_lets last
  have hl : last < 2 := by simp only [last]; split <;> omega
  have a1 : (x.inpacket.seqno % 8).toNat < 8 := by omega
  have a2 : (x.inpacket.fragment % 16).toNat < 16 := by omega
  have a3 : (x.outpacket.seqno % 8).toNat < 8 := by omega
  have a4 : (x.outpacket.fragment % 16).toNat < 16 := by omega
  have b1 : 128 ||| ((x.inpacket.seqno % 8).toNat <<< 4) ||| (x.inpacket.fragment % 16).toNat < 2 ^ 8 :=
    Nat.or_lt_two_pow (Nat.or_lt_two_pow (by decide) (by rw [Nat.shiftLeft_eq]; omega)) (by omega)
  have b2 : ((x.outpacket.seqno % 8).toNat <<< 5) ||| ((x.outpacket.fragment % 16).toNat <<< 1) ||| last < 2 ^ 8 :=
    Nat.or_lt_two_pow (Nat.or_lt_two_pow (by rw [Nat.shiftLeft_eq]; omega) (by rw [Nat.shiftLeft_eq]; omega)) (by omega)
  refine ⟨?_, ?_, ?_⟩
  · rw [isBytes_append]
    exact ⟨isBytes_cons.2 ⟨b1, isBytes_cons.2 ⟨b2, isBytes_nil⟩⟩, isBytes_take _ (isBytes_drop _ hx.out)⟩
  · simp
  · simp only [List.length_append, List.length_cons, List.length_nil, List.length_take]
    omega

theorem ansOK_scAnswer (q : Query) (pkt : List Nat) (dn u : Nat)
    (h : IsBytes pkt ∧ 2 ≤ pkt.length ∧ pkt.length ≤ 4096) : AnsOK (scAnswer q pkt dn u).2 := by
  unfold scAnswer
  split
  · exact ansOK_append (a := [_]) (ansOK_writeDns _ _ _ _ h.1 (Or.inl h.2.1) h.2.2) (ansOK_writeDns _ _ _ _ h.1 (Or.inl h.2.1) h.2.2)
  · exact ansOK_writeDns _ _ _ _ h.1 (Or.inl h.2.1) h.2.2

theorem sessOK_qset {x : Session} (hx : SessOK x) (w : QSel) (q : Query) : SessOK (w.set x q) := by
  cases w <;> exact ⟨hx.out, hx.inp, hx.oq, hx.dc⟩

theorem good_sc {s : Srv} (h : DataInv s) (u : Nat) (w : QSel) : Good (sendChunkOrDataless s u w).1 := by
  unfold sendChunkOrDataless
  extract_lets s1 x datalen pkt a s2 s3 src s4 r
  have h1 : DataInv s1 := inv_scPrepare (inv_scDropResent h u) u
  have hx : SessOK x := sessOK_getUser h1 u
  have hp := scPkt_ok hx datalen (scDatalen_le x)
  have h2 : DataInv s2 := inv_saveToQmemPingOrData h1 u _
  have h3 : DataInv s3 := inv_saveToDnscache h2 u _ pkt hp.1 hp.2.1
  have h4 : DataInv s4 := dataInv_setUser h3 _ _ fun y hy => sessOK_qset hy w _
  have ha : AnsOK a.2 := ansOK_scAnswer _ pkt _ u hp
  split
  · refine ⟨?_, ha⟩
    show DataInv r.1
    apply inv_getFromOutpacketq
    apply dataInv_setUser h4
    intro y hy
    exact sessOK_dropOut hy
  · exact ⟨h4, ha⟩

theorem good_sendWaiting {s : Srv} (h : DataInv s) (u : Nat) : Good (sendWaiting s u) := by
  unfold sendWaiting
  extract_lets x
  split
  · exact good_sc h u .qs
  · split
    · exact good_sc h u .q
    · exact good_nil h

/-! ### tun and forwarding -/

theorem good_tunnelTun {s : Srv} (h : DataInv s) (frame : List Nat) (hf : IsBytes frame) : Good (tunnelTun s frame) := by
  unfold tunnelTun
  split
  · exact good_nil h
  · split
    · exact good_nil h
    · split
      · exact good_nil h
      · rename_i u _
        extract_lets out x
        have ho : IsBytes out := isBytes_cons.2 ⟨by decide, hf⟩
        split
        · split
          · exact ⟨inv_saveToOutpacketq h u out _ ho, ansOK_nil⟩
          · exact good_sendWaiting (inv_startNewOutpacket h u out _ ho) u
        · exact ⟨h, ansOK_sendRaw _ _ _ _ _⟩

theorem good_deliverToUser {s : Srv} (h : DataInv s) (t : Nat) (d : List Nat) (n : Nat) (hd : IsBytes d) :
    Good (deliverToUser s t d n) := by
  unfold deliverToUser
  extract_lets y
  split
  · split
    · exact good_sendWaiting (inv_startNewOutpacket h t d n hd) t
    · exact ⟨inv_saveToOutpacketq h t d n hd, ansOK_nil⟩
  · exact ⟨h, ansOK_sendRaw _ _ _ _ _⟩

theorem ansOK_writeTun (o : List Nat) : AnsOK [writeTun o] := by
  apply ansOK_noans; intro e he; simp only [List.mem_singleton] at he; subst he; intros; simp [writeTun]

theorem good_handleFullPacket {s : Srv} (h : DataInv s) (u : Nat) : Good (handleFullPacket s u) := by
  unfold handleFullPacket
  extract_lets x r
  have hx : SessOK x := sessOK_getUser h u
  have hr : Good r := by
    simp only [r]
    split
    · split
      · split
        · exact ⟨h, ansOK_writeTun _⟩
        · exact good_deliverToUser h _ _ _ hx.inp
      · exact good_nil h
    · exact good_nil h
  refine ⟨?_, hr.2⟩
  exact dataInv_setUser hr.1 _ _ fun y hy => ⟨hy.out, hy.inp, hy.oq, hy.dc⟩

/-! ### control requests -/

theorem ansOK_version (s : Srv) (k : VersionAck) (p u : Nat) (q : Query) : AnsOK [sendVersionResponse s k p u q] := by
  unfold sendVersionResponse
  extract_lets tag
  have ht : IsBytes tag ∧ tag.length = 4 := by
    simp only [tag]; cases k <;> decide
  apply ansOK_writeDns
  · rw [isBytes_append, isBytes_append]
    exact ⟨⟨ht.1, beBytes_bytes _ _⟩, isBytes_cons.2 ⟨Nat.mod_lt _ (by decide), isBytes_nil⟩⟩
  · left; simp [beBytes_length, ht.2]
  · simp [beBytes_length, ht.2]

theorem good_handleVersion {s : Srv} (h : DataInv s) (q : Query) (inb : List Nat) : Good (handleVersion s q inb) := by
  unfold handleVersion
  extract_lets unpacked version
  split
  · split
    · rename_i u s1 hf
      extract_lets r s2
      have h1 : DataInv s1 := by
        have := inv_findAvailableUser h
        rw [hf] at this; exact this
      have h2 : DataInv s2 := dataInv_setUser (inv_popRand h1) _ _ fun x hx => ⟨hx.out, hx.inp, hx.oq, hx.dc⟩
      exact ⟨dataInv_setUser h2 _ _ fun x hx => sessOK_resetSession hx, ansOK_version _ _ _ _ _⟩
    · rename_i s1 hf
      have h1 : DataInv s1 := by
        have := inv_findAvailableUser h
        rw [hf] at this; exact this
      exact ⟨h1, ansOK_version _ _ _ _ _⟩
  · exact ⟨h, ansOK_version _ _ _ _ _⟩

/-- what iodined's `main` guarantees about the numbers in the login reply: `mtu > 0` (an `int`), netmask 8..30 bits -/
def CfgBound (cfg : Config) : Prop := 0 < cfg.mtu ∧ cfg.mtu < 2 ^ 31 ∧ cfg.netmask ≤ 30

theorem loginReply_ok (cfg : Config) (hc : CfgBound cfg) (tunIp : Nat) :
    let out := ipStr cfg.myIp ++ [45] ++ ipStr tunIp ++ [45] ++ ascii (toString cfg.mtu) ++ [45] ++ ascii (toString cfg.netmask)
    IsBytes out ∧ 2 ≤ out.length ∧ out.length ≤ 4096 := by
  intro out
  obtain ⟨n, hn⟩ : ∃ n : Nat, cfg.mtu = (n : Int) := ⟨cfg.mtu.toNat, by have := hc.1; omega⟩
  have hn31 : n < 10 ^ 10 := by have := hc.2.1; rw [hn] at this; omega
  have i1 := ipStr_ok cfg.myIp
  have i2 := ipStr_ok tunIp
  have m1 := natStr_ok n 10 (by decide) hn31
  have m2 := natStr_ok cfg.netmask 2 (by decide) (by have := hc.2.2; omega)
  have e1 : ascii (toString cfg.mtu) = n.repr.toList.map Char.toNat := by rw [hn]; rfl
  have e2 : ascii (toString cfg.netmask) = cfg.netmask.repr.toList.map Char.toNat := rfl
  simp only [out, e1, e2, isBytes_append, List.length_append, List.length_cons, List.length_nil]
  have h45 : IsBytes [45] := by decide
  exact ⟨⟨⟨⟨⟨⟨⟨i1.1, h45⟩, i2.1⟩, h45⟩, m1.1⟩, h45⟩, m2.1⟩, by omega, by omega⟩

theorem good_handleLogin {s : Srv} (h : DataInv s) (hc : CfgBound s.cfg) (q : Query) (inb : List Nat) :
    Good (handleLogin s q inb) := by
  unfold handleLogin
  extract_lets unpacked userid u s1 x logindata out
  split
  · exact ⟨h, ansOK_const q "BADLEN" chT .ctrl⟩
  · split
    · exact ⟨h, ansOK_const q "BADIP" chT .ctrl⟩
    · have h1 : DataInv s1 := dataInv_setUser h _ _ fun y hy => ⟨hy.out, hy.inp, hy.oq, hy.dc⟩
      split
      · have ho := loginReply_ok s.cfg hc x.tunIp
        exact ⟨dataInv_setUser h1 _ _ fun y hy => ⟨hy.out, hy.inp, hy.oq, hy.dc⟩,
          ansOK_writeDns _ _ _ _ ho.1 (Or.inl ho.2.1) ho.2.2⟩
      · exact ⟨h1, ansOK_const q "LNAK" chT .ctrl⟩

theorem good_handleIp {s : Srv} (h : DataInv s) (q : Query) (inb : List Nat) : Good (handleIp s q inb) := by
  unfold handleIp
  extract_lets userid addr
  split
  · exact ⟨h, ansOK_const q "BADIP" chT .ctrl⟩
  · have ha : IsBytes addr ∧ addr.length ≤ 16 := by
      simp only [addr]
      split
      · split <;> exact ⟨beBytes_bytes _ _, by simp [beBytes_length]⟩
      · exact ⟨beBytes_bytes _ _, by simp [beBytes_length]⟩
    have ha4 : 4 ≤ addr.length := by
      simp only [addr]
      split
      · split <;> simp [beBytes_length]
      · simp [beBytes_length]
    refine ⟨h, ansOK_writeDns _ _ _ _ (isBytes_cons.2 ⟨by decide, ha.1⟩) (Or.inl (by simp; omega)) (by simp; omega)⟩

theorem good_handleZ {s : Srv} (h : DataInv s) (q : Query) (inb : List Nat) (hb : IsBytes inb) (h1 : 2 ≤ inb.length)
    (h2 : inb.length ≤ 4096) : Good (handleZ s q inb) :=
  ⟨h, ansOK_writeDns _ _ _ _ hb (Or.inl h1) h2⟩

theorem cname_ok (e : Enc) : IsBytes e.cname ∧ 2 ≤ e.cname.length ∧ e.cname.length ≤ 4096 := by
  cases e <;> decide

theorem good_handleSwitchCodec {s : Srv} (h : DataInv s) (q : Query) (dlen : Nat) (inb : List Nat) :
    Good (handleSwitchCodec s q dlen inb) := by
  unfold handleSwitchCodec
  split
  · exact ⟨h, ansOK_const q "BADLEN" chT .ctrl⟩
  · extract_lets userid u dn codec sw
    split
    · exact ⟨h, ansOK_const q "BADIP" chT .ctrl⟩
    · have hsw : ∀ e, Good (sw e) := fun e =>
        ⟨inv_userSwitchCodec h u e, ansOK_writeDns _ _ _ _ (cname_ok e).1 (Or.inl (cname_ok e).2.1) (cname_ok e).2.2⟩
      split
      · exact hsw _
      · split
        · exact hsw _
        · split
          · exact hsw _
          · split
            · exact hsw _
            · exact ⟨h, ansOK_const q "BADCODEC" dn .ctrl⟩

theorem good_handleOptions {s : Srv} (h : DataInv s) (q : Query) (dlen : Nat) (inb : List Nat) :
    Good (handleOptions s q dlen inb) := by
  unfold handleOptions
  split
  · exact ⟨h, ansOK_const q "BADLEN" chT .ctrl⟩
  · extract_lets userid u c setDn setLazy
    split
    · exact ⟨h, ansOK_const q "BADIP" chT .ctrl⟩
    · have hs : ∀ y : Session, SessOK y → ∀ d, SessOK { y with downenc := d } := fun y hy d => ⟨hy.out, hy.inp, hy.oq, hy.dc⟩
      have hl : ∀ y : Session, SessOK y → ∀ d, SessOK { y with lazy := d } := fun y hy d => ⟨hy.out, hy.inp, hy.oq, hy.dc⟩
      split
      · exact ⟨dataInv_setUser h _ _ fun y hy => hs y hy _, ansOK_const q "Base32" _ .ctrl⟩
      · split
        · exact ⟨dataInv_setUser h _ _ fun y hy => hs y hy _, ansOK_const q "Base64" _ .ctrl⟩
        · split
          · exact ⟨dataInv_setUser h _ _ fun y hy => hs y hy _, ansOK_const q "Base64u" _ .ctrl⟩
          · split
            · exact ⟨dataInv_setUser h _ _ fun y hy => hs y hy _, ansOK_const q "Base128" _ .ctrl⟩
            · split
              · exact ⟨dataInv_setUser h _ _ fun y hy => hs y hy _, ansOK_const q "Raw" _ .ctrl⟩
              · split
                · exact ⟨dataInv_setUser h _ _ fun y hy => hl y hy _, ansOK_const q "Lazy" _ .ctrl⟩
                · split
                  · exact ⟨dataInv_setUser h _ _ fun y hy => hl y hy _, ansOK_const q "Immediate" _ .ctrl⟩
                  · exact ⟨h, ansOK_const q "BADCODEC" _ .ctrl⟩

theorem good_handleDownCodecCheck {s : Srv} (h : DataInv s) (q : Query) (dlen : Nat) (inb : List Nat) :
    Good (handleDownCodecCheck s q dlen inb) := by
  unfold handleDownCodecCheck
  split
  · exact ⟨h, ansOK_const q "BADLEN" chT .ctrl⟩
  · split
    · exact ⟨h, ansOK_const q "BADLEN" chT .ctrl⟩
    · extract_lets c named rawOk dn
      clear_value dn
      cases dn
      · exact ⟨h, ansOK_const q "BADCODEC" chT .ctrl⟩
      · exact ⟨h, ansOK_writeDns _ _ _ _ (by decide) (Or.inl (by decide)) (by decide)⟩

theorem probeBytes_ok (size v : Nat) (h2 : 2 ≤ size) (h : size ≤ 2047) :
    IsBytes (probeBytes size v) ∧ 2 ≤ (probeBytes size v).length ∧ (probeBytes size v).length ≤ 4096 := by
  unfold probeBytes
  refine ⟨isBytes_take _ ?_, ?_, ?_⟩
  · rw [isBytes_append]
    refine ⟨?_, ?_⟩
    · intro b hb
      simp only [List.mem_cons, List.not_mem_nil, or_false] at hb
      rcases hb with rfl | rfl | rfl <;> omega
    · intro b hb
      simp only [List.mem_map] at hb
      obtain ⟨i, _, rfl⟩ := hb
      exact Nat.mod_lt _ (by decide)
  · simp; omega
  · simp; omega

theorem good_handleFragsizeProbe {s : Srv} (h : DataInv s) (q : Query) (dlen : Nat) (inb : List Nat) :
    Good (handleFragsizeProbe s q dlen inb) := by
  unfold handleFragsizeProbe
  split
  · exact ⟨h, ansOK_const q "BADLEN" chT .ctrl⟩
  · extract_lets b1 userid u req r
    split
    · exact ⟨h, ansOK_const q "BADIP" chT .ctrl⟩
    · split
      · exact ⟨h, ansOK_const q "BADFRAG" _ .ctrl⟩
      · rename_i hreq
        have hp := probeBytes_ok req (r.1 % 256) (by omega) (by omega)
        exact ⟨inv_popRand h, ansOK_writeDns _ _ _ _ hp.1 (Or.inl hp.2.1) hp.2.2⟩

theorem good_handleSetFragsize {s : Srv} (h : DataInv s) (q : Query) (inb : List Nat) :
    Good (handleSetFragsize s q inb) := by
  unfold handleSetFragsize
  extract_lets unpacked userid u maxFrag
  split
  · exact ⟨h, ansOK_const q "BADLEN" chT .ctrl⟩
  · rename_i hlen
    split
    · exact ⟨h, ansOK_const q "BADIP" chT .ctrl⟩
    · split
      · exact ⟨h, ansOK_const q "BADFRAG" _ .ctrl⟩
      · refine ⟨dataInv_setUser h _ _ fun y hy => ⟨hy.out, hy.inp, hy.oq, dc_clear hy.dc⟩, ?_⟩
        apply ansOK_writeDns
        · exact isBytes_take _ (isBytes_drop _ (unpackData_bytes _ _ _))
        · left; simp only [List.length_take, List.length_drop]; omega
        · simp only [List.length_take, List.length_drop]; omega

/-! ### ping and data -/

theorem ansOK_cached {s : Srv} (h : DataInv s) (u : Nat) (q : Query) (e : Event) (he : answerFromDnscache s u q = some e) :
    AnsOK [e] := by
  unfold answerFromDnscache at he
  extract_lets x at he
  have hx : SessOK x := sessOK_getUser h u
  split at he
  · rename_i ce hf
    cases he
    -- the entry found is a cache entry with `answerlen ≠ 0`
    have key : ∀ n i, dnscacheFind x q n i = some ce → (ce ∈ x.dnscache ∨ ce = DnsCacheEntry.zero) ∧ ce.answerlen ≠ 0 := by
      intro n
      induction n with
      | zero => intro i hi; simp [dnscacheFind] at hi
      | succ n ih =>
        intro i hi
        unfold dnscacheFind at hi
        extract_lets use e0 at hi
        split at hi
        · exact ih _ hi
        · split at hi
          · exact ih _ hi
          · rename_i hal
            split at hi
            · exact ih _ hi
            · have hce : e0 = ce := Option.some.inj hi
              rw [← hce]
              refine ⟨?_, hal⟩
              simp only [e0]
              rw [List.getD_eq_getElem?_getD]
              cases hg : x.dnscache[use]? with
              | none => exact Or.inr rfl
              | some c0 => exact Or.inl (List.mem_of_getElem? hg)
    obtain ⟨hm, hal⟩ := key _ _ hf
    rcases hm with hm | rfl
    · obtain ⟨hb, hle, h4, h02⟩ := hx.dc ce hm
      apply ansOK_writeDns
      · exact isBytes_take _ hb
      · left; simp only [List.length_take]; omega
      · simp only [List.length_take]; omega
    · exact absurd rfl hal
  · cases he

theorem ansOK_qmem (q : Query) (mem : List QmemEntry) (cmc : List Nat) (u : Nat) (e : Event)
    (he : answerFromQmem q mem cmc u = some e) : AnsOK [e] := by
  unfold answerFromQmem at he
  split at he
  · cases he; exact ansOK_const q "x" chT (.qmem u)
  · cases he

theorem good_pingFresh {s : Srv} (h : DataInv s) (u : Nat) (q : Query) (unpacked : List Nat) :
    Good (pingFresh s u q unpacked) := by
  unfold pingFresh
  extract_lets b s1 r1 t r2 didsend s3 x r3
  have h1 : DataInv s1 := inv_processDownstreamAck h u _ _
  clear_value s1
  have g1 : Good r1 := by
    simp only [r1]
    split
    · exact good_sc h1 u .qs
    · exact good_nil h1
  clear_value r1
  have g2 : Good r2.1 := by
    simp only [r2, t]
    split
    · dsimp only
      exact good_sc g1.1 u .q
    · exact good_nil g1.1
  clear_value r2 t
  have h3 : DataInv s3 := inv_saveQuery g2.1 u q
  clear_value s3
  have g3 : Good r3 := by
    simp only [r3]
    split
    · exact good_sc h3 u .q
    · exact good_nil h3
  clear_value r3
  exact ⟨g3.1, ansOK_append (ansOK_append g1.2 g2.2) g3.2⟩

theorem good_handlePing {s : Srv} (h : DataInv s) (q : Query) (inb : List Nat) : Good (handlePing s q inb) := by
  unfold handlePing
  split
  · exact good_nil h
  · extract_lets unpacked userid u
    split
    · exact good_nil h
    · split
      · exact ⟨h, ansOK_const q "BADIP" chT .ctrl⟩
      · split
        · rename_i e he; exact ⟨h, ansOK_cached h _ q e he⟩
        · split
          · rename_i e he; exact ⟨h, ansOK_qmem _ _ _ _ e he⟩
          · split
            · rename_i s' hd; exact good_nil (inv_rememberDuplicate h _ q hd)
            · exact good_pingFresh h _ q _

theorem good_dataStepQs {s : Srv} (h : DataInv s) (u : Nat) : Good (dataStepQs s u).1 := by
  unfold dataStepQs
  split
  · exact good_sc h u .qs
  · exact good_nil h

theorem good_dataStepQ {s : Srv} (h : DataInv s) (u : Nat) (a b c : Bool) : Good (dataStepQ s u a b c).1 := by
  unfold dataStepQ
  extract_lets x
  split
  · split
    · exact good_sc h u .q
    · exact good_nil (dataInv_setUser h _ _ fun y hy => ⟨hy.out, hy.inp, hy.oq, hy.dc⟩)
  · exact good_nil h

theorem good_dataStepFinal {s : Srv} (h : DataInv s) (u : Nat) (a b c : Bool) : Good (dataStepFinal s u a b c) := by
  unfold dataStepFinal
  extract_lets x
  split
  · exact good_sc h u .q
  · split
    · split
      · exact good_nil (dataInv_setUser h _ _ fun y hy => ⟨hy.out, hy.inp, hy.oq, hy.dc⟩)
      · exact good_sc h u .q
    · exact good_nil h

theorem good_dataFresh {s : Srv} (h : DataInv s) (u : Nat) (q : Query) (inb : List Nat) : Good (dataFresh s u q inb) := by
  unfold dataFresh
  extract_lets b1 b2 b3 upSeq upFrag dnSeq dnFrag lastfrag s1 up upstreamOk s2 r3 r4 r5 s6 r7
  have h1 : DataInv s1 := inv_processDownstreamAck h u _ _
  have hup : SessOK up.1 := sessOK_dataUpstream (sessOK_getUser h1 u) _ _
  have h2 : DataInv s2 := by
    apply dataInv_setUser h1
    intro _ _
    split
    · exact sessOK_dataStore hup _
    · exact hup
  have g3 : Good r3 := good_ite (good_handleFullPacket h2 u) (good_nil h2)
  have g4 : Good r4.1 := good_dataStepQs g3.1 u
  have g5 : Good r5.1 := good_dataStepQ g4.1 u _ _ _
  have h6 : DataInv s6 := inv_saveQuery g5.1 u q
  have g7 : Good r7 := good_dataStepFinal h6 u _ _ _
  exact ⟨g7.1, ansOK_append (ansOK_append (ansOK_append g3.2 g4.2) g5.2) g7.2⟩

theorem good_handleData {s : Srv} (h : DataInv s) (q : Query) (dlen : Nat) (inb : List Nat) : Good (handleData s q dlen inb) := by
  unfold handleData
  split
  · exact good_nil h
  · split
    · exact good_nil h
    · extract_lets userid u
      split
      · exact ⟨h, ansOK_const q "BADIP" chT .ctrl⟩
      · split
        · rename_i e he; exact ⟨h, ansOK_cached h _ q e he⟩
        · split
          · rename_i e he; exact ⟨h, ansOK_qmem _ _ _ _ e he⟩
          · split
            · rename_i s' hd; exact good_nil (inv_rememberDuplicate h _ q hd)
            · exact good_dataFresh h _ q _

theorem good_ite' {c : Prop} [Decidable c] {a b : Res} (ha : c → Good a) (hb : ¬ c → Good b) : Good (if c then a else b) := by
  split
  · exact ha ‹_›
  · exact hb ‹_›

theorem good_handleNullRequest {s : Srv} (h : DataInv s) (hc : CfgBound s.cfg) (q : Query) (dlen : Nat)
    (hq : IsBytes q.name) (hne : dlen ≤ q.name.length) (hl : q.name.length ≤ 255) : Good (handleNullRequest s q dlen) := by
  unfold handleNullRequest
  extract_lets inb c
  apply good_ite' (fun _ => good_nil h)
  intro hd
  have hinb : IsBytes inb ∧ 2 ≤ inb.length ∧ inb.length ≤ 4096 := by
    simp only [inb]
    refine ⟨isBytes_take _ hq, ?_, ?_⟩ <;> simp only [List.length_take] <;> omega
  clear_value c inb
  apply good_ite (good_handleVersion h q inb)
  apply good_ite (good_handleLogin h hc q inb)
  apply good_ite (good_handleIp h q inb)
  apply good_ite (good_handleZ h q inb hinb.1 hinb.2.1 hinb.2.2)
  apply good_ite (good_handleSwitchCodec h q dlen inb)
  apply good_ite (good_handleOptions h q dlen inb)
  apply good_ite (good_handleDownCodecCheck h q dlen inb)
  apply good_ite (good_handleFragsizeProbe h q dlen inb)
  apply good_ite (good_handleSetFragsize h q inb)
  apply good_ite (good_handlePing h q inb)
  apply good_ite (good_handleData h q dlen inb)
  exact good_nil h

end Iodine.BytesL
