import IodineModel.Lemmas.C02R4
/-
RAW UDP mode: either-case forms of the packet theorems, sequences of packets, the passing of time, and non-vacuity on
`World.demoRaw`.
-/
namespace Iodine.C02L
open Iodine Iodine.Gen Iodine.World

/-! ### one packet, keepalive due or not -/

/-- what a frame must satisfy to be carried upstream in one raw datagram and be written to the server's tun device: an IP
packet (4-byte tun header + 20-byte IP header at least), at most 4091 bytes (compressed: 4092, what `send_raw` sends at
most), not addressed to the client's own tunnel address -/
structure RawUpOk (tunIp : Nat) (f : List Nat) : Prop where
  h24 : 24 ≤ f.length
  hlen : f.length + 1 ≤ 4092
  dst : Server.ipDst f ≠ tunIp

/-- … downstream: addressed to the client's tunnel address -/
structure RawDownOk (tunIp : Nat) (f : List Nat) : Prop where
  h24 : 24 ≤ f.length
  hlen : f.length + 1 ≤ 4092
  dst : Server.ipDst f = tunIp

/-- **One packet upstream, raw mode** (keepalive due or not): delivered exactly once within three steps of the prompt
schedule; the server has heard from the client, and if the keepalive was due so has the client from the server. -/
theorem raw_up_any {u : Nat} {w : W} (hq : QuietRaw u w) (hsel : 0 < w.cs.c.selecttimeout) (f : List Nat)
    (hok : RawUpOk (Server.getUser w.srv u).tunIp f) :
    ∃ k w', k ≤ 3 ∧ promptSteps u k (step w (.offerC f)) = some w' ∧ QuietRaw u w' ∧
      w'.tunS = w.tunS ++ [tunImage f] ∧ w'.tunC = w.tunC ∧ RawKept u w w' ∧
      (Server.getUser w'.srv u).lastPkt = w'.srv.now ∧
      (kaDue w.cs.c → w'.cs.c.lastdownstreamtime = w'.cs.c.now) := by
  by_cases hd : kaDue w.cs.c
  · obtain ⟨w', h1, h2, h3, h4, h5, h6, h7, _⟩ := raw_up_keepalive hq f hok.h24 hok.hlen hok.dst hd hsel
    exact ⟨3, w', Nat.le_refl _, h1, h2, h3, h4, h5, h6, fun _ => h7⟩
  · obtain ⟨w', h1, h2, h3, h4, h5, h6, _, _⟩ := raw_up hq f hok.h24 hok.hlen hok.dst hd
    exact ⟨1, w', by omega, h1, h2, h3, h4, h5, h6, fun h => absurd h hd⟩

/-- **One packet downstream, raw mode** (keepalive due or not): delivered exactly once within three steps; the client
has heard from the server, and if the keepalive was due so has the server from the client. -/
theorem raw_down_any {u : Nat} {w : W} (hq : QuietRaw u w) (hsel : 0 < w.cs.c.selecttimeout) (f : List Nat)
    (hok : RawDownOk (Server.getUser w.srv u).tunIp f) :
    ∃ k w', k ≤ 3 ∧ promptSteps u k (step w (.offerS f)) = some w' ∧ QuietRaw u w' ∧
      w'.tunC = w.tunC ++ [tunImage f] ∧ w'.tunS = w.tunS ∧ RawKept u w w' ∧
      w'.cs.c.lastdownstreamtime = w'.cs.c.now ∧
      (kaDue w.cs.c → (Server.getUser w'.srv u).lastPkt = w'.srv.now) := by
  by_cases hd : kaDue w.cs.c
  · obtain ⟨w', h1, h2, h3, h4, h5, h6, h7, _⟩ := raw_down_keepalive hq f hok.h24 hok.hlen hok.dst hd hsel
    exact ⟨3, w', Nat.le_refl _, h1, h2, h3, h4, h5, h6, fun _ => h7⟩
  · obtain ⟨w', h1, h2, h3, h4, h5, h6, _, _⟩ := raw_down hq f hok.h24 hok.hlen hok.dst hd
    exact ⟨1, w', by omega, h1, h2, h3, h4, h5, h6, fun h => absurd h hd⟩

/-! ### sequences of packets -/

/-- **A sequence of packets upstream, raw mode**: each frame is offered after the previous one was delivered; all of
them arrive at the server's tun device exactly once, in order; quiescent again. -/
theorem up_sequence_raw {u : Nat} (fuel : Nat) (hfuel : 3 ≤ fuel) :
    ∀ (frames : List (List Nat)) (w : W), QuietRaw u w → 0 < w.cs.c.selecttimeout →
      (∀ f ∈ frames, RawUpOk (Server.getUser w.srv u).tunIp f) →
      QuietRaw u (offerAllC u fuel w frames) ∧
      (offerAllC u fuel w frames).tunS = w.tunS ++ frames.map tunImage ∧
      (offerAllC u fuel w frames).tunC = w.tunC := by
  intro frames
  induction frames with
  | nil => intro w hq _ _; exact ⟨hq, by simp [offerAllC], rfl⟩
  | cons f fs ih =>
    intro w hq hsel hok
    obtain ⟨k, w', hk, h1, h2, h3, h4, h5, _, _⟩ := raw_up_any hq hsel f (hok f List.mem_cons_self)
    have hrun : runPrompt u fuel (step w (.offerC f)) = w' := runPrompt_of_steps u _ _ _ h1 h2.quiet fuel (by omega)
    have := ih w' h2 (by rw [h5.selto]; exact hsel) (fun g hg => by rw [h5.tunIp]; exact hok g (List.mem_cons_of_mem _ hg))
    unfold offerAllC
    rw [hrun]
    refine ⟨this.1, ?_, ?_⟩
    · rw [this.2.1, h3]; simp
    · rw [this.2.2, h4]

/-- **A sequence of packets downstream, raw mode.** -/
theorem down_sequence_raw {u : Nat} (fuel : Nat) (hfuel : 3 ≤ fuel) :
    ∀ (frames : List (List Nat)) (w : W), QuietRaw u w → 0 < w.cs.c.selecttimeout →
      (∀ f ∈ frames, RawDownOk (Server.getUser w.srv u).tunIp f) →
      QuietRaw u (offerAllS u fuel w frames) ∧
      (offerAllS u fuel w frames).tunC = w.tunC ++ frames.map tunImage ∧
      (offerAllS u fuel w frames).tunS = w.tunS := by
  intro frames
  induction frames with
  | nil => intro w hq _ _; exact ⟨hq, by simp [offerAllS], rfl⟩
  | cons f fs ih =>
    intro w hq hsel hok
    obtain ⟨k, w', hk, h1, h2, h3, h4, h5, _, _⟩ := raw_down_any hq hsel f (hok f List.mem_cons_self)
    have hrun : runPrompt u fuel (step w (.offerS f)) = w' := runPrompt_of_steps u _ _ _ h1 h2.quiet fuel (by omega)
    have := ih w' h2 (by rw [h5.selto]; exact hsel) (fun g hg => by rw [h5.tunIp]; exact hok g (List.mem_cons_of_mem _ hg))
    unfold offerAllS
    rw [hrun]
    refine ⟨this.1, ?_, ?_⟩
    · rw [this.2.1, h3]; simp
    · rw [this.2.2, h4]

/-! ### time passes -/

/-- `dt` seconds pass on a quiescent raw-mode state without either 60 s limit being reached: still quiescent -/
theorem QuietRaw.advance {u : Nat} {w : W} (hq : QuietRaw u w) (dt : Nat)
    (hc : ¬ w.cs.c.lastdownstreamtime + 60 < w.cs.c.now + dt)
    (hs : w.srv.now + dt < (Server.getUser w.srv u).lastPkt + 60) :
    QuietRaw u (step w (.advance dt)) := by
  have hi := hq.inv
  have hx := hi.srv.slot
  refine ⟨⟨hi.ph, hi.u16, ⟨hi.cli.running, hi.cli.conn, hi.cli.uid, hc, hi.cli.idle⟩,
    ⟨hi.srv.solo.withNow _, ?_, hi.srv.ip⟩⟩, hq.up, hq.down⟩
  exact ⟨hx.active, hx.auth, hx.authRaw, hx.enabled, hx.conn, hs, hx.qfrom, hx.qid, hx.qsid, hx.out, hx.oq, hx.imm⟩

/-- **One-directional traffic keeps a raw session alive.**  Upstream frames only, the first one offered when the keepalive
is due: afterwards the client's `lastdownstreamtime` is the current time, so a further 60 s may pass before
`client_tunnel` would give up (without the keepalive in front of the handlers nothing would ever refresh it: `raw_up`
leaves `lastdownstreamtime` unchanged). -/
theorem raw_up_keeps_alive {u : Nat} {w : W} (hq : QuietRaw u w) (hsel : 0 < w.cs.c.selecttimeout) (f : List Nat)
    (hok : RawUpOk (Server.getUser w.srv u).tunIp f) (hd : kaDue w.cs.c) (dt : Nat) (hdt : dt < 60) :
    ∃ w', promptSteps u 3 (step w (.offerC f)) = some w' ∧ QuietRaw u (step w' (.advance dt)) ∧
      w'.tunS = w.tunS ++ [tunImage f] := by
  obtain ⟨w', h1, h2, h3, _, _, h6, h7, _⟩ := raw_up_keepalive hq f hok.h24 hok.hlen hok.dst hd hsel
  exact ⟨w', h1, h2.advance dt (by rw [h7]; omega) (by rw [h6]; omega), h3⟩

/-! ### non-vacuity: `World.demoRaw` -/

theorem demoRaw_users : (demoServer false true .b32).users.length = 16 := by decide +kernel

theorem demoRaw_solo : Solo 0 (demoServer false true .b32) := by
  refine ⟨by rw [demoRaw_users]; decide, by decide +kernel, ?_⟩
  intro v hv
  by_cases h : v < 16
  · have : ∀ v, v < 16 → v ≠ 0 → (Server.getUser (demoServer false true .b32) v).active = false := by decide +kernel
    exact this v h hv
  · unfold Server.getUser
    rw [List.getD_eq_getElem?_getD, List.getElem?_eq_none (by rw [demoRaw_users]; omega)]
    rfl

/-- `World.demoRaw` is a quiescent raw-mode joint state of session 0 -/
theorem quietRaw_demoRaw : QuietRaw 0 demoRaw := by
  refine ⟨⟨rfl, by decide, ⟨rfl, rfl, rfl, by decide, rfl⟩, ⟨demoRaw_solo, ?_, Or.inr (by decide +kernel)⟩⟩, rfl, rfl⟩
  exact ⟨by decide +kernel, by decide +kernel, by decide +kernel, by decide +kernel, by decide +kernel, by decide +kernel,
    by decide +kernel, by decide +kernel, by decide +kernel, by decide +kernel, by decide +kernel, by decide +kernel⟩

theorem demoRaw_tunIp : (Server.getUser demoRaw.srv 0).tunIp = 0x0a000002 := by decide +kernel

theorem demoRaw_not_due : ¬ kaDue demoRaw.cs.c := by decide

theorem demoFrame_up_ok (n : Nat) (hn : n + 25 ≤ 4092) : RawUpOk (Server.getUser demoRaw.srv 0).tunIp (demoFrame 9 n) := by
  refine ⟨by simp [demoFrame], by simp [demoFrame]; omega, ?_⟩
  rw [demoRaw_tunIp]
  simp [Server.ipDst, demoFrame, Server.beVal]

theorem demoFrame_down_ok (n : Nat) (hn : n + 25 ≤ 4092) : RawDownOk (Server.getUser demoRaw.srv 0).tunIp (demoFrame 2 n) := by
  refine ⟨by simp [demoFrame], by simp [demoFrame]; omega, ?_⟩
  rw [demoRaw_tunIp]
  simp [Server.ipDst, demoFrame, Server.beVal]

/-- non-vacuity of `raw_up`: a 124-byte frame on `demoRaw` -/
example : ∃ w', promptSteps 0 1 (step demoRaw (.offerC (demoFrame 9 100))) = some w' ∧ QuietRaw 0 w' ∧
    w'.tunS = [tunImage (demoFrame 9 100)] ∧ w'.tunC = [] := by
  have hok := demoFrame_up_ok 100 (by omega)
  obtain ⟨w', h1, h2, h3, h4, _⟩ := raw_up quietRaw_demoRaw (demoFrame 9 100) hok.h24 hok.hlen hok.dst demoRaw_not_due
  exact ⟨w', h1, h2, h3, h4⟩

/-- non-vacuity of `raw_down` -/
example : ∃ w', promptSteps 0 1 (step demoRaw (.offerS (demoFrame 2 100))) = some w' ∧ QuietRaw 0 w' ∧
    w'.tunC = [tunImage (demoFrame 2 100)] ∧ w'.tunS = [] := by
  have hok := demoFrame_down_ok 100 (by omega)
  obtain ⟨w', h1, h2, h3, h4, _⟩ := raw_down quietRaw_demoRaw (demoFrame 2 100) hok.h24 hok.hlen hok.dst demoRaw_not_due
  exact ⟨w', h1, h2, h3, h4⟩

/-- five seconds later the keepalive is due (`selecttimeout = 1`) and the state is still quiescent -/
theorem quietRaw_demoRaw_later : QuietRaw 0 (step demoRaw (.advance 5)) ∧ kaDue (step demoRaw (.advance 5)).cs.c ∧
    0 < (step demoRaw (.advance 5)).cs.c.selecttimeout :=
  ⟨quietRaw_demoRaw.advance 5 (by decide) (by decide +kernel), by decide, by decide⟩

/-- non-vacuity of `raw_up_keepalive` / `raw_down_keepalive` -/
example : ∃ w', promptSteps 0 3 (step (step demoRaw (.advance 5)) (.offerC (demoFrame 9 100))) = some w' ∧ QuietRaw 0 w' ∧
    w'.tunS = [tunImage (demoFrame 9 100)] ∧ w'.cs.c.lastdownstreamtime = 1005 := by
  obtain ⟨hq, hd, hsel⟩ := quietRaw_demoRaw_later
  have hok := demoFrame_up_ok 100 (by omega)
  obtain ⟨w', h1, h2, h3, _, h5, _, h7, _⟩ := raw_up_keepalive hq (demoFrame 9 100) hok.h24 hok.hlen hok.dst hd hsel
  exact ⟨w', h1, h2, h3, by rw [h7, h5.nowC]; rfl⟩

example : ∃ w', promptSteps 0 3 (step (step demoRaw (.advance 5)) (.offerS (demoFrame 2 100))) = some w' ∧ QuietRaw 0 w' ∧
    w'.tunC = [tunImage (demoFrame 2 100)] ∧ (Server.getUser w'.srv 0).lastPkt = 1005 := by
  obtain ⟨hq, hd, hsel⟩ := quietRaw_demoRaw_later
  have hok := demoFrame_down_ok 100 (by omega)
  obtain ⟨w', h1, h2, h3, _, h5, _, h7, _⟩ := raw_down_keepalive hq (demoFrame 2 100) hok.h24 hok.hlen hok.dst hd hsel
  exact ⟨w', h1, h2, h3, by rw [h7, h5.nowS]; rfl⟩

/-- non-vacuity of the sequence theorems -/
example : (offerAllC 0 3 demoRaw [demoFrame 9 100, demoFrame 9 4, demoFrame 9 1000]).tunS =
    [tunImage (demoFrame 9 100), tunImage (demoFrame 9 4), tunImage (demoFrame 9 1000)] := by
  have := (up_sequence_raw (u := 0) 3 (Nat.le_refl _) [demoFrame 9 100, demoFrame 9 4, demoFrame 9 1000] demoRaw quietRaw_demoRaw
    (by decide) (by
      intro f hf
      simp only [List.mem_cons, List.not_mem_nil, or_false] at hf
      rcases hf with h | h | h <;> subst h
      · exact demoFrame_up_ok 100 (by omega)
      · exact demoFrame_up_ok 4 (by omega)
      · exact demoFrame_up_ok 1000 (by omega))).2.1
  exact this

/-! ### the 4092-byte cut is real

`send_raw` copies at most `sizeof(packet) - RAW_HDR_LEN = 4092` bytes of the compressed packet.  A frame of 4092 bytes
or more loses everything behind its first 4091 bytes on the way — silently, in both directions; the hypothesis
`f.length + 1 ≤ 4092` of `raw_up` / `raw_down` cannot be dropped. -/

theorem tunImage_cut_ne (f : List Nat) (hlong : 4092 ≤ f.length) : tunImage (f.take 4091) ≠ tunImage f := by
  intro h
  have := congrArg List.length h
  simp only [tunImage, List.length_append, List.length_cons, List.length_nil, List.length_drop, List.length_take] at this
  omega

/-- a long frame offered to the client reaches the server's tun device TRUNCATED to 4091 bytes -/
theorem raw_up_long_truncated {u : Nat} {w : W} (hq : QuietRaw u w) (f : List Nat) (hlong : 4092 ≤ f.length)
    (hlen : f.length < 65536) (hdst : Server.ipDst f ≠ (Server.getUser w.srv u).tunIp) (hnd : ¬ kaDue w.cs.c) :
    ∃ w', promptSteps u 1 (step w (.offerC f)) = some w' ∧ QuietRaw u w' ∧
      w'.tunS = w.tunS ++ [tunImage (f.take 4091)] ∧ w'.tunS ≠ w.tunS ++ [tunImage f] := by
  obtain ⟨w', h1, h2, h3, _⟩ := raw_up_cut hq f (by omega) hlen hdst hnd
  refine ⟨w', h1, h2, h3, ?_⟩
  rw [h3]
  intro hc
  have := List.append_cancel_left hc
  simp only [List.cons.injEq, and_true] at this
  exact tunImage_cut_ne f hlong this

/-- … and likewise downstream -/
theorem raw_down_long_truncated {u : Nat} {w : W} (hq : QuietRaw u w) (f : List Nat) (hlong : 4092 ≤ f.length)
    (hlen : f.length < 65536) (hdst : Server.ipDst f = (Server.getUser w.srv u).tunIp) (hnd : ¬ kaDue w.cs.c) :
    ∃ w', promptSteps u 1 (step w (.offerS f)) = some w' ∧ QuietRaw u w' ∧
      w'.tunC = w.tunC ++ [tunImage (f.take 4091)] ∧ w'.tunC ≠ w.tunC ++ [tunImage f] := by
  obtain ⟨w', h1, h2, h3, _⟩ := raw_down_cut hq f (by omega) hlen hdst hnd
  refine ⟨w', h1, h2, h3, ?_⟩
  rw [h3]
  intro hc
  have := List.append_cancel_left hc
  simp only [List.cons.injEq, and_true] at this
  exact tunImage_cut_ne f hlong this

/-- non-vacuity: a 4092-byte frame on `demoRaw` -/
example : ∃ w', promptSteps 0 1 (step demoRaw (.offerC (demoFrame 9 4068))) = some w' ∧
    w'.tunS = [tunImage ((demoFrame 9 4068).take 4091)] ∧ w'.tunS ≠ [tunImage (demoFrame 9 4068)] := by
  have hdst : Server.ipDst (demoFrame 9 4068) ≠ (Server.getUser demoRaw.srv 0).tunIp := by
    rw [demoRaw_tunIp]; simp [Server.ipDst, demoFrame, Server.beVal]
  obtain ⟨w', h1, _, h3, h4⟩ := raw_up_long_truncated quietRaw_demoRaw (demoFrame 9 4068) (by simp [demoFrame])
    (by simp [demoFrame]) hdst demoRaw_not_due
  exact ⟨w', h1, h3, h4⟩

end Iodine.C02L
