import IodineModel.Lemmas.C05Sb
import IodineModel.Lemmas.SrvC04f
/-
Helper lemmas for C05: an explicit bound on the NUMBER OF EVENTS (`sendto` / `write_tun` calls, hence encoder calls) one iteration
of the server's `tunnel()` loop produces, for every state and every input: no handler loops on its input.  Same traversal of the
handlers as `C05Sb` (`SzGood`), with the predicate "the event list has at most `k` elements".
-/
namespace Iodine.C05L
open Iodine Iodine.Server Iodine.Gen

/-! ### basics -/

theorem ev_nil (s : Srv) {k : Nat} : ((s, []) : Res).2.length ≤ k := Nat.zero_le _

theorem ev_one (s : Srv) (e : Event) {k : Nat} (hk : 1 ≤ k) : ((s, [e]) : Res).2.length ≤ k := hk

theorem ev_ite {c : Prop} [Decidable c] {a b : Res} {k : Nat} (ha : a.2.length ≤ k) (hb : b.2.length ≤ k) :
    (if c then a else b).2.length ≤ k := by
  split
  · exact ha
  · exact hb

theorem ev_andThen (r : Res) (f : Srv → Res) : (andThen r f).2.length = r.2.length + (f r.1).2.length := by
  unfold andThen
  exact List.length_append

/-- closes `(s', [e]).2.length ≤ k` / `(s', []).2.length ≤ k` goals -/
local macro "ev01" : tactic => `(tactic| first | exact ev_nil _ | exact ev_one _ _ (by decide))

/-! ### send_chunk_or_dataless -/

theorem scAnswer_events_le (q : Query) (pkt : List Nat) (dn u : Nat) : (scAnswer q pkt dn u).2.length ≤ 2 := by
  unfold scAnswer
  split
  · exact Nat.le_refl 2
  · exact (by decide : 1 ≤ 2)

/-- `send_chunk_or_dataless` calls `write_dns` once, or twice when a duplicate is remembered -/
theorem sc_events_le (s : Srv) (u : Nat) (w : QSel) : (sendChunkOrDataless s u w).1.2.length ≤ 2 := by
  unfold sendChunkOrDataless
  extract_lets s1 x datalen pkt a s2 s3 src s4 r
  have ha : a.2.length ≤ 2 := scAnswer_events_le _ _ _ _
  split
  · exact ha
  · exact ha

theorem sendWaiting_events_le (s : Srv) (u : Nat) : (sendWaiting s u).2.length ≤ 2 := by
  unfold sendWaiting
  extract_lets x
  split
  · exact sc_events_le s u .qs
  · split
    · exact sc_events_le s u .q
    · exact ev_nil s

/-! ### tun and forwarding -/

theorem tunnelTun_events_le (s : Srv) (frame : List Nat) : (tunnelTun s frame).2.length ≤ 2 := by
  unfold tunnelTun
  split
  · ev01
  · split
    · ev01
    · split
      · ev01
      · rename_i u hu
        extract_lets out x
        split
        · split
          · ev01
          · exact sendWaiting_events_le _ u
        · ev01

theorem deliverToUser_events_le (s : Srv) (t : Nat) (d : List Nat) (n : Nat) : (deliverToUser s t d n).2.length ≤ 2 := by
  unfold deliverToUser
  extract_lets y
  split
  · split
    · exact sendWaiting_events_le _ t
    · ev01
  · ev01

theorem handleFullPacket_events_le (s : Srv) (u : Nat) : (handleFullPacket s u).2.length ≤ 2 := by
  unfold handleFullPacket
  extract_lets x r
  show r.2.length ≤ 2
  simp only [r]
  split
  · split
    · split
      · ev01
      · exact deliverToUser_events_le _ _ _ _
    · ev01
  · ev01

/-! ### the one-answer commands -/

theorem handleVersion_events_le (s : Srv) (q : Query) (inb : List Nat) : (handleVersion s q inb).2.length ≤ 1 := by
  unfold handleVersion
  extract_lets unpacked version
  split
  · split
    · exact Nat.le_refl 1
    · exact Nat.le_refl 1
  · exact Nat.le_refl 1

theorem handleLogin_events_le (s : Srv) (q : Query) (inb : List Nat) : (handleLogin s q inb).2.length ≤ 1 := by
  unfold handleLogin
  extract_lets unpacked userid u s1 x logindata out
  split
  · ev01
  · split
    · ev01
    · split
      · ev01
      · ev01

theorem handleIp_events_le (s : Srv) (q : Query) (inb : List Nat) : (handleIp s q inb).2.length ≤ 1 := by
  unfold handleIp
  extract_lets userid addr
  split
  · ev01
  · ev01

theorem handleZ_events_le (s : Srv) (q : Query) (inb : List Nat) : (handleZ s q inb).2.length ≤ 1 := Nat.le_refl 1

theorem handleSwitchCodec_events_le (s : Srv) (q : Query) (dlen : Nat) (inb : List Nat) :
    (handleSwitchCodec s q dlen inb).2.length ≤ 1 := by
  unfold handleSwitchCodec
  split
  · ev01
  · extract_lets userid u dn codec sw
    split
    · ev01
    · have hsw : ∀ e, (sw e).2.length ≤ 1 := fun e => Nat.le_refl 1
      split
      · exact hsw _
      · split
        · exact hsw _
        · split
          · exact hsw _
          · split
            · exact hsw _
            · ev01

theorem handleOptions_events_le (s : Srv) (q : Query) (dlen : Nat) (inb : List Nat) :
    (handleOptions s q dlen inb).2.length ≤ 1 := by
  unfold handleOptions
  split
  · ev01
  · extract_lets userid u c setDn setLazy
    split
    · ev01
    · have hs : ∀ d msg, (setDn d msg).2.length ≤ 1 := fun d msg => Nat.le_refl 1
      have hl : ∀ d msg, (setLazy d msg).2.length ≤ 1 := fun d msg => Nat.le_refl 1
      split
      · exact hs _ _
      · split
        · exact hs _ _
        · split
          · exact hs _ _
          · split
            · exact hs _ _
            · split
              · exact hs _ _
              · split
                · exact hl _ _
                · split
                  · exact hl _ _
                  · ev01

theorem handleDownCodecCheck_events_le (s : Srv) (q : Query) (dlen : Nat) (inb : List Nat) :
    (handleDownCodecCheck s q dlen inb).2.length ≤ 1 := by
  unfold handleDownCodecCheck
  split
  · ev01
  · split
    · ev01
    · extract_lets c named rawOk dn
      clear_value dn
      cases dn
      · ev01
      · ev01

theorem handleFragsizeProbe_events_le (s : Srv) (q : Query) (dlen : Nat) (inb : List Nat) :
    (handleFragsizeProbe s q dlen inb).2.length ≤ 1 := by
  unfold handleFragsizeProbe
  split
  · ev01
  · extract_lets b1 userid u req r
    split
    · ev01
    · split
      · ev01
      · ev01

theorem handleSetFragsize_events_le (s : Srv) (q : Query) (inb : List Nat) :
    (handleSetFragsize s q inb).2.length ≤ 1 := by
  unfold handleSetFragsize
  extract_lets unpacked userid u maxFrag
  split
  · ev01
  · split
    · ev01
    · split
      · ev01
      · ev01

/-! ### ping and data -/

theorem answerFromDnscache_one {s : Srv} {u : Nat} {q : Query} {e : Event} (_h : answerFromDnscache s u q = some e) (s' : Srv) :
    ((s', [e]) : Res).2.length ≤ 1 := Nat.le_refl 1

/-- ping, after the filters: `q_sendrealsoon`, the waiting `q`, the new query: at most three `send_chunk_or_dataless` -/
theorem pingFresh_events_le (s : Srv) (u : Nat) (q : Query) (unpacked : List Nat) :
    (pingFresh s u q unpacked).2.length ≤ 6 := by
  unfold pingFresh
  extract_lets b s1 r1 t r2 didsend s3 x r3
  have h1 : r1.2.length ≤ 2 := ev_ite (sc_events_le s1 u .qs) (ev_nil s1)
  have h2 : r2.1.2.length ≤ 2 := by
    simp only [r2, t]
    split
    · dsimp only
      exact sc_events_le _ u .q
    · exact Nat.zero_le _
  have h3 : r3.2.length ≤ 2 := ev_ite (sc_events_le s3 u .q) (ev_nil s3)
  show (r1.2 ++ r2.1.2 ++ r3.2).length ≤ 6
  rw [List.length_append, List.length_append]
  omega

theorem handlePing_events_le (s : Srv) (q : Query) (inb : List Nat) : (handlePing s q inb).2.length ≤ 6 := by
  unfold handlePing
  split
  · ev01
  · extract_lets unpacked userid u
    split
    · ev01
    · split
      · ev01
      · split
        · ev01
        · split
          · ev01
          · split
            · ev01
            · exact pingFresh_events_le _ _ _ _

theorem dataStepQs_events_le (s : Srv) (u : Nat) : (dataStepQs s u).1.2.length ≤ 2 := by
  unfold dataStepQs
  split
  · exact sc_events_le s u .qs
  · exact Nat.zero_le _

theorem dataStepQ_events_le (s : Srv) (u : Nat) (a b c : Bool) : (dataStepQ s u a b c).1.2.length ≤ 2 := by
  unfold dataStepQ
  extract_lets x
  split
  · split
    · exact sc_events_le s u .q
    · exact Nat.zero_le _
  · exact Nat.zero_le _

theorem dataStepFinal_events_le (s : Srv) (u : Nat) (a b c : Bool) : (dataStepFinal s u a b c).2.length ≤ 2 := by
  unfold dataStepFinal
  extract_lets x
  split
  · exact sc_events_le s u .q
  · split
    · split
      · ev01
      · exact sc_events_le s u .q
    · ev01

/-- data, after the filters: forwarding / tun write (≤ 2), then at most three `send_chunk_or_dataless` -/
theorem dataFresh_events_le (s : Srv) (u : Nat) (q : Query) (inb : List Nat) : (dataFresh s u q inb).2.length ≤ 8 := by
  unfold dataFresh
  extract_lets b1 b2 b3 upSeq upFrag dnSeq dnFrag lastfrag s1 up upstreamOk s2 r3 r4 r5 s6 r7
  have h3 : r3.2.length ≤ 2 := ev_ite (handleFullPacket_events_le s2 u) (ev_nil s2)
  have h4 : r4.1.2.length ≤ 2 := dataStepQs_events_le _ u
  have h5 : r5.1.2.length ≤ 2 := dataStepQ_events_le _ u _ _ _
  have h7 : r7.2.length ≤ 2 := dataStepFinal_events_le _ u _ _ _
  show (r3.2 ++ r4.1.2 ++ r5.1.2 ++ r7.2).length ≤ 8
  rw [List.length_append, List.length_append, List.length_append]
  omega

theorem handleData_events_le (s : Srv) (q : Query) (dlen : Nat) (inb : List Nat) : (handleData s q dlen inb).2.length ≤ 8 := by
  unfold handleData
  split
  · ev01
  · split
    · ev01
    · extract_lets userid u
      split
      · ev01
      · split
        · ev01
        · split
          · ev01
          · split
            · ev01
            · exact dataFresh_events_le _ _ _ _

/-! ### the request kinds -/

theorem handleNullRequest_events_le (s : Srv) (q : Query) (dlen : Nat) : (handleNullRequest s q dlen).2.length ≤ 8 := by
  unfold handleNullRequest
  extract_lets inb c
  have one : ∀ {r : Res}, r.2.length ≤ 1 → r.2.length ≤ 8 := fun h => Nat.le_trans h (by decide)
  apply ev_ite (ev_nil s)
  clear_value c inb
  apply ev_ite (one (handleVersion_events_le s q inb))
  apply ev_ite (one (handleLogin_events_le s q inb))
  apply ev_ite (one (handleIp_events_le s q inb))
  apply ev_ite (one (handleZ_events_le s q inb))
  apply ev_ite (one (handleSwitchCodec_events_le s q dlen inb))
  apply ev_ite (one (handleOptions_events_le s q dlen inb))
  apply ev_ite (one (handleDownCodecCheck_events_le s q dlen inb))
  apply ev_ite (one (handleFragsizeProbe_events_le s q dlen inb))
  apply ev_ite (one (handleSetFragsize_events_le s q inb))
  apply ev_ite (Nat.le_trans (handlePing_events_le s q inb) (by decide))
  apply ev_ite (handleData_events_le s q dlen inb)
  exact ev_nil s

theorem handleNsRequest_events_le (s : Srv) (q : Query) (dlen : Nat) : (handleNsRequest s q dlen).2.length ≤ 1 := by
  unfold handleNsRequest
  split
  · ev01
  · ev01

theorem handleARequest_events_le (s : Srv) (q : Query) (f : Bool) : (handleARequest s q f).2.length ≤ 1 := by
  unfold handleARequest
  extract_lets dest
  split
  · ev01
  · ev01

theorem forwardQuery_events_le (s : Srv) (q : Query) : (forwardQuery s q).2.length ≤ 1 := Nat.le_refl 1

theorem tunnelDns_events_le (s : Srv) (q : Query) : (tunnelDns s q).2.length ≤ 8 := by
  unfold tunnelDns
  split
  · ev01
  · split
    · extract_lets n
      split
      · exact Nat.le_trans (handleARequest_events_le _ _ _) (by decide)
      · split
        · exact Nat.le_trans (handleARequest_events_le _ _ _) (by decide)
        · split
          · exact handleNullRequest_events_le _ _ _
          · split
            · exact Nat.le_trans (handleNsRequest_events_le _ _ _) (by decide)
            · ev01
    · split
      · exact Nat.le_trans (forwardQuery_events_le _ _) (by decide)
      · ev01

/-! ### raw mode, bind -/

theorem handleRawLogin_events_le (s : Srv) (packet : List Nat) (q : Query) (u : Nat) :
    (handleRawLogin s packet q u).2.length ≤ 1 := by
  unfold handleRawLogin
  split
  · ev01
  · split
    · ev01
    · extract_lets x
      split
      · ev01
      · split
        · ev01
        · split
          · ev01
          · split
            · ev01
            · ev01

theorem handleRawData_events_le (s : Srv) (packet : List Nat) (q : Query) (u : Nat) :
    (handleRawData s packet q u).2.length ≤ 2 := by
  unfold handleRawData
  split
  · ev01
  · split
    · ev01
    · exact handleFullPacket_events_le _ _

theorem handleRawPing_events_le (s : Srv) (q : Query) (u : Nat) : (handleRawPing s q u).2.length ≤ 1 := by
  unfold handleRawPing
  split
  · ev01
  · split
    · ev01
    · ev01

theorem rawDecode_events_le (s : Srv) (packet : List Nat) (src : Addr) (r : Res) (h : rawDecode s packet src = some r) :
    r.2.length ≤ 2 := by
  unfold rawDecode at h
  split at h
  · cases h
  · split at h
    · cases h
    · extract_lets b u cmd q body at h
      split at h
      · cases h; exact Nat.le_trans (handleRawLogin_events_le _ _ _ _) (by decide)
      · split at h
        · cases h; exact handleRawData_events_le _ _ _ _
        · split at h
          · cases h; exact Nat.le_trans (handleRawPing_events_le _ _ _) (by decide)
          · cases h; ev01

theorem tunnelBind_events_le (s : Srv) (d : List Nat) : (tunnelBind s d).2.length ≤ 1 := by
  unfold tunnelBind
  split
  · ev01
  · split
    · ev01
    · ev01

/-! ### one iteration -/

/-- the handler selected by the input produces at most 8 events (the data handler: forwarding/tun write, then up to three
`send_chunk_or_dataless`) -/
theorem dispatch_events_le (s : Srv) (inp : Input) (tunsel : Bool) : (dispatch s inp tunsel).2.length ≤ 8 := by
  cases inp with
  | tick => exact ev_nil s
  | tun frame =>
    unfold dispatch
    simp only []
    exact ev_ite (Nat.le_trans (tunnelTun_events_le s _) (by decide)) (ev_nil s)
  | q q => exact tunnelDns_events_le s q
  | rawf src bytes =>
    unfold dispatch
    simp only []
    split
    · rename_i r hr; exact Nat.le_trans (rawDecode_events_le s _ src r hr) (by decide)
    · exact ev_nil s
  | bind bytes =>
    unfold dispatch
    simp only []
    exact ev_ite (Nat.le_trans (tunnelBind_events_le s _) (by decide)) (ev_nil s)

/-- the "send real soon" sweep over `n` slots produces at most `2 n` events -/
theorem sweepFrom_events_le : ∀ (n i : Nat) (s : Srv), (sweepFrom n i s).2.length ≤ 2 * n
  | 0, _, _ => Nat.le_refl 0
  | n + 1, i, s => by
    unfold sweepFrom
    extract_lets x r
    have hr : r.2.length ≤ 2 := ev_ite (sc_events_le s i .qs) (ev_nil s)
    clear_value r
    rw [ev_andThen]
    have := sweepFrom_events_le n (i + 1) r.1
    omega

theorem sweep_events_le (s : Srv) : (sweep s).2.length ≤ 2 * s.cfg.createdUsers := sweepFrom_events_le _ 0 s

/-- everything after `select`: handler (≤ 8), the `sweep` marker, the sweep (≤ 2 per created user), possibly `tunskip` -/
theorem body_events_le (s : Srv) (inp : Input) (tunsel : Bool) :
    (body s inp tunsel).2.length ≤ 2 * s.cfg.createdUsers + 10 := by
  have hc : (dispatch s inp tunsel).1.cfg = s.cfg := (C04L.frame_dispatch s inp tunsel).cfg
  have h1 : (andThen (andThen (dispatch s inp tunsel) (fun s => (s, [Event.sweep]))) sweep).2.length
      ≤ 2 * s.cfg.createdUsers + 9 := by
    rw [ev_andThen, ev_andThen]
    have hd := dispatch_events_le s inp tunsel
    have hs := sweep_events_le (andThen (dispatch s inp tunsel) (fun s => (s, [Event.sweep]))).1
    have hc' : (andThen (dispatch s inp tunsel) (fun s => (s, [Event.sweep]))).1.cfg = s.cfg := hc
    rw [hc'] at hs
    show (dispatch s inp tunsel).2.length + 1 + _ ≤ _
    omega
  unfold body
  generalize andThen (andThen (dispatch s inp tunsel) (fun s => (s, [Event.sweep]))) sweep = r at h1
  cases inp with
  | tun frame =>
    simp only []
    split
    · omega
    · show (r.2 ++ [Event.tunskip]).length ≤ _
      rw [List.length_append]
      show r.2.length + 1 ≤ _
      omega
  | _ => simp only []; omega

/-- one whole iteration: handler, the `sweep` marker, the sweep, possibly the `tunskip` note -/
theorem out_length_le (s : Srv) (st : Step) : (out s st).length ≤ 2 * s.cfg.createdUsers + 10 :=
  body_events_le { (topOfLoop s).1 with now := st.now } st.inp _

end Iodine.C05L
