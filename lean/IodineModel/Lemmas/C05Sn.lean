import IodineModel.Lemmas.BytesI
/-
Helper lemmas for C05 (server side): the question name that `dns_decode(QR_QUERY)` extracts from a datagram made of bytes
is made of bytes and has at most 253 characters — for EVERY datagram (compression pointers, dots inside labels, truncated
names, reserved label types, …; no legality assumption).

Every byte `readname_loop` stores is either a byte it read at an index `< packetlen` (all such reads are guarded), or one of
the constants `0` and `'.'`; so nothing is needed about the residue behind the datagram.
-/
namespace Iodine.C05L
open Iodine Iodine.Server Iodine.Wire Iodine.C10 Iodine.BytesL

/-! ### partial correctness with postcondition "the bytes written are bytes" -/

/-- if the call does not fault, what it wrote consists of bytes -/
def PB (x : Except Fault (Nat × List Nat)) : Prop := ∀ r, x = .ok r → IsBytes r.2

theorem pb_ok {s : Nat} {out : List Nat} (h : IsBytes out) : PB (.ok (s, out)) := by
  intro r hr; cases hr; exact h

theorem pb_error (e : Fault) : PB (.error e) := by
  intro r hr; cases hr

theorem pb_bind {α} {x : Except Fault α} {f : α → Except Fault (Nat × List Nat)}
    (h : ∀ a, x = .ok a → PB (f a)) : PB (x >>= f) := by
  cases x with
  | error e => exact pb_error e
  | ok a => exact h a rfl

/-- a byte of the datagram -/
theorem getD_lt (b : RxBuf) (hp : ∀ x ∈ b.pkt.toList, x < 256) (i : Nat) (h : i < b.plen) : b.pkt.getD i 0 < 256 := by
  have h' : i < b.pkt.size := h
  apply hp
  simp only [Array.getD, h', dite_true]
  simp

theorem push_bytes {cap : Nat} {out o : List Nat} {x : Nat} (h : push cap out x = .ok o) (hx : x < 256)
    (ho : IsBytes out) : IsBytes o := by
  unfold push at h
  split at h
  · cases h
    exact isBytes_append.2 ⟨ho, isBytes_cons.2 ⟨hx, isBytes_nil⟩⟩
  · cases h

theorem nameFinish_pb (b : RxBuf) (length s : Nat) (out : List Nat) (ho : IsBytes out) :
    PB (nameFinish b length s out) := by
  unfold nameFinish
  apply pb_bind
  intro o ho'
  exact pb_ok (push_bytes ho' (by omega) ho)

theorem copyLabel_pb (b : RxBuf) (hcap : b.plen ≤ b.cap) (hp : ∀ x ∈ b.pkt.toList, x < 256) (length : Nat) :
    ∀ c s out, IsBytes out → PB (copyLabel b length c s out) := by
  intro c
  induction c with
  | zero => intro s out h; exact pb_ok h
  | succ c ih =>
    intro s out h
    simp only [copyLabel]
    split
    · rename_i hc
      rw [get_ok b hcap s hc.2, bind_ok]
      apply pb_bind
      intro o ho
      exact ih (s + 1) o (push_bytes ho (getD_lt b hp s hc.2) h)
    · exact pb_ok h

theorem nameLoop_pb (b : RxBuf) (hcap : b.plen ≤ b.cap) (hp : ∀ x ∈ b.pkt.toList, x < 256) (length : Nat)
    (rec : Nat → Nat → Except Fault (List Nat)) (src0 : Nat)
    (hrec : ∀ off len w, rec off len = .ok w → IsBytes w) :
    ∀ fuel s out, IsBytes out → PB (nameLoop b length rec src0 fuel s out) := by
  intro fuel
  induction fuel with
  | zero =>
    intro s out ho
    unfold nameLoop
    by_cases hs : s < b.plen
    · simp only [hs, not_true_eq_false, if_false, get_ok b hcap s hs, bind_ok]
      generalize b.pkt.getD s 0 = c
      by_cases h1 : c = 0 ∨ ¬out.length + 2 < length
      · simp only [h1, if_true]
        exact nameFinish_pb b length s out ho
      · simp only [h1, if_false]
        exact pb_error _
    · simp only [hs, not_false_eq_true, if_true]
      exact nameFinish_pb b length s out ho
  | succ fuel ih =>
    intro s out ho
    unfold nameLoop
    by_cases hs : s < b.plen
    · simp only [hs, not_true_eq_false, if_false, get_ok b hcap s hs, bind_ok]
      generalize b.pkt.getD s 0 = c
      by_cases h1 : c = 0 ∨ ¬out.length + 2 < length
      · simp only [h1, if_true]
        exact nameFinish_pb b length s out ho
      · simp only [h1, if_false]
        by_cases h2 : c &&& 192 = 192
        · simp only [h2, if_true]
          by_cases h3 : s + 1 < b.plen
          · simp only [h3, not_true_eq_false, if_false, get_ok b hcap (s + 1) h3, bind_ok]
            generalize b.pkt.getD (s + 1) 0 = c2
            by_cases h4 : (c &&& 63) <<< 8 ||| c2 &&& 255 ≥ b.plen
            · simp only [if_pos h4]
              by_cases h5 : out.length = 0
              · simp only [if_pos h5]; exact pb_ok isBytes_nil
              · simp only [if_neg h5]; exact nameFinish_pb b length (s + 1) out ho
            · simp only [if_neg h4]
              apply pb_bind
              intro sub hsub
              have hsb := hrec _ _ _ hsub
              by_cases h6 : sub.length = 0 ∧ out.length > 0
              · simp only [if_pos h6]
                apply pb_bind
                intro o ho'
                exact pb_ok (push_bytes ho' (by omega) ho)
              · simp only [if_neg h6]
                exact pb_ok (isBytes_append.2 ⟨ho, hsb⟩)
          · simp only [h3, not_false_eq_true, if_true]
            exact nameFinish_pb b length (s + 1) out ho
        · simp only [h2, if_false]
          by_cases h3 : c &&& 192 = 0
          · simp only [ne_eq, h3, not_true_eq_false, if_false]
            apply pb_bind
            intro x hx
            obtain ⟨s', out'⟩ := x
            have ho' : IsBytes out' := copyLabel_pb b hcap hp length c (s + 1) out ho _ hx
            simp only
            by_cases h4 : out'.length + 1 ≥ length
            · simp only [h4, if_true]
              exact nameFinish_pb b length s' out' ho'
            · simp only [h4, if_false]
              by_cases h5 : s' < b.plen
              · simp only [h5, if_true, get_ok b hcap s' h5, bind_ok]
                generalize b.pkt.getD s' 0 = x
                by_cases h6 : x ≠ 0
                · simp only [if_pos h6]
                  apply pb_bind
                  intro o ho2
                  exact ih s' o (push_bytes ho2 (by omega) ho')
                · simp only [if_neg h6]
                  exact ih s' out' ho'
              · simp only [h5, if_false]
                exact ih s' out' ho'
          · simp only [ne_eq, h3, not_false_eq_true, if_true]
            by_cases h5 : out.length = 0
            · simp only [if_pos h5]; exact pb_ok isBytes_nil
            · simp only [if_neg h5]; exact nameFinish_pb b length (s + 1) out ho
    · simp only [hs, not_false_eq_true, if_true]
      exact nameFinish_pb b length s out ho

theorem readnameLoop_pb (b : RxBuf) (hcap : b.plen ≤ b.cap) (hp : ∀ x ∈ b.pkt.toList, x < 256) :
    ∀ loop src length, PB (readnameLoop b loop src length) := by
  intro loop
  induction loop with
  | zero => intro src length; exact pb_ok isBytes_nil
  | succ loop ih =>
    intro src length
    simp only [readnameLoop]
    apply nameLoop_pb b hcap hp length _ src _ b.plen src [] isBytes_nil
    intro off len w hw
    cases hr : readnameLoop b loop off len with
    | error e => rw [hr] at hw; cases hw
    | ok r =>
      rw [hr] at hw
      cases hw
      exact ih off len r hr

/-- bytes of the datagram are bytes, the residue is arbitrary (it is never stored) -/
theorem readname_bytes (b : RxBuf) (hcap : b.plen ≤ b.cap) (hp : ∀ x ∈ b.pkt.toList, x < 256)
    (src length : Nat) {r : Nat × List Nat} (h : readname b src length = .ok r) : IsBytes r.2 := by
  unfold readname at h
  split at h
  · cases h
  · exact readnameLoop_pb b hcap hp 10 src length r h

/-! ### `dns_decode(QR_QUERY)` -/

theorem cstr_bytes {w : List Nat} (h : IsBytes w) : IsBytes (cstr w) :=
  fun x hx => h x ((List.takeWhile_sublist _).subset hx)

theorem dnsDecodeQuery_name (b : RxBuf) (hcap : b.plen ≤ b.cap) (hp : ∀ x ∈ b.pkt.toList, x < 256)
    {d : Decoded} (h : dnsDecodeQuery b = .ok d) : IsBytes d.name ∧ d.name.length ≤ 253 := by
  unfold dnsDecodeQuery at h
  split at h
  · cases h; exact ⟨isBytes_nil, by simp⟩
  · obtain ⟨hd, _, h⟩ := bind_eq_ok h
    split at h
    · cases h; exact ⟨isBytes_nil, by simp⟩
    · split at h
      · cases h; exact ⟨isBytes_nil, by simp⟩
      · obtain ⟨x, hx, h⟩ := bind_eq_ok h
        have hw := readname_bytes b hcap hp 12 255 hx
        obtain ⟨dd, w⟩ := x
        dsimp only at h hw
        split at h
        · cases h; exact ⟨isBytes_nil, by simp⟩
        rename_i hlong
        split at h
        · cases h; exact ⟨isBytes_nil, by simp⟩
        · obtain ⟨t, _, h⟩ := bind_eq_ok h
          obtain ⟨c, _, h⟩ := bind_eq_ok h
          cases h
          refine ⟨isBytes_take _ (isBytes_take _ (cstr_bytes (isBytes_take _ hw))), ?_⟩
          simp only [List.length_take]
          omega

/-! ### `read_dns` -/

/-- what `read_dns` hands to the session machine for ANY datagram made of bytes -/
theorem toInput_q_bytes {s : Srv} {inp : BInput} {q : Query} (hb : BytesL.ByteInput inp) (h : toInput s inp = .q q) :
    IsBytes q.name ∧ q.name.length ≤ 253 ∧ q.id2 = 0 ∧ q.id < 65536 ∧ q.type < 65536 := by
  cases inp with
  | tun f => cases h
  | bind b => cases h
  | tick => cases h
  | dgram src bytes =>
    unfold toInput decodeInput decodeInputR at h
    simp only [] at h
    split at h
    · rename_i i hi
      split at hi
      · cases hi; cases h
      · split at hi
        · cases hi; cases h
        · obtain ⟨d, hd, hi⟩ := bind_eq_ok hi
          split at hi
          · cases hi; cases h
          · cases hi
            cases h
            have hf := dnsDecodeQuery_facts hd
            have hn := dnsDecodeQuery_name (rxBuf #[] (bytes.take 65536))
              (by simp only [rxBuf, RxBuf.plen, List.size_toArray, List.length_take]; omega)
              (by
                intro x hx
                simp only [rxBuf] at hx
                exact hb x (List.mem_of_mem_take hx))
              hd
            exact ⟨hn.1, hn.2, rfl, hf.1, hf.2⟩
    · cases h

/-- … hence the session machine's input is made of bytes without any legality hypothesis -/
theorem inputBytes_toInput_any (s : Srv) (inp : BInput) (hb : BytesL.ByteInput inp) : BytesL.InputBytes (toInput s inp) := by
  cases inp with
  | tun f => exact hb
  | bind d => trivial
  | tick => trivial
  | dgram src bytes =>
    cases hti : toInput s (.dgram src bytes) with
    | q q =>
      have hq := toInput_q_bytes hb hti
      exact ⟨hq.1, by have := hq.2.1; omega⟩
    | rawf src' pkt =>
      -- `raw_decode` took the (cut) datagram
      unfold toInput decodeInput decodeInputR at hti
      simp only [] at hti
      split at hti
      · rename_i i hi
        split at hi
        · cases hi; cases hti
        · split at hi
          · cases hi; cases hti
            exact isBytes_take _ hb
          · obtain ⟨d, _, hi⟩ := bind_eq_ok hi
            split at hi <;> (cases hi; cases hti)
      · cases hti
    | tun f =>
      exfalso
      unfold toInput decodeInput decodeInputR at hti
      simp only [] at hti
      split at hti
      · rename_i i hi
        split at hi
        · cases hi; cases hti
        · split at hi
          · cases hi; cases hti
          · obtain ⟨d, _, hi⟩ := bind_eq_ok hi
            split at hi <;> (cases hi; cases hti)
      · cases hti
    | bind d => trivial
    | tick => trivial

end Iodine.C05L
