import IodineModel.Lemmas.C02rA3
import IodineModel.Lemmas.C02v4
/-
C02 phase 3, sub-package "lift" (6): `FreshNext` — the hypothesis about the fault prefix that REPLACES the freshness invariant.
`FreshNext P x k n`: no entry of `qmemdata` / `dnscache` of the slot collides with one of the next `n` data-CMC values
`k, k+1, …` AS LONG AS IT IS STILL IN ITS RING: the entry written `i` saves ago is overwritten by the `(L − i)`-th save from now
(`L` = 15 resp. 4), and every clean data query/answer cycle is one save in either ring, so only the values `k + j` with
`i + j < L` matter for it.  (The static condition `Fresh P x k n` of C02v3, "no remembered entry carries one of the next `n`
characters", implies it: `Fresh.freshNext`; it is strictly stronger — the state after the counterexample's mishandled packet
satisfies `FreshNext … 36` but `Fresh … n` only for `n ≤ 12`.)
* `FreshNext.fresh`: `FreshNext … (n+1)` gives `Fresh … 1`: the query that carries `k` passes both duplicate filters;
* `FreshNext.memo`: after that query and its answer were remembered, `FreshNext … n` holds for the next counter value;
* ring level: `RingFreshTo`, `RingFreshTo.push`, `RingFreshTo.miss`.
-/
namespace Iodine.C02L
open Iodine Iodine.Gen Iodine.Server
open Iodine.C16L (ringPos ringFill ringFill_lt ring_push_zero ring_push_succ ringPos_lt ringPos_surj)

/-- the entry `i` saves old is not relevant for the counter values `k + j`, `j < n`, that are used while it is still in the
ring (`i + j < L`) -/
def RingFreshTo {α : Type} (n L : Nat) (mem : List α) (last : Nat) (d : α) (Rel : α → Nat → Prop) (k M : Nat) : Prop :=
  ∀ i, i < L → ∀ j, j < n → i + j < L → ¬ Rel (mem.getD (ringPos L last i) d) ((k + j) % M)

theorem RingFreshTo.mono {α : Type} {n n' L : Nat} {mem : List α} {last : Nat} {d : α} {Rel : α → Nat → Prop} {k M : Nat}
    (h : RingFreshTo n L mem last d Rel k M) (hn : n' ≤ n) : RingFreshTo n' L mem last d Rel k M :=
  fun i hi j hj hij => h i hi j (by omega) hij

/-- the value `k` itself is not in the ring -/
theorem RingFreshTo.miss {α : Type} {n L : Nat} {mem : List α} {last : Nat} {d : α} {Rel : α → Nat → Prop} {k M : Nat}
    (h : RingFreshTo (n + 1) L mem last d Rel k M) (hlen : mem.length = L) (hlast : last < L) (hk : k < M)
    (e : α) (he : e ∈ mem) : ¬ Rel e k := by
  intro hr
  obtain ⟨p, hp, hep⟩ := List.getElem_of_mem he
  obtain ⟨i, hi, hpos⟩ := ringPos_surj L last p hlast (by omega)
  have hg : mem.getD (ringPos L last i) d = e := by
    rw [hpos, List.getD_eq_getElem?_getD, List.getElem?_eq_getElem hp, hep]; rfl
  have := h i hi 0 (by omega) (by omega)
  rw [hg, Nat.add_zero, Nat.mod_eq_of_lt hk] at this
  exact this hr

/-- the query that carries `k` is remembered (entry `v`, not relevant for the following values as long as it stays): the
ring is fresh for the next `n` values -/
theorem RingFreshTo.push {α : Type} {n L : Nat} {mem : List α} {last : Nat} {d : α} {Rel : α → Nat → Prop} {k M : Nat}
    (h : RingFreshTo (n + 1) L mem last d Rel k M) (hlen : mem.length = L) (hlast : last < L) (v : α)
    (hv : ∀ j, j < n → j < L → ¬ Rel v ((k + 1 + j) % M)) :
    RingFreshTo n L (mem.set (ringFill L last) v) (ringFill L last) d Rel ((k + 1) % M) M := by
  have hL : 0 < L := by omega
  intro i hi j hj hij
  rw [Nat.mod_add_mod]
  cases i with
  | zero =>
    rw [ring_push_zero mem L last hlen hL]
    exact hv j hj (by omega)
  | succ i' =>
    rw [ring_push_succ mem L last i' hlast hi]
    have := h i' (by omega) (j + 1) (by omega) (by omega)
    rwa [show k + (j + 1) = k + 1 + j from by omega] at this

/-- an irrelevant entry is pushed (a ping into `dnscache`): nothing is consumed -/
theorem RingFreshTo.push_irrel {α : Type} {n L : Nat} {mem : List α} {last : Nat} {d : α} {Rel : α → Nat → Prop} {k M : Nat}
    (h : RingFreshTo n L mem last d Rel k M) (hlen : mem.length = L) (hlast : last < L) (v : α) (hv : ∀ c, ¬ Rel v c) :
    RingFreshTo n L (mem.set (ringFill L last) v) (ringFill L last) d Rel k M := by
  have hL : 0 < L := by omega
  intro i hi j hj hij
  cases i with
  | zero =>
    rw [ring_push_zero mem L last hlen hL]
    exact hv _
  | succ i' =>
    rw [ring_push_succ mem L last i' hlast hi]
    exact h i' (by omega) j hj (by omega)

/-! ### the slot -/

structure FreshNext (P : Par) (x : Session) (k n : Nat) : Prop where
  qmem : RingFreshTo n QMEMDATA_LEN x.qmemdata x.qmemdataLast QmemEntry.zero (QRel P) k 36
  cache : RingFreshTo n DNSCACHE_LEN x.dnscache x.dcLast DnsCacheEntry.zero (CRel P) k 36

theorem FreshNext.mono {P : Par} {x : Session} {k n n' : Nat} (h : FreshNext P x k n) (hn : n' ≤ n) : FreshNext P x k n' :=
  ⟨h.qmem.mono hn, h.cache.mono hn⟩

theorem FreshNext.memEq {P : Par} {x y : Session} {k n : Nat} (h : FreshNext P x k n) (e : MemEq y x) : FreshNext P y k n := by
  refine ⟨?_, ?_⟩
  · rw [e.q, e.ql]; exact h.qmem
  · rw [e.c, e.cl]; exact h.cache

theorem Fresh.memEq {P : Par} {x y : Session} {k n : Nat} (h : Fresh P x k n) (e : MemEq y x) : Fresh P y k n :=
  ⟨by rw [e.c]; exact h.cache, by rw [e.q]; exact h.qmem⟩

theorem getD_mem_of_lt {α : Type} (l : List α) (p : Nat) (d : α) (h : p < l.length) : l.getD p d ∈ l := by
  rw [List.getD_eq_getElem?_getD, List.getElem?_eq_getElem h]
  exact List.getElem_mem h

/-- the static condition of C02v3 implies the ring-aware one -/
theorem Fresh.freshNext {P : Par} {x : Session} {k n : Nat} (h : Fresh P x k n) (hw : RingWF x) : FreshNext P x k n := by
  refine ⟨?_, ?_⟩
  · intro i hi j hj _ ⟨h1, _, h3⟩
    have hm := getD_mem_of_lt x.qmemdata (ringPos QMEMDATA_LEN x.qmemdataLast i) QmemEntry.zero
      (by rw [hw.qlen]; exact ringPos_lt _ _ _ hw.qlast hi)
    exact h.qmem _ hm h1 ⟨j, hj, h3⟩
  · intro i hi j hj _ ⟨h1, h2, _, h4⟩
    have hm := getD_mem_of_lt x.dnscache (ringPos DNSCACHE_LEN x.dcLast i) DnsCacheEntry.zero
      (by rw [hw.clen]; exact ringPos_lt _ _ _ hw.clast hi)
    exact h.cache _ hm h1 h2 ⟨j, hj, h4⟩

/-- the query that carries the counter value `k` passes both duplicate filters -/
theorem FreshNext.fresh {P : Par} {x : Session} {k n : Nat} (h : FreshNext P x k (n + 1)) (hw : RingWF x) (hk : k < 36) :
    Fresh P x k (0 + 1) := by
  constructor
  · intro e he h1 h2 ⟨i, hi, hc⟩
    have hi0 : i = 0 := by omega
    subst hi0
    rw [Nat.add_zero, Nat.mod_eq_of_lt hk] at hc
    exact h.cache.miss hw.clen hw.clast hk e he ⟨h1, h2, hk, hc⟩
  · intro e he h1 ⟨i, hi, hc⟩
    have hi0 : i = 0 := by omega
    subst hi0
    rw [Nat.add_zero, Nat.mod_eq_of_lt hk] at hc
    exact h.qmem.miss hw.qlen hw.qlast hk e he ⟨h1, hk, hc⟩

theorem cmcChar_next_ne {k j : Nat} (hk : k < 36) (hj : j < 15) : cmcChar ((k + 1 + j) % 36) ≠ cmcChar k := by
  intro hc
  have := (cmcChar_facts k hk).1 ((k + 1 + j) % 36) (Nat.mod_lt _ (by decide)) hc
  omega

/-- the data query that carries `k` and its answer are remembered: fresh for the next `n` values -/
theorem FreshNext.memo {P : Par} {x : Session} {k n : Nat} (h : FreshNext P x k (n + 1)) (hw : RingWF x) (hk : k < 36)
    (q : Query) (ans : List Nat) (hans : ans.length ≤ DNSCACHE_ANSWER_SIZE) (h4 : q.name.getD 4 0 = cmcChar k)
    (h5 : 5 ≤ q.name.length) (h0 : q.name.getD 0 0 ≠ 80 ∧ q.name.getD 0 0 ≠ 112) :
    FreshNext P (cacheUpd (qmemUpd x q) q ans) ((k + 1) % 36) n := by
  rw [cacheUpd_eq _ _ _ hans, qmemUpd_data x q h5 h0]
  have hcm : (dataCmc q.name).getD 3 0 = cmcChar k := by
    unfold dataCmc
    simp only [List.range, List.range.loop, List.map, List.getD_cons_succ, List.getD_cons_zero]
    rw [h4, if_neg (cmcChar_facts k hk).2.1]
  refine ⟨?_, ?_⟩
  · apply h.qmem.push hw.qlen hw.qlast
    intro j _ hjL ⟨_, _, hc⟩
    simp only at hc
    rw [hcm] at hc
    exact cmcChar_next_ne hk (by simpa [QMEMDATA_LEN] using hjL) hc.symm
  · apply h.cache.push hw.clen hw.clast
    intro j _ hjL ⟨_, _, _, hc⟩
    simp only at hc
    rw [h4] at hc
    exact cmcChar_next_ne hk (by simp [DNSCACHE_LEN] at hjL; omega) hc.symm

/-- the answer to a ping is remembered: no data-CMC value is consumed -/
theorem FreshNext.memo_ping {P : Par} (hu : P.u < 16) {x : Session} {k n : Nat} (h : FreshNext P x k n) (hw : RingWF x)
    (q : Query) (ans : List Nat) (hans : ans.length ≤ DNSCACHE_ANSWER_SIZE) (h0 : q.name.getD 0 0 = 112) (cp : Nat)
    (hcp : q.name.idxOf? 46 = some cp) (hl : 4 ≤ (Codec.dec Codec.b32 8 (cp - 1) (q.name.drop 1)).length) :
    FreshNext P (cacheUpd (qmemUpd x q) q ans) k n := by
  have hne : hexLower P.u ≠ 112 := (hexLower_not_ping hu).2
  rw [cacheUpd_eq _ _ _ hans, qmemUpd_ping x q h0 cp hcp hl]
  refine ⟨h.qmem, ?_⟩
  apply h.cache.push_irrel hw.clen hw.clast
  intro c ⟨_, hc, _⟩
  simp only at hc
  rw [h0] at hc
  exact hne hc.symm

/-- a fully aged slot is fresh for the next `22 − sl` values: in particular the invariant of the clean path (`Aged … 1`)
implies `FreshNext … 21` -/
theorem Aged.freshNext {P : Par} {x : Session} {k sl : Nat} (h : Aged P x k sl) (hk : k < 36) (n : Nat) (hn : n + 14 + sl ≤ 36) : FreshNext P x k n := by
  refine ⟨?_, ?_⟩
  · intro i hi j hj _ hr
    obtain ⟨a, h1, h2, h3, h4⟩ := h.qmem i hi _ hr
    simp only [QMEMDATA_LEN] at hi
    omega
  · intro i hi j hj hij hr
    obtain ⟨a, h1, h2, h3, h4⟩ := h.cache i hi _ hr
    simp only [DNSCACHE_LEN] at hi hij
    omega

end Iodine.C02L
