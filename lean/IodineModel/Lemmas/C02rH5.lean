import IodineModel.Lemmas.C02rH2
import IodineModel.Lemmas.C02rO2
import IodineModel.Lemmas.C02qO5
/-
C02 / OVERLAPPING transfers, lazy mode, ENDINGS — the LAST upstream fragment under `UpFlightNQ` (the server holds no query):
five scheduler steps (`deliverUp`: the packet goes to the server's tun device, the data query is parked in `q_sendrealsoon`;
`tickS`: the server's 20 ms timer answers the parked query with a dataless acknowledgement; `deliverDown`: the client's
packet is complete, `send_ping_soon = 20`; `tickC`: the 20 ms timer sends a ping; `deliverUp`: the server HOLDS the ping) —
quiescent again (`QuietLazy`).
-/
namespace Iodine.C02L

section serverrO
open Iodine Iodine.Gen Iodine.Server Iodine.World

/-- `srv_recv_last_noq` (`C02qO5.lean`) once more, with one more conjunct: `outfragresent` is untouched -/
theorem srv_recv_last_noq_resrO {P : Par} (hP : P.Ok) {s : Srv} (hS : SStat P s) (hp : PingSrvL P s)
    (hout : (getUser s P.u).outpacket.len = 0) {k : Nat} (hk : k < 36) (hA : Aged P (getUser s P.u) k 1)
    {Q : Query} {sq fr : Nat} {dsq dfr : Int} {frame : List Nat} {o m : Nat}
    (hQ : UpQ P Q ⟨sq, fr, dsq, dfr, true⟩ k (((0x5a :: frame).drop o).take m))
    (hE : Expect (getUser s P.u) (0x5a :: frame) sq o fr) (hsq : sq < 8) (hfr : fr < 16)
    (hm : o + m = (0x5a :: frame).length) (h64 : (0x5a :: frame).length ≤ 65536) (h24 : 24 ≤ frame.length)
    (hdst : ipDst frame ≠ (getUser s P.u).tunIp) :
    ∃ s' evs t, iteration s (.q Q) s.now = (s', evs, t) ∧ downOfEvents evs = [] ∧
      tunOfSEvents evs = [[0, 0, 8, 0] ++ frame.drop 4] ∧
      SStat P s' ∧ (getUser s' P.u).q.id = 0 ∧ (getUser s' P.u).qs = Q ∧ (getUser s' P.u).lazy = true ∧
      (getUser s' P.u).outpacket = (getUser s P.u).outpacket ∧ (getUser s' P.u).oqFilled = (getUser s P.u).oqFilled ∧
      (getUser s' P.u).tunIp = (getUser s P.u).tunIp ∧ (getUser s' P.u).fragsize = (getUser s P.u).fragsize ∧
      (getUser s' P.u).inpacket.seqno = (sq : Int) ∧ (getUser s' P.u).inpacket.fragment = (fr : Int) ∧ s'.now = s.now ∧
      (getUser s' P.u).dnscache = (getUser s P.u).dnscache ∧ (getUser s' P.u).dcLast = (getUser s P.u).dcLast ∧
      (getUser s' P.u).qmemdata = (getUser s P.u).qmemdata ∧ (getUser s' P.u).qmemdataLast = (getUser s P.u).qmemdataLast ∧
      (getUser s' P.u).qmemping = (getUser s P.u).qmemping ∧ (getUser s' P.u).qmempingLast = (getUser s P.u).qmempingLast ∧
      (getUser s' P.u).outfragresent = (getUser s P.u).outfragresent := by
  obtain ⟨dlen, hdl, h6, hparse, hpl⟩ := hQ.parse
  have htop := topSess_live hS
  have hu := hS.solo.lt
  have hF := hA.fresh hk (by omega)
  generalize hx0 : ({ getUser s P.u with qsNew := false } : Session) = x0 at htop
  have hx0s : XStat P x0 := by subst hx0; exact ⟨hS.x.active, hS.x.auth, hS.x.enabled, hS.x.conn, hS.x.enc, hS.x.oseq, hS.x.ofrag, hS.x.iseq, hS.x.ifrag⟩
  have hx0out : x0.outpacket.len = 0 := by subst hx0; exact hout
  have hx0q : x0.q.id = 0 := by subst hx0; exact hp.q
  have hx0qs : x0.qs.id = 0 := by subst hx0; exact hp.qs
  have hx0lz : x0.lazy = true := by subst hx0; exact hp.lz
  have hx0f : Fresh P x0 k (0 + 1) := by subst hx0; exact ⟨hF.cache, hF.qmem⟩
  have hx0e : Expect x0 (0x5a :: frame) sq o fr := by subst hx0; exact hE
  have hx0o : x0.outpacket = (getUser s P.u).outpacket := by subst hx0; rfl
  have hx0h : x0.host = (getUser s P.u).host := by subst hx0; rfl
  have hx0t : x0.tunIp = (getUser s P.u).tunIp := by subst hx0; rfl
  have hx0c : x0.dnscache = (getUser s P.u).dnscache := by subst hx0; rfl
  have hx0m : x0.qmemdata = (getUser s P.u).qmemdata := by subst hx0; rfl
  have hx0oq : x0.oqFilled = (getUser s P.u).oqFilled := by subst hx0; rfl
  obtain ⟨I, hup, hI⟩ := accept_of_expect hx0e hx0s.iseq
  obtain ⟨e1, e2, e3, e4, e5, _⟩ := expect_stored hP (sq := sq) (f := fr) hx0s.enc _ hpl hI (Nat.le_of_eq hm) h64
  generalize hst : stored x0 I ((Q.name.take (min dlen 512)).drop 5) = st at e1 e2 e3 e4 e5
  have hstc : core st = core { x0 with inpacket := st.inpacket } := by
    subst hst; unfold stored dataStore; rfl
  have hun : uncompress (st.inpacket.data.take st.inpacket.len) 65536 = some frame := by
    rw [e5, e4, hm, List.take_take, Nat.min_self, List.take_length]
    exact uncompress_compress frame (by simp at h64; omega)
  have hit := iteration_data hS.solo Q s.now dlen hP.hu (by rw [hS.td]; exact hdl) h6 hQ.c0 (hQ.ty ▸ hP.tty) hQ.id
    (admitted_entry hS Q hQ.from_)
    (by rw [htop]; exact hx0f.cacheMiss Q hQ.ty hQ.c0 hQ.c4 hk)
    (by rw [htop]; exact hx0f.qmemMiss Q hQ.ty hQ.c4 hk)
    (by rw [htop]; exact Or.inl hx0q) (by rw [htop]; exact Or.inl hx0qs)
    (by
      rw [htop, hparse]
      intro _
      rw [dataASess_accept x0 _ _ I hx0out hup, hst]
      intro ⟨out', h1, _, _, _, _, _, h7⟩
      rw [hun] at h1
      have : out' = frame := (Option.some.inj h1).symm
      subst this
      have : st.tunIp = x0.tunIp := by have h9 := core_tunIp hstc; exact h9
      rw [this, hx0t] at h7
      exact hdst h7)
  rw [htop, hparse, dataSess_noq_last x0 P.u Q _ _ s.now I hx0out hx0q hx0qs rfl hup, hst] at hit
  simp only at hit
  have hfe : fullEvs st = [writeTun frame] := by
    unfold fullEvs
    rw [hun]
    simp only
    rw [if_pos (by omega)]
  generalize hY : parkQ (saveQ (fullSess st) Q s.now) = Y at hit
  have hYc : core Y = core { x0 with
      inpacket := { st.inpacket with len := 0, offset := 0 }, qs := Q, qsNew := true, q := { Q with id := 0 }, lastPkt := s.now } := by
    subst hY
    have := hstc
    unfold core at this ⊢
    unfold parkQ saveQ fullSess
    simp only [Session.mk.injEq] at this ⊢
    simp [this]
  have fA : Y.active = x0.active := by have h9 := core_active hYc; exact h9
  have fB : Y.authenticated = x0.authenticated := by have h9 := core_authenticated hYc; exact h9
  have fC : Y.disabled = x0.disabled := by have h9 := core_disabled hYc; exact h9
  have fD : Y.conn = x0.conn := by have h9 := core_conn hYc; exact h9
  have fE : Y.encoder = x0.encoder := by have h9 := core_encoder hYc; exact h9
  have fF : Y.outpacket = x0.outpacket := by have h9 := core_outpacket hYc; exact h9
  have fG : Y.inpacket = { st.inpacket with len := 0, offset := 0 } := by have h9 := core_inpacket hYc; exact h9
  have fH : Y.q = { Q with id := 0 } := by have h9 := core_q hYc; exact h9
  have fI : Y.qs = Q := by have h9 := core_qs hYc; exact h9
  have fJ : Y.lazy = x0.lazy := by have h9 := core_lazy hYc; exact h9
  have fK : Y.host = x0.host := by have h9 := core_host hYc; exact h9
  have fL : Y.lastPkt = s.now := by have h9 := core_lastPkt hYc; exact h9
  have fM : Y.qsNew = true := by have h9 := core_qsNew hYc; exact h9
  have fN : Y.dnscache = x0.dnscache := by subst hY; subst hst; rfl
  have fO : Y.qmemdata = x0.qmemdata := by subst hY; subst hst; rfl
  have fN2 : Y.dcLast = x0.dcLast := by subst hY; subst hst; rfl
  have fO2 : Y.qmemdataLast = x0.qmemdataLast := by subst hY; subst hst; rfl
  have fP : Y.qmemping = x0.qmemping := by subst hY; subst hst; rfl
  have fP2 : Y.qmempingLast = x0.qmempingLast := by subst hY; subst hst; rfl
  have fQ : Y.oqFilled = x0.oqFilled := by have h9 := core_oqFilled hYc; exact h9
  have fT : Y.tunIp = x0.tunIp := by have h9 := core_tunIp hYc; exact h9
  have fS : Y.fragsize = x0.fragsize := by have h9 := core_fragsize hYc; exact h9
  have fR : Y.outfragresent = x0.outfragresent := by have h9 := core_outfragresent hYc; exact h9
  -- the sweep leaves the query that was parked in this very iteration alone
  have hsw : sweepSess Y P.u s.now = (Y, []) := by
    unfold sweepSess
    rw [if_neg (by intro hc; have := hc.2.2.2; rw [fM] at this; simp at this)]
  rw [hsw, hfe] at hit
  dsimp only at hit
  have hg : getUser { putUser s P.u Y with now := s.now } P.u = Y := by
    rw [getUser_withNow, getUser_putUser_self _ _ _ hu]
  refine ⟨_, _, _, hit, rfl, rfl, ?_, ?_, ?_, ?_, ?_, ?_, ?_, ?_, ?_, ?_, rfl, ?_, ?_, ?_, ?_, ?_, ?_, ?_⟩
  · refine ⟨(hS.solo.putUser Y).withNow _, hS.td, ?_, ?_, ?_⟩
    · rw [hg]
      refine ⟨fA ▸ hx0s.active, fB ▸ hx0s.auth, fC ▸ hx0s.enabled, fD ▸ hx0s.conn, fE ▸ hx0s.enc, fF ▸ hx0s.oseq, fF ▸ hx0s.ofrag, ?_, ?_⟩
      · rw [fG]; show 0 ≤ st.inpacket.seqno ∧ st.inpacket.seqno < 8; rw [e1]; omega
      · rw [fG]; show 0 ≤ st.inpacket.fragment ∧ st.inpacket.fragment < 16; rw [e2]; omega
    · rw [hg, fK, hx0h]; exact hS.host
    · rw [hg, fL]; show s.now < s.now + 60; omega
  · rw [hg, fH]
  · rw [hg, fI]
  · rw [hg, fJ]; exact hx0lz
  · rw [hg, fF, hx0o]
  · rw [hg, fQ, hx0oq]
  · rw [hg, fT, hx0t]
  · rw [hg, fS]; subst hx0; rfl
  · rw [hg, fG]; exact e1
  · rw [hg, fG]; exact e2
  · rw [hg, fN, hx0c]
  · rw [hg, fN2]; subst hx0; rfl
  · rw [hg, fO, hx0m]
  · rw [hg, fO2]; subst hx0; rfl
  · rw [hg, fP]; subst hx0; rfl
  · rw [hg, fP2]; subst hx0; rfl
  · rw [hg, fR]; subst hx0; rfl

end serverrO

open Iodine Iodine.Gen Iodine.World

/-- `ackSess` on a slot without outpacket does nothing -/
theorem ackSess_len0_rO (x : Server.Session) (a b : Int) (h : x.outpacket.len = 0) : ackSess x a b = x := by
  unfold ackSess
  rw [if_pos h]

/-- **The last upstream fragment under `UpFlightNQ`** (five scheduler steps): quiescent again, the frame is out on the
server's tun device. -/
theorem upnq_last_step {P : Par} (hP : P.Ok) {frame : List Nat} {w : W} {c0 : Client.Cli} {o f : Nat}
    (h : UpFlightNQ P (0x5a :: frame) w c0 o f) (h64 : (0x5a :: frame).length ≤ 65536)
    (heq : o + fragLen P ((0x5a :: frame).drop o) = (0x5a :: frame).length) (h24 : 24 ≤ frame.length)
    (hdst : Server.ipDst frame ≠ (Server.getUser w.srv P.u).tunIp) :
    ∃ w', promptSteps P.u 5 w = some w' ∧ QuietLazy P w' ∧ w'.tunS = w.tunS ++ [[0, 0, 8, 0] ++ frame.drop 4] ∧
      w'.tunC = w.tunC ∧
      (Server.getUser w'.srv P.u).tunIp = (Server.getUser w.srv P.u).tunIp ∧
      (Server.getUser w'.srv P.u).fragsize = (Server.getUser w.srv P.u).fragsize := by
  generalize hout : (0x5a :: frame) = out at h h64 heq
  obtain ⟨name, hsend, hm1, hm2, hQ⟩ := send_readyL hP h.ready
  generalize hm : fragLen P (out.drop o) = m at *
  have hlast : (m == out.length - o) = true := by
    rw [beq_iff_eq]; omega
  rw [hlast] at hQ
  have hsf := sentFactsL c0
  have hsi := sentIdsL c0
  have hcst := cstat_sentL h.ready
  have hup : w.up = [.query (sentState c0).chunkid P.ty name] := by rw [h.up, hsend]; rfl
  have hsq : c0.outpkt.seqno.toNat < 8 := by have := h.ready.stat.oseq; omega
  have hsqc : ((c0.outpkt.seqno.toNat : Nat) : Int) = c0.outpkt.seqno := by have := h.ready.stat.oseq; omega
  have hcmc := h.ready.stat.cmc
  -- step 1: the server receives the last fragment, writes the packet to its tun device and parks the data query
  subst hout
  obtain ⟨s', evs, t, hit, hdown, htun, hS', hq', hqs', hlz', hout', hoq', htip', hfr', hiseq', hifrag', hnow', m1, m2, m3, m4, m5, m6, hres'⟩ :=
    srv_recv_last_noq_resrO hP h.srv.stat h.srv h.op hcmc h.aged hQ h.expect hsq h.ready.hf heq h64 h24 hdst
  have hA1 : Aged P (Server.getUser s' P.u) c0.datacmc 1 := h.aged.congr m3 m4 m1 m2
  have hPA1 : PAged P (Server.getUser s' P.u) c0.randSeed 1 := h.paged.congr m5 m6 m1 m2
  have hQid : (upQuery (sentState c0).chunkid P.ty name).id = (sentState c0).chunkid := upQuery_id _ _ _
  have hQB := hQ.heldBase
  have hQD := hQ.heldData hcmc
  have hQc0 := hQ.c0
  have hQne := hQ.id
  generalize hQv : upQuery (sentState c0).chunkid P.ty name = Q at hit hqs' hQid hQB hQD hQc0 hQne
  have hq1 : quiet P.u w = false := quiet_false_of_up _ _ _ _ hup
  have hs1 : step w (promptEv w) =
      { w with up := [], srv := s', tunS := w.tunS ++ [[0, 0, 8, 0] ++ frame.drop 4] } := by
    rw [promptEv_up w _ _ hup, step_deliverUp w _ _ hup, srvInput_query, hQv, stepS_zero { w with up := [] } _ s' evs t hit, hdown, htun]
    simp [h.down]
  generalize hw2 : ({ w with up := [], srv := s', tunS := w.tunS ++ [[0, 0, 8, 0] ++ frame.drop 4] } : W) = w2 at hs1
  have hw2cs : w2.cs = w.cs := by subst hw2; rfl
  have hw2up : w2.up = [] := by subst hw2; rfl
  have hw2down : w2.down = [] := by subst hw2; exact h.down
  have hw2srv : w2.srv = s' := by subst hw2; rfl
  have hcnt1 : CntOk { sentStateL c0 with sendPingSoon := 0 } 1 := sentStateL_cnt0rO c0 h.cnt0
  generalize hc : ({ sentStateL c0 with sendPingSoon := 0 } : Client.Cli) = c at hsf hcst hsi hcnt1
  have hwc : w.cs = ⟨c, .tunnel⟩ := by rw [cstate_eta w.cs h.ph, h.cli, hc]
  have hlen0 : (0x5a :: frame).length ≠ 0 := by simp
  have hsending : Client.isSending c = true := by
    unfold Client.isSending
    rw [hsf.olen, h.ready.len]
    simp
  -- step 2: nothing in flight; the server's 20 ms timer (parked query) expires before the client's second
  have hq2 : quiet P.u w2 = false := by
    unfold World.quiet
    rw [hw2cs, hwc]
    simp [hsending]
  obtain ⟨s'', evs2, tunsel, hit2, hdown2, htun2, hP2, hin2, hout2, htun2', hnow2, hfrag2, hA2, hPA2⟩ :=
    srv_tick_parked_noq hP hS' (H := Q) hcmc hA1 hPA1 hQB hQD hq' hqs' hlz' (by rw [hout']; exact h.op)
      (by rw [hoq']; exact h.srv.oq) (by rw [hres']; exact h.srv.res)
  have htoS : timeoutS w2 = 20000 :=
    timeoutS_parkedrO (by rw [hw2srv]; exact hS') (by rw [hw2srv, hqs']; exact hQne)
  have htoC : timeoutC w2 = some 1000000 := by
    unfold timeoutC Client.pending
    rw [hw2cs, hwc]
    simp [Client.selectOf, hsf.sps, hsending]
  have hs2 : step w2 (promptEv w2) =
      { w2 with srv := s'', down := [.ans Q.id Q.type Q.name (Server.scPkt (Server.getUser s' P.u) 0)] } := by
    rw [promptEv_tickS w2 hw2up hw2down _ htoC (by rw [htoS]; decide)]
    show stepS w2 .tick (timeoutS w2 / 1000000) = _
    rw [htoS, show (20000 : Nat) / 1000000 = 0 from rfl, stepS_zero w2 _ s'' evs2 (20000, tunsel) (by rw [hw2srv]; exact hit2),
      hdown2, htun2, hw2down]
    simp
  generalize hw3 : ({ w2 with srv := s'', down := [.ans Q.id Q.type Q.name (Server.scPkt (Server.getUser s' P.u) 0)] } : W) = w3 at hs2
  have hw3cs : w3.cs = w.cs := by subst hw3; exact hw2cs
  have hw3up : w3.up = [] := by subst hw3; exact hw2up
  have hw3down : w3.down = [.ans Q.id Q.type Q.name (Server.scPkt (Server.getUser s' P.u) 0)] := by subst hw3; rfl
  have hw3srv : w3.srv = s'' := by subst hw3; rfl
  have hq3 : quiet P.u w3 = false := quiet_false_of_down _ _ _ _ hw3down
  -- step 3: the client receives the acknowledgement (the answer to its CURRENT query); the packet is complete
  generalize hpkt : Server.scPkt (Server.getUser s' P.u) 0 = pkt at hw3down hs2 hw3
  obtain ⟨hlen2, hdn, hus, huf⟩ := ack_hdr (x := Server.getUser s' P.u) (y := Server.getUser s' P.u) hpkt.symm
    hS'.x.iseq hS'.x.ifrag rfl hS'.x.oseq hS'.x.ofrag
  generalize hrq : (Client.Rq.mk (pkt.length : Int) Q.id (answerType Q.type) 0 (Q.name.headD 0) pkt) = rq
  have hdl : Client.tunnelDns c rq = Client.upstream (hintBook c) (Client.decodeHdr pkt) [] false 2 := by
    have := tunnelDns_dataless_cur c rq
      (by subst hrq; show Client.notData c (Q.name.headD 0) = false
          rw [headD_eq_getD]
          exact notData_held (hsf.useridChar.trans h.ready.stat.uch) _ (Or.inl hQc0))
      (by subst hrq; exact hlen2)
      (by subst hrq; show Q.id = c.chunkid; rw [hQid, hsi.cid])
      hcst.lz
      (by subst hrq; show (Client.decodeHdr pkt).dnSeq = c.inpkt.seqno; rw [hdn, hout', hsf.inpkt]; exact h.syncd)
    rw [hsf.sps] at this
    subst hrq
    exact this
  have hbk : (hintBook c).outpkt = c.outpkt := rfl
  have hdone := upstream_ack_done (hintBook c) (Client.decodeHdr pkt) [] false 2
    (by unfold Client.isSending; rw [hbk]; exact hsending)
    (by rw [hus, hiseq', hbk, hsf.oseq]; exact hsqc)
    (by rw [huf, hifrag', hbk, hsf.ofrag, h.ready.frag])
    (by rw [hbk, hsf.ooff, hsf.osent, hsf.olen, cFragLen_readyL h.ready, hm, h.ready.off, h.ready.len]; omega)
  generalize hcd : ackDone (hintBook c) = cd at hdone
  have hfp : Client.finalPing cd [] false 2 = (cd, [], .ret 2) := by simp [Client.finalPing]
  have hb := cstat_ackBookL hcst
  have hcdstat : CStatL P cd := by
    subst hcd
    exact ⟨hb.running, hb.conn, hb.lz, hb.uid, hb.uch, hb.td, hb.L, hb.enc, hb.ty, hb.cid, hb.cmc, hb.alive, hb.oseq, hb.iseq, hb.ifrag, hb.seed⟩
  have hcdcnt : CntOk cd 0 := by
    subst hcd
    refine cntOk_ackDone _ _ ?_
    have := ackBook_cnt' c 0 hcnt1
    unfold CntOk at *
    exact this
  have hcdidle : Client.isSending cd = false := by subst hcd; rfl
  have hcdsps : cd.sendPingSoon = 20 := by subst hcd; rfl
  have hstep3 : Client.cstep w3.cs (.rq rq) = (⟨cd, .tunnel⟩, [], .sel (Client.selectOf cd)) := by
    rw [hw3cs, hwc, cstep_rq c rq hcst.running hcst.alive hcst.conn, hdl, hdone, hfp]
    simp [Client.settle, Client.loopTop, hcdstat.running]
  have hnow3 : cd.now = w3.cs.c.now := by
    rw [hw3cs, hwc]; subst hcd; rfl
  have hs3 : step w3 (promptEv w3) = { w3 with down := [], cs := ⟨cd, .tunnel⟩ } := by
    rw [promptEv_down w3 _ _ hw3up hw3down, step_deliverDown w3 _ _ hw3down]
    have hci : cliInput (.ans Q.id Q.type Q.name pkt) = .rq rq := by subst hrq; rfl
    rw [hci, stepC_of _ _ _ _ _ (by exact hstep3) (by exact hnow3)]
    subst hw3
    simp [upOfEvents, tunOfCEvents, hw2up]
  have hcmc' : cd.datacmc = (c0.datacmc + 1) % 36 := by
    subst hcd; show c.datacmc = _; rw [hsf.cmc]
    split <;> omega
  have hseed' : cd.randSeed = c0.randSeed := by subst hcd; show c.randSeed = _; exact hsf.seed
  have hcdo : cd.outpkt.seqno = c0.outpkt.seqno := by subst hcd; show c.outpkt.seqno = _; exact hsf.oseq
  have hcdi : cd.inpkt = c0.inpkt := by subst hcd; show c.inpkt = _; exact hsf.inpkt
  generalize hw4 : ({ w3 with down := [], cs := ⟨cd, .tunnel⟩ } : W) = w4 at hs3
  have hw4c : w4.cs.c = cd := by subst hw4; rfl
  have hw4up : w4.up = [] := by subst hw4; exact hw3up
  have hw4down : w4.down = [] := by subst hw4; rfl
  have hw4srv : w4.srv = s'' := by subst hw4; exact hw3srv
  -- step 4: the client's 20 ms timer: a ping goes out
  have hq4 : quiet P.u w4 = false := quiet_false_of_noq (by rw [hw4srv]; exact hP2)
  have hsel : (Client.selectOf cd).to = 20000 := by
    simp [Client.selectOf, hcdsps]
  obtain ⟨name', hs4, hpq⟩ := poll_stepL hP (w := w4) (by subst hw4; rfl) (by rw [hw4c]; exact hcdstat)
    (by rw [hw4c]; exact hcdcnt.mono (by omega)) (by rw [hw4c]; exact hcdidle) hw4up hw4down
    (by rw [hw4c, hsel]; omega) (timeoutS_idleL (by rw [hw4srv]; exact hP2))
  rw [hw4c] at hs4 hpq
  generalize hw5 : ({ w4 with cs := ⟨pingStateL cd, .tunnel⟩, up := [.query (pingStateL cd).chunkid P.ty name'] } : W) = w5 at hs4
  have hw5srv : w5.srv = s'' := by subst hw5; exact hw4srv
  have hw5up : w5.up = [.query (pingStateL cd).chunkid P.ty name'] := by subst hw5; rfl
  have hw5down : w5.down = [] := by subst hw5; exact hw4down
  have hw5cs : w5.cs = ⟨pingStateL cd, .tunnel⟩ := by subst hw5; rfl
  -- step 5: the server has nothing to send and holds no query: it HOLDS the ping
  have hpf := pingFactsL cd
  have hq5 : quiet P.u w5 = false := quiet_false_of_up _ _ _ _ hw5up
  have hlen2' : (Server.getUser s'' P.u).outpacket.len = 0 := by rw [hout2, hout']; exact h.op
  generalize hx0 : ({ Server.getUser s'' P.u with qsNew := false } : Server.Session) = x0
  have hack : ackSess x0 cd.inpkt.seqno cd.inpkt.fragment = x0 := ackSess_len0_rO x0 _ _ (by subst hx0; exact hlen2')
  have hPA2' : PAged P (Server.getUser s'' P.u) cd.randSeed 1 := by rw [hseed']; exact hPA2
  have hA2' : Aged P (Server.getUser s'' P.u) cd.datacmc 1 := by rw [hcmc']; exact hA2
  obtain ⟨s5, evs5, t5, hit5, hdown5, htun5, hah, hsame⟩ :=
    srv_ping_lazy_hold hP hP2.stat hP2.q hP2.qs hP2.lz hP2.oq hpq hPA2' (by rw [hx0, hack]; subst hx0; exact hlen2')
  generalize hQ5 : upQuery (pingStateL cd).chunkid P.ty name' = Q5 at hit5 hah hpq
  obtain ⟨hS5, hq5', hqs5, hlz5, hoq5, hfs5, hin5, htun5', hop5⟩ := afterHold_stat hP2.stat hP2.oq hah
    (by rw [hx0, hack]; subst hx0; exact hP2.stat.x.oseq) (by rw [hx0, hack]; subst hx0; exact hP2.stat.x.ofrag)
  rw [hx0, hack] at hop5
  have hop5' : (Server.getUser s5 P.u).outpacket = (Server.getUser s'' P.u).outpacket := by rw [hop5]; subst hx0; rfl
  have hs5 : step w5 (promptEv w5) = { w5 with up := [], srv := s5 } := by
    rw [promptEv_up w5 _ _ hw5up, step_deliverUp w5 _ _ hw5up, srvInput_query, hQ5,
      stepS_zero { w5 with up := [] } _ s5 evs5 t5 (by rw [hw5srv]; exact hit5), hdown5, htun5]
    simp [hw5down]
  have hQ5id : Q5.id = (pingStateL cd).chunkid := by rw [← hQ5]; rfl
  refine ⟨{ w5 with up := [], srv := s5 }, ?_, ?_, ?_, ?_, ?_, ?_⟩
  · rw [promptSteps_succ hq1, hs1, promptSteps_succ hq2, hs2, promptSteps_succ hq3, hs3, promptSteps_succ hq4, hs4,
      promptSteps_succ hq5, hs5]
    rfl
  · refine ⟨by show w5.cs.ph = _; rw [hw5cs], ?_, ?_, ?_, rfl, hw5down, hS5, ?_, hoq5, ?_, ?_, ?_, ?_, ?_⟩
    · show CStatL P w5.cs.c
      rw [hw5cs]; exact cstatL_pingStateL hcdstat
    · show CntOk w5.cs.c 1
      rw [hw5cs]; exact (pingStateL_ids cd).2.2 0 hcdcnt
    · show Client.isSending w5.cs.c = false
      rw [hw5cs]
      unfold Client.isSending
      rw [hpf.outpkt]
      exact hcdidle
    · exact ⟨by rw [hop5']; exact hlen2', by rw [hq5']; exact hpq.id, by rw [hq5']; exact hpq.id2, by rw [hqs5]; exact hP2.qs,
        by rw [hlz5]; exact hP2.lz⟩
    · show HeldBase P (Server.getUser s5 P.u).q
      rw [hq5']; exact ⟨hpq.from_, hpq.id2, hpq.id, hpq.ty⟩
    · show (Server.getUser s5 P.u).q.id = w5.cs.c.chunkid
      rw [hq5', hQ5id, hw5cs]
    · show (Server.getUser s5 P.u).inpacket.seqno = w5.cs.c.outpkt.seqno
      rw [hin5, hin2, hiseq', hw5cs, hpf.outpkt, hcdo]; exact hsqc
    · show (Server.getUser s5 P.u).outpacket.seqno = w5.cs.c.inpkt.seqno
      rw [hop5', hout2, hout', hw5cs, hpf.inpkt, hcdi]; exact h.syncd
    · show HeldMem P (Server.getUser s5 P.u) (Server.getUser s5 P.u).q w5.cs.c.datacmc w5.cs.c.randSeed
      rw [hq5', hw5cs, hpf.datacmc, hpf.seed]
      right
      refine ⟨cd.randSeed, ⟨hpq.sdlt, hpq.c0, hpq.fp, hpq.seed⟩, behind_next16 _ hpq.sdlt, ?_, ?_⟩
      · exact hA2'.congr hsame.1 hsame.2.1 hsame.2.2.2.2.1 hsame.2.2.2.2.2
      · exact (hPA2'.step hpq.sdlt (by omega)).congr hsame.2.2.1 hsame.2.2.2.1 hsame.2.2.2.2.1 hsame.2.2.2.2.2
  · subst hw5; subst hw4; subst hw3; subst hw2; rfl
  · subst hw5; subst hw4; subst hw3; subst hw2; rfl
  · subst hw5; subst hw4; subst hw3; subst hw2
    show (Server.getUser s5 P.u).tunIp = _
    rw [htun5', htun2', htip']
  · subst hw5; subst hw4; subst hw3; subst hw2
    show (Server.getUser s5 P.u).fragsize = _
    rw [hfs5, hfrag2, hfr']

#print axioms upnq_last_step

end Iodine.C02L
