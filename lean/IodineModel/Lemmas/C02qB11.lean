import IodineModel.Lemmas.C02qB6
import IodineModel.Lemmas.C02qB7
/-
C02, phase 2, sub-package "blackout" — part 11: COMPOSITION WITNESS, `k = 8`, `k = 3` (kernel-evaluated).
-/
namespace Iodine.C02L
open Iodine Iodine.Gen Iodine.World Iodine.C02

/-- TEST `k = 8`: none lost (the numbers agree again) -/
theorem compose_k8 : cleanAfter (bkW 8) [fB 0, fB 1] [fB 0, fB 1] = true := by decide +kernel

/-- TEST `k = 3`: none lost (3 ahead is outside the window) -/
theorem compose_k3 : cleanAfter (bkW 3) [fB 0, fB 1] [fB 0, fB 1] = true := by decide +kernel

theorem compose_k8' :
    (offerAllC 0 80 (giveupRunUp [fA 0, fA 1, fA 2, fA 3, fA 4, fA 5, fA 6, fA 7] exW) [fB 0, fB 1]).tunS = [fB 0, fB 1] := by
  have := compose_k8
  rw [bk_chain8]
  unfold cleanAfter at this
  simp only [Bool.and_eq_true, beq_iff_eq] at this
  exact this.1.2

theorem compose_k3' : (offerAllC 0 80 (giveupRunUp [fA 0, fA 1, fA 2] exW) [fB 0, fB 1]).tunS = [fB 0, fB 1] := by
  have := compose_k3
  rw [bk_chain3]
  unfold cleanAfter at this
  simp only [Bool.and_eq_true, beq_iff_eq] at this
  exact this.1.2

end Iodine.C02L
