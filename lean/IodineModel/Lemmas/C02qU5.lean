import IodineModel.Lemmas.C02qU4
/-
C02, phase 2 — upstream, immediate mode, desynchronised: the fourth timeout.  The client gives the packet up and sends a
ping; the idle server answers it; the client is idle again, its sequence number one further ahead of the server's.
-/
namespace Iodine.C02L
open Iodine Iodine.Gen Iodine.World

theorem stuck_giveup {P : Par} (hP : P.Ok) {sl sp : Nat} {out : List Nat} {w : W} {c0 : Client.Cli} (h : WaitingS P sl sp out w c0)
    (hr : 3 ≤ c0.outchunkresent) (hsp : 1 ≤ sp ∧ sp ≤ 999 := by omega) :
    ∃ w', (∀ k, promptSteps P.u (k + 3) w = promptSteps P.u k w') ∧
      w'.cs.ph = .tunnel ∧ CStat P w'.cs.c ∧ Client.isSending w'.cs.c = false ∧ w'.up = [] ∧ w'.down = [] ∧
      SStat P w'.srv ∧ IdleImm (Server.getUser w'.srv P.u) ∧ (Server.getUser w'.srv P.u).oqFilled = 0 ∧
      w'.cs.c.outpkt.seqno = c0.outpkt.seqno ∧ w'.cs.c.inpkt = c0.inpkt ∧
      (Server.getUser w'.srv P.u).inpacket = (Server.getUser w.srv P.u).inpacket ∧
      (Server.getUser w'.srv P.u).outpacket = (Server.getUser w.srv P.u).outpacket ∧
      Aged P (Server.getUser w'.srv P.u) w'.cs.c.datacmc sl ∧ PAged P (Server.getUser w'.srv P.u) w'.cs.c.randSeed sp ∧
      w'.tunS = w.tunS ∧ w'.tunC = w.tunC ∧
      (Server.getUser w'.srv P.u).tunIp = (Server.getUser w.srv P.u).tunIp ∧
      (Server.getUser w'.srv P.u).fragsize = (Server.getUser w.srv P.u).fragsize ∧ w'.srv.now = w.srv.now + 1 ∧
      w'.cs.c.selecttimeout = c0.selecttimeout ∧ w'.cs.c.sendPingSoon = 0 ∧
      (Server.getUser w'.srv P.u).lastPkt = w'.srv.now ∧ w'.cs.c.lastdownstreamtime = w'.cs.c.now := by
  have hsf := sentFacts c0
  obtain ⟨hpe, hq⟩ := waiting_prompt h
  have hsel := waiting_sel h
  have hsend := waiting_sending h
  generalize hc : ({ sentState c0 with sendPingSoon := 0 } : Client.Cli) = c at hsf
  have hcli : w.cs.c = ackBook c := by rw [h.cli, hc]
  have hwc : w.cs = ⟨ackBook c, .tunnel⟩ := by rw [cstate_eta w.cs h.ph, hcli]
  rw [hcli] at hsel hsend
  have hT : ((Client.selectOf (ackBook c)).to / 1000000).toNat = 1 := by rw [hsel]; rfl
  generalize hc1 : Client.advanceClock (ackBook c) (Client.selectOf (ackBook c)) = c1
  have hc1fr : c1 = { ackBook c with now := c1.now } := by rw [← hc1]; rfl
  have hc1now : c1.now = (ackBook c).now + 1 := by rw [← hc1, advanceClock_now, hT]
  have hres : c1.outchunkresent = c0.outchunkresent := by
    rw [hc1fr]; show c.outchunkresent = _; rw [← hc]; simp [sentState, Client.rotateChunkid]
  have hst := h.cst
  rw [hcli] at hst
  -- the state the ping is sent from
  generalize hdp : dropPkt c1 = dp
  have hdpst : CStat P dp := by
    rw [← hdp, hc1fr]
    exact ⟨hst.running, hst.conn, hst.imm, hst.uid, hst.uch, hst.td, hst.L, hst.enc, hst.ty, hst.cid, hst.cmc,
      by show ¬ (ackBook c).lastdownstreamtime + 60 < c1.now; rw [hc1now]; show ¬ c.now + 60 < c.now + 1; omega,
      hst.oseq, hst.iseq, hst.ifrag, hst.seed⟩
  have hdpidle : Client.isSending dp = false := by rw [← hdp]; rfl
  obtain ⟨name, hsendp, hpq⟩ := sendPing_ready hP hdpst
  have htb : Client.timeoutBranch c1 = Client.afterSend (Client.sendPing dp) [] .timeout := by
    have hs1 : Client.isSending c1 = true := by rw [hc1fr]; exact hsend
    have : ¬ c1.outchunkresent < 3 := by rw [hres]; omega
    rw [← hdp]
    unfold Client.timeoutBranch
    simp [hs1, this]
  have hstep : Client.cstep w.cs .tick = (⟨pingState dp, .tunnel⟩, [.query (pingState dp).chunkid P.ty name],
      .sel (Client.selectOf (pingState dp))) := by
    rw [hwc]
    show Client.tunnelStep (ackBook c) .tick = _
    rw [tunnelStep_tick (ackBook c) hst.running (by rw [hc1, hc1now]; show ¬ c.now + 60 < c.now + 1; omega), hc1, htb]
    have hrun : (Client.rotateChunkid { dp with randSeed := (dp.randSeed + 1) % 65536 }).running = true := by
      have : (Client.rotateChunkid { dp with randSeed := (dp.randSeed + 1) % 65536 }).running = dp.running := by
        simp [Client.rotateChunkid]
      rw [this]; exact hdpst.running
    rw [settle_afterSend _ _ _ (by rw [hsendp]) (by rw [hsendp]; exact hrun), hsendp]
    have e : ({ Client.rotateChunkid { dp with randSeed := (dp.randSeed + 1) % 65536 } with sendPingSoon := 0 } : Client.Cli) =
        pingState dp := by unfold pingState; rfl
    simp only [List.nil_append]
    rw [e]
    have e2 : (Client.rotateChunkid { dp with randSeed := (dp.randSeed + 1) % 65536 }).chunkid = (pingState dp).chunkid := by
      rw [← e]
    rw [e2]
  have hpf := pingFacts dp
  have hdpnow : dp.now = w.cs.c.now + 1 := by rw [← hdp, hcli]; show c1.now = _; exact hc1now
  have hs0 : step w (promptEv w) =
      { w with cs := ⟨pingState dp, .tunnel⟩, srv := { w.srv with now := w.srv.now + 1 },
               up := [.query (pingState dp).chunkid P.ty name] } := by
    rw [hpe, step_tickC, stepC_tick w _ _ _ hstep, h.up]
    have hn2 : (pingState dp).now - w.cs.c.now = 1 := by rw [hpf.now, hdpnow]; omega
    simp only [hn2, List.nil_append, upOfEvents, tunOfCEvents, List.append_nil]
  have e3 : (pingState dp).chunkid = (Client.rotateChunkid { dp with randSeed := (dp.randSeed + 1) % 65536 }).chunkid := by
    simp [pingState]
  rw [← e3] at hpq
  generalize hw1 : ({ w with cs := ⟨pingState dp, .tunnel⟩, srv := { w.srv with now := w.srv.now + 1 }, up := [.query (pingState dp).chunkid P.ty name] } : W) = w1 at hs0
  have hw1srv : w1.srv = { w.srv with now := w.srv.now + 1 } := by subst hw1; rfl
  have hw1up : w1.up = [.query (pingState dp).chunkid P.ty name] := by subst hw1; rfl
  have hw1down : w1.down = [] := by subst hw1; exact h.down
  have hS1 : SStat P w1.srv := by rw [hw1srv]; exact h.srv.advance 1 (by rw [h.last]; omega)
  have hg1 : Server.getUser w1.srv P.u = Server.getUser w.srv P.u := by rw [hw1srv]; rfl
  -- step 2: the ping reaches the idle server
  have hseed : dp.randSeed = c0.randSeed := by rw [← hdp, hc1fr]; show c.randSeed = _; exact hsf.seed
  have hcmc : dp.datacmc = (c0.datacmc + 1) % 36 := by
    rw [← hdp, hc1fr]; show c.datacmc = _; rw [hsf.cmc]
    have := h.ready.stat.cmc
    split <;> omega
  have hinp : dp.inpkt = c0.inpkt := by rw [← hdp, hc1fr]; show c.inpkt = _; exact hsf.inpkt
  obtain ⟨s', evs, t, pkt, hit, hd, htn, hap, hA', hPA'⟩ := srv_ping_idle hP hS1 (by rw [hg1]; exact h.idle) (by rw [hg1]; exact h.oq) hpq
    (k := (c0.datacmc + 1) % 36) (by rw [hg1]; exact h.aged) (by rw [hg1, hseed]; exact h.paged)
  have hq1 : quiet P.u w1 = false := quiet_false_of_up _ _ _ _ hw1up
  have hs1 : step w1 (promptEv w1) = { w1 with up := [], srv := s', down := [.ans (pingState dp).chunkid P.ty name pkt] } := by
    rw [promptEv_up w1 _ _ hw1up, step_deliverUp w1 _ _ hw1up, srvInput_query,
      stepS_zero { w1 with up := [] } _ s' evs t hit, hd, htn]
    simp [hw1down, upQuery]
  -- step 3: the client receives the dataless answer
  obtain ⟨y, hpkt, hyo, hyi⟩ := hap.pkt
  rw [hg1] at hyo hyi
  obtain ⟨hlen2, hdn, _, _⟩ := ack_hdr (x := Server.getUser w.srv P.u) hpkt (by rw [hyi]; exact h.srv.x.iseq)
    (by rw [hyi]; exact h.srv.x.ifrag) hyo h.srv.x.oseq h.srv.x.ofrag
  generalize hw2 : ({ w1 with up := [], srv := s', down := [.ans (pingState dp).chunkid P.ty name pkt] } : W) = w2 at hs1
  have hw2cs : w2.cs = ⟨pingState dp, .tunnel⟩ := by subst hw2; subst hw1; rfl
  have hw2up : w2.up = [] := by subst hw2; rfl
  have hw2down : w2.down = [.ans (pingState dp).chunkid P.ty name pkt] := by subst hw2; rfl
  have hq2 : quiet P.u w2 = false := quiet_false_of_down _ _ _ _ hw2down
  have hcst := cstat_pingState hdpst
  generalize hrq : (Client.Rq.mk (pkt.length : Int) (pingState dp).chunkid (answerType P.ty) 0 (name.headD 0) pkt) = rq
  have hci : cliInput (.ans (pingState dp).chunkid P.ty name pkt) = .rq rq := by subst hrq; rfl
  have hidle : Client.isSending (pingState dp) = false := by
    unfold Client.isSending; rw [hpf.outpkt]; exact hdpidle
  have hdl : Client.tunnelDns (pingState dp) rq = Client.upstream (ackBook (pingState dp)) (Client.decodeHdr pkt) [] false 2 := by
    have := tunnelDns_dataless' (pingState dp) rq
      (by
        subst hrq
        show Client.notData _ (name.headD 0) = false
        have h0 : name.getD 0 0 = 112 := hpq.c0
        rw [headD_eq_getD, h0]; simp [Client.notData])
      (by subst hrq; exact hlen2)
      (by subst hrq; unfold Client.recentId; simp)
      hpf.sps hcst.imm
      (by subst hrq; show (Client.decodeHdr pkt).dnSeq = _; rw [hdn, hpf.inpkt, hinp]; exact h.syncd)
    subst hrq
    exact this
  have hoth := (upstream_other_ack (ackBook (pingState dp)) (Client.decodeHdr pkt) [] false 2
    (by intro hc; have : Client.isSending (ackBook (pingState dp)) = false := hidle; rw [this] at hc; exact absurd hc.1 (by decide))).1
  have hfp : Client.finalPing (ackBook (pingState dp)) [] false 2 = (ackBook (pingState dp), [], .ret 2) := by simp [Client.finalPing]
  generalize hcd : ackBook (pingState dp) = cd at hoth hfp hdl
  have hcdst : CStat P cd := by rw [← hcd]; exact cstat_ackBook hcst
  have hstep3 : Client.cstep w2.cs (.rq rq) = (⟨cd, .tunnel⟩, [], .sel (Client.selectOf cd)) := by
    rw [hw2cs, cstep_rq _ rq hcst.running hcst.alive hcst.conn, hdl, hoth, hfp]
    simp [Client.settle, Client.loopTop, hcdst.running]
  have hs3 : step w2 (promptEv w2) = { w2 with down := [], cs := ⟨cd, .tunnel⟩ } := by
    rw [promptEv_down w2 _ _ hw2up hw2down, step_deliverDown w2 _ _ hw2down, hci,
      stepC_of { w2 with down := [] } (.rq rq) ⟨cd, .tunnel⟩ [] (.sel (Client.selectOf cd)) (by exact hstep3)
        (by show cd.now = w2.cs.c.now; rw [hw2cs, ← hcd]; rfl)]
    simp [upOfEvents, tunOfCEvents, hw2up]
  refine ⟨({ w2 with down := [], cs := ⟨cd, .tunnel⟩ } : W), ?_, rfl, hcdst, ?_, ?_, rfl, ?_, ?_, ?_, ?_, ?_, ?_, ?_, ?_, ?_, ?_, ?_, ?_, ?_, ?_, ?_, ?_, ?_, ?_⟩
  · intro k
    rw [promptSteps_succ hq (k + 2), hs0, promptSteps_succ hq1 (k + 1), hs1, promptSteps_succ hq2 k, hs3]
  · rw [← hcd]; exact hidle
  · exact hw2up
  · subst hw2; exact hap.stat
  · subst hw2; exact hap.idle
  · subst hw2; show (Server.getUser s' P.u).oqFilled = 0; rw [hap.oq, hg1]; exact h.oq
  · show cd.outpkt.seqno = _
    rw [← hcd]; show (pingState dp).outpkt.seqno = _
    rw [hpf.outpkt, ← hdp, hc1fr]; show c.outpkt.seqno = _; exact hsf.oseq
  · show cd.inpkt = _
    rw [← hcd]; show (pingState dp).inpkt = _
    rw [hpf.inpkt, hinp]
  · subst hw2; show (Server.getUser s' P.u).inpacket = _; rw [hap.inp, hg1]
  · subst hw2; show (Server.getUser s' P.u).outpacket = _; rw [hap.outp, hg1]
  · subst hw2
    show Aged P (Server.getUser s' P.u) cd.datacmc sl
    have : cd.datacmc = (c0.datacmc + 1) % 36 := by rw [← hcd]; show (pingState dp).datacmc = _; rw [hpf.datacmc, hcmc]
    rw [this]; exact hA'
  · subst hw2
    show PAged P (Server.getUser s' P.u) cd.randSeed sp
    have : cd.randSeed = (c0.randSeed + 1) % 65536 := by rw [← hcd]; show (pingState dp).randSeed = _; rw [hpf.seed, hseed]
    rw [this, ← hseed]; exact hPA'
  · subst hw2; subst hw1; rfl
  · subst hw2; subst hw1; rfl
  · subst hw2; show (Server.getUser s' P.u).tunIp = _; rw [hap.tun, hg1]
  · subst hw2; show (Server.getUser s' P.u).fragsize = _; rw [hap.frag, hg1]
  · subst hw2; show s'.now = _; rw [hap.now, hw1srv]
  · show cd.selecttimeout = _
    rw [← hcd]; show (pingState dp).selecttimeout = _
    rw [hpf.selto, ← hdp, hc1fr]; show c.selecttimeout = _; exact hsf.selto
  · show cd.sendPingSoon = 0
    rw [← hcd]; show (pingState dp).sendPingSoon = 0
    exact hpf.sps
  · subst hw2; show (Server.getUser s' P.u).lastPkt = s'.now; rw [hap.last, hap.now]
  · show cd.lastdownstreamtime = cd.now
    rw [← hcd]; rfl

end Iodine.C02L
