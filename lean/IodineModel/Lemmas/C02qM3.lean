import IodineModel.Lemmas.C02qM2
/-
C02 phase 2 / DOWNSTREAM, LAZY mode, desynchronised — part 3, the joint model:
* `down_offer_lazyD`: `offerS` from a DESYNCHRONISED quiescent state `QuietLazyD P 0 d w` — as `down_offer_lazy`, the new
  packet's sequence number is `d + 1` ahead of the client's;
* `PingUp`: a ping of the client (carrying the client's OWN downstream position) is on its way to a server that holds no query;
* `hold_stepD`: … and the server has nothing to send: the ping is HELD, the state is `QuietLazyD P 0 dd` again;
* `drop_recv`: the client receives a first fragment that falls into its window: nothing is taken, a ping goes out (at once
  if one was due, else after the 500 ms the client notes);
* `dataless_recv`: the client receives a dataless answer it does not adopt: after 900 ms (lazy-mode hint) a ping goes out.
-/
namespace Iodine.C02L
open Iodine Iodine.Gen Iodine.World

/-- the server holds no query (every one was answered), nothing waits "real soon", nothing queued — `PingSrvL` without the
bound on the resend counter -/
structure NoQSrvL (P : Par) (s : Server.Srv) : Prop where
  stat : SStat P s
  q : (Server.getUser s P.u).q.id = 0
  qs : (Server.getUser s P.u).qs.id = 0
  lz : (Server.getUser s P.u).lazy = true
  oq : (Server.getUser s P.u).oqFilled = 0

theorem PingSrvL.noq {P : Par} {s : Server.Srv} (h : PingSrvL P s) : NoQSrvL P s := ⟨h.stat, h.q, h.qs, h.lz, h.oq⟩

theorem timeoutS_noq {P : Par} {w : W} (h : NoQSrvL P w.srv) : timeoutS w = 10000000 := by
  unfold timeoutS
  rw [topOfLoop_timeout h.stat.solo, if_neg (by intro hc; exact hc.2 h.qs)]

theorem quiet_false_noq {P : Par} {w : W} (h : NoQSrvL P w.srv) : quiet P.u w = false := by
  unfold World.quiet
  simp [h.lz, h.q]

/-- the joint state keeps what a dropped packet must not touch -/
structure Keeps (P : Par) (w w' : W) : Prop where
  tunC : w'.tunC = w.tunC
  tunS : w'.tunS = w.tunS
  fs : (Server.getUser w'.srv P.u).fragsize = (Server.getUser w.srv P.u).fragsize
  tip : (Server.getUser w'.srv P.u).tunIp = (Server.getUser w.srv P.u).tunIp
  inpkt : w'.cs.c.inpkt = w.cs.c.inpkt

theorem Keeps.refl (P : Par) (w : W) : Keeps P w w := ⟨rfl, rfl, rfl, rfl, rfl⟩

theorem Keeps.trans {P : Par} {a b c : W} (h1 : Keeps P a b) (h2 : Keeps P b c) : Keeps P a c :=
  ⟨h2.tunC.trans h1.tunC, h2.tunS.trans h1.tunS, h2.fs.trans h1.fs, h2.tip.trans h1.tip, h2.inpkt.trans h1.inpkt⟩

theorem InWinC.congr {c c' : Client.Cli} {sq : Int} (h : InWinC c sq) (he : c'.inpkt = c.inpkt) : InWinC c' sq := by
  unfold InWinC at *
  rw [he]; exact h

/-! ### `offerS` from a desynchronised quiescent state -/

/-- `DownFlightL` without what the CLIENT thinks of the fragment in flight (`exp`, `dup`) -/
structure DownSentL (P : Par) (out : List Nat) (w : W) (sq : Int) (o D f : Nat) : Prop where
  ph : w.cs.ph = .tunnel
  cst : CStatL P w.cs.c
  cnt : CntOk w.cs.c 1
  idleC : Client.isSending w.cs.c = false
  up : w.up = []
  down : ∃ name pkt, w.down = [.ans w.cs.c.chunkid P.ty name pkt] ∧ Client.notData w.cs.c (name.headD 0) = false ∧
    FragPkt pkt out sq o D f (decide (out.length > 0 ∧ out.length = o + D))
  hsq : 0 ≤ sq ∧ sq < 8
  hD : 0 < D
  hle : o + D ≤ out.length
  srv : PingSrvL P w.srv
  frag : 0 < (Server.getUser w.srv P.u).fragsize
  op : (Server.getUser w.srv P.u).outpacket = ⟨out.length, D, o, out, sq, (f : Int)⟩ ∨
    ((Server.getUser w.srv P.u).outpacket = ⟨0, 0, 0, out, sq, 0⟩ ∧ o = 0 ∧ f = 0 ∧ D = out.length)
  opx : (Server.getUser w.srv P.u).outpacket =
    (if D = out.length then ⟨0, 0, 0, out, sq, 0⟩ else ⟨out.length, D, o, out, sq, (f : Int)⟩)
  res : (Server.getUser w.srv P.u).outfragresent = (if D = out.length then 0 else 1)
  syncu : (Server.getUser w.srv P.u).inpacket.seqno = w.cs.c.outpkt.seqno
  aged : Aged P (Server.getUser w.srv P.u) w.cs.c.datacmc 1
  paged : PAged P (Server.getUser w.srv P.u) w.cs.c.randSeed 1

theorem DownSentL.toFlight {P : Par} {out : List Nat} {w : W} {sq : Int} {o D f : Nat} (h : DownSentL P out w sq o D f)
    (hexp : CExpect w.cs.c out sq o f) (hdup : sq = w.cs.c.inpkt.seqno ∨ Client.recentSeqno w.cs.c.inpkt.seqno sq = false) :
    DownFlightL P out w sq o D f :=
  ⟨h.ph, h.cst, h.cnt, h.idleC, h.up, h.down, hexp, hdup, h.hsq, h.hD, h.hle, h.srv, h.frag, h.op, h.syncu, h.aged, h.paged⟩

/-- `offerS` in lazy mode from a quiescent state in which the server's downstream sequence number is `d` ahead of the
client's: the new outpacket gets the number `d + 1` ahead, its first fragment goes out at once as the answer to the held
query -/
theorem down_offer_lazyD {P : Par} (hP : P.Ok) {w : W} {d : Nat} (hq : QuietLazyD P 0 d w) (frame : List Nat)
    (h24 : 24 ≤ frame.length) (hl : frame.length < 65536) (hdst : Server.ipDst frame = (Server.getUser w.srv P.u).tunIp)
    (hF : 0 < (Server.getUser w.srv P.u).fragsize) :
    ∃ w1, step w (.offerS frame) = w1 ∧
      DownSentL P (0x5a :: frame) w1 ((w.cs.c.inpkt.seqno + d + 1) % 8) 0
        (downLen (Server.getUser w.srv P.u).fragsize (0x5a :: frame).length) 0 ∧
      w1.tunS = w.tunS ∧ w1.tunC = w.tunC ∧ (Server.getUser w1.srv P.u).tunIp = (Server.getUser w.srv P.u).tunIp ∧
      (Server.getUser w1.srv P.u).fragsize = (Server.getUser w.srv P.u).fragsize ∧ w1.cs = w.cs := by
  have hS := hq.srv
  have hu := hS.solo.lt
  have hsel : tunSelS w = true := tunSelS_idle hS hq.oq
  have htop := topSess_live hS
  have hHB := hq.held
  have hHid := hq.heldid
  have hHM := hq.mem
  generalize hx0 : ({ Server.getUser w.srv P.u with qsNew := false } : Server.Session) = x0 at htop
  have ht : frame.take 65536 = frame := List.take_of_length_le (by omega)
  have hs1 : Solo P.u { putUser w.srv P.u x0 with now := w.srv.now } := (hS.solo.putUser x0).withNow _
  have hg1 : Server.getUser { putUser w.srv P.u x0 with now := w.srv.now } P.u = x0 := by
    rw [getUser_withNow, getUser_putUser_self _ _ _ hu]
  generalize hy : startOut x0 (Server.compress frame) (Server.compress frame).length = y
  have htt : Server.tunnelTun { putUser w.srv P.u x0 with now := w.srv.now } (frame.take 65536) =
      ({ putUser w.srv P.u (scSess y P.u .q).1.1 with now := w.srv.now }, (scSess y P.u .q).1.2) := by
    rw [ht, tunnelTun_start_lazy hs1 frame h24 (by
        rw [hg1]; subst hx0
        exact ⟨hS.x.active, hS.x.auth, hS.x.enabled, by show (Server.getUser w.srv P.u).lastPkt + 60 > w.srv.now; have := hS.live; omega, hdst⟩)
      (by rw [hg1]; subst hx0; exact hS.x.conn) (by rw [hg1]; subst hx0; exact hq.idle.out)
      (by rw [hg1]; subst hx0; exact hq.idle.q) (by rw [hg1]; subst hx0; exact hq.idle.qs), hg1, hy]
    rw [putUser_withNow, putUser_putUser]
  have hit := iteration_tun hS.solo frame w.srv.now (scSess y P.u .q).1.1 (scSess y P.u .q).1.2 (by exact hsel) (by rw [htop]; exact htt)
  -- the new outpacket
  have hclen : (Server.compress frame).length = frame.length + 1 := by simp [Server.compress]
  have hciseq := hq.cst.iseq
  have hyop : y.outpacket = ⟨(0x5a :: frame).length, 0, 0, 0x5a :: frame, ((w.cs.c.inpkt.seqno + d + 1) % 8), 0⟩ := by
    subst hy
    unfold startOut
    simp only [hclen, PACKET_DATA_SIZE]
    have h1 : min (frame.length + 1) 65536 = frame.length + 1 := Nat.min_eq_left (by omega)
    rw [h1]
    have h2 : (Server.compress frame).take (frame.length + 1) = 0x5a :: frame := by
      unfold Server.compress
      exact List.take_of_length_le (by simp)
    rw [h2]
    subst hx0
    simp only [List.length_cons]
    congr 1
    show ((Server.getUser w.srv P.u).outpacket.seqno + 1) % 8 = _
    rw [hq.syncd]
    omega
  have hyq : y.q = (Server.getUser w.srv P.u).q := by subst hy; subst hx0; rfl
  have hyres : y.outfragresent = 0 := by subst hy; rfl
  have hyoq : y.oqFilled = 0 := by subst hy; subst hx0; exact hq.oq
  have hyrest : rest y = rest (Server.getUser w.srv P.u) := by subst hy; subst hx0; rfl
  have hylp : y.lastPkt = (Server.getUser w.srv P.u).lastPkt := by subst hy; subst hx0; rfl
  have hyfs : y.fragsize = (Server.getUser w.srv P.u).fragsize := rest_fragsize hyrest
  have hyM : HeldMem P y y.q w.cs.c.datacmc w.cs.c.randSeed := by
    rw [hyq]; subst hy; subst hx0; exact hHM.congr rfl rfl rfl rfl rfl rfl
  generalize hH : (Server.getUser w.srv P.u).q = H at hHB hHid hyq
  rw [hyq] at hyM
  have hself : saveQ (ackSess y 0 0) H y.lastPkt = y := by
    rw [ackSess_stale y 0 0 (by rw [hyop]), ← hyq, saveQ_self]
  have hZ : (scSess y P.u .q).1.1 = pingZ y P.u H 0 0 y.lastPkt := by
    unfold pingZ; rw [hself]
  obtain ⟨D, hDdef, hzo, hzr, hDpos, hDle, yy, hyev, hyo, hyi⟩ := pingZ_first y P.u H 0 0 y.lastPkt (0x5a :: frame)
    ((w.cs.c.inpkt.seqno + d + 1) % 8) hHB.id2 hyoq hyres hyop (by simp) (by rw [hyfs]; exact hF)
  have hzrest := pingZ_rest y P.u H 0 0 y.lastPkt hHB.id2 hyoq (by omega)
  have hzq := pingZ_q y P.u H 0 0 y.lastPkt hHB.id2 hyoq (by omega)
  rw [hself] at hyev
  rw [← hZ] at hzo hzr hzrest hzq
  rw [hyfs] at hDdef
  obtain ⟨y1, pkt', hm1, hpl, hev', _, hm2, _⟩ := scSess_q_shape y P.u (by rw [hyq]; exact hHB.id2) hyoq (by omega)
  rw [hyq] at hev' hm2
  have hmemo := (hyM.congr hm1.1 hm1.2.1 hm1.2.2.2.2.1 hm1.2.2.2.2.2 hm1.2.2.1 hm1.2.2.2.1).settle hP.hu pkt' hpl
  generalize hz : (scSess y P.u .q).1.1 = z at hit hzo hzr hzrest hzq hm2
  have hzr' : rest z = rest (Server.getUser w.srv P.u) := hzrest.trans hyrest
  have hzqs : z.qs.id = 0 := by rw [rest_qs hzr']; exact hq.idle.qs
  have hsw : sweepSess z P.u w.srv.now = (z, []) := by
    unfold sweepSess
    rw [if_neg (by intro hc; exact hc.2.1 hzqs)]
  rw [hsw, hyev] at hit
  dsimp only at hit
  have hg : Server.getUser { putUser w.srv P.u z with now := w.srv.now } P.u = z := by
    rw [getUser_withNow, getUser_putUser_self _ _ _ hu]
  have hsqr : 0 ≤ (w.cs.c.inpkt.seqno + d + 1) % 8 ∧ (w.cs.c.inpkt.seqno + d + 1) % 8 < 8 := by omega
  have hdn : downOfEvents ([Server.writeDns H (Server.scPkt yy D) y.downenc (.chunk P.u)] ++ [Server.Event.sweep] ++ []) =
      [DownD.ans w.cs.c.chunkid P.ty H.name (Server.scPkt yy D)] := by
    simp only [List.append_nil, downOfEvents_append, downOfEvents_sweep, downOfEvents_writeDns _ _ _ _ hHB.from_, hHid, hHB.ty]
  have htn : tunOfSEvents ([Server.writeDns H (Server.scPkt yy D) y.downenc (.chunk P.u)] ++ [Server.Event.sweep] ++ []) = [] := by
    simp only [List.append_nil, tunOfSEvents_append, tunOfSEvents_writeDns, tunOfSEvents_sweep]
  have hw1 : step w (.offerS frame) =
      { w with srv := { putUser w.srv P.u z with now := w.srv.now },
               down := [.ans w.cs.c.chunkid P.ty H.name (Server.scPkt yy D)] } := by
    rw [step_offerS w frame hsel, stepS_zero w _ _ _ _ hit, hdn, htn, hq.down]
    simp
  have hfp := fragPkt_of yy (0x5a :: frame) ((w.cs.c.inpkt.seqno + d + 1) % 8) 0 D 0 hyo (by omega) hsqr (by omega)
    (by rw [hyi, rest_inpacket hyrest]; exact hS.x.iseq) (by rw [hyi, rest_inpacket hyrest]; exact hS.x.ifrag)
  have hstat : SStat P { putUser w.srv P.u z with now := w.srv.now } := by
    refine ⟨(hS.solo.putUser z).withNow _, hS.td, ?_, ?_, ?_⟩
    · rw [hg]
      refine ⟨(rest_active hzr').trans hS.x.active, (rest_authenticated hzr').trans hS.x.auth, (rest_disabled hzr').trans hS.x.enabled,
        (rest_conn hzr').trans hS.x.conn, (rest_encoder hzr').trans hS.x.enc, ?_, ?_,
        by rw [rest_inpacket hzr']; exact hS.x.iseq, by rw [rest_inpacket hzr']; exact hS.x.ifrag⟩
      · rw [hzo]; split <;> exact hsqr
      · rw [hzo]; split <;> (show (0 : Int) ≤ 0 ∧ (0 : Int) < 16; omega)
    · show _ ∨ ((Server.getUser { putUser w.srv P.u z with now := w.srv.now } P.u).host.fam = 4 ∧ _)
      rw [hg, rest_host hzr']; exact hS.host
    · show w.srv.now < (Server.getUser { putUser w.srv P.u z with now := w.srv.now } P.u).lastPkt + 60
      rw [hg, hzq.2, hylp]; exact hS.live
  refine ⟨_, rfl, ?_, ?_, ?_, ?_, ?_, ?_⟩
  · rw [hw1, ← hDdef]
    refine ⟨hq.ph, hq.cst, hq.cnt, hq.idleC, hq.up, ⟨H.name, Server.scPkt yy D, rfl, ?_, hfp⟩,
      hsqr, hDpos, by omega, ⟨hstat, ?_, ?_, ?_, ?_, ?_⟩, ?_, ?_, ?_, ?_, ?_, ?_, ?_⟩
    · rw [headD_eq_getD]
      have := hHM.c0
      rw [hH] at this
      exact notData_held hq.cst.uch _ this
    · show (Server.getUser { putUser w.srv P.u z with now := w.srv.now } P.u).q.id = 0
      rw [hg, hzq.1]
    · show (Server.getUser { putUser w.srv P.u z with now := w.srv.now } P.u).qs.id = 0
      rw [hg]; exact hzqs
    · show (Server.getUser { putUser w.srv P.u z with now := w.srv.now } P.u).lazy = true
      rw [hg, rest_lazy hzr']; exact hq.idle.lazy
    · show (Server.getUser { putUser w.srv P.u z with now := w.srv.now } P.u).oqFilled = 0
      rw [hg, rest_oqFilled hzr']; exact hq.oq
    · show (Server.getUser { putUser w.srv P.u z with now := w.srv.now } P.u).outfragresent ≤ 1
      rw [hg, hzr]; split <;> omega
    · show 0 < (Server.getUser { putUser w.srv P.u z with now := w.srv.now } P.u).fragsize
      rw [hg, rest_fragsize hzr']; exact hF
    · show (Server.getUser { putUser w.srv P.u z with now := w.srv.now } P.u).outpacket = _ ∨ _
      rw [hg, hzo]
      by_cases hw : D = (0x5a :: frame).length
      · rw [if_pos hw]; exact Or.inr ⟨rfl, rfl, rfl, hw⟩
      · rw [if_neg hw]; exact Or.inl rfl
    · show (Server.getUser { putUser w.srv P.u z with now := w.srv.now } P.u).outpacket = _
      rw [hg, hzo]
      rfl
    · show (Server.getUser { putUser w.srv P.u z with now := w.srv.now } P.u).outfragresent = _
      rw [hg, hzr]
    · show (Server.getUser { putUser w.srv P.u z with now := w.srv.now } P.u).inpacket.seqno = _
      rw [hg, rest_inpacket hzr']
      show (Server.getUser w.srv P.u).inpacket.seqno = w.cs.c.outpkt.seqno
      have h1 := hq.syncu
      have h2 := hS.x.iseq
      omega
    · show Aged P (Server.getUser { putUser w.srv P.u z with now := w.srv.now } P.u) _ 1
      rw [hg]; exact hmemo.1.congr hm2.1 hm2.2.1 hm2.2.2.2.2.1 hm2.2.2.2.2.2
    · show PAged P (Server.getUser { putUser w.srv P.u z with now := w.srv.now } P.u) _ 1
      rw [hg]; exact hmemo.2.congr hm2.2.2.1 hm2.2.2.2.1 hm2.2.2.2.2.1 hm2.2.2.2.2.2
  · rw [hw1]
  · rw [hw1]
  · rw [hw1]
    show (Server.getUser { putUser w.srv P.u z with now := w.srv.now } P.u).tunIp = _
    rw [hg, rest_tunIp hzr']
  · rw [hw1]
    show (Server.getUser { putUser w.srv P.u z with now := w.srv.now } P.u).fragsize = _
    rw [hg, rest_fragsize hzr']
  · rw [hw1]

/-! ### a ping on its way to a server that holds no query -/

/-- The client (state `pingStateL c2`) has just sent a ping that carries ITS OWN downstream position; nothing else is in
flight; the server holds no query. -/
structure PingUp (P : Par) (w : W) (c2 : Client.Cli) (name' : List Nat) : Prop where
  cs : w.cs = ⟨pingStateL c2, .tunnel⟩
  st : CStatL P c2
  cnt : CntOk c2 0
  idle : Client.isSending c2 = false
  up : w.up = [.query (pingStateL c2).chunkid P.ty name']
  down : w.down = []
  pq : PingQ P (upQuery (pingStateL c2).chunkid P.ty name') c2.inpkt.seqno c2.inpkt.fragment c2.randSeed
  srv : NoQSrvL P w.srv
  syncu : (Server.getUser w.srv P.u).inpacket.seqno = c2.outpkt.seqno
  aged : Aged P (Server.getUser w.srv P.u) c2.datacmc 1
  paged : PAged P (Server.getUser w.srv P.u) c2.randSeed 1

/-- … and the server has nothing to send: it HOLDS the ping; the joint state is quiescent again, the server's downstream
sequence number `dd` ahead of the client's as before -/
theorem hold_stepD {P : Par} (hP : P.Ok) {w3 : W} {c2 : Client.Cli} {name' : List Nat} (h : PingUp P w3 c2 name')
    (hlen0 : (Server.getUser w3.srv P.u).outpacket.len = 0) {dd : Nat}
    (hsync : (Server.getUser w3.srv P.u).outpacket.seqno = (c2.inpkt.seqno + dd) % 8) :
    ∃ w', step w3 (promptEv w3) = w' ∧ quiet P.u w3 = false ∧ QuietLazyD P 0 dd w' ∧ w'.cs.c.sendPingSoon = 0 ∧
      w'.tunC = w3.tunC ∧ w'.tunS = w3.tunS ∧
      (Server.getUser w'.srv P.u).fragsize = (Server.getUser w3.srv P.u).fragsize ∧
      (Server.getUser w'.srv P.u).tunIp = (Server.getUser w3.srv P.u).tunIp ∧ w'.cs.c.inpkt = c2.inpkt := by
  have hpf := pingFactsL c2
  have hsrv := h.srv
  have hpq := h.pq
  have hcs := h.cs
  have hq3 : quiet P.u w3 = false := quiet_false_of_up _ _ _ _ h.up
  generalize hx0 : ({ Server.getUser w3.srv P.u with qsNew := false } : Server.Session) = x0
  have hack : ackSess x0 c2.inpkt.seqno c2.inpkt.fragment = x0 := ackSess_idleM x0 _ _ (by subst hx0; exact hlen0)
  obtain ⟨s', evs, t, hit, hdown3, htun3, hah, hsame⟩ :=
    srv_ping_lazy_hold hP hsrv.stat hsrv.q hsrv.qs hsrv.lz hsrv.oq hpq h.paged (by rw [hx0, hack]; subst hx0; exact hlen0)
  generalize hQ : upQuery (pingStateL c2).chunkid P.ty name' = Q at hit hah hpq
  obtain ⟨hS', hq', hqs', hlz', hoq', hfs', hin', htun', hop'⟩ := afterHold_stat hsrv.stat hsrv.oq hah
    (by rw [hx0, hack]; subst hx0; exact hsrv.stat.x.oseq) (by rw [hx0, hack]; subst hx0; exact hsrv.stat.x.ofrag)
  rw [hx0, hack] at hop'
  have hop'' : (Server.getUser s' P.u).outpacket = (Server.getUser w3.srv P.u).outpacket := by rw [hop']; subst hx0; rfl
  have hs3 : step w3 (promptEv w3) = { w3 with up := [], srv := s' } := by
    rw [promptEv_up w3 _ _ h.up, step_deliverUp w3 _ _ h.up, srvInput_query, hQ,
      stepS_zero { w3 with up := [] } _ s' evs t (by exact hit), hdown3, htun3]
    simp [h.down]
  have hQid : Q.id = (pingStateL c2).chunkid := by rw [← hQ]; rfl
  refine ⟨_, hs3, hq3, ?_, ?_, rfl, rfl, hfs', htun', ?_⟩
  · refine ⟨by show w3.cs.ph = _; rw [hcs], ?_, ?_, ?_, rfl, h.down, hS', ?_, hoq', ?_, ?_, ?_, ?_, ?_⟩
    · show CStatL P w3.cs.c
      rw [hcs]; exact cstatL_pingStateL h.st
    · show CntOk w3.cs.c 1
      rw [hcs]; exact (pingStateL_ids c2).2.2 0 h.cnt
    · show Client.isSending w3.cs.c = false
      rw [hcs]
      unfold Client.isSending
      rw [hpf.outpkt]
      exact h.idle
    · exact ⟨by rw [hop'']; exact hlen0, by rw [hq']; exact hpq.id, by rw [hq']; exact hpq.id2, by rw [hqs']; exact hsrv.qs,
        by rw [hlz']; exact hsrv.lz⟩
    · show HeldBase P (Server.getUser s' P.u).q
      rw [hq']; exact ⟨hpq.from_, hpq.id2, hpq.id, hpq.ty⟩
    · show (Server.getUser s' P.u).q.id = w3.cs.c.chunkid
      rw [hq', hQid, hcs]
    · show w3.cs.c.outpkt.seqno = ((Server.getUser s' P.u).inpacket.seqno + ((0 : Nat) : Int)) % 8
      rw [hin', h.syncu, hcs, hpf.outpkt]
      have := h.st.oseq
      omega
    · show (Server.getUser s' P.u).outpacket.seqno = (w3.cs.c.inpkt.seqno + (dd : Int)) % 8
      rw [hop'', hcs, hpf.inpkt]; exact hsync
    · show HeldMem P (Server.getUser s' P.u) (Server.getUser s' P.u).q w3.cs.c.datacmc w3.cs.c.randSeed
      rw [hq', hcs, hpf.datacmc, hpf.seed]
      right
      refine ⟨c2.randSeed, ⟨hpq.sdlt, hpq.c0, hpq.fp, hpq.seed⟩, behind_next16 _ hpq.sdlt, ?_, ?_⟩
      · exact h.aged.congr hsame.1 hsame.2.1 hsame.2.2.2.2.1 hsame.2.2.2.2.2
      · exact (h.paged.step hpq.sdlt (by omega)).congr hsame.2.2.1 hsame.2.2.2.1 hsame.2.2.2.2.1 hsame.2.2.2.2.2
  · show w3.cs.c.sendPingSoon = 0
    rw [hcs]; exact hpf.sps
  · show w3.cs.c.inpkt = c2.inpkt
    rw [hcs]; exact hpf.inpkt

/-! ### the client's two steps -/

theorem selectOf_dropBook (c : Client.Cli) : (Client.selectOf (dropBook c)).to = 500000 := by
  unfold Client.selectOf
  simp only []
  rw [if_pos (by show (500 : Nat) ≠ 0; omega)]
  show ((500 : Nat) : Int) * 1000 = 500000
  omega

theorem selectOf_hintBook (c : Client.Cli) : (Client.selectOf (hintBook c)).to = 900000 := by
  unfold Client.selectOf
  simp only []
  rw [if_pos (by show (900 : Nat) ≠ 0; omega)]
  show ((900 : Nat) : Int) * 1000 = 900000
  omega

/-- the client idles with a ping due in less than a second, the server holds no query: `tickC`, the ping goes out -/
theorem poll_to_pingUp {P : Par} (hP : P.Ok) {w1 : W} {c1 : Client.Cli} (hcs : w1.cs = ⟨c1, .tunnel⟩) (hc : CStatL P c1)
    (hcnt : CntOk c1 0) (hs : Client.isSending c1 = false) (hup : w1.up = []) (hdown : w1.down = [])
    (hto : 0 ≤ (Client.selectOf c1).to ∧ (Client.selectOf c1).to < 1000000) (hsrv : NoQSrvL P w1.srv)
    (hsyncu : (Server.getUser w1.srv P.u).inpacket.seqno = c1.outpkt.seqno)
    (haged : Aged P (Server.getUser w1.srv P.u) c1.datacmc 1) (hpaged : PAged P (Server.getUser w1.srv P.u) c1.randSeed 1) :
    ∃ name' w2, step w1 (promptEv w1) = w2 ∧ quiet P.u w1 = false ∧ PingUp P w2 c1 name' ∧ w2.srv = w1.srv ∧
      w2.tunC = w1.tunC ∧ w2.tunS = w1.tunS := by
  have hc1 : w1.cs.c = c1 := by rw [hcs]
  obtain ⟨name', hs2, hpq⟩ := poll_stepL hP (w := w1) (by rw [hcs]) (by rw [hc1]; exact hc)
    (by rw [hc1]; exact hcnt.mono (by omega)) (by rw [hc1]; exact hs) hup hdown (by rw [hc1]; exact hto) (timeoutS_noq hsrv)
  rw [hc1] at hs2 hpq
  exact ⟨name', _, hs2, quiet_false_noq hsrv, ⟨rfl, hc, hcnt, hs, rfl, hdown, hpq, hsrv, hsyncu, haged, hpaged⟩, rfl, rfl, rfl⟩

/-- The client receives a first fragment (number 0) whose sequence number falls into its window: it is NOT taken; a ping
with the client's own downstream position goes out — at once if one was due (`send_ping_soon ≠ 0`: one scheduler step), else
after the 500 ms the client notes (two steps: `deliverDown`, `tickC`). -/
theorem drop_recv {P : Par} (hP : P.Ok) {w : W} {out pkt name : List Nat} {sq : Int} {D : Nat} {last : Bool}
    (hph : w.cs.ph = .tunnel) (hcst : CStatL P w.cs.c) (hcnt : CntOk w.cs.c 1) (hidle : Client.isSending w.cs.c = false)
    (hup : w.up = []) (hdown : w.down = [.ans w.cs.c.chunkid P.ty name pkt])
    (hnd : Client.notData w.cs.c (name.headD 0) = false) (hfp : FragPkt pkt out sq 0 D 0 last) (hD : 0 < D)
    (hwin : InWinC w.cs.c sq) (hsrv : NoQSrvL P w.srv)
    (hsyncu : (Server.getUser w.srv P.u).inpacket.seqno = w.cs.c.outpkt.seqno)
    (haged : Aged P (Server.getUser w.srv P.u) w.cs.c.datacmc 1) (hpaged : PAged P (Server.getUser w.srv P.u) w.cs.c.randSeed 1) :
    ∃ name' w2, promptSteps P.u (if w.cs.c.sendPingSoon = 0 then 2 else 1) w = some w2 ∧
      PingUp P w2 (dropBook w.cs.c) name' ∧ w2.srv = w.srv ∧ w2.tunC = w.tunC ∧ w2.tunS = w.tunS := by
  generalize hc : w.cs.c = c at hdown hnd hcst hcnt hidle hwin hsyncu haged hpaged
  have hwc : w.cs = ⟨c, .tunnel⟩ := by rw [cstate_eta w.cs hph, hc]
  generalize hrq : (Client.Rq.mk (pkt.length : Int) c.chunkid (answerType P.ty) 0 (name.headD 0) pkt) = rq
  have hci : cliInput (.ans c.chunkid P.ty name pkt) = .rq rq := by subst hrq; rfl
  have hrok : RecvOkL P c rq pkt := by
    subst hrq
    exact ⟨hcst, hidle, hnd, rfl, rfl, rfl⟩
  have hq1 : quiet P.u w = false := quiet_false_of_down _ _ _ _ hdown
  have hst3 : CStatL P (dropBook c) := cstatL_dropBook hcst
  have hcnt3 : CntOk (dropBook c) 0 := cntOk_dropBook 0 hcnt
  by_cases hsps : c.sendPingSoon = 0
  · rw [if_pos hsps]
    have hstep := recv_dropL hrok hsps hfp hD hwin
    have hs1 : step w (promptEv w) = { w with down := [], cs := ⟨dropBook c, .tunnel⟩ } := by
      rw [promptEv_down w _ _ hup hdown, step_deliverDown w _ _ hdown, hci,
        stepC_of { w with down := [] } (.rq rq) ⟨dropBook c, .tunnel⟩ [] (.sel (Client.selectOf (dropBook c)))
          (by show Client.cstep w.cs _ = _; rw [hwc]; exact hstep)
          (by show (dropBook c).now = w.cs.c.now; rw [hc]; rfl)]
      simp [upOfEvents, tunOfCEvents, hup]
    obtain ⟨name', w2, hs2, hq2, hpu, h1, h2, h3⟩ := poll_to_pingUp hP (w1 := { w with down := [], cs := ⟨dropBook c, .tunnel⟩ })
      (c1 := dropBook c) rfl hst3 hcnt3 hidle hup rfl (by rw [selectOf_dropBook]; omega) hsrv hsyncu haged hpaged
    refine ⟨name', w2, ?_, hpu, h1, h2, h3⟩
    rw [promptSteps_succ hq1, hs1, promptSteps_succ hq2, hs2]; rfl
  · rw [if_neg hsps]
    obtain ⟨name', hstep, hpq⟩ := recv_dropL_now hP hrok hcnt hsps hfp hD hwin
    have hpf := pingFactsL (dropBook c)
    have hs1 : step w (promptEv w) =
        { w with down := [], cs := ⟨pingStateL (dropBook c), .tunnel⟩, up := [.query (pingStateL (dropBook c)).chunkid P.ty name'] } := by
      rw [promptEv_down w _ _ hup hdown, step_deliverDown w _ _ hdown, hci,
        stepC_of { w with down := [] } (.rq rq) ⟨pingStateL (dropBook c), .tunnel⟩ [.query (pingStateL (dropBook c)).chunkid P.ty name']
          (.sel (Client.selectOf (pingStateL (dropBook c))))
          (by show Client.cstep w.cs _ = _; rw [hwc]; exact hstep)
          (by show (pingStateL (dropBook c)).now = w.cs.c.now; rw [hpf.now, hc]; rfl)]
      simp [upOfEvents, tunOfCEvents, hup]
    refine ⟨name', { w with down := [], cs := ⟨pingStateL (dropBook c), .tunnel⟩, up := [.query (pingStateL (dropBook c)).chunkid P.ty name'] }, ?_,
      ⟨rfl, hst3, hcnt3, hidle, rfl, rfl, hpq, hsrv, hsyncu, haged, hpaged⟩, rfl, rfl, rfl⟩
    rw [promptSteps_succ hq1, hs1]; rfl

/-- The client (no ping due) receives a DATALESS answer that names its current downstream sequence number or one of the
three before it: NOT adopted; the lazy-mode hint makes it ping after 900 ms (two steps: `deliverDown`, `tickC`). -/
theorem dataless_recv {P : Par} (hP : P.Ok) {w : W} {pkt name : List Nat}
    (hph : w.cs.ph = .tunnel) (hcst : CStatL P w.cs.c) (hcnt : CntOk w.cs.c 1) (hidle : Client.isSending w.cs.c = false)
    (hsps : w.cs.c.sendPingSoon = 0)
    (hup : w.up = []) (hdown : w.down = [.ans w.cs.c.chunkid P.ty name pkt])
    (hnd : Client.notData w.cs.c (name.headD 0) = false) (hlen : pkt.length = 2)
    (hwin : (Client.decodeHdr pkt).dnSeq = w.cs.c.inpkt.seqno ∨
      Client.recentSeqno w.cs.c.inpkt.seqno (Client.decodeHdr pkt).dnSeq = true) (hsrv : NoQSrvL P w.srv)
    (hsyncu : (Server.getUser w.srv P.u).inpacket.seqno = w.cs.c.outpkt.seqno)
    (haged : Aged P (Server.getUser w.srv P.u) w.cs.c.datacmc 1) (hpaged : PAged P (Server.getUser w.srv P.u) w.cs.c.randSeed 1) :
    ∃ name' w2, promptSteps P.u 2 w = some w2 ∧
      PingUp P w2 (hintBook w.cs.c) name' ∧ w2.srv = w.srv ∧ w2.tunC = w.tunC ∧ w2.tunS = w.tunS := by
  generalize hc : w.cs.c = c at hdown hnd hcst hcnt hidle hwin hsyncu haged hpaged hsps
  have hwc : w.cs = ⟨c, .tunnel⟩ := by rw [cstate_eta w.cs hph, hc]
  generalize hrq : (Client.Rq.mk (pkt.length : Int) c.chunkid (answerType P.ty) 0 (name.headD 0) pkt) = rq
  have hci : cliInput (.ans c.chunkid P.ty name pkt) = .rq rq := by subst hrq; rfl
  have hrok : RecvOkL P c rq pkt := by
    subst hrq
    exact ⟨hcst, hidle, hnd, rfl, rfl, rfl⟩
  have hq1 : quiet P.u w = false := quiet_false_of_down _ _ _ _ hdown
  have hst3 : CStatL P (hintBook c) := cstatL_hintBook hcst
  have hcnt3 : CntOk (hintBook c) 0 := cntOk_hintBook 0 hcnt
  have hstep := recv_datalessL hrok hsps hlen hwin
  have hs1 : step w (promptEv w) = { w with down := [], cs := ⟨hintBook c, .tunnel⟩ } := by
    rw [promptEv_down w _ _ hup hdown, step_deliverDown w _ _ hdown, hci,
      stepC_of { w with down := [] } (.rq rq) ⟨hintBook c, .tunnel⟩ [] (.sel (Client.selectOf (hintBook c)))
        (by show Client.cstep w.cs _ = _; rw [hwc]; exact hstep)
        (by show (hintBook c).now = w.cs.c.now; rw [hc]; rfl)]
    simp [upOfEvents, tunOfCEvents, hup]
  obtain ⟨name', w2, hs2, hq2, hpu, h1, h2, h3⟩ := poll_to_pingUp hP (w1 := { w with down := [], cs := ⟨hintBook c, .tunnel⟩ })
    (c1 := hintBook c) rfl hst3 hcnt3 hidle hup rfl (by rw [selectOf_hintBook]; omega) hsrv hsyncu haged hpaged
  refine ⟨name', w2, ?_, hpu, h1, h2, h3⟩
  rw [promptSteps_succ hq1, hs1, promptSteps_succ hq2, hs2]; rfl

end Iodine.C02L
