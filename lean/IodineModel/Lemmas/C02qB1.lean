import IodineModel.Lemmas.C02q0
import IodineModel.Lemmas.C02d8
/-
C02, phase 2, sub-package "blackout" — part 1: the CLIENT side of the give-up run.

While every upstream datagram is lost the client, having accepted a frame from its tun device, times out once per second:
three times the first fragment is sent again (`resentState`), the fourth time the packet is dropped and a ping goes out
(`gaveupState`).  Here: the generalised quiescent predicate `QuietImmDS` (freshness slack as a parameter), the two states as
explicit functions, what they keep (`CReady` resp. `CStat`), and the step machine on the two kinds of `tick`.
-/
namespace Iodine.C02L
open Iodine Iodine.Gen Iodine.World

theorem quietImmDS_one {P : Par} {du dd : Nat} {w : W} : QuietImmDS P du dd 1 1 w ↔ QuietImmD P du dd w :=
  ⟨fun h => ⟨h.ph, h.cst, h.idleC, h.up, h.down, h.srv, h.idle, h.oq, h.syncu, h.syncd, h.aged, h.paged⟩,
   fun h => ⟨h.ph, h.cst, h.idleC, h.up, h.down, h.srv, h.idle, h.oq, h.syncu, h.syncd, h.aged, h.paged⟩⟩

theorem quietImmDS_of_quietImm {P : Par} {w : W} (h : QuietImm P w) : QuietImmDS P 0 0 1 1 w :=
  quietImmDS_one.2 (quietImmD_zero.2 h)

/-- more slack is weaker -/
theorem QuietImmDS.mono {P : Par} {du dd sl sp sl' sp' : Nat} {w : W} (h : QuietImmDS P du dd sl sp w) (h1 : sl ≤ sl')
    (h2 : sp ≤ sp') : QuietImmDS P du dd sl' sp' w :=
  ⟨h.ph, h.cst, h.idleC, h.up, h.down, h.srv, h.idle, h.oq, h.syncu, h.syncd, h.aged.mono h1, h.paged.mono h2⟩

/-- the sequence-number offsets only matter modulo 8 -/
theorem QuietImmDS.mod8 {P : Par} {du dd sl sp : Nat} {w : W} (h : QuietImmDS P du dd sl sp w) :
    QuietImmDS P (du % 8) dd sl sp w :=
  ⟨h.ph, h.cst, h.idleC, h.up, h.down, h.srv, h.idle, h.oq, by have := h.syncu; omega, h.syncd, h.aged, h.paged⟩

/-! ### what `CReady` survives -/

/-- the clock and the resend counter do not enter `CReady` (as long as the 60 s are not over) -/
theorem CReady.tweak {P : Par} {c : Client.Cli} {out : List Nat} {o f : Nat} (h : CReady P c out o f) (n k : Nat)
    (ha : ¬ c.lastdownstreamtime + 60 < n) : CReady P { c with now := n, outchunkresent := k } out o f :=
  ⟨⟨h.stat.running, h.stat.conn, h.stat.imm, h.stat.uid, h.stat.uch, h.stat.td, h.stat.L, h.stat.enc, h.stat.ty, h.stat.cid,
    h.stat.cmc, ha, h.stat.oseq, h.stat.iseq, h.stat.ifrag, h.stat.seed⟩, h.data, h.len, h.off, h.frag, h.ho, h.hf, h.bytes⟩

/-- after `send_chunk` the same fragment is ready to be sent again -/
theorem CReady.sent {P : Par} {c : Client.Cli} {out : List Nat} {o f : Nat} (h : CReady P c out o f) :
    CReady P { sentState c with sendPingSoon := 0 } out o f := by
  have s := sentFacts c
  refine ⟨⟨s.running.trans h.stat.running, s.conn.trans h.stat.conn, s.lazymode.trans h.stat.imm, s.userid.trans h.stat.uid,
    s.useridChar.trans h.stat.uch, s.topdomain.trans h.stat.td, s.hostnameMaxlen.trans h.stat.L, s.dataenc.trans h.stat.enc,
    s.doQtype.trans h.stat.ty, s.cid, ?_, ?_, ?_, ?_, ?_, ?_⟩, s.odata.trans h.data, s.olen.trans h.len, s.ooff.trans h.off,
    s.ofrag.trans h.frag, h.ho, h.hf, h.bytes⟩
  · rw [s.cmc]; have := h.stat.cmc; split <;> omega
  · rw [s.ldt, s.now]; exact h.stat.alive
  · rw [s.oseq]; exact h.stat.oseq
  · rw [s.inpkt]; exact h.stat.iseq
  · rw [s.inpkt]; exact h.stat.ifrag
  · rw [s.seed]; exact h.stat.seed

theorem CReady.sending {P : Par} {c : Client.Cli} {out : List Nat} {o f : Nat} (h : CReady P c out o f) :
    Client.isSending c = true := by
  unfold Client.isSending
  have := h.ho
  rw [h.len, bne_iff_ne]
  omega

/-- the timeout of `client_tunnel`'s `select` while a packet is in flight (and no ping is due "soon"): 1 s -/
theorem selectOf_sending (c : Client.Cli) (hs : Client.isSending c = true) (hsps : c.sendPingSoon = 0) :
    (Client.selectOf c).to = 1000000 := by
  unfold Client.selectOf
  simp [hs, hsps]

theorem advanceClock_sending (c : Client.Cli) (hs : Client.isSending c = true) (hsps : c.sendPingSoon = 0) :
    Client.advanceClock c (Client.selectOf c) = { c with now := c.now + 1 } := by
  unfold Client.advanceClock
  rw [selectOf_sending c hs hsps]
  rfl

/-! ### the two client states -/

/-- the client after a timeout that resends the fragment in flight: one second later, `outchunkresent` one up, the
fragment sent again (`sentState`: `sentlen`, the data-CMC counter one on, a new query id) -/
def resentState (c : Client.Cli) : Client.Cli :=
  { sentState { c with now := c.now + 1, outchunkresent := c.outchunkresent + 1 } with sendPingSoon := 0 }

/-- the client after the timeout that gives the packet up: one second later, `outpkt` emptied (its sequence number stays),
`outchunkresent = 0`, a ping sent (`pingState`: the ping counter one on, a new query id) -/
def gaveupState (c : Client.Cli) : Client.Cli := pingState (dropPkt { c with now := c.now + 1 })

/-- what a resend keeps and what it changes -/
structure ResentFacts (c c' : Client.Cli) : Prop where
  now : c'.now = c.now + 1
  res : c'.outchunkresent = c.outchunkresent + 1
  sps : c'.sendPingSoon = 0
  ldt : c'.lastdownstreamtime = c.lastdownstreamtime
  cmc : c'.datacmc = if c.datacmc + 1 ≥ 36 then 0 else c.datacmc + 1
  seed : c'.randSeed = c.randSeed
  inpkt : c'.inpkt = c.inpkt
  oseq : c'.outpkt.seqno = c.outpkt.seqno
  selto : c'.selecttimeout = c.selecttimeout

theorem resentFacts (c : Client.Cli) : ResentFacts c (resentState c) := by
  have s := sentFacts { c with now := c.now + 1, outchunkresent := c.outchunkresent + 1 }
  exact ⟨s.now, by simp [resentState, sentState, Client.rotateChunkid], s.sps, s.ldt, s.cmc, s.seed, s.inpkt, s.oseq, s.selto⟩

theorem CReady.resent {P : Par} {c : Client.Cli} {out : List Nat} {o f : Nat} (h : CReady P c out o f)
    (ha : ¬ c.lastdownstreamtime + 60 < c.now + 1) : CReady P (resentState c) out o f :=
  (h.tweak (c.now + 1) (c.outchunkresent + 1) ha).sent

/-- what the give-up keeps and what it changes -/
structure GaveupFacts (c c' : Client.Cli) : Prop where
  now : c'.now = c.now + 1
  res : c'.outchunkresent = 0
  sps : c'.sendPingSoon = 0
  ldt : c'.lastdownstreamtime = c.lastdownstreamtime
  cmc : c'.datacmc = c.datacmc
  seed : c'.randSeed = (c.randSeed + 1) % 65536
  inpkt : c'.inpkt = c.inpkt
  oseq : c'.outpkt.seqno = c.outpkt.seqno
  olen : c'.outpkt.len = 0
  selto : c'.selecttimeout = c.selecttimeout

theorem gaveupFacts (c : Client.Cli) : GaveupFacts c (gaveupState c) := by
  have p := pingFacts (dropPkt { c with now := c.now + 1 })
  exact ⟨p.now, by simp [gaveupState, pingState, Client.rotateChunkid], p.sps, p.ldt, p.datacmc, p.seed, p.inpkt,
    by rw [gaveupState, p.outpkt], by rw [gaveupState, p.outpkt], p.selto⟩

/-- the client that gave up is in its standing conditions and idle -/
theorem gaveup_cstat {P : Par} {c : Client.Cli} (hc : CStat P c) (ha : ¬ c.lastdownstreamtime + 60 < c.now + 1) :
    CStat P (gaveupState c) ∧ Client.isSending (gaveupState c) = false := by
  have p := pingFacts (dropPkt { c with now := c.now + 1 })
  have g := gaveupFacts c
  refine ⟨⟨p.running.trans hc.running, p.conn.trans hc.conn, p.lazymode.trans hc.imm, p.userid.trans hc.uid,
    p.useridChar.trans hc.uch, p.topdomain.trans hc.td, p.hostnameMaxlen.trans hc.L, p.dataenc.trans hc.enc,
    p.doQtype.trans hc.ty, p.cid, ?_, ?_, ?_, ?_, ?_, ?_⟩, ?_⟩
  · rw [g.cmc]; exact hc.cmc
  · rw [g.ldt, g.now]; exact ha
  · rw [g.oseq]; exact hc.oseq
  · rw [g.inpkt]; exact hc.iseq
  · rw [g.inpkt]; exact hc.ifrag
  · rw [g.seed]; exact Nat.mod_lt _ (by omega)
  · unfold Client.isSending; rw [g.olen]; rfl

/-! ### the step machine on the two kinds of timeout -/

/-- a timeout with a fragment in flight that was resent fewer than three times: it is sent again -/
theorem cstep_resend {P : Par} (hP : P.Ok) {c : Client.Cli} {out : List Nat} {o f : Nat} (h : CReady P c out o f)
    (hsps : c.sendPingSoon = 0) (hr : c.outchunkresent < 3) (ha : ¬ c.lastdownstreamtime + 60 < c.now + 1) :
    ∃ name, Client.cstep ⟨c, .tunnel⟩ .tick =
      (⟨resentState c, .tunnel⟩, [.query (resentState c).chunkid P.ty name], .sel (Client.selectOf (resentState c))) := by
  have hs := h.sending
  have hadv := advanceClock_sending c hs hsps
  have h1 := h.tweak (c.now + 1) (c.outchunkresent + 1) ha
  obtain ⟨name, hsend, -⟩ := send_ready hP h1
  have hrun : (sentState { c with now := c.now + 1, outchunkresent := c.outchunkresent + 1 }).running = true := by
    have := (sentFacts { c with now := c.now + 1, outchunkresent := c.outchunkresent + 1 }).running
    exact this.trans h.stat.running
  refine ⟨name, ?_⟩
  show Client.tunnelStep c .tick = _
  rw [tunnelStep_tick c h.stat.running (by rw [hadv]; exact ha), hadv,
    Client.timeoutBranch_resend _ (by exact hs) (by exact hr)]
  show Client.settle (Client.afterSend (Client.sendChunk { c with now := c.now + 1, outchunkresent := c.outchunkresent + 1 }) []
    .timeout) = _
  rw [settle_afterSend _ _ _ (by rw [hsend]) (by rw [hsend]; exact hrun), hsend]
  have e : ({ sentState { c with now := c.now + 1, outchunkresent := c.outchunkresent + 1 } with sendPingSoon := 0 } : Client.Cli) =
      resentState c := rfl
  have e2 : (sentState { c with now := c.now + 1, outchunkresent := c.outchunkresent + 1 }).chunkid = (resentState c).chunkid := by
    rw [← e]
  simp only [List.nil_append]
  rw [e, e2]

/-- the timeout after the third resend: the packet is dropped, a ping goes out -/
theorem cstep_giveup {P : Par} (hP : P.Ok) {c : Client.Cli} {out : List Nat} {o f : Nat} (h : CReady P c out o f)
    (hsps : c.sendPingSoon = 0) (hr : 3 ≤ c.outchunkresent) (ha : ¬ c.lastdownstreamtime + 60 < c.now + 1) :
    ∃ name, Client.cstep ⟨c, .tunnel⟩ .tick =
        (⟨gaveupState c, .tunnel⟩, [.query (gaveupState c).chunkid P.ty name], .sel (Client.selectOf (gaveupState c))) ∧
      PingQ P (upQuery (gaveupState c).chunkid P.ty name) c.inpkt.seqno c.inpkt.fragment c.randSeed := by
  have hs := h.sending
  have hadv := advanceClock_sending c hs hsps
  generalize hc1 : ({ c with now := c.now + 1 } : Client.Cli) = c1 at hadv
  have hs1 : Client.isSending c1 = true := by rw [← hc1]; exact hs
  have hr1 : ¬ c1.outchunkresent < 3 := by rw [← hc1]; show ¬ c.outchunkresent < 3; omega
  have hd : CStat P (dropPkt c1) := by
    rw [← hc1]
    exact ⟨h.stat.running, h.stat.conn, h.stat.imm, h.stat.uid, h.stat.uch, h.stat.td, h.stat.L, h.stat.enc, h.stat.ty,
      h.stat.cid, h.stat.cmc, ha, h.stat.oseq, h.stat.iseq, h.stat.ifrag, h.stat.seed⟩
  obtain ⟨name, hsend, hpq⟩ := sendPing_ready hP hd
  have he : Client.timeoutBranch c1 = Client.afterSend (Client.sendPing (dropPkt c1)) [] .timeout := by
    unfold Client.timeoutBranch
    simp [hs1, hr1]
  have hrun : (Client.rotateChunkid { dropPkt c1 with randSeed := ((dropPkt c1).randSeed + 1) % 65536 }).running = true := by
    have : (Client.rotateChunkid { dropPkt c1 with randSeed := ((dropPkt c1).randSeed + 1) % 65536 }).running = c1.running := by
      simp [Client.rotateChunkid]
    rw [this, ← hc1]; exact h.stat.running
  have hg : gaveupState c = pingState (dropPkt c1) := by rw [← hc1]; rfl
  refine ⟨name, ?_, ?_⟩
  · show Client.tunnelStep c .tick = _
    rw [tunnelStep_tick c h.stat.running (by rw [hadv]; rw [← hc1]; exact ha), hadv, he,
      settle_afterSend _ _ _ (by rw [hsend]) (by rw [hsend]; exact hrun), hsend, hg]
    have e : ({ Client.rotateChunkid { dropPkt c1 with randSeed := ((dropPkt c1).randSeed + 1) % 65536 } with sendPingSoon := 0 } :
        Client.Cli) = pingState (dropPkt c1) := by unfold pingState; rfl
    have e2 : (Client.rotateChunkid { dropPkt c1 with randSeed := ((dropPkt c1).randSeed + 1) % 65536 }).chunkid =
        (pingState (dropPkt c1)).chunkid := by rw [← e]
    simp only [List.nil_append]
    rw [e, e2]
  · rw [hg]
    have e : (pingState (dropPkt c1)).chunkid =
        (Client.rotateChunkid { dropPkt c1 with randSeed := ((dropPkt c1).randSeed + 1) % 65536 }).chunkid := by
      simp [pingState]
    rw [e]
    have e1 : (dropPkt c1).inpkt = c.inpkt := by rw [← hc1]
    have e2 : (dropPkt c1).randSeed = c.randSeed := by rw [← hc1]
    rw [← e1, ← e2]
    exact hpq

end Iodine.C02L
