import IodineModel.Lemmas.C02L7
/-
C02 / lazy mode, upstream — a fragment that is not the last one (two scheduler steps: `deliverUp`, `deliverDown`).
-/
namespace Iodine.C02L
open Iodine Iodine.Gen Iodine.World

/-- `tunnel_dns` of the client accepts the first character of a held query's name -/
theorem notData_held {P : Par} {c : Client.Cli} (hc : c.useridChar = hexLower P.u) (n0 : Nat)
    (h : n0 = hexLower P.u ∨ n0 = 112) : Client.notData c n0 = false := by
  unfold Client.notData
  rcases h with h | h
  · simp [h, hc]
  · simp [h]

theorem cntOk_ackNext (c : Client.Cli) (d : Nat) (h : CntOk c d) : CntOk (ackNext c) d := by
  unfold CntOk at *
  exact h

theorem cntOk_ackDone (c : Client.Cli) (d : Nat) (h : CntOk c d) : CntOk (ackDone c) d := by
  unfold CntOk at *
  exact h

theorem mid_step_lazy {P : Par} (hP : P.Ok) {out : List Nat} {w : W} {c0 : Client.Cli} {o f : Nat}
    (h : UpFlightL P out w c0 o f) (h64 : out.length ≤ 65536)
    (hlt : o + fragLen P (out.drop o) < out.length) (hf1 : f + 1 < 16) :
    ∃ w' c0', promptSteps P.u 2 w = some w' ∧ UpFlightL P out w' c0' (o + fragLen P (out.drop o)) (f + 1) ∧
      w'.tunS = w.tunS ∧ w'.tunC = w.tunC ∧ c0'.outpkt.seqno = c0.outpkt.seqno ∧
      (Server.getUser w'.srv P.u).tunIp = (Server.getUser w.srv P.u).tunIp ∧
      (Server.getUser w'.srv P.u).fragsize = (Server.getUser w.srv P.u).fragsize := by
  obtain ⟨name, hsend, hm1, hm2, hQ⟩ := send_readyL hP h.ready
  generalize hm : fragLen P (out.drop o) = m at *
  have hlast : (m == out.length - o) = false := by
    rw [beq_eq_false_iff_ne]; omega
  rw [hlast] at hQ
  have hsf := sentFactsL c0
  have hsi := sentIdsL c0
  have hcst := cstat_sentL h.ready
  have hup : w.up = [.query (sentState c0).chunkid P.ty name] := by rw [h.up, hsend]; rfl
  have hsq : c0.outpkt.seqno.toNat < 8 := by have := h.ready.stat.oseq; omega
  have hsqc : ((c0.outpkt.seqno.toNat : Nat) : Int) = c0.outpkt.seqno := by have := h.ready.stat.oseq; omega
  -- step 1: the server receives the fragment and answers the query it held
  obtain ⟨s', evs, t, pkt, hit, hdown, htun, hmid, hmem⟩ :=
    srv_recv_mid_lazy hP h.srv h.idle h.ready.stat.cmc h.held h.mem hQ h.expect hsq h.ready.hf hm2 h64
  have hHc0 := h.mem.c0
  have hHid := h.heldid
  generalize hH : (Server.getUser w.srv P.u).q = H at hdown hHc0 hHid
  have hq1 : quiet P.u w = false := quiet_false_of_up _ _ _ _ hup
  have hs1 : step w (promptEv w) =
      { w with up := [], srv := s', down := [.ans H.id H.type H.name pkt] } := by
    rw [promptEv_up w _ _ hup, step_deliverUp w _ _ hup, srvInput_query, stepS_zero { w with up := [] } _ s' evs t hit, hdown, htun]
    simp [h.down]
  -- step 2: the client receives the acknowledgement
  generalize hw2 : ({ w with up := [], srv := s', down := [.ans H.id H.type H.name pkt] } : W) = w2 at hs1
  have hw2cs : w2.cs = w.cs := by subst hw2; rfl
  have hw2up : w2.up = [] := by subst hw2; rfl
  have hw2down : w2.down = [.ans H.id H.type H.name pkt] := by subst hw2; rfl
  have hq2 : quiet P.u w2 = false := quiet_false_of_down _ _ _ _ hw2down
  obtain ⟨y, hpkt, hyo, hys, hyf⟩ := hmid.pkt
  have hyf' : y.inpacket.fragment = (f : Int) := by rw [hyf]; omega
  obtain ⟨hlen2, hdn, hus, huf⟩ := ack_hdr (x := Server.getUser w.srv P.u) hpkt (by rw [hys]; omega) (by rw [hyf']; omega) hyo
    h.srv.x.oseq h.srv.x.ofrag
  have hcnt2 : CntOk { sentStateL c0 with sendPingSoon := 0 } 2 := hsi.cnt h.ready.cnt
  generalize hc : ({ sentStateL c0 with sendPingSoon := 0 } : Client.Cli) = c at hsf hcst hsi hcnt2
  have hwc : w.cs = ⟨c, .tunnel⟩ := by rw [cstate_eta w.cs h.ph, h.cli, hc]
  -- the answer as the client's `read_dns` delivers it
  generalize hrq : (Client.Rq.mk (pkt.length : Int) H.id (answerType H.type) 0 (H.name.headD 0) pkt) = rq
  have hdl : Client.tunnelDns c rq = Client.upstream (ackBook c) (Client.decodeHdr pkt) [] false 2 := by
    have := tunnelDns_dataless_lazy c rq
      (by subst hrq; show Client.notData c (H.name.headD 0) = false
          rw [headD_eq_getD]
          exact notData_held (hsf.useridChar.trans h.ready.stat.uch) _ hHc0)
      (by subst hrq; exact hlen2)
      (by subst hrq; unfold Client.recentId; show (H.id == c.chunkid || H.id == c.chunkidPrev || H.id == c.chunkidPrev2) = true
          rw [hsi.prev, hHid]; simp)
      hsf.sps
      (by subst hrq; show H.id ≠ c.chunkid; rw [hHid]; exact fun e => hsi.ne h.ready.stat.cid e.symm)
      (by subst hrq; show (Client.decodeHdr pkt).dnSeq = c.inpkt.seqno; rw [hdn, hsf.inpkt]; exact h.syncd)
    subst hrq
    exact this
  have hbk : (ackBook c).outpkt = c.outpkt := rfl
  have hmore := upstream_ack_more (ackBook c) (Client.decodeHdr pkt) [] false 2
    (by
      have hlen0 : out.length ≠ 0 := by have := h.ready.ho; omega
      unfold Client.isSending
      rw [hbk, hsf.olen, h.ready.len]
      simpa using hlen0)
    (by rw [hus, hys, hbk, hsf.oseq]; exact hsqc)
    (by rw [huf, hyf', hbk, hsf.ofrag, h.ready.frag])
    (by rw [hbk, hsf.ooff, hsf.osent, hsf.olen, cFragLen_readyL h.ready, hm, h.ready.off, h.ready.len]; exact hlt)
  -- the next ready state
  generalize hc0' : ackNext (ackBook c) = c0' at hmore
  have hready' : CReadyL P c0' out (o + m) (f + 1) := by
    subst hc0'
    have hb := cstat_ackBookL hcst
    refine ⟨⟨hb.running, hb.conn, hb.lz, hb.uid, hb.uch, hb.td, hb.L, hb.enc, hb.ty, hb.cid, hb.cmc, hb.alive, hb.oseq, hb.iseq, hb.ifrag, hb.seed⟩,
      cntOk_ackNext _ _ (ackBook_cnt c hcnt2), ?_, ?_, ?_, ?_, hlt, hf1, h.ready.bytes⟩
    · show c.outpkt.data = out; rw [hsf.odata]; exact h.ready.data
    · show c.outpkt.len = out.length; rw [hsf.olen]; exact h.ready.len
    · show c.outpkt.offset + c.outpkt.sentlen = o + m
      rw [hsf.ooff, hsf.osent, cFragLen_readyL h.ready, hm, h.ready.off]
    · show Client.sChar (c.outpkt.fragment + 1) = ((f + 1 : Nat) : Int)
      rw [hsf.ofrag, h.ready.frag, sChar_small _ (by omega)]
      omega
  obtain ⟨name', hsend', _, _, _⟩ := send_readyL hP hready'
  have hsf' := sentFactsL c0'
  have hstep2 : Client.cstep w2.cs (.rq rq) =
      (⟨{ sentStateL c0' with sendPingSoon := 0 }, .tunnel⟩, [] ++ (Client.sendChunk c0').evs,
       .sel (Client.selectOf { sentStateL c0' with sendPingSoon := 0 })) := by
    rw [hw2cs, hwc, cstep_rq c rq hcst.running hcst.alive hcst.conn, hdl, hmore]
    rw [settle_afterSend _ _ _ (by rw [hsend']) (by rw [hsend']; have := hsf'.running; simpa using this.trans hready'.stat.running)]
    rw [hsend']
  have hnow' : ({ sentStateL c0' with sendPingSoon := 0 } : Client.Cli).now = w2.cs.c.now := by
    rw [hsf'.now, hw2cs, hwc]
    subst hc0'; rfl
  have hs2 : step w2 (promptEv w2) =
      { w2 with down := [], cs := ⟨{ sentStateL c0' with sendPingSoon := 0 }, .tunnel⟩,
                up := upOfEvents (Client.sendChunk c0').evs } := by
    rw [promptEv_down w2 _ _ hw2up hw2down, step_deliverDown w2 _ _ hw2down]
    have hci : cliInput (.ans H.id H.type H.name pkt) = .rq rq := by subst hrq; rfl
    rw [hci, stepC_of _ _ _ _ _ (by exact hstep2) (by exact hnow')]
    subst hw2
    simp [hsend', tunOfCEvents]
  have hcmc' : c0'.datacmc = (c0.datacmc + 1) % 36 := by
    subst hc0'; show c.datacmc = _; rw [hsf.cmc]
    have := h.ready.stat.cmc
    split <;> omega
  have hseed' : c0'.randSeed = c0.randSeed := by subst hc0'; show c.randSeed = _; exact hsf.seed
  refine ⟨{ w2 with down := [], cs := ⟨{ sentStateL c0' with sendPingSoon := 0 }, .tunnel⟩,
                    up := upOfEvents (Client.sendChunk c0').evs }, c0', ?_, ?_, ?_, ?_, ?_, ?_, ?_⟩
  · rw [promptSteps_succ hq1, hs1, promptSteps_succ hq2, hs2]
    rfl
  · subst hw2
    refine ⟨rfl, hready', rfl, rfl, rfl, hmid.stat, hmid.idle, by rw [hmid.oq]; exact h.oq, ?_, ?_, ?_, ?_, ?_⟩
    · show HeldBase P (Server.getUser s' P.u).q
      rw [hmid.qeq]; exact hQ.heldBase
    · show (Server.getUser s' P.u).q.id = c0'.chunkid
      rw [hmid.qeq, upQuery_id]
      subst hc0'; show _ = c.chunkid; exact hsi.cid.symm
    · have : c0'.outpkt.seqno = c0.outpkt.seqno := by subst hc0'; show c.outpkt.seqno = _; exact hsf.oseq
      rw [this]; exact hmid.expect
    · show (Server.getUser s' P.u).outpacket.seqno = c0'.inpkt.seqno
      rw [hmid.outp, h.syncd]
      subst hc0'; show c0.inpkt.seqno = c.inpkt.seqno; rw [hsf.inpkt]
    · show HeldMem P (Server.getUser s' P.u) (Server.getUser s' P.u).q c0'.datacmc c0'.randSeed
      rw [hmid.qeq, hcmc', hseed']; exact hmem
  · subst hw2; rfl
  · subst hw2; rfl
  · subst hc0'; show c.outpkt.seqno = _; exact hsf.oseq
  · subst hw2; exact hmid.tun
  · subst hw2; exact hmid.frag

end Iodine.C02L
