import IodineModel.Lemmas.C02qL5
/-
C02 phase 2 / upstream, lazy mode, desynchronised — the bad half of the window: ONE offered packet is dropped for good.

`up_packet_lazy_desync_drop`: from `QuietLazyD P d 0 w` with `4 ≤ d ≤ 6`, or `d = 7` and the server's `inpacket.fragment ≥ 1`:
`offerC frame` followed by exactly 14 steps of the prompt schedule
   (deliverUp deliverDown tickC) × 3   — the fragment, dropped by the server; an answer that acknowledges something else; the
                                          1 s timer, resend
    deliverUp deliverDown tickC         — the same once more, but the 4th timer gives the packet up and sends a ping
    deliverUp deliverDown               — the server answers the data query it held and holds the ping; the client reads it
ends in `QuietLazyD P ((d + 1) % 8) 0`: nothing was written to either tun device, the server's reassembly state is untouched,
four seconds have passed.  No hypothesis on the clocks is needed: every round starts with a query reaching the server
(`lastPkt` := now) and an answer reaching the client (`lastdownstreamtime` := now) before the clock moves by one second; and
no hypothesis on the number of fragments: only fragment 0 is ever sent.
-/
namespace Iodine.C02L
open Iodine Iodine.Gen Iodine.World

/-- one round: dropped, bounced, resent (three scheduler steps, one second) -/
theorem drop_round {P : Par} (hP : P.Ok) {out : List Nat} {w : W} {c0 : Client.Cli} {j r : Nat}
    (h : UpDropL P out w c0 j r) (hr : r < 3) :
    ∃ w' c0', promptSteps P.u 3 w = some w' ∧ UpDropL P out w' c0' j (r + 1) ∧
      w'.tunS = w.tunS ∧ w'.tunC = w.tunC ∧
      (Server.getUser w'.srv P.u).inpacket = (Server.getUser w.srv P.u).inpacket ∧
      (Server.getUser w'.srv P.u).tunIp = (Server.getUser w.srv P.u).tunIp ∧
      (Server.getUser w'.srv P.u).fragsize = (Server.getUser w.srv P.u).fragsize ∧
      w'.srv.now = w.srv.now + 1 ∧ w'.cs.c.now = w.cs.c.now + 1 := by
  obtain ⟨w2, hs2, hb, a1, a2, a3, a4, a5, a6, a7⟩ := drop_bounce hP h
  obtain ⟨w3, c0', hs3, hd, b1, b2, _, b4, b5, b6, b7, b8⟩ := drop_resend hP hb hr
  refine ⟨w3, c0', ?_, hd, by rw [b1, a1], by rw [b2, a2], by rw [b4, a3], by rw [b5, a4], by rw [b6, a5], by rw [b7, a6],
    by rw [b8, a7]⟩
  have := promptSteps_add P.u 2 1 w w2 hs2
  rw [hs3] at this
  exact this

/-- the last round: dropped, bounced, given up, ping held, answer read (five scheduler steps, one second) -/
theorem drop_last_round {P : Par} (hP : P.Ok) {out : List Nat} {w : W} {c0 : Client.Cli} {j : Nat}
    (h : UpDropL P out w c0 j 3) :
    ∃ w', promptSteps P.u 5 w = some w' ∧ QuietLazyD P (j % 8) 0 w' ∧
      w'.tunS = w.tunS ∧ w'.tunC = w.tunC ∧
      (Server.getUser w'.srv P.u).inpacket = (Server.getUser w.srv P.u).inpacket ∧
      (Server.getUser w'.srv P.u).tunIp = (Server.getUser w.srv P.u).tunIp ∧
      (Server.getUser w'.srv P.u).fragsize = (Server.getUser w.srv P.u).fragsize ∧
      w'.srv.now = w.srv.now + 1 ∧ w'.cs.c.now = w.cs.c.now + 1 := by
  obtain ⟨w2, hs2, hb, a1, a2, a3, a4, a5, a6, a7⟩ := drop_bounce hP h
  obtain ⟨w3, hs3, hd, b1, b2, _, b4, b5, b6, b7, b8⟩ := drop_giveup hP hb
  refine ⟨w3, ?_, hd, by rw [b1, a1], by rw [b2, a2], by rw [b4, a3], by rw [b5, a4], by rw [b6, a5], by rw [b7, a6],
    by rw [b8, a7]⟩
  have := promptSteps_add P.u 2 3 w w2 hs2
  rw [hs3] at this
  exact this

/-- **One packet offered in the bad half of the window is lost.**  `d` = how far the client's `outpkt.seqno` is ahead of the
server's `inpacket.seqno`; `4 ≤ d ≤ 6`, or `d = 7` and the server's `inpacket.fragment ≥ 1`.  For EVERY frame (any number of
fragments): after `offerC` and exactly 14 steps of the prompt schedule the joint state is quiescent again, nothing was
written to either tun device, the server's reassembly state is what it was, 4 seconds have passed on both clocks, and the
distance is `(d + 1) % 8`. -/
theorem up_packet_lazy_desync_drop {P : Par} (hP : P.Ok) {d : Nat} {w : W} (hq : QuietLazyD P d 0 w) (hd : 4 ≤ d ∧ d ≤ 7)
    (h7 : d = 7 → 1 ≤ (Server.getUser w.srv P.u).inpacket.fragment) (frame : List Nat)
    (hne : frame ≠ []) (hl : frame.length < 65536) (hb : Codec.Bytes frame) :
    ∃ w', promptSteps P.u 14 (step w (.offerC frame)) = some w' ∧ QuietLazyD P ((d + 1) % 8) 0 w' ∧
      w'.tunS = w.tunS ∧ w'.tunC = w.tunC ∧
      (Server.getUser w'.srv P.u).inpacket = (Server.getUser w.srv P.u).inpacket ∧
      (Server.getUser w'.srv P.u).tunIp = (Server.getUser w.srv P.u).tunIp ∧
      (Server.getUser w'.srv P.u).fragsize = (Server.getUser w.srv P.u).fragsize ∧
      w'.srv.now = w.srv.now + 4 ∧ w'.cs.c.now = w.cs.c.now + 4 := by
  obtain ⟨w0, hw0, h0, t0, u0, s0⟩ := up_offer_lazy_drop hP hq hd h7 frame hne hl hb
  have hn0 : w0.cs.c.now = w.cs.c.now := by
    rw [h0.cli]; exact (sentFactsL _).now
  obtain ⟨w1, c1, e1, h1, a1, a2, a3, a4, a5, a6, a7⟩ := drop_round hP h0 (by omega)
  obtain ⟨w2, c2, e2, h2, b1, b2, b3, b4, b5, b6, b7⟩ := drop_round hP h1 (by omega)
  obtain ⟨w3, c3, e3, h3, c1', c2', c3', c4', c5', c6', c7'⟩ := drop_round hP h2 (by omega)
  obtain ⟨w4, e4, h4, d1, d2, d3, d4, d5, d6, d7⟩ := drop_last_round hP h3
  rw [hw0]
  refine ⟨w4, ?_, h4, by rw [d1, c1', b1, a1, t0], by rw [d2, c2', b2, a2, u0], by rw [d3, c3', b3, a3, s0],
    by rw [d4, c4', b4, a4, s0], by rw [d5, c5', b5, a5, s0], by rw [d6, c6', b6, a6, s0], by rw [d7, c7', b7, a7, hn0]⟩
  have x1 := promptSteps_add P.u 3 11 w0 w1 e1
  have x2 := promptSteps_add P.u 3 8 w1 w2 e2
  have x3 := promptSteps_add P.u 3 5 w2 w3 e3
  rw [show (14 : Nat) = 3 + 11 from rfl, x1, show (11 : Nat) = 3 + 8 from rfl, x2, show (8 : Nat) = 3 + 5 from rfl, x3, e4]

/-- in terms of the executable prompt run -/
theorem desync_drop_run {P : Par} (hP : P.Ok) {d : Nat} {w : W} (hq : QuietLazyD P d 0 w) (hd : 4 ≤ d ∧ d ≤ 7)
    (h7 : d = 7 → 1 ≤ (Server.getUser w.srv P.u).inpacket.fragment) (frame : List Nat)
    (hne : frame ≠ []) (hl : frame.length < 65536) (hb : Codec.Bytes frame) :
    ∃ w', (∀ fuel, 14 ≤ fuel → runPromptCount P.u fuel (step w (.offerC frame)) 0 = (w', 14)) ∧
      (∀ fuel, 14 ≤ fuel → runPrompt P.u fuel (step w (.offerC frame)) = w') ∧
      QuietLazyD P ((d + 1) % 8) 0 w' ∧ w'.tunS = w.tunS ∧ w'.tunC = w.tunC ∧
      (Server.getUser w'.srv P.u).inpacket = (Server.getUser w.srv P.u).inpacket ∧
      (Server.getUser w'.srv P.u).tunIp = (Server.getUser w.srv P.u).tunIp := by
  obtain ⟨w', h1, h2, h3, h4, h5, h6, _⟩ := up_packet_lazy_desync_drop hP hq hd h7 frame hne hl hb
  refine ⟨w', fun fuel hf => ?_, fun fuel hf => runPrompt_of_steps P.u _ _ _ h1 h2.quiet fuel hf, h2, h3, h4, h5, h6⟩
  have := runPromptCount_of_steps P.u _ _ _ h1 h2.quiet fuel 0 hf
  simpa using this

end Iodine.C02L
