import IodineModel.Server.Bytes
import IodineModel.Lemmas.DownstreamE2E
import IodineModel.Lemmas.DownstreamMx
import IodineModel.Props.C10
/-
Helper lemmas for the byte-level server (Server/Bytes.lean), part A: `write_dns` as a whole.

`writeDns_echo`: for a legal question name, one of the seven tunnel record types and a payload of 1..4096 bytes,
`write_dns` sends a datagram (for every downstream codec byte) that the strict parser accepts and that echoes id,
name and type — the per-format theorems of Props/C10.lean (`echo` over `AnswerCase`) applied to what
`write_dns` / `write_dns_nameenc` hand to `dns_encode`.
-/
namespace Iodine.BytesL
open Iodine Iodine.Codec Iodine.Encoding Iodine.Wire Iodine.Wire.Strict Iodine.Wire.Put Iodine.Wire.DnsEncode
open Iodine.Server.WriteDns Iodine.C10 Iodine.Downstream

/-- NULL, PRIVATE, TXT, SRV, MX, CNAME, A: the types `tunnel_dns` hands to `handle_null_request` -/
def TunnelType (ty : Nat) : Prop := ty = 10 ∨ ty = 65399 ∨ ty = 16 ∨ ty = 33 ∨ ty = 15 ∨ ty = 5 ∨ ty = 1

instance (ty : Nat) : Decidable (TunnelType ty) := by unfold TunnelType; infer_instance

/-- the static counters stay in range whatever `write_dns_nameenc` is asked to encode -/
theorem mxBuild_tdOk (dn : Nat) : ∀ (fuel : Nat) (td : Td) (boff : Nat) (data : List Nat), TdOk td →
    TdOk (mxBuild fuel td boff data dn).1
  | 0, td, _, _, h => h
  | fuel + 1, td, boff, data, h => by
    unfold mxBuild
    split
    · exact h
    · have h1 : TdOk (nameenc td (65536 - boff) data dn).td := tdStep_ok h
      extract_lets r
      split
      · exact h1
      · split
        · exact h1
        · have ih := mxBuild_tdOk dn fuel r.td (boff + r.name.length + 1) (data.drop r.used) h1
          split <;> (rename_i heq; rw [heq] at ih; exact ih)

theorem writeDnsR_tdOk (td : Td) (h : TdOk td) (id ty : Nat) (qn p : List Nat) (dn : Nat) :
    TdOk (writeDnsR td id ty qn p dn).1 := by
  unfold writeDnsR
  split
  · exact tdStep_ok h
  · split
    · have := mxBuild_tdOk dn (p.length + 1) td 0 p h
      split <;> (rename_i heq; rw [heq] at this; exact this)
    · split <;> exact h

theorem writeDns_tdOk (td : Td) (h : TdOk td) (q : Nat × Nat × List Nat) (p : List Nat) (dn : Nat) :
    TdOk (writeDns td q p dn).1 := by
  have := writeDnsR_tdOk td h q.1 q.2.1 q.2.2 p dn
  unfold writeDns
  split <;> (rename_i heq; rw [heq] at this; exact this)

/-- `write_dns` sends iff `dns_encode` produced a non-empty message -/
theorem writeDns_of_R {td td' : Td} {q : Nat × Nat × List Nat} {p pkt : List Nat} {dn : Nat}
    (h : writeDnsR td q.1 q.2.1 q.2.2 p dn = (td', .ok pkt)) (hne : pkt ≠ []) :
    writeDns td q p dn = (td', some pkt) := by
  unfold writeDns
  rw [h]
  simp only []
  rw [if_neg (by
    have : 0 < pkt.length := List.length_pos_iff.2 hne
    omega)]

theorem txtText_bytes (p : List Nat) (dn : Nat) (hp : IsBytes p) : IsBytes (txtText p dn) := by
  have h32 := tables_lt256.1
  have h64 := tables_lt256.2.1
  have h64u := tables_lt256.2.2.1
  have h128 := tables_lt256.2.2.2
  unfold txtText
  intro b hb
  simp only [] at hb
  split at hb
  · simp only [List.mem_cons] at hb
    rcases hb with rfl | hb
    · omega
    · exact h64 b (C07.chars_in_table C07.wf_b64 _ p b hb)
  · split at hb
    · simp only [List.mem_cons] at hb
      rcases hb with rfl | hb
      · omega
      · exact h64u b (C07.chars_in_table C07.wf_b64u _ p b hb)
    · split at hb
      · simp only [List.mem_cons] at hb
        rcases hb with rfl | hb
        · omega
        · exact h128 b (C07.chars_in_table C07.wf_b128 _ p b hb)
      · split at hb
        · simp only [List.mem_cons] at hb
          rcases hb with rfl | hb
          · omega
          · exact hp b (List.mem_of_mem_take hb)
        · simp only [List.mem_cons] at hb
          rcases hb with rfl | hb
          · omega
          · exact h32 b (C07.chars_in_table C07.wf_b32 _ p b hb)

/-- what `echo` of Props/C10.lean concludes about a datagram -/
def Echoes (id ty : Nat) (qn pkt : List Nat) : Prop :=
  ∃ m, parseMsg pkt = some m ∧ m.id = id ∧ m.flags = 0x8400 ∧ m.qd = [(labels qn, ty, 1)] ∧ m.an ≠ [] ∧
    (∀ r ∈ m.an, r.owner = labels qn ∧ r.cls = 1) ∧ m.ns = [] ∧ m.ar = []

theorem parseMsg_ne_nil {pkt : List Nat} {m : Msg} (h : parseMsg pkt = some m) : pkt ≠ [] := by
  intro he
  subst he
  have : parseMsg [] = none := by decide
  rw [this] at h
  cases h

/-- **`write_dns` as a whole.**  Legal question name, tunnel record type, payload of 1..4096 bytes, any codec byte:
the datagram is sent, is well-formed and echoes the question. -/
theorem writeDns_echo (td : Td) (htd : TdOk td) (id ty : Nat) (qn p : List Nat) (dn : Nat)
    (hid : id < 65536) (hty : TunnelType ty) (hqn : LegalName qn) (hpb : IsBytes p)
    (hp1 : 1 ≤ p.length) (hp : p.length ≤ 4096) :
    ∃ td' pkt, writeDns td (id, ty, qn) p dn = (td', some pkt) ∧ TdOk td' ∧ Echoes id ty qn pkt := by
  have h253 := hqn.1
  have hpne : p ≠ [] := by intro h; rw [h] at hp1; simp at hp1
  have key : ∀ (td' : Td) (data : List Nat) (datalen : Nat), AnswerCase 65536 qn.length ty data datalen →
      writeDnsR td id ty qn p dn = (td', dnsEncodeAnswer 65536 id ty qn data datalen) →
      ∃ td' pkt, writeDns td (id, ty, qn) p dn = (td', some pkt) ∧ TdOk td' ∧ Echoes id ty qn pkt := by
    intro td' data datalen hc hw
    obtain ⟨pkt, m, henc, hm, h1, h2, h3, h4, h5, h6, h7⟩ := echo 65536 id ty qn data datalen hid hqn (Nat.le_refl _) hc
    rw [henc] at hw
    have htd' : TdOk td' := by
      have := writeDnsR_tdOk td htd id ty qn p dn
      rw [hw] at this; exact this
    exact ⟨td', pkt, writeDns_of_R (q := (id, ty, qn)) hw (parseMsg_ne_nil hm), htd', m, hm, h1, h2, h3, h4, h5, h6, h7⟩
  rcases hty with rfl | rfl | rfl | rfl | rfl | rfl | rfl
  · exact key td p p.length (.raw 10 p (by decide) (by decide) hpb (by omega)) (by simp [writeDnsR, T_CNAME, T_A, T_MX, T_SRV, T_TXT])
  · exact key td p p.length (.raw 65399 p (by decide) (by decide) hpb (by omega)) (by simp [writeDnsR, T_CNAME, T_A, T_MX, T_SRV, T_TXT])
  · -- TXT
    have hl := txtText_length p dn hp
    have hle := txtLen_le dn p.length hp
    have hne : txtText p dn ≠ [] := by
      intro h; rw [h, List.length_nil] at hl; omega
    exact key td (txtText p dn) (txtText p dn).length (.txt _ (txtText_bytes p dn hpb) hne (by omega))
      (by simp [writeDnsR, T_CNAME, T_A, T_MX, T_SRV, T_TXT])
  · -- SRV
    exact mx_case td htd id 33 qn p dn (Or.inr rfl) hqn hpb hpne hp key
  · -- MX
    exact mx_case td htd id 15 qn p dn (Or.inl rfl) hqn hpb hpne hp key
  · -- CNAME
    have hs := nameenc_shape td htd 1024 (by omega) p hpb dn
    have hl := hs.legal.1
    exact key (nameenc td 1024 p dn).td ((nameenc td 1024 p dn).name ++ 0 :: []) 1024 (.cname 5 _ [] 1024 (Or.inl rfl) hs.legal (by omega))
      (by simp [writeDnsR, T_CNAME, T_A])
  · -- A
    have hs := nameenc_shape td htd 1024 (by omega) p hpb dn
    have hl := hs.legal.1
    exact key (nameenc td 1024 p dn).td ((nameenc td 1024 p dn).name ++ 0 :: []) 1024 (.cname 1 _ [] 1024 (Or.inr rfl) hs.legal (by omega))
      (by simp [writeDnsR, T_CNAME, T_A])
where
  mx_case (td : Td) (htd : TdOk td) (id ty : Nat) (qn p : List Nat) (dn : Nat) (hty : ty = 15 ∨ ty = 33)
      (hqn : LegalName qn) (hpb : IsBytes p) (hpne : p ≠ []) (hp : p.length ≤ 4096)
      (key : ∀ (td' : Td) (data : List Nat) (datalen : Nat), AnswerCase 65536 qn.length ty data datalen →
        writeDnsR td id ty qn p dn = (td', dnsEncodeAnswer 65536 id ty qn data datalen) →
        ∃ td' pkt, writeDns td (id, ty, qn) p dn = (td', some pkt) ∧ TdOk td' ∧ Echoes id ty qn pkt) :
      ∃ td' pkt, writeDns td (id, ty, qn) p dn = (td', some pkt) ∧ TdOk td' ∧ Echoes id ty qn pkt := by
    have h253 := hqn.1
    have hbuild := mxBuild_eq dn (p.length + 1) td 0 p htd hpb hpne (by omega) (by omega)
    have hprops := mxItems_props dn (p.length + 1) td p htd hpb (by omega) hpne
    have hcount := mxItems_length dn (p.length + 1) td p (by omega) hpne
    have hne := mxItems_ne_nil dn p.length td p
    generalize hmb : mxBuild (p.length + 1) td 0 p dn = res at hbuild
    obtain ⟨td', o⟩ := res
    simp only at hbuild
    subst hbuild
    generalize mxItems (p.length + 1) td p dn = items at hprops hcount hne hmb
    have hleg : ∀ x ∈ items.map (·.1), LegalName x := by
      intro x hx
      simp only [List.mem_map] at hx
      obtain ⟨it, hit, rfl⟩ := hx
      exact (hprops it hit).2
    generalize hns : items.map (·.1) = names at hleg hmb
    have hnl : names.length = items.length := by rw [← hns]; simp
    obtain ⟨d, dns, rfl⟩ : ∃ d dns, names = d :: dns := by
      cases names with
      | nil => rw [List.length_nil] at hnl; exact absurd (List.eq_nil_of_length_eq_zero hnl.symm) hne
      | cons d dns => exact ⟨d, dns, rfl⟩
    have hsz := mxSize_le ty (d :: dns) (fun x hx => (hleg x hx).1)
    have hlen27 : (d :: dns).length ≤ 28 := by rw [hnl]; omega
    refine key td' (mxPack (d :: dns) ++ []) 65536 (.mx ty d dns [] 65536 hty hleg (by omega)) ?_
    unfold writeDnsR
    rw [if_neg (by rcases hty with h | h <;> simp [h, T_CNAME, T_A]),
      if_pos (by rcases hty with h | h <;> simp [h, T_MX, T_SRV]), hmb]
    simp

end Iodine.BytesL
