import IodineModel.Gen.Tables
import IodineModel.Codec.Inst
import IodineModel.Encoding
import IodineModel.Lemmas.C11a
/-
C11, part b — pure model of the negotiation part of the client's handshake (src/client.c) and of the
server's answer encoding (`write_dns` / `write_dns_nameenc`, src/iodined.c) with the client's matching decoder
(`dns_namedec`).

A relay of C11 is a FIXED transformation, so every probe has one outcome per probe content; the retry loops of
the C functions (`for (i = 0; running && i < 3; i++)`, timeouts 1, 2, 3 s) are collapsed into that outcome
(`none` / `false` = no usable reply in any try).  `running` is true throughout (no Ctrl-C).

  handshake_upenctest          ↦ `upencTest`            (reply = the echoed name `in[0..read)`)
  handshake_upenc_autodetect   ↦ `upencAutodetect`
  write_dns (TXT branch)       ↦ `txtText`
  write_dns_nameenc            ↦ `nameenc`
  dns_namedec                  ↦ `namedec`
  handshake_downenctest        ↦ `downencTest`
  handshake_downenc_autodetect ↦ `downencAutodetect`
  handshake_qtype_autodetect   ↦ `qtypeAutodetect`
  fragsize_check + the 3 tries ↦ the oracle `Nat → ProbeRes`
  handshake_autoprobe_fragsize ↦ `autoprobeFragsize` (loop: `fragLoop`)
  client_handshake after login ↦ `clientHandshakeTail`
-/
namespace Iodine.C11L
open Iodine Iodine.Gen Iodine.Codec Iodine.Encoding

/-! ### upstream codec test -/

/-- return value of `handshake_upenctest`: -1, 0, 1 -/
inductive UpRes where
  | caseSwap | differ | same
deriving DecidableEq, Repr

/-- The name `send_upenctest` asks for: `z`, three CMC characters (`hdr`, 4 characters in all), the probe
string, '.', the tunnel domain. -/
def upName (hdr s td : List Nat) : List Nat := hdr ++ s ++ DOT :: td

/-- `handshake_upenctest(s)`; `reply` = `in[0..read)` of a fitting reply with `read > 0`, `none` otherwise.
The server's `Z` handler echoes the whole name it received. -/
def upencTest (s : List Nat) (reply : Option (List Nat)) : UpRes :=
  match reply with
  | none => .differ
  | some rin =>
    if rin.length = 0 then .differ
    else if rin.length < s.length + 4 then .differ
    else if rin.getD 4 0 = 65 then .caseSwap
    else if rin.getD 5 0 = 97 then .caseSwap
    else if (rin.drop 4).take s.length = s then .same
    else .differ

/-- the Base64 / Base64u part of `handshake_upenc_autodetect` -/
def upencTry64 (t : List Nat → UpRes) : Nat :=
  match t pat64 with
  | .caseSwap => 0
  | .same => 1
  | .differ =>
    match t pat64u with
    | .caseSwap => 0
    | .same => 2
    | .differ => 0

/-- `handshake_upenc_autodetect`: 0 keep Base32, 1 Base64, 2 Base64u, 3 Base128.
`t s` = result of `handshake_upenctest(s)`. -/
def upencAutodetect (t : List Nat → UpRes) : Nat :=
  match t pat128a with
  | .caseSwap => 0
  | .differ => upencTry64 t
  | .same =>
  match t pat128b with
  | .caseSwap => 0
  | .differ => upencTry64 t
  | .same =>
  match t pat128c with
  | .caseSwap => 0
  | .differ => upencTry64 t
  | .same =>
  match t pat128d with
  | .caseSwap => 0
  | .differ => upencTry64 t
  | .same =>
  match t pat128e with
  | .caseSwap => 0
  | .differ => upencTry64 t
  | .same => 3

theorem upencTest_same {s : List Nat} {reply : Option (List Nat)} (h : upencTest s reply = .same) :
    ∃ rin, reply = some rin ∧ s.length + 4 ≤ rin.length ∧ (rin.drop 4).take s.length = s := by
  unfold upencTest at h
  split at h
  · cases h
  · rename_i rin
    refine ⟨rin, rfl, ?_⟩
    split at h; · cases h
    split at h; · cases h
    split at h; · cases h
    split at h; · cases h
    split at h
    · rename_i h1 _ _ h2; exact ⟨by omega, h2⟩
    · cases h

/-- the echo of `upName hdr s td` through a character map -/
theorem upencTest_echo_same {f : Nat → Nat} {hdr s td : List Nat} (hh : hdr.length = 4)
    (h : upencTest s (some ((upName hdr s td).map f)) = .same) : s.map f = s := by
  obtain ⟨rin, hr, _, h2⟩ := upencTest_same h
  cases hr
  unfold upName at h2
  rw [List.append_assoc, List.map_append, List.drop_left' (by simpa using hh), List.map_append,
    List.take_left' (by simp)] at h2
  exact h2

theorem upencTry64_eq_1 {t : List Nat → UpRes} (h : upencTry64 t = 1) : t pat64 = .same := by
  unfold upencTry64 at h
  split at h
  · cases h
  · assumption
  · split at h <;> cases h

theorem upencTry64_eq_2 {t : List Nat → UpRes} (h : upencTry64 t = 2) : t pat64u = .same := by
  unfold upencTry64 at h
  split at h
  · cases h
  · cases h
  · split at h
    · cases h
    · assumption
    · cases h

theorem upencTry64_ne_3 (t : List Nat → UpRes) : upencTry64 t ≠ 3 := by
  unfold upencTry64
  split
  · decide
  · decide
  · split <;> decide

theorem upencAutodetect_eq_3 {t : List Nat → UpRes} (h : upencAutodetect t = 3) :
    t pat128a = .same ∧ t pat128b = .same ∧ t pat128c = .same ∧ t pat128d = .same ∧ t pat128e = .same := by
  unfold upencAutodetect at h
  have h3 := upencTry64_ne_3 t
  split at h; · cases h
  · exact absurd h h3
  split at h; · cases h
  · exact absurd h h3
  split at h; · cases h
  · exact absurd h h3
  split at h; · cases h
  · exact absurd h h3
  split at h; · cases h
  · exact absurd h h3
  exact ⟨by assumption, by assumption, by assumption, by assumption, by assumption⟩

theorem upencAutodetect_eq_1 {t : List Nat → UpRes} (h : upencAutodetect t = 1) : t pat64 = .same := by
  unfold upencAutodetect at h
  split at h; · cases h
  · exact upencTry64_eq_1 h
  split at h; · cases h
  · exact upencTry64_eq_1 h
  split at h; · cases h
  · exact upencTry64_eq_1 h
  split at h; · cases h
  · exact upencTry64_eq_1 h
  split at h; · cases h
  · exact upencTry64_eq_1 h
  cases h

theorem upencAutodetect_eq_2 {t : List Nat → UpRes} (h : upencAutodetect t = 2) : t pat64u = .same := by
  unfold upencAutodetect at h
  split at h; · cases h
  · exact upencTry64_eq_2 h
  split at h; · cases h
  · exact upencTry64_eq_2 h
  split at h; · cases h
  · exact upencTry64_eq_2 h
  split at h; · cases h
  · exact upencTry64_eq_2 h
  split at h; · cases h
  · exact upencTry64_eq_2 h
  cases h

theorem upencTry64_le (t : List Nat → UpRes) : upencTry64 t ≤ 2 := by
  unfold upencTry64
  split
  · decide
  · decide
  · split <;> decide

/-- no outcome of the probes makes the function fail: the result is always one of the four codecs -/
theorem upencAutodetect_le (t : List Nat → UpRes) : upencAutodetect t ≤ 3 := by
  have := upencTry64_le t
  unfold upencAutodetect
  repeat' split
  all_goals omega

/-! ### downstream: the server's answer text and the client's decoder -/

/-- the codec of a downstream codec letter (upper case), Base32 for everything else -/
def dnCodec (dn : Nat) : Codec :=
  if dn = 83 then b64 else if dn = 85 then b64u else if dn = 86 then b128 else b32

/-- `write_dns`, TXT branch: the bytes handed to `dns_encode` (`txtbuf[0 .. len+1)`) -/
def txtText (dn : Nat) (data : List Nat) : List Nat :=
  if dn = 83 then 115 :: (enc b64 65535 data).chars
  else if dn = 85 then 117 :: (enc b64u 65535 data).chars
  else if dn = 86 then 118 :: (enc b128 65535 data).chars
  else if dn = 82 then 114 :: data.take 65535
  else 116 :: (enc b32 65535 data).chars

/-- the letter `write_dns_nameenc` puts in front -/
def nameLetter (dn : Nat) : Nat :=
  if dn = 83 then 105 else if dn = 85 then 106 else if dn = 86 then 107 else 104

/-- `write_dns_nameenc(buf, buflen, data, datalen, downenc)` for `buflen ≥ 255` (1024 / 64 KiB in the
callers): `space = 255 - 4 - 2 = 249`, minus `249 / 57` for the dots; `inline_dotify` runs over the letter
and the encoding; then a '.' (if there is none) and the two rotating letters `t1 t2`.  Returns the name and
the number of data bytes encoded. -/
def nameenc (dn : Nat) (data : List Nat) (t1 t2 : Nat) : List Nat × Nat :=
  let r := enc (dnCodec dn) (249 - 249 / 57) data
  let s := dotify (nameLetter dn :: r.chars)
  let s' := if s.getLast? = some DOT then s else s ++ [DOT]
  (s' ++ [t1, t2], r.used)

/-- `dns_namedec(outdata, cap, buf, buflen)` with `buflen = |buf| ≥ 1`: the decoded bytes (length = return
value); the four codecs are parameters only so that proofs can swap in extensionally equal ones. -/
def namedecG (c32 c64 c64u c128 : Codec) (cap : Nat) (buf : List Nat) : List Nat :=
  match buf with
  | [] => []
  | l :: rest =>
    let host (c : Codec) : List Nat :=
      if buf.length < 5 then [] else unpackData c cap (rest.take (buf.length - 4))
    let txt (c : Codec) : List Nat :=
      if buf.length < 2 then [] else dec c cap (buf.length - 1) rest
    if l = 104 ∨ l = 72 then host c32
    else if l = 105 ∨ l = 73 then host c64
    else if l = 106 ∨ l = 74 then host c64u
    else if l = 107 ∨ l = 75 then host c128
    else if l = 116 ∨ l = 84 then txt c32
    else if l = 115 ∨ l = 83 then txt c64
    else if l = 117 ∨ l = 85 then txt c64u
    else if l = 118 ∨ l = 86 then txt c128
    else if l = 114 ∨ l = 82 then rest.take (min (buf.length - 1) cap)
    else []

/-- `dns_namedec` -/
def namedec (cap : Nat) (buf : List Nat) : List Nat := namedecG b32 b64 b64u b128 cap buf

/-- `sizeof(data)` in `read_dns_withq` -/
def NAMEDEC_CAP : Nat := 65536

/-- `handshake_downenctest`: the reply must be exactly the 48 check bytes.  `reply` = decoded answer
(`in[0..read)`, `read > 0`) or `none`. -/
def downencTest (reply : Option (List Nat)) : Bool :=
  match reply with
  | none => false
  | some rin => decide (rin.length > 0 ∧ rin.length = DOWNCODECCHECK1.length ∧ rin = DOWNCODECCHECK1)

theorem downencTest_true {reply : Option (List Nat)} (h : downencTest reply = true) :
    reply = some DOWNCODECCHECK1 := by
  unfold downencTest at h
  split at h
  · cases h
  · simp only [decide_eq_true_eq] at h
    rw [h.2.2]

/-- `handshake_downenc_autodetect`; `t c` = `handshake_downenctest(c)` for the codec letter `c`;
result: codec letter, ' ' (32) = stay with the default (Base32 / Raw for NULL) -/
def downencAutodetect (qtype : Nat) (t : Nat → Bool) : Nat :=
  if qtype = T_NULL ∨ qtype = T_PRIVATE then 32
  else
    let base64ok := t 83
    let base64uok := !base64ok && t 85
    let base128ok := (base64ok || base64uok) && t 86
    if base128ok && decide (qtype = T_TXT) && t 82 then 82
    else if base128ok then 86
    else if base64ok then 83
    else if base64uok then 85
    else 32

theorem downencAutodetect_cases (qtype : Nat) (t : Nat → Bool) :
    (downencAutodetect qtype t = 32) ∨
    (downencAutodetect qtype t = 83 ∧ t 83 = true) ∨
    (downencAutodetect qtype t = 85 ∧ t 85 = true) ∨
    (downencAutodetect qtype t = 86 ∧ t 86 = true) ∨
    (downencAutodetect qtype t = 82 ∧ t 82 = true ∧ t 86 = true ∧ qtype = T_TXT) := by
  unfold downencAutodetect
  by_cases hq : qtype = T_NULL ∨ qtype = T_PRIVATE
  · simp [hq]
  · simp only [hq, if_false]
    cases h83 : t 83 <;> cases h85 : t 85 <;> cases h86 : t 86 <;> cases h82 : t 82 <;>
      by_cases hT : qtype = T_TXT <;> simp [hT]

/-! ### query type autodetection -/

/-- `handshake_qtype_numcvt` -/
def qtypeNumcvt (num : Nat) : Nat :=
  match num with
  | 0 => T_NULL | 1 => T_PRIVATE | 2 => T_TXT | 3 => T_SRV | 4 => T_MX | 5 => T_CNAME | 6 => T_A
  | _ => T_UNSET

/-- the inner `for (qtypenum = 0; qtypenum < highestworking; qtypenum++)` loop, from `num` on, with `fuel`
≥ the number of remaining candidates: the new `highestworking` -/
def qtypeInner (works : Nat → Bool) (highest : Nat) : Nat → Nat → Nat
  | 0, _ => highest
  | fuel + 1, num =>
    if num < highest then
      if qtypeNumcvt num = T_UNSET then highest
      else if works num then num
      else qtypeInner works highest fuel (num + 1)
    else highest

/-- the outer `for (timeout = 1; timeout <= 3; timeout++)` loop; `works timeout num` =
`handshake_qtypetest` for type number `num` -/
def qtypeOuter (works : Nat → Nat → Bool) : Nat → Nat → Nat → Nat
  | 0, _, highest => highest
  | fuel + 1, timeout, highest =>
    if timeout ≤ 3 then
      let h' := qtypeInner (works timeout) highest 8 0
      if h' = 0 then h' else qtypeOuter works fuel (timeout + 1) h'
    else highest

/-- `handshake_qtype_autodetect`: `none` = "No suitable DNS query type found" (return 1), `some ty` =
return 0 with `do_qtype = ty` -/
def qtypeAutodetect (works : Nat → Nat → Bool) : Option Nat :=
  let highest := qtypeOuter works 3 1 100
  if qtypeNumcvt highest = T_UNSET then none else some (qtypeNumcvt highest)

/-! ### fragment size -/

/-- What the up to three tries for one proposed size leave behind: `ok` — `fragsize_check` set
`max_fragsize = proposed`; `bad` — `max_fragsize` untouched (too short, corrupted after byte 2, no or only
unfitting replies); `fatal` — "corruption at byte 2", `max_fragsize = -1`. -/
inductive ProbeRes where
  | ok | bad | fatal
deriving DecidableEq, Repr

/-- state of the search: `proposed_fragsize`, `range`, `max_fragsize` and (ghost) the sizes asked so far,
latest first -/
structure FragSt where
  proposed : Nat
  range : Nat
  max : Int
  asked : List Nat
deriving DecidableEq, Repr

/-- `max_fragsize` after the tries for `proposed_fragsize` -/
def probeMax (probe : Nat → ProbeRes) (st : FragSt) : Int :=
  match probe st.proposed with
  | .ok => st.proposed
  | .bad => st.max
  | .fatal => -1

/-- one iteration of the `while` body (the condition holds); the `Bool` is false for the `break` on
`max_fragsize < 0` -/
def fragStep (probe : Nat → ProbeRes) (st : FragSt) : FragSt × Bool :=
  let max' : Int := probeMax probe st
  let asked' := st.proposed :: st.asked
  if max' < 0 then ({ st with max := max', asked := asked' }, false)
  else
    let range' := st.range / 2
    if max' = (st.proposed : Int) then (⟨st.proposed + range', range', max', asked'⟩, true)
    else (⟨st.proposed - range', range', max', asked'⟩, true)

/-- `while (running && range > 0 && (range >= 8 || max_fragsize < 300))` -/
def fragCond (st : FragSt) : Bool := decide (st.range > 0) && (decide (st.range ≥ 8) || decide (st.max < 300))

def fragLoop (probe : Nat → ProbeRes) : Nat → FragSt → FragSt
  | 0, st => st
  | fuel + 1, st =>
    if fragCond st then
      let r := fragStep probe st
      if r.2 then fragLoop probe fuel r.1 else r.1
    else st

def fragInit : FragSt := ⟨768, 768, 0, []⟩

/-- the state after the `while` loop (`range` is halved in every iteration: 768 → 0 in 10 steps) -/
def fragSearch (probe : Nat → ProbeRes) : FragSt := fragLoop probe 10 fragInit

/-- `handshake_autoprobe_fragsize`: 0 = "found no accepted fragment size", else `max_fragsize - 2` -/
def autoprobeFragsize (probe : Nat → ProbeRes) : Nat :=
  let m := (fragSearch probe).max
  if m ≤ 2 then 0 else (m - 2).toNat

/-! ### the decision structure of `client_handshake` after the login -/

structure HsCfg where
  /-- `do_qtype` (forced with -T or autodetected before) -/
  qtype : Nat
  /-- `downenc` as set by -O (' ' = 32: autodetect) -/
  downenc : Nat
  /-- `lazymode` as set by -L -/
  lazymode : Bool
  /-- `autodetect_frag_size` (no -m) and the -m value -/
  autoFrag : Bool
  fragsize : Nat
deriving Repr

/-- outcomes of all probes the handshake may make -/
structure HsProbes where
  /-- `handshake_edns0_check` -/
  edns0 : Bool
  /-- `handshake_upenctest` per probe string -/
  up : List Nat → UpRes
  /-- `handshake_switch_codec(bits)`: the server acknowledged (and `dataenc` is switched) -/
  switchUp : Nat → Bool
  /-- `handshake_downenctest` per codec letter -/
  down : Nat → Bool
  /-- `handshake_try_lazy`: the server answered "Lazy" -/
  lazyAck : Bool
  /-- fragment size probes -/
  frag : Nat → ProbeRes

structure HsResult where
  /-- return value of `client_handshake` -/
  rc : Int
  /-- `dnsc_use_edns0` -/
  edns0 : Bool
  /-- bits of the upstream codec `dataenc`: 5, 6, 26 (Base64u), 7 -/
  upBits : Nat
  /-- `downenc` (' ' = 32 = server default `T`/Base32, or Raw for NULL) -/
  downenc : Nat
  lazymode : Bool
  /-- the size sent with `handshake_set_fragsize`, if that point was reached -/
  setFrag : Option Nat
deriving DecidableEq, Repr

/-- `client_handshake` from `dnsc_use_edns0 = 1` on (DNS mode: `raw_mode == 0` or the raw login failed) -/
def clientHandshakeTail (cfg : HsCfg) (P : HsProbes) : HsResult :=
  let edns0 := P.edns0
  let upcodec := upencAutodetect P.up
  let bits := if upcodec = 1 then 6 else if upcodec = 2 then 26 else if upcodec = 3 then 7 else 5
  let upBits := if bits ≠ 5 ∧ P.switchUp bits then bits else 5
  let downenc := if cfg.downenc = 32 then downencAutodetect cfg.qtype P.down else cfg.downenc
  let lazymode := if cfg.lazymode then P.lazyAck else false
  if cfg.autoFrag then
    let f := autoprobeFragsize P.frag
    if f = 0 then ⟨1, edns0, upBits, downenc, lazymode, none⟩
    else ⟨0, edns0, upBits, downenc, lazymode, some f⟩
  else ⟨0, edns0, upBits, downenc, lazymode, some cfg.fragsize⟩

end Iodine.C11L
