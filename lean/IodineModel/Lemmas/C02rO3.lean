import IodineModel.Lemmas.C02qO4
import IodineModel.Lemmas.C02rO1
import IodineModel.Lemmas.C02M8
/-
C02 / OVERLAPPING transfers, lazy mode, ENDINGS — (E2): the LAST upstream fragment is in flight while downstream continues.
Four steps of the prompt scheduler (`deliverUp, deliverDown, deliverUp, deliverDown`) finish the upstream packet and hand
over to the downstream invariant `DownFlightL` (C02M3):
1. the server writes the upstream packet to tun and, holding no query, answers the data query at once with a DUPLICATE of the
   downstream fragment `fd` whose header acknowledges the last upstream fragment (`srv_recv_last_noq_out`);
2. the client appends the first copy of `fd` (stale upstream ack) and pings at once (`tunnelDns_mid_prev`);
3. the ping acknowledges `fd`: the server answers it with fragment `fd + 1`;
4. the client drops the duplicate of `fd`, takes its upstream ack: packet completed, `send_ping_soon = 20`, nothing is sent.
-/
namespace Iodine.C02L
open Iodine Iodine.Gen Iodine.World

/-- a DUPLICATE of the fragment received last whose header acknowledges the LAST upstream fragment: `send_ping_soon = 500`
for a moment, then "packet completed" (`send_ping_soon = 20`); nothing is sent -/
theorem tunnelDns_dup_done {P : Par} {c : Client.Cli} {rq : Client.Rq} {pkt : List Nat}
    (h : RecvPrevL P c rq pkt) (hrv : 2 < pkt.length) (hbad : pkt.take 5 ≠ Client.ascii "BADIP")
    (hdn : (Client.decodeHdr pkt).dnSeq = c.inpkt.seqno) (hdf : (Client.decodeHdr pkt).dnFrag ≤ c.inpkt.fragment)
    (hil : c.inpkt.len ≠ 0)
    (hs : Client.isSending c = true) (hus : (Client.decodeHdr pkt).upSeq = c.outpkt.seqno)
    (huf : (Client.decodeHdr pkt).upFrag = c.outpkt.fragment)
    (hge : ¬ c.outpkt.offset + c.outpkt.sentlen < c.outpkt.len) :
    Client.tunnelDns c rq =
      (ackDone { ackBook c with sendPingSoon := 500 }, [], .ret (pkt.length : Int)) := by
  rw [tunnelDns_payload_prev h hrv hbad (Or.inl hdn),
    downstream_dup (ackBook c) (Client.decodeHdr pkt) pkt (pkt.length : Int) false (by omega) hdn hdf hil]
  have h1 := upstream_ack_done { ackBook c with sendPingSoon := 500 } (Client.decodeHdr pkt) [] false (pkt.length : Int) hs hus huf hge
  rw [h1]
  simp [Client.finalPing]

private theorem sentStateL_uc2rO (c : Client.Cli) : (sentStateL c).useridChar2 = c.useridChar2 := by
  rw [sentStateL_eta]
  simp [sentState, Client.rotateChunkid]

/-- **(E2)** the last upstream fragment in flight, the downstream fragment in flight not the last one: four scheduler steps
later the upstream packet is on the server's tun device and the downstream transfer continues ALONE (`DownFlightL`, the
client's `send_ping_soon` is 20) -/
theorem e2_step {P : Par} (hP : P.Ok) {outU frame outD : List Nat} {w : W} {c0 : Client.Cli} {ou fu : Nat} {sq : Int} {od D fd : Nat}
    (h : BothFlightL P outU outD w c0 ou fu sq od D fd) (houtU : outU = 0x5a :: frame)
    (h64u : outU.length ≤ 65536) (h64d : outD.length ≤ 65536)
    (heqU : ou + fragLen P (outU.drop ou) = outU.length) (h24 : 24 ≤ frame.length)
    (hdst : Server.ipDst frame ≠ (Server.getUser w.srv P.u).tunIp)
    (hltD : od + D < outD.length) (hfd : fd + 1 < 16) :
    ∃ w', promptSteps P.u 4 w = some w' ∧
      DownFlightL P outD w' sq (od + D) (downLen (Server.getUser w.srv P.u).fragsize (outD.length - (od + D))) (fd + 1) ∧
      w'.cs.c.sendPingSoon = 20 ∧
      w'.tunS = w.tunS ++ [[0, 0, 8, 0] ++ frame.drop 4] ∧ w'.tunC = w.tunC ∧
      (Server.getUser w'.srv P.u).tunIp = (Server.getUser w.srv P.u).tunIp ∧
      (Server.getUser w'.srv P.u).fragsize = (Server.getUser w.srv P.u).fragsize := by
  obtain ⟨name, hsend, hm1, hm2, hQ⟩ := send_readyL hP h.ready
  generalize hm : fragLen P (outU.drop ou) = m at *
  have hlast : (m == outU.length - ou) = true := by
    rw [beq_iff_eq]; omega
  rw [hlast] at hQ
  have hsf := sentFactsL c0
  have hsi := sentIdsL c0
  have hcst := cstat_sentL h.ready
  have hup : w.up = [.query (sentState c0).chunkid P.ty name] := by rw [h.up, hsend]; rfl
  have hsqn : c0.outpkt.seqno.toNat < 8 := by have := h.ready.stat.oseq; omega
  have hsqc : ((c0.outpkt.seqno.toNat : Nat) : Int) = c0.outpkt.seqno := by have := h.ready.stat.oseq; omega
  obtain ⟨dname, pkt, hdn, hnd, hfp, hst⟩ := h.down
  have hsqr := h.hsq
  have hDpos0 := h.hD
  have hop : (Server.getUser w.srv P.u).outpacket = ⟨outD.length, D, od, outD, sq, (fd : Int)⟩ ∧ D < outD.length := by
    rcases h.op with h1 | ⟨_, h2, _, h4⟩
    · exact h1
    · omega
  have hfl : FragPkt pkt outD sq od D fd false := by
    have : decide (outD.length > 0 ∧ outD.length = od + D) = false := by
      rw [decide_eq_false_iff_not]; omega
    rw [this] at hfp; exact hfp
  -- step 1: the server receives the data fragment and answers it at once with a duplicate of `fd`
  have hstale : c0.inpkt.seqno ≠ sq ∨ c0.inpkt.fragment ≠ (fd : Int) := by
    have hi := h.ready.stat.iseq
    rcases h.exp with ⟨_, _, j, hj1, hj2, hj⟩ | ⟨_, _, hfr, _⟩
    · left; omega
    · right; omega
  obtain ⟨s1, evs1, t1, pkt1, hit1, hdown1, htun1, hS1, hq1', hqs1, hlz1, hoq1, hres1, hout1, hiseq1, hifrag1, htip1, hfrs1, hnow1, hfp1, hus1, huf1, hA1, hPA1⟩ :=
    srv_recv_last_noq_out hP h.srv.stat h.srv hop.1 h.hD h.hDdef h.hle hop.2 (by omega) h.hsq h.ready.stat.cmc h.aged h.paged
      (frame := frame) (o := ou) (m := m) (by rw [← houtU]; exact hQ) hstale
      (by rw [← houtU]; exact h.expect) hsqn h.ready.hf (by rw [← houtU]; exact heqU) (by rw [← houtU]; exact h64u) h24 hdst
  have hq1 : quiet P.u w = false := quiet_false_of_up _ _ _ _ hup
  have hs1 : step w (promptEv w) =
      { w with up := [], srv := s1, down := [.ans c0.chunkid P.ty dname pkt, .ans (sentState c0).chunkid P.ty name pkt1],
               tunS := w.tunS ++ [[0, 0, 8, 0] ++ frame.drop 4] } := by
    rw [promptEv_up w _ _ hup, step_deliverUp w _ _ hup, srvInput_query, stepS_zero { w with up := [] } _ s1 evs1 t1 hit1, hdown1, htun1]
    simp [hdn, upQuery]
  generalize hw2 : ({ w with up := [], srv := s1, down := [.ans c0.chunkid P.ty dname pkt, .ans (sentState c0).chunkid P.ty name pkt1], tunS := w.tunS ++ [[0, 0, 8, 0] ++ frame.drop 4] } : W) = w2 at hs1
  have hw2cs : w2.cs = w.cs := by subst hw2; rfl
  have hw2up : w2.up = [] := by subst hw2; rfl
  have hw2srv : w2.srv = s1 := by subst hw2; rfl
  have hw2down : w2.down = [.ans c0.chunkid P.ty dname pkt, .ans (sentState c0).chunkid P.ty name pkt1] := by subst hw2; rfl
  have hq2 : quiet P.u w2 = false := quiet_false_of_down _ _ _ _ hw2down
  -- step 2: the client receives the first copy of `fd`
  have hcnt2 : CntOk { sentStateL c0 with sendPingSoon := 0 } 2 := hsi.cnt h.ready.cnt
  have huc2 : ({ sentStateL c0 with sendPingSoon := 0 } : Client.Cli).useridChar2 = c0.useridChar2 := sentStateL_uc2rO c0
  generalize hc : ({ sentStateL c0 with sendPingSoon := 0 } : Client.Cli) = c at hsf hcst hsi hcnt2 huc2
  have hwc : w.cs = ⟨c, .tunnel⟩ := by rw [cstate_eta w.cs h.ph, h.cli, hc]
  generalize hrq : (Client.Rq.mk (pkt.length : Int) c0.chunkid (answerType P.ty) 0 (dname.headD 0) pkt) = rq
  have hci : cliInput (.ans c0.chunkid P.ty dname pkt) = .rq rq := by subst hrq; rfl
  have hrp : RecvPrevL P c rq pkt := by
    subst hrq
    refine ⟨hcst, hsf.sps, ?_, rfl, rfl, ?_, ?_⟩
    · show Client.notData c (dname.headD 0) = false
      unfold Client.notData at hnd ⊢
      rw [hsf.useridChar, huc2]; exact hnd
    · show Client.recentId c c0.chunkid = true
      unfold Client.recentId
      rw [hsi.prev]; simp
    · show c0.chunkid ≠ c.chunkid
      exact fun e => hsi.ne h.ready.stat.cid e.symm
  have hexp : CExpect c outD sq od fd := by
    have := h.exp
    unfold CExpect at *
    rw [hsf.inpkt]; exact this
  have hmidp := tunnelDns_mid_prev hrp hfl h.hD (by rw [hsf.inpkt]; exact h.dup) hexp h.hsq (by omega) h.hle h64d
    (by rw [hsf.oseq, hsf.ofrag, h.ready.frag]; exact hst)
  generalize hc3 : midState c outD sq od D fd = c3 at hmidp
  have hc3st : CStatL P c3 := by
    rw [← hc3]
    exact ⟨hcst.running, hcst.conn, hcst.lz, hcst.uid, hcst.uch, hcst.td, hcst.L, hcst.enc, hcst.ty, hcst.cid, hcst.cmc,
      by show ¬ c.now + 60 < c.now; omega, hcst.oseq, hsqr, by show (0 : Int) ≤ fd ∧ (fd : Int) < 16; omega, hcst.seed⟩
  have hc3cnt : CntOk c3 1 := by
    rw [← hc3]
    have := ackBook_cnt c hcnt2
    unfold CntOk at *
    exact this
  obtain ⟨name', hset, hpq⟩ := settle_finalPing_now hP hc3st hc3cnt [] ((2 + D : Nat) : Int)
  have hpf := pingFactsL c3
  have hstep2 : Client.cstep w2.cs (.rq rq) =
      (⟨pingStateL c3, .tunnel⟩, [.query (pingStateL c3).chunkid P.ty name'], .sel (Client.selectOf (pingStateL c3))) := by
    rw [hw2cs, hwc, cstep_rq c rq hcst.running hcst.alive hcst.conn, hmidp, hset]
    rfl
  have hs2 : step w2 (promptEv w2) =
      { w2 with down := [.ans (sentState c0).chunkid P.ty name pkt1], cs := ⟨pingStateL c3, .tunnel⟩,
                up := [.query (pingStateL c3).chunkid P.ty name'] } := by
    rw [promptEv_down w2 _ _ hw2up hw2down, step_deliverDown w2 _ _ hw2down, hci,
      stepC_of { w2 with down := [.ans (sentState c0).chunkid P.ty name pkt1] } (.rq rq) ⟨pingStateL c3, .tunnel⟩
        [.query (pingStateL c3).chunkid P.ty name'] (.sel (Client.selectOf (pingStateL c3)))
        (by exact hstep2) (by show (pingStateL c3).now = w2.cs.c.now; rw [hpf.now, hw2cs, hwc, ← hc3]; rfl)]
    simp [upOfEvents, tunOfCEvents, hw2up]
  generalize hw3 : ({ w2 with down := [.ans (sentState c0).chunkid P.ty name pkt1], cs := ⟨pingStateL c3, .tunnel⟩, up := [.query (pingStateL c3).chunkid P.ty name'] } : W) = w3 at hs2
  have hw3srv : w3.srv = s1 := by subst hw3; exact hw2srv
  have hw3up : w3.up = [.query (pingStateL c3).chunkid P.ty name'] := by subst hw3; rfl
  have hw3down : w3.down = [.ans (sentState c0).chunkid P.ty name pkt1] := by subst hw3; rfl
  have hw3cs : w3.cs = ⟨pingStateL c3, .tunnel⟩ := by subst hw3; rfl
  have hq3 : quiet P.u w3 = false := quiet_false_of_up _ _ _ _ hw3up
  -- step 3: the ping reaches the server; the acknowledged fragment is followed by the next one
  have hc3in : c3.inpkt = inAfter (ackBook c) outD sq od D fd := by rw [← hc3]; rfl
  have hc3seed : c3.randSeed = c0.randSeed := by rw [← hc3]; show c.randSeed = _; exact hsf.seed
  have hpq' : PingQ P (upQuery (pingStateL c3).chunkid P.ty name') sq (fd : Int) c0.randSeed := by
    have := hpq
    rw [hc3in, hc3seed] at this
    exact this
  have hres1' : (Server.getUser s1 P.u).outfragresent ≤ 2 := by have := h.srv.res; omega
  have hop1 : (Server.getUser s1 P.u).outpacket = ⟨outD.length, D, od, outD, sq, (fd : Int)⟩ := hout1.trans hop.1
  generalize hx0 : ({ Server.getUser s1 P.u with qsNew := false } : Server.Session) = x0
  have hx0op : x0.outpacket = ⟨outD.length, D, od, outD, sq, (fd : Int)⟩ := by subst hx0; exact hop1
  have hack := ackSess_advance x0 sq fd (by rw [hx0op]; show outD.length ≠ 0; omega) (by rw [hx0op]) (by rw [hx0op])
    (by rw [hx0op]; show D ≠ 0; omega) (by rw [hx0op]; exact hltD)
  obtain ⟨s2, evs2, t2, pkt2, hit2, hdown2, htun2, hap, hA2, hPA2⟩ :=
    srv_ping_lazy_more hP hS1 hq1' hqs1 hoq1 (by omega) hpq'
      (k := (c0.datacmc + 1) % 36) hA1 hPA1
      (by rw [hx0, hack, hx0op]; show 0 < outD.length; omega)
  generalize hQ2 : upQuery (pingStateL c3).chunkid P.ty name' = Q2 at hit2 hdown2 hap hpq'
  have hQid2 : Q2.id2 = 0 := by rw [← hQ2]; rfl
  have hslot : Server.getUser s2 P.u = pingZ x0 P.u Q2 sq fd s1.now := by
    rw [afterPing_slot hap, hx0]
  have hfrag1 : 0 < (Server.getUser s1 P.u).fragsize := by rw [hfrs1]; exact h.frag
  obtain ⟨D', hDdef, hzo, hzr, hDpos, hDle, yy, hyev, hyo, hyi⟩ := pingZ_next x0 P.u Q2 s1.now outD sq od D fd hQid2
    (by subst hx0; exact hoq1) (by subst hx0; show (Server.getUser s1 P.u).outfragresent ≤ 5; omega)
    hx0op h.hD hltD (by subst hx0; exact hfrag1) (by omega)
  have hfs : x0.fragsize = (Server.getUser w.srv P.u).fragsize := by subst hx0; exact hfrs1
  rw [hfs] at hDdef
  rw [← hslot] at hzo hzr
  have hpkt2 : pkt2 = Server.scPkt yy D' := by
    have h1 := hap.pkt
    rw [hx0, hyev] at h1
    exact pkt_of_writeDns h1
  obtain ⟨hS2, hq2', hqs2, hlz2, hoq2, hfrs2, hin2, htip2, _⟩ := afterPing_stat hS1 hq1' hoq1 (by omega) hQid2 hap
    (by rw [hzo]; exact hsqr)
    (by rw [hzo]; show (0 : Int) ≤ ((fd + 1 : Nat) : Int) ∧ ((fd + 1 : Nat) : Int) < 16; omega)
  have hps2 : PingSrvL P s2 := ⟨hS2, hq2', by rw [hqs2]; exact hqs1, by rw [hlz2]; exact hlz1, hoq2, by rw [hzr]; omega⟩
  have hyis : 0 ≤ yy.inpacket.seqno ∧ yy.inpacket.seqno < 8 := by rw [hyi]; subst hx0; exact hS1.x.iseq
  have hyif : 0 ≤ yy.inpacket.fragment ∧ yy.inpacket.fragment < 16 := by rw [hyi]; subst hx0; exact hS1.x.ifrag
  have hfp2 := fragPkt_of yy outD sq (od + D) D' (fd + 1) hyo hDle hsqr (by omega) hyis hyif
  rw [← hpkt2] at hfp2
  -- the inpacket of the server after step 1
  have hin1 : (Server.getUser s1 P.u).inpacket.seqno = c0.outpkt.seqno ∧ (Server.getUser s1 P.u).inpacket.fragment = (fu : Int) :=
    ⟨by rw [hiseq1, hsqc], hifrag1⟩
  have hhdr2 : (Client.decodeHdr pkt2).upSeq = c0.outpkt.seqno ∧ (Client.decodeHdr pkt2).upFrag = (fu : Int) := by
    have hdh := decodeHdr_scPkt yy D' hyis hyif (by rw [hyo]; exact hsqr)
      (by rw [hyo]; show (0 : Int) ≤ ((fd + 1 : Nat) : Int) ∧ ((fd + 1 : Nat) : Int) < 16; omega)
    rw [hpkt2, hdh]
    simp only
    rw [hyi]
    subst hx0
    exact hin1
  have hs3 : step w3 (promptEv w3) =
      { w3 with up := [], srv := s2, down := [.ans (sentState c0).chunkid P.ty name pkt1, .ans (pingStateL c3).chunkid P.ty name' pkt2] } := by
    rw [promptEv_up w3 _ _ hw3up, step_deliverUp w3 _ _ hw3up, srvInput_query, hQ2,
      stepS_zero { w3 with up := [] } _ s2 evs2 t2 (by show Server.iteration w3.srv _ w3.srv.now = _; rw [hw3srv]; exact hit2),
      hdown2, htun2]
    rw [← hQ2]
    simp [hw3down, upQuery]
  generalize hw4 : ({ w3 with up := [], srv := s2, down := [.ans (sentState c0).chunkid P.ty name pkt1, .ans (pingStateL c3).chunkid P.ty name' pkt2] } : W) = w4 at hs3
  have hw4srv : w4.srv = s2 := by subst hw4; rfl
  have hw4up : w4.up = [] := by subst hw4; rfl
  have hw4down : w4.down = [.ans (sentState c0).chunkid P.ty name pkt1, .ans (pingStateL c3).chunkid P.ty name' pkt2] := by subst hw4; rfl
  have hw4cs : w4.cs = ⟨pingStateL c3, .tunnel⟩ := by subst hw4; exact hw3cs
  have hq4 : quiet P.u w4 = false := quiet_false_of_down _ _ _ _ hw4down
  -- step 4: the client receives the duplicate of `fd`, whose header acknowledges the upstream fragment in flight
  have hc3id : c3.chunkid = (sentState c0).chunkid := by rw [← hc3]; show c.chunkid = _; exact hsi.cid
  have hc3out : c3.outpkt = c.outpkt := by rw [← hc3]; rfl
  have hc3cmc : c3.datacmc = (c0.datacmc + 1) % 36 := by
    rw [← hc3]; show c.datacmc = _; rw [hsf.cmc]
    have := h.ready.stat.cmc
    split <;> omega
  have hids := pingStateL_ids c3
  have hc4st : CStatL P (pingStateL c3) := cstatL_pingStateL hc3st
  have hc4cnt : CntOk (pingStateL c3) 2 := hids.2.2 1 hc3cnt
  generalize hc4 : pingStateL c3 = c4 at hpf hids hc4st hc4cnt hw4cs hw4down
  have hfp1' : FragPkt pkt1 outD sq od D fd false := by
    have : decide (outD.length > 0 ∧ outD.length = od + D) = false := by
      rw [decide_eq_false_iff_not]; omega
    rw [this] at hfp1; exact hfp1
  have hnd4 : Client.notData c4 (name.headD 0) = false := by
    rw [headD_eq_getD]
    exact notData_held hc4st.uch _ (Or.inl hQ.c0)
  have hrid4 : Client.recentId c4 (sentState c0).chunkid = true := by
    unfold Client.recentId
    rw [hids.1, hc3id]; simp
  have hnid4 : (sentState c0).chunkid ≠ c4.chunkid := by
    rw [← hc3id]
    exact fun e => hids.2.1 hc3st.cid e.symm
  generalize hid1 : (sentState c0).chunkid = id1 at hw4down hrid4 hnid4
  generalize hrq4 : (Client.Rq.mk (pkt1.length : Int) id1 (answerType P.ty) 0 (name.headD 0) pkt1) = rq4
  have hci4 : cliInput (.ans id1 P.ty name pkt1) = .rq rq4 := by subst hrq4; rfl
  have hrp4 : RecvPrevL P c4 rq4 pkt1 := by
    subst hrq4
    exact ⟨hc4st, hpf.sps, hnd4, rfl, rfl, hrid4, hnid4⟩
  have hc4in : c4.inpkt = inAfter (ackBook c) outD sq od D fd := by rw [hpf.inpkt, hc3in]
  have hc4out : c4.outpkt = c.outpkt := by rw [hpf.outpkt, hc3out]
  have hdupn := tunnelDns_dup_done hrp4 (by rw [hfp1'.len]; omega) hfp1'.notbad
    (by rw [hfp1'.hdr.1, hc4in]; rfl) (by rw [hfp1'.hdr.2.1, hc4in]; show (fd : Int) ≤ (fd : Int); omega)
    (by rw [hc4in]; show od + D ≠ 0; omega)
    (by
      have hlen0 : outU.length ≠ 0 := by have := h.ready.ho; omega
      unfold Client.isSending
      rw [hc4out, hsf.olen, h.ready.len]
      simpa using hlen0)
    (by rw [hus1, hc4out, hsf.oseq]; exact hsqc)
    (by rw [huf1, hc4out, hsf.ofrag, h.ready.frag])
    (by rw [hc4out, hsf.ooff, hsf.osent, hsf.olen, cFragLen_readyL h.ready, hm, h.ready.off, h.ready.len]; omega)
  generalize hcd : ackDone { ackBook c4 with sendPingSoon := 500 } = cd at hdupn
  have hb := cstat_ackBookL hc4st
  have hcdst : CStatL P cd := by
    subst hcd
    exact ⟨hb.running, hb.conn, hb.lz, hb.uid, hb.uch, hb.td, hb.L, hb.enc, hb.ty, hb.cid, hb.cmc, hb.alive, hb.oseq, hb.iseq, hb.ifrag, hb.seed⟩
  have hcdcnt : CntOk cd 1 := by
    subst hcd
    have := ackBook_cnt c4 hc4cnt
    unfold CntOk at *
    exact this
  have hcdsps : cd.sendPingSoon = 20 := by subst hcd; rfl
  have hcdidle : Client.isSending cd = false := by subst hcd; rfl
  have hcdid : cd.chunkid = c4.chunkid := by subst hcd; rfl
  have hcdin : cd.inpkt = inAfter (ackBook c) outD sq od D fd := by subst hcd; exact hc4in
  have hcdsq : cd.outpkt.seqno = c0.outpkt.seqno := by
    subst hcd; show c4.outpkt.seqno = _; rw [hc4out]; exact hsf.oseq
  have hcdcmc : cd.datacmc = (c0.datacmc + 1) % 36 := by
    subst hcd; show c4.datacmc = _; rw [hpf.datacmc]; exact hc3cmc
  have hcdseed : cd.randSeed = (c0.randSeed + 1) % 65536 := by
    subst hcd; show c4.randSeed = _; rw [hpf.seed, hc3seed]
  have hcduc : cd.useridChar = hexLower P.u := hcdst.uch
  have hstep4 : Client.cstep w4.cs (.rq rq4) = (⟨cd, .tunnel⟩, [], .sel (Client.selectOf cd)) := by
    rw [hw4cs, cstep_rq c4 rq4 hc4st.running hc4st.alive hc4st.conn, hdupn]
    simp [Client.settle, Client.loopTop, hcdst.running]
  have hnow' : cd.now = w4.cs.c.now := by
    rw [hw4cs]
    subst hcd; rfl
  have hs4 : step w4 (promptEv w4) = { w4 with down := [.ans c4.chunkid P.ty name' pkt2], cs := ⟨cd, .tunnel⟩ } := by
    rw [promptEv_down w4 _ _ hw4up hw4down, step_deliverDown w4 _ _ hw4down, hci4,
      stepC_of _ _ _ _ _ (by exact hstep4) (by exact hnow')]
    simp [upOfEvents, tunOfCEvents, hw4up]
  have hfrs2' : (Server.getUser s2 P.u).fragsize = (Server.getUser w.srv P.u).fragsize := hfrs2.trans hfrs1
  refine ⟨{ w4 with down := [.ans c4.chunkid P.ty name' pkt2], cs := ⟨cd, .tunnel⟩ }, ?_, ?_, hcdsps, ?_, ?_, ?_, ?_⟩
  · rw [promptSteps_succ hq1, hs1, promptSteps_succ hq2, hs2, promptSteps_succ hq3, hs3, promptSteps_succ hq4, hs4]
    rfl
  · rw [← hDdef]
    refine ⟨rfl, hcdst, hcdcnt, hcdidle, hw4up, ⟨name', pkt2, ?_, ?_, hfp2⟩, ?_, ?_, hsqr, hDpos, hDle, ?_, ?_, ?_, ?_, ?_, ?_⟩
    · show [DownD.ans c4.chunkid P.ty name' pkt2] = _
      rw [hcdid]
    · show Client.notData cd (name'.headD 0) = false
      have h0 : name'.getD 0 0 = 112 := by have := hpq'.c0; rw [← hQ2] at this; exact this
      rw [headD_eq_getD, h0]; simp [Client.notData]
    · show CExpect cd outD sq (od + D) (fd + 1)
      right
      rw [hcdin]
      refine ⟨by omega, rfl, by show ((fd : Nat) : Int) = ((fd + 1 : Nat) : Int) - 1; omega, rfl, ?_⟩
      show (outD.take (od + D)).take (od + D) = _
      rw [List.take_take, Nat.min_self]
    · left
      show sq = cd.inpkt.seqno
      rw [hcdin]; rfl
    · show PingSrvL P w4.srv
      rw [hw4srv]; exact hps2
    · show 0 < (Server.getUser w4.srv P.u).fragsize
      rw [hw4srv, hfrs2']; exact h.frag
    · show (Server.getUser w4.srv P.u).outpacket = _ ∨ _
      rw [hw4srv]
      exact Or.inl hzo
    · show (Server.getUser w4.srv P.u).inpacket.seqno = cd.outpkt.seqno
      rw [hw4srv, hin2, hcdsq]; exact hin1.1
    · show Aged P (Server.getUser w4.srv P.u) cd.datacmc 1
      rw [hw4srv, hcdcmc]; exact hA2
    · show PAged P (Server.getUser w4.srv P.u) cd.randSeed 1
      rw [hw4srv, hcdseed]; exact hPA2
  · subst hw4; subst hw3; subst hw2; rfl
  · subst hw4; subst hw3; subst hw2; rfl
  · show (Server.getUser w4.srv P.u).tunIp = _
    rw [hw4srv, htip2, htip1]
  · show (Server.getUser w4.srv P.u).fragsize = _
    rw [hw4srv, hfrs2']

#print axioms e2_step

end Iodine.C02L
