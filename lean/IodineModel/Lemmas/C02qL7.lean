import IodineModel.Lemmas.C02qL6
/-
C02 phase 2 / upstream, lazy mode — RECOVERY after `d` packets in a row were given up unseen (`QuietLazyD P d 0`): a sequence
of frames offered one after the other on the prompt path.

`lost d` = the number of the next frames that are lost for good: none for `d ≤ 3` (the first frame resynchronises), `8 - d`
for `4 ≤ d ≤ 7` (each lost frame moves `d` on by one; at `d = 8 ≡ 0` the two ends agree again).
Hypothesis for `d ≥ 4`: the server's `inpacket.fragment ≥ 1` (its last packet had at least two fragments) — otherwise the
frame offered at distance 7 is FALSELY ACKNOWLEDGED instead of resent (see `C02qL9.lean`).
-/
namespace Iodine.C02L
open Iodine Iodine.Gen Iodine.World

/-- how many of the next offered frames are lost when the client is `d` ahead -/
def lost (d : Nat) : Nat := if d ≤ 3 then 0 else 8 - d

/-- enough frames were offered for the two ends to agree again -/
def Resync (d n : Nat) : Prop := d = 0 ∨ (d ≤ 3 ∧ 1 ≤ n) ∨ (4 ≤ d ∧ 8 - d ≤ n)

theorem recovery_after_giveups_up_lazy {P : Par} (hP : P.Ok) (fuel : Nat) (hfuel : 33 ≤ fuel) :
    ∀ (fs : List (List Nat)) (d : Nat) (w : W), QuietLazyD P d 0 w → d < 8 →
      (4 ≤ d → 1 ≤ (Server.getUser w.srv P.u).inpacket.fragment) →
      (∀ f ∈ fs, UpFrameOk P (Server.getUser w.srv P.u).tunIp f) →
      (offerAllC P.u fuel w fs).tunS = w.tunS ++ (fs.drop (lost d)).map tunImage ∧
      (offerAllC P.u fuel w fs).tunC = w.tunC ∧
      (Resync d fs.length → QuietLazy P (offerAllC P.u fuel w fs)) ∧
      (fs.length < lost d → QuietLazyD P (d + fs.length) 0 (offerAllC P.u fuel w fs)) := by
  intro fs
  induction fs with
  | nil =>
    intro d w hq hd _ _
    refine ⟨by simp [offerAllC], rfl, ?_, fun _ => hq⟩
    intro hr
    have : d = 0 := by
      rcases hr with h | h | h
      · exact h
      · exact absurd h.2 (by simp)
      · have := h.2; simp at this; omega
    subst this
    exact quietLazyD_zero.1 hq
  | cons f fs ih =>
    intro d w hq hd hfr hok
    have hf := hok f List.mem_cons_self
    by_cases h3 : d ≤ 3
    · -- the first frame resynchronises; the rest is the clean path
      obtain ⟨w1, h1, h2, t1, t2, t3, _⟩ := up_packet_lazy_desync_ok hP hq h3 f hf.h24 hf.hl hf.bytes hf.dst hf.frags
      have hrun : runPrompt P.u fuel (step w (.offerC f)) = w1 :=
        runPrompt_of_steps P.u _ _ _ h1 h2.quiet fuel (by have := hf.frags; omega)
      have hseq := up_sequence_lazy hP fuel hfuel fs w1 h2 (fun g hg => by rw [t3]; exact hok g (List.mem_cons_of_mem _ hg))
      have hl0 : lost d = 0 := by simp [lost, h3]
      unfold offerAllC
      rw [hrun, hl0]
      refine ⟨?_, ?_, fun _ => hseq.1, fun h => by simp at h⟩
      · rw [hseq.2.1, t1]; simp [tunImage]
      · rw [hseq.2.2, t2]
    · -- the frame is lost; one step further
      have h4 : 4 ≤ d := by omega
      have hne : f ≠ [] := by intro hc; have := hf.h24; rw [hc] at this; simp at this
      obtain ⟨w1, h1, h2, t1, t2, t3, t4, _⟩ :=
        up_packet_lazy_desync_drop hP hq ⟨h4, by omega⟩ (fun _ => hfr h4) f hne hf.hl hf.bytes
      have hrun : runPrompt P.u fuel (step w (.offerC f)) = w1 :=
        runPrompt_of_steps P.u _ _ _ h1 h2.quiet fuel (by omega)
      have hd1 : (d + 1) % 8 < 8 := Nat.mod_lt _ (by omega)
      obtain ⟨i1, i2, i3, i4⟩ := ih ((d + 1) % 8) w1 h2 hd1 (fun _ => by rw [t3]; exact hfr h4)
        (fun g hg => by rw [t4]; exact hok g (List.mem_cons_of_mem _ hg))
      have hl1 : lost d = lost ((d + 1) % 8) + 1 := by
        unfold lost
        by_cases h7 : d = 7
        · subst h7; rfl
        · have : (d + 1) % 8 = d + 1 := by omega
          rw [this, if_neg h3, if_neg (by omega)]; omega
      unfold offerAllC
      rw [hrun, hl1]
      refine ⟨?_, ?_, ?_, ?_⟩
      · rw [i1, t1]; simp
      · rw [i2, t2]
      · intro hr
        apply i3
        rcases hr with h | h | h
        · omega
        · omega
        · by_cases h7 : d = 7
          · subst h7; left; rfl
          · right; right
            have : (d + 1) % 8 = d + 1 := by omega
            rw [this]
            have := h.2
            simp only [List.length_cons] at this
            omega
      · intro hlt
        simp only [List.length_cons] at hlt
        have h7 : d ≠ 7 := by
          intro h7; subst h7
          have : lost ((7 + 1) % 8) = 0 := rfl
          omega
        have e : (d + 1) % 8 = d + 1 := by omega
        have := i4 (by omega)
        rw [e] at this
        simp only [List.length_cons]
        rw [show d + (fs.length + 1) = d + 1 + fs.length from by omega]
        exact this

end Iodine.C02L
