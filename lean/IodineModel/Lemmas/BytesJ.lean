import IodineModel.Lemmas.BytesI
import IodineModel.Lemmas.WireRead
/-
Helper lemmas for the byte-level server, part J: what `readname` / `dns_decode(QR_QUERY)` make of a datagram whose question
labels — as they stand ON THE WIRE — contain no '.' and no NUL byte.

`wireLabels` walks the name like `readname` does (labels, compression pointers with a jump budget, lenient about everything
that is not a label); `nameLoop_plain` is the simulation: the bytes `readname` stores are the labels of a PREFIX of that walk,
separated by dots, possibly followed by one more dot, then NUL — or the 255-byte array is full.
-/
namespace Iodine.BytesL
open Iodine Iodine.Wire Iodine.C10

/-! ### the labels of a name on the wire -/

/-- one activation of the walk from offset `pos`; `jump off` is the walk behind a compression pointer to `off` -/
def walkFrom (pkt : List Nat) (jump : Nat → List (List Nat)) : Nat → Nat → List (List Nat)
  | 0, _ => []
  | fuel + 1, pos =>
    if pkt.length ≤ pos then []
    else if pkt.getD pos 0 = 0 then []
    else if 192 ≤ pkt.getD pos 0 then
      if pos + 1 < pkt.length ∧ pkt.getD pos 0 % 64 * 256 + pkt.getD (pos + 1) 0 < pkt.length then
        jump (pkt.getD pos 0 % 64 * 256 + pkt.getD (pos + 1) 0)
      else []
    else if 64 ≤ pkt.getD pos 0 then []
    else if pkt.length ≤ pos + 1 then []
    else (pkt.drop (pos + 1)).take (pkt.getD pos 0) :: walkFrom pkt jump fuel (pos + 1 + pkt.getD pos 0)

/-- the labels of the name at `pos`, following at most `budget - 1` pointers -/
def wireLabels (pkt : List Nat) : Nat → Nat → List (List Nat)
  | 0, _ => []
  | j + 1, pos => walkFrom pkt (wireLabels pkt j) pkt.length pos

/-- no '.' and no NUL -/
def PlainLabel (l : List Nat) : Prop := 0 ∉ l ∧ 46 ∉ l

theorem walkFrom_stop (pkt : List Nat) (jump : Nat → List (List Nat)) (fuel s : Nat)
    (h : ¬ s < pkt.length ∨ pkt.getD s 0 = 0) : walkFrom pkt jump fuel s = [] := by
  cases fuel with
  | zero => rfl
  | succ fuel =>
    rcases h with h | h
    · rw [walkFrom, if_pos (by omega)]
    · by_cases hs : pkt.length ≤ s
      · rw [walkFrom, if_pos hs]
      · rw [walkFrom, if_neg hs, if_pos h]

theorem walkFrom_ptr (pkt : List Nat) (jump : Nat → List (List Nat)) (fuel s : Nat)
    (h1 : s < pkt.length) (h2 : 192 ≤ pkt.getD s 0) :
    walkFrom pkt jump (fuel + 1) s =
      if s + 1 < pkt.length ∧ pkt.getD s 0 % 64 * 256 + pkt.getD (s + 1) 0 < pkt.length then
        jump (pkt.getD s 0 % 64 * 256 + pkt.getD (s + 1) 0)
      else [] := by
  rw [walkFrom, if_neg (by omega), if_neg (by omega), if_pos h2]

theorem walkFrom_reserved (pkt : List Nat) (jump : Nat → List (List Nat)) (fuel s : Nat)
    (h2 : 64 ≤ pkt.getD s 0) (h3 : pkt.getD s 0 < 192) : walkFrom pkt jump fuel s = [] := by
  cases fuel with
  | zero => rfl
  | succ fuel =>
    by_cases hs : pkt.length ≤ s
    · rw [walkFrom, if_pos hs]
    · rw [walkFrom, if_neg hs, if_neg (by omega), if_neg (by omega), if_pos h2]

theorem walkFrom_last (pkt : List Nat) (jump : Nat → List (List Nat)) (fuel s : Nat)
    (h3 : pkt.getD s 0 < 64) (h4 : ¬ s + 1 < pkt.length) : walkFrom pkt jump fuel s = [] := by
  cases fuel with
  | zero => rfl
  | succ fuel =>
    by_cases hs : pkt.length ≤ s
    · rw [walkFrom, if_pos hs]
    · by_cases h0 : pkt.getD s 0 = 0
      · rw [walkFrom, if_neg hs, if_pos h0]
      · rw [walkFrom, if_neg hs, if_neg h0, if_neg (by omega), if_neg (by omega), if_pos (by omega)]

theorem walkFrom_label (pkt : List Nat) (jump : Nat → List (List Nat)) (fuel s : Nat)
    (h1 : s + 1 < pkt.length) (h2 : pkt.getD s 0 ≠ 0) (h3 : pkt.getD s 0 < 64) :
    walkFrom pkt jump (fuel + 1) s =
      (pkt.drop (s + 1)).take (pkt.getD s 0) :: walkFrom pkt jump fuel (s + 1 + pkt.getD s 0) := by
  rw [walkFrom, if_neg (by omega), if_neg h2, if_neg (by omega), if_neg (by omega), if_neg (by omega)]

/-! ### dotted names -/

/-- a label as it may stand in a legal name -/
def GoodLabel (l : List Nat) : Prop := 1 ≤ l.length ∧ l.length ≤ 63 ∧ ∀ c ∈ l, c ≠ 0 ∧ c ≠ 46 ∧ c < 256

/-- every label followed by a dot -/
def dotEnd (ls : List (List Nat)) : List Nat := ls.flatMap (fun l => l ++ [46])

theorem dotEnd_append (a b : List (List Nat)) : dotEnd (a ++ b) = dotEnd a ++ dotEnd b := by
  simp [dotEnd]

theorem dotEnd_single (l : List Nat) : dotEnd [l] = l ++ [46] := by simp [dotEnd]

theorem dotEnd_cons (l : List Nat) (ls : List (List Nat)) : dotEnd (l :: ls) = l ++ 46 :: dotEnd ls := by
  simp [dotEnd]

/-- `o` is the labels `ls` separated by dots, or that followed by one more dot -/
def Shape (o : List Nat) (ls : List (List Nat)) : Prop :=
  (∀ l ∈ ls, GoodLabel l) ∧ (o = dotEnd ls ∨ ∃ init last, ls = init ++ [last] ∧ o = dotEnd init ++ last)

theorem dotEnd_nonul (ls : List (List Nat)) (h : ∀ l ∈ ls, GoodLabel l) : ∀ c ∈ dotEnd ls, c ≠ 0 ∧ c < 256 := by
  intro c hc
  simp only [dotEnd, List.mem_flatMap, List.mem_append, List.mem_singleton] at hc
  obtain ⟨l, hl, hc | hc⟩ := hc
  · have := (h l hl).2.2 c hc; exact ⟨this.1, this.2.2⟩
  · subst hc; exact ⟨by decide, by decide⟩

theorem shape_nonul {o : List Nat} {ls : List (List Nat)} (h : Shape o ls) : ∀ c ∈ o, c ≠ 0 ∧ c < 256 := by
  obtain ⟨hg, ho | ⟨init, last, hls, ho⟩⟩ := h
  · rw [ho]; exact dotEnd_nonul ls hg
  · rw [ho]
    intro c hc
    rcases List.mem_append.1 hc with hc | hc
    · exact dotEnd_nonul init (fun l hl => hg l (by rw [hls]; simp [hl])) c hc
    · have := (hg last (by rw [hls]; simp)).2.2 c hc; exact ⟨this.1, this.2.2⟩

theorem labels_dotfree (l : List Nat) (h : 46 ∉ l) : labels l = [l] := by
  induction l with
  | nil => rfl
  | cons c r ih =>
    have hc : c ≠ 46 := fun e => h (e ▸ List.mem_cons_self)
    simp only [labels, if_neg hc, ih (fun e => h (List.mem_cons_of_mem _ e))]

theorem labels_dotEnd_append (init : List (List Nat)) (last : List Nat) (h : ∀ l ∈ init ++ [last], 46 ∉ l) :
    labels (dotEnd init ++ last) = init ++ [last] := by
  induction init with
  | nil => simpa [dotEnd] using labels_dotfree last (h last (by simp))
  | cons d init ih =>
    rw [dotEnd_cons, List.append_assoc, List.cons_append, labels_append_dot,
      labels_dotfree d (h d (by simp)), ih (fun l hl => h l (by simp at hl ⊢; exact Or.inr hl))]
    simp

theorem legal_of_shape_last (init : List (List Nat)) (last : List Nat) (h : ∀ l ∈ init ++ [last], GoodLabel l)
    (hlen : (dotEnd init ++ last).length ≤ 253) :
    LegalName (dotEnd init ++ last) ∧ labels (dotEnd init ++ last) = init ++ [last] := by
  have hl := labels_dotEnd_append init last (fun l hl c => ((h l hl).2.2 46 c).2.1 rfl)
  refine ⟨⟨hlen, ?_, ?_⟩, hl⟩
  · exact shape_nonul (ls := init ++ [last]) ⟨h, Or.inr ⟨init, last, rfl, rfl⟩⟩
  · rw [hl]; intro l hl'; exact ⟨(h l hl').1, (h l hl').2.1⟩

/-! ### bit tests of `readname_loop` on a byte -/

theorem byte_bits : ∀ c, c < 256 →
    ((c &&& 192 = 192) ↔ 192 ≤ c) ∧ ((c &&& 192 = 0) ↔ c < 64) ∧ c &&& 63 = c % 64 ∧ c &&& 255 = c := by
  decide +kernel

theorem ptr_offset (c c2 : Nat) (h : c < 256) (h2 : c2 < 256) : (c &&& 63) <<< 8 ||| c2 &&& 255 = c % 64 * 256 + c2 := by
  rw [(byte_bits c h).2.2.1, (byte_bits c2 h2).2.2.2, ← Nat.shiftLeft_add_eq_or_of_lt (by omega), Nat.shiftLeft_eq]

/-! ### `readname` on plain labels -/

/-- what `readname_loop` has stored when it returns: nothing; or `o` and a NUL where `o` is NUL-free and either fills the
array (`length` bytes with the NUL) or is ALL the labels on the wire, dotted, or a prefix of them, dotted, with one more dot -/
def NameRes (length : Nat) (total : List (List Nat)) (w : List Nat) : Prop :=
  w = [] ∨ ∃ o, w = o ++ [0] ∧ (∀ c ∈ o, c ≠ 0) ∧
    (o.length + 1 = length ∨ (o.length + 1 < length ∧ ∃ ls, ls <+: total ∧ Shape o ls ∧ (ls = total ∨ o = dotEnd ls)))

def PostName (length : Nat) (total : List (List Nat)) (x : Except Fault (Nat × List Nat)) : Prop :=
  ∀ r, x = .ok r → NameRes length total r.2

theorem postName_error (length : Nat) (total : List (List Nat)) (e : Fault) : PostName length total (.error e) :=
  fun _ h => by cases h

theorem postName_nil (length : Nat) (total : List (List Nat)) (s : Nat) : PostName length total (.ok (s, [])) :=
  fun _ h => by cases h; exact Or.inl rfl

/-- the loop invariant at the loop test: `out` is the labels `done` each followed by a dot and the walk goes on at `s`;
or `out` ends in a label without a dot, the walk is over and so is the loop -/
def LoopInv (pkt : List Nat) (jump : Nat → List (List Nat)) (total : List (List Nat)) (fuel s : Nat) (out : List Nat) : Prop :=
  ∃ done, (∀ l ∈ done, GoodLabel l) ∧
    ((out = dotEnd done ∧ done ++ walkFrom pkt jump fuel s = total) ∨
     (∃ init last, done = init ++ [last] ∧ out = dotEnd init ++ last ∧ done = total ∧
        (¬ s < pkt.length ∨ pkt.getD s 0 = 0)))

theorem LoopInv.shape {pkt : List Nat} {jump : Nat → List (List Nat)} {total : List (List Nat)} {fuel s : Nat} {out : List Nat}
    (h : LoopInv pkt jump total fuel s out) : ∃ ls, ls <+: total ∧ Shape out ls ∧ (ls = total ∨ out = dotEnd ls) := by
  obtain ⟨done, hg, ⟨ho, ht⟩ | ⟨init, last, hd, ho, ht, _⟩⟩ := h
  · exact ⟨done, ⟨_, ht⟩, ⟨hg, Or.inl ho⟩, Or.inr ho⟩
  · exact ⟨done, ht ▸ List.prefix_refl _, ⟨hg, Or.inr ⟨init, last, hd, ho⟩⟩, Or.inl ht⟩

theorem nameRes_of_shape {length : Nat} {total : List (List Nat)} {out : List Nat} (ho : out.length < length)
    (h : ∃ ls, ls <+: total ∧ Shape out ls ∧ (ls = total ∨ out = dotEnd ls)) : NameRes length total (out ++ [0]) := by
  obtain ⟨ls, hp, hs, hx⟩ := h
  refine Or.inr ⟨out, rfl, fun c hc => (shape_nonul hs c hc).1, ?_⟩
  by_cases h1 : out.length + 1 = length
  · exact Or.inl h1
  · exact Or.inr ⟨by omega, ls, hp, hs, hx⟩

theorem postName_finish (b : RxBuf) {length : Nat} {total : List (List Nat)} (s : Nat) {out : List Nat}
    (ho : out.length < length) (h : ∃ ls, ls <+: total ∧ Shape out ls ∧ (ls = total ∨ out = dotEnd ls)) : PostName length total (nameFinish b length s out) := by
  intro r hr
  simp only [nameFinish, push_ok _ ho, bind_ok] at hr
  cases hr
  exact nameRes_of_shape ho h

theorem getD_eq_get {P : List Nat} {i : Nat} (h : i < P.length) : P.getD i 0 = P[i] := by
  simp [List.getD, h]

theorem mem_of_getD_lt {P : List Nat} {i : Nat} (h : i < P.length) : P.getD i 0 ∈ P := by
  rw [getD_eq_get h]; exact List.getElem_mem _

/-- `copyLabel` copies `k ≤ c` bytes: all `c`, or up to the end of the datagram, or until the array is full -/
theorem copyLabel_take (b : RxBuf) (hcap : b.plen ≤ b.cap) (P : List Nat) (hlen : b.plen = P.length)
    (hget : ∀ i, b.pkt.getD i 0 = P.getD i 0) (length : Nat) :
    ∀ c s out s' out', s ≤ P.length → out.length < length → copyLabel b length c s out = .ok (s', out') →
      ∃ k, k ≤ c ∧ s' = s + k ∧ s + k ≤ P.length ∧ out' = out ++ (P.drop s).take k ∧ out'.length < length ∧
        (k = c ∨ ¬ s' < P.length ∨ ¬ out'.length + 1 < length) := by
  intro c
  induction c with
  | zero =>
    intro s out s' out' hs ho h
    simp only [copyLabel] at h
    cases h
    exact ⟨0, Nat.le_refl _, rfl, hs, by simp, ho, Or.inl rfl⟩
  | succ c ih =>
    intro s out s' out' hs ho h
    simp only [copyLabel] at h
    by_cases hc : out.length + 1 < length ∧ s < b.plen
    · rw [if_pos hc, get_ok b hcap s hc.2, bind_ok, push_ok _ ho, bind_ok, hget s] at h
      have hsP : s < P.length := hlen ▸ hc.2
      obtain ⟨k, hk, hs', hsk, hout', ho', hwhy⟩ := ih (s + 1) (out ++ [P.getD s 0]) s' out' hsP
        (by simp only [List.length_append, List.length_cons, List.length_nil]; omega) h
      refine ⟨k + 1, by omega, by omega, by omega, ?_, ho', ?_⟩
      · rw [hout', List.drop_eq_getElem_cons hsP, List.take_succ_cons, getD_eq_get hsP]
        simp
      · rcases hwhy with h1 | h1 | h1
        · exact Or.inl (by omega)
        · exact Or.inr (Or.inl h1)
        · exact Or.inr (Or.inr h1)
    · rw [if_neg hc] at h
      cases h
      refine ⟨0, Nat.zero_le _, rfl, hs, by simp, ho, ?_⟩
      by_cases h1 : out.length + 1 < length
      · exact Or.inr (Or.inl (fun h2 => hc ⟨h1, hlen ▸ h2⟩))
      · exact Or.inr (Or.inr h1)

theorem shape_append {done ls' : List (List Nat)} {o' : List Nat} (hg : ∀ l ∈ done, GoodLabel l) (h : Shape o' ls') :
    Shape (dotEnd done ++ o') (done ++ ls') := by
  obtain ⟨hg', ho | ⟨init, last, hls, ho⟩⟩ := h
  · refine ⟨fun l hl => ?_, Or.inl (by rw [dotEnd_append, ho])⟩
    rcases List.mem_append.1 hl with h | h
    · exact hg l h
    · exact hg' l h
  · refine ⟨fun l hl => ?_, Or.inr ⟨done ++ init, last, by rw [hls, List.append_assoc], by rw [dotEnd_append, ho, List.append_assoc]⟩⟩
    rcases List.mem_append.1 hl with h | h
    · exact hg l h
    · exact hg' l h

/-- **The simulation.**  One activation of `readname_loop` over a datagram of bytes whose labels on the wire (the walk `total`
of this activation) are plain. -/
theorem nameLoop_plain (b : RxBuf) (hcap : b.plen ≤ b.cap) (P : List Nat) (hlen : b.plen = P.length)
    (hget : ∀ i, b.pkt.getD i 0 = P.getD i 0) (hbytes : IsBytes P) (length : Nat)
    (rec : Nat → Nat → Except Fault (List Nat)) (src0 : Nat) (jump : Nat → List (List Nat))
    (hrec : ∀ off len w, 0 < len → (∀ l ∈ jump off, PlainLabel l) → rec off len = .ok w → NameRes len (jump off) w)
    (total : List (List Nat)) (hplain : ∀ l ∈ total, PlainLabel l) :
    ∀ fuel s out, out.length < length → LoopInv P jump total fuel s out →
      PostName length total (nameLoop b length rec src0 fuel s out) := by
  intro fuel
  induction fuel with
  | zero =>
    intro s out ho hinv
    unfold nameLoop
    by_cases hs : s < b.plen
    · simp only [hs, not_true_eq_false, if_false, get_ok b hcap s hs, bind_ok]
      by_cases h1 : b.pkt.getD s 0 = 0 ∨ ¬out.length + 2 < length
      · simp only [h1, if_true]
        exact postName_finish b s ho hinv.shape
      · simp only [h1, if_false]
        exact postName_error _ _ _
    · simp only [hs, not_false_eq_true, if_true]
      exact postName_finish b s ho hinv.shape
  | succ fuel ih =>
    intro s out ho hinv
    unfold nameLoop
    by_cases hs : s < b.plen
    · have hsP : s < P.length := hlen ▸ hs
      simp only [hs, not_true_eq_false, if_false, get_ok b hcap s hs, bind_ok, hget s]
      have hc256 : P.getD s 0 < 256 := hbytes _ (mem_of_getD_lt hsP)
      obtain ⟨hb1, hb2, _, _⟩ := byte_bits _ hc256
      by_cases h1 : P.getD s 0 = 0 ∨ ¬out.length + 2 < length
      · simp only [h1, if_true]
        exact postName_finish b s ho hinv.shape
      · simp only [h1, if_false]
        have hc0 : P.getD s 0 ≠ 0 := fun h => h1 (Or.inl h)
        have hl : out.length + 2 < length := by
          apply Decidable.byContradiction; intro h; exact h1 (Or.inr h)
        obtain ⟨done, hg, ⟨hout, htot⟩ | ⟨_, _, _, _, _, hstop⟩⟩ := hinv
        rotate_left
        · exfalso
          rcases hstop with h | h
          · exact h hsP
          · exact hc0 h
        have hnn : ∀ c ∈ out, c ≠ 0 := fun c hc => (dotEnd_nonul done hg c (hout ▸ hc)).1
        by_cases h2 : P.getD s 0 &&& 192 = 192
        · simp only [h2, if_true]
          have h192 := hb1.1 h2
          rw [walkFrom_ptr P jump fuel s hsP h192] at htot
          by_cases h3 : s + 1 < b.plen
          · have h3P : s + 1 < P.length := hlen ▸ h3
            simp only [h3, not_true_eq_false, if_false, get_ok b hcap (s + 1) h3, bind_ok, hget (s + 1)]
            have hc2 : P.getD (s + 1) 0 < 256 := hbytes _ (mem_of_getD_lt h3P)
            rw [ptr_offset _ _ hc256 hc2]
            by_cases h4 : P.getD s 0 % 64 * 256 + P.getD (s + 1) 0 ≥ b.plen
            · simp only [if_pos h4]
              by_cases h5 : out.length = 0
              · simp only [if_pos h5]; exact postName_nil _ _ _
              · simp only [if_neg h5]
                exact postName_finish b (s + 1) ho ⟨done, ⟨_, htot⟩, ⟨hg, Or.inl hout⟩, Or.inr hout⟩
            · simp only [if_neg h4]
              rw [if_pos ⟨h3P, by omega⟩] at htot
              cases hsub : rec (P.getD s 0 % 64 * 256 + P.getD (s + 1) 0) (length - out.length) with
              | error e => simp only [bind_error]; exact postName_error _ _ _
              | ok sub =>
                rw [bind_ok]
                have hres := hrec _ _ sub (by omega)
                  (fun l hl => hplain l (by rw [← htot]; exact List.mem_append_right _ hl)) hsub
                by_cases h6 : sub.length = 0 ∧ out.length > 0
                · simp only [if_pos h6]
                  rw [push_ok _ ho, bind_ok]
                  intro r hr
                  cases hr
                  exact nameRes_of_shape ho ⟨done, ⟨_, htot⟩, ⟨hg, Or.inl hout⟩, Or.inr hout⟩
                · simp only [if_neg h6]
                  intro r hr
                  cases hr
                  rcases hres with hnil | ⟨o', hw, hnn', hcase⟩
                  · subst hnil
                    have : out = [] := List.eq_nil_of_length_eq_zero (by
                      simp only [List.length_nil, true_and] at h6; omega)
                    left; simp only [this, List.append_nil]
                  · right
                    refine ⟨out ++ o', by rw [hw, List.append_assoc], ?_, ?_⟩
                    · intro c hc
                      rcases List.mem_append.1 hc with hc | hc
                      · exact hnn c hc
                      · exact hnn' c hc
                    · rcases hcase with hfull | ⟨hlt, ls', hpre, hshape, hx⟩
                      · left; simp only [List.length_append]; omega
                      · right
                        refine ⟨by simp only [List.length_append]; omega, done ++ ls', ?_, ?_, ?_⟩
                        · obtain ⟨t, ht⟩ := hpre
                          exact ⟨t, by rw [← htot, ← ht, List.append_assoc]⟩
                        · rw [hout]; exact shape_append hg hshape
                        · rcases hx with hx | hx
                          · left; rw [← htot, hx]
                          · right; rw [hout, hx, dotEnd_append]
          · simp only [h3, not_false_eq_true, if_true]
            exact postName_finish b (s + 1) ho ⟨done, ⟨_, htot⟩, ⟨hg, Or.inl hout⟩, Or.inr hout⟩
        · simp only [h2, if_false]
          by_cases h3 : P.getD s 0 &&& 192 = 0
          · have h64 := hb2.1 h3
            simp only [ne_eq, h3, not_true_eq_false, if_false]
            -- the label on the wire
            have hlab : s + 1 < P.length →
                GoodLabel ((P.drop (s + 1)).take (P.getD s 0)) ∧
                done ++ (P.drop (s + 1)).take (P.getD s 0) :: walkFrom P jump fuel (s + 1 + P.getD s 0) = total := by
              intro h1P
              rw [walkFrom_label P jump fuel s h1P hc0 h64] at htot
              refine ⟨?_, htot⟩
              have hmem : (P.drop (s + 1)).take (P.getD s 0) ∈ total := by rw [← htot]; simp
              have hp := hplain _ hmem
              refine ⟨?_, ?_, ?_⟩
              · simp only [List.length_take, List.length_drop]; omega
              · simp only [List.length_take, List.length_drop]; omega
              · intro c hc
                refine ⟨fun e => hp.1 (e ▸ hc), fun e => hp.2 (e ▸ hc), ?_⟩
                exact hbytes c (List.mem_of_mem_drop (List.mem_of_mem_take hc))
            cases hcl : copyLabel b length (P.getD s 0) (s + 1) out with
            | error e => simp only [bind_error]; exact postName_error _ _ _
            | ok pr =>
              obtain ⟨s', out'⟩ := pr
              rw [bind_ok]
              simp only
              obtain ⟨k, hk, hs', hsk, hout', ho', hwhy⟩ :=
                copyLabel_take b hcap P hlen hget length _ (s + 1) out s' out' (by omega) ho hcl
              by_cases h4 : out'.length + 1 ≥ length
              · simp only [h4, if_true]
                intro r hr
                simp only [nameFinish, push_ok _ ho', bind_ok] at hr
                cases hr
                right
                refine ⟨out', rfl, ?_, Or.inl (by omega)⟩
                intro c hc
                rw [hout'] at hc
                rcases List.mem_append.1 hc with hc | hc
                · exact hnn c hc
                · by_cases h1P : s + 1 < P.length
                  · have hg' := (hlab h1P).1.2.2 c
                    have : c ∈ (P.drop (s + 1)).take (P.getD s 0) :=
                      (List.take_prefix_take_left hk).subset hc
                    exact (hg' this).1
                  · rw [List.drop_of_length_le (by omega)] at hc
                    simp at hc
              · simp only [h4, if_false]
                by_cases h5 : s' < b.plen
                · have h5P : s' < P.length := hlen ▸ h5
                  simp only [h5, if_true, get_ok b hcap s' h5, bind_ok, hget s']
                  have hkc : k = P.getD s 0 := by
                    rcases hwhy with h | h | h
                    · exact h
                    · exact absurd h5P h
                    · exfalso; omega
                  have h1P : s + 1 < P.length := by omega
                  obtain ⟨hgl, htot'⟩ := hlab h1P
                  have hg2 : ∀ l ∈ done ++ [(P.drop (s + 1)).take (P.getD s 0)], GoodLabel l := by
                    intro l hl
                    rcases List.mem_append.1 hl with h | h
                    · exact hg l h
                    · rw [List.mem_singleton.1 h]; exact hgl
                  have hs'' : s' = s + 1 + P.getD s 0 := by omega
                  by_cases h6 : P.getD s' 0 ≠ 0
                  · simp only [if_pos h6]
                    rw [push_ok _ ho', bind_ok]
                    apply ih s' (out' ++ [46]) (by simp only [List.length_append, List.length_cons, List.length_nil]; omega)
                    refine ⟨done ++ [(P.drop (s + 1)).take (P.getD s 0)], hg2, Or.inl ⟨?_, ?_⟩⟩
                    · rw [dotEnd_append, dotEnd_single, hout', hout, hkc, List.append_assoc]
                    · rw [← htot', hs'', List.append_assoc]; rfl
                  · simp only [if_neg h6]
                    apply ih s' out' ho'
                    refine ⟨done ++ [(P.drop (s + 1)).take (P.getD s 0)], hg2, Or.inr ⟨done, _, rfl, ?_, ?_, Or.inr ?_⟩⟩
                    · rw [hout', hout, hkc]
                    · rw [← htot', walkFrom_stop P jump fuel _ (Or.inr (by rw [← hs'']; simpa using h6))]
                    · simpa using h6
                · simp only [h5, if_false]
                  have h5P : ¬ s' < P.length := fun h => h5 (hlen ▸ h)
                  apply ih s' out' ho'
                  by_cases h1P : s + 1 < P.length
                  · obtain ⟨hgl, htot'⟩ := hlab h1P
                    have hg2 : ∀ l ∈ done ++ [(P.drop (s + 1)).take (P.getD s 0)], GoodLabel l := by
                      intro l hl
                      rcases List.mem_append.1 hl with h | h
                      · exact hg l h
                      · rw [List.mem_singleton.1 h]; exact hgl
                    refine ⟨done ++ [(P.drop (s + 1)).take (P.getD s 0)], hg2, Or.inr ⟨done, _, rfl, ?_, ?_, Or.inl h5P⟩⟩
                    · rw [hout', hout]
                      congr 1
                      rw [List.take_of_length_le (by simp only [List.length_drop]; omega),
                        List.take_of_length_le (by simp only [List.length_drop]; omega)]
                    · rw [← htot', walkFrom_stop P jump fuel _ (Or.inl (by omega))]
                  · refine ⟨done, hg, Or.inl ⟨?_, ?_⟩⟩
                    · rw [hout', hout, List.drop_of_length_le (by omega)]; simp
                    · rw [walkFrom_last P jump _ s h64 h1P] at htot
                      rw [walkFrom_stop P jump fuel _ (Or.inl h5P)]
                      exact htot
          · simp only [ne_eq, h3, not_false_eq_true, if_true]
            have h64 : 64 ≤ P.getD s 0 := by
              apply Decidable.byContradiction; intro h; exact h3 (hb2.2 (by omega))
            have h192 : P.getD s 0 < 192 := by
              apply Decidable.byContradiction; intro h; exact h2 (hb1.2 (by omega))
            rw [walkFrom_reserved P jump _ s h64 h192] at htot
            by_cases h5 : out.length = 0
            · simp only [if_pos h5]; exact postName_nil _ _ _
            · simp only [if_neg h5]
              exact postName_finish b (s + 1) ho ⟨done, ⟨_, htot⟩, ⟨hg, Or.inl hout⟩, Or.inr hout⟩
    · simp only [hs, not_false_eq_true, if_true]
      exact postName_finish b s ho hinv.shape

theorem readnameLoop_plain (b : RxBuf) (hcap : b.plen ≤ b.cap) (P : List Nat) (hlen : b.plen = P.length)
    (hget : ∀ i, b.pkt.getD i 0 = P.getD i 0) (hbytes : IsBytes P) :
    ∀ loop src length r, 0 < length → (∀ l ∈ wireLabels P loop src, PlainLabel l) →
      readnameLoop b loop src length = .ok r → NameRes length (wireLabels P loop src) r.2 := by
  intro loop
  induction loop with
  | zero =>
    intro src length r _ _ h
    simp only [readnameLoop] at h
    cases h
    exact Or.inl rfl
  | succ loop ih =>
    intro src length r hl hp h
    simp only [readnameLoop] at h
    refine nameLoop_plain b hcap P hlen hget hbytes length _ src (wireLabels P loop) ?_ _ hp b.plen src []
      (by simpa using hl) ?_ r h
    · intro off len w hlen' hpl hw
      cases hr : readnameLoop b loop off len with
      | error e => rw [hr] at hw; cases hw
      | ok r' =>
        rw [hr] at hw
        simp only [map_ok] at hw
        cases hw
        exact ih off len r' hlen' hpl hr
    · refine ⟨[], by simp, Or.inl ⟨rfl, ?_⟩⟩
      rw [hlen]; rfl

theorem cstr_snoc_nul (o : List Nat) (h : ∀ c ∈ o, c ≠ 0) : cstr (o ++ [0]) = o := by
  unfold cstr
  induction o with
  | nil => simp
  | cons a o ih =>
    have ha := h a (by simp)
    simp only [List.cons_append, List.takeWhile_cons, ne_eq, ha, not_false_eq_true, decide_true, if_true]
    rw [ih (fun c hc => h c (by simp [hc]))]

/-- **`dns_decode(QR_QUERY)` on plain labels**: the datagram is dropped (`rv ≤ 0`), or the name handed on is non-empty, has at most
253 characters and is all the labels on the wire, dotted, or a prefix of them, dotted, followed by one more dot. -/
theorem dnsDecodeQuery_plain (b : RxBuf) (hcap : b.plen ≤ b.cap) (P : List Nat) (hlen : b.plen = P.length)
    (hget : ∀ i, b.pkt.getD i 0 = P.getD i 0) (hbytes : IsBytes P) (hp : ∀ l ∈ wireLabels P 10 12, PlainLabel l)
    {d : Decoded} (h : dnsDecodeQuery b = .ok d) :
    d.rv ≤ 0 ∨ ∃ ls, ls <+: wireLabels P 10 12 ∧ Shape d.name ls ∧ (ls = wireLabels P 10 12 ∨ d.name = dotEnd ls) ∧
      d.name ≠ [] ∧ d.name.length ≤ 253 := by
  unfold dnsDecodeQuery at h
  split at h
  · cases h; exact Or.inl (by simp)
  · obtain ⟨hd, hhd, h⟩ := bind_eq_ok h
    split at h
    · cases h; exact Or.inl (by simp)
    · split at h
      · cases h; exact Or.inl (by simp)
      · obtain ⟨x, hrn, h⟩ := bind_eq_ok h
        obtain ⟨dd, w⟩ := x
        dsimp only at h
        have hrl : readnameLoop b 10 12 255 = .ok (dd, w) := by
          simpa [readname] using hrn
        have hres := readnameLoop_plain b hcap P hlen hget hbytes 10 12 255 _ (by omega) hp hrl
        have hfact : (cstr (w.take 255)).length > 253 ∨ cstr (w.take 255) = [] ∨
            ∃ ls, ls <+: wireLabels P 10 12 ∧ Shape (cstr (w.take 255)) ls ∧
              (ls = wireLabels P 10 12 ∨ cstr (w.take 255) = dotEnd ls) := by
          rcases hres with hnil | ⟨o, hw, hnn, hfull | ⟨hlt, ls, hpre, hsh, hx⟩⟩
          · simp only at hnil
            right; left; rw [hnil]; rfl
          · simp only at hw
            left
            rw [hw, List.take_of_length_le (by simp only [List.length_append, List.length_cons, List.length_nil]; omega),
              cstr_snoc_nul o hnn]
            omega
          · simp only at hw
            right; right
            rw [hw, List.take_of_length_le (by simp only [List.length_append, List.length_cons, List.length_nil]; omega),
              cstr_snoc_nul o hnn]
            exact ⟨ls, hpre, hsh, hx⟩
        generalize cstr (w.take 255) = nm at h hfact
        split at h
        · cases h; exact Or.inl (by simp)
        · rename_i hle
          split at h
          · cases h; exact Or.inl (by simp)
          · obtain ⟨t, ht, h⟩ := bind_eq_ok h
            obtain ⟨c, _, h⟩ := bind_eq_ok h
            cases h
            have hnm : (nm.take 256).take 255 = nm := by
              have h1 : nm.take 256 = nm := List.take_of_length_le (by omega)
              rw [h1, List.take_of_length_le (by omega)]
            simp only [hnm]
            rcases hfact with hf | hf | ⟨ls, hpre, hsh, hx⟩
            · exact absurd hf hle
            · left; rw [hf]; simp
            · by_cases hne : nm = []
              · left; rw [hne]; simp
              · right; exact ⟨ls, hpre, hsh, hx, hne, by omega⟩

end Iodine.BytesL
