import IodineModel.Lemmas.C02rH8
import IodineModel.Lemmas.C02rH4
import IodineModel.Lemmas.C02rH7
import IodineModel.Lemmas.C02rO6
import IodineModel.Lemmas.C02qO9
import IodineModel.Lemmas.C02L9
/-
C02 / OVERLAPPING transfers, lazy mode, ENDINGS — the runs: the upstream remainder (`UpFlightNQ`, `UpFlightNQP`) to
quiescence, and the induction over the rounds of `BothFlightL`.
-/
namespace Iodine.C02L
open Iodine Iodine.Gen Iodine.World

/-- the upstream remainder after the downstream packet is complete: every further fragment but the last costs two scheduler
steps (the server answers at once), the last one five (`deliverUp tickS deliverDown tickC deliverUp`) -/
theorem upnq_run {P : Par} (hP : P.Ok) {frame : List Nat} (h64 : (0x5a :: frame).length ≤ 65536) (h24 : 24 ≤ frame.length) :
    ∀ (fuel : Nat) (w : W) (c0 : Client.Cli) (o f : Nat), UpFlightNQ P (0x5a :: frame) w c0 o f →
      ((0x5a :: frame).drop o).length ≤ fuel → f + upFrags P fuel ((0x5a :: frame).drop o) ≤ 16 →
      Server.ipDst frame ≠ (Server.getUser w.srv P.u).tunIp →
      ∃ w', promptSteps P.u (2 * upFrags P fuel ((0x5a :: frame).drop o) + 3) w = some w' ∧
        QuietLazy P w' ∧
        w'.tunS = w.tunS ++ [[0, 0, 8, 0] ++ frame.drop 4] ∧ w'.tunC = w.tunC ∧
        (Server.getUser w'.srv P.u).tunIp = (Server.getUser w.srv P.u).tunIp ∧
        (Server.getUser w'.srv P.u).fragsize = (Server.getUser w.srv P.u).fragsize := by
  intro fuel
  induction fuel with
  | zero =>
    intro w c0 o f h hl
    have := h.ready.ho
    simp only [List.length_drop] at hl
    omega
  | succ fuel ih =>
    intro w c0 o f h hl hf hdst
    have hne : (0x5a :: frame).drop o ≠ [] := by
      intro hc
      have := congrArg List.length hc
      simp only [List.length_drop, List.length_nil] at this
      have := h.ready.ho
      omega
    obtain ⟨_, _, hm1, hm2, _⟩ := send_readyL hP h.ready
    have hu : upFrags P (fuel + 1) ((0x5a :: frame).drop o) =
        1 + upFrags P fuel (((0x5a :: frame).drop o).drop (fragLen P ((0x5a :: frame).drop o))) := by
      simp [upFrags, hne]
    rw [List.drop_drop] at hu
    rw [hu] at hf ⊢
    by_cases hlast : o + fragLen P ((0x5a :: frame).drop o) = (0x5a :: frame).length
    · -- last fragment
      have hnil : (0x5a :: frame).drop (o + fragLen P ((0x5a :: frame).drop o)) = [] := by
        rw [hlast]; exact List.drop_length
      rw [hnil, upFrags_nil]
      obtain ⟨w', h1, h2, h3, h4, h6, h7⟩ := upnq_last_step hP h h64 hlast h24 hdst
      exact ⟨w', h1, h2, h3, h4, h6, h7⟩
    · -- one more fragment, then the rest
      have hlt : o + fragLen P ((0x5a :: frame).drop o) < (0x5a :: frame).length := by omega
      have hg1 : 1 ≤ upFrags P fuel ((0x5a :: frame).drop (o + fragLen P ((0x5a :: frame).drop o))) := by
        cases fuel with
        | zero => simp only [List.length_drop] at hl; omega
        | succ k =>
          have : (0x5a :: frame).drop (o + fragLen P ((0x5a :: frame).drop o)) ≠ [] := by
            intro hc
            have := congrArg List.length hc
            simp only [List.length_drop, List.length_nil] at this
            omega
          simp [upFrags, this]
      obtain ⟨w1, c1, hs, hfl, ht1, ht2, hsq, htip, hfrg⟩ := upnq_mid_step hP h h64 hlt (by omega)
      obtain ⟨w', h1, h2, h3, h4, h6, h7⟩ := ih w1 c1 _ _ hfl
        (by simp only [List.length_drop] at hl ⊢; omega) (by omega) (by rw [htip]; exact hdst)
      refine ⟨w', ?_, ?_, ?_, ?_, ?_, ?_⟩
      · have := promptSteps_add P.u 2 (2 * upFrags P fuel ((0x5a :: frame).drop (o + fragLen P ((0x5a :: frame).drop o))) + 3) w w1 hs
        rw [h1] at this
        rw [← this]
        congr 1
        omega
      · exact h2
      · rw [h3, ht1]
      · rw [h4, ht2]
      · rw [h6, htip]
      · rw [h7, hfrg]


/-- the same from `UpFlightNQP` (the server drops the downstream packet on the next data query) -/
theorem upnqp_run {P : Par} (hP : P.Ok) {frame outD : List Nat} (h64 : (0x5a :: frame).length ≤ 65536) (h24 : 24 ≤ frame.length) :
    ∀ (fuel : Nat) (w : W) (c0 : Client.Cli) (o f : Nat) (sq : Int) (od D fd : Nat),
      UpFlightNQP P (0x5a :: frame) outD w c0 o f sq od D fd →
      ((0x5a :: frame).drop o).length ≤ fuel → f + upFrags P fuel ((0x5a :: frame).drop o) ≤ 16 →
      Server.ipDst frame ≠ (Server.getUser w.srv P.u).tunIp →
      ∃ n w', promptSteps P.u n w = some w' ∧ QuietLazy P w' ∧
        w'.tunS = w.tunS ++ [[0, 0, 8, 0] ++ frame.drop 4] ∧ w'.tunC = w.tunC ∧
        (Server.getUser w'.srv P.u).tunIp = (Server.getUser w.srv P.u).tunIp ∧
        (Server.getUser w'.srv P.u).fragsize = (Server.getUser w.srv P.u).fragsize := by
  intro fuel w c0 o f sq od D fd h hl hf hdst
  cases fuel with
  | zero =>
    have := h.ready.ho
    simp only [List.length_drop] at hl
    omega
  | succ fuel =>
    have hne : (0x5a :: frame).drop o ≠ [] := by
      intro hc
      have := congrArg List.length hc
      simp only [List.length_drop, List.length_nil] at this
      have := h.ready.ho
      omega
    obtain ⟨_, _, hm1, hm2, _⟩ := send_readyL hP h.ready
    have hu : upFrags P (fuel + 1) ((0x5a :: frame).drop o) =
        1 + upFrags P fuel (((0x5a :: frame).drop o).drop (fragLen P ((0x5a :: frame).drop o))) := by
      simp [upFrags, hne]
    rw [List.drop_drop] at hu
    rw [hu] at hf
    by_cases hlast : o + fragLen P ((0x5a :: frame).drop o) = (0x5a :: frame).length
    · obtain ⟨w', h1, h2, h3, h4, h6, h7⟩ := upnqp_last_step hP h h64 hlast h24 hdst
      exact ⟨5, w', h1, h2, h3, h4, h6, h7⟩
    · have hlt : o + fragLen P ((0x5a :: frame).drop o) < (0x5a :: frame).length := by omega
      have hg1 : 1 ≤ upFrags P fuel ((0x5a :: frame).drop (o + fragLen P ((0x5a :: frame).drop o))) := by
        cases fuel with
        | zero => simp only [List.length_drop] at hl; omega
        | succ k =>
          have : (0x5a :: frame).drop (o + fragLen P ((0x5a :: frame).drop o)) ≠ [] := by
            intro hc
            have := congrArg List.length hc
            simp only [List.length_drop, List.length_nil] at this
            omega
          simp [upFrags, this]
      obtain ⟨w1, c1, hs, hfl, ht1, ht2, _, htip, hfrg⟩ := upnqp_mid_step hP h h64 hlt (by omega)
      obtain ⟨w', h1, h2, h3, h4, h6, h7⟩ := upnq_run hP h64 h24 fuel w1 c1 _ _ hfl
        (by simp only [List.length_drop] at hl ⊢; omega) (by omega) (by rw [htip]; exact hdst)
      refine ⟨2 + (2 * upFrags P fuel ((0x5a :: frame).drop (o + fragLen P ((0x5a :: frame).drop o))) + 3), w', ?_, h2, ?_, ?_, ?_, ?_⟩
      · rw [promptSteps_add P.u 2 _ w w1 hs]; exact h1
      · rw [h3, ht1]
      · rw [h4, ht2]
      · rw [h6, htip]
      · rw [h7, hfrg]

theorem downLen_lerO (F r : Nat) : downLen F r ≤ r := by
  unfold downLen; omega

theorem downFrags_posrO (F n r : Nat) (hn : 0 < n) (hr : 0 < r) : 1 ≤ downFrags F n r := by
  cases n with
  | zero => omega
  | succ k =>
    show 1 ≤ (if r = 0 then 0 else 1 + downFrags F k (r - downLen F r))
    rw [if_neg (by omega)]; omega

/-- **the rounds**: from `BothFlightL` with the server's downstream packet still pending (at least two downstream fragments
in all) to quiescence — `both_round_lazy` while neither fragment in flight is the last one, then one of the three endings -/
theorem both_run_lazy {P : Par} (hP : P.Ok) {fru frd : List Nat} (h64u : (0x5a :: fru).length ≤ 65536)
    (h64d : (0x5a :: frd).length ≤ 65536) (h24 : 24 ≤ fru.length) (h4 : 4 ≤ frd.length) {sq : Int} (F : Nat) :
    ∀ (fuel fuelD : Nat) (w : W) (c0 : Client.Cli) (ou fu od D fd : Nat),
      BothFlightL P (0x5a :: fru) (0x5a :: frd) w c0 ou fu sq od D fd →
      D < (0x5a :: frd).length → (Server.getUser w.srv P.u).fragsize = F →
      (0x5a :: fru).length - ou ≤ fuel → (0x5a :: frd).length - od ≤ fuelD →
      fu + upFrags P fuel ((0x5a :: fru).drop ou) ≤ 16 → fd + downFrags F fuelD ((0x5a :: frd).length - od) ≤ 16 →
      Server.ipDst fru ≠ (Server.getUser w.srv P.u).tunIp →
      ∃ n w', promptSteps P.u n w = some w' ∧ QuietLazy P w' ∧
        w'.tunS = w.tunS ++ [[0, 0, 8, 0] ++ fru.drop 4] ∧ w'.tunC = w.tunC ++ [tunImage frd] ∧
        (Server.getUser w'.srv P.u).tunIp = (Server.getUser w.srv P.u).tunIp ∧
        (Server.getUser w'.srv P.u).fragsize = (Server.getUser w.srv P.u).fragsize := by
  intro fuel
  induction fuel with
  | zero =>
    intro fuelD w c0 ou fu od D fd h _ _ hlu
    have := h.ready.ho
    omega
  | succ fuel ih =>
    intro fuelD w c0 ou fu od D fd h hnd hF hlu hld hfu hfd hdst
    cases fuelD with
    | zero =>
      have := h.hD
      have := h.hle
      omega
    | succ fD =>
      have hne : (0x5a :: fru).drop ou ≠ [] := by
        intro hc
        have := congrArg List.length hc
        simp only [List.length_drop, List.length_nil] at this
        have := h.ready.ho
        omega
      obtain ⟨_, _, hm1, hm2, _⟩ := send_readyL hP h.ready
      have hu : upFrags P (fuel + 1) ((0x5a :: fru).drop ou) =
          1 + upFrags P fuel (((0x5a :: fru).drop ou).drop (fragLen P ((0x5a :: fru).drop ou))) := by
        simp [upFrags, hne]
      rw [List.drop_drop] at hu
      rw [hu] at hfu
      have hDpos := h.hD
      have hle := h.hle
      have hDd : D = downLen F ((0x5a :: frd).length - od) := by rw [← hF]; exact h.hDdef
      have hr0 : (0x5a :: frd).length - od ≠ 0 := by omega
      have hd : downFrags F (fD + 1) ((0x5a :: frd).length - od) = 1 + downFrags F fD ((0x5a :: frd).length - od - D) := by
        show (if (0x5a :: frd).length - od = 0 then 0 else
          1 + downFrags F fD ((0x5a :: frd).length - od - downLen F ((0x5a :: frd).length - od))) = _
        rw [if_neg hr0, ← hDd]
      rw [hd] at hfd
      have hsub : (0x5a :: frd).length - od - D = (0x5a :: frd).length - (od + D) := by omega
      rw [hsub] at hfd
      generalize hm : fragLen P ((0x5a :: fru).drop ou) = m at *
      by_cases hlastU : ou + m = (0x5a :: fru).length
      · by_cases hlastD : od + D = (0x5a :: frd).length
        · -- (E3)
          obtain ⟨w', h1, h2, _, h4', h5, h6, h7⟩ := e3_step hP h rfl rfl h64u h64d (by rw [hm]; exact hlastU) h24 hdst hlastD hnd h4 (by omega)
          exact ⟨4, w', h1, h2, h4', h5, h6, h7⟩
        · -- (E2)
          have hltD : od + D < (0x5a :: frd).length := by omega
          have hb1 : 1 ≤ downFrags F fD ((0x5a :: frd).length - (od + D)) := by
            cases fD with
            | zero => omega
            | succ k => exact downFrags_posrO F (k + 1) _ (by omega) (by omega)
          obtain ⟨w1, hs, hDF, _, htS1, htC1, htip1, hfr1⟩ := e2_step hP h rfl h64u h64d (by rw [hm]; exact hlastU) h24 hdst hltD (by omega)
          rw [hF] at hDF
          generalize hD' : downLen F ((0x5a :: frd).length - (od + D)) = D' at hDF
          have hD'pos := hDF.hD
          have hD'le := hDF.hle
          cases fD with
          | zero => omega
          | succ k =>
            have hr1 : (0x5a :: frd).length - (od + D) ≠ 0 := by omega
            have hd2 : downFrags F (k + 1) ((0x5a :: frd).length - (od + D)) =
                1 + downFrags F k ((0x5a :: frd).length - (od + D) - D') := by
              show (if (0x5a :: frd).length - (od + D) = 0 then 0 else
                1 + downFrags F k ((0x5a :: frd).length - (od + D) - downLen F ((0x5a :: frd).length - (od + D)))) = _
              rw [if_neg hr1, hD']
            rw [hd2] at hfd
            have hsub2 : (0x5a :: frd).length - (od + D) - D' = (0x5a :: frd).length - (od + D + D') := by omega
            rw [hsub2] at hfd
            obtain ⟨w', h1, h2, _, h4', h5, h6, h7⟩ := down_flight_run_lazy hP h64d h4 F k w1 (od + D) D' (fd + 1) hDF
              (by rw [hfr1, hF]) (by omega) (by omega)
            refine ⟨4 + (2 * downFrags F k ((0x5a :: frd).length - (od + D + D')) +
              lastStepsL w1.cs.c.sendPingSoon ((0x5a :: frd).length - (od + D + D'))), w', ?_, h2, ?_, ?_, ?_, ?_⟩
            · rw [promptSteps_add P.u 4 _ w w1 hs]; exact h1
            · rw [h5, htS1]
            · rw [h4', htC1]
            · rw [h7, htip1]
            · rw [h6, hF]
      · have hltU : ou + m < (0x5a :: fru).length := by omega
        have hg1 : 1 ≤ upFrags P fuel ((0x5a :: fru).drop (ou + m)) := by
          cases fuel with
          | zero => omega
          | succ k =>
            have : (0x5a :: fru).drop (ou + m) ≠ [] := by
              intro hc
              have := congrArg List.length hc
              simp only [List.length_drop, List.length_nil] at this
              omega
            simp [upFrags, this]
        by_cases hlastD : od + D = (0x5a :: frd).length
        · -- (E1), the server's packet still pending
          obtain ⟨w1, c1, hs, hNQ, htS1, htC1, _, htip1, hfr1⟩ := e1_step_pending hP h hlastD hnd (by omega) h64u h64d h4
            (by rw [hm]; exact hltU) (by omega)
          rw [hm] at hNQ
          obtain ⟨n, w', h1, h2, h3, h4', h6, h7⟩ := upnqp_run hP h64u h24 fuel w1 c1 _ _ _ _ _ _ hNQ
            (by simp only [List.length_drop]; omega) (by omega) (by rw [htip1]; exact hdst)
          refine ⟨3 + n, w', ?_, h2, ?_, ?_, ?_, ?_⟩
          · rw [promptSteps_add P.u 3 _ w w1 hs]; exact h1
          · rw [h3, htS1]
          · rw [h4', htC1]
          · rw [h6, htip1]
          · rw [h7, hfr1]
        · -- one more round
          have hltD : od + D < (0x5a :: frd).length := by omega
          have hb1 : 1 ≤ downFrags F fD ((0x5a :: frd).length - (od + D)) := by
            cases fD with
            | zero => omega
            | succ k => exact downFrags_posrO F (k + 1) _ (by omega) (by omega)
          obtain ⟨w1, c1, hs, hB, htS1, htC1, _, htip1, hfr1⟩ := both_round_lazy hP h h64u h64d (by rw [hm]; exact hltU) (by omega)
            hltD (by omega)
          rw [hm, hF] at hB
          have hD'lt : downLen F ((0x5a :: frd).length - (od + D)) < (0x5a :: frd).length := by
            have := downLen_lerO F ((0x5a :: frd).length - (od + D))
            omega
          obtain ⟨n, w', h1, h2, h3, h4', h6, h7⟩ := ih fD w1 c1 _ _ _ _ _ hB hD'lt (by rw [hfr1, hF]) (by omega) (by omega)
            (by omega) (by omega) (by rw [htip1]; exact hdst)
          refine ⟨4 + n, w', ?_, h2, ?_, ?_, ?_, ?_⟩
          · rw [promptSteps_add P.u 4 _ w w1 hs]; exact h1
          · rw [h3, htS1]
          · rw [h4', htC1]
          · rw [h6, htip1]
          · rw [h7, hfr1]

#print axioms both_run_lazy

end Iodine.C02L
