import IodineModel.Lemmas.Downstream
/-
End-to-end lemmas for C09, one per answer format: the closed form of the datagram `write_dns` sends and what
`read_dns_withq` returns for it.
-/
namespace Iodine.Downstream
open Iodine Iodine.Codec Iodine.Encoding Iodine.Wire Iodine.Wire.Strict Iodine.Wire.Put Iodine.Wire.DnsEncode
open Iodine.Server.WriteDns Iodine.Client.ReadDns Iodine.C10

theorem readDnsWithq_eq (B : Nat) (pkt : List Nat) (hne : pkt.length ≠ 0) :
    readDnsWithq B pkt = (do
      let d ← dnsDecodeAnswer B (rx pkt)
      let res (rv : Int) (buf : List Nat) : Result := ⟨rv, d.id, d.type, d.rcode, d.name.headD 0, buf⟩
      if d.rv ≤ 0 then .ok (res d.rv []) else
      let rv := d.rv.toNat
      if d.type = 5 ∨ d.type = 16 then
        let o := dnsNamedec dataSize d.buf rv
        let o := o.take B
        .ok (res o.length o)
      else if d.type = 15 ∨ d.type = 33 then
        let first := (Wire.cstr d.buf).length
        let o := mxParts first rv d.buf (rv + 1) 0 []
        let o := o.take B
        .ok (res o.length o)
      else .ok (res d.rv (d.buf.take rv))) := by
  unfold readDnsWithq
  rw [if_neg hne]
  rfl

/-- closed form of every answer: header, echoed question, records -/
def ansPkt (id ty an : Nat) (qn rrs : List Nat) : List Nat := ansHeader id an ++ (qBytes (labels qn) ty ++ rrs)

theorem ansPkt_length (id ty an : Nat) (qn rrs : List Nat) (hqn : LegalName qn) :
    (ansPkt id ty an qn rrs).length = qn.length + 18 + rrs.length := by
  have nf := nameFacts hqn
  simp only [ansPkt, List.length_append, ansHeader_length, qBytes_length, nf.len]
  omega

/-- the decoder's view of the question part, for a legal query name -/
theorem decode_front (B id ty an : Nat) (qn rrs : List Nat) (hid : id < 65536) (hty : ty < 65536)
    (han1 : 1 ≤ an) (han : an < 32768) (hqn : LegalName qn) (hl : (ansPkt id ty an qn rrs).length ≤ 65536) :
    dnsDecodeAnswer B (rx (ansPkt id ty an qn rrs)) =
      (let q : Decoded := { rv := 0, id := id, rcode := 0, name := Wire.cstr [(qn ++ [0]).headD 0] }
       let data := qn.length + 18
       if ty = 10 ∨ ty = 65399 then answerNull (rx (ansPkt id ty an qn rrs)) B q data
       else if ty = 1 ∨ ty = 5 then answerCname (rx (ansPkt id ty an qn rrs)) B q data
       else if ty = 15 ∨ ty = 33 then answerMx (rx (ansPkt id ty an qn rrs)) B q data an
       else if ty = 16 then answerTxt (rx (ansPkt id ty an qn rrs)) B q data
       else .ok { q with type := ty }) := by
  have nf := nameFacts hqn
  have := dnsDecodeAnswer_front B id ty an (labels qn) (ansPkt id ty an qn rrs) rrs hid hty han1 han nf.ok nf.ne
    (by rw [nf.len]; have := nf.le253; omega) rfl hl
  rw [this, joinDots_labels, nf.len]
  have e : 12 + (qn.length + 1) + 5 = qn.length + 18 := by omega
  simp only [e]

theorem at_rrs (id ty an : Nat) (qn rrs : List Nat) (hqn : LegalName qn) :
    At (ansPkt id ty an qn rrs) (qn.length + 18) (rrs ++ []) := by
  have nf := nameFacts hqn
  have := at_append' (ansHeader id an ++ qBytes (labels qn) ty) rrs [] (qn.length + 18)
    (by simp [nf.len]; omega)
  simpa [ansPkt, List.append_assoc] using this

/-! ### NULL / PRIVATE -/

theorem writeDns_null (td : Td) (id ty : Nat) (qn p : List Nat) (dn : Nat) (hty : ty = 10 ∨ ty = 65399)
    (hqn : LegalName qn) (hp : p.length ≤ 4096) :
    writeDns td (id, ty, qn) p dn = (td, some (ansPkt id ty 1 qn (rrBytes namePtr ty 0 p))) := by
  have nf := nameFacts hqn
  have h253 := nf.le253
  have hbr : ∀ b : Buf, b.cap = 65536 → b.pos = 12 + labLen (tokens qn) + 5 →
      ansBranch 65536 ty b p p.length = .ok (b.app (rrBytes namePtr ty 0 p), 1) := by
    intro b hcap hpos
    unfold ansBranch
    rw [if_neg (by rcases hty with h | h <;> simp [h, T_CNAME, T_A]),
      if_neg (by rcases hty with h | h <;> simp [h, T_MX, T_SRV]),
      if_neg (by rcases hty with h | h <;> simp [h, T_TXT])]
    exact ansNull_ok 65536 ty b p hcap (by rw [hpos, nf.tok, nf.len]; omega)
  have henc := dnsEncodeAnswer_of 65536 id ty qn p p.length nf.le63 (by rw [nf.tok, nf.len]; omega) _ 1 hbr
  unfold writeDns writeDnsR
  simp only []
  rw [if_neg (by rcases hty with h | h <;> simp [h, T_CNAME, T_A]),
    if_neg (by rcases hty with h | h <;> simp [h, T_MX, T_SRV]),
    if_neg (by rcases hty with h | h <;> simp [h, T_TXT])]
  rw [henc, nf.tok]
  simp only []
  rw [if_neg (by simp)]
  rfl

theorem read_null (B id ty : Nat) (qn p : List Nat) (hid : id < 65536)
    (hty : ty = 10 ∨ ty = 65399) (hqn : LegalName qn) (hp2 : 2 ≤ p.length) (hp : p.length ≤ 4096) :
    ∃ n0, readDnsWithq B (ansPkt id ty 1 qn (rrBytes namePtr ty 0 p)) =
      .ok ⟨(min p.length B : Nat), id, ty, 0, n0, p.take B⟩ := by
  have h253 := (nameFacts hqn).le253
  have hlen := ansPkt_length id ty 1 qn (rrBytes namePtr ty 0 p) hqn
  rw [rrBytes_length] at hlen
  have hty' : ty < 65536 := by rcases hty with h | h <;> omega
  rw [readDnsWithq_eq _ _ (by rw [hlen]; omega),
    decode_front B id ty 1 qn _ hid hty' (by omega) (by omega) hqn (by rw [hlen]; omega)]
  simp only []
  rw [if_pos hty, answerNull_rt (by rw [hlen]; omega) (by rw [hlen]; omega) B _ hty' hp2 hp (at_rrs id ty 1 qn _ hqn)]
  simp only [bind_ok]
  refine ⟨(Wire.cstr [(qn ++ [0]).headD 0]).headD 0, ?_⟩
  by_cases hB : B = 0
  · subst hB
    simp
  · rw [if_neg (by omega)]
    rw [if_neg (by rcases hty with h | h <;> simp [h]), if_neg (by rcases hty with h | h <;> simp [h])]
    simp only [Int.toNat_natCast, List.take_take, Nat.min_self]
    congr 2
    by_cases h : p.length ≤ B
    · rw [Nat.min_eq_left h, List.take_of_length_le (Nat.le_refl _), List.take_of_length_le h]
    · rw [Nat.min_eq_right (by omega)]

/-! ### TXT -/

theorem txtLen_le (dn n : Nat) (hn : n ≤ 4096) : txtLen dn n ≤ 6554 := by
  unfold txtLen txtK nchars
  split
  · omega
  · split
    · omega
    · split <;> omega

/-- the TXT RDATA: the text in character strings of 252 bytes -/
def txtRR (t : List Nat) : List Nat := rrBytes namePtr 16 0 (encLabels (chunks252 t.length t))

theorem writeDns_txt (td : Td) (id : Nat) (qn p : List Nat) (dn : Nat) (hqn : LegalName qn) (hp : p.length ≤ 4096) :
    writeDns td (id, 16, qn) p dn = (td, some (ansPkt id 16 1 qn (txtRR (txtText p dn)))) := by
  have nf := nameFacts hqn
  have h253 := nf.le253
  have htl := txtText_length p dn hp
  have hle := txtLen_le dn p.length hp
  unfold writeDns writeDnsR
  simp only []
  rw [if_neg (by simp [T_CNAME, T_A]), if_neg (by simp [T_MX, T_SRV]), if_pos (by simp [T_TXT])]
  generalize txtText p dn = t at htl ⊢
  have hlab := chunks252_labLen t.length t (Nat.le_refl _)
  have hbr : ∀ b : Buf, b.cap = 65536 → b.pos = 12 + labLen (tokens qn) + 5 →
      ansBranch 65536 16 b t t.length = .ok (b.app (txtRR t), 1) := by
    intro b hcap hpos
    unfold ansBranch
    rw [if_neg (by simp [T_CNAME, T_A]), if_neg (by simp [T_MX, T_SRV]), if_pos (by simp [T_TXT])]
    exact ansTxt_ok 65536 16 b t hcap (by rw [hpos, nf.tok, nf.len, hlab]; omega)
  have henc := dnsEncodeAnswer_of 65536 id 16 qn t t.length nf.le63 (by rw [nf.tok, nf.len]; omega) _ 1 hbr
  rw [henc, nf.tok]
  simp only []
  rw [if_neg (by simp)]
  rfl

theorem read_txt (B id : Nat) (qn p : List Nat) (dn : Nat) (hid : id < 65536) (hqn : LegalName qn)
    (hpb : Codec.Bytes p) (hp1 : 1 ≤ p.length) (hp : p.length ≤ 4096) (hB : 4096 ≤ B) :
    ∃ n0, readDnsWithq B (ansPkt id 16 1 qn (txtRR (txtText p dn))) =
      .ok (if 1 + txtLen dn p.length ≤ 4096 then ⟨(p.length : Nat), id, 16, 0, n0, p⟩ else ⟨0, id, 16, 0, n0, []⟩) := by
  have h253 := (nameFacts hqn).le253
  have htl := txtText_length p dn hp
  have hle := txtLen_le dn p.length hp
  have hrt := txt_roundtrip p dn hpb hp1 hp
  generalize txtText p dn = t at htl hrt ⊢
  have hlab := chunks252_labLen t.length t (Nat.le_refl _)
  have hflat := chunks252_flatten t.length t (Nat.le_refl _)
  have hel : (encLabels (chunks252 t.length t)).length = labLen (chunks252 t.length t) := encLabels_length _
  have hlen := ansPkt_length id 16 1 qn (txtRR t) hqn
  have hrrl : (txtRR t).length = 12 + (t.length + (t.length + 251) / 252) := by
    unfold txtRR
    rw [rrBytes_length, hel, hlab]
  rw [hrrl] at hlen
  rw [readDnsWithq_eq _ _ (by rw [hlen]; omega),
    decode_front B id 16 1 qn _ hid (by omega) (by omega) (by omega) hqn (by rw [hlen]; omega)]
  simp only []
  rw [if_neg (by simp), if_neg (by simp), if_neg (by simp), if_pos trivial]
  unfold txtRR at hlen ⊢
  rw [answerTxt_rt (by rw [hlen]; omega) (by rw [hlen]; omega) B _ (by omega)
    (fun c hc => by have := chunks252_le _ _ c hc; omega) (by rw [hel, hlab]; omega) (by rw [hflat]; omega)
    (at_rrs id 16 1 qn _ hqn)]
  simp only [bind_ok, hflat]
  refine ⟨(Wire.cstr [(qn ++ [0]).headD 0]).headD 0, ?_⟩
  by_cases hfit : t.length ≤ 4096
  · have hm : min t.length B = t.length := by omega
    have hpos : ¬ ((t.length : Int) ≤ 0) := by omega
    simp only [hfit, if_true, hm, List.take_of_length_le (Nat.le_refl _), hpos, if_false, or_true,
      Int.toNat_natCast, dataSize, hrt]
    rw [if_pos (by omega), List.take_of_length_le (by omega)]
  · simp only [hfit, if_false, Int.le_refl, if_true]
    rw [if_neg (by omega)]

/-! ### CNAME / A -/

theorem namedec_exact' {letter : Nat} {c : Codec} (hc : HostCodec letter c) (cap : Nat) (d : List Nat)
    (hd : Codec.Bytes d) {x y : Nat} {name : List Nat} (hs : NameShape letter (enc c cap d).chars x y name)
    (N : Nat) (hN : (enc c cap d).used ≤ N) :
    dnsNamedec N name name.length = d.take (enc c cap d).used := by
  have h := namedec_exact hc cap d hd hs N name.length [] (Or.inl rfl) hN
  rw [← h]
  obtain ⟨Dt, hname, _⟩ := hs.shape
  rw [hname]
  simp only [List.cons_append]
  rw [hc.namedec, hc.namedec]
  have e : (Dt ++ [DOT, x, y] ++ [0]).take ((letter :: (Dt ++ [DOT, x, y])).length - 4) =
      (Dt ++ [DOT, x, y]).take ((letter :: (Dt ++ [DOT, x, y])).length - 4) := by
    rw [List.take_append_of_le_length (by simp)]
  rw [e]

/-- the CNAME record with the host name `name` as target -/
def cnameRR (name : List Nat) : List Nat := rrBytes namePtr 5 0 (encName (labels name))

theorem writeDns_cname (td : Td) (htd : TdOk td) (id ty : Nat) (qn p : List Nat) (dn : Nat) (hty : ty = 5 ∨ ty = 1)
    (hqn : LegalName qn) (hpb : Codec.Bytes p) :
    writeDns td (id, ty, qn) p dn =
      (tdStep td, some (ansPkt id ty 1 qn (cnameRR (nameenc td 1024 p dn).name))) := by
  have nf := nameFacts hqn
  have h253 := nf.le253
  have hs := nameenc_shape td htd 1024 (by omega) p hpb dn
  have htd' := nameenc_td td 1024 p dn
  unfold writeDns writeDnsR
  simp only []
  rw [if_pos (by rcases hty with h | h <;> simp [h, T_CNAME, T_A])]
  generalize nameenc td 1024 p dn = r at hs htd' ⊢
  have nd := nameFacts hs.legal
  have hd253 := nd.le253
  have hc : DnsEncode.cstr (r.name ++ [0]) = r.name := C10.cstr_append_nul r.name [] (fun c hc => (hs.legal.2.1 c hc).1)
  have hty5 : (if ty = T_A then T_CNAME else ty) = 5 := by
    rcases hty with h | h <;> simp [h, T_A, T_CNAME]
  have hbr : ∀ b : Buf, b.cap = 65536 → b.pos = 12 + labLen (tokens qn) + 5 →
      ansBranch 65536 ty b (r.name ++ [0]) 1024 = .ok (b.app (cnameRR r.name), 1) := by
    intro b hcap hpos
    unfold ansBranch
    rw [if_pos (by rcases hty with h | h <;> simp [h, T_CNAME, T_A])]
    have := ansCname_ok 65536 ty b (r.name ++ [0]) hcap (by rw [hc]; exact nd.le63)
      (by rw [hc, hpos, nf.tok, nf.len, nd.tok, nd.len]; omega)
    rw [this, hc, nd.tok, hty5]
    rfl
  have henc := dnsEncodeAnswer_of 65536 id ty qn (r.name ++ [0]) 1024 nf.le63 (by rw [nf.tok, nf.len]; omega) _ 1 hbr
  rw [henc, nf.tok, htd']
  simp only []
  rw [if_neg (by simp)]
  rfl

theorem read_cname (B id ty : Nat) (qn p : List Nat) {letter : Nat} {c : Codec} (hc : HostCodec letter c)
    {x y : Nat} {name : List Nat} (hs : NameShape letter (enc c 245 p).chars x y name)
    (hid : id < 65536) (hty : ty = 5 ∨ ty = 1) (hqn : LegalName qn) (hpb : Codec.Bytes p) (hp : p.length ≤ 4096)
    (hB : 4096 ≤ B) :
    ∃ n0, readDnsWithq B (ansPkt id ty 1 qn (cnameRR name)) =
      .ok ⟨(((enc c 245 p).used : Nat) : Int), id, 5, 0, n0, p.take (enc c 245 p).used⟩ := by
  have h253 := (nameFacts hqn).le253
  have nd := nameFacts hs.legal
  have hd253 := nd.le253
  have hel : (encName (labels name)).length = name.length + 2 := by
    simp [encName, encLabels_length, nd.len]
  have hlen := ansPkt_length id ty 1 qn (cnameRR name) hqn
  have hrrl : (cnameRR name).length = 12 + (name.length + 2) := by
    unfold cnameRR; rw [rrBytes_length, hel]
  rw [hrrl] at hlen
  have hty' : ty < 65536 := by rcases hty with h | h <;> omega
  have hC := C07.capacity_contract hc.wf 245 p hpb
  have hused := hC.used_le
  have hdec := namedec_exact' hc 245 p hpb hs 65536 (by omega)
  have hnl : 4 ≤ name.length := by
    obtain ⟨Dt, hname, _⟩ := hs.shape
    rw [hname]; simp
  rw [readDnsWithq_eq _ _ (by rw [hlen]; omega),
    decode_front B id ty 1 qn _ hid hty' (by omega) (by omega) hqn (by rw [hlen]; omega)]
  simp only []
  rw [if_neg (by rcases hty with h | h <;> simp [h]), if_pos (by rcases hty with h | h <;> simp [h])]
  unfold cnameRR at hlen ⊢
  rw [answerCname_rt (by rw [hlen]; omega) (by rw [hlen]; omega) B _ (by omega) nd.ok
    (by rw [joinDots_labels]; exact fun c hc => (hs.legal.2.1 c hc).1) (by rw [joinDots_labels]; exact hd253)
    (by rw [nd.len]; omega) (at_rrs id ty 1 qn _ hqn)]
  simp only [bind_ok, joinDots_labels]
  refine ⟨(Wire.cstr [(qn ++ [0]).headD 0]).headD 0, ?_⟩
  have hpos : ¬ ((name.length : Int) ≤ 0) := by omega
  simp only [hpos, if_false, true_or, if_true, Int.toNat_natCast, dataSize, hdec]
  rw [List.take_of_length_le (by simp; omega)]
  simp only [List.length_take]
  rw [Nat.min_eq_left hused]

end Iodine.Downstream
