import IodineModel.Lemmas.C02rG2
/-
C02, phase 3, sub-package "gdown" — part 3: THE GIVE-UP RUN DOWNSTREAM, immediate mode.

`giveup_run_down_imm`: a frame offered to the SERVER in a quiescent (possibly desynchronised) state while every downstream
datagram is lost.  A packet of ONE fragment: 3 steps of the blackout schedule (`tickC`, `deliverUp`, `dropDown`) — the server
forgets the packet the moment it sends it.  A packet of `g ≥ 2` fragments: 21 steps — six polls are answered with fragment 0
(`outfragresent` 1 … 6), the seventh poll finds `outfragresent > 5`, drops the packet and is answered without data; all seven
answers are lost.  Afterwards the pair is quiescent again, `polls · selecttimeout` seconds later (`polls` = 1 resp. 7), the
server's downstream number is one further (`dd + 1`), and NEITHER freshness slack has grown: every ping arrived and was
remembered, no data query was sent.
-/
namespace Iodine.C02L
open Iodine Iodine.Gen Iodine.Server Iodine.World

/-- the polls of the run: one for a one-fragment packet, else seven -/
def rGpolls (g : Nat) : Nat := if g = 1 then 1 else 7

theorem dropSteps_eq_pollsG (g : Nat) : dropSteps g = 3 * rGpolls g := by
  unfold dropSteps rGpolls; split <;> rfl

theorem runSched_21G (ev : W → Ev) (w : W) :
    runSched ev 21 w = runSched ev 3 (runSched ev 3 (runSched ev 3 (runSched ev 3 (runSched ev 3 (runSched ev 3 (runSched ev 3 w)))))) :=
  rfl

theorem downFrags_one_iffG (F n : Nat) (hn : 0 < n) : downFrags F (n + 1) (n + 1) = 1 ↔ downLen F (n + 1) = n + 1 := by
  rw [downFrags_first]
  constructor
  · intro h
    by_cases hz : n + 1 - downLen F (n + 1) = 0
    · have : downLen F (n + 1) ≤ n + 1 := by unfold downLen; omega
      omega
    · have := downFrags_pos F n (n + 1 - downLen F (n + 1)) (by omega) (by omega)
      omega
  · intro h
    rw [h, Nat.sub_self, downFrags_zero]

/-- the end of either branch: the tuple `lost_resend` / `lost_drop` deliver is the quiescent state -/
theorem quiet_of_lostG {P : Par} {w w3 : W} {du dd sl sp T n : Nat} {sq : Int} (hq : QuietImmDS P du dd sl sp w)
    (hsq : sq = ((getUser w.srv P.u).outpacket.seqno + 1) % 8)
    (hfr : LostPolls P T w w3 n) (hph : w3.cs.ph = .tunnel) (hcst : CStat P w3.cs.c) (hidle : Client.isSending w3.cs.c = false)
    (hsps : w3.cs.c.sendPingSoon = 0) (hup : w3.up = []) (hdown : w3.down = []) (hps : PingSrvG P w3.srv)
    (hlen : (getUser w3.srv P.u).outpacket.len = 0) (hseq : (getUser w3.srv P.u).outpacket.seqno = sq)
    (hlp : (getUser w3.srv P.u).lastPkt = w3.srv.now)
    (hA : Aged P (getUser w3.srv P.u) w3.cs.c.datacmc sl) (hPA : PAged P (getUser w3.srv P.u) w3.cs.c.randSeed sp) :
    DownGaveUp P T w w3 n ∧ QuietImmDS P du ((dd + 1) % 8) sl sp w3 := by
  refine ⟨⟨hfr, hsps, hlp, by rw [hseq, hsq]⟩,
    ⟨hph, hcst, hidle, hup, hdown, hps.stat, ⟨hlen, hps.q, hps.qs, hps.lz⟩, hps.oq, ?_, ?_, hA, hPA⟩⟩
  · rw [hfr.outpkt, hfr.inpacket]; exact hq.syncu
  · rw [hseq, hsq, hfr.inpkt, hq.syncd]
    omega

/-- **giveup_run_down_imm.**  Hypotheses: the frame is acceptable to the server's `tunnel_tun`; the client's 500 ms timer is not
running and its poll interval is below the server's 10 s (`hsel`: that the schedule's choice is `tickC` is derived from it);
the ping slack is at least 1 and leaves room (`PAged.step` needs `sp ≤ 1000`); `hne`: for a packet of several fragments the new
downstream number must not be the client's own with `inpkt.fragment = 0` — otherwise the second poll ACKNOWLEDGES fragment 0
(`C02rG7.giveup_run_down_imm_hne_needed`: 24 steps instead of 21); time: the client's `lastdownstreamtime` is NOT refreshed during the run, so the whole run
(`polls · selecttimeout` seconds) must fit into its 60 s (`hc`); the server's `lastPkt` is refreshed by every poll, so only the
first poll must find the session alive (`hs`). -/
theorem giveup_run_down_imm {P : Par} (hP : P.Ok) {w : W} {du dd sl sp : Nat} (hq : QuietImmDS P du dd sl sp w)
    (frame : List Nat) (hF : 0 < (getUser w.srv P.u).fragsize) (h24 : 24 ≤ frame.length) (hl : frame.length < 65536)
    (hdst : ipDst frame = (getUser w.srv P.u).tunIp)
    (hsps : w.cs.c.sendPingSoon = 0) (hsel : w.cs.c.selecttimeout ≤ 9) (hsp1 : 1 ≤ sp) (hsp : sp ≤ 1000)
    (hne : downFrags (getUser w.srv P.u).fragsize (frame.length + 1) (frame.length + 1) = 1 ∨ (dd + 1) % 8 ≠ 0 ∨
      w.cs.c.inpkt.fragment ≠ 0)
    (hc : ¬ w.cs.c.lastdownstreamtime + 60 < w.cs.c.now +
      rGpolls (downFrags (getUser w.srv P.u).fragsize (frame.length + 1) (frame.length + 1)) * w.cs.c.selecttimeout.toNat)
    (hs : w.srv.now + w.cs.c.selecttimeout.toNat < (getUser w.srv P.u).lastPkt + 60) :
    DownGaveUp P w.cs.c.selecttimeout.toNat w
      (runSched blackoutEvDown (dropSteps (downFrags (getUser w.srv P.u).fragsize (frame.length + 1) (frame.length + 1)))
        (step w (.offerS frame)))
      (rGpolls (downFrags (getUser w.srv P.u).fragsize (frame.length + 1) (frame.length + 1))) ∧
    QuietImmDS P du ((dd + 1) % 8) sl sp
      (runSched blackoutEvDown (dropSteps (downFrags (getUser w.srv P.u).fragsize (frame.length + 1) (frame.length + 1)))
        (step w (.offerS frame))) := by
  generalize hTdef : w.cs.c.selecttimeout.toNat = T at hc hs ⊢
  generalize hFdef : (getUser w.srv P.u).fragsize = F at hne hc ⊢
  have hT60 : T < 60 := by rw [← hTdef]; omega
  obtain ⟨s1, hw1, hps1, hop1, hres1, hnow1, hlp1, hfs1, htip1, hin1, hA1, hPA1⟩ := down_offerS hq frame h24 hl hdst
  rw [hw1]
  generalize hsqdef : ((getUser w.srv P.u).outpacket.seqno + 1) % 8 = sq at hop1
  have hsqr : 0 ≤ sq ∧ sq < 8 := by rw [← hsqdef]; omega
  have hlen : (0x5a :: frame).length = frame.length + 1 := by simp
  have hci := hq.cst.iseq
  have hnext : sq ≠ w.cs.c.inpkt.seqno ∨ (0 : Int) ≠ w.cs.c.inpkt.fragment ∨
      downLen (getUser w.srv P.u).fragsize (0x5a :: frame).length = (0x5a :: frame).length := by
    rcases hne with h1 | h1 | h1
    · right; right; rw [hlen, hFdef]; exact (downFrags_one_iffG F frame.length (by omega)).1 h1
    · left; rw [← hsqdef, hq.syncd]; omega
    · right; left; exact fun h => h1 h.symm
  have h0 : DownLost P (0x5a :: frame) sl sp T w { w with srv := s1 } sq 0 0 :=
    ⟨hq.ph, hq.cst, hq.idleC, hsps, hq.up, hq.down, hps1, hop1, hres1, Or.inl rfl, hA1, hPA1, by rw [hnow1, hlp1]; exact hs,
      ⟨rfl, rfl, by show w.cs.c.now = _; omega, by show s1.now = _; rw [hnow1]; omega, rfl, rfl,
        by show w.cs.c.randSeed = _; have := hq.cst.seed; omega, rfl, rfl, rfl, hfs1, htip1, hin1⟩⟩
  have hL : 0 < (0x5a :: frame).length := by rw [hlen]; omega
  obtain ⟨D, w3, hD, hrun1, hmulti, hone⟩ := lost_resend hP h0 hTdef.symm hsel hsp1 hsp (by omega) hL hsqr hF hnext
    (by intro hx; apply hc; unfold rGpolls; split <;> omega) hT60
  rw [hlen, hFdef] at hD
  rw [hlen] at hmulti hone
  by_cases he : D = frame.length + 1
  · -- one fragment
    have hg : downFrags F (frame.length + 1) (frame.length + 1) = 1 := (downFrags_one_iffG F frame.length (by omega)).2 (by rw [← hD]; exact he)
    rw [hg]
    have e3 : dropSteps 1 = 3 := rfl
    have e1 : rGpolls 1 = 1 := rfl
    rw [e3, e1, hrun1]
    obtain ⟨a1, a2, a3, a4, a5, a6, a7, a8, a9, a10, a11, a12, a13⟩ := hone he
    exact quiet_of_lostG hq hsqdef.symm a1 a2 a3 a4 a5 a6 a7 a8 a9 a10 a11 a12 a13
  · -- several fragments
    have hlt : D < frame.length + 1 := by
      have : D ≤ frame.length + 1 := by rw [hD]; unfold downLen; omega
      omega
    have hg : downFrags F (frame.length + 1) (frame.length + 1) ≠ 1 := by
      intro hg; exact he (by rw [hD]; exact (downFrags_one_iffG F frame.length (by omega)).1 hg)
    have e21 : dropSteps (downFrags F (frame.length + 1) (frame.length + 1)) = 21 := by unfold dropSteps; rw [if_neg hg]
    have e7 : rGpolls (downFrags F (frame.length + 1) (frame.length + 1)) = 7 := by unfold rGpolls; rw [if_neg hg]
    rw [e7] at hc
    rw [e21, e7, runSched_21G, hrun1]
    have hDlt : downLen (getUser w.srv P.u).fragsize (0x5a :: frame).length < (0x5a :: frame).length := by
      rw [hlen, hFdef, ← hD]; exact hlt
    have step : ∀ (r : Nat) (wa : W), 1 ≤ r → r ≤ 5 → DownLost P (0x5a :: frame) sl sp T w wa sq D r →
        DownLost P (0x5a :: frame) sl sp T w (runSched blackoutEvDown 3 wa) sq D (r + 1) := by
      intro r wa hr1 hr5 ha
      obtain ⟨D', wb, hD', hrunb, hm, _⟩ := lost_resend hP ha hTdef.symm hsel hsp1 hsp hr5 hL hsqr hF hnext
        (by intro hx; apply hc; have : (r + 1) * T ≤ 7 * T := Nat.mul_le_mul_right T (by omega); omega) hT60
      rw [hrunb]
      have hDD : D' = D := by rw [hD', hlen, hFdef, hD]
      rw [hDD] at hm
      exact hm (by rw [hlen]; exact hlt)
    have a1 := hmulti hlt
    have a2 := step 1 _ (by omega) (by omega) a1
    have a3 := step 2 _ (by omega) (by omega) a2
    have a4 := step 3 _ (by omega) (by omega) a3
    have a5 := step 4 _ (by omega) (by omega) a4
    have a6 := step 5 _ (by omega) (by omega) a5
    obtain ⟨w7, hrun7, b1, b2, b3, b4, b5, b6, b7, b8, b9, b10, b11, b12, b13⟩ :=
      lost_drop hP a6 hTdef.symm hsel hsp1 hsp (by omega) (by rw [hD]; unfold downLen; omega) hsqr hc
    rw [hrun7]
    exact quiet_of_lostG hq hsqdef.symm b1 b2 b3 b4 b5 b6 b7 b8 b9 b10 b11 b12 b13

end Iodine.C02L
