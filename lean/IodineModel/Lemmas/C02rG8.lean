import IodineModel.Lemmas.C02qM7
/-
C02, phase 3, sub-package "gdown" — part 8: the downstream give-up run in LAZY mode, described by kernel-evaluated runs on the
lazy demo session `exWL` (`selecttimeout = 4`, fragment size 30).  No general theorem.

The server holds one ping of the client.  `offerS` answers the held ping with fragment 0 at once; under the downstream blackout
every round is `dropDown` (the answer is lost), `tickC` (the client's 4 s `select` times out: it pings), `deliverUp`.
* ONE fragment: the packet is forgotten as it is sent; the next ping is simply held: 3 steps, 4 s (`blackoutS`, `C02qM7`).
* `g ≥ 2` fragments: each ping is answered at once with fragment 0 again (`outfragresent` 1 … 6); the seventh ping makes the
  server drop the packet, it is answered without data (lost), and the ping after that is held: 21 steps again.
* The CLIENT: every poll is a query that gets no answer (`send_query_sendcnt` up, `send_query_recvcnt = 0`).  When the seventh
  such query is sent the "Receiving too few answers" alarm of `send_query` FIRES: `selecttimeout := 1`, counters reset — in the
  two-fragment run on the seventh poll (so the run takes 6·4 + 1 = 25 s), with one-fragment packets during the sixth run.
  Seven unanswered queries later (`selecttimeout` is 1 already) the alarm fires again and the client starts
  `handshake_lazyoff`: `lazymode := false`, phase `lazyoff` (`exBlack 13`, time +31 s: seen with `#eval` only, the run is too
  long for one kernel evaluation under the package rules).  Both changes outlive the blackout.
-/
namespace Iodine.C02L
open Iodine Iodine.Gen Iodine.Server Iodine.World

/-- what the tests check of the state `w` reached from `w0`: quiescent (the server holds a ping), nothing delivered, the
server's downstream number one further, its outpacket gone -/
def downGaveUpL (w0 w : W) (secs : Nat) (selto : Int) : Bool :=
  quiet 0 w0 && quiet 0 w && w.tunC == w0.tunC && w.tunS == w0.tunS &&
  w.cs.c.inpkt == w0.cs.c.inpkt && w.cs.c.outpkt.seqno == w0.cs.c.outpkt.seqno &&
  (getUser w.srv 0).outpacket.seqno == ((getUser w0.srv 0).outpacket.seqno + 1) % 8 &&
  (getUser w.srv 0).outpacket.len == 0 && (getUser w.srv 0).outfragresent == 0 &&
  (getUser w.srv 0).inpacket == (getUser w0.srv 0).inpacket &&
  w.cs.c.now == w0.cs.c.now + secs && (getUser w.srv 0).lastPkt == w0.srv.now + secs &&
  w.cs.c.lastdownstreamtime == w0.cs.c.lastdownstreamtime &&
  w.cs.c.lazymode && (getUser w.srv 0).lazy && w.cs.c.selecttimeout == selto && w.cs.c.recvcnt == 0

/-- TEST lazy, two fragments: 21 steps, 25 s, and the client's poll interval is 1 s afterwards (it was 4 s) -/
theorem test_giveup_down_lazy_2 :
    downGaveUpL exWL (runSched blackoutEvDown 21 (step exWL (.offerS (demoFrame 2 30)))) 25 1 = true ∧ exWL.cs.c.selecttimeout = 4 := by
  decide +kernel

/-- … not quiescent three steps earlier: the server has just dropped the packet, its dataless answer is in flight -/
theorem test_giveup_down_lazy_2_exact :
    quiet 0 (runSched blackoutEvDown 18 (step exWL (.offerS (demoFrame 2 30)))) = false ∧
    (getUser (runSched blackoutEvDown 15 (step exWL (.offerS (demoFrame 2 30)))).srv 0).outfragresent = 6 := by
  decide +kernel

/-- TEST lazy, one-fragment packets in a row: after five runs (20 s) the interval is still 4 s, the sixth run fires the alarm -/
theorem test_giveup_down_lazy_alarm :
    (exBlack 5).cs.c.selecttimeout = 4 ∧ (exBlack 5).cs.c.sendcnt = 6 ∧ (exBlack 5).cs.c.now = exWL.cs.c.now + 20 ∧
    (exBlack 6).cs.c.selecttimeout = 1 ∧ (exBlack 6).cs.c.sendcnt = 0 ∧ (exBlack 6).cs.c.now = exWL.cs.c.now + 24 ∧
    (exBlack 6).cs.c.lazymode = true ∧ quiet 0 (exBlack 6) = true := by
  decide +kernel

end Iodine.C02L
