import IodineModel.Lemmas.C02rA1
import IodineModel.Lemmas.C02qA6
/-
C02 phase 3, sub-package "lift" (2): `RingWF` of all slots at the World level — an invariant of EVERY scheduler event
(`srvWF_step`: offers on either tun device, delivery, loss, duplication, reordering in either direction, both timeouts, time
passing), hence of every schedule (`srvWF_run`), from every configured server (`srvWF_init`, `srvWF_demoServer`).  So the
hypothesis `RingWF` of the renewal theorems (`CleanSess.renewed`, C02qA2; `PCleanSess.renewed`, C02rA3) holds after ANY fault
prefix whatsoever.
-/
namespace Iodine.C02L
open Iodine Iodine.World

theorem srvWF_stepC {w : W} (h : SrvWF w.srv) (inp : Client.CInput) : SrvWF (stepC w inp).srv := h.users rfl

theorem srvWF_stepS {w : W} (h : SrvWF w.srv) (inp : Server.Input) (dt : Nat) : SrvWF (stepS w inp dt).srv :=
  srvWF_iteration h inp _

/-- **`RingWF` of every slot is an invariant of every `World.step`**, all thirteen kinds of events. -/
theorem srvWF_step {w : W} (h : SrvWF w.srv) (e : Ev) : SrvWF (step w e).srv := by
  cases e with
  | offerC f =>
    simp only [step]
    split
    · exact srvWF_stepC h _
    · exact h
  | offerS f =>
    simp only [step]
    split
    · exact srvWF_stepS h _ _
    · exact h
  | deliverUp =>
    simp only [step]
    split
    · exact h
    · exact srvWF_stepS (w := { w with up := _ }) h _ _
  | deliverDown =>
    simp only [step]
    split
    · exact h
    · exact srvWF_stepC (w := { w with down := _ }) h _
  | dropUp => exact h
  | dropDown => exact h
  | dupUp =>
    simp only [step]
    split
    · exact h
    · exact srvWF_stepS h _ _
  | dupDown =>
    simp only [step]
    split
    · exact h
    · exact srvWF_stepC h _
  | reorderUp => exact h
  | reorderDown => exact h
  | tickC => exact srvWF_stepC h _
  | tickS => exact srvWF_stepS h _ _
  | advance dt => exact h.users rfl

/-- … hence of every schedule -/
theorem srvWF_run (es : List Ev) : ∀ {w : W}, SrvWF w.srv → SrvWF (run w es).srv := by
  induction es with
  | nil => intro w h; exact h
  | cons e es ih => intro w h; exact ih (srvWF_step h e)

/-- the form asked for: after any schedule whatsoever, all sixteen slots (indeed `users[v]` for every `v`) are well-formed -/
theorem ringWF_run {w : W} (h : ∀ v, RingWF (Server.getUser w.srv v)) (es : List Ev) (v : Nat) :
    RingWF (Server.getUser (run w es).srv v) :=
  (srvWF_run es ((srvWF_iff _).2 h)).get v

/-- the same along the prompt schedule -/
theorem srvWF_runPrompt (u : Nat) : ∀ (fuel : Nat) {w : W}, SrvWF w.srv → SrvWF (runPrompt u fuel w).srv
  | 0, _, h => h
  | fuel + 1, w, h => by
    unfold runPrompt
    split
    · exact h
    · exact srvWF_runPrompt u fuel (srvWF_step h _)

/-- the demo servers (all modes) are well-formed: a configured server with one pre-established session -/
theorem srvWF_demoServer (lz raw : Bool) (e : Server.Enc) : SrvWF (demoServer lz raw e) :=
  (srvWF_init _ _).setUser _ _ fun _ hx => hx.same

/-- non-vacuity: the demo state of `Props/C02.lean`, and the state after the 104-event fault prefix of the counterexample
(`qa_runC`) — obtained here WITHOUT evaluating the run -/
example : SrvWF Iodine.C02.exW.srv ∧ SrvWF qaWC.srv ∧ RingWF (Server.getUser qaWC.srv 0) := by
  have h0 : SrvWF Iodine.C02.exW.srv := srvWF_demoServer _ _ _
  have h1 : SrvWF qaWC.srv := by rw [← qa_runC]; exact srvWF_run _ h0
  exact ⟨h0, h1, h1.get 0⟩

end Iodine.C02L
