import IodineModel.Lemmas.C02q0
import IodineModel.Lemmas.C02v10
/-
C02, phase 2 — upstream, immediate mode, DESYNCHRONISED sequence numbers: the server's side.

A data fragment whose sequence number lies in the server's window of "recent duplicates" (the slot's current number with a
fragment number not above the current one, or one of the three numbers before it) is NOT stored; in immediate mode the
query is answered at once with a dataless packet that carries the server's OWN `(inpacket.seqno, inpacket.fragment)` as the
upstream ack; the query is remembered like any other.
-/
namespace Iodine.C02L
open Iodine Iodine.Gen Iodine.Server Iodine.World

/-- the fragment `(sq, fr)` falls into the slot's duplicate window -/
def InWindow (x : Session) (sq fr : Nat) : Prop :=
  ((sq : Int) = x.inpacket.seqno ∧ (fr : Int) ≤ x.inpacket.fragment) ∨
  ((sq : Int) ≠ x.inpacket.seqno ∧ recentSeqno x.inpacket.seqno sq = true)

theorem dataUpstream_dup {x : Session} {sq fr : Nat} (h : InWindow x sq fr) : dataUpstream x sq fr = (x, false) := by
  unfold dataUpstream
  rcases h with h | h
  · rw [if_pos h]
  · rw [if_neg (by intro hc; exact h.1 hc.1), if_pos h]

/-- the sequence number `d + 1` ahead of the slot's, `4 ≤ d ≤ 6`, is one of the three before it -/
theorem inWindow_of_ahead {x : Session} (hs : 0 ≤ x.inpacket.seqno ∧ x.inpacket.seqno < 8) {d sq : Nat} (fr : Nat)
    (hd : 4 ≤ d ∧ d ≤ 6) (hsq : (sq : Int) = (x.inpacket.seqno + d + 1) % 8) : InWindow x sq fr := by
  right
  refine ⟨by omega, ?_⟩
  rw [← recentSeqno_eq]
  exact (recentSeqno_iff _ _ hs).2 ⟨7 - d, by omega, by omega⟩

/-- … and 8 ahead is the slot's own number: fragment 0 is a "repeated old fragment" -/
theorem inWindow_of_same {x : Session} (hf : 0 ≤ x.inpacket.fragment) {sq : Nat}
    (hsq : (sq : Int) = x.inpacket.seqno) : InWindow x sq 0 := by
  left
  exact ⟨hsq, by simpa using hf⟩

/-- immediate mode, nothing queued: a data query whose fragment is dropped is answered at once with a dataless packet -/
theorem dataSess_imm_dup (x : Session) (u : Nat) (Q : Query) (h : UpHdr) (payload : List Nat) (now : Nat)
    (hi : IdleImm x) (hid2 : Q.id2 = 0) (hup : InWindow x h.upSeq h.upFrag) :
    dataSess x u Q h payload now =
      (let y := saveQ x Q now
       ({ cacheUpd (qmemUpd y Q) Q (scPkt y 0) with q := { Q with id := 0 } }, [writeDns Q (scPkt y 0) y.downenc (.chunk u)])) := by
  obtain ⟨h1, h2, h3, h4⟩ := hi
  have ha : dataASess x h.upSeq h.upFrag h.dnSeq h.dnFrag payload = (x, false) := by
    unfold dataASess
    have : ackSess x h.dnSeq h.dnFrag = x := by simp [ackSess, h1]
    simp only [this, dataUpstream_dup hup, Bool.false_eq_true, if_false]
  unfold dataSess
  rw [ha]
  simp only [Bool.false_eq_true, false_and, if_false]
  have e1 : stepQsSess x u = ((x, []), false) := by simp [stepQsSess, h3]
  rw [e1]
  simp only
  have e2 : stepQSess x u false h.last false = ((x, []), false) := by simp [stepQSess, h2]
  rw [e2]
  simp only
  have e3 : stepFinalSess (saveQ x Q now) u false h.last false = (scSess (saveQ x Q now) u .q).1 := by
    simp [stepFinalSess, saveQ, h1]
  rw [e3, scSess_dataless _ _ _ (by simp [saveQ, h1]) (by simp [QSel.get, saveQ, hid2])]
  simp [QSel.get, QSel.set, saveQ]

/-- `iteration_data` with the self-addressing side condition only where the packet is handed on (`upstream_ok`) -/
theorem iteration_data' {u : Nat} {s : Srv} (hs : Solo u s) (Q : Query) (now' dlen : Nat) (hu : u < 16)
    (hdl : Common.queryDatalen Q.name s.cfg.topdomain = some dlen) (h6 : 6 ≤ dlen)
    (hc : Q.name.getD 0 0 = hexLower u) (hty : TunnelType Q.type) (hid : Q.id ≠ 0)
    (hadm : Admitted (entryS s u now') u Q)
    (hcache : CacheMiss (topSess (getUser s u) s.now) Q) (hqmem : QmemMiss (topSess (getUser s u) s.now) Q)
    (hdup1 : (topSess (getUser s u) s.now).q.id = 0 ∨ (topSess (getUser s u) s.now).q.name ≠ Q.name)
    (hdup2 : (topSess (getUser s u) s.now).qs.id = 0 ∨ (topSess (getUser s u) s.now).qs.name ≠ Q.name)
    (hns : (dataASess (topSess (getUser s u) s.now) (parseUpHdr (Q.name.take (min dlen 512))).upSeq
        (parseUpHdr (Q.name.take (min dlen 512))).upFrag (parseUpHdr (Q.name.take (min dlen 512))).dnSeq
        (parseUpHdr (Q.name.take (min dlen 512))).dnFrag ((Q.name.take (min dlen 512)).drop 5)).2 = true →
      (parseUpHdr (Q.name.take (min dlen 512))).last = true →
      ¬ selfAddressed (dataASess (topSess (getUser s u) s.now) (parseUpHdr (Q.name.take (min dlen 512))).upSeq
        (parseUpHdr (Q.name.take (min dlen 512))).upFrag (parseUpHdr (Q.name.take (min dlen 512))).dnSeq
        (parseUpHdr (Q.name.take (min dlen 512))).dnFrag ((Q.name.take (min dlen 512)).drop 5)).1 now') :
    iteration s (.q Q) now' =
      (let r := dataSess (topSess (getUser s u) s.now) u Q (parseUpHdr (Q.name.take (min dlen 512)))
                  ((Q.name.take (min dlen 512)).drop 5) now'
       ({ putUser s u (sweepSess r.1 u now').1 with now := now' }, r.2 ++ [Event.sweep] ++ (sweepSess r.1 u now').2,
        ((topOfLoop s).2.1, (topOfLoop s).2.2))) := by
  have hs1 := entryS_solo hs now'
  have hg := getUser_entryS hs now'
  apply iteration_solo hs (.q Q) now' _ _ (by intro f hf; cases hf)
  show tunnelDns (entryS s u now') Q = _
  rw [tunnelDns_data (entryS s u now') Q u dlen hu hdl h6 hc hty hid (checkAuth_admitted hadm)
    (answerFromDnscache_none _ _ _ (by rw [hg]; exact hcache)) (answerFromQmemData_none _ _ _ (by rw [hg]; exact hqmem))
    (rememberDuplicate_none _ _ _ (by rw [hg]; exact hdup1) (by rw [hg]; exact hdup2))]
  rw [dataFresh_stages, dataStaged_eq hs1 _ _ _ (by rw [hg]; exact hns), hg]
  unfold entryS
  simp only [putUser_withNow, putUser_putUser]

/-- the slot after an in-window data query: nothing moved but the clock of the session and the memories -/
structure AfterDup (P : Par) (s s' : Srv) (pkt : List Nat) : Prop where
  stat : SStat P s'
  idle : IdleImm (getUser s' P.u)
  inp : (getUser s' P.u).inpacket = (getUser s P.u).inpacket
  outp : (getUser s' P.u).outpacket = (getUser s P.u).outpacket
  oq : (getUser s' P.u).oqFilled = (getUser s P.u).oqFilled
  tun : (getUser s' P.u).tunIp = (getUser s P.u).tunIp
  frag : (getUser s' P.u).fragsize = (getUser s P.u).fragsize
  now : s'.now = s.now
  last : (getUser s' P.u).lastPkt = s.now
  pkt : ∃ y : Session, pkt = scPkt y 0 ∧ y.outpacket = (getUser s P.u).outpacket ∧ y.inpacket = (getUser s P.u).inpacket

theorem srv_recv_dup {P : Par} (hP : P.Ok) {s : Srv} (hS : SStat P s) (hi : IdleImm (getUser s P.u)) {k : Nat}
    (hk : k < 36) {sl : Nat} (hA : Aged P (getUser s P.u) k sl) {sd sp : Nat} (hPA : PAged P (getUser s P.u) sd sp)
    {Q : Query} {sq fr : Nat} {dsq dfr : Int} {lst : Bool} {chunk : List Nat}
    (hQ : UpQ P Q ⟨sq, fr, dsq, dfr, lst⟩ k chunk)
    (hW : InWindow (getUser s P.u) sq fr) (hsl : 1 ≤ sl ∧ sl ≤ 21 := by omega) :
    ∃ s' evs t pkt, iteration s (.q Q) s.now = (s', evs, t) ∧ downOfEvents evs = [.ans Q.id Q.type Q.name pkt] ∧
      tunOfSEvents evs = [] ∧ AfterDup P s s' pkt ∧ Aged P (getUser s' P.u) ((k + 1) % 36) sl ∧
      PAged P (getUser s' P.u) sd sp := by
  have hf : Fresh P (getUser s P.u) k (0 + 1) := hA.fresh hk (by omega)
  obtain ⟨dlen, hdl, h6, hparse, hpl⟩ := hQ.parse
  have htop := topSess_live hS
  have hu := hS.solo.lt
  generalize hx0 : ({ getUser s P.u with qsNew := false } : Session) = x0 at htop
  have hx0s : XStat P x0 := by subst hx0; exact ⟨hS.x.active, hS.x.auth, hS.x.enabled, hS.x.conn, hS.x.enc, hS.x.oseq, hS.x.ofrag, hS.x.iseq, hS.x.ifrag⟩
  have hx0i : IdleImm x0 := by subst hx0; exact ⟨hi.out, hi.q, hi.qs, hi.lazy⟩
  have hx0f : Fresh P x0 k (0 + 1) := by subst hx0; exact ⟨hf.cache, hf.qmem⟩
  have hx0A : Aged P x0 k sl := by subst hx0; exact hA.congr rfl rfl rfl rfl
  have hx0P : PAged P x0 sd sp := by subst hx0; exact hPA.congr rfl rfl rfl rfl
  have hx0w : InWindow x0 sq fr := by subst hx0; exact hW
  have hx0n : x0.inpacket = (getUser s P.u).inpacket := by subst hx0; rfl
  have hx0o : x0.outpacket = (getUser s P.u).outpacket := by subst hx0; rfl
  have hx0h : x0.host = (getUser s P.u).host := by subst hx0; rfl
  have hx0q : x0.oqFilled = (getUser s P.u).oqFilled := by subst hx0; rfl
  have hx0t : x0.tunIp = (getUser s P.u).tunIp := by subst hx0; rfl
  have hx0g : x0.fragsize = (getUser s P.u).fragsize := by subst hx0; rfl
  have hda : dataASess x0 sq fr dsq dfr ((Q.name.take (min dlen 512)).drop 5) = (x0, false) := by
    unfold dataASess
    have : ackSess x0 dsq dfr = x0 := by simp [ackSess, hx0i.out]
    simp only [this, dataUpstream_dup hx0w, Bool.false_eq_true, if_false]
  have hit := iteration_data' hS.solo Q s.now dlen hP.hu (by rw [hS.td]; exact hdl) h6 hQ.c0 (hQ.ty ▸ hP.tty) hQ.id
    (admitted_entry hS Q hQ.from_)
    (by rw [htop]; exact hx0f.cacheMiss Q hQ.ty hQ.c0 hQ.c4 hk)
    (by rw [htop]; exact hx0f.qmemMiss Q hQ.ty hQ.c4 hk)
    (by rw [htop]; exact Or.inl hx0i.q) (by rw [htop]; exact Or.inl hx0i.qs)
    (by
      rw [htop, hparse]
      intro h2 _
      rw [hda] at h2
      cases h2)
  rw [htop, hparse, dataSess_imm_dup x0 P.u Q _ _ s.now hx0i hQ.id2 hx0w] at hit
  simp only at hit
  generalize hy : saveQ x0 Q s.now = y at hit
  have hyc : core y = core { x0 with q := Q, lastPkt := s.now } := by
    subst hy; unfold saveQ; rfl
  generalize hY : ({ cacheUpd (qmemUpd y Q) Q (scPkt y 0) with q := { Q with id := 0 } } : Session) = Y at hit
  have hYc : core Y = core { y with q := { Q with id := 0 } } := by
    subst hY
    have := core_memo y Q (scPkt y 0)
    unfold core at this ⊢
    simp only [Session.mk.injEq] at this ⊢
    simp [this]
  have hqs : Y.qs.id = 0 := by
    have h1 : Y.qs = y.qs := by have := core_qs hYc; exact this
    have h2 : y.qs = x0.qs := by have := core_qs hyc; exact this
    rw [h1, h2]; exact hx0i.qs
  have hsw : sweepSess Y P.u s.now = (Y, []) := by
    unfold sweepSess
    rw [if_neg (by intro hc; exact hc.2.1 hqs)]
  rw [hsw] at hit
  dsimp only at hit
  have hg : getUser { putUser s P.u Y with now := s.now } P.u = Y := by
    rw [getUser_withNow, getUser_putUser_self _ _ _ hu]
  refine ⟨_, _, _, scPkt y 0, hit, ?_, ?_, ?_, ?_, ?_⟩
  · simp only [List.append_nil, downOfEvents_append, downOfEvents_sweep, downOfEvents_writeDns _ _ _ _ hQ.from_]
  · simp only [List.append_nil, tunOfSEvents_append, tunOfSEvents_writeDns, tunOfSEvents_sweep]
  · have c1 : core Y = core { x0 with q := { Q with id := 0 }, lastPkt := s.now } := by
      rw [hYc]
      have := hyc
      unfold core at this ⊢
      simp only [Session.mk.injEq] at this ⊢
      simp [this]
    have fA : Y.active = x0.active := by have := core_active c1; exact this
    have fB : Y.authenticated = x0.authenticated := by have := core_authenticated c1; exact this
    have fC : Y.disabled = x0.disabled := by have := core_disabled c1; exact this
    have fD : Y.conn = x0.conn := by have := core_conn c1; exact this
    have fE : Y.encoder = x0.encoder := by have := core_encoder c1; exact this
    have fF : Y.outpacket = x0.outpacket := by have := core_outpacket c1; exact this
    have fG : Y.inpacket = x0.inpacket := by have := core_inpacket c1; exact this
    have fH : Y.q = { Q with id := 0 } := by have := core_q c1; exact this
    have fI : Y.qs = x0.qs := by have := core_qs c1; exact this
    have fJ : Y.lazy = x0.lazy := by have := core_lazy c1; exact this
    have fK : Y.host = x0.host := by have := core_host c1; exact this
    have fL : Y.lastPkt = s.now := by have := core_lastPkt c1; exact this
    have fQ : Y.oqFilled = x0.oqFilled := by have := core_oqFilled c1; exact this
    have fT : Y.tunIp = x0.tunIp := by have := core_tunIp c1; exact this
    have fGz : Y.fragsize = x0.fragsize := by have := core_fragsize c1; exact this
    refine ⟨?_, ?_, ?_, ?_, ?_, ?_, ?_, rfl, ?_, ?_⟩
    · refine ⟨(hS.solo.putUser Y).withNow _, hS.td, ?_, ?_, ?_⟩
      · rw [hg]
        exact ⟨fA ▸ hx0s.active, fB ▸ hx0s.auth, fC ▸ hx0s.enabled, fD ▸ hx0s.conn, fE ▸ hx0s.enc, fF ▸ hx0s.oseq, fF ▸ hx0s.ofrag,
          fG ▸ hx0s.iseq, fG ▸ hx0s.ifrag⟩
      · rw [hg, fK, hx0h]; exact hS.host
      · rw [hg, fL]; show s.now < s.now + 60; omega
    · rw [hg]
      exact ⟨fF ▸ hx0i.out, by rw [fH], fI ▸ hx0i.qs, fJ ▸ hx0i.lazy⟩
    · rw [hg, fG, hx0n]
    · rw [hg, fF, hx0o]
    · rw [hg, fQ, hx0q]
    · rw [hg, fT, hx0t]
    · rw [hg, fGz, hx0g]
    · rw [hg, fL]
    · refine ⟨y, rfl, ?_, ?_⟩
      · have : y.outpacket = x0.outpacket := by have h9 := core_outpacket hyc; exact h9
        rw [this, hx0o]
      · have : y.inpacket = x0.inpacket := by have h9 := core_inpacket hyc; exact h9
        rw [this, hx0n]
  · rw [hg]
    subst hY
    have hyA : Aged P y k sl := by
      subst hy
      exact hx0A.congr rfl rfl rfl rfl
    have := (hyA.step hk (by omega)).memo Q (scPkt y 0) (scPkt0_len y) k 1 ⟨by omega, by omega⟩ (behind_next k hk) hk hQ.c4 hQ.len5
      (by rw [hQ.c0]; have := (hexLower_facts P.u hP.hu).2.2; constructor <;> (intro hc; apply this; rw [hc]; simp))
    exact this.congr rfl rfl rfl rfl
  · rw [hg]
    subst hY
    have hyP : PAged P y sd sp := by
      subst hy
      exact hx0P.congr rfl rfl rfl rfl
    have := hyP.memo_data hP.hu Q (scPkt y 0) (scPkt0_len y) hQ.len5 hQ.c0
    exact this.congr rfl rfl rfl rfl

end Iodine.C02L
