import IodineModel.Lemmas.C02qD6
/-
C02 phase 2, downstream / immediate mode, desynchronised start — RECOVERY over a sequence of offered frames.

`recovery_after_giveups_down_imm_partial`: the server's number `d ∈ 4..7` ahead and the client's last fragment number not 0:
exactly the next `8 − d` packets are lost, then the joint state is synchronised and everything offered afterwards arrives
(`down_sequence_imm`).  PARTIAL: the other case (`inpkt.fragment = 0`: only `7 − d` packets are lost, the packet that carries
the client's own number is taken through the "weird situation" clause) is shown on a concrete run only (`C02qD5`).
-/
namespace Iodine.C02L
open Iodine Iodine.Gen Iodine.World

theorem offerAllS_append (u fuel : Nat) (a b : List (List Nat)) (w : W) :
    offerAllS u fuel w (a ++ b) = offerAllS u fuel (offerAllS u fuel w a) b := by
  induction a generalizing w with
  | nil => rfl
  | cons f fs ih => simp only [List.cons_append, offerAllS]; exact ih _

theorem dropSteps_le (g : Nat) : dropSteps g ≤ 21 := by unfold dropSteps; split <;> omega

/-- the packets that are lost, one after the other, until the numbers are equal again -/
theorem lost_run_down_imm {P : Par} (hP : P.Ok) (fuel : Nat) (hfuel : 21 ≤ fuel) :
    ∀ (lost : List (List Nat)) (w : W) (d : Nat), 4 ≤ d → d + lost.length = 8 → QuietImmD P 0 d w →
      w.cs.c.inpkt.fragment ≠ 0 → Roomy P w → w.cs.c.selecttimeout ≤ 9 → 0 < (Server.getUser w.srv P.u).fragsize →
      (∀ f ∈ lost, DownFrameOk (Server.getUser w.srv P.u).tunIp (Server.getUser w.srv P.u).fragsize f) →
      QuietImm P (offerAllS P.u fuel w lost) ∧ (offerAllS P.u fuel w lost).tunC = w.tunC ∧
      (offerAllS P.u fuel w lost).tunS = w.tunS ∧ Roomy P (offerAllS P.u fuel w lost) ∧
      (offerAllS P.u fuel w lost).cs.c.selecttimeout = w.cs.c.selecttimeout ∧
      (Server.getUser (offerAllS P.u fuel w lost).srv P.u).fragsize = (Server.getUser w.srv P.u).fragsize ∧
      (Server.getUser (offerAllS P.u fuel w lost).srv P.u).tunIp = (Server.getUser w.srv P.u).tunIp := by
  intro lost
  induction lost with
  | nil =>
    intro w d hd4 hlen hq _ _ _ _ _
    -- `d = 8`: the numbers are equal
    have hd8 : d = 8 := by simpa using hlen
    subst hd8
    have hq0 : QuietImmD P 0 0 w := by
      have hi := hq.cst.iseq
      exact ⟨hq.ph, hq.cst, hq.idleC, hq.up, hq.down, hq.srv, hq.idle, hq.oq, hq.syncu, by have := hq.syncd; omega, hq.aged, hq.paged⟩
    exact ⟨quietImmD_zero.1 hq0, rfl, rfl, by assumption, rfl, rfl, rfl⟩
  | cons f fs ih =>
    intro w d hd4 hlen hq hfr hr hsel hF hok
    have hf := hok f List.mem_cons_self
    have hlen' : d + fs.length = 7 := by simp only [List.length_cons] at hlen; omega
    by_cases h7 : d = 7
    · subst h7
      have hfs : fs = [] := List.eq_nil_of_length_eq_zero (by omega)
      subst hfs
      obtain ⟨w', h1, h2, h3, h4, h5, h6, h7', h8, h9, h10, _⟩ :=
        down_packet_imm_desync_drop7 hP hq hfr f hF hf.h24 hf.hl hf.dst hr.to hr.cli hr.srv
      have hrun : runPrompt P.u fuel (step w (.offerS f)) = w' :=
        runPrompt_of_steps P.u _ _ _ h1 h2.quiet fuel (Nat.le_trans (dropSteps_le _) hfuel)
      have ho : offerAllS P.u fuel w [f] = w' := by
        show offerAllS P.u fuel (runPrompt P.u fuel (step w (.offerS f))) [] = _
        rw [hrun]; rfl
      rw [ho]
      exact ⟨h2, h3, h4, roomy_afterD (quietImmD_zero.2 h2) h7' h8 (by rw [h9]; exact hsel) h10, h9, h5, h6⟩
    · obtain ⟨w', h1, h2, h3, h4, h5, h6, h7', h8, h9, h10, h11⟩ :=
        down_packet_imm_desync_drop hP hq ⟨hd4, by omega⟩ f hF hf.h24 hf.hl hf.dst hr.to hr.cli hr.srv
      have hrun : runPrompt P.u fuel (step w (.offerS f)) = w' :=
        runPrompt_of_steps P.u _ _ _ h1 h2.quiet fuel (Nat.le_trans (dropSteps_le _) hfuel)
      have := ih w' (d + 1) (by omega) (by omega) h2 (by rw [h11]; exact hfr)
        (roomy_afterD h2 h7' h8 (by rw [h9]; exact hsel) h10) (by rw [h9]; exact hsel) (by rw [h5]; exact hF)
        (fun g hg => by rw [h5, h6]; exact hok g (List.mem_cons_of_mem _ hg))
      have ho : offerAllS P.u fuel w (f :: fs) = offerAllS P.u fuel w' fs := by
        show offerAllS P.u fuel (runPrompt P.u fuel (step w (.offerS f))) fs = _
        rw [hrun]
      rw [ho]
      obtain ⟨a1, a2, a3, a4, a5, a6, a7⟩ := this
      exact ⟨a1, by rw [a2, h3], by rw [a3, h4], a4, by rw [a5, h9], by rw [a6, h5], by rw [a7, h6]⟩

/-- **recovery_after_giveups_down_imm_partial.**  Immediate mode, the server's downstream sequence number `d ∈ 4..7` ahead of
the client's (what `d` downstream packets given up in a row leave behind), the client's last fragment number not 0, timer room:
of the frames offered to the server one after the other (each after the joint state is quiescent again) exactly the first
`8 − d` are LOST; all the others arrive at the client's tun device exactly once and in order; the joint state is synchronised
and quiescent. -/
theorem recovery_after_giveups_down_imm_partial {P : Par} (hP : P.Ok) (fuel : Nat) (hfuel : 36 ≤ fuel)
    (lost rest : List (List Nat)) (w : W) (d : Nat) (hd : 4 ≤ d ∧ d ≤ 7) (hlen : lost.length = 8 - d)
    (hq : QuietImmD P 0 d w) (hfr : w.cs.c.inpkt.fragment ≠ 0) (hr : Roomy P w) (hsel : w.cs.c.selecttimeout ≤ 9)
    (hF : 0 < (Server.getUser w.srv P.u).fragsize)
    (hok : ∀ f ∈ lost ++ rest, DownFrameOk (Server.getUser w.srv P.u).tunIp (Server.getUser w.srv P.u).fragsize f) :
    QuietImm P (offerAllS P.u fuel w (lost ++ rest)) ∧
    (offerAllS P.u fuel w (lost ++ rest)).tunC = w.tunC ++ rest.map tunImage ∧
    (offerAllS P.u fuel w (lost ++ rest)).tunS = w.tunS := by
  obtain ⟨a1, a2, a3, a4, a5, a6, a7⟩ := lost_run_down_imm hP fuel (by omega) lost w d hd.1 (by omega) hq hfr hr hsel hF
    (fun f hf => hok f (List.mem_append_left _ hf))
  have := down_sequence_imm hP fuel hfuel rest (offerAllS P.u fuel w lost) a1 a4 (by rw [a5]; exact hsel) (by rw [a6]; exact hF)
    (fun f hf => by rw [a6, a7]; exact hok f (List.mem_append_right _ hf))
  rw [offerAllS_append]
  exact ⟨this.1, by rw [this.2.1, a2], by rw [this.2.2, a3]⟩

end Iodine.C02L
