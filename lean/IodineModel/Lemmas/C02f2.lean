import IodineModel.Lemmas.C02f
/-
Freshness of the server's duplicate memories with respect to PINGS: the client's pings carry a 16-bit counter
(`rand_seed`, incremented per ping) in their payload; the ping fingerprint memory (30 entries) and the answer cache
(4 entries) hold, of this session's pings, only ones sent at most `ring distance + slack` pings ago.  And the cross
facts: remembering a data query does not disturb the ping invariant and vice versa.
-/
namespace Iodine.C02L
open Iodine Iodine.Gen Iodine.Server
open Iodine.C16L (ringPos ringFill ringFill_lt ring_push_zero ring_push_succ)

/-- an irrelevant entry is pushed: the slack is kept -/
theorem RingAged.push_irrel {α : Type} {L : Nat} {mem : List α} {last : Nat} {d : α} {Rel : α → Nat → Prop} {k M sl : Nat}
    (h : RingAged L mem last d Rel k M sl) (hlen : mem.length = L) (hlast : last < L) (v : α) (hv : ∀ c, ¬ Rel v c) :
    RingAged L (mem.set (ringFill L last) v) (ringFill L last) d Rel k M sl := by
  have hL : 0 < L := by omega
  intro i hi c hc
  cases i with
  | zero =>
    rw [ring_push_zero mem L last hlen hL] at hc
    exact absurd hc (hv c)
  | succ j =>
    rw [ring_push_succ mem L last j hlast hi] at hc
    obtain ⟨a, h1, h2, h3⟩ := h j (by omega) c hc
    exact ⟨a, h1, by omega, h3⟩

/-- the ping counter a ping name carries (as the server's `handlePing` unpacks it); 65536 for a name outside the domain -/
def seedOfName (td name : List Nat) : Nat :=
  match Common.queryDatalen name td with
  | some dlen =>
    let p := Encoding.unpackData Codec.b32 65536 ((name.take (min dlen 512)).drop 1)
    p.getD 2 0 * 256 + p.getD 3 0
  | none => 65536

/-- relevance of a `qmemping` entry: right type, ping counter `c` -/
def PQRel (P : Par) (e : QmemEntry) (c : Nat) : Prop :=
  e.type = P.ty ∧ c < 65536 ∧ e.cmc.getD 2 0 = c / 256 ∧ e.cmc.getD 3 0 = c % 256

/-- relevance of a `dnscache` entry: right type, a ping, ping counter `c` -/
def PCRel (P : Par) (e : DnsCacheEntry) (c : Nat) : Prop :=
  e.q.type = P.ty ∧ e.q.name.getD 0 0 = 112 ∧ c < 65536 ∧ seedOfName P.td e.q.name = c

/-- the memories of the slot are aged with respect to the ping counter value `k`, with slack `sl` -/
structure PAged (P : Par) (x : Session) (k sl : Nat) : Prop where
  plen : x.qmemping.length = QMEMPING_LEN
  plast : x.qmempingLast < QMEMPING_LEN
  clen : x.dnscache.length = DNSCACHE_LEN
  clast : x.dcLast < DNSCACHE_LEN
  pq : RingAged QMEMPING_LEN x.qmemping x.qmempingLast QmemEntry.zero (PQRel P) k 65536 sl
  pc : RingAged DNSCACHE_LEN x.dnscache x.dcLast DnsCacheEntry.zero (PCRel P) k 65536 sl

theorem PAged.congr {P : Par} {x y : Session} {k sl : Nat} (h : PAged P x k sl) (h1 : y.qmemping = x.qmemping)
    (h2 : y.qmempingLast = x.qmempingLast) (h3 : y.dnscache = x.dnscache) (h4 : y.dcLast = x.dcLast) : PAged P y k sl := by
  refine ⟨h1 ▸ h.plen, h2 ▸ h.plast, h3 ▸ h.clen, h4 ▸ h.clast, ?_, ?_⟩
  · rw [h1, h2]; exact h.pq
  · rw [h3, h4]; exact h.pc

theorem PAged.mono {P : Par} {x : Session} {k sl sl' : Nat} (h : PAged P x k sl) (hs : sl ≤ sl') : PAged P x k sl' :=
  ⟨h.plen, h.plast, h.clen, h.clast, h.pq.mono hs, h.pc.mono hs⟩

/-- the client sent a ping (its counter advanced) -/
theorem PAged.step {P : Par} {x : Session} {k sl : Nat} (h : PAged P x k sl) (hk : k < 65536) (hsl : sl ≤ 1000) :
    PAged P x ((k + 1) % 65536) (sl + 1) := by
  have e : nxt 65536 k = (k + 1) % 65536 := by unfold nxt; split <;> omega
  rw [← e]
  exact ⟨h.plen, h.plast, h.clen, h.clast, h.pq.step hk (by simp [QMEMPING_LEN]; omega), h.pc.step hk (by simp [DNSCACHE_LEN]; omega)⟩

/-- the ping with counter `k` is in neither memory -/
theorem PAged.cacheMiss {P : Par} {x : Session} {k sl : Nat} (h : PAged P x k sl) (hk : k < 65536) (hsl : sl ≤ 1000) (q : Query)
    (hty : q.type = P.ty) (h0 : q.name.getD 0 0 = 112) (hs : seedOfName P.td q.name = k) : CacheMiss x q := by
  intro e he ⟨_, _, h3, h4⟩
  exact h.pc.miss h.clen h.clast (by simp [DNSCACHE_LEN]; omega) e he ⟨h3.trans hty, by rw [h4]; exact h0, hk, by rw [h4]; exact hs⟩

theorem PAged.qmemMiss {P : Par} {x : Session} {k sl : Nat} (h : PAged P x k sl) (hk : k < 65536) (hsl : sl ≤ 1000) (q : Query)
    (hty : q.type = P.ty) (cmc : List Nat) (h2 : cmc.getD 2 0 = k / 256) (h3 : cmc.getD 3 0 = k % 256) :
    ∀ e ∈ x.qmemping, ¬ (e.type ≠ T_UNSET ∧ e.type = q.type ∧ e.cmc = cmc) := by
  intro e he ⟨_, h5, h6⟩
  exact h.pq.miss h.plen h.plast (by simp [QMEMPING_LEN]; omega) e he ⟨h5.trans hty, hk, by rw [h6]; exact h2, by rw [h6]; exact h3⟩

/-- what `qmemUpd` does for a data query / a ping -/
theorem qmemUpd_data (x : Session) (q : Query) (h5 : 5 ≤ q.name.length) (h0 : q.name.getD 0 0 ≠ 80 ∧ q.name.getD 0 0 ≠ 112) :
    qmemUpd x q = { x with
      qmemdata := x.qmemdata.set (ringFill QMEMDATA_LEN x.qmemdataLast) ⟨dataCmc q.name, q.type⟩,
      qmemdataLast := ringFill QMEMDATA_LEN x.qmemdataLast } := by
  unfold qmemUpd
  simp only
  rw [if_neg (by intro hc; rcases hc with hc | hc; exact h0.1 hc; exact h0.2 hc), if_neg (by omega)]
  rfl

theorem qmemUpd_ping (x : Session) (q : Query) (h0 : q.name.getD 0 0 = 112) (cp : Nat) (hcp : q.name.idxOf? 46 = some cp)
    (hl : 4 ≤ (Codec.dec Codec.b32 8 (cp - 1) (q.name.drop 1)).length) :
    qmemUpd x q = { x with
      qmemping := x.qmemping.set (ringFill QMEMPING_LEN x.qmempingLast) ⟨(Codec.dec Codec.b32 8 (cp - 1) (q.name.drop 1)).take 4, q.type⟩,
      qmempingLast := ringFill QMEMPING_LEN x.qmempingLast } := by
  unfold qmemUpd
  simp only
  rw [if_pos (Or.inr h0), hcp]
  simp only
  rw [if_neg (by omega)]
  rfl

theorem cacheUpd_eq (y : Session) (q : Query) (ans : List Nat) (hans : ans.length ≤ DNSCACHE_ANSWER_SIZE) :
    cacheUpd y q ans = { y with
      dnscache := y.dnscache.set (ringFill DNSCACHE_LEN y.dcLast) ⟨q, ans, ans.length⟩,
      dcLast := ringFill DNSCACHE_LEN y.dcLast } := by
  unfold cacheUpd
  rw [if_neg (by omega)]
  rfl

/-- remembering the answer to a DATA query keeps the ping invariant -/
theorem PAged.memo_data {P : Par} (hu : P.u < 16) {x : Session} {k sl : Nat} (h : PAged P x k sl) (q : Query) (ans : List Nat)
    (hans : ans.length ≤ DNSCACHE_ANSWER_SIZE) (h5 : 5 ≤ q.name.length) (h0 : q.name.getD 0 0 = hexLower P.u) :
    PAged P (cacheUpd (qmemUpd x q) q ans) k sl := by
  have hne : hexLower P.u ≠ 80 ∧ hexLower P.u ≠ 112 := by
    have := (hexLower_facts P.u hu).2.2
    constructor <;> (intro hc; apply this; rw [hc]; simp)
  rw [cacheUpd_eq _ _ _ hans, qmemUpd_data x q h5 (by rw [h0]; exact hne)]
  refine ⟨h.plen, h.plast, by simp [h.clen], ringFill_lt _ _ (by decide), h.pq, ?_⟩
  apply h.pc.push_irrel h.clen h.clast
  intro c ⟨_, hc, _⟩
  simp only at hc
  rw [h0] at hc
  exact hne.2 hc

/-- remembering the answer to a PING keeps the data invariant -/
theorem Aged.memo_ping {P : Par} (hu : P.u < 16) {x : Session} {k sl : Nat} (h : Aged P x k sl) (q : Query) (ans : List Nat)
    (hans : ans.length ≤ DNSCACHE_ANSWER_SIZE) (h0 : q.name.getD 0 0 = 112) (cp : Nat) (hcp : q.name.idxOf? 46 = some cp)
    (hl : 4 ≤ (Codec.dec Codec.b32 8 (cp - 1) (q.name.drop 1)).length) :
    Aged P (cacheUpd (qmemUpd x q) q ans) k sl := by
  have hne : hexLower P.u ≠ 112 := by
    have := (hexLower_facts P.u hu).2.2
    intro hc; apply this; rw [hc]; simp
  rw [cacheUpd_eq _ _ _ hans, qmemUpd_ping x q h0 cp hcp hl]
  refine ⟨h.qlen, h.qlast, by simp [h.clen], ringFill_lt _ _ (by decide), h.qmem, ?_⟩
  apply h.cache.push_irrel h.clen h.clast
  intro c ⟨_, hc, _⟩
  simp only at hc
  rw [h0] at hc
  exact hne hc.symm

/-- The answer to a ping with counter value `k0`, which is `a0` steps behind the client's current value `k`, is remembered. -/
theorem PAged.memo {P : Par} {x : Session} {k sl : Nat} (h : PAged P x k (sl + 1)) (q : Query) (ans : List Nat)
    (hans : ans.length ≤ DNSCACHE_ANSWER_SIZE) (k0 a0 : Nat) (ha : 1 ≤ a0 ∧ a0 ≤ sl) (hb : Behind 65536 k k0 a0)
    (h0 : q.name.getD 0 0 = 112) (cp : Nat) (hcp : q.name.idxOf? 46 = some cp)
    (hl : 4 ≤ (Codec.dec Codec.b32 8 (cp - 1) (q.name.drop 1)).length)
    (hq2 : ((Codec.dec Codec.b32 8 (cp - 1) (q.name.drop 1)).take 4).getD 2 0 = k0 / 256)
    (hq3 : ((Codec.dec Codec.b32 8 (cp - 1) (q.name.drop 1)).take 4).getD 3 0 = k0 % 256)
    (hs : seedOfName P.td q.name = k0) :
    PAged P (cacheUpd (qmemUpd x q) q ans) k sl := by
  rw [cacheUpd_eq _ _ _ hans, qmemUpd_ping x q h0 cp hcp hl]
  refine ⟨by simp [h.plen], ringFill_lt _ _ (by decide), by simp [h.clen], ringFill_lt _ _ (by decide), ?_, ?_⟩
  · apply h.pq.push h.plen h.plast
    intro c ⟨_, hc, h2, h3⟩
    simp only at h2 h3
    rw [hq2] at h2
    rw [hq3] at h3
    have hk0 : k0 < 65536 := hb.1
    have : c = k0 := by omega
    subst this
    exact ⟨a0, ha.1, ha.2, hb⟩
  · apply h.pc.push h.clen h.clast
    intro c ⟨_, _, _, hc⟩
    simp only at hc
    rw [hs] at hc
    subst hc
    exact ⟨a0, ha.1, ha.2, hb⟩

end Iodine.C02L
