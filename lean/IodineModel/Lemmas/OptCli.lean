import IodineModel.Client.Options
import IodineModel.Lemmas.OptSrv
/-
Helper lemmas about the model of iodine.c's `main()` (Client/Options.lean): the invariant of the option loop, and what has been
established when `client_handshake()` is called.
-/
namespace Iodine.OptL
open Iodine Iodine.Getopt Iodine.Client.Options

theorem clamp_bounds (lo hi x : Int) (h : lo ≤ hi) : lo ≤ clamp lo hi x ∧ clamp lo hi x ≤ hi := by
  unfold clamp; split <;> (try split) <;> omega

theorem setQtype_cases (cur : Nat) (a : List Nat) :
    setQtype cur a ∈ [10, 65399, 16, 33, 15, 5, 1] ∨ setQtype cur a = cur := by
  unfold setQtype
  repeat' split
  all_goals first | (left; decide) | (right; rfl)

theorem setDownenc_cases (cur : Nat) (a : List Nat) :
    setDownenc cur a ∈ [32, 84, 83, 85, 86, 82] ∨ setDownenc cur a = cur := by
  unfold setDownenc
  repeat' split
  all_goals first | (left; decide) | (right; rfl)

/-- invariant of the client's option loop -/
structure CInv (o : Opts) (prev : Option (List Nat)) : Prop where
  pw : o.password = blk prev
  ml : 10 ≤ o.hostnameMaxlen ∧ o.hostnameMaxlen ≤ 255
  qt : o.doQtype ∈ [10, 65399, 16, 33, 15, 5, 1] ∨ o.doQtype = 65432
  dn : o.downenc ∈ [32, 84, 83, 85, 86, 82]
  sel : 1 ≤ o.selecttimeout ∧ o.selecttimeout < 2 ^ 31
  lazy : o.lazymode = 0 ∨ o.lazymode = 1

theorem cinv_init : CInv {} none := ⟨rfl, by decide, Or.inr rfl, by decide, by decide, Or.inr rfl⟩

theorem cli_optStep_inv (o o' : Opts) (x : Opt) (prev : Option (List Nat)) (hi : CInv o prev)
    (h : optStep o x = .ok o') : CInv o' (nextP x prev) := by
  obtain ⟨hpw, hml, hqt, hdn, hsel, hlazy⟩ := hi
  unfold optStep at h
  split at h
  all_goals try (dsimp only at h)
  all_goals try (split at h)
  all_goals try (simp at h; done)
  all_goals (simp only [Except.ok.injEq] at h; subst h; refine ⟨?_, ?_, ?_, ?_, ?_, ?_⟩)
  all_goals try (simp [nextP]; exact hpw)
  all_goals try exact hml
  all_goals try exact hqt
  all_goals try exact hdn
  all_goals try exact hsel
  all_goals try exact hlazy
  all_goals try (exact clamp_bounds 10 255 _ (by decide))
  all_goals try (simp only [nextP]; rw [strncpy_set _ _ (by rw [hpw, blk_length])]; rfl)
  all_goals
    have a1 := atoi_lt ‹List Nat›
    have c1 := clamp_bounds 0 1 (atoi ‹List Nat›) (by decide)
    have q1 := setQtype_cases o.doQtype ‹List Nat›
    have d1 := setDownenc_cases o.downenc ‹List Nat›
    dsimp only
    first
      | omega
      | (split <;> omega)
      | (rcases q1 with q1 | q1
         · exact Or.inl q1
         · rw [q1]; exact hqt)
      | (rcases d1 with d1 | d1
         · exact d1
         · rw [d1]; exact hdn)

theorem cli_optLoop_inv : ∀ (xs : List Opt) (o o' : Opts) (prev : Option (List Nat)), CInv o prev →
    optLoop o xs = .ok o' → CInv o' (lastPFrom xs prev)
  | [], o, o', prev, hi, h => by
    simp only [optLoop, Except.ok.injEq] at h; subst h; exact hi
  | x :: xs, o, o', prev, hi, h => by
    simp only [optLoop] at h
    split at h
    · exact absurd h (by simp)
    · rename_i o1 h1
      rw [lastPFrom_cons]
      exact cli_optLoop_inv xs o1 o' _ (cli_optStep_inv o o1 x prev hi h1) h

theorem cli_startup_final (env : Env) (o : Opts) (uid : Option Nat) (fin f : Final) (evs : List Ev)
    (h : (startup env o uid fin evs).final = some f) : f = fin := by
  unfold startup at h
  simp only at h
  repeat' split at h
  all_goals try (simp at h; done)
  all_goals (simp only [Option.some.injEq] at h; exact h.symm)

/-- what has been checked when `client_handshake()` is called -/
theorem afterOpts_final (env : Env) (o : Opts) (rest : List (List Nat)) (f : Final) (h : (afterOpts env o rest).final = some f) :
    ∃ td fam ip, f = finalOf env o td (passwordPhase env.envPass env.typed o.password).1 fam ip ∧
      Common.checkTopdomain td false = 0 ∧ 1 ≤ o.fragsize ∧ o.fragsize ≤ 65535 := by
  unfold afterOpts at h
  simp only at h
  repeat' split at h
  all_goals try (simp [usage] at h; done)
  all_goals
    have := cli_startup_final _ _ _ _ _ _ h
    refine ⟨_, _, _, this, by omega, by omega, by omega⟩

theorem clientMain_final (env : Env) (argv : List (List Nat)) (f : Final) (h : (clientMain env argv).final = some f) :
    ∃ o td fam ip, optLoop {} (getoptAll optstring argv).1 = .ok o ∧
      f = finalOf env o td (passwordPhase env.envPass env.typed o.password).1 fam ip ∧
      Common.checkTopdomain td false = 0 ∧ 1 ≤ o.fragsize ∧ o.fragsize ≤ 65535 := by
  unfold clientMain at h
  simp only at h
  split at h
  · simp at h
  · rename_i o ho
    obtain ⟨td, fam, ip, h1, h2, h3, h4⟩ := afterOpts_final env o _ f h
    exact ⟨o, td, fam, ip, ho, h1, h2, h3, h4⟩

theorem cli_startup_run (env : Env) (o : Opts) (uid : Option Nat) (fin : Final) (evs : List Ev) (c : Int)
    (h : (startup env o uid fin evs).outcome = .run c) : (startup env o uid fin evs).final = some fin := by
  unfold startup at h ⊢
  simp only at h ⊢
  repeat' split
  all_goals simp_all

theorem afterOpts_run (env : Env) (o : Opts) (rest : List (List Nat)) (c : Int) :
    ∀ r, r = afterOpts env o rest → r.outcome = .run c → ∃ f, r.final = some f := by
  intro r hr h
  unfold afterOpts at hr
  simp only at hr
  repeat' split at hr
  all_goals subst hr
  all_goals try (simp [usage] at h; done)
  all_goals exact ⟨_, cli_startup_run _ _ _ _ _ c h⟩

/-- `client_handshake()` is entered only with the statics set -/
theorem clientMain_run (env : Env) (argv : List (List Nat)) (c : Int) (h : (clientMain env argv).outcome = .run c) :
    ∃ f, (clientMain env argv).final = some f := by
  unfold clientMain at h ⊢
  simp only at h ⊢
  split
  · rename_i e he
    rw [he] at h
    cases e <;> simp [Exit.toOutcome] at h
  · rename_i o ho
    rw [ho] at h
    exact afterOpts_run env o _ c _ rfl h

end Iodine.OptL
