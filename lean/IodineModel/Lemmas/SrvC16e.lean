import IodineModel.Lemmas.SrvC16d
/-
Helper lemmas for C16, part e: the invariant through `tunnel_tun`, `handle_full_packet` and the handlers of
`handle_null_request`.
-/
namespace Iodine.C16L
open Iodine Iodine.Server Iodine.Gen

variable {td : List Nat} {u : Nat} {inp : Input}

theorem step_one {s s' : Srv} {e : Event} (h : Same u s s') (he : isChunk u e = false) :
    Keeps td u inp s (s', [e]) :=
  step_quiet h (by intro e' h'; simp only [List.mem_singleton] at h'; subst h'; exact he)

theorem step_none {s s' : Srv} (h : Same u s s') : Keeps td u inp s (s', []) :=
  step_quiet h (by intro e' h'; simp at h')

theorem step_sendWaiting (s : Srv) (v : Nat) : Keeps td u inp s (sendWaiting s v) := by
  unfold sendWaiting
  simp only []
  split
  · rename_i h; exact step_sendChunk s v .qs (fun _ => h)
  · split
    · rename_i h; exact step_sendChunk s v .q (fun _ => h)
    · exact step_refl s

theorem step_tunnelTun (s : Srv) (frame : List Nat) : Keeps td u inp s (tunnelTun s frame) := by
  unfold tunnelTun
  split
  · exact step_refl s
  · split
    · exact step_refl s
    · split
      · exact step_refl s
      · rename_i v _
        simp only []
        split
        · split
          · exact step_none (same_saveToOutpacketq u s v _ _)
          · exact step_pre (same_startNewOutpacket u s v _ _) (step_sendWaiting _ v)
        · exact step_one (Same.refl u s) rfl

theorem step_deliverToUser (s : Srv) (t : Nat) (d : List Nat) (n : Nat) :
    Keeps td u inp s (deliverToUser s t d n) := by
  unfold deliverToUser
  simp only []
  split
  · split
    · exact step_pre (same_startNewOutpacket u s t _ _) (step_sendWaiting _ t)
    · exact step_none (same_saveToOutpacketq u s t _ _)
  · exact step_one (Same.refl u s) rfl

theorem step_handleFullPacket (s : Srv) (v : Nat) : Keeps td u inp s (handleFullPacket s v) := by
  unfold handleFullPacket
  simp only []
  refine step_post ?_ (same_setUser u v _ _ (fun _ => rfl))
  split
  · split
    · split
      · exact step_one (Same.refl u s) rfl
      · exact step_deliverToUser s _ _ _
    · exact step_refl s
  · exact step_refl s

theorem same_setUser2 (u v v' : Nat) (s : Srv) (g1 g2 : Session → Session) (h1 : ∀ x, memOf (g1 x) = memOf x)
    (h2 : ∀ x, memOf (g2 x) = memOf x) : Same u s (setUser (setUser s v g1) v' g2) :=
  Same.trans (same_setUser u v s g1 h1) (same_setUser u v' _ g2 h2)

/-! ### the checks only pass for a non-negative user id -/

theorem checkUserAndIp_nonneg {s : Srv} {i : Int} {q : Query} (h : checkUserAndIp s i q = false) : 0 ≤ i := by
  unfold checkUserAndIp at h
  split at h
  · cases h
  · rename_i h1; omega

theorem checkAuth_nonneg {s : Srv} {i : Int} {q : Query} (h : checkAuthenticatedUserAndIp s i q = false) :
    0 ≤ i := by
  unfold checkAuthenticatedUserAndIp at h
  split at h
  · cases h
  · rename_i h1; exact checkUserAndIp_nonneg (by simpa using h1)

theorem checkAuthOpt_nonneg {s : Srv} {i : Int} {q : Query}
    (h : checkAuthenticatedUserAndIpAndOptions s i q = false) : 0 ≤ i := by
  unfold checkAuthenticatedUserAndIpAndOptions at h
  simp only [] at h
  split at h
  · exact checkAuth_nonneg h
  · rename_i h1
    simp only [Bool.or_eq_true, not_or, Bool.not_eq_true] at h1
    exact checkAuth_nonneg h1.1

/-! ### handshake and option handlers -/

theorem findAvail_some {s s1 : Srv} {a : Nat} (h : findAvailableUser s = (some a, s1)) :
    s1 = setUser s a (claim s.now) := by
  unfold findAvailableUser at h
  split at h
  · simp only [Prod.mk.injEq, Option.some.injEq] at h
    obtain ⟨h1, h2⟩ := h
    subst h1; exact h2.symm
  · simp at h

theorem findAvail_none {s s1 : Srv} (h : findAvailableUser s = (none, s1)) : s1 = s := by
  unfold findAvailableUser at h
  split at h
  · simp at h
  · simp only [Prod.mk.injEq, true_and] at h
    exact h.symm

theorem ascii_vack : ascii "VACK" = [86, 65, 67, 75] := by decide

theorem isVack_ack (s : Srv) (seed a : Nat) (q : Query) :
    isVack a (sendVersionResponse s .ack seed a q) = true := by
  simp [sendVersionResponse, writeDns, isVack, ascii_vack, beBytes]

theorem monEvents_vack (td : List Nat) (u : Nat) (inp : Input) (m : Mon) (e : Event) (h : isVack u e = true) :
    monEvents td u inp m [e] = Mon.empty := by
  simp [monEvents, monStep, h]

theorem inv_reset {m : Mon} {x : Session} (h : Inv m x) : Inv Mon.empty (resetSession x) := by
  obtain ⟨⟨a1, a2, _⟩, ⟨b1, b2, _⟩, ⟨c1, c2, _⟩⟩ := h
  refine ⟨⟨?_, ?_, ?_⟩, ⟨?_, ?_, ?_⟩, ⟨?_, ?_, ?_⟩⟩
  · simp [resetSession, clearDnscache, a1]
  · simp [resetSession, DNSCACHE_LEN]
  · intro i _ n t p hh; simp [Mon.empty] at hh
  · simp [resetSession, b1]
  · simp [resetSession, QMEMPING_LEN]
  · intro i _ c t hh; simp [Mon.empty] at hh
  · simp [resetSession, c1]
  · simp [resetSession, QMEMDATA_LEN]
  · intro i _ c t hh; simp [Mon.empty] at hh

theorem K_reset {u : Nat} {m : Mon} {s : Srv} (h : K u m s) : K u Mon.empty (setUser s u resetSession) := by
  obtain ⟨hb, hi⟩ := h
  refine ⟨by rw [setUser_length]; exact hb, ?_⟩
  rw [getUser_setUser_same _ _ _ hb]
  exact inv_reset hi

theorem step_handleVersion (s : Srv) (q : Query) (inb : List Nat) :
    Keeps td u inp s (handleVersion s q inb) := by
  unfold handleVersion
  extract_lets unpacked version
  split
  · split
    · rename_i a s1 heq
      have hs1 := findAvail_some heq
      subst hs1
      by_cases ha : a = u
      · subst ha
        have hsame : Same a s (setUser (popRand (setUser s a (claim s.now))).2 a fun x =>
            { x with seed := (popRand (setUser s a (claim s.now))).1, host := q.from_, q := q,
                     encoder := .b32, downenc := chT }) := by
          refine Same.trans ?_ (same_setUser a a _ _ (fun _ => rfl))
          refine Same.trans ?_ (same_popRand a _)
          exact same_setUser a a s _ (fun _ => rfl)
        refine ⟨(setUser_length _ _ _).trans hsame.1, ?_⟩
        intro m hk
        show K a (monEvents td a inp m [_]) _
        rw [monEvents_vack td a inp m _ (isVack_ack _ _ a q)]
        exact K_reset (m := m) (K_same hsame hk)
      · have hne : u ≠ a := fun e => ha e.symm
        refine step_one ?_ rfl
        refine Same.trans ?_ (same_setUser_ne u a _ _ hne)
        refine Same.trans ?_ (same_setUser_ne u a _ _ hne)
        refine Same.trans ?_ (same_popRand u _)
        exact same_setUser_ne u a s _ hne
    · rename_i s1 heq
      have := findAvail_none heq
      subst this
      exact step_one (Same.refl u _) rfl
  · exact step_one (Same.refl u _) rfl

theorem step_handleLogin (s : Srv) (q : Query) (inb : List Nat) : Keeps td u inp s (handleLogin s q inb) := by
  unfold handleLogin
  simp only []
  split
  · exact step_one (Same.refl u _) rfl
  · split
    · exact step_one (Same.refl u _) rfl
    · split
      · exact step_one (same_setUser2 u _ _ s _ _ (fun _ => rfl) (fun _ => rfl)) rfl
      · exact step_one (same_setUser u _ s _ (fun _ => rfl)) rfl

theorem step_handleIp (s : Srv) (q : Query) (inb : List Nat) : Keeps td u inp s (handleIp s q inb) := by
  unfold handleIp
  simp only []
  split
  · exact step_one (Same.refl u _) rfl
  · exact step_one (Same.refl u _) rfl

theorem step_handleZ (s : Srv) (q : Query) (inb : List Nat) : Keeps td u inp s (handleZ s q inb) :=
  step_one (Same.refl u _) rfl

theorem step_handleSwitchCodec (s : Srv) (q : Query) (dlen : Nat) (inb : List Nat) :
    Keeps td u inp s (handleSwitchCodec s q dlen inb) := by
  unfold handleSwitchCodec
  simp only []
  split
  · exact step_one (Same.refl u _) rfl
  · split
    · exact step_one (Same.refl u _) rfl
    · split
      · exact step_one (same_userSwitchCodec u s _ _) rfl
      · split
        · exact step_one (same_userSwitchCodec u s _ _) rfl
        · split
          · exact step_one (same_userSwitchCodec u s _ _) rfl
          · split
            · exact step_one (same_userSwitchCodec u s _ _) rfl
            · exact step_one (Same.refl u _) rfl

theorem step_handleOptions (s : Srv) (q : Query) (dlen : Nat) (inb : List Nat) :
    Keeps td u inp s (handleOptions s q dlen inb) := by
  unfold handleOptions
  split
  · exact step_one (Same.refl u _) rfl
  · extract_lets userid v c setDn setLazy
    split
    · exact step_one (Same.refl u _) rfl
    · simp only [setDn, setLazy]
      repeat' split
      all_goals first
        | exact step_one (Same.refl u _) rfl
        | exact step_one (same_setUser u _ s _ (fun _ => rfl)) rfl

theorem step_handleDownCodecCheck (s : Srv) (q : Query) (dlen : Nat) (inb : List Nat) :
    Keeps td u inp s (handleDownCodecCheck s q dlen inb) := by
  unfold handleDownCodecCheck
  split
  · exact step_one (Same.refl u _) rfl
  · split
    · exact step_one (Same.refl u _) rfl
    · simp only []
      split
      · exact step_one (Same.refl u _) rfl
      · exact step_one (Same.refl u _) rfl

theorem step_handleFragsizeProbe (s : Srv) (q : Query) (dlen : Nat) (inb : List Nat) :
    Keeps td u inp s (handleFragsizeProbe s q dlen inb) := by
  unfold handleFragsizeProbe
  simp only []
  split
  · exact step_one (Same.refl u _) rfl
  · split
    · exact step_one (Same.refl u _) rfl
    · split
      · exact step_one (Same.refl u _) rfl
      · exact step_one (same_popRand u s) rfl

/-! ### `N` -/

theorem inv_clear {m : Mon} {x : Session} (f : Nat) (h : Inv m x) :
    Inv { m with cache := [] }
      { x with fragsize := f, optionsLocked := true, dnscache := clearDnscache x.dnscache } := by
  obtain ⟨⟨a1, a2, _⟩, hb, hc⟩ := h
  refine ⟨⟨?_, a2, ?_⟩, hb, hc⟩
  · simp [clearDnscache, a1]
  · intro i _ n t p hh; simp at hh

theorem step_handleSetFragsize (s : Srv) (q : Query) (dlen : Nat)
    (hd : Common.queryDatalen q.name td = some dlen) (hc : q.name.getD 0 0 = 78 ∨ q.name.getD 0 0 = 110) :
    Keeps td u (.q q) s (handleSetFragsize s q (q.name.take (min dlen 512))) := by
  unfold handleSetFragsize
  simp only []
  split
  · exact step_one (Same.refl u _) rfl
  · rename_i hlen
    split
    · exact step_one (Same.refl u _) rfl
    · rename_i hchk
      split
      · exact step_one (Same.refl u _) rfl
      · generalize hun : Encoding.unpackData Codec.b32 65536 ((q.name.take (min dlen 512)).drop 1) = unpacked
          at hlen hchk ⊢
        by_cases hv : (charVal (unpacked.getD 0 0)).toNat = u
        · have hnn : 0 ≤ charVal (unpacked.getD 0 0) := checkAuthOpt_nonneg (by simpa using hchk)
          have hnu : nUser td q = (u : Int) := by
            unfold nUser
            rw [hd]
            simp only [Option.getD_some]
            rw [hun]
            omega
          rw [hv]
          refine ⟨setUser_length _ _ _, ?_⟩
          intro m hk
          have hk' : K u { m with cache := [] } (setUser s u fun x =>
              { x with fragsize := (unpacked.getD 1 0 % 256) * 256 + unpacked.getD 2 0 % 256,
                       optionsLocked := true, dnscache := clearDnscache x.dnscache }) := by
            obtain ⟨hb, hi⟩ := hk
            refine ⟨by rw [setUser_length]; exact hb, ?_⟩
            rw [getUser_setUser_same _ _ _ hb]
            exact inv_clear _ hi
          show K u (monEvents td u (.q q) m [_]) _
          have hnack : isNack td u (.q q) (writeDns q ((unpacked.drop 1).take 2) (getUser s u).downenc) = true := by
            have hl : ((unpacked.drop 1).take 2).length = 2 := by
              simp only [List.length_take, List.length_drop]; omega
            simp only [isNack, writeDns, hl, hnu, beq_self_eq_true, Bool.and_true, Bool.or_eq_true, beq_iff_eq]
            exact hc
          by_cases hva : isVack u (writeDns q ((unpacked.drop 1).take 2) (getUser s u).downenc) = true
          · rw [monEvents_vack td u _ m _ hva]
            exact K_le ⟨Or.inr rfl, Or.inr rfl, Or.inr rfl⟩ hk'
          · have : monEvents td u (.q q) m [writeDns q ((unpacked.drop 1).take 2) (getUser s u).downenc]
                = { m with cache := [] } := by
              simp only [monEvents, List.foldl, monStep]
              rw [if_neg hva, if_pos hnack]
            rw [this]
            exact hk'
        · exact step_one (same_setUser_ne u _ s _ (fun e => hv e.symm)) rfl

end Iodine.C16L
