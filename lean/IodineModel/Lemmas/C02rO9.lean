import IodineModel.Lemmas.C02rO8
import IodineModel.Props.C02
/-
C02 / OVERLAPPING transfers, lazy mode — `clean_path_two_simultaneous_offers_lazy` in the vocabulary of `Props/C02.lean`, and
non-vacuity of `overlap_lazy` and of the three endings on the lazy demo session `exWL` (`C02L10.lean`).
-/
namespace Iodine.C02L
open Iodine Iodine.Gen Iodine.World

/-- **clean_path_two_simultaneous_offers_lazy** (in the vocabulary of `Props/C02.lean`).  Lazy mode, a quiescent joint state:
a frame is offered on EACH side before anything is delivered, in either order.  Both orders give the same joint state; the
prompt schedule, given enough fuel, makes exactly `n` steps from it and stops in a quiescent state in which the server's tun
device has received exactly `fu` and the client's exactly `fd` (each once).  For every pair of acceptable frames (at most 16
fragments each way), every fragment size `≥ 1`. -/
theorem clean_path_two_simultaneous_offers_lazy {P : Par} (hP : C02.Params P) {w : W} (hq : C02.QuiescentLazy P w)
    (fu fd : List Nat) (hu : C02.AcceptableUp P (Server.getUser w.srv P.u).tunIp fu)
    (hd : C02.AcceptableDown (Server.getUser w.srv P.u).tunIp (Server.getUser w.srv P.u).fragsize fd)
    (hF : 0 < (Server.getUser w.srv P.u).fragsize) :
    ∃ n w', (∀ fuel, n ≤ fuel → runPromptCount P.u fuel (step (step w (.offerC fu)) (.offerS fd)) 0 = (w', n)) ∧
      (∀ fuel, n ≤ fuel → runPromptCount P.u fuel (step (step w (.offerS fd)) (.offerC fu)) 0 = (w', n)) ∧
      (∀ fuel, n ≤ fuel → runPrompt P.u fuel (step (step w (.offerC fu)) (.offerS fd)) = w') ∧
      (∀ fuel, n ≤ fuel → runPrompt P.u fuel (step (step w (.offerS fd)) (.offerC fu)) = w') ∧
      C02.QuiescentLazy P w' ∧ w'.tunS = w.tunS ++ [tunImage fu] ∧ w'.tunC = w.tunC ++ [tunImage fd] :=
  overlap_lazy_run hP hq fu fd hu hd hF

/-! ### non-vacuity on `exWL` (upstream fragments of 54 bytes, downstream fragments of 30 bytes) -/

theorem exWL_tun_emptyrO : exWL.tunS = [] ∧ exWL.tunC = [] := by decide +kernel

/-- 2 × 2 fragments (ending E3): the theorem applied -/
example : ∃ n w', runPrompt 0 n (step (step exWL (.offerC (demoFrame 9 30))) (.offerS (demoFrame 2 30))) = w' ∧
    runPrompt 0 n (step (step exWL (.offerS (demoFrame 2 30))) (.offerC (demoFrame 9 30))) = w' ∧
    QuietLazy exPL w' ∧ w'.tunS = [demoFrame 9 30] ∧ w'.tunC = [demoFrame 2 30] := by
  obtain ⟨n, w', _, _, h3, h4, h5, h6, h7⟩ := clean_path_two_simultaneous_offers_lazy exPL_ok ex_quiescent_lazy
    (demoFrame 9 30) (demoFrame 2 30) ex_acceptable_lazy.1 ex_acceptable_down_lazy.1 (by rw [exWL_fragsize]; decide)
  refine ⟨n, w', h3 n (Nat.le_refl _), h4 n (Nat.le_refl _), h5, ?_, ?_⟩
  · rw [h6, exWL_tun_emptyrO.1]; decide
  · rw [h7, exWL_tun_emptyrO.2]; decide

theorem ex_up100rO : UpFrameOk exPL (Server.getUser exWL.srv exPL.u).tunIp (demoFrame 9 100) :=
  ⟨by decide +kernel, by decide +kernel, by unfold Codec.Bytes; decide +kernel, by decide +kernel, by decide +kernel⟩

theorem ex_down100rO : DownFrameOk (Server.getUser exWL.srv exPL.u).tunIp (Server.getUser exWL.srv exPL.u).fragsize (demoFrame 2 100) :=
  ⟨by decide +kernel, by decide +kernel, by decide +kernel, by decide +kernel⟩

/-- 3 × 1 fragments (ending E1, downstream packet dropped already; then `UpFlightNQ`), 1 × 5 fragments (ending E2), 3 × 2
fragments (one round, then ending E1 with the packet pending: `UpFlightNQP`), 2 × 5 (one round, then E2) -/
example : (∃ n w', runPrompt 0 n (step (step exWL (.offerC (demoFrame 9 100))) (.offerS (demoFrame 2 4))) = w' ∧
      QuietLazy exPL w' ∧ w'.tunS = [demoFrame 9 100] ∧ w'.tunC = [demoFrame 2 4]) ∧
    (∃ n w', runPrompt 0 n (step (step exWL (.offerC (demoFrame 9 4))) (.offerS (demoFrame 2 100))) = w' ∧
      QuietLazy exPL w' ∧ w'.tunS = [demoFrame 9 4] ∧ w'.tunC = [demoFrame 2 100]) ∧
    (∃ n w', runPrompt 0 n (step (step exWL (.offerC (demoFrame 9 100))) (.offerS (demoFrame 2 30))) = w' ∧
      QuietLazy exPL w' ∧ w'.tunS = [demoFrame 9 100] ∧ w'.tunC = [demoFrame 2 30]) ∧
    (∃ n w', runPrompt 0 n (step (step exWL (.offerC (demoFrame 9 30))) (.offerS (demoFrame 2 100))) = w' ∧
      QuietLazy exPL w' ∧ w'.tunS = [demoFrame 9 30] ∧ w'.tunC = [demoFrame 2 100]) := by
  have hF : 0 < (Server.getUser exWL.srv exPL.u).fragsize := by rw [exWL_fragsize]; decide
  have key : ∀ fu fd, UpFrameOk exPL (Server.getUser exWL.srv exPL.u).tunIp fu →
      DownFrameOk (Server.getUser exWL.srv exPL.u).tunIp (Server.getUser exWL.srv exPL.u).fragsize fd →
      tunImage fu = fu → tunImage fd = fd →
      ∃ n w', runPrompt 0 n (step (step exWL (.offerC fu)) (.offerS fd)) = w' ∧ QuietLazy exPL w' ∧ w'.tunS = [fu] ∧ w'.tunC = [fd] := by
    intro fu fd hu hd e1 e2
    obtain ⟨n, w', _, _, h3, _, h5, h6, h7⟩ := clean_path_two_simultaneous_offers_lazy exPL_ok ex_quiescent_lazy fu fd hu hd hF
    exact ⟨n, w', h3 n (Nat.le_refl _), h5, by rw [h6, exWL_tun_emptyrO.1, e1]; rfl, by rw [h7, exWL_tun_emptyrO.2, e2]; rfl⟩
  exact ⟨key _ _ ex_up100rO ex_overlap_frames.2.1 (by decide +kernel) (by decide),
    key _ _ ex_overlap_frames.1 ex_down100rO (by decide) (by decide +kernel),
    key _ _ ex_up100rO ex_acceptable_down_lazy.1 (by decide +kernel) (by decide),
    key _ _ ex_acceptable_lazy.1 ex_down100rO (by decide) (by decide +kernel)⟩

#print axioms clean_path_two_simultaneous_offers_lazy

end Iodine.C02L
