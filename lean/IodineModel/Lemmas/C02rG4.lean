import IodineModel.Lemmas.C02rG3
/-
C02, phase 3, sub-package "gdown" — part 4: `k` frames offered to the server in a row under the downstream blackout.

`giveup_runs_down_imm`: each frame is followed by its run (`dropSteps g` steps of `blackoutEvDown`); afterwards the pair is
quiescent, the server's downstream number `k` further, the slacks unchanged, `N · selecttimeout` seconds later where `N` is the
total number of polls (`rGpollsAll`: 1 per one-fragment packet, 7 per longer one).
-/
namespace Iodine.C02L
open Iodine Iodine.Gen Iodine.Server Iodine.World

/-- offer a frame to the server, run the downstream blackout schedule until the pair is idle again, repeat
(`F` = the session's downstream fragment size) -/
def giveupRunDown (F : Nat) : List (List Nat) → W → W
  | [], w => w
  | f :: fs, w =>
    giveupRunDown F fs (runSched blackoutEvDown (dropSteps (downFrags F (f.length + 1) (f.length + 1))) (step w (.offerS f)))

/-- the polls of the whole run -/
def rGpollsAll (F : Nat) : List (List Nat) → Nat
  | [] => 0
  | f :: fs => rGpolls (downFrags F (f.length + 1) (f.length + 1)) + rGpollsAll F fs

/-- every frame costs at least one poll: `k ≤ N` -/
theorem length_le_rGpollsAll (F : Nat) (frames : List (List Nat)) : frames.length ≤ rGpollsAll F frames := by
  induction frames with
  | nil => exact Nat.le_refl _
  | cons f fs ih =>
    have : 1 ≤ rGpolls (downFrags F (f.length + 1) (f.length + 1)) := by unfold rGpolls; split <;> omega
    simp only [List.length_cons, rGpollsAll]
    omega

/-- the state after `k` give-up runs (`n` polls), relative to the state `w0` before the first -/
structure DownGaveUpN (P : Par) (T : Nat) (w0 w : W) (n k : Nat) : Prop where
  fr : LostPolls P T w0 w n
  sps : w.cs.c.sendPingSoon = 0
  lp : 0 < k → (getUser w.srv P.u).lastPkt = w.srv.now
  oseq : (getUser w.srv P.u).outpacket.seqno = ((getUser w0.srv P.u).outpacket.seqno + k) % 8

theorem LostPolls.refl {P : Par} {T : Nat} {w : W} (hc : CStat P w.cs.c) : LostPolls P T w w 0 :=
  ⟨rfl, rfl, by omega, by omega, rfl, rfl, by have := hc.seed; omega, rfl, rfl, rfl, rfl, rfl, rfl⟩

theorem LostPolls.trans {P : Par} {T : Nat} {w0 w1 w2 : W} {a b : Nat} (f : LostPolls P T w0 w1 a) (g : LostPolls P T w1 w2 b) :
    LostPolls P T w0 w2 (a + b) :=
  ⟨g.tunS.trans f.tunS, g.tunC.trans f.tunC, by rw [g.cnow, f.cnow, Nat.add_mul]; omega, by rw [g.snow, f.snow, Nat.add_mul]; omega,
    g.ldt.trans f.ldt, g.cmc.trans f.cmc, by rw [g.seed, f.seed]; omega, g.inpkt.trans f.inpkt, g.outpkt.trans f.outpkt,
    g.selto.trans f.selto, g.fragsize.trans f.fragsize, g.tunIp.trans f.tunIp, g.inpacket.trans f.inpacket⟩

/-- **giveup_runs_down_imm.**  `frames` offered to the server one after the other, each followed by its run of the downstream
blackout schedule.  `hne`: no packet of several fragments may get the client's own number while `inpkt.fragment = 0` (see
`giveup_run_down_imm`) — guaranteed if the client's last fragment number is not 0, or fewer than `8 − dd` frames are offered, or
every packet has one fragment.  TIME: the client hears nothing, so all `N = rGpollsAll F frames` polls (`N · selecttimeout`
seconds) must fit into the 60 s since its last downstream answer (`hc`).  This bounds `k = frames.length`: `k ≤ N`
(`length_le_rGpollsAll`), hence `k · selecttimeout ≤ lastdownstreamtime + 60 − now`; from a state that has just heard from the
server and `selecttimeout = 1`: at most 60 one-fragment packets, or 8 longer ones.  The server's `lastPkt` only matters for the
first poll (`hs`). -/
theorem giveup_runs_down_imm {P : Par} (hP : P.Ok) (F : Nat) (hF : 0 < F) (frames : List (List Nat)) :
    ∀ {w : W} {du dd sl sp : Nat}, QuietImmDS P du dd sl sp w → (getUser w.srv P.u).fragsize = F →
    (∀ f ∈ frames, 24 ≤ f.length ∧ f.length < 65536 ∧ ipDst f = (getUser w.srv P.u).tunIp) →
    w.cs.c.sendPingSoon = 0 → w.cs.c.selecttimeout ≤ 9 → 1 ≤ sp → sp ≤ 1000 →
    (w.cs.c.inpkt.fragment ≠ 0 ∨ dd % 8 + frames.length ≤ 7 ∨ ∀ f ∈ frames, downFrags F (f.length + 1) (f.length + 1) = 1) →
    ¬ w.cs.c.lastdownstreamtime + 60 < w.cs.c.now + rGpollsAll F frames * w.cs.c.selecttimeout.toNat →
    w.srv.now + w.cs.c.selecttimeout.toNat < (getUser w.srv P.u).lastPkt + 60 →
    DownGaveUpN P w.cs.c.selecttimeout.toNat w (giveupRunDown F frames w) (rGpollsAll F frames) frames.length ∧
    QuietImmDS P du ((dd + frames.length) % 8) sl sp (giveupRunDown F frames w) := by
  induction frames with
  | nil =>
    intro w du dd sl sp hq _ _ hsps _ _ _ _ _ _
    show DownGaveUpN P _ w w 0 0 ∧ QuietImmDS P du ((dd + 0) % 8) sl sp w
    refine ⟨⟨LostPolls.refl hq.cst, hsps, fun h => absurd h (by simp), ?_⟩, ?_⟩
    · show _ = (_ + ((0 : Nat) : Int)) % 8
      have := hq.srv.x.oseq; omega
    · exact ⟨hq.ph, hq.cst, hq.idleC, hq.up, hq.down, hq.srv, hq.idle, hq.oq, hq.syncu,
        by have := hq.syncd; omega, hq.aged, hq.paged⟩
  | cons f fs ih =>
    intro w du dd sl sp hq hFw hok hsps hsel hsp1 hsp hne hc hs
    obtain ⟨hf1, hf2, hf3⟩ := hok f (List.mem_cons_self ..)
    simp only [List.length_cons, rGpollsAll] at hne hc ⊢
    generalize hTdef : w.cs.c.selecttimeout.toNat = T at hc hs ⊢
    have hne1 : downFrags (getUser w.srv P.u).fragsize (f.length + 1) (f.length + 1) = 1 ∨ (dd + 1) % 8 ≠ 0 ∨
        w.cs.c.inpkt.fragment ≠ 0 := by
      rcases hne with h1 | h1 | h1
      · exact Or.inr (Or.inr h1)
      · exact Or.inr (Or.inl (by omega))
      · left; rw [hFw]; exact h1 f (List.mem_cons_self ..)
    obtain ⟨g, hq1⟩ := giveup_run_down_imm hP hq f (by rw [hFw]; exact hF) hf1 hf2 hf3 hsps hsel hsp1 hsp hne1
      (by rw [hFw, hTdef]; intro hx; apply hc; rw [Nat.add_mul]; omega) (by rw [hTdef]; exact hs)
    rw [hFw, hTdef] at g
    rw [hFw] at hq1
    generalize hw1 : runSched blackoutEvDown (dropSteps (downFrags F (f.length + 1) (f.length + 1))) (step w (.offerS f)) = w1
      at g hq1
    have hT1 : w1.cs.c.selecttimeout.toNat = T := by rw [g.fr.selto, hTdef]
    obtain ⟨gn, hqn⟩ := ih hq1 (by rw [g.fr.fragsize, hFw])
      (fun f' hf' => by rw [g.fr.tunIp]; exact hok f' (List.mem_cons_of_mem _ hf'))
      g.sps (by rw [g.fr.selto]; exact hsel) hsp1 hsp
      (by
        rcases hne with h1 | h1 | h1
        · left; rw [g.fr.inpkt]; exact h1
        · right; left; omega
        · right; right; exact fun f' hf' => h1 f' (List.mem_cons_of_mem _ hf'))
      (by rw [g.fr.ldt, g.fr.cnow, hT1]; intro hx; apply hc; rw [Nat.add_mul]; omega)
      (by rw [hT1, g.lp]; omega)
    rw [hT1] at gn
    have hrun : giveupRunDown F (f :: fs) w = giveupRunDown F fs w1 := by
      show giveupRunDown F fs (runSched blackoutEvDown _ (step w (.offerS f))) = _
      rw [hw1]
    rw [hrun]
    refine ⟨⟨g.fr.trans gn.fr, gn.sps, fun _ => ?_, ?_⟩, ?_⟩
    · by_cases hk : 0 < fs.length
      · exact gn.lp hk
      · have : fs = [] := List.eq_nil_of_length_eq_zero (by omega)
        subst this
        exact g.lp
    · rw [gn.oseq, g.oseq]
      have : (((fs.length + 1 : Nat) : Int)) = (fs.length : Int) + 1 := by omega
      omega
    · have e1 : ((dd + 1) % 8 + fs.length) % 8 = (dd + (fs.length + 1)) % 8 := by omega
      rw [e1] at hqn
      exact hqn

end Iodine.C02L
