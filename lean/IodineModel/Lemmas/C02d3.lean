import IodineModel.Lemmas.C02d1
import IodineModel.Lemmas.C02d2
import IodineModel.Lemmas.C02v6
/-
Server side of a downstream transfer in immediate mode, in terms of the invariants: the iteration that receives a ping.
-/
namespace Iodine.C02L
open Iodine Iodine.Gen Iodine.Server Iodine.World

/-- what the server can read out of a ping of the client: acknowledged downstream position `(a, b)`, ping counter `sd` -/
structure PingQ (P : Par) (Q : Query) (a b : Int) (sd : Nat) : Prop where
  from_ : Q.from_ = clientAddr
  id2 : Q.id2 = 0
  id : Q.id ≠ 0
  ty : Q.type = P.ty
  c0 : Q.name.getD 0 0 = 112
  sdlt : sd < 65536
  parse : ∃ dlen, Common.queryDatalen Q.name P.td = some dlen ∧ 2 ≤ dlen ∧ 4 ≤ (pingUnpacked Q dlen).length ∧
    charVal ((pingUnpacked Q dlen).getD 0 0) = (P.u : Int) ∧
    charVal ((pingUnpacked Q dlen).getD 1 0) / 16 = a ∧ charVal ((pingUnpacked Q dlen).getD 1 0) % 16 = b ∧
    ((pingUnpacked Q dlen).take 4).getD 2 0 = sd / 256 ∧ ((pingUnpacked Q dlen).take 4).getD 3 0 = sd % 256
  seed : seedOfName P.td Q.name = sd
  fp : ∃ cp, Q.name.idxOf? 46 = some cp ∧ 4 ≤ (Codec.dec Codec.b32 8 (cp - 1) (Q.name.drop 1)).length ∧
    ((Codec.dec Codec.b32 8 (cp - 1) (Q.name.drop 1)).take 4).getD 2 0 = sd / 256 ∧
    ((Codec.dec Codec.b32 8 (cp - 1) (Q.name.drop 1)).take 4).getD 3 0 = sd % 256

theorem behind_next16 (k : Nat) (hk : k < 65536) : Behind 65536 ((k + 1) % 65536) k 1 := by
  unfold Behind; omega

theorem scPkt_len_le (y : Session) : (scPkt y (scDatalen y)).length ≤ DNSCACHE_ANSWER_SIZE := by
  have : scDatalen y ≤ 4094 := by
    unfold scDatalen; split <;> omega
  simp only [scPkt, List.length_append, List.length_cons, List.length_nil, List.length_take, DNSCACHE_ANSWER_SIZE]
  omega

/-- the memories of two slots agree -/
def SameMem (x y : Session) : Prop :=
  y.qmemdata = x.qmemdata ∧ y.qmemdataLast = x.qmemdataLast ∧ y.qmemping = x.qmemping ∧ y.qmempingLast = x.qmempingLast ∧
  y.dnscache = x.dnscache ∧ y.dcLast = x.dcLast

theorem SameMem.refl (x : Session) : SameMem x x := ⟨rfl, rfl, rfl, rfl, rfl, rfl⟩

theorem fromQueue_empty (z : Session) (hz : z.oqFilled = 0) : fromQueue z = (z, false) := by
  unfold fromQueue
  rw [if_pos hz]

theorem ackSess_sameMem (x : Session) (a b : Int) (h : x.oqFilled = 0) : SameMem x (ackSess x a b) := by
  unfold ackSess
  split
  · exact SameMem.refl x
  · split
    · exact SameMem.refl x
    · split
      · exact SameMem.refl x
      · simp only
        split
        · rw [fromQueue_empty _ (by exact h)]
          exact ⟨rfl, rfl, rfl, rfl, rfl, rfl⟩
        · exact ⟨rfl, rfl, rfl, rfl, rfl, rfl⟩

theorem ackSess_res (x : Session) (a b : Int) (h : x.oqFilled = 0) (hr : x.outfragresent ≤ 5) : (ackSess x a b).outfragresent ≤ 5 := by
  unfold ackSess
  split
  · exact hr
  · split
    · exact hr
    · split
      · exact hr
      · simp only
        split
        · rw [fromQueue_empty _ (by exact h)]
          show 0 ≤ 5
          omega
        · show 0 ≤ 5
          omega

/-- The shape of `send_chunk_or_dataless` answering the query in `q` (no duplicate remembered, nothing queued, not resent
too often): one answer event; the memories remember the query; `qs` is not touched. -/
theorem scSess_q_shape (y : Session) (u : Nat) (hid2 : y.q.id2 = 0) (hoq : y.oqFilled = 0) (hres : y.outfragresent ≤ 5) :
    ∃ y1 pkt, SameMem y y1 ∧ pkt.length ≤ DNSCACHE_ANSWER_SIZE ∧
      (scSess y u .q).1.2 = [writeDns y.q pkt y.downenc (.chunk u)] ∧ (scSess y u .q).2 = false ∧
      SameMem (cacheUpd (qmemUpd y1 y.q) y.q pkt) (scSess y u .q).1.1 ∧ (scSess y u .q).1.1.qs = y.qs := by
  by_cases hlen : y.outpacket.len = 0
  · have hsd := scSess_dataless y u .q hlen hid2
    have hqs : (cacheUpd (qmemUpd y y.q) y.q (scPkt y 0)).qs = y.qs := by
      have := core_qs (core_memo y y.q (scPkt y 0)); exact this
    refine ⟨y, scPkt y 0, SameMem.refl y, scPkt0_len y, ?_, ?_, ?_, ?_⟩
    · rw [hsd]; rfl
    · rw [hsd]
    · rw [hsd]; exact ⟨rfl, rfl, rfl, rfl, rfl, rfl⟩
    · rw [hsd]; exact hqs
  · have hpos : y.outpacket.len > 0 := by omega
    have hsd := scSess_data y u .q hpos hres hid2 hoq
    have hdl : scDatalen (prepOut y) = scDatalen y := rfl
    have hqs : (answered y .q).qs = y.qs := by
      have := core_qs (core_memo (prepOut y) y.q (scPkt (prepOut y) (scDatalen y)))
      exact this
    have hmem : SameMem (cacheUpd (qmemUpd (prepOut y) y.q) y.q (scPkt (prepOut y) (scDatalen y))) (answered y .q) :=
      ⟨rfl, rfl, rfl, rfl, rfl, rfl⟩
    refine ⟨prepOut y, scPkt (prepOut y) (scDatalen y), ⟨rfl, rfl, rfl, rfl, rfl, rfl⟩, by rw [← hdl]; exact scPkt_len_le (prepOut y), ?_, ?_, ?_, ?_⟩
    · rw [hsd]; rfl
    · rw [hsd]
    · rw [hsd]
      by_cases hw : scDatalen y > 0 ∧ scDatalen y = y.outpacket.len
      · rw [if_pos hw]; exact ⟨hmem.1, hmem.2.1, hmem.2.2.1, hmem.2.2.2.1, hmem.2.2.2.2.1, hmem.2.2.2.2.2⟩
      · rw [if_neg hw]; exact hmem
    · rw [hsd]
      by_cases hw : scDatalen y > 0 ∧ scDatalen y = y.outpacket.len
      · rw [if_pos hw]; exact hqs
      · rw [if_neg hw]; exact hqs

/-- the slot's answer to a ping in immediate mode, with nothing queued: described through the session-level functions -/
structure AfterPing (P : Par) (s s' : Srv) (Q : Query) (a b : Int) (pkt : List Nat) : Prop where
  solo : Solo P.u s'
  td : s'.cfg.topdomain = P.td
  cfg : s'.cfg = s.cfg
  now : s'.now = s.now
  /-- the slot: everything but the memories is that of `scSess` applied to the acked slot with the query stored -/
  slot : getUser s' P.u = (scSess (saveQ (ackSess { getUser s P.u with qsNew := false } a b) Q s.now) P.u .q).1.1
  pkt : (scSess (saveQ (ackSess { getUser s P.u with qsNew := false } a b) Q s.now) P.u .q).1.2 =
    [writeDns Q pkt (getUser s P.u).downenc (.chunk P.u)]

theorem srv_ping_imm {P : Par} (hP : P.Ok) {s : Srv} (hS : SStat P s)
    (hq : (getUser s P.u).q.id = 0) (hqs : (getUser s P.u).qs.id = 0) (hlz : (getUser s P.u).lazy = false)
    (hoq : (getUser s P.u).oqFilled = 0) (hres : (getUser s P.u).outfragresent ≤ 5)
    {Q : Query} {a b : Int} {sd : Nat} (hQ : PingQ P Q a b sd)
    {k : Nat} (hA : Aged P (getUser s P.u) k 1) (hPA : PAged P (getUser s P.u) sd 1) :
    ∃ s' evs t pkt, iteration s (.q Q) s.now = (s', evs, t) ∧ downOfEvents evs = [.ans Q.id Q.type Q.name pkt] ∧
      tunOfSEvents evs = [] ∧ AfterPing P s s' Q a b pkt ∧
      Aged P (getUser s' P.u) k 1 ∧ PAged P (getUser s' P.u) ((sd + 1) % 65536) 1 := by
  obtain ⟨dlen, hdl, h2, h4, huid, ha, hb, hc2, hc3⟩ := hQ.parse
  obtain ⟨cp, hcp, hfl, hf2, hf3⟩ := hQ.fp
  have htop := topSess_live hS
  have hu := hS.solo.lt
  generalize hx0 : ({ getUser s P.u with qsNew := false } : Session) = x0 at htop
  have hx0q : x0.q.id = 0 := by subst hx0; exact hq
  have hx0qs : x0.qs.id = 0 := by subst hx0; exact hqs
  have hx0lz : x0.lazy = false := by subst hx0; exact hlz
  have hx0oq : x0.oqFilled = 0 := by subst hx0; exact hoq
  have hx0A : Aged P x0 k 1 := by subst hx0; exact hA.congr rfl rfl rfl rfl
  have hx0P : PAged P x0 sd 1 := by subst hx0; exact hPA.congr rfl rfl rfl rfl
  have hit := iteration_ping hS.solo Q s.now dlen (by rw [hS.td]; exact hdl) h2 hQ.c0 (hQ.ty ▸ hP.tty) hQ.id h4 huid
    (admitted_entry hS Q hQ.from_)
    (by rw [htop]; exact hx0P.cacheMiss hQ.sdlt (by omega) Q hQ.ty hQ.c0 hQ.seed)
    (by rw [htop]; exact hx0P.qmemMiss hQ.sdlt (by omega) Q hQ.ty _ hc2 hc3)
    (by rw [htop]; exact Or.inl hx0q) (by rw [htop]; exact Or.inl hx0qs)
  rw [htop, ha, hb, pingSess_imm x0 P.u Q a b s.now hx0q hx0qs hx0lz hx0oq] at hit
  -- the slot with the query stored
  have hac := ackSess_core x0 a b hx0oq
  generalize hy : saveQ (ackSess x0 a b) Q s.now = y at hit
  have hyq : y.q = Q := by subst hy; rfl
  have hsm := ackSess_sameMem x0 a b hx0oq
  have hyA : Aged P y k 1 := by
    subst hy
    exact hx0A.congr hsm.1 hsm.2.1 hsm.2.2.2.2.1 hsm.2.2.2.2.2
  have hyP : PAged P y sd 1 := by
    subst hy
    exact hx0P.congr hsm.2.2.1 hsm.2.2.2.1 hsm.2.2.2.2.1 hsm.2.2.2.2.2
  have hyid2 : y.q.id2 = 0 := by rw [hyq]; exact hQ.id2
  have hyoq : y.oqFilled = 0 := by
    subst hy
    show (ackSess x0 a b).oqFilled = 0
    have := core_oqFilled hac
    rw [this]; exact hx0oq
  have hyres : y.outfragresent ≤ 5 := by
    subst hy
    exact ackSess_res x0 a b hx0oq (by subst hx0; exact hres)
  obtain ⟨y1, pkt, hm1, hpl, hev, _, hm2, hqs2⟩ := scSess_q_shape y P.u hyid2 hyoq hyres
  rw [hyq] at hev hm2
  have hyqs : y.qs.id = 0 := by
    subst hy
    show (ackSess x0 a b).qs.id = 0
    have := core_qs hac
    rw [this]; exact hx0qs
  have hsw : sweepSess (scSess y P.u .q).1.1 P.u s.now = ((scSess y P.u .q).1.1, []) := by
    unfold sweepSess
    rw [if_neg (by intro hc; exact hc.2.1 (by rw [hqs2]; exact hyqs))]
  simp only at hit
  rw [hsw, hev] at hit
  have hdn : y.downenc = (getUser s P.u).downenc := by
    subst hy
    show (ackSess x0 a b).downenc = _
    have := core_downenc hac
    rw [this]; subst hx0; rfl
  have hg : getUser { putUser s P.u (scSess y P.u .q).1.1 with now := s.now } P.u = (scSess y P.u .q).1.1 := by
    rw [getUser_withNow, getUser_putUser_self _ _ _ hu]
  refine ⟨_, _, _, pkt, hit, ?_, ?_, ?_, ?_, ?_⟩
  · simp only [List.append_nil, downOfEvents_append, downOfEvents_sweep, downOfEvents_writeDns _ _ _ _ hQ.from_]
  · simp only [List.append_nil, tunOfSEvents_append, tunOfSEvents_writeDns, tunOfSEvents_sweep]
  · refine ⟨(hS.solo.putUser _).withNow _, hS.td, rfl, rfl, ?_, ?_⟩
    · rw [hg, hx0, hy]
    · rw [hx0, hy, hev, hdn]
  · rw [hg]
    have hy1A : Aged P y1 k 1 := hyA.congr hm1.1 hm1.2.1 hm1.2.2.2.2.1 hm1.2.2.2.2.2
    have := hy1A.memo_ping hP.hu Q pkt hpl hQ.c0 cp hcp hfl
    exact this.congr hm2.1 hm2.2.1 hm2.2.2.2.2.1 hm2.2.2.2.2.2
  · rw [hg]
    have hy1P : PAged P y1 sd 1 := hyP.congr hm1.2.2.1 hm1.2.2.2.1 hm1.2.2.2.2.1 hm1.2.2.2.2.2
    have := (hy1P.step hQ.sdlt (by omega)).memo Q pkt hpl sd 1 ⟨by omega, by omega⟩ (behind_next16 sd hQ.sdlt) hQ.c0 cp hcp hfl hf2 hf3 hQ.seed
    exact this.congr hm2.2.2.1 hm2.2.2.2.1 hm2.2.2.2.2.1 hm2.2.2.2.2.2

end Iodine.C02L
