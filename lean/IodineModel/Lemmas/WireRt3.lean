import IodineModel.Lemmas.WireRt2
/-
Round trip through the wire, MX / SRV: the decoder's record loop over the records `mxRecs` the encoder emits,
and its output loop `mxOut` as a pure function.
-/
namespace Iodine.Wire
open Iodine.Wire.Strict Iodine.Wire.DnsEncode

theorem overwrite_nil (w : List Nat) : overwrite [] w = w := by simp [overwrite]

theorem set_pre_replicate (pre : List (List Nat)) (m : Nat) (hm : 1 ≤ m) (w : List Nat) :
    (pre ++ List.replicate m []).set pre.length w = (pre ++ [w]) ++ List.replicate (m - 1) [] := by
  obtain ⟨m', rfl⟩ : ∃ m', m = m' + 1 := ⟨m - 1, by omega⟩
  rw [List.set_append_right _ _ (Nat.le_refl _)]
  simp [List.replicate_succ]

theorem getD_pre_replicate (pre : List (List Nat)) (m : Nat) :
    (pre ++ List.replicate m ([] : List Nat)).getD pre.length [] = [] := by
  rw [List.getD_eq_getElem?_getD, List.getElem?_append_right (Nat.le_refl _)]
  simp only [Nat.sub_self]
  cases m with
  | zero => rfl
  | succ m => simp [List.replicate_succ]

/-- the decoder's loop over the records of the MX/SRV answer: the target names land in `names[a-1 …]` -/
theorem mxLoop_rt {pkt : List Nat} (hl : pkt.length ≤ 65536) (h12 : 12 < pkt.length) (ty : Nat)
    (hty : ty = 15 ∨ ty = 33) (ts : List (List (List Nat))) :
    ∀ (pre : List (List Nat)) (m p ty0 : Nat) (Y : List Nat),
      At pkt p (mxRecs ty (pre.length + 1) ts ++ Y) → ts.length ≤ m → pre.length + ts.length ≤ 249 →
      (∀ t ∈ ts, LabelsOK t ∧ (joinDots t).length ≤ 253 ∧ labLen t ≤ 254) →
      mxLoop (rx pkt) ts.length p (pre ++ List.replicate m []) ty0 =
        .ok (some (pre ++ ts.map (fun t => joinDots t ++ [0]) ++ List.replicate (m - ts.length) [],
          if ts = [] then ty0 else ty)) := by
  induction ts with
  | nil => intro pre m p ty0 Y _ _ _ _; simp [mxLoop]
  | cons t r ih =>
    intro pre m p ty0 Y h hm hpre hts
    obtain ⟨htok, htl, htlab⟩ := hts t (by simp)
    simp only [List.length_cons] at hm hpre
    have h' : At pkt p (rrBytes namePtr ty 0 (mxRData ty (pre.length + 1) t) ++
        (mxRecs ty (pre.length + 1 + 1) r ++ Y)) := by
      simpa [mxRecs, List.append_assoc] using h
    have hrdl := mxRData_length ty (pre.length + 1) t
    have hrd6 : (mxRData ty (pre.length + 1) t).length < 65536 := by rw [hrdl]; split <;> omega
    have hty' : ty < 65536 := by rcases hty with h | h <;> omega
    obtain ⟨⟨w, hw⟩, hck, hrr, hat, hle⟩ := rr_front hl h12 hty' hrd6 h'
    have hck12 : checklenFails (rx pkt) 12 (p + 2) = false := by
      simp only [checklenFails, rx_plen, decide_eq_false_iff_not]
      have : 3 ≤ (mxRData ty (pre.length + 1) t).length := by rw [hrdl]; split <;> omega
      omega
    have hat1 : At pkt (p + 12) (be16 (10 * (pre.length + 1)) ++
        ((if ty = T_SRV then be16 10 ++ be16 5060 else []) ++ (encName t ++ (mxRecs ty (pre.length + 1 + 1) r ++ Y)))) := by
      simpa [mxRData, List.append_assoc] using hat
    have hpref := readshort_at hl (show 10 * (pre.length + 1) < 65536 by omega) hat1
    have hnext : At pkt (p + 12 + (mxRData ty (pre.length + 1) t).length) (mxRecs ty (pre.length + 1 + 1) r ++ Y) := hat.right
    have hckend : checklenFails (rx pkt) 0 (p + 12 + (mxRData ty (pre.length + 1) t).length) = false := by
      simp only [checklenFails, rx_plen, decide_eq_false_iff_not]; omega
    have hcond : (10 * (pre.length + 1)) % 10 = 0 ∧ 10 * (pre.length + 1) ≥ 10 ∧ 10 * (pre.length + 1) < 2500 := by omega
    have hk : 10 * (pre.length + 1) / 10 - 1 = pre.length := by omega
    have hw255 : (joinDots t ++ [0]).take 255 = joinDots t ++ [0] := List.take_of_length_le (by simp; omega)
    have hih := ih (pre ++ [joinDots t ++ [0]]) (m - 1) (p + 12 + (mxRData ty (pre.length + 1) t).length) ty Y
      (by simpa using hnext) (by omega) (by simp; omega) (fun x hx => hts x (by simp [hx]))
    simp only [List.length_cons, mxLoop, hw, bind_ok, hck12, Bool.false_eq_true, if_false, hrr, hpref]
    rcases hty with h15 | h33
    · subst h15
      have hatn : At pkt (p + 12 + 2) (encName t ++ (mxRecs 15 (pre.length + 1 + 1) r ++ Y)) := by
        have := hat1.right
        simpa [T_SRV] using this
      have hname := readname_labels hl 255 (p + 12 + 2) t _ htok hatn (by omega) (by omega)
      simp only [show ¬ (15 : Nat) = 33 by decide, if_false, false_and, hcond, and_self, if_true, hk]
      rw [if_neg (by omega)]
      simp only [bind_ok, hname, getD_pre_replicate, overwrite_nil, hw255, set_pre_replicate pre m (by omega),
        hckend, Bool.false_eq_true, if_false]
      rw [hih]
      simp
      omega
    · subst h33
      -- SRV: weight and port are skipped
      have hatn : At pkt (p + 12 + 2 + 4) (encName t ++ (mxRecs 33 (pre.length + 1 + 1) r ++ Y)) := by
        have := hat1.right
        simp only [T_SRV, if_true, Iodine.Wire.Put.be16_length] at this
        have := this.right
        simpa [Nat.add_assoc] using this
      have hname := readname_labels hl 255 (p + 12 + 2 + 4) t _ htok hatn (by omega) (by omega)
      have hck0 : checklenFails (rx pkt) 0 (p + 12 + 2 + 4) = false := by
        simp only [checklenFails, rx_plen, decide_eq_false_iff_not]
        rw [hrdl] at hle; simp only [T_SRV, if_true] at hle; omega
      simp only [if_true, true_and, hck0, Bool.false_eq_true, if_false, hcond, and_self, hk]
      rw [if_neg (by omega)]
      simp only [bind_ok, hname, getD_pre_replicate, overwrite_nil, hw255, set_pre_replicate pre m (by omega),
        hckend, Bool.false_eq_true, if_false]
      rw [hih]
      simp
      omega

/-! ### the output loop -/

/-- `mxOut` as a pure function of the names (C strings): what is in `buf` before the final NUL -/
def mxOutPure (B : Nat) : List (List Nat) → List Nat → List Nat
  | [], out => out
  | nm :: rest, out =>
    if out.length + 2 ≥ B then out
    else mxOutPure B rest (out ++ nm.take (min nm.length (B - (out.length + 2))) ++ [0])

theorem mxOutPure_lt (B : Nat) (ns : List (List Nat)) : ∀ out, out.length < B → (mxOutPure B ns out).length < B := by
  induction ns with
  | nil => intro out h; exact h
  | cons nm rest ih =>
    intro out h
    simp only [mxOutPure]
    split
    · exact h
    · apply ih
      simp only [List.length_append, List.length_take, List.length_cons, List.length_nil]
      omega

theorem mxOutPure_prefix (B : Nat) (ns : List (List Nat)) : ∀ out, out <+: mxOutPure B ns out := by
  induction ns with
  | nil => intro out; exact List.prefix_refl _
  | cons nm rest ih =>
    intro out
    simp only [mxOutPure]
    split
    · exact List.prefix_refl _
    · refine List.IsPrefix.trans ?_ (ih _)
      rw [List.append_assoc]
      exact List.prefix_append _ _

theorem subSizeT_eq (B k : Nat) (hk : k ≤ B) (hB : B ≤ 65536) : subSizeT B k = B - k := by
  unfold subSizeT
  omega

theorem mxOut_rt (B : Nat) (hB : B ≤ 65536) (ns : List (List Nat)) :
    ∀ (out : List Nat) (tail : List (List Nat)), (∀ n ∈ ns, n ≠ [] ∧ ∀ c ∈ n, c ≠ 0) → out.length < B →
      mxOut B (ns.map (fun n => n ++ [0]) ++ [] :: tail) out =
        .ok ((mxOutPure B ns out).length, mxOutPure B ns out ++ [0]) := by
  induction ns with
  | nil =>
    intro out tail _ ho
    simp [mxOut, cstr, mxOutPure, push_ok 0 ho]
  | cons nm rest ih =>
    intro out tail hns ho
    obtain ⟨hne, hnz⟩ := hns nm (by simp)
    have hc : cstr (nm ++ [0]) = nm := cstr_append_nul nm [] hnz
    have hpos : 0 < nm.length := List.length_pos_iff.mpr hne
    simp only [List.map_cons, List.cons_append, mxOut, hc, mxOutPure]
    rw [if_neg hne]
    by_cases hroom : out.length + 2 ≥ B
    · rw [if_pos hroom, if_pos hroom]
      simp [push_ok 0 ho]
    · rw [if_neg hroom, if_neg hroom]
      rw [subSizeT_eq B (out.length + 2) (by omega) hB]
      rw [if_neg (by omega), if_neg (by omega)]
      rw [push_ok 0 (by simp only [List.length_append, List.length_take]; omega)]
      simp only [bind_ok]
      exact ih _ tail (fun n hn => hns n (by simp [hn]))
        (by simp only [List.length_append, List.length_take, List.length_cons, List.length_nil]; omega)

/-- The MX/SRV branch of the decoder on the encoder's records: the target names, cut to the caller's buffer. -/
theorem answerMx_rt {pkt : List Nat} (hl : pkt.length ≤ 65536) (h12 : 12 < pkt.length) (B : Nat) (hB1 : 1 ≤ B)
    (hB : B ≤ 65536) (q : Decoded) (ty : Nat) (hty : ty = 15 ∨ ty = 33) (ts : List (List (List Nat))) (p : Nat) (Y : List Nat)
    (h : At pkt p (mxRecs ty 1 ts ++ Y)) (hn0 : ts ≠ []) (hn : ts.length ≤ 249)
    (hts : ∀ t ∈ ts, LabelsOK t ∧ (joinDots t).length ≤ 253 ∧ labLen t ≤ 254 ∧ joinDots t ≠ [] ∧ ∀ c ∈ joinDots t, c ≠ 0) :
    answerMx (rx pkt) B q p ts.length =
      .ok { q with rv := ((mxOutPure B (ts.map joinDots) []).length : Nat),
                   buf := mxOutPure B (ts.map joinDots) [] ++ [0], type := ty } := by
  have hloop := mxLoop_rt hl h12 ty hty ts [] 250 p 0 Y (by simpa using h) (by omega) (by simpa using hn)
    (fun t ht => ⟨(hts t ht).1, (hts t ht).2.1, (hts t ht).2.2.1⟩)
  have hinit : namesInit = [] ++ List.replicate 250 [] := rfl
  unfold answerMx
  rw [hinit, hloop]
  simp only [bind_ok, List.nil_append, if_neg hn0]
  have hrep : List.replicate (250 - ts.length) ([] : List Nat) = [] :: List.replicate (250 - ts.length - 1) [] := by
    obtain ⟨k, hk⟩ : ∃ k, 250 - ts.length = k + 1 := ⟨250 - ts.length - 1, by omega⟩
    rw [hk]; simp [List.replicate_succ]
  have hmap : ts.map (fun t => joinDots t ++ [0]) = (ts.map joinDots).map (fun n => n ++ [0]) := by
    rw [List.map_map]; rfl
  rw [hrep, hmap, mxOut_rt B hB (ts.map joinDots) [] _ (by
    intro n hn'
    simp only [List.mem_map] at hn'
    obtain ⟨t, ht, rfl⟩ := hn'
    exact ⟨(hts t ht).2.2.2.1, (hts t ht).2.2.2.2⟩) (by simp only [List.length_nil]; omega)]
  rfl

end Iodine.Wire
