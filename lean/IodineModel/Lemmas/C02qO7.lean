import IodineModel.Lemmas.C02N1
/-
C02 / overlap: the client's 5 ms ping timer (`send_ping_soon = 5`) fires while an upstream packet is in flight: the
`i == 0` branch of `client_tunnel` resends the chunk (`outchunkresent + 1`) and clears `send_ping_soon`; no clock advances.
-/
namespace Iodine.C02L
open Iodine Iodine.Gen Iodine.World

theorem tick_resend_step {P : Par} (hP : P.Ok) {w : W} {out : List Nat} {o f : Nat}
    (hph : w.cs.ph = .tunnel) (hup : w.up = []) (hdown : w.down = [])
    (hsps : w.cs.c.sendPingSoon = 5) (hts : timeoutS w = 20000) (hres : w.cs.c.outchunkresent < 3)
    (hready : CReadyL P { w.cs.c with outchunkresent := w.cs.c.outchunkresent + 1 } out o f) :
    promptEv w = .tickC ∧
    step w .tickC =
      { w with cs := ⟨{ sentStateL { w.cs.c with outchunkresent := w.cs.c.outchunkresent + 1 } with sendPingSoon := 0 }, .tunnel⟩,
               up := upOfEvents (Client.sendChunk { w.cs.c with outchunkresent := w.cs.c.outchunkresent + 1 }).evs } := by
  have hcs := cstate_eta w.cs hph
  generalize hc' : ({ w.cs.c with outchunkresent := w.cs.c.outchunkresent + 1 } : Client.Cli) = c' at hready ⊢
  have hst := hready.stat
  have hrun : w.cs.c.running = true := by have := hst.running; rw [← hc'] at this; exact this
  have halive : ¬ w.cs.c.lastdownstreamtime + 60 < w.cs.c.now := by have := hst.alive; rw [← hc'] at this; exact this
  have hsend : Client.isSending w.cs.c = true := by
    have h1 := hready.len
    have h2 := hready.ho
    rw [← hc'] at h1
    have h3 : w.cs.c.outpkt.len = out.length := h1
    unfold Client.isSending
    simp only [bne_iff_ne, ne_eq]
    omega
  have hto : (Client.selectOf w.cs.c).to = 5000 := by
    unfold Client.selectOf
    simp only [hsps]
    rw [if_pos (by decide)]
    rfl
  have hT : ((Client.selectOf w.cs.c).to / 1000000).toNat = 0 := by rw [hto]; decide
  have hc1 : Client.advanceClock w.cs.c (Client.selectOf w.cs.c) = w.cs.c := by
    unfold Client.advanceClock
    rw [hT]
    exact cli_now_zero _
  obtain ⟨name, hsnd, -, -, -⟩ := send_readyL hP hready
  have hpe : promptEv w = .tickC := by
    unfold promptEv
    have htc : timeoutC w = some (Client.selectOf w.cs.c).to := by
      unfold timeoutC Client.pending
      rw [hph]
    simp only [hup, hdown, List.isEmpty_nil, Bool.not_true, Bool.false_eq_true, if_false, htc, hts, hto]
    decide
  have hstep : Client.cstep w.cs .tick = (⟨{ sentStateL c' with sendPingSoon := 0 }, .tunnel⟩, (Client.sendChunk c').evs,
      .sel (Client.selectOf { sentStateL c' with sendPingSoon := 0 })) := by
    rw [hcs]
    show Client.tunnelStep w.cs.c .tick = _
    rw [tunnelStep_tick w.cs.c hrun (by rw [hc1]; exact halive), hc1, Client.timeoutBranch_resend w.cs.c hsend hres, hc']
    have hr2 : (sentStateL c').running = true := by
      have h1 := (sentFactsL c').running
      exact h1.trans hst.running
    rw [settle_afterSend _ _ _ (by rw [hsnd]) (by rw [hsnd]; exact hr2)]
    simp only [List.nil_append]
    rw [hsnd]
  refine ⟨hpe, ?_⟩
  rw [step_tickC, stepC_of w _ _ _ _ hstep (by
    show (sentStateL c').now = _
    have h1 := (sentFactsL c').now
    rw [← hc'] at h1 ⊢
    exact h1), hup]
  have htun : tunOfCEvents (Client.sendChunk c').evs = [] := by rw [hsnd]; simp [tunOfCEvents]
  rw [htun]
  simp only [List.nil_append, List.append_nil]

#print axioms tick_resend_step
end Iodine.C02L
