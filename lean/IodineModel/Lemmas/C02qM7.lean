import IodineModel.Lemmas.C02qM6
/-
C02 phase 2 / DOWNSTREAM, LAZY mode, desynchronised — part 7: the concrete WITNESS, blackout runs of the joined model evaluated
by the kernel (`desync_drops_new_packets_down_lazy`).
-/
namespace Iodine.C02L
open Iodine Iodine.Gen Iodine.World

/-! ### the witness: blackout runs of the joined model, evaluated by the kernel -/

/-- one packet offered to the server while every downstream datagram is lost: `offerS`, then three steps of the blackout
schedule (`dropDown` — the only fragment is lost, and the server has forgotten the packet —, `tickC` — the client's 4 s
`select` times out, it pings —, `deliverUp` — the server holds the ping) -/
def blackoutS (w : W) (f : List Nat) : W := runSched blackoutEvDown 3 (step w (.offerS f))

/-- the lazy demo session after `k` one-fragment packets were given up that way -/
def exBlack (k : Nat) : W := (List.replicate k (demoFrame 2 4)).foldl blackoutS exWL

/-- **desync_drops_new_packets_down_lazy** (concrete runs, evaluated by the kernel).  After `k` downstream packets were
given up during a blackout of the downstream direction the joint state is quiescent, nothing was delivered, and the server's
`outpacket.seqno` is `k` ahead of the client's `inpkt.seqno`.  Distinct one-fragment frames offered afterwards on a clean
path: `k = 5` — the first TWO are lost, `k = 6` — the first one, `k = 7` — none (the "weird situation" branch takes the
packet); `k = 4` — the first THREE if the next packet is offered at once, none if one idle ping exchange
(`tickC deliverUp deliverDown`: the server's dataless answer names a sequence number outside the window and is adopted)
comes first; after `k = 5` that exchange changes nothing (the number is inside the window: not adopted). -/
theorem desync_drops_new_packets_down_lazy :
    (∀ k ∈ [4, 5, 6, 7], quiet 0 (exBlack k) = true ∧ (exBlack k).tunC = [] ∧
      (Server.getUser (exBlack k).srv 0).outpacket.seqno = (k : Int) ∧ (exBlack k).cs.c.inpkt.seqno = 0 ∧
      (exBlack k).cs.c.lazymode = true) ∧
    (offerAllS 0 40 (exBlack 5) [demoFrame 2 1, demoFrame 2 2, demoFrame 2 3, demoFrame 2 4]).tunC = [demoFrame 2 3, demoFrame 2 4] ∧
    (offerAllS 0 40 (exBlack 6) [demoFrame 2 1, demoFrame 2 2, demoFrame 2 3]).tunC = [demoFrame 2 2, demoFrame 2 3] ∧
    (offerAllS 0 40 (exBlack 7) [demoFrame 2 1, demoFrame 2 2]).tunC = [demoFrame 2 1, demoFrame 2 2] ∧
    (offerAllS 0 40 (exBlack 4) [demoFrame 2 1, demoFrame 2 2, demoFrame 2 3, demoFrame 2 4, demoFrame 2 5]).tunC =
      [demoFrame 2 4, demoFrame 2 5] ∧
    (offerAllS 0 40 (run (exBlack 4) [.tickC, .deliverUp, .deliverDown]) [demoFrame 2 1, demoFrame 2 2]).tunC =
      [demoFrame 2 1, demoFrame 2 2] ∧
    (offerAllS 0 40 (run (exBlack 5) [.tickC, .deliverUp, .deliverDown]) [demoFrame 2 1, demoFrame 2 2, demoFrame 2 3]).tunC =
      [demoFrame 2 3] := by
  refine ⟨?_, ?_, ?_, ?_, ?_, ?_, ?_⟩
  · decide +kernel
  · decide +kernel
  · decide +kernel
  · decide +kernel
  · decide +kernel
  · decide +kernel
  · decide +kernel

end Iodine.C02L
