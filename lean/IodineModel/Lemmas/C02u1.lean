import IodineModel.Lemmas.C02s5
/-
Server side of an upstream transfer, on the slot: what the data handler and the sweep do in the situations that occur
on a clean path (nothing to send downstream).
-/
namespace Iodine.C02L
open Iodine Iodine.Gen Iodine.Server

/-! ### `send_chunk_or_dataless` with nothing to send: a dataless answer -/

theorem scSess_dataless (y : Session) (u : Nat) (w : QSel) (hlen : y.outpacket.len = 0) (hid2 : (w.get y).id2 = 0) :
    scSess y u w =
      ((w.set (cacheUpd (qmemUpd y (w.get y)) (w.get y) (scPkt y 0)) { w.get y with id := 0 },
        [writeDns (w.get y) (scPkt y 0) y.downenc (.chunk u)]), false) := by
  have hd : dropResent y = y := by simp [dropResent, hlen]
  have hp : prepare y = y := by simp [prepare, hlen]
  have hdl : scDatalen y = 0 := by simp [scDatalen, hlen]
  unfold scSess
  simp only [hd, hp, hdl, scAnswer, hid2, ne_eq, not_true_eq_false, if_false, Nat.lt_irrefl, false_and]

/-! ### the duplicate filters, on the slot -/

/-- no valid entry of the answer cache is for this name and type -/
def CacheMiss (x : Session) (q : Query) : Prop :=
  ∀ e ∈ x.dnscache, ¬ (e.q.id ≠ 0 ∧ e.answerlen ≠ 0 ∧ e.q.type = q.type ∧ e.q.name = q.name)

theorem dnscacheFind_none (x : Session) (q : Query) (h : CacheMiss x q) : ∀ n i, dnscacheFind x q n i = none := by
  intro n
  induction n with
  | zero => intro i; rfl
  | succ n ih =>
    intro i
    unfold dnscacheFind
    simp only
    generalize hu : (if x.dcLast < i then x.dcLast + DNSCACHE_LEN - i else x.dcLast - i) = use
    by_cases hlt : use < x.dnscache.length
    · have hm : x.dnscache.getD use DnsCacheEntry.zero ∈ x.dnscache := by
        rw [List.getD_eq_getElem?_getD, List.getElem?_eq_getElem hlt]
        exact List.getElem_mem hlt
      have := h _ hm
      generalize x.dnscache.getD use DnsCacheEntry.zero = e at this
      by_cases h1 : e.q.id = 0
      · rw [if_pos h1]; exact ih _
      · rw [if_neg h1]
        by_cases h2 : e.answerlen = 0
        · rw [if_pos h2]; exact ih _
        · rw [if_neg h2]
          by_cases h3 : e.q.type ≠ q.type ∨ e.q.name ≠ q.name
          · rw [if_pos h3]; exact ih _
          · exfalso
            apply this
            refine ⟨h1, h2, ?_, ?_⟩
            · by_cases h4 : e.q.type = q.type
              · exact h4
              · exact absurd (Or.inl h4) h3
            · by_cases h4 : e.q.name = q.name
              · exact h4
              · exact absurd (Or.inr h4) h3
    · have : x.dnscache.getD use DnsCacheEntry.zero = DnsCacheEntry.zero := by
        rw [List.getD_eq_getElem?_getD, List.getElem?_eq_none (by omega)]
        rfl
      rw [this]
      simp only [DnsCacheEntry.zero, Query.zero, if_true]
      exact ih _

theorem answerFromDnscache_none (s : Srv) (u : Nat) (q : Query) (h : CacheMiss (getUser s u) q) :
    answerFromDnscache s u q = none := by
  unfold answerFromDnscache
  simp only [dnscacheFind_none _ _ h]

/-- no entry of the data fingerprint memory is for this header and type -/
def QmemMiss (x : Session) (q : Query) : Prop :=
  ∀ e ∈ x.qmemdata, ¬ (e.type ≠ T_UNSET ∧ e.type = q.type ∧ e.cmc = dataCmc q.name)

theorem answerFromQmemData_none (s : Srv) (u : Nat) (q : Query) (h : QmemMiss (getUser s u) q) :
    answerFromQmemData s u q = none := by
  unfold answerFromQmemData answerFromQmem
  have : (getUser s u).qmemdata.any (fun e => e.type != T_UNSET && e.type == q.type && e.cmc == dataCmc q.name) = false := by
    rw [List.any_eq_false]
    intro e he hc
    apply h e he
    have hc' : (¬e.type = T_UNSET ∧ e.type = q.type) ∧ e.cmc = dataCmc q.name := by simpa using hc
    exact ⟨hc'.1.1, hc'.1.2, hc'.2⟩
  simp only [this, Bool.false_eq_true, if_false]

theorem rememberDuplicate_none (s : Srv) (u : Nat) (q : Query) (h1 : (getUser s u).q.id = 0 ∨ (getUser s u).q.name ≠ q.name)
    (h2 : (getUser s u).qs.id = 0 ∨ (getUser s u).qs.name ≠ q.name) : rememberDuplicate s u q = none := by
  unfold rememberDuplicate
  simp only
  rw [if_neg (by intro h; rcases h1 with h1 | h1; exact h.1 h1; exact h1 h.2.2.1.symm),
      if_neg (by intro h; rcases h2 with h2 | h2; exact h.1 h2; exact h2 h.2.2.symm)]

/-- the session passes `check_authenticated_user_and_ip` -/
structure Admitted (s : Srv) (u : Nat) (q : Query) : Prop where
  lt : u < s.cfg.createdUsers
  active : (getUser s u).active = true
  enabled : (getUser s u).disabled = false
  fresh : ¬ (getUser s u).lastPkt + 60 < s.now
  ip : s.cfg.checkIp = false ∨
    (q.from_.fam = (getUser s u).host.fam ∧ (q.from_.fam = 4 ∨ q.from_.fam = 6) ∧ (getUser s u).host.ip = q.from_.ip)
  auth : (getUser s u).authenticated = true

theorem checkAuth_admitted {s : Srv} {u : Nat} {q : Query} (h : Admitted s u q) :
    checkAuthenticatedUserAndIp s (u : Int) q = false := by
  obtain ⟨h1, h2, h3, h4, h5, h6⟩ := h
  have hc : checkUserAndIp s (u : Int) q = false := by
    unfold checkUserAndIp
    rw [if_neg (by omega)]
    simp only [Int.toNat_natCast, h2, h3, Bool.not_true, Bool.or_false, Bool.false_eq_true, if_false, h4]
    rcases h5 with h5 | ⟨h5, h7, h8⟩
    · simp [h5]
    · by_cases hci : s.cfg.checkIp = true
      · simp only [hci, Bool.not_true, Bool.false_eq_true, if_false, h5, ne_eq, not_true_eq_false]
        rcases h7 with h7 | h7
        · rw [h5] at h7; simp [h7, h8]
        · rw [h5] at h7; simp [h7, h8]
      · simp [hci]
  unfold checkAuthenticatedUserAndIp
  simp [hc, h6]

end Iodine.C02L
