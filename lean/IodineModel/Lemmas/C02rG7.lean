import IodineModel.Lemmas.C02rG3
import IodineModel.Lemmas.C02qD5
/-
C02, phase 3, sub-package "gdown" — part 7: the hypothesis `hne` of `giveup_run_down_imm` is NEEDED (kernel-evaluated run).

`exD 7`: the demo session with the server's downstream number 7 ahead, the client's `inpkt.fragment = 0`.  The next packet gets
the client's OWN number.  Under the downstream blackout the client's pings acknowledge `(seqno, 0)`: the first poll finds
`sentlen = 0` (nothing to acknowledge), but the SECOND poll acknowledges fragment 0, which the client never saw — the server
moves on to fragment 1, sends it six times, and drops the packet on the EIGHTH poll: 24 steps, 8 s, and the server's
`outpacket.fragment` is left at 1.  So the conclusion of `giveup_run_down_imm` (quiescent after 21 steps) FAILS without `hne`.
-/
namespace Iodine.C02L
open Iodine Iodine.Gen Iodine.Server Iodine.World Iodine.C02

/-- after the 21 steps of the theorem the pair is NOT quiescent -/
theorem rG_hne_needed_21 : quiet 0 (runSched blackoutEvDown 21 (step (exD 7) (.offerS (demoFrame 2 30)))) = false := by
  decide +kernel

/-- the counterexample proper: `exD 7` satisfies every hypothesis of `giveup_run_down_imm` except `hne`
(`(7 + 1) % 8 = 0`, `inpkt.fragment = 0`, two fragments), and the conclusion fails -/
theorem giveup_run_down_imm_hne_needed :
    QuietImmDS exP 0 7 1 1 (exD 7) ∧ (exD 7).cs.c.inpkt.fragment = 0 ∧
    downFrags (getUser (exD 7).srv exP.u).fragsize ((demoFrame 2 30).length + 1) ((demoFrame 2 30).length + 1) = 2 ∧
    ¬ ∃ sl sp, QuietImmDS exP 0 0 sl sp (runSched blackoutEvDown 21 (step (exD 7) (.offerS (demoFrame 2 30)))) := by
  refine ⟨quietImmDS_one.2 (exD_quiet 7), by decide +kernel, by decide +kernel, ?_⟩
  rintro ⟨sl, sp, h⟩
  have := h.quiet
  rw [show exP.u = 0 from rfl, rG_hne_needed_21] at this
  exact absurd this (by decide)

/-- what happens instead: 24 steps, 8 s; nothing delivered; the server's fragment number is left at 1; the downstream numbers
are EQUAL again (7 + 1 = 8) -/
theorem rG_hne_needed_24 :
    (let w := runSched blackoutEvDown 24 (step (exD 7) (.offerS (demoFrame 2 30)))
     quiet 0 w && w.tunC == [] && w.cs.c.now == (exD 7).cs.c.now + 8 &&
     (getUser w.srv 0).outpacket.len == 0 && (getUser w.srv 0).outpacket.fragment == 1 &&
     (getUser w.srv 0).outpacket.seqno == w.cs.c.inpkt.seqno && w.cs.c.inpkt == (exD 7).cs.c.inpkt) = true := by
  decide +kernel

end Iodine.C02L
