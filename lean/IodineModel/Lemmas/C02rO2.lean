import IodineModel.Lemmas.C02N1
/-
C02 / OVERLAPPING transfers, lazy mode, ENDINGS — the invariant of the upstream REMAINDER after the downstream packet is
complete (`UpFlightNQ`): an upstream fragment is in flight and the server holds NO query (the one it held went out with a
downstream fragment), so — unlike in `UpFlightL` — every data query is answered AT ONCE with a dataless acknowledgement
(as in immediate mode), and the last one is parked in `q_sendrealsoon` and answered by the server's 20 ms timer.
Client side: a dataless answer to the MOST RECENT query in lazy mode.
-/
namespace Iodine.C02L
open Iodine Iodine.Gen Iodine.World

/-- fragment `f` (offset `o`) of the upstream packet `out` is in flight towards the server, which holds NO query and has
nothing to send downstream (`c0` = the client state `send_chunk` was called in) -/
structure UpFlightNQ (P : Par) (out : List Nat) (w : W) (c0 : Client.Cli) (o f : Nat) : Prop where
  ph : w.cs.ph = .tunnel
  ready : CReadyL P c0 out o f
  cnt0 : CntOk c0 0
  cli : w.cs.c = { sentStateL c0 with sendPingSoon := 0 }
  up : w.up = upOfEvents (Client.sendChunk c0).evs
  down : w.down = []
  srv : PingSrvL P w.srv
  op : (Server.getUser w.srv P.u).outpacket.len = 0
  expect : Expect (Server.getUser w.srv P.u) out c0.outpkt.seqno.toNat o f
  syncd : (Server.getUser w.srv P.u).outpacket.seqno = c0.inpkt.seqno
  aged : Aged P (Server.getUser w.srv P.u) c0.datacmc 1
  paged : PAged P (Server.getUser w.srv P.u) c0.randSeed 1

/-- the answer counting after `send_chunk` from a state in which NOTHING was outstanding -/
theorem sentStateL_cnt0rO (c : Client.Cli) (hc : CntOk c 0) : CntOk { sentStateL c with sendPingSoon := 0 } 1 := by
  have h1 : CntOk (sentState c) 0 := by
    unfold CntOk at *
    unfold sentState Client.rotateChunkid
    exact hc
  show CntOk (bumpCnt (sentState c)) 1
  unfold CntOk bumpCnt at *
  split
  · show (sentState c).sendcnt + 1 < 0 ∨ 100 ≤ (sentState c).sendcnt + 1 ∨ (sentState c).sendcnt + 1 ≤ ((sentState c).recvcnt : Int) + ((1 : Nat) : Int)
    omega
  · omega

/-- `tunnel_dns` on a two-byte (dataless) answer to the MOST RECENT query in lazy mode that announces no new downstream
packet: the lazy-mode hint fires (`send_ping_soon = 900`), then straight to the upstream-ack code; `send_something_now`
starts as "a ping was due" -/
theorem tunnelDns_dataless_cur (c : Client.Cli) (rq : Client.Rq) (hn : Client.notData c rq.name0 = false) (hrv : rq.rv = 2)
    (hid : rq.id = c.chunkid) (hlz : c.lazymode = true)
    (hdn : (Client.decodeHdr rq.buf).dnSeq = c.inpkt.seqno) :
    Client.tunnelDns c rq = Client.upstream (hintBook c) (Client.decodeHdr rq.buf) [] (c.sendPingSoon != 0) 2 := by
  have hrid : Client.recentId (Client.countRecv { c with sendPingSoon := 0 }) rq.id = true := by
    unfold Client.recentId
    rw [hid]
    show (c.chunkid == c.chunkid || _ || _) = true
    simp
  unfold Client.tunnelDns
  simp only [hn, Bool.false_eq_true, if_false, hrv]
  have h1 : ¬ ((2 : Int) < 2) := by omega
  have h2 : ¬ ((2 : Int) = 5 ∧ rq.buf.take 5 = Client.ascii "BADIP") := by omega
  rw [if_neg h1, if_neg h2]
  have hd : Client.dupeSeqno { c with sendPingSoon := 0 } (Client.decodeHdr rq.buf) 2 = ({ c with sendPingSoon := 0 }, 2) := by
    unfold Client.dupeSeqno
    rw [if_neg (by omega)]
  simp only [hd, hrid, Bool.not_true, Bool.false_eq_true, if_false]
  have hl : Client.lazyHint { Client.countRecv { c with sendPingSoon := 0 } with
      lastdownstreamtime := (Client.countRecv { c with sendPingSoon := 0 }).now } rq.id = hintBook c := by
    unfold Client.lazyHint
    rw [if_pos ⟨hid, hlz⟩, if_pos (Or.inl (by rfl))]
    rfl
  rw [hl]
  have hda : Client.datalessAdopt (hintBook c) (Client.decodeHdr rq.buf) 2 = hintBook c := by
    unfold Client.datalessAdopt
    rw [if_neg (by intro hh; exact hh.2.1 hdn)]
  rw [hda]
  have hds : Client.downstream (hintBook c) (Client.decodeHdr rq.buf) rq.buf 2 (c.sendPingSoon != 0) =
      (hintBook c, [], c.sendPingSoon != 0) := by
    unfold Client.downstream
    rw [if_neg (by omega)]
  rw [hds]

end Iodine.C02L
