import IodineModel.Server.Options
import IodineModel.Lemmas.Opt
/-
Helper lemmas about the model of iodined.c's `main()` (Server/Options.lean): what the option loop leaves in the password
buffer and in `mtu`, what `validate` has established when it lets a command line through, what `startup` copies into the
globals.
-/
namespace Iodine.OptL
open Iodine Iodine.Getopt Iodine.Server.Options

/-- the argument of the last `-P` among the values `getopt` returned, `prev` if there is none -/
def lastPFrom : List Opt → Option (List Nat) → Option (List Nat)
  | [], prev => prev
  | .arg 80 a :: xs, _ => lastPFrom xs (some a)
  | _ :: xs, prev => lastPFrom xs prev

def nextP (x : Opt) (prev : Option (List Nat)) : Option (List Nat) :=
  match x with
  | .arg 80 a => some a
  | _ => prev

theorem lastPFrom_cons (x : Opt) (xs : List Opt) (prev : Option (List Nat)) :
    lastPFrom (x :: xs) prev = lastPFrom xs (nextP x prev) := by
  cases x with
  | flag c => rfl
  | bad => rfl
  | arg c a =>
    by_cases hc : c = 80
    · subst hc; rfl
    · have h1 : nextP (.arg c a) prev = prev := by
        unfold nextP; split
        · rename_i h; injection h with h _; exact absurd h hc
        · rfl
      rw [h1]
      conv => lhs; unfold lastPFrom
      split
      · rename_i h; injection h
      · rename_i h; injection h with h _; injection h with h _; exact absurd h hc
      · rename_i h; injection h with _ h; rw [h]

/-- the arguments `getopt` hands out are (suffixes of) elements of `argv` -/
theorem cluster_args (os cs : List Nat) (a : List Nat) (c : Nat) (h : Opt.arg c a ∈ (cluster os cs).1) : ∃ pre, cs = pre ++ a := by
  induction cs with
  | nil => simp [cluster] at h
  | cons x xs ih =>
    unfold cluster at h
    split at h
    · simp at h
    · simp only [List.mem_cons] at h
      rcases h with h | h
      · injection h
      · obtain ⟨pre, hp⟩ := ih h; exact ⟨x :: pre, by rw [hp]; rfl⟩
    · split at h
      · simp at h
      · simp only [List.mem_singleton] at h
        injection h with _ h2
        exact ⟨[x], by rw [h2]; rfl⟩

theorem scan_args (os : List Nat) : ∀ (argv nonopts : List (List Nat)) (c : Nat) (a : List Nat),
    (∀ x ∈ argv, 0 ∉ x) → Opt.arg c a ∈ (scan os argv nonopts).1 → 0 ∉ a
  | [], _, _, _, _, h => by simp [scan] at h
  | x :: rest, nonopts, c, a, hz, h => by
    have hx : 0 ∉ x := hz x (by simp)
    have hrest : ∀ y ∈ rest, 0 ∉ y := fun y hy => hz y (by simp [hy])
    have sub : ∀ opts, Opt.arg c a ∈ opts → opts = (cluster os (x.drop 1)).1 → 0 ∉ a := by
      intro opts hm he
      rw [he] at hm
      obtain ⟨pre, hp⟩ := cluster_args os _ a c hm
      intro h0
      have : 0 ∈ x.drop 1 := by rw [hp]; simp [h0]
      exact hx (List.mem_of_mem_drop this)
    unfold scan at h
    split at h
    · simp at h
    · split at h
      · split at h
        · rename_i opts heq
          simp only [List.mem_append] at h
          rcases h with h | h
          · exact sub opts h (by rw [heq])
          · exact scan_args os rest nonopts c a hrest h
        · rename_i opts heq
          simp only [List.mem_append, List.mem_singleton] at h
          rcases h with h | h
          · exact sub opts h (by rw [heq])
          · injection h
        · rename_i opts c' heq
          split at h
          · simp only [List.mem_append, List.mem_singleton] at h
            rcases h with h | h
            · exact sub opts h (by rw [heq])
            · injection h
          · rename_i y rest'
            simp only [List.mem_append, List.mem_cons] at h
            rcases h with h | h | h
            · exact sub opts h (by rw [heq])
            · injection h with _ h2; rw [h2]; exact hrest y (by simp)
            · exact scan_args os rest' nonopts c a (fun z hz' => hrest z (by simp [hz'])) h
      · exact scan_args os rest _ c a hrest h

theorem lastPFrom_mem : ∀ (xs : List Opt) (prev : Option (List Nat)) (p : List Nat),
    lastPFrom xs prev = some p → prev = some p ∨ Opt.arg 80 p ∈ xs
  | [], prev, p, h => by simp [lastPFrom] at h; exact Or.inl h
  | x :: xs, prev, p, h => by
    rw [lastPFrom_cons] at h
    rcases lastPFrom_mem xs _ p h with h1 | h1
    · unfold nextP at h1
      split at h1
      · injection h1 with h1; subst h1; exact Or.inr (by simp)
      · exact Or.inl h1
    · exact Or.inr (by simp [h1])

theorem lastP_nz (os : List Nat) (argv : List (List Nat)) (hc : ∀ a ∈ argv, 0 ∉ a) (p : List Nat)
    (h : lastPFrom (getoptAll os argv).1 none = some p) : 0 ∉ p := by
  rcases lastPFrom_mem _ _ p h with h1 | h1
  · simp at h1
  · exact scan_args os (argv.drop 1) [] 80 p (fun x hx => hc x (List.mem_of_mem_drop hx)) h1

/-- invariant of the server's option loop -/
structure SInv (o : Opts) (prev : Option (List Nat)) : Prop where
  pw : o.password = blk prev
  mtu : o.mtu < 2 ^ 31

theorem sinv_init : SInv {} none := ⟨rfl, by decide⟩

theorem srv_optStep_inv (o o' : Opts) (x : Opt) (prev : Option (List Nat)) (hi : SInv o prev)
    (h : optStep o x = .ok o') : SInv o' (nextP x prev) := by
  obtain ⟨hpw, hmtu⟩ := hi
  unfold optStep at h
  split at h
  all_goals try (split at h)
  all_goals try (simp at h; done)
  all_goals (simp only [Except.ok.injEq] at h; subst h; refine ⟨?_, ?_⟩)
  all_goals try (simpa [nextP] using hpw)
  all_goals try exact hmtu
  all_goals try exact atoi_lt _
  simp only [nextP]
  rw [strncpy_set _ _ (by rw [hpw, blk_length])]
  rfl

theorem srv_optLoop_inv : ∀ (xs : List Opt) (o o' : Opts) (prev : Option (List Nat)), SInv o prev →
    optLoop o xs = .ok o' → SInv o' (lastPFrom xs prev)
  | [], o, o', prev, hi, h => by
    simp only [optLoop, Except.ok.injEq] at h; subst h; exact hi
  | x :: xs, o, o', prev, hi, h => by
    simp only [optLoop] at h
    split at h
    · exact absurd h (by simp)
    · rename_i o1 h1
      rw [lastPFrom_cons]
      exact srv_optLoop_inv xs o1 o' _ (srv_optStep_inv o o1 x prev hi h1) h

/-- what `validate` has established when it lets a command line through -/
structure ValidOk (env : Env) (o : Opts) (v : Validated) : Prop where
  o_eq : v.o = o
  ip : v.myIp ≠ 0xffffffff
  ip_le : v.myIp ≤ 0xffffffff
  td : Common.checkTopdomain v.topdomain true = 0
  mtu : 0 < o.mtu
  port : 1 ≤ o.port ∧ o.port ≤ 65535
  nm : 8 ≤ v.netmask ∧ v.netmask ≤ 30
  ns : v.nsIp ≠ 0xffffffff
  bind : o.bindEnable = true → 1 ≤ o.bindPort ∧ o.bindPort ≤ 65535
  pw : v.password = (passwordPhase env.envPass env.typed o.password).1

theorem validate_ok (env : Env) (o : Opts) (rest : List (List Nat)) (v : Validated) (evs : List Ev)
    (h : validate env o rest = .ok (v, evs)) : ValidOk env o v := by
  unfold validate at h
  split at h
  · simp only at h
    repeat' split at h
    all_goals try (simp [usage] at h; done)
    all_goals
      simp only [Except.ok.injEq, Prod.mk.injEq] at h
      obtain ⟨h, _⟩ := h
      subst h
      refine ⟨rfl, ?_, ?_, ?_, ?_, ?_, ?_, ?_, ?_, rfl⟩ <;> try dsimp only
      · assumption
      · exact inetAddr_le _
      · omega
      · omega
      · omega
      · omega
      · assumption
      · intro hb
        simp only [hb, true_and] at *
        omega
  · simp [usage] at h

/-- `startup` copies what `validate` decided into the globals -/
theorem startup_final (env : Env) (v : Validated) (evs : List Ev) (f : Final) (h : (startup env v evs).final = some f) :
    ∃ v4 v6, f = finalOf v v4 v6 := by
  unfold startup at h
  repeat' split at h
  all_goals try (simp at h; done)
  all_goals
    simp only [Option.some.injEq] at h
    exact ⟨_, _, h.symm⟩

/-- `tunnel()` is entered only with the globals set -/
theorem startup_run (env : Env) (v : Validated) (evs : List Ev) (c : Int) (h : (startup env v evs).outcome = .run c) :
    ∃ f, (startup env v evs).final = some f := by
  unfold startup at h ⊢
  repeat' split at h
  all_goals try (simp at h; done)
  all_goals simp_all

/-- the three phases of `serverMain`, for a run that reaches `tunnel()` -/
theorem serverMain_final (env : Env) (argv : List (List Nat)) (f : Final) (h : (serverMain env argv).final = some f) :
    ∃ o v evs v4 v6, optLoop {} (getoptAll optstring argv).1 = .ok o ∧
      validate env o (getoptAll optstring argv).2 = .ok (v, evs) ∧ f = finalOf v v4 v6 := by
  unfold serverMain at h
  simp only at h
  split at h
  · simp at h
  · rename_i o ho
    split at h
    · simp at h
    · rename_i v evs hv
      obtain ⟨v4, v6, hf⟩ := startup_final env v evs f h
      exact ⟨o, v, evs, v4, v6, ho, hv, hf⟩

theorem serverMain_run (env : Env) (argv : List (List Nat)) (c : Int) (h : (serverMain env argv).outcome = .run c) :
    ∃ f, (serverMain env argv).final = some f := by
  unfold serverMain at h ⊢
  simp only at h ⊢
  split
  · rename_i e he
    rw [he] at h
    cases e <;> simp [Exit.toOutcome] at h
  · rename_i o ho
    rw [ho] at h
    simp only at h ⊢
    split
    · rename_i e evs he
      rw [he] at h
      cases e <;> simp [Exit.toOutcome] at h
    · rename_i v evs hv
      rw [hv] at h
      exact startup_run env v evs c h

end Iodine.OptL
