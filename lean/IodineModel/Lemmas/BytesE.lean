import IodineModel.Lemmas.BytesC
import IodineModel.Props.C14
/-
Helper lemmas for the byte-level server, part E: byte-level runs and C14 — every `write_dns` of a run answers a query
`read_dns` decoded from a datagram of that run.
-/
namespace Iodine.BytesL
open Iodine Iodine.Server

theorem runFrom_bsteps : ∀ (l : List (BInput × Nat)) (b : BSrv), runFrom b.srv (bsteps b l) = (brun b l).srv
  | [], _ => rfl
  | (i, n) :: rest, b => by
    simp only [bsteps, runFrom, brun]
    exact runFrom_bsteps rest (biteration b i n).1

theorem bsteps_append : ∀ (l : List (BInput × Nat)) (b : BSrv) (i : BInput) (n : Nat),
    bsteps b (l ++ [(i, n)]) = bsteps b l ++ [⟨toInput (brun b l).srv i, n⟩]
  | [], _, _, _ => rfl
  | (j, m) :: rest, b, i, n => by
    simp only [List.cons_append, bsteps, brun]
    rw [bsteps_append rest]

theorem wf_bsteps : ∀ (l : List (BInput × Nat)) (b : BSrv), ∀ st ∈ bsteps b l, C14.WfStep st
  | [], _, st, h => by simp [bsteps] at h
  | (i, n) :: rest, b, st, h => by
    simp only [bsteps, List.mem_cons] at h
    rcases h with rfl | h
    · unfold C14.WfStep
      split
      · rename_i q hq
        exact (toInput_q (s := b.srv) (inp := i) hq).1
      · trivial
    · exact wf_bsteps rest _ st h

/-- a step of the session machine in a byte-level run comes from one of the run's inputs -/
theorem mem_bsteps : ∀ (l : List (BInput × Nat)) (b : BSrv), ∀ st ∈ bsteps b l,
    ∃ (b' : BSrv) (i : BInput) (n : Nat), (i, n) ∈ l ∧ st = ⟨toInput b'.srv i, n⟩
  | [], _, st, h => by simp [bsteps] at h
  | (i, n) :: rest, b, st, h => by
    simp only [bsteps, List.mem_cons] at h
    rcases h with rfl | h
    · exact ⟨b, i, n, List.mem_cons_self, rfl⟩
    · obtain ⟨b', j, m, hm, hst⟩ := mem_bsteps rest _ st h
      exact ⟨b', j, m, List.mem_cons_of_mem _ hm, hst⟩

theorem mem_traceFrom_step : ∀ (steps : List Step) (s : Srv), ∀ t ∈ traceFrom s steps, t.step ∈ steps
  | [], _, t, h => by simp [traceFrom] at h
  | st :: rest, s, t, h => by
    simp only [traceFrom, List.mem_cons] at h
    rcases h with rfl | h
    · exact List.mem_cons_self
    · exact List.mem_cons_of_mem _ (mem_traceFrom_step rest _ t h)

theorem traceFrom_append : ∀ (steps : List Step) (s : Srv) (st : Step),
    traceFrom s (steps ++ [st]) = traceFrom s steps ++ [⟨st, runFrom s steps, out (runFrom s steps) st, next (runFrom s steps) st⟩]
  | [], _, _ => rfl
  | a :: rest, s, st => by
    simp only [List.cons_append, traceFrom, runFrom]
    rw [traceFrom_append rest]

/-- C14 for one `ans` event of a run from start-up: its key is the key of a query that arrived in the run -/
theorem ans_key_received (cfg : Config) (rnd : List Nat) (steps : List Step) (hwf : ∀ st ∈ steps, C14.WfStep st)
    (t : TraceStep) (ht : t ∈ traceFrom (start cfg rnd) steps) (dst : Addr) (id ty dn : Nat) (name data : List Nat) (tag : Tag)
    (he : Event.ans dst id ty dn name data tag ∈ t.events) :
    ∃ q, (⟨.q q, 0⟩ : Step).inp ∈ steps.map (·.inp) ∧ C14.queryKey q = (dst, id, name, ty) := by
  obtain ⟨pending, hmon, _⟩ := C14.held_queries_are_pending cfg rnd steps hwf
  have hc := C14.count_monitor _ _ _ hmon (dst, id, name, ty)
  have hans : (dst, id, name, ty) ∈ C14.answered (traceFrom (start cfg rnd) steps) := by
    unfold C14.answered
    exact List.mem_flatMap.2 ⟨t, ht, List.mem_filterMap.2 ⟨_, he, rfl⟩⟩
  have hpos := List.count_pos_iff.2 hans
  have hrec : (dst, id, name, ty) ∈ C14.receivedAll (traceFrom (start cfg rnd) steps) := by
    apply List.count_pos_iff.1
    simp only [List.count_nil] at hc
    omega
  unfold C14.receivedAll at hrec
  obtain ⟨t', ht', hk⟩ := List.mem_flatMap.1 hrec
  unfold C14.received at hk
  split at hk
  · rename_i q hq
    simp only [List.mem_singleton] at hk
    have hstep := mem_traceFrom_step _ _ t' ht'
    refine ⟨q, ?_, hk.symm⟩
    have hinp : t'.step.inp = .q q := by
      unfold C14.arriving at hq
      split at hq
      · rename_i q' hq'; cases hq; exact hq'
      · cases hq
    exact List.mem_map.2 ⟨t'.step, hstep, hinp⟩
  · cases hk

end Iodine.BytesL
