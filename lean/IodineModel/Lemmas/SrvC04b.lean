import IodineModel.Lemmas.SrvC04a
/-
Helper lemmas for C04, part b: the data path.  Every function of the downstream machinery writes only slot `u`
(`Frame … (· = u)`), and `send_chunk_or_dataless` emits only answers to the stored query it was given.
-/
namespace Iodine.C04L
open Iodine Iodine.Server Iodine.Gen

/-! ### outpacket machinery: `Frame erOut` -/

theorem frame_startNewOutpacket (s : Srv) (u : Nat) (d : List Nat) (n : Nat) :
    Frame erOut (· = u) s (startNewOutpacket s u d n) :=
  Frame.set erOut s u _ (fun _ => rfl)

theorem frame_saveToOutpacketq (s : Srv) (u : Nat) (d : List Nat) (n : Nat) :
    Frame erOut (· = u) s (saveToOutpacketq s u d n).1 := by
  unfold saveToOutpacketq
  dsimp only
  split
  · exact Frame.refl _ _ _
  · exact Frame.set erOut s u _ (fun _ => rfl)

theorem frame_getFromOutpacketq (s : Srv) (u : Nat) :
    Frame erOut (· = u) s (getFromOutpacketq s u).1 := by
  unfold getFromOutpacketq
  dsimp only
  split
  · exact Frame.refl _ _ _
  · exact (frame_startNewOutpacket s u _ _).trans (Frame.set erOut _ u _ (fun _ => rfl))

theorem frame_dropOut (s : Srv) (u : Nat) : Frame erOut (· = u) s (setUser s u dropOut) :=
  Frame.set erOut s u _ (fun _ => rfl)

theorem frame_scDropResent (s : Srv) (u : Nat) : Frame erOut (· = u) s (scDropResent s u) := by
  unfold scDropResent
  dsimp only
  split
  · exact (frame_dropOut s u).trans (frame_getFromOutpacketq _ u)
  · exact Frame.refl _ _ _

theorem frame_scPrepare (s : Srv) (u : Nat) : Frame erOut (· = u) s (scPrepare s u) := by
  unfold scPrepare
  split
  · exact Frame.set erOut s u _ (fun _ => rfl)
  · exact Frame.refl _ _ _

theorem frame_processDownstreamAck (s : Srv) (u : Nat) (a b : Int) :
    Frame erOut (· = u) s (processDownstreamAck s u a b) := by
  unfold processDownstreamAck
  dsimp only
  split
  · exact Frame.refl _ _ _
  split
  · exact Frame.refl _ _ _
  split
  · exact Frame.refl _ _ _
  split
  · refine Frame.trans ?_ (frame_getFromOutpacketq _ u)
    refine Frame.trans ?_ (Frame.set erOut _ u _ (fun _ => rfl))
    exact Frame.set erOut _ u _ (fun _ => rfl)
  · exact Frame.set erOut _ u _ (fun _ => rfl)

/-! ### caches: `Frame erData` -/

theorem frame_saveToDnscache (s : Srv) (u : Nat) (q : Query) (a : List Nat) :
    Frame erData (· = u) s (saveToDnscache s u q a) := by
  unfold saveToDnscache
  split
  · exact Frame.refl _ _ _
  · exact Frame.set erData s u _ (fun _ => rfl)

theorem frame_saveToQmemPingOrData (s : Srv) (u : Nat) (q : Query) :
    Frame erData (· = u) s (saveToQmemPingOrData s u q) := by
  unfold saveToQmemPingOrData
  dsimp only
  split
  · split
    · exact Frame.refl _ _ _
    · split
      · exact Frame.refl _ _ _
      · exact Frame.set erData s u _ (fun _ => rfl)
  · split
    · exact Frame.refl _ _ _
    · exact Frame.set erData s u _ (fun _ => rfl)

theorem frame_saveQuery (s : Srv) (u : Nat) (q : Query) : Frame erData (· = u) s (saveQuery s u q) :=
  Frame.set erData s u _ (fun _ => rfl)

theorem frame_rememberDuplicate (s s' : Srv) (u : Nat) (q : Query) (h : rememberDuplicate s u q = some s') :
    Frame erData (· = u) s s' := by
  unfold rememberDuplicate at h
  dsimp only at h
  split at h
  · cases h; exact Frame.set erData s u _ (fun _ => rfl)
  · split at h
    · cases h; exact Frame.set erData s u _ (fun _ => rfl)
    · cases h

/-! ### send_chunk_or_dataless -/

theorem frame_sc_prep (s : Srv) (u : Nat) : Frame erOut (· = u) s (scPrepare (scDropResent s u) u) :=
  (frame_scDropResent s u).trans (frame_scPrepare _ u)

theorem frame_sendChunkOrDataless (s : Srv) (u : Nat) (w : QSel) :
    Frame erData (· = u) s (sendChunkOrDataless s u w).1.1 := by
  have h0 : Frame erData (· = u) s (scPrepare (scDropResent s u) u) := (frame_sc_prep s u).coarsen erData_erOut
  unfold sendChunkOrDataless
  have hset : ∀ (s' : Srv) (qq : Query), Frame erData (· = u) s' (setUser s' u fun y => w.set y qq) := by
    intro s' qq
    apply Frame.set erData s' u
    intro x; cases w <;> rfl
  have h4 : ∀ qq q2 pk, Frame erData (· = u) s (setUser (saveToDnscache (saveToQmemPingOrData
      (scPrepare (scDropResent s u) u) u q2) u q2 pk) u fun y => w.set y qq) := by
    intro qq q2 pk
    refine Frame.trans ?_ (hset _ qq)
    refine Frame.trans ?_ (frame_saveToDnscache _ u _ _)
    exact Frame.trans h0 (frame_saveToQmemPingOrData _ u _)
  dsimp only
  split
  · refine Frame.trans ?_ ((frame_getFromOutpacketq _ u).coarsen erData_erOut)
    refine Frame.trans ?_ ((frame_dropOut _ u).coarsen erData_erOut)
    exact h4 _ _ _
  · exact h4 _ _ _

/-- the stored queries are not touched by the first two blocks -/
theorem sc_prep_q (s : Srv) (u : Nat) (w : QSel) :
    w.get (getUser (scPrepare (scDropResent s u) u) u) = w.get (getUser s u) := by
  have h := (frame_sc_prep s u).rel u
  cases w
  · exact erOut_q h
  · exact erOut_qs h

/-- `send_chunk_or_dataless(u, q)` emits: the answer to the stored query `q` (tag `chunk u`) and, when a duplicate is
remembered, the same to the duplicate's id/address (tag `dupe u`) -/
theorem sendChunkOrDataless_events (s : Srv) (u : Nat) (w : QSel) :
    ∃ pkt dn, (sendChunkOrDataless s u w).1.2 = (scAnswer (w.get (getUser s u)) pkt dn u).2 := by
  refine ⟨scPkt (getUser (scPrepare (scDropResent s u) u) u) (scDatalen (getUser (scPrepare (scDropResent s u) u) u)),
    (getUser (scPrepare (scDropResent s u) u) u).downenc, ?_⟩
  rw [← sc_prep_q s u w]
  unfold sendChunkOrDataless
  dsimp only
  split <;> rfl

theorem scAnswer_events (q : Query) (pkt : List Nat) (dn u : Nat) :
    ∀ e ∈ (scAnswer q pkt dn u).2,
      e = Event.ans q.from_ q.id q.type dn q.name pkt (.chunk u) ∨
      (q.id2 ≠ 0 ∧ e = Event.ans q.from2 q.id2 q.type dn q.name pkt (.dupe u)) := by
  intro e he
  unfold scAnswer at he
  split at he
  · next h =>
    simp only [List.mem_cons, List.not_mem_nil, or_false] at he
    rcases he with rfl | rfl
    · left; rfl
    · right; exact ⟨h, rfl⟩
  · simp only [List.mem_cons, List.not_mem_nil, or_false] at he
    left; exact he

/-- model-level shape of the events of the data path towards session `t` whose stored queries are those of `x` -/
def ToSess (x : Session) (t : Nat) (e : Event) : Prop :=
  (∃ id ty dn nm pkt, e = Event.ans x.q.from_ id ty dn nm pkt (.chunk t)) ∨
  (∃ id ty dn nm pkt, e = Event.ans x.qs.from_ id ty dn nm pkt (.chunk t)) ∨
  (∃ id ty dn nm pkt, e = Event.ans x.q.from2 id ty dn nm pkt (.dupe t)) ∨
  (∃ id ty dn nm pkt, e = Event.ans x.qs.from2 id ty dn nm pkt (.dupe t)) ∨
  (∃ bytes, e = Event.raw x.q.from_ bytes)

theorem sendChunkOrDataless_toSess (s : Srv) (u : Nat) (w : QSel) :
    ∀ e ∈ (sendChunkOrDataless s u w).1.2, ToSess (getUser s u) u e := by
  obtain ⟨pkt, dn, h⟩ := sendChunkOrDataless_events s u w
  rw [h]
  intro e he
  rcases scAnswer_events _ pkt dn u e he with rfl | ⟨_, rfl⟩
  · cases w
    · exact Or.inl ⟨_, _, _, _, _, rfl⟩
    · exact Or.inr (Or.inl ⟨_, _, _, _, _, rfl⟩)
  · cases w
    · exact Or.inr (Or.inr (Or.inl ⟨_, _, _, _, _, rfl⟩))
    · exact Or.inr (Or.inr (Or.inr (Or.inl ⟨_, _, _, _, _, rfl⟩)))

/-- `ToSess` only depends on the addresses in the stored queries -/
theorem ToSess.congr {x y : Session} {t : Nat} {e : Event} (h : ToSess x t e) (hq : y.q = x.q) (hqs : y.qs = x.qs) :
    ToSess y t e := by
  unfold ToSess at *
  rw [hq, hqs]; exact h

/-! ### sendWaiting, tunnelTun, deliverToUser, handleFullPacket -/

theorem frame_sendWaiting (s : Srv) (u : Nat) : Frame erData (· = u) s (sendWaiting s u).1 := by
  unfold sendWaiting
  dsimp only
  split
  · exact frame_sendChunkOrDataless s u .qs
  · split
    · exact frame_sendChunkOrDataless s u .q
    · exact Frame.refl _ _ _

theorem sendWaiting_toSess (s : Srv) (u : Nat) : ∀ e ∈ (sendWaiting s u).2, ToSess (getUser s u) u e := by
  unfold sendWaiting
  dsimp only
  split
  · exact sendChunkOrDataless_toSess s u .qs
  · split
    · exact sendChunkOrDataless_toSess s u .q
    · intro e he; cases he

/-- `startNewOutpacket` then `sendWaiting`: events go to the queries stored before -/
theorem start_sendWaiting_toSess (s : Srv) (u : Nat) (d : List Nat) (n : Nat) :
    ∀ e ∈ (sendWaiting (startNewOutpacket s u d n) u).2, ToSess (getUser s u) u e := by
  intro e he
  have h := (frame_startNewOutpacket s u d n).rel u
  exact (sendWaiting_toSess _ u e he).congr (erOut_q h).symm (erOut_qs h).symm

/-- the part of `tunnel_tun` / `handle_full_packet` after the owner `t` of the destination was found -/
theorem frame_deliverToUser (s : Srv) (t : Nat) (d : List Nat) (n : Nat) :
    Frame erData (· = t) s (deliverToUser s t d n).1 := by
  unfold deliverToUser
  dsimp only
  split
  · split
    · exact ((frame_startNewOutpacket s t d n).coarsen erData_erOut).trans (frame_sendWaiting _ t)
    · exact (frame_saveToOutpacketq s t d n).coarsen erData_erOut
  · exact Frame.refl _ _ _

theorem deliverToUser_toSess (s : Srv) (t : Nat) (d : List Nat) (n : Nat) :
    ∀ e ∈ (deliverToUser s t d n).2, ToSess (getUser s t) t e := by
  unfold deliverToUser
  dsimp only
  split
  · split
    · exact start_sendWaiting_toSess s t d n
    · intro e he; cases he
  · intro e he
    simp only [List.mem_cons, List.not_mem_nil, or_false] at he
    subst he
    exact Or.inr (Or.inr (Or.inr (Or.inr ⟨_, rfl⟩)))

/-- `tunnel_tun` for a frame the model accepts: what happens once `find_user_by_ip` has answered -/
theorem tunnelTun_none (s : Srv) (frame : List Nat) (h : findUserByIp s (ipDst frame) = none) :
    tunnelTun s frame = (s, []) := by
  unfold tunnelTun
  split
  · rfl
  split
  · rfl
  rw [h]

theorem tunnelTun_some_frame (s : Srv) (frame : List Nat) (t : Nat) (h : findUserByIp s (ipDst frame) = some t) :
    Frame erData (· = t) s (tunnelTun s frame).1 := by
  unfold tunnelTun
  split
  · exact Frame.refl _ _ _
  split
  · exact Frame.refl _ _ _
  rw [h]
  dsimp only
  split
  · split
    · exact (frame_saveToOutpacketq s t _ _).coarsen erData_erOut
    · exact ((frame_startNewOutpacket s t _ _).coarsen erData_erOut).trans (frame_sendWaiting _ t)
  · exact Frame.refl _ _ _

theorem tunnelTun_some_events (s : Srv) (frame : List Nat) (t : Nat) (h : findUserByIp s (ipDst frame) = some t) :
    ∀ e ∈ (tunnelTun s frame).2, ToSess (getUser s t) t e := by
  unfold tunnelTun
  split
  · intro e he; cases he
  split
  · intro e he; cases he
  rw [h]
  dsimp only
  split
  · split
    · intro e he; cases he
    · exact start_sendWaiting_toSess s t _ _
  · intro e he
    simp only [List.mem_cons, List.not_mem_nil, or_false] at he
    subst he
    exact Or.inr (Or.inr (Or.inr (Or.inr ⟨_, rfl⟩)))

/-- the three outcomes of `handle_full_packet` -/
inductive FullPacketCase (s : Srv) (u : Nat) : Type where
  | dropped
  | toTun (out : List Nat)
  | forward (out : List Nat) (t : Nat)

/-- the decompressed packet of user `u`, if it is a well-formed IP packet -/
def fullPacketOut (s : Srv) (u : Nat) : Option (List Nat) :=
  let x := getUser s u
  match uncompress (x.inpacket.data.take x.inpacket.len) 65536 with
  | some out => if out.length ≥ 4 + 20 then some out else none
  | none => none

def resetIn (y : Session) : Session := { y with inpacket := { y.inpacket with len := 0, offset := 0 } }

theorem handleFullPacket_dropped (s : Srv) (u : Nat) (h : fullPacketOut s u = none) :
    handleFullPacket s u = (setUser s u resetIn, []) := by
  unfold fullPacketOut at h
  unfold handleFullPacket
  dsimp only at h ⊢
  generalize uncompress (List.take (getUser s u).inpacket.len (getUser s u).inpacket.data) 65536 = r at h ⊢
  cases r with
  | none => rfl
  | some out =>
    dsimp only at h ⊢
    split at h
    · cases h
    · next h2 => rw [if_neg h2]; rfl

theorem handleFullPacket_toTun (s : Srv) (u : Nat) (out : List Nat) (h : fullPacketOut s u = some out)
    (hn : findUserByIp s (ipDst out) = none) :
    handleFullPacket s u = (setUser s u resetIn, [writeTun out]) := by
  unfold fullPacketOut at h
  unfold handleFullPacket
  dsimp only at h ⊢
  generalize uncompress (List.take (getUser s u).inpacket.len (getUser s u).inpacket.data) 65536 = r at h ⊢
  cases r with
  | none => cases h
  | some out' =>
    dsimp only at h ⊢
    split at h
    · next h2 => cases h; rw [if_pos h2, hn]; rfl
    · cases h

theorem handleFullPacket_forward (s : Srv) (u : Nat) (out : List Nat) (t : Nat) (h : fullPacketOut s u = some out)
    (hn : findUserByIp s (ipDst out) = some t) :
    handleFullPacket s u =
      (setUser (deliverToUser s t (getUser s u).inpacket.data (getUser s u).inpacket.len).1 u resetIn,
       (deliverToUser s t (getUser s u).inpacket.data (getUser s u).inpacket.len).2) := by
  unfold fullPacketOut at h
  unfold handleFullPacket
  dsimp only at h ⊢
  generalize uncompress (List.take (getUser s u).inpacket.len (getUser s u).inpacket.data) 65536 = r at h ⊢
  cases r with
  | none => cases h
  | some out' =>
    dsimp only at h ⊢
    split at h
    · next h2 => cases h; rw [if_pos h2, hn]; rfl
    · cases h

theorem fullPacketOut_len (s : Srv) (u : Nat) (out : List Nat) (h : fullPacketOut s u = some out) : 24 ≤ out.length := by
  unfold fullPacketOut at h
  dsimp only at h
  generalize uncompress (List.take (getUser s u).inpacket.len (getUser s u).inpacket.data) 65536 = r at h
  cases r with
  | none => cases h
  | some out' =>
    dsimp only at h
    split at h
    · next h2 => cases h; exact h2
    · cases h

theorem frame_resetIn (s : Srv) (u : Nat) : Frame erIn (· = u) s (setUser s u resetIn) :=
  Frame.set erIn s u _ (fun _ => rfl)

/-- `handle_full_packet(u)` writes slot `u` and the slot of the owner of the destination address (if any) -/
theorem frame_handleFullPacket (s : Srv) (u : Nat) :
    Frame erData (fun v => v = u ∨ ∃ out, fullPacketOut s u = some out ∧ findUserByIp s (ipDst out) = some v) s
      (handleFullPacket s u).1 := by
  have hr : ∀ s', Frame erData (· = u) s' (setUser s' u resetIn) := fun s' => (frame_resetIn s' u).coarsen erData_erIn
  cases h : fullPacketOut s u with
  | none =>
    rw [handleFullPacket_dropped s u h]
    exact (hr s).mono (fun v hv => Or.inl hv)
  | some out =>
    cases hn : findUserByIp s (ipDst out) with
    | none =>
      rw [handleFullPacket_toTun s u out h hn]
      exact (hr s).mono (fun v hv => Or.inl hv)
    | some t =>
      rw [handleFullPacket_forward s u out t h hn]
      exact ((frame_deliverToUser s t _ _).mono (fun v hv => Or.inr ⟨out, rfl, hv ▸ hn⟩)).trans
        ((hr _).mono (fun v hv => Or.inl hv))

end Iodine.C04L
