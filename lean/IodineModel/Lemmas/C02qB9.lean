import IodineModel.Lemmas.C02qB6
import IodineModel.Lemmas.C02qB7
/-
C02, phase 2, sub-package "blackout" — part 9: COMPOSITION WITNESS, `k = 7` (kernel-evaluated).
-/
namespace Iodine.C02L
open Iodine Iodine.Gen Iodine.World Iodine.C02

/-- TEST `k = 7`: one frame lost, the next delivered -/
theorem compose_k7 : cleanAfter (bkW 7) [fB 0, fB 1] [fB 1] = true := by decide +kernel

theorem compose_k7' :
    (offerAllC 0 80 (giveupRunUp [fA 0, fA 1, fA 2, fA 3, fA 4, fA 5, fA 6] exW) [fB 0, fB 1]).tunS = [fB 1] := by
  have := compose_k7
  rw [bk_chain7]
  unfold cleanAfter at this
  simp only [Bool.and_eq_true, beq_iff_eq] at this
  exact this.1.2

end Iodine.C02L
