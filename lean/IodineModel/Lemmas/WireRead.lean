import IodineModel.Wire.Read
import IodineModel.Wire.DnsDecode
/-
Helper lemmas for C12 (a datagram is interpreted from its own bytes only) and for the no-fault part of
C05/C06 on the read side.

Two families, one per model function `f`:
* `f_indep` : `f ⟨pkt, r₁, cap⟩ … = f ⟨pkt, r₂, cap⟩ …` — every read the function performs is guarded by a
  comparison with `packetlen`;
* `f_ok`    : with `pkt.size ≤ cap` the function does not return a `Fault`.
-/
namespace Iodine.Wire

/-! ### the Except monad -/

@[simp] theorem bind_ok {ε α β} (a : α) (f : α → Except ε β) : (Except.ok a >>= f) = f a := rfl
@[simp] theorem bind_error {ε α β} (e : ε) (f : α → Except ε β) : (Except.error e >>= f) = Except.error e := rfl
@[simp] theorem map_ok {ε α β} (a : α) (f : α → β) : (Except.ok a : Except ε α).map f = .ok (f a) := rfl
@[simp] theorem map_error {ε α β} (e : ε) (f : α → β) : (Except.error e : Except ε α).map f = .error e := rfl

/-- "does not fault" -/
def IsOk {ε α} (x : Except ε α) : Prop := ∃ a, x = .ok a

theorem isOk_ok {ε α} (a : α) : IsOk (Except.ok a : Except ε α) := ⟨a, rfl⟩

theorem isOk_bind {ε α β} {x : Except ε α} {f : α → Except ε β}
    (hx : IsOk x) (hf : ∀ a, x = .ok a → IsOk (f a)) : IsOk (x >>= f) := by
  obtain ⟨a, ha⟩ := hx
  subst ha
  exact hf a rfl

/-! ### reads of the receive buffer -/

/-- a read below `packetlen` does not see the residue -/
theorem get_lt (pkt r : Array Nat) (cap i : Nat) (h : i < pkt.size) :
    (RxBuf.mk pkt r cap).get i = if cap ≤ i then .error .oob else .ok (pkt.getD i 0) := by
  simp only [RxBuf.get, h, if_true]

theorem get_indep (pkt r₁ r₂ : Array Nat) (cap i : Nat) (h : i < pkt.size) :
    (RxBuf.mk pkt r₁ cap).get i = (RxBuf.mk pkt r₂ cap).get i := by
  rw [get_lt _ _ _ _ h, get_lt _ _ _ _ h]

/-- a read below `packetlen ≤ cap` succeeds -/
theorem get_ok (b : RxBuf) (hcap : b.plen ≤ b.cap) (i : Nat) (h : i < b.plen) :
    b.get i = .ok (b.pkt.getD i 0) := by
  have : ¬ b.cap ≤ i := by omega
  simp only [RxBuf.get, this, if_false]
  rw [if_pos h]

/-! ### push -/

theorem push_ok {cap : Nat} {out : List Nat} (x : Nat) (h : out.length < cap) :
    push cap out x = .ok (out ++ [x]) := by
  simp only [push, h, if_true]

/-! ### readname: independence of the residue -/

theorem copyLabel_indep (pkt r₁ r₂ : Array Nat) (cap length : Nat) :
    ∀ c s out, copyLabel ⟨pkt, r₁, cap⟩ length c s out = copyLabel ⟨pkt, r₂, cap⟩ length c s out := by
  intro c
  induction c with
  | zero => intro s out; rfl
  | succ c ih =>
    intro s out
    simp only [copyLabel]
    split
    · rename_i h
      rw [get_indep pkt r₁ r₂ cap s h.2]
      simp only [ih]
    · rfl

theorem nameFinish_indep (pkt r₁ r₂ : Array Nat) (cap length s : Nat) (out : List Nat) :
    nameFinish ⟨pkt, r₁, cap⟩ length s out = nameFinish ⟨pkt, r₂, cap⟩ length s out := rfl

theorem nameLoop_indep (pkt r₁ r₂ : Array Nat) (cap length : Nat) (rec : Nat → Nat → Except Fault (List Nat)) (src0 : Nat) :
    ∀ fuel s out, nameLoop ⟨pkt, r₁, cap⟩ length rec src0 fuel s out
      = nameLoop ⟨pkt, r₂, cap⟩ length rec src0 fuel s out := by
  intro fuel
  induction fuel with
  | zero =>
    intro s out
    unfold nameLoop
    by_cases hs : s < pkt.size
    · simp only [RxBuf.plen, hs, not_true_eq_false, if_false, get_indep pkt r₁ r₂ cap s hs]
      rfl
    · simp only [RxBuf.plen, hs, not_false_eq_true, if_true]
      rfl
  | succ fuel ih =>
    intro s out
    unfold nameLoop
    by_cases hs : s < pkt.size
    · simp only [RxBuf.plen, hs, not_true_eq_false, if_false, get_indep pkt r₁ r₂ cap s hs]
      cases RxBuf.get ⟨pkt, r₂, cap⟩ s with
      | error e => rfl
      | ok c =>
        simp only [bind_ok, ih, copyLabel_indep pkt r₁ r₂ cap, nameFinish_indep pkt r₁ r₂ cap]
        by_cases h1 : c = 0 ∨ ¬out.length + 2 < length
        · simp only [h1, if_true]
        · simp only [h1, if_false]
          by_cases h2 : c &&& 192 = 192
          · simp only [h2, if_true]
            by_cases h3 : s + 1 < pkt.size
            · simp only [h3, not_true_eq_false, if_false, get_indep pkt r₁ r₂ cap (s + 1) h3]
            · simp only [h3, not_false_eq_true, if_true]
          · simp only [h2, if_false]
            by_cases h3 : c &&& 192 = 0
            · simp only [ne_eq, h3, not_true_eq_false, if_false]
              cases copyLabel ⟨pkt, r₂, cap⟩ length c (s + 1) out with
              | error e => rfl
              | ok x =>
                simp only [bind_ok]
                by_cases h4 : x.snd.length + 1 ≥ length
                · simp only [h4, if_true]
                · simp only [h4, if_false]
                  by_cases h5 : x.fst < pkt.size
                  · simp only [h5, if_true, get_indep pkt r₁ r₂ cap x.fst h5]
                  · simp only [h5, if_false]
            · simp only [ne_eq, h3, not_false_eq_true, if_true]
    · simp only [RxBuf.plen, hs, not_false_eq_true, if_true]
      rfl

theorem readnameLoop_indep (pkt r₁ r₂ : Array Nat) (cap : Nat) :
    ∀ loop src length, readnameLoop ⟨pkt, r₁, cap⟩ loop src length = readnameLoop ⟨pkt, r₂, cap⟩ loop src length := by
  intro loop
  induction loop with
  | zero => intro src length; rfl
  | succ loop ih =>
    intro src length
    simp only [readnameLoop, ih]
    exact nameLoop_indep pkt r₁ r₂ cap length _ src pkt.size src []

theorem readname_indep (pkt r₁ r₂ : Array Nat) (cap src length : Nat) :
    readname ⟨pkt, r₁, cap⟩ src length = readname ⟨pkt, r₂, cap⟩ src length := by
  simp only [readname, readnameLoop_indep pkt r₁ r₂ cap]

/-! ### readname: no fault -/

theorem copyLabel_ok (b : RxBuf) (hcap : b.plen ≤ b.cap) (length : Nat) :
    ∀ c s out, out.length < length →
      ∃ s' out', copyLabel b length c s out = .ok (s', out') ∧ s ≤ s' ∧ out'.length < length := by
  intro c
  induction c with
  | zero => intro s out h; exact ⟨s, out, rfl, Nat.le_refl _, h⟩
  | succ c ih =>
    intro s out h
    simp only [copyLabel]
    split
    · rename_i hc
      rw [get_ok b hcap s hc.2, bind_ok, push_ok _ h, bind_ok]
      obtain ⟨s', out', he, hs, ho⟩ := ih (s + 1) (out ++ [b.pkt.getD s 0]) (by simp; omega)
      exact ⟨s', out', he, by omega, ho⟩
    · exact ⟨s, out, rfl, Nat.le_refl _, h⟩

/-- what a `readname` call leaves at the start of its `dst[length]`: nothing, or at most `length` bytes
the last of which is the terminating NUL (the C return value is the number of these bytes) -/
def NameOut (length : Nat) (w : List Nat) : Prop := w.length ≤ length ∧ (w = [] ∨ ∃ w', w = w' ++ [0])

/-- no fault, and the output is well-formed -/
def OkOut (length : Nat) (x : Except Fault (Nat × List Nat)) : Prop := ∃ r, x = .ok r ∧ NameOut length r.2

theorem OkOut.isOk {length : Nat} {x : Except Fault (Nat × List Nat)} (h : OkOut length x) : IsOk x := by
  obtain ⟨r, hr, _⟩ := h
  exact ⟨r, hr⟩

theorem okOut_nil (length s : Nat) : OkOut length (.ok (s, [])) :=
  ⟨_, rfl, Nat.zero_le _, Or.inl rfl⟩

theorem nameFinish_spec (b : RxBuf) (length s : Nat) (out : List Nat) (h : out.length < length) :
    OkOut length (nameFinish b length s out) := by
  simp only [nameFinish, push_ok _ h, bind_ok]
  exact ⟨_, rfl, by simp only [List.length_append, List.length_cons, List.length_nil]; omega, Or.inr ⟨out, rfl⟩⟩

theorem nameLoop_spec (b : RxBuf) (hcap : b.plen ≤ b.cap) (length : Nat)
    (rec : Nat → Nat → Except Fault (List Nat)) (src0 : Nat)
    (hrec : ∀ off len, 0 < len → ∃ w, rec off len = .ok w ∧ NameOut len w) :
    ∀ fuel s out, b.plen - s ≤ fuel → out.length < length →
      OkOut length (nameLoop b length rec src0 fuel s out) := by
  intro fuel
  induction fuel with
  | zero =>
    intro s out hf ho
    unfold nameLoop
    have hs : ¬ s < b.plen := by omega
    simp only [hs, not_false_eq_true, if_true]
    exact nameFinish_spec b length s out ho
  | succ fuel ih =>
    intro s out hf ho
    unfold nameLoop
    by_cases hs : s < b.plen
    · simp only [hs, not_true_eq_false, if_false, get_ok b hcap s hs, bind_ok]
      generalize b.pkt.getD s 0 = c
      by_cases h1 : c = 0 ∨ ¬out.length + 2 < length
      · simp only [h1, if_true]
        exact nameFinish_spec b length s out ho
      · simp only [h1, if_false]
        have hl : out.length + 2 < length := by
          apply Decidable.byContradiction; intro h; exact h1 (Or.inr h)
        by_cases h2 : c &&& 192 = 192
        · simp only [h2, if_true]
          by_cases h3 : s + 1 < b.plen
          · simp only [h3, not_true_eq_false, if_false, get_ok b hcap (s + 1) h3, bind_ok]
            generalize b.pkt.getD (s + 1) 0 = c2
            by_cases h4 : (c &&& 63) <<< 8 ||| c2 &&& 255 ≥ b.plen
            · simp only [if_pos h4]
              by_cases h5 : out.length = 0
              · simp only [if_pos h5]; exact okOut_nil _ _
              · simp only [if_neg h5]; exact nameFinish_spec b length (s + 1) out ho
            · simp only [if_neg h4]
              obtain ⟨sub, hsub, hlen, hterm⟩ := hrec ((c &&& 63) <<< 8 ||| c2 &&& 255) (length - out.length) (by omega)
              rw [hsub, bind_ok]
              by_cases h6 : sub.length = 0 ∧ out.length > 0
              · simp only [if_pos h6]
                rw [push_ok _ ho, bind_ok]
                exact ⟨_, rfl, by simp only [List.length_append, List.length_cons, List.length_nil]; omega,
                  Or.inr ⟨out, rfl⟩⟩
              · simp only [if_neg h6]
                refine ⟨_, rfl, ?_, ?_⟩
                · simp only [List.length_append]; omega
                · rcases hterm with h | ⟨w', hw'⟩
                  · subst h
                    have : out = [] := List.eq_nil_of_length_eq_zero (by
                      simp only [List.length_nil, true_and] at h6; omega)
                    left; simp only [this, List.append_nil]
                  · right; exact ⟨out ++ w', by rw [hw', List.append_assoc]⟩
          · simp only [h3, not_false_eq_true, if_true]
            exact nameFinish_spec b length (s + 1) out ho
        · simp only [h2, if_false]
          by_cases h3 : c &&& 192 = 0
          · simp only [ne_eq, h3, not_true_eq_false, if_false]
            obtain ⟨s', out', he, hs', ho'⟩ := copyLabel_ok b hcap length c (s + 1) out ho
            rw [he, bind_ok]
            simp only
            by_cases h4 : out'.length + 1 ≥ length
            · simp only [h4, if_true]
              exact nameFinish_spec b length s' out' ho'
            · simp only [h4, if_false]
              by_cases h5 : s' < b.plen
              · simp only [h5, if_true, get_ok b hcap s' h5, bind_ok]
                generalize b.pkt.getD s' 0 = x
                by_cases h6 : x ≠ 0
                · simp only [if_pos h6]
                  rw [push_ok _ ho', bind_ok]
                  exact ih s' (out' ++ [46]) (by omega) (by simp; omega)
                · simp only [if_neg h6]
                  exact ih s' out' (by omega) ho'
              · simp only [h5, if_false]
                exact ih s' out' (by omega) ho'
          · simp only [ne_eq, h3, not_false_eq_true, if_true]
            by_cases h5 : out.length = 0
            · simp only [if_pos h5]; exact okOut_nil _ _
            · simp only [if_neg h5]; exact nameFinish_spec b length (s + 1) out ho
    · simp only [hs, not_false_eq_true, if_true]
      exact nameFinish_spec b length s out ho

theorem readnameLoop_spec (b : RxBuf) (hcap : b.plen ≤ b.cap) :
    ∀ loop src length, 0 < length → OkOut length (readnameLoop b loop src length) := by
  intro loop
  induction loop with
  | zero => intro src length _; exact okOut_nil _ _
  | succ loop ih =>
    intro src length hl
    simp only [readnameLoop]
    apply nameLoop_spec b hcap length _ src _ b.plen src [] (by omega) (by simpa using hl)
    intro off len hlen
    obtain ⟨r, hr, hout⟩ := ih off len hlen
    exact ⟨r.2, by rw [hr]; rfl, hout⟩

/-- `readname` does not fault; it stores nothing, or at most `length` bytes ending in NUL -/
theorem readname_spec (b : RxBuf) (hcap : b.plen ≤ b.cap) (src length : Nat) (hl : 3 ≤ length) :
    OkOut length (readname b src length) := by
  have : ¬ length < 3 := by omega
  simp only [readname, this, if_false]
  exact readnameLoop_spec b hcap 10 src length (by omega)

theorem readname_ok (b : RxBuf) (hcap : b.plen ≤ b.cap) (src length : Nat) (hl : 3 ≤ length) :
    IsOk (readname b src length) :=
  (readname_spec b hcap src length hl).isOk

/-! ### readshort, readlong, readdata -/

theorem readshort_indep (pkt r₁ r₂ : Array Nat) (cap src : Nat) (h : src + 2 ≤ pkt.size) :
    readshort ⟨pkt, r₁, cap⟩ src = readshort ⟨pkt, r₂, cap⟩ src := by
  simp only [readshort, get_indep pkt r₁ r₂ cap src (by omega), get_indep pkt r₁ r₂ cap (src + 1) (by omega)]

theorem readshort_ok (b : RxBuf) (hcap : b.plen ≤ b.cap) (src : Nat) (h : src + 2 ≤ b.plen) :
    ∃ v, readshort b src = .ok (v, src + 2) := by
  simp only [readshort, get_ok b hcap src (by omega), get_ok b hcap (src + 1) (by omega), bind_ok]
  exact ⟨_, rfl⟩

theorem readshort_snd {b : RxBuf} {src v d : Nat} (h : readshort b src = .ok (v, d)) : d = src + 2 := by
  simp only [readshort] at h
  cases h0 : b.get src with
  | error e => rw [h0] at h; cases h
  | ok p0 =>
    rw [h0, bind_ok] at h
    cases h1 : b.get (src + 1) with
    | error e => rw [h1] at h; cases h
    | ok p1 =>
      rw [h1, bind_ok] at h
      injection h with h
      injection h with _ h
      exact h.symm

theorem readlong_indep (pkt r₁ r₂ : Array Nat) (cap src : Nat) (h : src + 4 ≤ pkt.size) :
    readlong ⟨pkt, r₁, cap⟩ src = readlong ⟨pkt, r₂, cap⟩ src := by
  simp only [readlong, get_indep pkt r₁ r₂ cap src (by omega), get_indep pkt r₁ r₂ cap (src + 1) (by omega),
    get_indep pkt r₁ r₂ cap (src + 2) (by omega), get_indep pkt r₁ r₂ cap (src + 3) (by omega)]

theorem readlong_ok (b : RxBuf) (hcap : b.plen ≤ b.cap) (src : Nat) (h : src + 4 ≤ b.plen) :
    ∃ v, readlong b src = .ok (v, src + 4) := by
  simp only [readlong, get_ok b hcap src (by omega), get_ok b hcap (src + 1) (by omega),
    get_ok b hcap (src + 2) (by omega), get_ok b hcap (src + 3) (by omega), bind_ok]
  exact ⟨_, rfl⟩

theorem readlong_snd {b : RxBuf} {src v d : Nat} (h : readlong b src = .ok (v, d)) : d = src + 4 := by
  simp only [readlong] at h
  cases h0 : b.get src with
  | error e => rw [h0] at h; cases h
  | ok p0 =>
    rw [h0, bind_ok] at h
    cases h1 : b.get (src + 1) with
    | error e => rw [h1] at h; cases h
    | ok p1 =>
      rw [h1, bind_ok] at h
      cases h2 : b.get (src + 2) with
      | error e => rw [h2] at h; cases h
      | ok p2 =>
        rw [h2, bind_ok] at h
        cases h3 : b.get (src + 3) with
        | error e => rw [h3] at h; cases h
        | ok p3 =>
          rw [h3, bind_ok] at h
          injection h with h
          injection h with _ h
          exact h.symm

theorem readRRHeader_indep (pkt r₁ r₂ : Array Nat) (cap data : Nat) (h : data + 10 ≤ pkt.size) :
    readRRHeader ⟨pkt, r₁, cap⟩ data = readRRHeader ⟨pkt, r₂, cap⟩ data := by
  simp only [readRRHeader]
  rw [readshort_indep pkt r₁ r₂ cap data (by omega)]
  cases h0 : readshort ⟨pkt, r₂, cap⟩ data with
  | error e => rfl
  | ok x0 =>
    obtain ⟨t, d0⟩ := x0
    have e0 := readshort_snd h0
    subst e0
    simp only [bind_ok]
    rw [readshort_indep pkt r₁ r₂ cap _ (by omega)]
    cases h1 : readshort ⟨pkt, r₂, cap⟩ (data + 2) with
    | error e => rfl
    | ok x1 =>
      obtain ⟨c, d1⟩ := x1
      have e1 := readshort_snd h1
      subst e1
      simp only [bind_ok]
      rw [readlong_indep pkt r₁ r₂ cap _ (by omega)]
      cases h2 : readlong ⟨pkt, r₂, cap⟩ (data + 2 + 2) with
      | error e => rfl
      | ok x2 =>
        obtain ⟨ttl, d2⟩ := x2
        have e2 := readlong_snd h2
        subst e2
        simp only [bind_ok]
        rw [readshort_indep pkt r₁ r₂ cap _ (by omega)]

theorem readRRHeader_ok (b : RxBuf) (hcap : b.plen ≤ b.cap) (data : Nat) (h : data + 10 ≤ b.plen) :
    ∃ t rl, readRRHeader b data = .ok (t, rl, data + 10) := by
  simp only [readRRHeader]
  obtain ⟨t, h0⟩ := readshort_ok b hcap data (by omega)
  obtain ⟨c, h1⟩ := readshort_ok b hcap (data + 2) (by omega)
  obtain ⟨ttl, h2⟩ := readlong_ok b hcap (data + 2 + 2) (by omega)
  obtain ⟨rl, h3⟩ := readshort_ok b hcap (data + 2 + 2 + 4) (by omega)
  simp only [h0, h1, h2, h3, bind_ok]
  exact ⟨t, rl, rfl⟩

theorem readRRHeader_snd {b : RxBuf} {data t rl d : Nat} (h : readRRHeader b data = .ok (t, rl, d)) :
    d = data + 10 := by
  simp only [readRRHeader] at h
  cases h0 : readshort b data with
  | error e => rw [h0] at h; cases h
  | ok x0 =>
    obtain ⟨t0, d0⟩ := x0
    rw [h0, bind_ok] at h
    cases h1 : readshort b d0 with
    | error e => rw [h1] at h; cases h
    | ok x1 =>
      obtain ⟨c, d1⟩ := x1
      rw [h1, bind_ok] at h
      cases h2 : readlong b d1 with
      | error e => simp only [h2] at h; cases h
      | ok x2 =>
        obtain ⟨ttl, d2⟩ := x2
        simp only [h2, bind_ok] at h
        cases h3 : readshort b d2 with
        | error e => rw [h3] at h; cases h
        | ok x3 =>
          obtain ⟨rl', d3⟩ := x3
          rw [h3, bind_ok] at h
          have e0 := readshort_snd h0
          have e1 := readshort_snd h1
          have e2 := readlong_snd h2
          have e3 := readshort_snd h3
          injection h with h
          injection h with _ h
          injection h with _ h
          omega

theorem readBytes_indep (pkt r₁ r₂ : Array Nat) (cap : Nat) :
    ∀ n src, src + n ≤ pkt.size → readBytes ⟨pkt, r₁, cap⟩ n src = readBytes ⟨pkt, r₂, cap⟩ n src := by
  intro n
  induction n with
  | zero => intro src _; rfl
  | succ n ih =>
    intro src h
    simp only [readBytes, get_indep pkt r₁ r₂ cap src (by omega), ih (src + 1) (by omega)]

theorem readBytes_ok (b : RxBuf) (hcap : b.plen ≤ b.cap) :
    ∀ n src, src + n ≤ b.plen → ∃ l, readBytes b n src = .ok l ∧ l.length = n := by
  intro n
  induction n with
  | zero => intro src _; exact ⟨[], rfl, rfl⟩
  | succ n ih =>
    intro src h
    obtain ⟨l, hl, hn⟩ := ih (src + 1) (by omega)
    simp only [readBytes, get_ok b hcap src (by omega), hl, bind_ok]
    exact ⟨_, rfl, by simp [hn]⟩

theorem readdata_indep (pkt r₁ r₂ : Array Nat) (cap src len dstcap : Nat) (h : src + len ≤ pkt.size) :
    readdata ⟨pkt, r₁, cap⟩ src len dstcap = readdata ⟨pkt, r₂, cap⟩ src len dstcap := by
  simp only [readdata, readBytes_indep pkt r₁ r₂ cap len src h]

theorem readdata_ok (b : RxBuf) (hcap : b.plen ≤ b.cap) (src len dstcap : Nat) (h : src + len ≤ b.plen)
    (hd : len ≤ dstcap) : ∃ l, readdata b src len dstcap = .ok (l, src + len) ∧ l.length = len := by
  obtain ⟨l, hl, hn⟩ := readBytes_ok b hcap len src h
  have : ¬ dstcap < len := by omega
  simp only [readdata, this, if_false, hl, bind_ok]
  exact ⟨l, rfl, hn⟩

/-! ### readtxtbin -/

theorem readtxtbinGo_indep (pkt r₁ r₂ : Array Nat) (cap dstcap : Nat) :
    ∀ fuel src srcremain dstremain out, src + srcremain ≤ pkt.size →
      readtxtbinGo ⟨pkt, r₁, cap⟩ dstcap fuel src srcremain dstremain out
        = readtxtbinGo ⟨pkt, r₂, cap⟩ dstcap fuel src srcremain dstremain out := by
  intro fuel
  induction fuel with
  | zero => intro src srcremain dstremain out _; unfold readtxtbinGo; rfl
  | succ fuel ih =>
    intro src srcremain dstremain out h
    unfold readtxtbinGo
    by_cases h0 : srcremain = 0
    · simp only [h0, if_true]
    · simp only [h0, if_false, get_indep pkt r₁ r₂ cap src (by omega)]
      cases RxBuf.get ⟨pkt, r₂, cap⟩ src with
      | error e => rfl
      | ok tocopy =>
        simp only [bind_ok]
        by_cases h1 : tocopy > srcremain - 1
        · simp only [h1, if_true]
        · simp only [h1, if_false]
          by_cases h2 : tocopy > dstremain
          · simp only [h2, if_true]
          · simp only [h2, if_false]
            rw [readBytes_indep pkt r₁ r₂ cap tocopy (src + 1) (by omega)]
            cases readBytes ⟨pkt, r₂, cap⟩ tocopy (src + 1) with
            | error e => rfl
            | ok bytes =>
              simp only [bind_ok]
              rw [ih _ _ _ _ (by omega)]

theorem readtxtbin_indep (pkt r₁ r₂ : Array Nat) (cap src srcremain dstremain : Nat)
    (h : src + srcremain ≤ pkt.size) :
    readtxtbin ⟨pkt, r₁, cap⟩ src srcremain dstremain = readtxtbin ⟨pkt, r₂, cap⟩ src srcremain dstremain :=
  readtxtbinGo_indep pkt r₁ r₂ cap dstremain srcremain src srcremain dstremain [] h

theorem readtxtbinGo_ok (b : RxBuf) (hcap : b.plen ≤ b.cap) (dstcap : Nat) :
    ∀ fuel src srcremain dstremain out, src + srcremain ≤ b.plen → srcremain ≤ fuel →
      out.length + dstremain ≤ dstcap →
      ∃ rv src' o, readtxtbinGo b dstcap fuel src srcremain dstremain out = .ok (rv, src', o)
        ∧ rv ≤ o.length ∧ o.length ≤ dstcap := by
  intro fuel
  induction fuel with
  | zero =>
    intro src srcremain dstremain out _ hf hd
    unfold readtxtbinGo
    have : srcremain = 0 := by omega
    simp only [this, if_true]
    exact ⟨_, _, _, rfl, Nat.le_refl _, by omega⟩
  | succ fuel ih =>
    intro src srcremain dstremain out h hf hd
    unfold readtxtbinGo
    by_cases h0 : srcremain = 0
    · simp only [h0, if_true]
      exact ⟨_, _, _, rfl, Nat.le_refl _, by omega⟩
    · simp only [h0, if_false, get_ok b hcap src (by omega), bind_ok]
      generalize b.pkt.getD src 0 = tocopy
      by_cases h1 : tocopy > srcremain - 1
      · simp only [h1, if_true]
        exact ⟨_, _, _, rfl, Nat.zero_le _, by omega⟩
      · simp only [h1, if_false]
        by_cases h2 : tocopy > dstremain
        · simp only [h2, if_true]
          exact ⟨_, _, _, rfl, Nat.zero_le _, by omega⟩
        · simp only [h2, if_false]
          obtain ⟨l, hl, hn⟩ := readBytes_ok b hcap tocopy (src + 1) (by omega)
          have h3 : ¬ out.length + tocopy > dstcap := by omega
          simp only [hl, bind_ok, h3, if_false]
          exact ih _ _ _ _ (by omega) (by omega) (by simp [hn]; omega)

theorem readtxtbin_ok (b : RxBuf) (hcap : b.plen ≤ b.cap) (src srcremain dstremain : Nat)
    (h : src + srcremain ≤ b.plen) :
    ∃ rv src' o, readtxtbin b src srcremain dstremain = .ok (rv, src', o) ∧ rv ≤ o.length ∧ o.length ≤ dstremain :=
  readtxtbinGo_ok b hcap dstremain srcremain src srcremain dstremain [] h (Nat.le_refl _) (by simp)

/-! ### dns_decode: independence of the residue -/

theorem checklenFails_indep (pkt r₁ r₂ : Array Nat) (cap x data : Nat) :
    checklenFails ⟨pkt, r₁, cap⟩ x data = checklenFails ⟨pkt, r₂, cap⟩ x data := rfl

theorem checklen_ok {b : RxBuf} {x data : Nat} (h : ¬ checklenFails b x data = true) : x + data ≤ b.plen := by
  simp only [checklenFails, decide_eq_true_eq] at h
  omega

theorem rawRdata_indep (pkt r₁ r₂ : Array Nat) (cap buflen data rlen : Nat) :
    rawRdata ⟨pkt, r₁, cap⟩ buflen data rlen = rawRdata ⟨pkt, r₂, cap⟩ buflen data rlen := by
  simp only [rawRdata, checklenFails_indep pkt r₁ r₂ cap]
  by_cases h : checklenFails ⟨pkt, r₂, cap⟩ rlen data = true
  · simp only [h, if_true]
  · have := checklen_ok h
    simp only [h]
    rw [readdata_indep pkt r₁ r₂ cap data _ _ (by simp only [RxBuf.plen] at this; omega)]

theorem answerNull_indep (pkt r₁ r₂ : Array Nat) (cap buflen : Nat) (q : Decoded) (data : Nat) :
    answerNull ⟨pkt, r₁, cap⟩ buflen q data = answerNull ⟨pkt, r₂, cap⟩ buflen q data := by
  simp only [answerNull, readname_indep pkt r₁ r₂ cap, checklenFails_indep pkt r₁ r₂ cap,
    rawRdata_indep pkt r₁ r₂ cap]
  cases readname ⟨pkt, r₂, cap⟩ data 256 with
  | error e => rfl
  | ok x =>
    simp only [bind_ok]
    by_cases h : checklenFails ⟨pkt, r₂, cap⟩ 10 x.fst = true
    · simp only [h, if_true]
    · have := checklen_ok h
      simp only [h]
      rw [readRRHeader_indep pkt r₁ r₂ cap _ (by simp only [RxBuf.plen] at this; omega)]

theorem answerCname_indep (pkt r₁ r₂ : Array Nat) (cap buflen : Nat) (q : Decoded) (data : Nat) :
    answerCname ⟨pkt, r₁, cap⟩ buflen q data = answerCname ⟨pkt, r₂, cap⟩ buflen q data := by
  simp only [answerCname, readname_indep pkt r₁ r₂ cap, checklenFails_indep pkt r₁ r₂ cap,
    rawRdata_indep pkt r₁ r₂ cap]
  cases readname ⟨pkt, r₂, cap⟩ data 256 with
  | error e => rfl
  | ok x =>
    simp only [bind_ok]
    by_cases h : checklenFails ⟨pkt, r₂, cap⟩ 10 x.fst = true
    · simp only [h, if_true]
    · have := checklen_ok h
      simp only [h]
      rw [readRRHeader_indep pkt r₁ r₂ cap _ (by simp only [RxBuf.plen] at this; omega)]

theorem answerTxt_indep (pkt r₁ r₂ : Array Nat) (cap buflen : Nat) (q : Decoded) (data : Nat) :
    answerTxt ⟨pkt, r₁, cap⟩ buflen q data = answerTxt ⟨pkt, r₂, cap⟩ buflen q data := by
  simp only [answerTxt, readname_indep pkt r₁ r₂ cap, checklenFails_indep pkt r₁ r₂ cap]
  cases readname ⟨pkt, r₂, cap⟩ data 256 with
  | error e => rfl
  | ok x =>
    simp only [bind_ok]
    by_cases h : checklenFails ⟨pkt, r₂, cap⟩ 10 x.fst = true
    · simp only [h, if_true]
    · have := checklen_ok h
      simp only [h]
      rw [readRRHeader_indep pkt r₁ r₂ cap _ (by simp only [RxBuf.plen] at this; omega)]
      cases readRRHeader ⟨pkt, r₂, cap⟩ x.fst with
      | error e => rfl
      | ok y =>
        obtain ⟨t, rl, d⟩ := y
        simp only [bind_ok]
        by_cases h2 : checklenFails ⟨pkt, r₂, cap⟩ rl d = true
        · simp only [h2, if_true]
        · have := checklen_ok h2
          simp only [h2]
          rw [readtxtbin_indep pkt r₁ r₂ cap _ _ _ (by simp only [RxBuf.plen] at this; omega)]

theorem mxLoop_indep (pkt r₁ r₂ : Array Nat) (cap : Nat) :
    ∀ n data names type, mxLoop ⟨pkt, r₁, cap⟩ n data names type = mxLoop ⟨pkt, r₂, cap⟩ n data names type := by
  intro n
  induction n with
  | zero => intro data names type; rfl
  | succ n ih =>
    intro data names type
    simp only [mxLoop, readname_indep pkt r₁ r₂ cap, checklenFails_indep pkt r₁ r₂ cap, ih]
    cases readname ⟨pkt, r₂, cap⟩ data 256 with
    | error e => rfl
    | ok x =>
      simp only [bind_ok]
      by_cases h : checklenFails ⟨pkt, r₂, cap⟩ 12 x.fst = true
      · simp only [h, if_true]
      · have := checklen_ok h
        simp only [RxBuf.plen] at this
        simp only [h]
        rw [readRRHeader_indep pkt r₁ r₂ cap _ (by omega)]
        cases hy : readRRHeader ⟨pkt, r₂, cap⟩ x.fst with
        | error e => rfl
        | ok y =>
          obtain ⟨t, rl, d⟩ := y
          have hd := readRRHeader_snd hy
          subst hd
          simp only [bind_ok]
          rw [readshort_indep pkt r₁ r₂ cap _ (by omega)]

theorem answerMx_indep (pkt r₁ r₂ : Array Nat) (cap buflen : Nat) (q : Decoded) (data ancount : Nat) :
    answerMx ⟨pkt, r₁, cap⟩ buflen q data ancount = answerMx ⟨pkt, r₂, cap⟩ buflen q data ancount := by
  simp only [answerMx, mxLoop_indep pkt r₁ r₂ cap]

theorem readHeader_indep (pkt r₁ r₂ : Array Nat) (cap : Nat) (h : 12 ≤ pkt.size) :
    readHeader ⟨pkt, r₁, cap⟩ = readHeader ⟨pkt, r₂, cap⟩ := by
  simp only [readHeader, get_indep pkt r₁ r₂ cap 0 (by omega), get_indep pkt r₁ r₂ cap 1 (by omega),
    get_indep pkt r₁ r₂ cap 2 (by omega), get_indep pkt r₁ r₂ cap 3 (by omega),
    get_indep pkt r₁ r₂ cap 4 (by omega), get_indep pkt r₁ r₂ cap 5 (by omega),
    get_indep pkt r₁ r₂ cap 6 (by omega), get_indep pkt r₁ r₂ cap 7 (by omega)]

theorem dnsGetId_indep (pkt r₁ r₂ : Array Nat) (cap : Nat) :
    dnsGetId ⟨pkt, r₁, cap⟩ = dnsGetId ⟨pkt, r₂, cap⟩ := by
  simp only [dnsGetId, RxBuf.plen]
  by_cases h : pkt.size < 12
  · simp only [h, if_true]
  · simp only [h, if_false, get_indep pkt r₁ r₂ cap 0 (by omega), get_indep pkt r₁ r₂ cap 1 (by omega)]

theorem dnsDecodeAnswer_indep (pkt r₁ r₂ : Array Nat) (cap buflen : Nat) :
    dnsDecodeAnswer buflen ⟨pkt, r₁, cap⟩ = dnsDecodeAnswer buflen ⟨pkt, r₂, cap⟩ := by
  simp only [dnsDecodeAnswer, RxBuf.plen]
  by_cases h : pkt.size < 12
  · simp only [h, if_true]
  · simp only [h, if_false, readHeader_indep pkt r₁ r₂ cap (by omega), readname_indep pkt r₁ r₂ cap,
      checklenFails_indep pkt r₁ r₂ cap, answerNull_indep pkt r₁ r₂ cap, answerCname_indep pkt r₁ r₂ cap,
      answerMx_indep pkt r₁ r₂ cap, answerTxt_indep pkt r₁ r₂ cap]
    cases readHeader ⟨pkt, r₂, cap⟩ with
    | error e => rfl
    | ok hd =>
      simp only [bind_ok]
      by_cases h1 : hd.qr ≠ 1
      · simp only [if_pos h1]
      · simp only [if_neg h1]
        by_cases h2 : hd.qdcount < 1
        · simp only [h2, if_true]
        · simp only [h2, if_false]
          cases readname ⟨pkt, r₂, cap⟩ 12 256 with
          | error e => rfl
          | ok x =>
            simp only [bind_ok]
            by_cases h3 : checklenFails ⟨pkt, r₂, cap⟩ 4 x.fst = true
            · simp only [h3, if_true]
            · have := checklen_ok h3
              simp only [RxBuf.plen] at this
              simp only [h3]
              rw [readshort_indep pkt r₁ r₂ cap _ (by omega)]
              cases hy : readshort ⟨pkt, r₂, cap⟩ x.fst with
              | error e => rfl
              | ok y =>
                obtain ⟨t, d⟩ := y
                have hd := readshort_snd hy
                subst hd
                simp only [bind_ok]
                rw [readshort_indep pkt r₁ r₂ cap _ (by omega)]

theorem dnsDecodeQuery_indep (pkt r₁ r₂ : Array Nat) (cap : Nat) :
    dnsDecodeQuery ⟨pkt, r₁, cap⟩ = dnsDecodeQuery ⟨pkt, r₂, cap⟩ := by
  simp only [dnsDecodeQuery, RxBuf.plen]
  by_cases h : pkt.size < 12
  · simp only [h, if_true]
  · simp only [h, if_false, readHeader_indep pkt r₁ r₂ cap (by omega), readname_indep pkt r₁ r₂ cap,
      checklenFails_indep pkt r₁ r₂ cap]
    cases readHeader ⟨pkt, r₂, cap⟩ with
    | error e => rfl
    | ok hd =>
      simp only [bind_ok]
      by_cases h1 : hd.qr ≠ 0
      · simp only [if_pos h1]
      · simp only [if_neg h1]
        by_cases h2 : hd.qdcount < 1
        · simp only [h2, if_true]
        · simp only [h2, if_false]
          cases readname ⟨pkt, r₂, cap⟩ 12 255 with
          | error e => rfl
          | ok x =>
            simp only [bind_ok]
            by_cases h3 : checklenFails ⟨pkt, r₂, cap⟩ 4 x.fst = true
            · simp only [h3, if_true]
            · have := checklen_ok h3
              simp only [RxBuf.plen] at this
              simp only [h3]
              rw [readshort_indep pkt r₁ r₂ cap _ (by omega)]
              cases hy : readshort ⟨pkt, r₂, cap⟩ x.fst with
              | error e => rfl
              | ok y =>
                obtain ⟨t, d⟩ := y
                have hd := readshort_snd hy
                subst hd
                simp only [bind_ok]
                rw [readshort_indep pkt r₁ r₂ cap _ (by omega)]

/-! ### dns_decode: no fault -/

/-- the only possible fault is a write outside an array (never a read outside the receive buffer) -/
def OnlyWriteFault {α} (x : Except Fault α) : Prop := ∀ f, x = .error f → f = .oobWrite

/-- no fault if `P` holds, and in any case no fault other than a write outside an array -/
def Good {α} (P : Prop) (x : Except Fault α) : Prop := (P → IsOk x) ∧ OnlyWriteFault x

theorem IsOk.good {α} {P : Prop} {x : Except Fault α} (h : IsOk x) : Good P x := by
  obtain ⟨a, rfl⟩ := h
  exact ⟨fun _ => ⟨a, rfl⟩, fun f hf => by cases hf⟩

theorem good_ok {α} {P : Prop} (a : α) : Good P (Except.ok a : Except Fault α) := (isOk_ok a).good

theorem good_oobWrite {α} {P : Prop} (hP : ¬ P) : Good P (Except.error .oobWrite : Except Fault α) :=
  ⟨fun h => absurd h hP, fun f hf => by cases hf; rfl⟩

theorem Good.mono {α} {P Q : Prop} {x : Except Fault α} (h : Good P x) (hPQ : Q → P) : Good Q x :=
  ⟨fun hq => h.1 (hPQ hq), h.2⟩

theorem good_bind {α β} {P : Prop} {x : Except Fault α} {f : α → Except Fault β}
    (hx : IsOk x) (hf : ∀ a, x = .ok a → Good P (f a)) : Good P (x >>= f) := by
  obtain ⟨a, ha⟩ := hx
  subst ha
  exact hf a rfl

theorem good_bind_good {α β} {P : Prop} {x : Except Fault α} {f : α → Except Fault β}
    (hx : Good P x) (hf : ∀ a, IsOk (f a)) : Good P (x >>= f) := by
  cases x with
  | error e =>
    refine ⟨fun hp => ?_, fun f' h => by rw [bind_error] at h; cases h; exact hx.2 e rfl⟩
    obtain ⟨a, ha⟩ := hx.1 hp
    cases ha
  | ok a => exact (hf a).good

theorem good_push {P : Prop} (cap : Nat) (out : List Nat) (x : Nat) (h : P → out.length < cap) :
    Good P (push cap out x) := by
  by_cases hc : out.length < cap
  · rw [push_ok x hc]; exact good_ok _
  · simp only [push, hc, if_false]
    exact good_oobWrite (fun hp => hc (h hp))

theorem rawRdata_ok (b : RxBuf) (hcap : b.plen ≤ b.cap) (buflen data rlen : Nat) :
    IsOk (rawRdata b buflen data rlen) := by
  simp only [rawRdata]
  by_cases h : checklenFails b rlen data = true
  · simp only [h, if_true]; exact isOk_ok _
  · have := checklen_ok h
    simp only [h, Bool.false_eq_true, if_false]
    obtain ⟨l, hl, _⟩ := readdata_ok b hcap data (min rlen rdataSize) rdataSize (by omega) (by omega)
    simp only [hl, bind_ok]
    by_cases h2 : min rlen rdataSize ≥ 2
    · simp only [if_pos h2]; exact isOk_ok _
    · simp only [if_neg h2]; exact isOk_ok _

theorem answerNull_ok (b : RxBuf) (hcap : b.plen ≤ b.cap) (buflen : Nat) (q : Decoded) (data : Nat) :
    IsOk (answerNull b buflen q data) := by
  simp only [answerNull]
  apply isOk_bind (readname_ok b hcap data 256 (by omega))
  intro x _
  obtain ⟨d, w⟩ := x
  dsimp only
  by_cases h : checklenFails b 10 d = true
  · simp only [h, if_true]; exact isOk_ok _
  · have := checklen_ok h
    simp only [h, Bool.false_eq_true, if_false]
    obtain ⟨t, rl, hh⟩ := readRRHeader_ok b hcap d (by omega)
    simp only [hh, bind_ok]
    apply isOk_bind (rawRdata_ok b hcap buflen _ rl)
    intro r _
    cases r with
    | none => exact isOk_ok _
    | some r => exact isOk_ok _

theorem answerCname_good (b : RxBuf) (hcap : b.plen ≤ b.cap) (buflen : Nat) (q : Decoded) (data : Nat) :
    Good (0 < buflen) (answerCname b buflen q data) := by
  simp only [answerCname]
  apply good_bind (readname_ok b hcap data 256 (by omega))
  intro x _
  obtain ⟨d, w⟩ := x
  dsimp only
  by_cases h : checklenFails b 10 d = true
  · simp only [h, if_true]; exact good_ok _
  · have := checklen_ok h
    simp only [h, Bool.false_eq_true, if_false]
    obtain ⟨t, rl, hh⟩ := readRRHeader_ok b hcap d (by omega)
    simp only [hh, bind_ok]
    by_cases h5 : t = 5
    · simp only [h5, if_true]
      apply good_bind (readname_ok b hcap _ 255 (by omega))
      intro y _
      obtain ⟨d2, w2⟩ := y
      dsimp only
      by_cases hb : buflen = 0
      · simp only [hb, if_true]; exact good_oobWrite (by omega)
      · simp only [hb, if_false]; exact good_ok _
    · simp only [h5, if_false]
      by_cases h1 : t = 1
      · simp only [h1, if_true]
        apply good_bind (rawRdata_ok b hcap buflen _ rl)
        intro r _
        cases r with
        | none => exact good_ok _
        | some r => exact good_ok _
      · simp only [h1, if_false]; exact good_ok _

theorem answerTxt_ok (b : RxBuf) (hcap : b.plen ≤ b.cap) (buflen : Nat) (q : Decoded) (data : Nat) :
    IsOk (answerTxt b buflen q data) := by
  simp only [answerTxt]
  apply isOk_bind (readname_ok b hcap data 256 (by omega))
  intro x _
  obtain ⟨d, w⟩ := x
  dsimp only
  by_cases h : checklenFails b 10 d = true
  · simp only [h, if_true]; exact isOk_ok _
  · have := checklen_ok h
    simp only [h, Bool.false_eq_true, if_false]
    obtain ⟨t, rl, hh⟩ := readRRHeader_ok b hcap d (by omega)
    simp only [hh, bind_ok]
    by_cases h2 : checklenFails b rl (d + 10) = true
    · simp only [h2, if_true]; exact isOk_ok _
    · have := checklen_ok h2
      simp only [h2, Bool.false_eq_true, if_false]
      obtain ⟨rv, s', o, ho, _, _⟩ := readtxtbin_ok b hcap (d + 10) rl rdataSize (by omega)
      simp only [ho, bind_ok]
      by_cases h3 : rv ≥ 1
      · simp only [if_pos h3]; exact isOk_ok _
      · simp only [if_neg h3]; exact isOk_ok _

theorem cstr_length_le (a : List Nat) : (cstr a).length ≤ a.length := by
  induction a with
  | nil => simp [cstr]
  | cons x xs ih =>
    simp only [cstr, List.takeWhile_cons] at *
    split
    · simp only [List.length_cons]; omega
    · simp

/-- a string stored with its NUL: what follows does not matter -/
theorem cstr_append_zero_le (w r : List Nat) : (cstr (w ++ 0 :: r)).length ≤ w.length := by
  induction w with
  | nil => simp [cstr]
  | cons x xs ih =>
    simp only [cstr, List.cons_append, List.takeWhile_cons] at *
    split
    · simp only [List.length_cons]; omega
    · simp

theorem cstr_take_le (l : List Nat) : ∀ n, (cstr (l.take n)).length ≤ (cstr l).length := by
  induction l with
  | nil => intro n; simp [cstr]
  | cons x xs ih =>
    intro n
    cases n with
    | zero => simp [cstr]
    | succ n =>
      have := ih n
      simp only [cstr, List.take_succ_cons, List.takeWhile_cons] at *
      split
      · simp only [List.length_cons]; omega
      · simp

/-- `readname(…, names[k], 255); names[k][255] = 0` keeps the string in `names[k]` shorter than 255 -/
theorem names_entry (old w : List Nat) (hold : (cstr old).length ≤ 254) (hw : NameOut 255 w) :
    (cstr ((overwrite old w).take 255)).length ≤ 254 := by
  obtain ⟨hlen, hterm⟩ := hw
  rcases hterm with h | ⟨w', h⟩
  · subst h
    simp only [overwrite, List.nil_append, List.length_nil, List.drop_zero]
    exact Nat.le_trans (cstr_take_le old 255) hold
  · subst h
    simp only [overwrite]
    rw [List.take_append, List.take_of_length_le hlen, List.append_assoc]
    simp only [List.length_append, List.length_cons, List.length_nil] at hlen
    exact Nat.le_trans (cstr_append_zero_le w' _) (by omega)

/-- invariant of the `names` array in the MX/SRV loop: 250 strings shorter than 255, the last one empty
(`pref < 2500` never selects `names[249]`) -/
def NamesInv (names : List (List Nat)) : Prop :=
  names.length = 250 ∧ (∀ e ∈ names, (cstr e).length ≤ 254) ∧ names[249]? = some []

theorem namesInv_init : NamesInv namesInit := by
  refine ⟨by simp only [namesInit, List.length_replicate], ?_, ?_⟩
  · intro e he
    simp only [namesInit, List.mem_replicate] at he
    simp [he.2, cstr]
  · simp only [namesInit]
    rw [List.getElem?_replicate]
    simp

theorem namesInv_set {names : List (List Nat)} (h : NamesInv names) (k : Nat) (hk : k < 249) (w : List Nat)
    (hw : NameOut 255 w) :
    NamesInv (names.set k ((overwrite (names.getD k []) w).take 255)) := by
  obtain ⟨h1, h2, h3⟩ := h
  refine ⟨by simp [h1], ?_, ?_⟩
  · intro e he
    rcases List.mem_or_eq_of_mem_set he with he | he
    · exact h2 e he
    · subst he
      apply names_entry _ _ _ hw
      have hk' : k < names.length := by omega
      rw [List.getD_eq_getElem?_getD, List.getElem?_eq_getElem hk', Option.getD_some]
      exact h2 _ (List.getElem_mem hk')
  · rw [List.getElem?_set_ne (by omega)]; exact h3

theorem mxLoop_ok (b : RxBuf) (hcap : b.plen ≤ b.cap) :
    ∀ n data names type, NamesInv names →
      ∃ r, mxLoop b n data names type = .ok r ∧ ∀ nm t, r = some (nm, t) → NamesInv nm := by
  intro n
  induction n with
  | zero =>
    intro data names type hn
    exact ⟨_, rfl, fun nm t h => by cases h; exact hn⟩
  | succ n ih =>
    intro data names type hn
    simp only [mxLoop]
    obtain ⟨⟨d, w⟩, hx⟩ := readname_ok b hcap data 256 (by omega)
    simp only [hx, bind_ok]
    by_cases h : checklenFails b 12 d = true
    · simp only [h, if_true]; exact ⟨_, rfl, fun nm t h => by cases h⟩
    · have := checklen_ok h
      simp only [h, Bool.false_eq_true, if_false]
      obtain ⟨t, rl, hh⟩ := readRRHeader_ok b hcap d (by omega)
      obtain ⟨pref, hp⟩ := readshort_ok b hcap (d + 10) (by omega)
      simp only [hh, hp, bind_ok]
      have hstep : ∀ nms, NamesInv nms →
          ∃ r, (if checklenFails b 0 (d + 10 + rl) = true then Except.ok none else mxLoop b n (d + 10 + rl) nms t)
            = Except.ok r ∧ ∀ nm t, r = some (nm, t) → NamesInv nm := by
        intro nms hnms
        by_cases h4 : checklenFails b 0 (d + 10 + rl) = true
        · simp only [h4, if_true]; exact ⟨_, rfl, fun nm t h => by cases h⟩
        · simp only [h4, Bool.false_eq_true, if_false]; exact ih _ _ _ hnms
      by_cases h2 : t = 33 ∧ checklenFails b 0 (if t = 33 then d + 10 + 2 + 4 else d + 10 + 2) = true
      · simp only [if_pos h2]; exact ⟨_, rfl, fun nm t h => by cases h⟩
      · simp only [if_neg h2]
        by_cases h3 : pref % 10 = 0 ∧ pref ≥ 10 ∧ pref < 2500
        · simp only [if_pos h3]
          have hk : ¬ pref / 10 - 1 ≥ 250 := by omega
          simp only [if_neg hk]
          obtain ⟨⟨d2, w2⟩, hy, hout⟩ :=
            readname_spec b hcap (if t = 33 then d + 10 + 2 + 4 else d + 10 + 2) 255 (by omega)
          simp only [hy, bind_ok]
          exact hstep _ (namesInv_set hn _ (by omega) _ hout)
        · simp only [if_neg h3]
          exact hstep _ hn

theorem subSizeT_le (buflen k : Nat) (h : k ≤ buflen) : subSizeT buflen k ≤ buflen - k := by
  simp only [subSizeT]
  omega

/-- the output loop over the remaining `names` (the last of which is empty) stays inside `buf` as soon as
`offset < buflen` — which the guard `offset + 2 >= buflen → break` maintains -/
theorem mxOut_good (buflen : Nat) :
    ∀ names out, names ≠ [] → (∀ e, names.getLast? = some e → cstr e = []) →
      Good (out.length < buflen) (mxOut buflen names out) := by
  intro names
  induction names with
  | nil => intro out h; exact absurd rfl h
  | cons nm rest ih =>
    intro out _ hlast
    simp only [mxOut]
    have hfin : Good (out.length < buflen)
        (push buflen out 0 >>= fun out' => (Except.ok (out.length, out') : Except Fault (Nat × List Nat))) := by
      by_cases hc : out.length < buflen
      · rw [push_ok 0 hc]; exact good_ok _
      · have hp : push buflen out 0 = .error .oobWrite := by simp only [push, hc, if_false]
        rw [hp, bind_error]
        exact good_oobWrite hc
    by_cases hs : cstr nm = []
    · simp only [hs, if_true]; exact hfin
    · simp only [hs, if_false]
      have hrest : rest ≠ [] := by
        intro h
        subst h
        exact hs (hlast nm rfl)
      have hlast' : ∀ e, rest.getLast? = some e → cstr e = [] := by
        intro e he
        apply hlast e
        cases rest with
        | nil => exact absurd rfl hrest
        | cons r rs => rw [List.getLast?_cons_cons]; exact he
      by_cases hg : out.length + 2 ≥ buflen
      · simp only [if_pos hg]; exact hfin
      · simp only [if_neg hg]
        by_cases hl0 : min (cstr nm).length (subSizeT buflen (out.length + 2)) = 0
        · simp only [if_pos hl0]; exact hfin
        · simp only [if_neg hl0]
          have hsub := subSizeT_le buflen (out.length + 2) (by omega)
          generalize hL : min (cstr nm).length (subSizeT buflen (out.length + 2)) = l at *
          have hov : ¬ out.length + l > buflen := by omega
          simp only [if_neg hov]
          have htl : ((cstr nm).take l).length = l := by
            rw [List.length_take]; omega
          have hc : (out ++ (cstr nm).take l).length < buflen := by
            simp only [List.length_append, htl]; omega
          rw [push_ok 0 hc, bind_ok]
          refine (ih _ hrest hlast').mono ?_
          intro _
          simp only [List.length_append, List.length_cons, List.length_nil, htl]
          omega

theorem answerMx_good (b : RxBuf) (hcap : b.plen ≤ b.cap) (buflen : Nat) (q : Decoded) (data ancount : Nat) :
    Good (0 < buflen) (answerMx b buflen q data ancount) := by
  simp only [answerMx]
  obtain ⟨r, hr, hinv⟩ := mxLoop_ok b hcap ancount data namesInit 0 namesInv_init
  simp only [hr, bind_ok]
  cases r with
  | none => exact good_ok _
  | some r =>
    obtain ⟨nm, t⟩ := r
    obtain ⟨h1, _, h3⟩ := hinv nm t rfl
    simp only
    have hne : nm ≠ [] := by intro h; rw [h] at h1; cases h1
    have hlast : ∀ e, nm.getLast? = some e → cstr e = [] := by
      intro e he
      rw [List.getLast?_eq_getElem?, h1, h3] at he
      cases he
      rfl
    have hg := mxOut_good buflen nm [] hne hlast
    refine good_bind_good (hg.mono ?_) ?_
    · simp only [List.length_nil]; exact id
    · intro a; exact isOk_ok _

theorem readHeader_ok (b : RxBuf) (hcap : b.plen ≤ b.cap) (h : 12 ≤ b.plen) : IsOk (readHeader b) := by
  simp only [readHeader, get_ok b hcap 0 (by omega), get_ok b hcap 1 (by omega), get_ok b hcap 2 (by omega),
    get_ok b hcap 3 (by omega), get_ok b hcap 4 (by omega), get_ok b hcap 5 (by omega),
    get_ok b hcap 6 (by omega), get_ok b hcap 7 (by omega), bind_ok]
  exact isOk_ok _

theorem dnsGetId_ok (b : RxBuf) (hcap : b.plen ≤ b.cap) : IsOk (dnsGetId b) := by
  simp only [dnsGetId]
  by_cases h : b.plen < 12
  · simp only [if_pos h]; exact isOk_ok _
  · simp only [if_neg h, get_ok b hcap 0 (by omega), get_ok b hcap 1 (by omega), bind_ok]
    exact isOk_ok _

theorem dnsDecodeAnswer_good (b : RxBuf) (hcap : b.plen ≤ b.cap) (buflen : Nat) :
    Good (0 < buflen) (dnsDecodeAnswer buflen b) := by
  simp only [dnsDecodeAnswer]
  by_cases h : b.plen < 12
  · simp only [if_pos h]; exact good_ok _
  · simp only [if_neg h]
    apply good_bind (readHeader_ok b hcap (by omega))
    intro hd _
    by_cases h1 : hd.qr ≠ 1
    · simp only [if_pos h1]; exact good_ok _
    · simp only [if_neg h1]
      by_cases h2 : hd.qdcount < 1
      · simp only [if_pos h2]; exact good_ok _
      · simp only [if_neg h2]
        apply good_bind (readname_ok b hcap 12 256 (by omega))
        intro x _
        obtain ⟨d, w⟩ := x
        dsimp only
        by_cases h3 : checklenFails b 4 d = true
        · simp only [h3, if_true]; exact good_ok _
        · have := checklen_ok h3
          simp only [h3, Bool.false_eq_true, if_false]
          obtain ⟨t, ht⟩ := readshort_ok b hcap d (by omega)
          obtain ⟨c, hc⟩ := readshort_ok b hcap (d + 2) (by omega)
          simp only [ht, hc, bind_ok]
          by_cases h4 : hd.ancount < 1
          · simp only [if_pos h4]; exact good_ok _
          · simp only [if_neg h4]
            by_cases h5 : t = 10 ∨ t = 65399
            · simp only [if_pos h5]; exact (answerNull_ok b hcap buflen _ _).good
            · simp only [if_neg h5]
              by_cases h6 : t = 1 ∨ t = 5
              · simp only [if_pos h6]
                exact answerCname_good b hcap buflen _ _
              · simp only [if_neg h6]
                by_cases h7 : t = 15 ∨ t = 33
                · simp only [if_pos h7]; exact answerMx_good b hcap buflen _ _ _
                · simp only [if_neg h7]
                  by_cases h8 : t = 16
                  · simp only [if_pos h8]; exact (answerTxt_ok b hcap buflen _ _).good
                  · simp only [if_neg h8]; exact good_ok _

theorem dnsDecodeQuery_ok (b : RxBuf) (hcap : b.plen ≤ b.cap) : IsOk (dnsDecodeQuery b) := by
  simp only [dnsDecodeQuery]
  by_cases h : b.plen < 12
  · simp only [if_pos h]; exact isOk_ok _
  · simp only [if_neg h]
    apply isOk_bind (readHeader_ok b hcap (by omega))
    intro hd _
    by_cases h1 : hd.qr ≠ 0
    · simp only [if_pos h1]; exact isOk_ok _
    · simp only [if_neg h1]
      by_cases h2 : hd.qdcount < 1
      · simp only [if_pos h2]; exact isOk_ok _
      · simp only [if_neg h2]
        apply isOk_bind (readname_ok b hcap 12 255 (by omega))
        intro x _
        obtain ⟨d, w⟩ := x
        dsimp only
        by_cases hlong : (cstr (List.take 255 w)).length > 253
        · simp only [if_pos hlong]; exact isOk_ok _
        simp only [if_neg hlong]
        by_cases h3 : checklenFails b 4 d = true
        · simp only [h3, if_true]; exact isOk_ok _
        · have := checklen_ok h3
          simp only [h3, Bool.false_eq_true, if_false]
          obtain ⟨t, ht⟩ := readshort_ok b hcap d (by omega)
          obtain ⟨c, hc⟩ := readshort_ok b hcap (d + 2) (by omega)
          simp only [ht, hc, bind_ok]
          exact isOk_ok _

end Iodine.Wire
