import IodineModel.Lemmas.C02s3
/-
Session-level forms of the ping handler, of the sweep and of a whole loop iteration for a single-client server.
-/
namespace Iodine.C02L
open Iodine Iodine.Gen Iodine.Server

/-! ### `pingFresh` -/

def pingA (s : Srv) (u : Nat) (a b : Int) : Res :=
  let s1 := processDownstreamAck s u a b
  if (getUser s1 u).qs.id ≠ 0 then (sendChunkOrDataless s1 u .qs).1 else (s1, [])

def pingB (r1 : Res) (u : Nat) : (Res × Bool) × List Event :=
  (if (getUser r1.1 u).q.id ≠ 0 then ((sendChunkOrDataless r1.1 u .q).1, !(sendChunkOrDataless r1.1 u .q).2)
   else ((r1.1, []), false), r1.2)

def pingC (r2 : (Res × Bool) × List Event) (u : Nat) (q : Query) : Res :=
  let s3 := saveQuery r2.1.1.1 u q
  let x := getUser s3 u
  let r3 : Res := if (!r2.1.2 ∧ x.outpacket.len > 0) ∨ !x.lazy then (sendChunkOrDataless s3 u .q).1 else (s3, [])
  (r3.1, r2.2 ++ r2.1.1.2 ++ r3.2)

theorem pingFresh_stages (s : Srv) (u : Nat) (q : Query) (unpacked : List Nat) :
    pingFresh s u q unpacked =
      pingC (pingB (pingA s u (charVal (unpacked.getD 1 0) / 16) (charVal (unpacked.getD 1 0) % 16)) u) u q := by
  unfold pingFresh pingC pingB pingA
  rfl

def pingASess (x : Session) (u : Nat) (a b : Int) : Session × List Event :=
  let y := ackSess x a b
  if y.qs.id ≠ 0 then (scSess y u .qs).1 else (y, [])

def pingBSess (x : Session) (u : Nat) : (Session × List Event) × Bool :=
  if x.q.id ≠ 0 then ((scSess x u .q).1, !(scSess x u .q).2) else ((x, []), false)

def pingCSess (x : Session) (u : Nat) (q : Query) (didsend : Bool) (now : Nat) : Session × List Event :=
  let y := saveQ x q now
  if (!didsend ∧ y.outpacket.len > 0) ∨ !y.lazy then (scSess y u .q).1 else (y, [])

/-- `pingFresh` on the slot -/
def pingSess (x : Session) (u : Nat) (q : Query) (a b : Int) (now : Nat) : Session × List Event :=
  let r1 := pingASess x u a b
  let r2 := pingBSess r1.1 u
  let r3 := pingCSess r2.1.1 u q r2.2 now
  (r3.1, r1.2 ++ r2.1.2 ++ r3.2)

theorem pingFresh_eq (s : Srv) (u : Nat) (q : Query) (unpacked : List Nat) (h : u < s.users.length) :
    pingFresh s u q unpacked =
      (putUser s u (pingSess (getUser s u) u q (charVal (unpacked.getD 1 0) / 16) (charVal (unpacked.getD 1 0) % 16) s.now).1,
       (pingSess (getUser s u) u q (charVal (unpacked.getD 1 0) / 16) (charVal (unpacked.getD 1 0) % 16) s.now).2) := by
  have hl' : ∀ y, u < (putUser s u y).users.length := fun y => by simpa using h
  rw [pingFresh_stages]
  unfold pingSess
  generalize charVal (unpacked.getD 1 0) / 16 = a
  generalize charVal (unpacked.getD 1 0) % 16 = b
  have hA : pingA s u a b = (putUser s u (pingASess (getUser s u) u a b).1, (pingASess (getUser s u) u a b).2) := by
    unfold pingA pingASess
    simp only [processDownstreamAck_eq _ _ _ _ h, getUser_putUser_self _ _ _ h]
    split
    · rw [sendChunkOrDataless_eq _ _ _ (hl' _)]
      simp only [putUser_putUser, getUser_putUser_self _ _ _ h]
    · rfl
  rw [hA]
  simp only
  generalize pingASess (getUser s u) u a b = r1
  have hB : pingB (putUser s u r1.1, r1.2) u =
      (((putUser s u (pingBSess r1.1 u).1.1, (pingBSess r1.1 u).1.2), (pingBSess r1.1 u).2), r1.2) := by
    unfold pingB pingBSess
    simp only [getUser_putUser_self _ _ _ h]
    split
    · rw [sendChunkOrDataless_eq _ _ _ (hl' _)]
      simp only [putUser_putUser, getUser_putUser_self _ _ _ h]
    · rfl
  rw [hB]
  generalize pingBSess r1.1 u = r2
  unfold pingC pingCSess
  simp only [saveQuery_eq, putUser_putUser, getUser_putUser_self _ _ _ h, putUser_now]
  split
  · rw [sendChunkOrDataless_eq _ _ _ (hl' _)]
    simp only [putUser_putUser, getUser_putUser_self _ _ _ h]
  · rfl

/-! ### the sweep -/

def sweepSess (x : Session) (u now : Nat) : Session × List Event :=
  if live x now ∧ x.qs.id ≠ 0 ∧ x.conn = .dnsNull ∧ !x.qsNew then (scSess x u .qs).1 else (x, [])

theorem sweepOne_eq (s : Srv) (u : Nat) (h : u < s.users.length) :
    sweepOne s u = (putUser s u (sweepSess (getUser s u) u s.now).1, (sweepSess (getUser s u) u s.now).2) := by
  unfold sweepOne sweepSess
  simp only
  split
  · rw [sendChunkOrDataless_eq _ _ _ h]
  · simp [putUser_getUser]

/-! ### one iteration -/

/-- the slot at the top of the loop -/
def topSess (x : Session) (now : Nat) : Session := if live x now then { x with qsNew := false } else x

/-- an iteration whose handler touches only slot `u` (and the clock is `now'` from `select`'s return on) -/
theorem iteration_solo {u : Nat} {s : Srv} (hs : Solo u s) (inp : Input) (now' : Nat) (y : Session) (evs : List Event)
    (hnt : ∀ f, inp ≠ .tun f)
    (hd : dispatch { putUser s u (topSess (getUser s u) s.now) with now := now' } inp (topOfLoop s).2.2 =
      ({ putUser s u y with now := now' }, evs)) :
    iteration s inp now' =
      ({ putUser s u (sweepSess y u now').1 with now := now' }, evs ++ [Event.sweep] ++ (sweepSess y u now').2,
       ((topOfLoop s).2.1, (topOfLoop s).2.2)) := by
  have hl := hs.lt
  unfold iteration body
  simp only [topOfLoop_state hs]
  have hsolo : Solo u { putUser s u y with now := now' } := (hs.putUser y).withNow now'
  have : topSess (getUser s u) s.now = (if live (getUser s u) s.now then { getUser s u with qsNew := false } else getUser s u) := rfl
  rw [← this, hd]
  simp only [andThen]
  rw [sweep_solo hsolo, sweepOne_eq _ _ (by simpa using hl)]
  have hg : getUser { putUser s u y with now := now' } u = y := by
    rw [getUser_withNow, getUser_putUser_self _ _ _ hl]
  rw [hg]
  have hp : ∀ z, putUser { putUser s u y with now := now' } u z = { putUser s u z with now := now' } := by
    intro z; rw [putUser_withNow, putUser_putUser]
  rw [hp]

end Iodine.C02L
