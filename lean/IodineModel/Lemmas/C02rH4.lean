import IodineModel.Lemmas.C02rH1
import IodineModel.Lemmas.C02rO2
import IodineModel.Lemmas.C02qO1
import IodineModel.Lemmas.C02qO2
import IodineModel.Lemmas.C02qO8
/-
C02 / OVERLAPPING transfers, lazy mode, ENDINGS — (E1, "dropped" case): the downstream packet fitted ONE fragment (the server
has dropped it already: `outpacket.len = 0`), the upstream fragment in flight is NOT the last one.  Three steps of the prompt
scheduler (`deliverUp, deliverDown, deliverDown`) finish the downstream packet and hand over to the invariant of the upstream
remainder `UpFlightNQ` (C02rO2):
1. the server stores the upstream fragment and, holding no query and having nothing to send, answers the data query at once
   with a DATALESS packet that acknowledges it (`srv_recv_mid_noq_idle`);
2. the client receives the downstream packet (its only = last fragment, stale upstream ack): written to tun,
   `send_ping_soon = 5` (`tunnelDns_last_prev`);
3. the client receives the dataless answer to its MOST RECENT query: the upstream fragment is acknowledged, the next one goes
   out (`tunnelDns_dataless_cur`, `upstream_ack_more`).
-/
namespace Iodine.C02L
open Iodine Iodine.Gen Iodine.World

private theorem sentStateL_uc2rH (c : Client.Cli) : (sentStateL c).useridChar2 = c.useridChar2 := by
  rw [sentStateL_eta]
  simp [sentState, Client.rotateChunkid]

theorem e1_step_dropped {P : Par} (hP : P.Ok) {outU fd : List Nat} {w : W} {c0 : Client.Cli} {ou fu : Nat} {sq : Int} {D : Nat}
    (h : BothFlightL P outU (0x5a :: fd) w c0 ou fu sq 0 D 0) (hD1 : D = (0x5a :: fd).length)
    (h64u : outU.length ≤ 65536) (h64d : (0x5a :: fd).length ≤ 65536) (h4 : 4 ≤ fd.length)
    (hltU : ou + fragLen P (outU.drop ou) < outU.length) (hfu : fu + 1 < 16) :
    ∃ w' c0', promptSteps P.u 3 w = some w' ∧
      UpFlightNQ P outU w' c0' (ou + fragLen P (outU.drop ou)) (fu + 1) ∧
      w'.tunS = w.tunS ∧ w'.tunC = w.tunC ++ [tunImage fd] ∧ c0'.outpkt.seqno = c0.outpkt.seqno ∧
      (Server.getUser w'.srv P.u).tunIp = (Server.getUser w.srv P.u).tunIp ∧
      (Server.getUser w'.srv P.u).fragsize = (Server.getUser w.srv P.u).fragsize := by
  obtain ⟨name, hsend, hm1, hm2, hQ⟩ := send_readyL hP h.ready
  generalize hm : fragLen P (outU.drop ou) = m at *
  have hlast : (m == outU.length - ou) = false := by
    rw [beq_eq_false_iff_ne]; omega
  rw [hlast] at hQ
  have hsf := sentFactsL c0
  have hsi := sentIdsL c0
  have hcst := cstat_sentL h.ready
  have hup : w.up = [.query (sentState c0).chunkid P.ty name] := by rw [h.up, hsend]; rfl
  have hsqn : c0.outpkt.seqno.toNat < 8 := by have := h.ready.stat.oseq; omega
  have hsqc : ((c0.outpkt.seqno.toNat : Nat) : Int) = c0.outpkt.seqno := by have := h.ready.stat.oseq; omega
  obtain ⟨dname, pkt, hdn, hnd, hfp, hst⟩ := h.down
  have hsqr := h.hsq
  have hDpos := h.hD
  have hop : (Server.getUser w.srv P.u).outpacket = ⟨0, 0, 0, 0x5a :: fd, sq, 0⟩ := by
    rcases h.op with h2 | h1
    · have := h2.2; omega
    · exact h1.1
  have hfl : FragPkt pkt (0x5a :: fd) sq 0 D 0 true := by
    have : decide ((0x5a :: fd).length > 0 ∧ (0x5a :: fd).length = 0 + D) = true := by
      rw [decide_eq_true_iff]; omega
    rw [this] at hfp; exact hfp
  -- step 1: the server receives the data fragment and answers it at once with a dataless packet
  obtain ⟨s1, evs1, t1, pkt1, hit1, hdown1, htun1, hps1, hout1, hE1, htip1, hfrs1, hnow1, hlen1, hdn1, hus1, huf1, hA1, hPA1⟩ :=
    srv_recv_mid_noq_idle hP h.srv.stat h.srv (by rw [hop]) h.ready.stat.cmc h.aged h.paged hQ
      h.expect hsqn h.ready.hf hm2 h64u
  have hdn1' : (Client.decodeHdr pkt1).dnSeq = sq := by rw [hdn1, hop]
  have hq1 : quiet P.u w = false := quiet_false_of_up _ _ _ _ hup
  have hs1 : step w (promptEv w) =
      { w with up := [], srv := s1, down := [.ans c0.chunkid P.ty dname pkt, .ans (sentState c0).chunkid P.ty name pkt1] } := by
    rw [promptEv_up w _ _ hup, step_deliverUp w _ _ hup, srvInput_query, stepS_zero { w with up := [] } _ s1 evs1 t1 hit1, hdown1, htun1]
    simp [hdn, upQuery]
  generalize hw2 : ({ w with up := [], srv := s1, down := [.ans c0.chunkid P.ty dname pkt, .ans (sentState c0).chunkid P.ty name pkt1] } : W) = w2 at hs1
  have hw2cs : w2.cs = w.cs := by subst hw2; rfl
  have hw2up : w2.up = [] := by subst hw2; rfl
  have hw2srv : w2.srv = s1 := by subst hw2; rfl
  have hw2tunC : w2.tunC = w.tunC := by subst hw2; rfl
  have hw2tunS : w2.tunS = w.tunS := by subst hw2; rfl
  have hw2down : w2.down = [.ans c0.chunkid P.ty dname pkt, .ans (sentState c0).chunkid P.ty name pkt1] := by subst hw2; rfl
  have hq2 : quiet P.u w2 = false := quiet_false_of_down _ _ _ _ hw2down
  -- step 2: the client receives the downstream packet
  have hcnt2 : CntOk { sentStateL c0 with sendPingSoon := 0 } 2 := hsi.cnt h.ready.cnt
  have huc2 : ({ sentStateL c0 with sendPingSoon := 0 } : Client.Cli).useridChar2 = c0.useridChar2 := sentStateL_uc2rH c0
  generalize hc : ({ sentStateL c0 with sendPingSoon := 0 } : Client.Cli) = c at hsf hcst hsi hcnt2 huc2
  have hwc : w.cs = ⟨c, .tunnel⟩ := by rw [cstate_eta w.cs h.ph, h.cli, hc]
  generalize hrq : (Client.Rq.mk (pkt.length : Int) c0.chunkid (answerType P.ty) 0 (dname.headD 0) pkt) = rq
  have hci : cliInput (.ans c0.chunkid P.ty dname pkt) = .rq rq := by subst hrq; rfl
  have hrp : RecvPrevL P c rq pkt := by
    subst hrq
    refine ⟨hcst, hsf.sps, ?_, rfl, rfl, ?_, ?_⟩
    · show Client.notData c (dname.headD 0) = false
      unfold Client.notData at hnd ⊢
      rw [hsf.useridChar, huc2]; exact hnd
    · show Client.recentId c c0.chunkid = true
      unfold Client.recentId
      rw [hsi.prev]; simp
    · show c0.chunkid ≠ c.chunkid
      exact fun e => hsi.ne h.ready.stat.cid e.symm
  have hlastp := tunnelDns_last_prev hrp hfl h.hD (by rw [hsf.inpkt]; exact h.dup) (h.exp.congr hsf.inpkt) h.hsq (by omega)
    (by omega) h64d (by rw [hsf.oseq, hsf.ofrag, h.ready.frag]; exact hst)
  generalize hc2 : lastState c (0x5a :: fd) sq 0 D 0 = c2 at hlastp
  have hc2flat : c2 = { ackBook c with inpkt := { inAfter (ackBook c) (0x5a :: fd) sq 0 D 0 with len := 0 }, sendPingSoon := 5 } := by
    rw [← hc2]; rfl
  have hc2st : CStatL P c2 := by
    rw [hc2flat]
    exact ⟨hcst.running, hcst.conn, hcst.lz, hcst.uid, hcst.uch, hcst.td, hcst.L, hcst.enc, hcst.ty, hcst.cid, hcst.cmc,
      by show ¬ c.now + 60 < c.now; omega, hcst.oseq, h.hsq, by show (0 : Int) ≤ ((0 : Nat) : Int) ∧ ((0 : Nat) : Int) < 16; omega, hcst.seed⟩
  have hc2cnt : CntOk c2 1 := by
    rw [hc2flat]
    have := ackBook_cnt c hcnt2
    unfold CntOk at *
    exact this
  have hstep2 : Client.cstep w2.cs (.rq rq) = (⟨c2, .tunnel⟩, [Client.writeTun fd], .sel (Client.selectOf c2)) := by
    rw [hw2cs, hwc, cstep_rq c rq hcst.running hcst.alive hcst.conn, hlastp]
    simp [Client.settle, Client.loopTop, hc2st.running]
  have hs2 : step w2 (promptEv w2) =
      { w2 with down := [.ans (sentState c0).chunkid P.ty name pkt1], cs := ⟨c2, .tunnel⟩, tunC := w.tunC ++ [tunImage fd] } := by
    rw [promptEv_down w2 _ _ hw2up hw2down, step_deliverDown w2 _ _ hw2down, hci,
      stepC_of { w2 with down := [.ans (sentState c0).chunkid P.ty name pkt1] } (.rq rq) ⟨c2, .tunnel⟩ [Client.writeTun fd]
        (.sel (Client.selectOf c2))
        (by exact hstep2) (by show c2.now = w2.cs.c.now; rw [hw2cs, hwc, ← hc2]; rfl)]
    rw [tunOfC_writeTun fd h4]
    have hno : upOfEvents [Client.writeTun fd] = [] := rfl
    rw [hno]
    simp [hw2up, hw2tunC]
  generalize hw3 : ({ w2 with down := [.ans (sentState c0).chunkid P.ty name pkt1], cs := ⟨c2, .tunnel⟩, tunC := w.tunC ++ [tunImage fd] } : W) = w3 at hs2
  have hw3srv : w3.srv = s1 := by subst hw3; exact hw2srv
  have hw3up : w3.up = [] := by subst hw3; exact hw2up
  have hw3down : w3.down = [.ans (sentState c0).chunkid P.ty name pkt1] := by subst hw3; rfl
  have hw3cs : w3.cs = ⟨c2, .tunnel⟩ := by subst hw3; rfl
  have hw3tunC : w3.tunC = w.tunC ++ [tunImage fd] := by subst hw3; rfl
  have hw3tunS : w3.tunS = w.tunS := by subst hw3; exact hw2tunS
  have hq3 : quiet P.u w3 = false := quiet_false_of_down _ _ _ _ hw3down
  -- step 3: the client receives the dataless answer to its most recent query: the next upstream fragment goes out
  have hc2id : c2.chunkid = (sentState c0).chunkid := by rw [hc2flat]; show c.chunkid = _; exact hsi.cid
  have hc2out : c2.outpkt = c.outpkt := by rw [hc2flat]; rfl
  have hc2in : c2.inpkt.seqno = sq := by rw [hc2flat]; rfl
  have hc2cmc : c2.datacmc = (c0.datacmc + 1) % 36 := by
    rw [hc2flat]; show c.datacmc = _; rw [hsf.cmc]
    have := h.ready.stat.cmc
    split <;> omega
  have hc2seed : c2.randSeed = c0.randSeed := by rw [hc2flat]; show c.randSeed = _; exact hsf.seed
  generalize hid1 : (sentState c0).chunkid = id1 at hw3down hc2id
  generalize hrq3 : (Client.Rq.mk (pkt1.length : Int) id1 (answerType P.ty) 0 (name.headD 0) pkt1) = rq3
  have hci3 : cliInput (.ans id1 P.ty name pkt1) = .rq rq3 := by subst hrq3; rfl
  have hdl : Client.tunnelDns c2 rq3 =
      Client.upstream (hintBook c2) (Client.decodeHdr pkt1) [] (c2.sendPingSoon != 0) 2 := by
    have := tunnelDns_dataless_cur c2 rq3
      (by subst hrq3; show Client.notData c2 (name.headD 0) = false
          rw [headD_eq_getD]
          exact notData_held hc2st.uch _ (Or.inl hQ.c0))
      (by subst hrq3; exact hlen1)
      (by subst hrq3; exact hc2id.symm)
      hc2st.lz
      (by subst hrq3; show (Client.decodeHdr pkt1).dnSeq = c2.inpkt.seqno; rw [hdn1', hc2in])
    subst hrq3
    exact this
  have hhb : (hintBook c2).outpkt = c.outpkt := hc2out
  have hmore := upstream_ack_more (hintBook c2) (Client.decodeHdr pkt1) [] (c2.sendPingSoon != 0) 2
    (by
      have hlen0 : outU.length ≠ 0 := by have := h.ready.ho; omega
      unfold Client.isSending
      rw [hhb, hsf.olen, h.ready.len]
      simpa using hlen0)
    (by rw [hus1, hhb, hsf.oseq]; exact hsqc)
    (by rw [huf1, hhb, hsf.ofrag, h.ready.frag])
    (by rw [hhb, hsf.ooff, hsf.osent, hsf.olen, cFragLen_readyL h.ready, hm, h.ready.off, h.ready.len]; exact hltU)
  generalize hc0' : ackNext (hintBook c2) = c0' at hmore
  have hcnt0' : CntOk c0' 0 := by
    subst hc0'
    exact cntOk_ackNext _ _ (ackBook_cnt' c2 0 hc2cnt)
  have hready' : CReadyL P c0' outU (ou + m) (fu + 1) := by
    have hcnt1 : CntOk c0' 1 := by
      have := hcnt0'
      unfold CntOk at *
      omega
    subst hc0'
    have hb := cstat_ackBookL hc2st
    refine ⟨⟨hb.running, hb.conn, hb.lz, hb.uid, hb.uch, hb.td, hb.L, hb.enc, hb.ty, hb.cid, hb.cmc, hb.alive, hb.oseq, hb.iseq, hb.ifrag, hb.seed⟩,
      hcnt1, ?_, ?_, ?_, ?_, hltU, hfu, h.ready.bytes⟩
    · show c2.outpkt.data = outU; rw [hc2out, hsf.odata]; exact h.ready.data
    · show c2.outpkt.len = outU.length; rw [hc2out, hsf.olen]; exact h.ready.len
    · show c2.outpkt.offset + c2.outpkt.sentlen = ou + m
      rw [hc2out, hsf.ooff, hsf.osent, cFragLen_readyL h.ready, hm, h.ready.off]
    · show Client.sChar (c2.outpkt.fragment + 1) = ((fu + 1 : Nat) : Int)
      rw [hc2out, hsf.ofrag, h.ready.frag, sChar_small _ (by omega)]
      omega
  obtain ⟨name'', hsend', _, _, _⟩ := send_readyL hP hready'
  have hsf' := sentFactsL c0'
  have hstep3 : Client.cstep w3.cs (.rq rq3) =
      (⟨{ sentStateL c0' with sendPingSoon := 0 }, .tunnel⟩, [] ++ (Client.sendChunk c0').evs,
       .sel (Client.selectOf { sentStateL c0' with sendPingSoon := 0 })) := by
    rw [hw3cs, cstep_rq c2 rq3 hc2st.running hc2st.alive hc2st.conn, hdl, hmore]
    rw [settle_afterSend _ _ _ (by rw [hsend']) (by rw [hsend']; have := hsf'.running; simpa using this.trans hready'.stat.running)]
    rw [hsend']
  have hnow' : ({ sentStateL c0' with sendPingSoon := 0 } : Client.Cli).now = w3.cs.c.now := by
    rw [hsf'.now, hw3cs]
    subst hc0'; rfl
  have hs3 : step w3 (promptEv w3) =
      { w3 with down := [], cs := ⟨{ sentStateL c0' with sendPingSoon := 0 }, .tunnel⟩, up := upOfEvents (Client.sendChunk c0').evs } := by
    rw [promptEv_down w3 _ _ hw3up hw3down, step_deliverDown w3 _ _ hw3down, hci3,
      stepC_of _ _ _ _ _ (by exact hstep3) (by exact hnow')]
    simp [hsend', tunOfCEvents, hw3up]
  have hc0sq : c0'.outpkt.seqno = c0.outpkt.seqno := by
    subst hc0'; show c2.outpkt.seqno = _; rw [hc2out]; exact hsf.oseq
  have hc0in : c0'.inpkt.seqno = sq := by subst hc0'; exact hc2in
  have hc0cmc : c0'.datacmc = (c0.datacmc + 1) % 36 := by subst hc0'; exact hc2cmc
  have hc0seed : c0'.randSeed = c0.randSeed := by subst hc0'; exact hc2seed
  refine ⟨{ w3 with down := [], cs := ⟨{ sentStateL c0' with sendPingSoon := 0 }, .tunnel⟩, up := upOfEvents (Client.sendChunk c0').evs }, c0', ?_, ?_, ?_, ?_, hc0sq, ?_, ?_⟩
  · rw [promptSteps_succ hq1, hs1, promptSteps_succ hq2, hs2, promptSteps_succ hq3, hs3]
    rfl
  · refine ⟨rfl, hready', hcnt0', rfl, rfl, rfl, ?_, ?_, ?_, ?_, ?_, ?_⟩
    · show PingSrvL P w3.srv
      rw [hw3srv]; exact hps1
    · show (Server.getUser w3.srv P.u).outpacket.len = 0
      rw [hw3srv, hout1, hop]
    · show Expect (Server.getUser w3.srv P.u) outU c0'.outpkt.seqno.toNat (ou + m) (fu + 1)
      rw [hw3srv, hc0sq]; exact hE1
    · show (Server.getUser w3.srv P.u).outpacket.seqno = c0'.inpkt.seqno
      rw [hw3srv, hout1, hop, hc0in]
    · show Aged P (Server.getUser w3.srv P.u) c0'.datacmc 1
      rw [hw3srv, hc0cmc]; exact hA1
    · show PAged P (Server.getUser w3.srv P.u) c0'.randSeed 1
      rw [hw3srv, hc0seed]; exact hPA1
  · exact hw3tunS
  · exact hw3tunC
  · show (Server.getUser w3.srv P.u).tunIp = _
    rw [hw3srv, htip1]
  · show (Server.getUser w3.srv P.u).fragsize = _
    rw [hw3srv, hfrs1]

#print axioms e1_step_dropped

end Iodine.C02L
