import IodineModel.Lemmas.C02d15
import IodineModel.Lemmas.C02L10
/-
C02 / lazy mode, DOWNSTREAM — part 1, on the slot and in the client:
* server: `tunnel_tun` with a query waiting (the first fragment goes out at once as the answer to the held query), the ping
  handler in lazy mode with nothing held (a fragment is due: answered at once; nothing left: the ping is HELD);
* client: the answer counting, `send_ping` in lazy mode (`sendPing_cnt`, `pingStateL`), `tunnel_dns` on an answer with payload
  to the MOST RECENT query (`lazyHint` fires).
-/
namespace Iodine.C02L
open Iodine Iodine.Gen

/-! ## server -/
section server
open Iodine.Server

/-- `tunnel_tun` for a frame addressed to the (only) client, which has nothing in flight and ONE query waiting in `q`
(lazy mode between two queries): a new outpacket is started and its first fragment is sent at once as the answer to that
query -/
theorem tunnelTun_start_lazy {u : Nat} {s : Srv} (hs : Solo u s) (frame : List Nat) (h24 : 24 ≤ frame.length)
    (hx : (getUser s u).active = true ∧ (getUser s u).authenticated = true ∧ (getUser s u).disabled = false ∧
      (getUser s u).lastPkt + 60 > s.now ∧ ipDst frame = (getUser s u).tunIp)
    (hconn : (getUser s u).conn = .dnsNull) (hout : (getUser s u).outpacket.len = 0)
    (hq : (getUser s u).q.id ≠ 0) (hqs : (getUser s u).qs.id = 0) :
    tunnelTun s frame =
      (putUser s u (scSess (startOut (getUser s u) (compress frame) (compress frame).length) u .q).1.1,
       (scSess (startOut (getUser s u) (compress frame) (compress frame).length) u .q).1.2) := by
  unfold tunnelTun
  rw [if_neg (by omega), if_neg (by omega), findUserByIp_solo hs]
  simp only
  rw [if_pos ⟨hx.1, hx.2.1, by simp [hx.2.2.1], hx.2.2.2.1, hx.2.2.2.2⟩]
  simp only [hconn, if_true, hout, Nat.lt_irrefl, if_false]
  rw [startNewOutpacket_eq]
  unfold sendWaiting
  simp only [getUser_putUser_self _ _ _ hs.lt]
  have h1 : (startOut (getUser s u) (compress frame) (compress frame).length).qs.id = 0 := hqs
  have h2 : (startOut (getUser s u) (compress frame) (compress frame).length).q.id ≠ 0 := hq
  rw [if_neg (by rw [h1]; simp), if_pos h2, sendChunkOrDataless_eq _ _ _ (by simpa using hs.lt)]
  simp only [getUser_putUser_self _ _ _ hs.lt, putUser_putUser]

/-- a slot is its own `saveQ` -/
theorem saveQ_self (y : Session) : saveQ y y.q y.lastPkt = y := by
  cases y; rfl

/-- in lazy mode, with no query waiting, a ping that leaves something to send is: ack, store the query, answer it at once
with the next fragment -/
theorem pingSess_lazy_more (x : Session) (u : Nat) (Q : Query) (a b : Int) (now : Nat)
    (hq : x.q.id = 0) (hqs : x.qs.id = 0) (hoq : x.oqFilled = 0) (hlen : 0 < (ackSess x a b).outpacket.len) :
    pingSess x u Q a b now = (scSess (saveQ (ackSess x a b) Q now) u .q).1 := by
  have hc := ackSess_core x a b hoq
  have e1 : (ackSess x a b).qs = x.qs := by have := core_qs hc; exact this
  have e2 : (ackSess x a b).q = x.q := by have := core_q hc; exact this
  unfold pingSess pingASess pingBSess pingCSess
  simp only [e1, hqs, ne_eq, not_true_eq_false, if_false, e2, hq]
  have : (saveQ (ackSess x a b) Q now).outpacket.len > 0 := hlen
  simp [this]

/-- … and a ping that finds nothing (more) to send is HELD: ack, store the query, no answer -/
theorem pingSess_lazy_hold (x : Session) (u : Nat) (Q : Query) (a b : Int) (now : Nat)
    (hq : x.q.id = 0) (hqs : x.qs.id = 0) (hlz : x.lazy = true) (hoq : x.oqFilled = 0)
    (hlen : (ackSess x a b).outpacket.len = 0) :
    pingSess x u Q a b now = (saveQ (ackSess x a b) Q now, []) := by
  have hc := ackSess_core x a b hoq
  have e1 : (ackSess x a b).qs = x.qs := by have := core_qs hc; exact this
  have e2 : (ackSess x a b).q = x.q := by have := core_q hc; exact this
  have e3 : (ackSess x a b).lazy = x.lazy := by have := core_lazy hc; exact this
  unfold pingSess pingASess pingBSess pingCSess
  simp only [e1, hqs, ne_eq, not_true_eq_false, if_false, e2, hq]
  have h1 : (saveQ (ackSess x a b) Q now).outpacket.len = 0 := hlen
  have h2 : (saveQ (ackSess x a b) Q now).lazy = true := by show (ackSess x a b).lazy = true; rw [e3, hlz]
  simp [h1, h2]

/-- the answer to the held query `H` is remembered while the client's counters stand still: both memories are aged with
slack 1 again -/
theorem HeldMem.settle {P : Par} (hu : P.u < 16) {x : Session} {H : Query} {k sd : Nat} (h : HeldMem P x H k sd)
    (ans : List Nat) (hans : ans.length ≤ DNSCACHE_ANSWER_SIZE) :
    Aged P (cacheUpd (qmemUpd x H) H ans) k 1 ∧ PAged P (cacheUpd (qmemUpd x H) H ans) sd 1 := by
  rcases h with ⟨k0, a, b, c, d⟩ | ⟨s0, a, b, c, d⟩
  · exact ⟨c.memo H ans hans k0 1 ⟨by omega, by omega⟩ b a.hk0 a.c4 a.len5 (by rw [a.c0]; exact hexLower_ne_p hu),
      d.memo_data hu H ans hans a.len5 a.c0⟩
  · obtain ⟨cp, hcp, hl, hq2, hq3⟩ := a.fp
    exact ⟨c.memo_ping hu H ans hans a.c0 cp hcp hl, d.memo H ans hans s0 1 ⟨by omega, by omega⟩ b a.c0 cp hcp hl hq2 hq3 a.seed⟩

end server

/-! ## client -/
section client
open Iodine.Client

theorem CntOk.mono {c : Cli} {d d' : Nat} (h : CntOk c d) (hd : d ≤ d') : CntOk c d' := by
  unfold CntOk at *
  omega

/-- a counted send -/
theorem bumpCnt_cnt' (c : Cli) (d : Nat) (h : CntOk c d) : CntOk (bumpCnt c) (d + 1) := by
  unfold bumpCnt
  split
  · unfold CntOk at *
    simp only
    omega
  · unfold CntOk at *
    omega

/-- an accepted answer is counted -/
theorem ackBook_cnt' (c : Cli) (d : Nat) (h : CntOk c (d + 1)) : CntOk (ackBook c) d := by
  unfold CntOk at *
  show c.sendcnt < 0 ∨ 100 ≤ c.sendcnt ∨ c.sendcnt ≤ ((c.recvcnt + 1 : Nat) : Int) + (d : Int)
  omega

/-- **`send_ping` while the answer counting is in balance** (DNS mode): the CMC steps, exactly one query `'p' ++ name` with
a fresh id goes out, the send is counted, and the name carries the whole 4-byte payload. -/
theorem sendPing_cnt (c : Cli) (cd : Codec.Codec) (L : Nat) (td : List Nat)
    (hcnt : CntOk c 1) (hL : c.hostnameMaxlen = (L : Int)) (htd : c.topdomain = td)
    (S : UpSetting cd L td) (hqt : c.doQtype < 65536) (hconn : c.conn = .dnsNull) :
    let b := buildHostname Codec.b32 c.hostnameMaxlen 4095 112 c.topdomain (pingData c)
    let c' : Cli := { c with randSeed := (c.randSeed + 1) % 65536 }
    sendPing c =
      ⟨bumpCnt (rotateChunkid c'), [.query (rotateChunkid c').chunkid c.doQtype (112 :: b.name)], false⟩ ∧
    b.used = 4 := by
  subst htd
  intro b c'
  have hhop := up_hop1 S.toB32 112 (pingData c) (by omega) (by unfold pingData; simp) (pingData_bytes c)
  rw [← hL] at hhop
  have h0 : sendPing c = sendQuery c' (112 :: b.name) := by
    unfold sendPing
    rw [if_pos hconn]
    rfl
  rw [h0]
  have hcnt' : CntOk c' 1 := by unfold CntOk at *; exact hcnt
  exact ⟨sendQuery_cnt c' _ hcnt' hqt hhop.1, hhop.2.2.2.2 (pingData_length c)⟩

/-- `sendPing_facts` for a client whose answer counting is in balance (lazy mode) -/
theorem sendPing_factsL (c : Cli) (cd : Codec.Codec) (L : Nat) (td : List Nat)
    (hcnt : CntOk c 1) (hL : c.hostnameMaxlen = (L : Int)) (htd : c.topdomain = td)
    (S : UpSetting cd L td) (hqt : c.doQtype < 65536) (hconn : c.conn = .dnsNull)
    (hu : 0 ≤ c.userid ∧ c.userid < 16) (hr : c.randSeed < 65536)
    (h3 : 0 ≤ c.inpkt.seqno ∧ c.inpkt.seqno < 8) (h4 : 0 ≤ c.inpkt.fragment ∧ c.inpkt.fragment < 16) :
    ∃ name,
      sendPing c =
        ⟨bumpCnt (rotateChunkid { c with randSeed := (c.randSeed + 1) % 65536 }),
         [.query (rotateChunkid { c with randSeed := (c.randSeed + 1) % 65536 }).chunkid c.doQtype name], false⟩ ∧
      name.getD 0 0 = 112 ∧ C10.LegalName name ∧
      ∃ dlen, Common.queryDatalen name td = some dlen ∧ 2 ≤ dlen ∧
        (∀ ty id from_ from2 dest, pingUnpacked ⟨name, ty, id, from_, 0, from2, dest⟩ dlen = pingData c) ∧
        Server.charVal ((pingData c).getD 0 0) = c.userid ∧
        Server.charVal ((pingData c).getD 1 0) / 16 = c.inpkt.seqno ∧
        Server.charVal ((pingData c).getD 1 0) % 16 = c.inpkt.fragment ∧
        ∃ cp, name.idxOf? 46 = some cp ∧ (Codec.dec Codec.b32 8 (cp - 1) (name.drop 1)).take 4 = pingData c ∧
          4 ≤ (Codec.dec Codec.b32 8 (cp - 1) (name.drop 1)).length := by
  obtain ⟨hsend, -⟩ := sendPing_cnt c cd L td hcnt hL htd S hqt hconn
  obtain ⟨hleg, hg0, ⟨dlen, hq, h2, -, hun⟩, hfp⟩ := ping_name_facts S (pingData c) (pingData_length c) (pingData_bytes c)
  have hbn : buildHostname Codec.b32 c.hostnameMaxlen 4095 112 c.topdomain (pingData c) =
      buildHostname Codec.b32 (L : Int) 4095 112 td (pingData c) := by rw [hL, htd]
  rw [hbn] at hsend
  refine ⟨_, hsend, hg0, hleg, dlen, hq, h2, fun _ _ _ _ _ => hun, ?_, ?_, ?_, hfp⟩
  · rw [pingData_eq c hu hr h3 h4, List.getD_cons_zero, charVal_small _ (by omega)]
    omega
  · rw [pingData_eq c hu hr h3 h4, List.getD_cons_succ, List.getD_cons_zero,
      (charVal_ackByte _ (by omega) _ (by omega)).1]
    omega
  · rw [pingData_eq c hu hr h3 h4, List.getD_cons_succ, List.getD_cons_zero,
      (charVal_ackByte _ (by omega) _ (by omega)).2]
    omega

/-- the state `send_ping` + the end of the handler leave behind in lazy mode: as `pingState`, and the send is counted -/
def pingStateL (c : Cli) : Cli :=
  { bumpCnt (rotateChunkid { c with randSeed := (c.randSeed + 1) % 65536 }) with sendPingSoon := 0 }

theorem pingStateL_eta (c : Cli) :
    pingStateL c = { rotateChunkid { c with randSeed := (c.randSeed + 1) % 65536 } with
                       sendcnt := (pingStateL c).sendcnt, sendPingSoon := 0 } := by
  unfold pingStateL
  have := bumpCnt_eta (rotateChunkid { c with randSeed := (c.randSeed + 1) % 65536 })
  generalize bumpCnt (rotateChunkid { c with randSeed := (c.randSeed + 1) % 65536 }) = z at this
  rw [this]

theorem pingStateL_chunkid (c : Cli) :
    (pingStateL c).chunkid = (rotateChunkid { c with randSeed := (c.randSeed + 1) % 65536 }).chunkid := by
  rw [pingStateL_eta]

theorem pingFactsL (c : Cli) : PingFacts c (pingStateL c) := by
  obtain ⟨v, e⟩ : ∃ v, pingStateL c = { rotateChunkid { c with randSeed := (c.randSeed + 1) % 65536 } with
      sendcnt := v, sendPingSoon := 0 } := ⟨_, pingStateL_eta c⟩
  rw [e]
  constructor
  case cid =>
    have := rotateChunkid_lt { c with randSeed := (c.randSeed + 1) % 65536 }
    simpa using this
  all_goals simp [rotateChunkid]

/-- the ids and the counters after the ping -/
theorem pingStateL_ids (c : Cli) :
    (pingStateL c).chunkidPrev = c.chunkid ∧ (c.chunkid < 65536 → (pingStateL c).chunkid ≠ c.chunkid) ∧
    (∀ d, CntOk c d → CntOk (pingStateL c) (d + 1)) := by
  obtain ⟨v, e⟩ : ∃ v, pingStateL c = { rotateChunkid { c with randSeed := (c.randSeed + 1) % 65536 } with
      sendcnt := v, sendPingSoon := 0 } := ⟨_, pingStateL_eta c⟩
  refine ⟨?_, ?_, ?_⟩
  · rw [e]; simp [rotateChunkid]
  · intro hc
    rw [pingStateL_chunkid]
    exact rotateChunkid_ne { c with randSeed := (c.randSeed + 1) % 65536 } hc
  · intro d hd
    have h1 : CntOk (rotateChunkid { c with randSeed := (c.randSeed + 1) % 65536 }) d := by
      unfold CntOk at *
      unfold rotateChunkid
      exact hd
    have h2 := bumpCnt_cnt' _ d h1
    unfold CntOk at *
    exact h2

attribute [irreducible] pingStateL

/-- the bookkeeping of `tunnel_dns` on an accepted answer to the MOST RECENT query in lazy mode, with no ping due before:
"we shouldn't get much replies to our most-recent query" -/
def hintBook (c : Cli) : Cli := { ackBook c with sendPingSoon := 900 }

theorem hintBook_sps0 (c : Cli) : hintBook { c with sendPingSoon := 0 } = hintBook c := by
  cases c; rfl

/-- `tunnel_dns` on an answer with payload to the most recent query in lazy mode, when nothing is being sent upstream and
the header does not name a recent OLD downstream packet: bookkeeping (with the lazy-mode hint), the downstream fragment
code, and the final ping; `send_something_now` starts as "a ping was due" -/
theorem tunnelDns_payload_lazy (c : Cli) (rq : Rq) (hn : notData c rq.name0 = false) (hrv : 2 < rq.rv)
    (hbad : ¬ (rq.rv = 5 ∧ rq.buf.take 5 = ascii "BADIP"))
    (hid : rq.id = c.chunkid) (hlz : c.lazymode = true)
    (hs : isSending c = false)
    (hdup : (decodeHdr rq.buf).dnSeq = c.inpkt.seqno ∨ Client.recentSeqno c.inpkt.seqno (decodeHdr rq.buf).dnSeq = false) :
    tunnelDns c rq =
      finalPing (downstream (hintBook c) (decodeHdr rq.buf) rq.buf rq.rv (c.sendPingSoon != 0)).1
        (downstream (hintBook c) (decodeHdr rq.buf) rq.buf rq.rv (c.sendPingSoon != 0)).2.1
        (downstream (hintBook c) (decodeHdr rq.buf) rq.buf rq.rv (c.sendPingSoon != 0)).2.2 rq.rv := by
  have hb := hintBook_sps0 c
  unfold tunnelDns
  simp only [hn, Bool.false_eq_true, if_false]
  rw [if_neg (by omega), if_neg hbad]
  generalize (c.sendPingSoon != 0) = sn
  generalize hc0 : ({ c with sendPingSoon := 0 } : Cli) = c0 at hb ⊢
  have e1 : c0.sendPingSoon = 0 := by subst hc0; rfl
  have e2 : c0.chunkid = c.chunkid := by subst hc0; rfl
  have e3 : c0.lazymode = true := by subst hc0; exact hlz
  have e4 : c0.inpkt = c.inpkt := by subst hc0; rfl
  have e5 : isSending c0 = false := by subst hc0; exact hs
  have hrid : recentId (countRecv c0) rq.id = true := by
    unfold recentId
    rw [hid, ← e2]
    show (c0.chunkid == c0.chunkid || _ || _) = true
    simp
  have hd : dupeSeqno c0 (decodeHdr rq.buf) rq.rv = (c0, rq.rv) := by
    unfold dupeSeqno
    rw [if_neg]
    intro ⟨_, h2, h3⟩
    rw [e4] at h2 h3
    rcases hdup with h | h
    · exact h2 h
    · rw [h] at h3; exact absurd h3 (by decide)
  simp only [hd, hrid, Bool.not_true, Bool.false_eq_true, if_false]
  have hl : lazyHint { countRecv c0 with lastdownstreamtime := (countRecv c0).now } rq.id = hintBook c0 := by
    unfold lazyHint
    rw [if_pos ⟨by rw [hid, ← e2]; rfl, by exact e3⟩, if_pos (Or.inl (by exact e1))]
    rfl
  rw [hl, hb]
  have hda : datalessAdopt (hintBook c) (decodeHdr rq.buf) rq.rv = hintBook c := by
    unfold datalessAdopt
    rw [if_neg (by omega)]
  rw [hda]
  have hso : isSending (downstream (hintBook c) (decodeHdr rq.buf) rq.buf rq.rv sn).1 = false := by
    unfold isSending
    rw [downstream_outpkt]
    exact hs
  unfold upstream
  rw [if_neg (by rw [hso]; simp)]

end client

end Iodine.C02L
