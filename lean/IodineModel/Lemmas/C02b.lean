import IodineModel.Server.Loop
import IodineModel.Lemmas.C02base
/-
Component lemmas of the SERVER model for C02 (sub-package A-server):
0. `getUser`/`setUser`/`putUser` basics,
1. tun read gating (`topOfLoop`, `dispatch`, `tunnelTun`),
2. drop of the outpacket after more than 5 unacknowledged sends (`scDropResent`, `sendChunkOrDataless`),
3. ack handling (`processDownstreamAck`),
4. the 60 s expiry (`checkUserAndIp`, `live`, `findAvailableUser`),
5. the server serves the next packet after a drop.
-/
namespace Iodine.C02L
open Iodine Iodine.Server

/-! ## 0. basics (the rest is in `C02base.lean`) -/

theorem getUser_setUser (s : Srv) (u v : Nat) (f : Session → Session) :
    getUser (setUser s u f) v = if v = u ∧ u < s.users.length then f (getUser s u) else getUser s v := by
  by_cases h : v = u
  · subst h
    by_cases hl : v < s.users.length
    · rw [getUser_setUser_self s v f hl]; simp [hl]
    · rw [setUser_oob s v f (Nat.le_of_not_lt hl)]; simp [hl]
  · rw [getUser_setUser_ne s u v f h]; simp [h]

@[simp] theorem setUser_rand (s : Srv) (u : Nat) (f : Session → Session) : (setUser s u f).rand = s.rand := rfl
@[simp] theorem setUser_fw (s : Srv) (u : Nat) (f : Session → Session) : (setUser s u f).fw = s.fw := rfl

theorem putUser_oob (s : Srv) (u : Nat) (x : Session) (h : s.users.length ≤ u) : putUser s u x = s :=
  setUser_oob s u _ h

/-- a write that does not change the slot is no write -/
theorem setUser_id (s : Srv) (u : Nat) (f : Session → Session) (h : f (getUser s u) = getUser s u) :
    setUser s u f = s := by
  rw [setUser_eq_putUser, h, putUser_getUser]

/-- a write after an overwrite is one overwrite -/
theorem setUser_putUser (s : Srv) (u : Nat) (x : Session) (f : Session → Session) (h : u < s.users.length) :
    setUser (putUser s u x) u f = putUser s u (f x) := by
  rw [setUser_eq_putUser, getUser_putUser_self s u x h, putUser_putUser]

/-- two writes to the same slot are one -/
theorem setUser_setUser (s : Srv) (u : Nat) (f g : Session → Session) :
    setUser (setUser s u f) u g = setUser s u (fun x => g (f x)) := by
  by_cases h : u < s.users.length
  · rw [setUser_eq_putUser s u f, setUser_putUser s u _ g h, setUser_eq_putUser s u (fun x => g (f x))]
  · have h' := Nat.le_of_not_lt h
    rw [setUser_oob s u f h', setUser_oob s u g h', setUser_oob s u _ h']

theorem putUser_injective (s : Srv) (u : Nat) (x y : Session) (h : u < s.users.length)
    (e : putUser s u x = putUser s u y) : x = y := by
  have := congrArg (fun t => getUser t u) e
  simpa [getUser_putUser_self, h] using this

/-! ## 1. `server_tun_gating` -/

/-- the loop that clears `q_sendrealsoon_new` is invisible to a predicate that does not read `qsNew` -/
theorem any_clearNewFrom (now c : Nat) (P : Session → Bool) (hP : ∀ x, P { x with qsNew := false } = P x) :
    ∀ (l : List Session) (i : Nat), (clearNewFrom now c l i).any P = l.any P := by
  intro l
  induction l with
  | nil => intro i; rfl
  | cons x xs ih =>
    intro i
    simp only [clearNewFrom, List.any_cons, ih]
    split
    · rw [hP]
    · rfl

/-- `clearNewFrom` is a `map`-like loop: same length, slot `k` is the old slot `k` with at most `qsNew` cleared -/
theorem length_clearNewFrom (now c : Nat) : ∀ (l : List Session) (i : Nat), (clearNewFrom now c l i).length = l.length := by
  intro l
  induction l with
  | nil => intro i; rfl
  | cons x xs ih => intro i; simp [clearNewFrom, ih]

theorem getElem?_clearNewFrom (now c : Nat) : ∀ (l : List Session) (i k : Nat),
    (clearNewFrom now c l i)[k]? =
      l[k]?.map (fun x => if i + k < c ∧ live x now then { x with qsNew := false } else x) := by
  intro l
  induction l with
  | nil => intro i k; simp [clearNewFrom]
  | cons x xs ih =>
    intro i k
    cases k with
    | zero => simp [clearNewFrom]
    | succ k =>
      simp only [clearNewFrom, List.getElem?_cons_succ, ih]
      have : i + 1 + k = i + (k + 1) := by omega
      rw [this]

/-- the top of the loop changes nothing but the users' `qsNew` flags -/
theorem topOfLoop_cfg (s : Srv) : (topOfLoop s).1.cfg = s.cfg := rfl
theorem topOfLoop_now (s : Srv) : (topOfLoop s).1.now = s.now := rfl
theorem topOfLoop_length (s : Srv) : (topOfLoop s).1.users.length = s.users.length :=
  length_clearNewFrom _ _ _ _

theorem getUser_topOfLoop (s : Srv) (k : Nat) :
    getUser (topOfLoop s).1 k =
      if k < s.cfg.createdUsers ∧ live (getUser s k) s.now ∧ k < s.users.length then { getUser s k with qsNew := false }
      else getUser s k := by
  unfold getUser topOfLoop
  simp only [List.getD_eq_getElem?_getD, getElem?_clearNewFrom, Nat.zero_add]
  by_cases hk : k < s.users.length
  · simp only [List.getElem?_eq_getElem hk, Option.map_some, Option.getD_some, hk, and_true]
  · simp [hk]

/-- `tun_fd` is put into the read set iff not all users are waiting to send (definitional) -/
theorem topOfLoop_tunsel (s : Srv) : (topOfLoop s).2.2 = !allUsersWaitingToSend (topOfLoop s).1 := rfl

/-- readable form: the tun device is read iff some live user could take a packet:
a raw-mode user, or a DNS-mode user whose outpacket queue is empty -/
theorem topOfLoop_tunsel_iff (s : Srv) :
    (topOfLoop s).2.2 = true ↔
      ∃ x ∈ s.users, live x s.now = true ∧ (x.conn = .rawUdp ∨ (x.conn = .dnsNull ∧ x.oqFilled = 0)) := by
  show (!allUsersWaitingToSend (topOfLoop s).1) = true ↔ _
  unfold allUsersWaitingToSend
  rw [Bool.not_not]
  show (clearNewFrom s.now s.cfg.createdUsers s.users 0).any _ = true ↔ _
  rw [any_clearNewFrom _ _ _ (fun _ => rfl)]
  simp only [List.any_eq_true, Bool.and_eq_true, Bool.or_eq_true, beq_iff_eq, decide_eq_true_eq,
    Nat.lt_one_iff]
  exact Iff.rfl

/-- a tun frame offered while `tun_fd` is not in the read set is not looked at -/
theorem dispatch_tun_not_selected (s : Srv) (f : List Nat) : dispatch s (.tun f) false = (s, []) := rfl

/-- … the iteration is that of a timeout (`tick`), plus the harness's `tunskip` marker -/
theorem body_tun_not_selected (s : Srv) (f : List Nat) :
    body s (.tun f) false = ((body s .tick false).1, (body s .tick false).2 ++ [Event.tunskip]) := rfl

theorem body_tun_not_selected' (s : Srv) (f : List Nat) :
    body s (.tun f) false = ((sweep s).1, Event.sweep :: (sweep s).2 ++ [Event.tunskip]) := rfl

/-- `tunnel_tun` drops the frame when the destination user's outpacket queue is full -/
theorem tunnelTun_queue_full (s : Srv) (frame : List Nat) (u : Nat) (hl : frame.length ≥ 24)
    (hf : findUserByIp s (ipDst frame) = some u) (hc : (getUser s u).conn = .dnsNull)
    (ho : (getUser s u).outpacket.len > 0) (hq : (getUser s u).oqFilled ≥ Gen.OUTPACKETQ_LEN) :
    tunnelTun s frame = (s, []) := by
  have h0 : ¬ frame.length = 0 := by omega
  have h1 : ¬ frame.length < 4 + 20 := by omega
  simp only [tunnelTun, h0, h1, if_false, hf, hc, ho, if_true, saveToOutpacketq, hq]

/-- … and stores it (nothing is sent) when there is room -/
theorem tunnelTun_queue_room (s : Srv) (frame : List Nat) (u : Nat) (hl : frame.length ≥ 24)
    (hf : findUserByIp s (ipDst frame) = some u) (hc : (getUser s u).conn = .dnsNull)
    (ho : (getUser s u).outpacket.len > 0) :
    tunnelTun s frame = ((saveToOutpacketq s u (compress frame) (compress frame).length).1, []) := by
  have h0 : ¬ frame.length = 0 := by omega
  have h1 : ¬ frame.length < 4 + 20 := by omega
  simp only [tunnelTun, h0, h1, if_false, hf, hc, ho, if_true]

/-- an idle DNS-mode slot starts a new outpacket with the frame -/
theorem tunnelTun_idle_starts (s : Srv) (frame : List Nat) (u : Nat) (hl : frame.length ≥ 24)
    (hf : findUserByIp s (ipDst frame) = some u) (hc : (getUser s u).conn = .dnsNull)
    (ho : (getUser s u).outpacket.len = 0) :
    tunnelTun s frame = sendWaiting (startNewOutpacket s u (compress frame) (compress frame).length) u := by
  have h0 : ¬ frame.length = 0 := by omega
  have h1 : ¬ frame.length < 4 + 20 := by omega
  have h2 : ¬ (getUser s u).outpacket.len > 0 := by omega
  simp only [tunnelTun, h0, h1, if_false, hf, hc, h2, if_true]

/-! ## 2. `server_drops_after_resends` -/

/-- the session after `get_from_outpacketq` has started the next queued packet:
`p = outpacketq[nexttouse]` is copied into the outpacket (at most `sizeof data` bytes), the sequence number advances
modulo 8, the fragment counters and the resend counter are reset, the queue advances cyclically -/
def nextOut (x : Session) : Session :=
  let p := x.outpacketq.getD x.oqNext Packet.zero
  { x with outpacket := { x.outpacket with data := p.data.take (min p.len 65536), len := min p.len 65536, offset := 0,
                                           sentlen := 0, seqno := (x.outpacket.seqno + 1) % 8, fragment := 0 },
           outfragresent := 0,
           oqNext := if x.oqNext + 1 ≥ 4 then 0 else x.oqNext + 1,
           oqFilled := x.oqFilled - 1 }

theorem nextOut_data (x : Session) : (nextOut x).outpacket.data =
    (x.outpacketq.getD x.oqNext Packet.zero).data.take (min (x.outpacketq.getD x.oqNext Packet.zero).len 65536) := rfl
theorem nextOut_len (x : Session) : (nextOut x).outpacket.len = min (x.outpacketq.getD x.oqNext Packet.zero).len 65536 := rfl
theorem nextOut_offset (x : Session) : (nextOut x).outpacket.offset = 0 := rfl
theorem nextOut_sentlen (x : Session) : (nextOut x).outpacket.sentlen = 0 := rfl
theorem nextOut_fragment (x : Session) : (nextOut x).outpacket.fragment = 0 := rfl
theorem nextOut_seqno (x : Session) : (nextOut x).outpacket.seqno = (x.outpacket.seqno + 1) % 8 := rfl
theorem nextOut_outfragresent (x : Session) : (nextOut x).outfragresent = 0 := rfl
theorem nextOut_oqFilled (x : Session) : (nextOut x).oqFilled = x.oqFilled - 1 := rfl
theorem nextOut_oqNext (x : Session) : (nextOut x).oqNext = if x.oqNext + 1 ≥ 4 then 0 else x.oqNext + 1 := rfl
theorem nextOut_oqNext_mod (x : Session) (h : x.oqNext < 4) : (nextOut x).oqNext = (x.oqNext + 1) % 4 := by
  rw [nextOut_oqNext]; split <;> omega

/-- `nextOut` overwrites everything `dropOut` touched -/
theorem nextOut_dropOut (x : Session) : nextOut (dropOut x) = nextOut x := rfl
theorem dropOut_len (x : Session) : (dropOut x).outpacket.len = 0 := rfl
theorem dropOut_offset (x : Session) : (dropOut x).outpacket.offset = 0 := rfl
theorem dropOut_sentlen (x : Session) : (dropOut x).outpacket.sentlen = 0 := rfl
theorem dropOut_outfragresent (x : Session) : (dropOut x).outfragresent = 0 := rfl

theorem getFromOutpacketq_zero (s : Srv) (u : Nat) (h : (getUser s u).oqFilled = 0) :
    getFromOutpacketq s u = (s, false) := by
  simp only [getFromOutpacketq, h, if_true]

theorem getFromOutpacketq_pos (s : Srv) (u : Nat) (h : (getUser s u).oqFilled ≠ 0) :
    getFromOutpacketq s u = (putUser s u (nextOut (getUser s u)), true) := by
  simp only [getFromOutpacketq, h, if_false, startNewOutpacket]
  rw [setUser_setUser, setUser_eq_putUser]
  rfl

/-- the outpacket is kept while it was sent at most 5 times without ack -/
theorem scDropResent_keep (s : Srv) (u : Nat)
    (h : ¬ ((getUser s u).outpacket.len > 0 ∧ (getUser s u).outfragresent > 5)) : scDropResent s u = s := by
  simp only [scDropResent, h, if_false]

/-- more than 5 sends without ack, nothing queued: the packet is forgotten, the slot is idle -/
theorem scDropResent_drop_empty (s : Srv) (u : Nat) (hu : u < s.users.length)
    (h1 : (getUser s u).outpacket.len > 0) (h2 : (getUser s u).outfragresent > 5) (h3 : (getUser s u).oqFilled = 0) :
    scDropResent s u = putUser s u (dropOut (getUser s u)) := by
  simp only [scDropResent, h1, h2, and_self, if_true]
  rw [setUser_eq_putUser, getFromOutpacketq_zero]
  rw [getUser_putUser_self s u _ hu]
  exact h3

/-- more than 5 sends without ack, something queued: the packet is forgotten and the next queued packet
becomes the outpacket -/
theorem scDropResent_drop_next (s : Srv) (u : Nat) (hu : u < s.users.length)
    (h1 : (getUser s u).outpacket.len > 0) (h2 : (getUser s u).outfragresent > 5) (h3 : (getUser s u).oqFilled > 0) :
    scDropResent s u = putUser s u (nextOut (getUser s u)) := by
  simp only [scDropResent, h1, h2, and_self, if_true]
  rw [setUser_eq_putUser, getFromOutpacketq_pos, getUser_putUser_self s u _ hu, putUser_putUser, nextOut_dropOut]
  rw [getUser_putUser_self s u _ hu]
  show (getUser s u).oqFilled ≠ 0
  omega

/-- both drop cases in one -/
def afterDrop (x : Session) : Session := if x.oqFilled = 0 then dropOut x else nextOut x

theorem afterDrop_outfragresent (x : Session) : (afterDrop x).outfragresent = 0 := by
  unfold afterDrop; split <;> rfl

theorem scDropResent_drop (s : Srv) (u : Nat) (hu : u < s.users.length)
    (h1 : (getUser s u).outpacket.len > 0) (h2 : (getUser s u).outfragresent > 5) :
    scDropResent s u = putUser s u (afterDrop (getUser s u)) := by
  unfold afterDrop
  split
  · rename_i h3; exact scDropResent_drop_empty s u hu h1 h2 h3
  · rename_i h3; exact scDropResent_drop_next s u hu h1 h2 (by omega)

/-! ### the rest of `send_chunk_or_dataless` -/

/-- fields of a slot that the bookkeeping at the end of `send_chunk_or_dataless` (qmem, dnscache, `q->id = 0`) does not touch -/
structure Keep (x y : Session) : Prop where
  outpacket : y.outpacket = x.outpacket
  outfragresent : y.outfragresent = x.outfragresent
  inpacket : y.inpacket = x.inpacket
  conn : y.conn = x.conn
  fragsize : y.fragsize = x.fragsize
  downenc : y.downenc = x.downenc
  encoder : y.encoder = x.encoder
  lazy : y.lazy = x.lazy
  oqFilled : y.oqFilled = x.oqFilled
  oqNext : y.oqNext = x.oqNext
  outpacketq : y.outpacketq = x.outpacketq
  active : y.active = x.active
  authenticated : y.authenticated = x.authenticated
  disabled : y.disabled = x.disabled
  lastPkt : y.lastPkt = x.lastPkt
  tunIp : y.tunIp = x.tunIp
  host : y.host = x.host

theorem Keep.refl (x : Session) : Keep x x := ⟨rfl, rfl, rfl, rfl, rfl, rfl, rfl, rfl, rfl, rfl, rfl, rfl, rfl, rfl, rfl, rfl, rfl⟩

theorem Keep.trans {x y z : Session} (a : Keep x y) (b : Keep y z) : Keep x z :=
  ⟨b.1.trans a.1, b.2.trans a.2, b.3.trans a.3, b.4.trans a.4, b.5.trans a.5, b.6.trans a.6, b.7.trans a.7,
   b.8.trans a.8, b.9.trans a.9, b.10.trans a.10, b.11.trans a.11, b.12.trans a.12, b.13.trans a.13,
   b.14.trans a.14, b.15.trans a.15, b.16.trans a.16, b.17.trans a.17⟩

theorem keep_setUser (s : Srv) (u : Nat) (f : Session → Session) (hf : ∀ z, Keep z (f z)) :
    Keep (getUser s u) (getUser (setUser s u f) u) := by
  rw [getUser_setUser]
  split
  · exact hf _
  · exact Keep.refl _

theorem keep_saveToQmemPingOrData (s : Srv) (u : Nat) (q : Query) :
    Keep (getUser s u) (getUser (saveToQmemPingOrData s u q) u) := by
  unfold saveToQmemPingOrData
  simp only
  split
  · split
    · exact Keep.refl _
    · split
      · exact Keep.refl _
      · exact keep_setUser s u _ (fun z => ⟨rfl, rfl, rfl, rfl, rfl, rfl, rfl, rfl, rfl, rfl, rfl, rfl, rfl, rfl, rfl, rfl, rfl⟩)
  · split
    · exact Keep.refl _
    · exact keep_setUser s u _ (fun z => ⟨rfl, rfl, rfl, rfl, rfl, rfl, rfl, rfl, rfl, rfl, rfl, rfl, rfl, rfl, rfl, rfl, rfl⟩)

theorem keep_saveToDnscache (s : Srv) (u : Nat) (q : Query) (a : List Nat) :
    Keep (getUser s u) (getUser (saveToDnscache s u q a) u) := by
  unfold saveToDnscache
  split
  · exact Keep.refl _
  · exact keep_setUser s u _ (fun z => ⟨rfl, rfl, rfl, rfl, rfl, rfl, rfl, rfl, rfl, rfl, rfl, rfl, rfl, rfl, rfl, rfl, rfl⟩)

theorem keep_qset (w : QSel) (z : Session) (q : Query) : Keep z (w.set z q) := by
  cases w <;> exact ⟨rfl, rfl, rfl, rfl, rfl, rfl, rfl, rfl, rfl, rfl, rfl, rfl, rfl, rfl, rfl, rfl, rfl⟩

/-- the answer(s) `send_chunk_or_dataless` writes when it finds the state `s1` after its first two blocks -/
def scAns (s1 : Srv) (u : Nat) (w : QSel) : Query × List Event :=
  let x := getUser s1 u
  scAnswer (w.get x) (scPkt x (scDatalen x)) x.downenc u

/-- the state after the bookkeeping (qmem, dnscache, `q->id = 0`) -/
def scS4 (s1 : Srv) (u : Nat) (w : QSel) : Srv :=
  let x := getUser s1 u
  let a := scAns s1 u w
  setUser (saveToDnscache (saveToQmemPingOrData s1 u a.1) u a.1 (scPkt x (scDatalen x))) u
    fun y => w.set y { a.1 with id := 0 }

/-- `send_chunk_or_dataless` from its third block on -/
def scTail (s1 : Srv) (u : Nat) (w : QSel) : Res × Bool :=
  let x := getUser s1 u
  if scDatalen x > 0 ∧ scDatalen x = x.outpacket.len then
    let r := getFromOutpacketq (setUser (scS4 s1 u w) u dropOut) u
    ((r.1, (scAns s1 u w).2), r.2)
  else ((scS4 s1 u w, (scAns s1 u w).2), false)

/-- `send_chunk_or_dataless` = drop block, count block, rest (definitional) -/
theorem sendChunkOrDataless_tail (s : Srv) (u : Nat) (w : QSel) :
    sendChunkOrDataless s u w = scTail (scPrepare (scDropResent s u) u) u w := rfl

theorem keep_scS4 (s1 : Srv) (u : Nat) (w : QSel) : Keep (getUser s1 u) (getUser (scS4 s1 u w) u) := by
  unfold scS4
  exact ((keep_saveToQmemPingOrData s1 u _).trans (keep_saveToDnscache _ u _ _)).trans
    (keep_setUser _ u _ (fun z => keep_qset w z _))

theorem scAnswer_head (q : Query) (pkt : List Nat) (d u : Nat) :
    (scAnswer q pkt d u).2.head? = some (writeDns q pkt d (.chunk u)) := by
  unfold scAnswer; split <;> rfl

/-- the events of `send_chunk_or_dataless` are the answers to the query (and to its remembered duplicate) -/
theorem scTail_events (s1 : Srv) (u : Nat) (w : QSel) : (scTail s1 u w).1.2 = (scAns s1 u w).2 := by
  unfold scTail; simp only; split <;> rfl

theorem scTail_head (s1 : Srv) (u : Nat) (w : QSel) :
    (scTail s1 u w).1.2.head? =
      some (writeDns (w.get (getUser s1 u)) (scPkt (getUser s1 u) (scDatalen (getUser s1 u))) (getUser s1 u).downenc (.chunk u)) := by
  rw [scTail_events]; exact scAnswer_head _ _ _ _

theorem scTail_not_whole (s1 : Srv) (u : Nat) (w : QSel)
    (h : ¬ (scDatalen (getUser s1 u) > 0 ∧ scDatalen (getUser s1 u) = (getUser s1 u).outpacket.len)) :
    scTail s1 u w = ((scS4 s1 u w, (scAns s1 u w).2), false) := by
  simp only [scTail, h, if_false]

/-- the session after the count block: length of the fragment in flight remembered, send counted -/
def sent (x : Session) : Session :=
  { x with outpacket := { x.outpacket with sentlen := scDatalen x }, outfragresent := x.outfragresent + 1 }

theorem scPkt_sent (x : Session) (d : Nat) : scPkt (sent x) d = scPkt x d := rfl
theorem scDatalen_sent (x : Session) : scDatalen (sent x) = scDatalen x := rfl
theorem get_sent (w : QSel) (x : Session) : w.get (sent x) = w.get x := by cases w <;> rfl

theorem scPrepare_pos (s : Srv) (u : Nat) (h : (getUser s u).outpacket.len > 0) :
    scPrepare s u = putUser s u (sent (getUser s u)) := by
  simp only [scPrepare, h, if_true]
  rw [setUser_eq_putUser]; rfl

theorem scPrepare_zero (s : Srv) (u : Nat) (h : (getUser s u).outpacket.len = 0) : scPrepare s u = s := by
  have : ¬ (getUser s u).outpacket.len > 0 := by omega
  simp only [scPrepare, this, if_false]

/-- a fragment that is not the whole packet and was sent at most 5 times: the SAME fragment is sent again
and the send is counted.  (`x` is the slot before the call: pass `rfl` for `hx`.) -/
theorem sendChunkOrDataless_counts (s : Srv) (u : Nat) (w : QSel) (x : Session) (hx : getUser s u = x)
    (hu : u < s.users.length)
    (h1 : x.outpacket.len > 0 ∧ x.outfragresent ≤ 5)
    (h2 : ¬ (scDatalen x = x.outpacket.len)) :
    (getUser (sendChunkOrDataless s u w).1.1 u).outfragresent = x.outfragresent + 1 ∧
    (getUser (sendChunkOrDataless s u w).1.1 u).outpacket.len = x.outpacket.len ∧
    (getUser (sendChunkOrDataless s u w).1.1 u).outpacket.offset = x.outpacket.offset ∧
    (getUser (sendChunkOrDataless s u w).1.1 u).outpacket.seqno = x.outpacket.seqno ∧
    (getUser (sendChunkOrDataless s u w).1.1 u).outpacket.fragment = x.outpacket.fragment ∧
    (getUser (sendChunkOrDataless s u w).1.1 u).outpacket.data = x.outpacket.data ∧
    (getUser (sendChunkOrDataless s u w).1.1 u).outpacket.sentlen = scDatalen x ∧
    (sendChunkOrDataless s u w).1.2.head? = some (writeDns (w.get x)
      (scPkt { x with outpacket := { x.outpacket with sentlen := scDatalen x }, outfragresent := x.outfragresent + 1 } (scDatalen x))
      x.downenc (.chunk u)) ∧
    (sendChunkOrDataless s u w).2 = false := by
  subst hx
  have hk : scDropResent s u = s := scDropResent_keep s u (by omega)
  have hr : sendChunkOrDataless s u w = scTail (putUser s u (sent (getUser s u))) u w := by
    rw [sendChunkOrDataless_tail, hk, scPrepare_pos s u h1.1]
  have hg : getUser (putUser s u (sent (getUser s u))) u = sent (getUser s u) := getUser_putUser_self s u _ hu
  have hnw : ¬ (scDatalen (getUser (putUser s u (sent (getUser s u))) u) > 0 ∧
      scDatalen (getUser (putUser s u (sent (getUser s u))) u) =
        (getUser (putUser s u (sent (getUser s u))) u).outpacket.len) := by
    rw [hg]; exact fun h => h2 h.2
  have hk := keep_scS4 (putUser s u (sent (getUser s u))) u w
  rw [hr, scTail_not_whole _ u w hnw]
  rw [hg] at hk
  have ho := hk.outpacket
  have hf := hk.outfragresent
  refine ⟨hf, ?_, ?_, ?_, ?_, ?_, ?_, ?_, rfl⟩
  · rw [ho]; rfl
  · rw [ho]; rfl
  · rw [ho]; rfl
  · rw [ho]; rfl
  · rw [ho]; rfl
  · rw [ho]; rfl
  · show (scAns (putUser s u (sent (getUser s u))) u w).2.head? = _
    unfold scAns
    rw [scAnswer_head, hg, get_sent]; rfl

/-- same, with the packet written as the fragment of the ORIGINAL session: header bytes and `data[offset .. offset+datalen)` -/
theorem sendChunkOrDataless_counts_pkt (s : Srv) (u : Nat) (w : QSel) (hu : u < s.users.length)
    (h1 : (getUser s u).outpacket.len > 0 ∧ (getUser s u).outfragresent ≤ 5)
    (h2 : ¬ (scDatalen (getUser s u) = (getUser s u).outpacket.len)) :
    (sendChunkOrDataless s u w).1.2.head? =
      some (writeDns (w.get (getUser s u)) (scPkt (getUser s u) (scDatalen (getUser s u))) (getUser s u).downenc (.chunk u)) :=
  (sendChunkOrDataless_counts s u w _ rfl hu h1 h2).2.2.2.2.2.2.2.1

/-- after the drop block has fired, the rest runs exactly as a fresh `send_chunk_or_dataless` on the post-drop state
(whose resend counter is 0, so its own drop block is the identity) -/
theorem scDropResent_idem_of_zero (s : Srv) (u : Nat) (h : (getUser s u).outfragresent = 0) : scDropResent s u = s :=
  scDropResent_keep s u (by omega)

/-- THE drop: an outpacket whose current fragment was sent more than 5 times without ack is forgotten as a whole;
the answer is built from the post-drop state `s'` (idle slot, or the next queued packet):
the call continues with the let-chain of `send_chunk_or_dataless` started from `s'`, and it is even the same as
a fresh call on `s'`.  (Pass `rfl` for `hx`, `hs'`.) -/
theorem server_drops_after_resends (s : Srv) (u : Nat) (w : QSel) (x : Session) (hx : getUser s u = x)
    (s' : Srv) (hs' : putUser s u (if x.oqFilled = 0 then dropOut x else nextOut x) = s')
    (hu : u < s.users.length) (h1 : x.outpacket.len > 0) (h2 : x.outfragresent > 5) :
    scDropResent s u = s' ∧
    sendChunkOrDataless s u w = scTail (scPrepare s' u) u w ∧
    sendChunkOrDataless s u w = sendChunkOrDataless s' u w := by
  subst hx
  have hd : scDropResent s u = s' := by rw [← hs']; exact scDropResent_drop s u hu h1 h2
  have hz : (getUser s' u).outfragresent = 0 := by
    rw [← hs']
    show (getUser (putUser s u (afterDrop (getUser s u))) u).outfragresent = 0
    rw [getUser_putUser_self s u _ hu, afterDrop_outfragresent]
  refine ⟨hd, ?_, ?_⟩
  · rw [sendChunkOrDataless_tail, hd]
  · rw [sendChunkOrDataless_tail, sendChunkOrDataless_tail, hd, scDropResent_idem_of_zero s' u hz]

/-! ### non-vacuity: a concrete server -/

def cfg0 : Config :=
  { checkIp := false, password := [], myIp := 0x0a000001, netmask := 27, topdomain := [], mtu := 1130, nsIp := 0,
    bindPort := 0, dest4 := 0, dest6 := 0, createdUsers := 0 }

/-- slot 0 of a fresh 16-slot server: active DNS-mode user, a query waiting, outpacket of 3 bytes, fragment size 2,
the current fragment already sent 6 times without ack, one packet (3 bytes) queued -/
def x0 : Session :=
  { Session.zero 0x0a000002 with
    active := true, authenticated := true, lastPkt := 990, conn := .dnsNull, fragsize := 2, downenc := 84,
    q := { Query.zero with id := 5, type := 10, from_ := ⟨4, 0x01020304, 4711⟩ },
    outpacket := { len := 3, sentlen := 2, offset := 0, data := [1, 2, 3], seqno := 1, fragment := 0 },
    outfragresent := 6,
    outpacketq := [Packet.zero, { Packet.zero with len := 3, data := [7, 8, 9] }, Packet.zero, Packet.zero],
    oqNext := 1, oqFilled := 1 }

def s0 : Srv := putUser (Srv.init cfg0 27) 0 x0

example : 0 < s0.users.length ∧ getUser s0 0 = x0 ∧ (getUser s0 0).outpacket.len > 0 ∧ (getUser s0 0).outfragresent > 5 ∧
    (getUser s0 0).oqFilled > 0 := by decide +kernel

/-- the 7th call drops [1,2,3] and sends the first fragment [7,8] of the queued packet with the next sequence number -/
example :
    scDropResent s0 0 = putUser s0 0 (nextOut x0) ∧
    (sendChunkOrDataless s0 0 .q).1.2 =
      [Event.ans ⟨4, 0x01020304, 4711⟩ 5 10 84 [] [128, (2 <<< 5) ||| 0, 7, 8] (.chunk 0)] ∧
    (getUser (sendChunkOrDataless s0 0 .q).1.1 0).outpacket = { len := 3, sentlen := 2, offset := 0, data := [7, 8, 9], seqno := 2, fragment := 0 } ∧
    (getUser (sendChunkOrDataless s0 0 .q).1.1 0).outfragresent = 1 ∧
    (getUser (sendChunkOrDataless s0 0 .q).1.1 0).oqFilled = 0 ∧
    (getUser (sendChunkOrDataless s0 0 .q).1.1 0).oqNext = 2 := by decide +kernel

/-- the same slot one resend earlier (`outfragresent = 5`): the fragment [1,2] goes out a 6th time and is counted -/
example :
    let s := putUser s0 0 { x0 with outfragresent := 5 }
    (sendChunkOrDataless s 0 .q).1.2 = [Event.ans ⟨4, 0x01020304, 4711⟩ 5 10 84 [] [128, (1 <<< 5) ||| 0, 1, 2] (.chunk 0)] ∧
    (getUser (sendChunkOrDataless s 0 .q).1.1 0).outfragresent = 6 ∧
    (getUser (sendChunkOrDataless s 0 .q).1.1 0).outpacket = x0.outpacket := by decide +kernel

/-! ## 3. `ack_advances` (server half) -/

/-- an ack that does not name the fragment in flight (or no packet / nothing sent yet) changes nothing -/
theorem processDownstreamAck_other (s : Srv) (u : Nat) (a b : Int)
    (h : (getUser s u).outpacket.len = 0 ∨ (getUser s u).outpacket.seqno ≠ a ∨ (getUser s u).outpacket.fragment ≠ b ∨
      (getUser s u).outpacket.sentlen = 0) :
    processDownstreamAck s u a b = s := by
  unfold processDownstreamAck
  simp only
  split
  · rfl
  · split
    · rfl
    · split
      · rfl
      · rename_i h1 h2 h3
        rcases h with h | h | h | h
        · exact absurd h h1
        · exact absurd (Or.inl h) h2
        · exact absurd (Or.inr h) h2
        · exact absurd h h3

/-- the ack of the fragment in flight, more to send: the offset advances by the acked length, the fragment number
is incremented, the resend counter is reset -/
theorem processDownstreamAck_advance (s : Srv) (u : Nat) (a b : Int)
    (h1 : (getUser s u).outpacket.len ≠ 0) (h2 : (getUser s u).outpacket.seqno = a) (h3 : (getUser s u).outpacket.fragment = b)
    (h4 : (getUser s u).outpacket.sentlen ≠ 0)
    (h5 : (getUser s u).outpacket.offset + (getUser s u).outpacket.sentlen < (getUser s u).outpacket.len) :
    processDownstreamAck s u a b =
      putUser s u { getUser s u with
        outpacket := { (getUser s u).outpacket with
          offset := (getUser s u).outpacket.offset + (getUser s u).outpacket.sentlen, sentlen := 0,
          fragment := sChar ((getUser s u).outpacket.fragment + 1) },
        outfragresent := 0 } := by
  have h23 : ¬ ((getUser s u).outpacket.seqno ≠ a ∨ (getUser s u).outpacket.fragment ≠ b) := by
    intro h; rcases h with h | h
    · exact h h2
    · exact h h3
  have h6 : ¬ ((getUser s u).outpacket.offset + (getUser s u).outpacket.sentlen ≥ (getUser s u).outpacket.len) := by omega
  simp only [processDownstreamAck, h1, h23, h4, h6, if_false]
  rw [setUser_eq_putUser]

/-- the session after the ack of the LAST fragment when nothing is queued: idle -/
def srvAckDone (x : Session) : Session :=
  { x with outpacket := { x.outpacket with len := 0, offset := 0, sentlen := 0,
                                           fragment := sChar (sChar (x.outpacket.fragment + 1) - 1) },
           outfragresent := 0 }

theorem srvAckDone_len (x : Session) : (srvAckDone x).outpacket.len = 0 := rfl
theorem srvAckDone_offset (x : Session) : (srvAckDone x).outpacket.offset = 0 := rfl
theorem srvAckDone_sentlen (x : Session) : (srvAckDone x).outpacket.sentlen = 0 := rfl
theorem srvAckDone_seqno (x : Session) : (srvAckDone x).outpacket.seqno = x.outpacket.seqno := rfl
theorem srvAckDone_data (x : Session) : (srvAckDone x).outpacket.data = x.outpacket.data := rfl
theorem srvAckDone_fragment (x : Session) :
    (srvAckDone x).outpacket.fragment = sChar (sChar (x.outpacket.fragment + 1) - 1) := rfl
theorem srvAckDone_outfragresent (x : Session) : (srvAckDone x).outfragresent = 0 := rfl
theorem nextOut_srvAckDone (x : Session) : nextOut (srvAckDone x) = nextOut x := rfl

/-- the `+1` / `-1` on the `char` cancel except at the wrap 127 → -128 → 127 (stays in range, so: always) -/
theorem sChar_inc_dec (f : Int) (h : -128 ≤ f ∧ f ≤ 127) : sChar (sChar (f + 1) - 1) = f := by
  unfold sChar; omega

/-- the ack of the last fragment: the packet is finished; idle, or the next queued packet is started -/
theorem processDownstreamAck_complete (s : Srv) (u : Nat) (a b : Int) (hu : u < s.users.length)
    (h1 : (getUser s u).outpacket.len ≠ 0) (h2 : (getUser s u).outpacket.seqno = a) (h3 : (getUser s u).outpacket.fragment = b)
    (h4 : (getUser s u).outpacket.sentlen ≠ 0)
    (h5 : (getUser s u).outpacket.len ≤ (getUser s u).outpacket.offset + (getUser s u).outpacket.sentlen) :
    processDownstreamAck s u a b =
      putUser s u (if (getUser s u).oqFilled = 0 then srvAckDone (getUser s u) else nextOut (getUser s u)) := by
  have h23 : ¬ ((getUser s u).outpacket.seqno ≠ a ∨ (getUser s u).outpacket.fragment ≠ b) := by
    intro h; rcases h with h | h
    · exact h h2
    · exact h h3
  have h6 : (getUser s u).outpacket.offset + (getUser s u).outpacket.sentlen ≥ (getUser s u).outpacket.len := h5
  simp only [processDownstreamAck, h1, h23, h4, h6, if_false, if_true]
  rw [setUser_setUser, setUser_eq_putUser]
  show (getFromOutpacketq (putUser s u (srvAckDone (getUser s u))) u).1 = _
  by_cases hq : (getUser s u).oqFilled = 0
  · rw [getFromOutpacketq_zero, if_pos hq]
    rw [getUser_putUser_self s u _ hu]; exact hq
  · rw [getFromOutpacketq_pos, if_neg hq, getUser_putUser_self s u _ hu, putUser_putUser, nextOut_srvAckDone]
    rw [getUser_putUser_self s u _ hu]; exact hq

theorem processDownstreamAck_complete_idle (s : Srv) (u : Nat) (a b : Int) (hu : u < s.users.length)
    (h1 : (getUser s u).outpacket.len ≠ 0) (h2 : (getUser s u).outpacket.seqno = a) (h3 : (getUser s u).outpacket.fragment = b)
    (h4 : (getUser s u).outpacket.sentlen ≠ 0)
    (h5 : (getUser s u).outpacket.len ≤ (getUser s u).outpacket.offset + (getUser s u).outpacket.sentlen)
    (hq : (getUser s u).oqFilled = 0) :
    processDownstreamAck s u a b = putUser s u (srvAckDone (getUser s u)) := by
  rw [processDownstreamAck_complete s u a b hu h1 h2 h3 h4 h5, if_pos hq]

theorem processDownstreamAck_complete_next (s : Srv) (u : Nat) (a b : Int) (hu : u < s.users.length)
    (h1 : (getUser s u).outpacket.len ≠ 0) (h2 : (getUser s u).outpacket.seqno = a) (h3 : (getUser s u).outpacket.fragment = b)
    (h4 : (getUser s u).outpacket.sentlen ≠ 0)
    (h5 : (getUser s u).outpacket.len ≤ (getUser s u).outpacket.offset + (getUser s u).outpacket.sentlen)
    (hq : (getUser s u).oqFilled > 0) :
    processDownstreamAck s u a b = putUser s u (nextOut (getUser s u)) := by
  rw [processDownstreamAck_complete s u a b hu h1 h2 h3 h4 h5, if_neg (by omega)]

/-- in every case the ack handler resets the resend counter or leaves the slot alone -/
theorem processDownstreamAck_cases (s : Srv) (u : Nat) (a b : Int) (hu : u < s.users.length) :
    processDownstreamAck s u a b = s ∨
    (∃ x', processDownstreamAck s u a b = putUser s u x' ∧ x'.outfragresent = 0) := by
  by_cases h1 : (getUser s u).outpacket.len = 0
  · exact Or.inl (processDownstreamAck_other s u a b (Or.inl h1))
  by_cases h2 : (getUser s u).outpacket.seqno ≠ a
  · exact Or.inl (processDownstreamAck_other s u a b (Or.inr (Or.inl h2)))
  by_cases h3 : (getUser s u).outpacket.fragment ≠ b
  · exact Or.inl (processDownstreamAck_other s u a b (Or.inr (Or.inr (Or.inl h3))))
  have h2 := Decidable.not_not.1 h2
  have h3 := Decidable.not_not.1 h3
  by_cases h4 : (getUser s u).outpacket.sentlen = 0
  · exact Or.inl (processDownstreamAck_other s u a b (Or.inr (Or.inr (Or.inr h4))))
  by_cases h5 : (getUser s u).outpacket.offset + (getUser s u).outpacket.sentlen < (getUser s u).outpacket.len
  · exact Or.inr ⟨_, processDownstreamAck_advance s u a b h1 h2 h3 h4 h5, rfl⟩
  · refine Or.inr ⟨_, processDownstreamAck_complete s u a b hu h1 h2 h3 h4 (by omega), ?_⟩
    split <;> rfl

/-! ## 4. `session_expiry_60` (server half) -/

/-- for an active, enabled user whose address matches (or with `check_ip` off), `check_user_and_ip` rejects
exactly when more than 60 s have passed since the last packet -/
theorem checkUserAndIp_expired_iff (s : Srv) (u : Nat) (q : Query) (hu : u < s.cfg.createdUsers)
    (ha : (getUser s u).active = true) (hd : (getUser s u).disabled = false)
    (hip : s.cfg.checkIp = false ∨ (q.from_.fam = (getUser s u).host.fam ∧ (q.from_.fam = 4 ∨ q.from_.fam = 6) ∧
      (getUser s u).host.ip = q.from_.ip)) :
    checkUserAndIp s (u : Int) q = true ↔ (getUser s u).lastPkt + 60 < s.now := by
  have h0 : ¬ ((u : Int) < 0 ∨ (u : Int) ≥ (s.cfg.createdUsers : Int)) := by omega
  simp only [checkUserAndIp, h0, if_false, Int.toNat_natCast, ha, hd, Bool.not_true, Bool.or_self, Bool.false_eq_true]
  by_cases he : (getUser s u).lastPkt + 60 < s.now
  · simp only [he, if_true]
  · simp only [he, if_false, iff_false]
    rcases hip with hc | ⟨hf, h46, hi⟩
    · simp [hc]
    · by_cases hc : s.cfg.checkIp = true
      · rcases h46 with h4 | h6
        · simp [hc, hf.symm, h4, hi]
        · simp [hc, hf.symm, h6, hi]
      · simp [hc]

theorem live_iff (x : Session) (now : Nat) :
    live x now = true ↔ x.active = true ∧ ¬ x.disabled = true ∧ now < x.lastPkt + 60 := by
  unfold live
  simp only [Bool.and_eq_true, Bool.not_eq_true', decide_eq_true_eq, gt_iff_lt, Bool.not_eq_true, and_assoc]

/-- the two tests disagree at exactly one instant: at `now = last_pkt + 60` the user still passes `check_user_and_ip`
(its queries are answered) but is no longer `live` (no sweep, no tun delivery, not counted by `all_users_waiting_to_send`) -/
theorem expiry_boundary (s : Srv) (u : Nat) (q : Query) (hu : u < s.cfg.createdUsers)
    (ha : (getUser s u).active = true) (hd : (getUser s u).disabled = false) (hip : s.cfg.checkIp = false)
    (hn : s.now = (getUser s u).lastPkt + 60) :
    checkUserAndIp s (u : Int) q = false ∧ live (getUser s u) s.now = false := by
  constructor
  · have := checkUserAndIp_expired_iff s u q hu ha hd (Or.inl hip)
    cases h : checkUserAndIp s (u : Int) q
    · rfl
    · have := this.1 h; omega
  · cases h : live (getUser s u) s.now
    · rfl
    · have := ((live_iff _ _).1 h).2.2; omega

/-- and they agree everywhere else -/
theorem live_iff_not_rejected (s : Srv) (u : Nat) (q : Query) (hu : u < s.cfg.createdUsers)
    (ha : (getUser s u).active = true) (hd : (getUser s u).disabled = false) (hip : s.cfg.checkIp = false)
    (hn : s.now ≠ (getUser s u).lastPkt + 60) :
    live (getUser s u) s.now = true ↔ checkUserAndIp s (u : Int) q = false := by
  rw [live_iff, ← Bool.not_eq_true, checkUserAndIp_expired_iff s u q hu ha hd (Or.inl hip)]
  simp only [ha, hd, true_and, Bool.false_eq_true, not_false_eq_true]
  omega

example :
    let s := { s0 with now := 1050 }
    (getUser s 0).lastPkt + 60 = s.now ∧ checkUserAndIp s 0 Query.zero = false ∧ live (getUser s 0) s.now = false := by
  decide +kernel

/-! ### `find_available_user` -/

/-- a slot that `find_available_user` may hand out: unused, or silent for MORE than 60 s; and not disabled -/
def avail (now : Nat) (x : Session) : Prop :=
  (¬ x.active = true ∨ x.lastPkt + 60 < now) ∧ ¬ x.disabled = true

def slotAvail (now : Nat) (t : Users.Slot) : Prop :=
  (¬ t.active = true ∨ t.lastPkt + 60 < now) ∧ ¬ t.disabled = true

theorem slotAvail_toSlot (now : Nat) (x : Session) : slotAvail now (toSlot x) ↔ avail now x := Iff.rfl

/-- the loop returns the FIRST available slot -/
theorem findAvailableFrom_some_iff (now : Nat) : ∀ (l : List Users.Slot) (i j : Nat),
    (Users.findAvailableFrom now l i).1 = some j ↔
      ∃ k t, j = i + k ∧ l[k]? = some t ∧ slotAvail now t ∧ ∀ m t', m < k → l[m]? = some t' → ¬ slotAvail now t' := by
  intro l
  induction l with
  | nil => intro i j; simp [Users.findAvailableFrom]
  | cons a rest ih =>
    intro i j
    unfold Users.findAvailableFrom
    by_cases ha : slotAvail now a
    · have ha' : (¬ a.active = true ∨ a.lastPkt + 60 < now) ∧ ¬ a.disabled = true := ha
      rw [if_pos ha']
      constructor
      · intro h
        have : i = j := by simpa using h
        exact ⟨0, a, by omega, rfl, ha, fun m _ hm => absurd hm (Nat.not_lt_zero m)⟩
      · rintro ⟨k, t, hj, hk, _, hfirst⟩
        cases k with
        | zero => simp [hj]
        | succ k => exact absurd ha (hfirst 0 a (Nat.succ_pos k) rfl)
    · have ha' : ¬ ((¬ a.active = true ∨ a.lastPkt + 60 < now) ∧ ¬ a.disabled = true) := ha
      rw [if_neg ha']
      simp only
      rw [ih (i + 1) j]
      constructor
      · rintro ⟨k, t, hj, hk, ht, hfirst⟩
        refine ⟨k + 1, t, by omega, by simpa using hk, ht, ?_⟩
        intro m t' hm hm'
        cases m with
        | zero =>
          have : a = t' := by simpa using hm'
          rw [← this]; exact ha
        | succ m => exact hfirst m t' (by omega) (by simpa using hm')
      · rintro ⟨k, t, hj, hk, ht, hfirst⟩
        cases k with
        | zero =>
          have : a = t := by simpa using hk
          rw [← this] at ht; exact absurd ht ha
        | succ k =>
          refine ⟨k, t, by omega, by simpa using hk, ht, ?_⟩
          intro m t' hm hm'
          exact hfirst (m + 1) t' (by omega) (by simpa using hm')

theorem findAvailableUser_fst (s : Srv) :
    (findAvailableUser s).1 = (Users.findAvailableFrom s.now (s.users.map toSlot) 0).1 := by
  unfold findAvailableUser Users.findAvailableUser
  split
  · rename_i h; rw [h]
  · rename_i h; rw [h]

/-- `find_available_user` hands out slot `u` iff `u` is the first slot that is (unused or silent for more than 60 s)
and not disabled -/
theorem findAvailableUser_some_iff (s : Srv) (u : Nat) :
    (findAvailableUser s).1 = some u ↔
      u < s.users.length ∧ avail s.now (getUser s u) ∧ ∀ m, m < u → ¬ avail s.now (getUser s m) := by
  rw [findAvailableUser_fst, findAvailableFrom_some_iff]
  constructor
  · rintro ⟨k, t, hj, hk, ht, hfirst⟩
    have hku : k = u := by omega
    subst hku
    rw [List.getElem?_map] at hk
    have hlt : k < s.users.length := by
      by_cases h : k < s.users.length
      · exact h
      · rw [List.getElem?_eq_none (Nat.le_of_not_lt h)] at hk; simp at hk
    have hg : ∀ m, m < s.users.length → s.users[m]? = some (getUser s m) := by
      intro m hm; unfold getUser; simp [hm]
    refine ⟨hlt, ?_, ?_⟩
    · rw [hg k hlt] at hk
      have : toSlot (getUser s k) = t := by simpa using hk
      rw [← this] at ht; exact ht
    · intro m hm
      have := hfirst m (toSlot (getUser s m)) hm (by rw [List.getElem?_map, hg m (by omega)]; rfl)
      exact this
  · rintro ⟨hlt, ha, hfirst⟩
    have hg : ∀ m, m < s.users.length → s.users[m]? = some (getUser s m) := by
      intro m hm; unfold getUser; simp [hm]
    refine ⟨u, toSlot (getUser s u), by omega, by rw [List.getElem?_map, hg u hlt]; rfl, ha, ?_⟩
    intro m t' hm hm'
    rw [List.getElem?_map, hg m (by omega)] at hm'
    have : toSlot (getUser s m) = t' := by simpa using hm'
    rw [← this]
    exact hfirst m hm

/-- … and marks it active with `last_pkt = now` -/
theorem findAvailableUser_snd (s : Srv) (u : Nat) (h : (findAvailableUser s).1 = some u) :
    (findAvailableUser s).2 = setUser s u (claim s.now) := by
  unfold findAvailableUser at h ⊢
  split
  · rename_i v hv
    rw [hv] at h
    have : v = u := by simpa using h
    rw [this]
  · rename_i hv
    rw [hv] at h
    cases h

/-- no slot is handed out iff no slot is available -/
theorem findAvailableUser_none_iff (s : Srv) :
    (findAvailableUser s).1 = none ↔ ∀ m, m < s.users.length → ¬ avail s.now (getUser s m) := by
  constructor
  · intro h m hm
    induction m using Nat.strongRecOn with
    | _ m ih =>
      intro ha
      have := (findAvailableUser_some_iff s m).2 ⟨hm, ha, fun k hk => ih k hk (by omega)⟩
      rw [h] at this; cases this
  · intro h
    cases hf : (findAvailableUser s).1 with
    | none => rfl
    | some u =>
      have := (findAvailableUser_some_iff s u).1 hf
      exact absurd this.2.1 (h u this.1)

/-! ## 5. `no_deadlock_after_giveup` (server half) -/

theorem scDropResent_length (s : Srv) (u : Nat) : (scDropResent s u).users.length = s.users.length := by
  unfold scDropResent
  simp only
  split
  · unfold getFromOutpacketq
    simp only
    split
    · exact setUser_length _ _ _
    · unfold startNewOutpacket
      rw [setUser_length, setUser_length, setUser_length]
  · rfl

theorem getUser_scPrepare (s : Srv) (u : Nat) (hu : u < s.users.length) :
    getUser (scPrepare s u) u = if (getUser s u).outpacket.len > 0 then sent (getUser s u) else getUser s u := by
  split
  · rename_i h; rw [scPrepare_pos s u h, getUser_putUser_self s u _ hu]
  · rename_i h; rw [scPrepare_zero s u (by omega)]

/-- the first answer of `send_chunk_or_dataless` is ALWAYS built from the state after the drop block:
header bytes + the current fragment of `x1 = (scDropResent s u).users[u]` -/
theorem sendChunkOrDataless_head (s : Srv) (u : Nat) (w : QSel) (hu : u < s.users.length)
    (x1 : Session) (hx1 : getUser (scDropResent s u) u = x1) :
    (sendChunkOrDataless s u w).1.2.head? = some (writeDns (w.get x1) (scPkt x1 (scDatalen x1)) x1.downenc (.chunk u)) := by
  subst hx1
  have hu' : u < (scDropResent s u).users.length := by rw [scDropResent_length]; exact hu
  rw [sendChunkOrDataless_tail, scTail_head, getUser_scPrepare _ u hu']
  split
  · rw [get_sent, scDatalen_sent, scPkt_sent]; rfl
  · rfl

theorem scPkt_drop2 (x : Session) (d : Nat) :
    (scPkt x d).drop 2 = (x.outpacket.data.drop x.outpacket.offset).take d := rfl

theorem scPkt_length_zero (x : Session) : (scPkt x 0).length = 2 := by
  simp [scPkt]

theorem get_nextOut (w : QSel) (x : Session) : w.get (nextOut x) = w.get x := by cases w <;> rfl
theorem get_dropOut (w : QSel) (x : Session) : w.get (dropOut x) = w.get x := by cases w <;> rfl

/-- after the drop (something queued) the server answers the waiting query with the FIRST fragment of the NEXT packet
`p = outpacketq[nexttouse]`.  (Pass `rfl` for `hx`.) -/
theorem server_serves_next_after_drop (s : Srv) (u : Nat) (w : QSel) (x : Session) (hx : getUser s u = x)
    (hu : u < s.users.length)
    (h1 : x.outpacket.len > 0) (h2 : x.outfragresent > 5) (h3 : x.oqFilled > 0) :
    (sendChunkOrDataless s u w).1.2.head? =
      some (writeDns (w.get x) (scPkt (nextOut x) (scDatalen (nextOut x))) x.downenc (.chunk u)) ∧
    (scPkt (nextOut x) (scDatalen (nextOut x))).drop 2 =
      ((x.outpacketq.getD x.oqNext Packet.zero).data.take (min (x.outpacketq.getD x.oqNext Packet.zero).len 65536)).take
        (scDatalen (nextOut x)) ∧
    scDatalen (nextOut x) = min (min x.fragsize (min (x.outpacketq.getD x.oqNext Packet.zero).len 65536)) 4094 := by
  subst hx
  refine ⟨?_, ?_, ?_⟩
  · have hd : getUser (scDropResent s u) u = nextOut (getUser s u) := by
      rw [scDropResent_drop_next s u hu h1 h2 h3, getUser_putUser_self s u _ hu]
    rw [sendChunkOrDataless_head s u w hu _ hd, get_nextOut]
    rfl
  · rw [scPkt_drop2]
    rfl
  · unfold scDatalen
    rw [nextOut_len, nextOut_offset]
    split
    · rfl
    · rename_i h
      have : min ((getUser s u).outpacketq.getD (getUser s u).oqNext Packet.zero).len 65536 = 0 := by omega
      rw [this]; omega

/-- after the drop (nothing queued) a dataless answer goes out and the slot is idle.  (Pass `rfl` for `hx`.) -/
theorem server_idle_after_drop (s : Srv) (u : Nat) (w : QSel) (x : Session) (hx : getUser s u = x)
    (hu : u < s.users.length)
    (h1 : x.outpacket.len > 0) (h2 : x.outfragresent > 5) (h3 : x.oqFilled = 0) :
    (sendChunkOrDataless s u w).1.2.head? = some (writeDns (w.get x) (scPkt (dropOut x) 0) x.downenc (.chunk u)) ∧
    (scPkt (dropOut x) 0).length = 2 ∧
    Keep (dropOut x) (getUser (sendChunkOrDataless s u w).1.1 u) ∧
    (getUser (sendChunkOrDataless s u w).1.1 u).outpacket.len = 0 ∧
    (getUser (sendChunkOrDataless s u w).1.1 u).outfragresent = 0 ∧
    (getUser (sendChunkOrDataless s u w).1.1 u).conn = x.conn ∧
    (sendChunkOrDataless s u w).1.1.users.length = s.users.length ∧
    (sendChunkOrDataless s u w).2 = false := by
  subst hx
  have hd : scDropResent s u = putUser s u (dropOut (getUser s u)) := scDropResent_drop_empty s u hu h1 h2 h3
  have hg : getUser (putUser s u (dropOut (getUser s u))) u = dropOut (getUser s u) := getUser_putUser_self s u _ hu
  have hp : scPrepare (putUser s u (dropOut (getUser s u))) u = putUser s u (dropOut (getUser s u)) := by
    apply scPrepare_zero; rw [hg]; rfl
  have hr : sendChunkOrDataless s u w = scTail (putUser s u (dropOut (getUser s u))) u w := by
    rw [sendChunkOrDataless_tail, hd, hp]
  have hz : scDatalen (dropOut (getUser s u)) = 0 := rfl
  have hnw : ¬ (scDatalen (getUser (putUser s u (dropOut (getUser s u))) u) > 0 ∧
      scDatalen (getUser (putUser s u (dropOut (getUser s u))) u) =
        (getUser (putUser s u (dropOut (getUser s u))) u).outpacket.len) := by
    rw [hg, hz]; omega
  have hk := keep_scS4 (putUser s u (dropOut (getUser s u))) u w
  rw [hg] at hk
  have hh := scTail_head (putUser s u (dropOut (getUser s u))) u w
  rw [hr]
  refine ⟨?_, scPkt_length_zero _, ?_⟩
  · rw [hh, hg, hz, get_dropOut]; rfl
  rw [scTail_not_whole _ u w hnw]
  refine ⟨hk, ?_, ?_, ?_, ?_, rfl⟩
  · rw [hk.outpacket]; rfl
  · rw [hk.outfragresent]; rfl
  · rw [hk.conn]; rfl
  · show (scS4 (putUser s u (dropOut (getUser s u))) u w).users.length = _
    unfold scS4 saveToDnscache saveToQmemPingOrData
    simp only [setUser_length]
    repeat' split
    all_goals simp only [setUser_length, putUser_length]

/-- … so the next tun frame for this user is not queued behind a dead packet: it becomes the new outpacket -/
theorem tunnelTun_after_giveup (s : Srv) (u : Nat) (w : QSel) (hu : u < s.users.length)
    (h1 : (getUser s u).outpacket.len > 0) (h2 : (getUser s u).outfragresent > 5) (h3 : (getUser s u).oqFilled = 0)
    (hc : (getUser s u).conn = .dnsNull) (frame : List Nat) (hl : frame.length ≥ 24)
    (hf : findUserByIp (sendChunkOrDataless s u w).1.1 (ipDst frame) = some u) :
    tunnelTun (sendChunkOrDataless s u w).1.1 frame =
      sendWaiting (startNewOutpacket (sendChunkOrDataless s u w).1.1 u (compress frame) (compress frame).length) u := by
  obtain ⟨-, -, -, hlen, -, hconn, -, -⟩ := server_idle_after_drop s u w _ rfl hu h1 h2 h3
  revert hf hlen hconn
  generalize (sendChunkOrDataless s u w).1.1 = s'
  intro hf hlen hconn
  exact tunnelTun_idle_starts s' frame u hl hf (hconn.trans hc) hlen

end Iodine.C02L
