import IodineModel.Lemmas.C05N2
/-
Helper lemmas for C05 "established sessions continue", part 3: WHICH session the tunnel-data answers of a handler
belong to (`Tg`), and a sharper frame for the two handlers that hand a completed upstream packet to another client
(`handle_full_packet` called from the DNS data handler and from `handle_raw_data`): the only slot besides the named
one that they write, and the only other session they answer, is the `find_user_by_ip` owner of the destination of the
packet that is complete at that moment (`DataFwd`, `RawFwd`).
-/
namespace Iodine.C05N
open Iodine Iodine.Server Iodine.Gen Iodine.C04L

theorem tg_of_toSess {x : Session} {t : Nat} {evs : List Event} (h : ∀ e ∈ evs, ToSess x t e) : Tg (· = t) evs := by
  intro e he v hv
  rcases h e he with ⟨_, _, _, _, _, rfl⟩ | ⟨_, _, _, _, _, rfl⟩ | ⟨_, _, _, _, _, rfl⟩ | ⟨_, _, _, _, _, rfl⟩ | ⟨_, rfl⟩
  all_goals first
    | (simp only [isFor, beq_iff_eq] at hv; exact hv.symm)
    | cases hv

/-! ### handle_full_packet -/

/-- `handle_full_packet(w)` in state `s` hands the packet to session `v` -/
def FwdTo (s : Srv) (w v : Nat) : Prop :=
  ∃ out, fullPacketOut s w = some out ∧ findUserByIp s (ipDst out) = some v

theorem tg_handleFullPacket (s : Srv) (w : Nat) : Tg (FwdTo s w) (handleFullPacket s w).2 := by
  cases h : fullPacketOut s w with
  | none => rw [handleFullPacket_dropped s w h]; exact Tg.nil _
  | some out =>
    cases hn : findUserByIp s (ipDst out) with
    | none => rw [handleFullPacket_toTun s w out h hn]; exact Tg.single (fun _ => rfl)
    | some t =>
      rw [handleFullPacket_forward s w out t h hn]
      exact (tg_of_toSess (deliverToUser_toSess s t _ _)).mono (fun v hv => ⟨out, h, hv ▸ hn⟩)

/-! ### the DNS data handler -/

/-- the part of the data handler in front of `handle_full_packet`: the state in which it is called, `upstream_ok` and
`lastfrag` (it is called iff both are set) -/
def dataPre (s : Srv) (u : Nat) (inb : List Nat) : Srv × Bool × Bool :=
  let b1 := b32_8to5 (inb.getD 1 0)
  let b2 := b32_8to5 (inb.getD 2 0)
  let b3 := b32_8to5 (inb.getD 3 0)
  let upSeq := (b1 >>> 2) &&& 7
  let upFrag := ((b1 &&& 3) <<< 2) ||| ((b2 >>> 3) &&& 3)
  let dnSeq := b2 &&& 7
  let dnFrag := b3 >>> 1
  let lastfrag : Bool := (b3 &&& 1) = 1
  let s1 := processDownstreamAck s u dnSeq dnFrag
  let up := dataUpstream (getUser s1 u) upSeq upFrag
  let upstreamOk := up.2
  let s2 := setUser s1 u fun _ => if upstreamOk then dataStore up.1 (inb.drop 5) else up.1
  (s2, upstreamOk, lastfrag)

/-- the rest of the data handler -/
def dataRest (p : Srv × Bool × Bool) (u : Nat) (q : Query) : Res :=
  let r3 : Res := if p.2.1 ∧ p.2.2 then handleFullPacket p.1 u else (p.1, [])
  let r4 := dataStepQs r3.1 u
  let r5 := dataStepQ r4.1.1 u p.2.1 p.2.2 r4.2
  let s6 := saveQuery r5.1.1 u q
  let r7 := dataStepFinal s6 u p.2.1 p.2.2 r5.2
  (r7.1, r3.2 ++ r4.1.2 ++ r5.1.2 ++ r7.2)

theorem dataFresh_eq (s : Srv) (u : Nat) (q : Query) (inb : List Nat) :
    dataFresh s u q inb = dataRest (dataPre s u inb) u q := rfl

/-- the DNS data request with payload `inb`, handled for session `u`, completes an upstream packet that is handed to
session `v` -/
def DataFwd (s : Srv) (u : Nat) (inb : List Nat) (v : Nat) : Prop :=
  ((dataPre s u inb).2.1 = true ∧ (dataPre s u inb).2.2 = true) ∧ FwdTo (dataPre s u inb).1 u v

theorem frame_dataPre (s : Srv) (u : Nat) (inb : List Nat) : Frame erIn (· = u) s (dataPre s u inb).1 := by
  unfold dataPre
  extract_lets b1 b2 b3 upSeq upFrag dnSeq dnFrag lastfrag s1 up upstreamOk s2
  have f0 : Frame erOut (· = u) s s1 := frame_processDownstreamAck s u dnSeq dnFrag
  refine Frame.trans (f0.coarsen erIn_erOut) ?_
  apply Frame.setv erIn s1 u
  split
  · rw [erIn_dataStore, erIn_dataUpstream]
  · rw [erIn_dataUpstream]

seal sendChunkOrDataless processDownstreamAck saveQuery rememberDuplicate handleFullPacket dataUpstream dataStore

theorem tg_dataStepQs (s : Srv) (u : Nat) : Tg (· = u) (dataStepQs s u).1.2 := by
  unfold dataStepQs
  split
  · exact tg_sendChunkOrDataless s u .qs
  · exact Tg.nil _

theorem tg_dataStepQ (s : Srv) (u : Nat) (a b c : Bool) : Tg (· = u) (dataStepQ s u a b c).1.2 := by
  unfold dataStepQ
  dsimp only
  split
  · split
    · exact tg_sendChunkOrDataless s u .q
    · exact Tg.nil _
  · exact Tg.nil _

theorem tg_dataStepFinal (s : Srv) (u : Nat) (a b c : Bool) : Tg (· = u) (dataStepFinal s u a b c).2 := by
  unfold dataStepFinal
  dsimp only
  split
  · exact tg_sendChunkOrDataless s u .q
  · split
    · split
      · exact Tg.nil _
      · exact tg_sendChunkOrDataless s u .q
    · exact Tg.nil _

/-- the data handler after the duplicate filters writes `u` and the slot the completed packet is handed to, and answers
these two sessions only -/
theorem dataFresh_sharp (s : Srv) (u : Nat) (q : Query) (inb : List Nat) :
    Frame erData (fun v => v = u ∨ DataFwd s u inb v) s (dataFresh s u q inb).1 ∧
      Tg (fun v => v = u ∨ DataFwd s u inb v) (dataFresh s u q inb).2 := by
  rw [dataFresh_eq]
  generalize hp : dataPre s u inb = p
  have hfp : Frame erIn (· = u) s p.1 := hp ▸ frame_dataPre s u inb
  have hfw : ∀ v, (p.2.1 = true ∧ p.2.2 = true) ∧ FwdTo p.1 u v → DataFwd s u inb v := by
    intro v hv; unfold DataFwd; rw [hp]; exact hv
  unfold dataRest
  extract_lets r3 r4 r5 s6 r7
  have hm : ∀ v, v = u → v = u ∨ DataFwd s u inb v := fun v hv => Or.inl hv
  have f2 : Frame erData (fun v => v = u ∨ DataFwd s u inb v) s p.1 :=
    (hfp.coarsen erData_erIn).mono hm
  have f3 : Frame erData (fun v => v = u ∨ DataFwd s u inb v) s r3.1 ∧
      Tg (fun v => v = u ∨ DataFwd s u inb v) r3.2 := by
    unfold r3
    by_cases hq : p.2.1 = true ∧ p.2.2 = true
    · rw [if_pos hq]
      refine ⟨f2.trans ((frame_handleFullPacket p.1 u).mono ?_), (tg_handleFullPacket p.1 u).mono ?_⟩
      · intro v hv
        rcases hv with hv | hv
        · exact Or.inl hv
        · exact Or.inr (hfw v ⟨hq, hv⟩)
      · intro v hv; exact Or.inr (hfw v ⟨hq, hv⟩)
    · rw [if_neg hq]; exact ⟨f2, Tg.nil _⟩
  have f4 := f3.1.trans ((frame_dataStepQs r3.1 u).mono hm)
  have f5 := f4.trans ((frame_dataStepQ r4.1.1 u p.2.1 p.2.2 r4.2).mono hm)
  have f6 := f5.trans ((frame_saveQuery r5.1.1 u q).mono hm)
  refine ⟨f6.trans ((frame_dataStepFinal s6 u p.2.1 p.2.2 r5.2).mono hm), ?_⟩
  exact ((f3.2.append ((tg_dataStepQs r3.1 u).mono hm)).append ((tg_dataStepQ _ u _ _ _).mono hm)).append
    ((tg_dataStepFinal s6 u _ _ _).mono hm)

theorem tg_answerFromDnscache (s : Srv) (u : Nat) (q : Query) (e : Event) (h : answerFromDnscache s u q = some e) :
    Tg (· = u) [e] := by
  unfold answerFromDnscache at h
  dsimp only at h
  split at h
  · cases h
    intro e he v hv
    simp only [List.mem_cons, List.not_mem_nil, or_false] at he
    subst he
    simp only [writeDns, isFor, beq_iff_eq] at hv
    exact hv.symm
  · cases h

theorem tg_answerFromQmem (q : Query) (mem : List QmemEntry) (cmc : List Nat) (u : Nat) (e : Event)
    (h : answerFromQmem q mem cmc u = some e) : Tg (· = u) [e] := by
  unfold answerFromQmem at h
  split at h
  · cases h
    intro e he v hv
    simp only [List.mem_cons, List.not_mem_nil, or_false] at he
    subst he
    simp only [writeDns, isFor, beq_iff_eq] at hv
    exact hv.symm
  · cases h

/-- the slots the handler of command `cmd` writes and the sessions it answers: the named one if the request is
accepted, and for upstream data the session a completed packet is handed to -/
def cmdTouches (s : Srv) (q : Query) (dlen : Nat) (cmd : Cmd) (v : Nat) : Prop :=
  rejected s q (uidOf q dlen cmd) cmd = false ∧
    (v = (uidOf q dlen cmd).toNat ∨ (cmd = .data ∧ DataFwd s (uidOf q dlen .data).toNat (inbOf q dlen) v))

theorem handleData_sharp (s : Srv) (q : Query) (dlen : Nat) :
    Frame erData (cmdTouches s q dlen .data) s (handleData s q dlen (inbOf q dlen)).1 ∧
      Tg (cmdTouches s q dlen .data) (handleData s q dlen (inbOf q dlen)).2 := by
  unfold handleData
  by_cases h0 : dlen < 6
  · rw [if_pos h0]; exact ⟨Frame.refl _ _ _, Tg.nil _⟩
  rw [if_neg h0]
  by_cases h1 : q.id = 0
  · rw [if_pos h1]; exact ⟨Frame.refl _ _ _, Tg.nil _⟩
  rw [if_neg h1]
  dsimp only
  have hu : hexCode ((inbOf q dlen).getD 0 0) = uidOf q dlen .data := rfl
  rw [hu]
  cases hr : checkAuthenticatedUserAndIp s (uidOf q dlen .data) q with
  | true => rw [if_pos rfl]; exact ⟨Frame.refl _ _ _, Tg.ctrl _ _ _ _⟩
  | false =>
    rw [if_neg (by simp)]
    have hm : ∀ v, v = (uidOf q dlen .data).toNat → cmdTouches s q dlen .data v := fun v hv => ⟨hr, Or.inl hv⟩
    split
    · next e he => exact ⟨Frame.refl _ _ _, (tg_answerFromDnscache _ _ _ _ he).mono hm⟩
    split
    · next e he =>
      unfold answerFromQmemData at he
      exact ⟨Frame.refl _ _ _, (tg_answerFromQmem _ _ _ _ _ he).mono hm⟩
    split
    · next h => exact ⟨(frame_rememberDuplicate _ _ _ _ h).mono hm, Tg.nil _⟩
    · have k := dataFresh_sharp s (uidOf q dlen .data).toNat q (inbOf q dlen)
      have hm2 : ∀ v, v = (uidOf q dlen .data).toNat ∨ DataFwd s (uidOf q dlen .data).toNat (inbOf q dlen) v →
          cmdTouches s q dlen .data v := by
        intro v hv
        rcases hv with hv | hv
        · exact ⟨hr, Or.inl hv⟩
        · exact ⟨hr, Or.inr ⟨rfl, hv⟩⟩
      exact ⟨k.1.mono hm2, k.2.mono hm2⟩

/-! ### ping -/

theorem tg_pingFresh (s : Srv) (u : Nat) (q : Query) (unp : List Nat) : Tg (· = u) (pingFresh s u q unp).2 := by
  unfold pingFresh
  extract_lets b s1 r1 t r2 didsend s3 x r3
  show Tg (· = u) (r1.2 ++ r2.1.2 ++ r3.2)
  refine (Tg.append ?_ ?_).append ?_
  · unfold r1; split
    · exact tg_sendChunkOrDataless _ u .qs
    · exact Tg.nil _
  · unfold r2; split
    · exact tg_sendChunkOrDataless _ u .q
    · exact Tg.nil _
  · unfold r3; split
    · exact tg_sendChunkOrDataless _ u .q
    · exact Tg.nil _

theorem tg_handlePing (s : Srv) (q : Query) (dlen : Nat) :
    Tg (cmdTouches s q dlen .ping) (handlePing s q (inbOf q dlen)).2 := by
  unfold handlePing
  by_cases h0 : q.id = 0
  · rw [if_pos h0]; exact Tg.nil _
  rw [if_neg h0]
  dsimp only
  by_cases h1 : (Encoding.unpackData Codec.b32 65536 (List.drop 1 (inbOf q dlen))).length < 4
  · rw [if_pos h1]; exact Tg.nil _
  rw [if_neg h1]
  have hu : charVal ((Encoding.unpackData Codec.b32 65536 (List.drop 1 (inbOf q dlen))).getD 0 0) =
      uidOf q dlen .ping := rfl
  rw [hu]
  cases hr : checkAuthenticatedUserAndIp s (uidOf q dlen .ping) q with
  | true => rw [if_pos rfl]; exact Tg.ctrl _ _ _ _
  | false =>
    rw [if_neg (by simp)]
    have hm : ∀ v, v = (uidOf q dlen .ping).toNat → cmdTouches s q dlen .ping v := fun v hv => ⟨hr, Or.inl hv⟩
    split
    · next e he => exact (tg_answerFromDnscache _ _ _ _ he).mono hm
    split
    · next e he => exact (tg_answerFromQmem _ _ _ _ _ he).mono hm
    split
    · exact Tg.nil _
    · exact (tg_pingFresh _ _ _ _).mono hm

/-! ### the handlers that only send control answers -/

/-- close a goal `Tg U evs` where `evs` is empty or a single event that is not a data-path answer -/
macro "tg_ctrl" : tactic =>
  `(tactic| first | exact Tg.nil _ | (refine Tg.single ?_; intro _; rfl))

theorem Tg.ite {U : Nat → Prop} {c : Prop} [Decidable c] {a b : Res} (ha : Tg U a.2) (hb : Tg U b.2) :
    Tg U (if c then a else b).2 := by
  split <;> assumption

theorem tg_handleVersion (U : Nat → Prop) (s : Srv) (q : Query) (inb : List Nat) : Tg U (handleVersion s q inb).2 := by
  unfold handleVersion
  dsimp only
  repeat' split
  all_goals tg_ctrl

theorem tg_handleLogin (U : Nat → Prop) (s : Srv) (q : Query) (inb : List Nat) : Tg U (handleLogin s q inb).2 := by
  unfold handleLogin
  dsimp only
  repeat' split
  all_goals tg_ctrl

theorem tg_handleIp (U : Nat → Prop) (s : Srv) (q : Query) (inb : List Nat) : Tg U (handleIp s q inb).2 := by
  unfold handleIp
  dsimp only
  split <;> tg_ctrl

theorem tg_handleSwitchCodec (U : Nat → Prop) (s : Srv) (q : Query) (dlen : Nat) (inb : List Nat) :
    Tg U (handleSwitchCodec s q dlen inb).2 := by
  unfold handleSwitchCodec
  dsimp only
  repeat' split
  all_goals tg_ctrl

theorem tg_handleOptions (U : Nat → Prop) (s : Srv) (q : Query) (dlen : Nat) (inb : List Nat) :
    Tg U (handleOptions s q dlen inb).2 := by
  unfold handleOptions
  dsimp only
  repeat' apply Tg.ite
  all_goals tg_ctrl

theorem tg_handleDownCodecCheck (U : Nat → Prop) (s : Srv) (q : Query) (dlen : Nat) (inb : List Nat) :
    Tg U (handleDownCodecCheck s q dlen inb).2 := by
  unfold handleDownCodecCheck
  dsimp only
  split
  · tg_ctrl
  split
  · tg_ctrl
  split <;> tg_ctrl

theorem tg_handleFragsizeProbe (U : Nat → Prop) (s : Srv) (q : Query) (dlen : Nat) (inb : List Nat) :
    Tg U (handleFragsizeProbe s q dlen inb).2 := by
  unfold handleFragsizeProbe
  dsimp only
  repeat' split
  all_goals tg_ctrl

theorem tg_handleSetFragsize (U : Nat → Prop) (s : Srv) (q : Query) (inb : List Nat) :
    Tg U (handleSetFragsize s q inb).2 := by
  unfold handleSetFragsize
  dsimp only
  repeat' split
  all_goals tg_ctrl

theorem tg_runCmd (s : Srv) (q : Query) (dlen : Nat) (cmd : Cmd) :
    Tg (cmdTouches s q dlen cmd) (runCmd s q dlen cmd).2 := by
  cases cmd <;> unfold runCmd <;> dsimp only
  · exact tg_handleLogin _ _ _ _
  · exact tg_handleIp _ _ _ _
  · exact tg_handleSwitchCodec _ _ _ _ _
  · exact tg_handleOptions _ _ _ _ _
  · exact tg_handleFragsizeProbe _ _ _ _ _
  · exact tg_handleSetFragsize _ _ _ _
  · exact tg_handlePing s q dlen
  · exact (handleData_sharp s q dlen).2

/-- the sessions a DNS query is answered for on the data path -/
def dnsTouches (s : Srv) (q : Query) (v : Nat) : Prop :=
  ∃ dlen cmd, Common.queryDatalen q.name s.cfg.topdomain = some dlen ∧ ¬ isNsA q dlen ∧ ¬ isWwwA q dlen ∧
    tunnelType q.type ∧ 2 ≤ dlen ∧ cmdOf ((inbOf q dlen).getD 0 0) = some cmd ∧ cmdTouches s q dlen cmd v

theorem tg_handleNullRequest_other (U : Nat → Prop) (s : Srv) (q : Query) (dlen : Nat) (hv : ¬ isV q dlen)
    (hc : cmdOf ((inbOf q dlen).getD 0 0) = none) : Tg U (handleNullRequest s q dlen).2 := by
  unfold handleNullRequest
  by_cases hd2 : dlen < 2
  · rw [if_pos hd2]; exact Tg.nil _
  rw [if_neg hd2]
  dsimp only
  unfold isV at hv
  unfold inbOf at hv hc
  rcases cmdOf_none _ hc with h | h | h | ⟨h1, h2, h3, h4, h5, h6, h7, h8, h9, h10, h11⟩
  · exact absurd h hv
  · rw [if_neg hv]
    by_cases hl : (List.take (min dlen 512) q.name).getD 0 0 = 76 ∨ (List.take (min dlen 512) q.name).getD 0 0 = 108
    · rcases hl with hl | hl <;> rcases h with h | h <;> omega
    by_cases hi : (List.take (min dlen 512) q.name).getD 0 0 = 73 ∨ (List.take (min dlen 512) q.name).getD 0 0 = 105
    · rcases hi with hl | hl <;> rcases h with h | h <;> omega
    rw [if_neg hl, if_neg hi, if_pos h]
    unfold handleZ; tg_ctrl
  · have e : ∀ (a b : Nat), ¬ ((List.take (min dlen 512) q.name).getD 0 0 = a ∨
        (List.take (min dlen 512) q.name).getD 0 0 = b) ∨ (a = 89 ∨ a = 121 ∨ b = 89 ∨ b = 121) := by
      intro a b
      by_cases hh : (List.take (min dlen 512) q.name).getD 0 0 = a ∨ (List.take (min dlen 512) q.name).getD 0 0 = b
      · right; rcases hh with hh | hh <;> rcases h with h | h <;> omega
      · left; exact hh
    rw [if_neg hv, if_neg ((e 76 108).resolve_right (by omega)), if_neg ((e 73 105).resolve_right (by omega)),
      if_neg ((e 90 122).resolve_right (by omega)), if_neg ((e 83 115).resolve_right (by omega)),
      if_neg ((e 79 111).resolve_right (by omega)), if_pos h]
    exact tg_handleDownCodecCheck _ _ _ _ _
  · rw [if_neg h1, if_neg h2, if_neg h3, if_neg h4, if_neg h5, if_neg h6, if_neg h7, if_neg h8, if_neg h9, if_neg h10,
      if_neg h11]
    exact Tg.nil _

/-- every data-path answer to a DNS query belongs to a session in `dnsTouches` -/
theorem tg_tunnelDns (s : Srv) (q : Query) : Tg (dnsTouches s q) (tunnelDns s q).2 := by
  cases hd : Common.queryDatalen q.name s.cfg.topdomain with
  | none =>
    unfold tunnelDns
    split
    · exact Tg.nil _
    rw [hd]
    dsimp only
    split
    · unfold forwardQuery; tg_ctrl
    · exact Tg.nil _
  | some dlen =>
    have hA : ∀ b, Tg (dnsTouches s q) (handleARequest s q b).2 := by
      intro b
      unfold handleARequest
      dsimp only
      apply Tg.ite <;> tg_ctrl
    by_cases hns : isNsA q dlen
    · unfold tunnelDns
      split
      · exact Tg.nil _
      rw [hd]
      dsimp only
      unfold isNsA at hns
      rw [if_pos hns]; exact hA _
    by_cases hwww : isWwwA q dlen
    · unfold tunnelDns
      split
      · exact Tg.nil _
      rw [hd]
      dsimp only
      unfold isNsA at hns
      unfold isWwwA at hwww
      rw [if_neg hns, if_pos hwww]; exact hA _
    by_cases hty : tunnelType q.type
    · rw [tunnelDns_null s q dlen hd hns hwww hty]
      by_cases h2 : 2 ≤ dlen
      · by_cases hv : isV q dlen
        · rw [handleNullRequest_V s q dlen h2 hv]; exact tg_handleVersion _ _ _ _
        · cases hc : cmdOf ((inbOf q dlen).getD 0 0) with
          | none => exact tg_handleNullRequest_other _ s q dlen hv hc
          | some cmd =>
            rw [handleNullRequest_cmd s q dlen cmd h2 hc]
            exact (tg_runCmd s q dlen cmd).mono (fun v hv => ⟨dlen, cmd, hd, hns, hwww, hty, h2, hc, hv⟩)
      · unfold handleNullRequest
        rw [if_pos (by omega)]; exact Tg.nil _
    · unfold tunnelDns
      split
      · exact Tg.nil _
      rw [hd]
      dsimp only
      unfold isNsA at hns
      unfold isWwwA at hwww
      unfold tunnelType at hty
      rw [if_neg hns, if_neg hwww, if_neg hty]
      split
      · unfold handleNsRequest; split <;> tg_ctrl
      · exact Tg.nil _

/-- the slots a DNS query writes: as `C04L.dnsWrites`, with the forwarding case made exact -/
theorem tunnelDns_spares (s : Srv) (q : Query) (v : Nat)
    (hV : (findAvailableUser s).1 ≠ some v) (hT : ¬ dnsTouches s q v) :
    getUser (tunnelDns s q).1 v = getUser s v := by
  rcases tunnelDns_cases s q with h | ⟨dlen, hd, hns, hwww, hty, h⟩
  · exact (h erTun (fun _ => False)).other v (fun x => x)
  · rw [h]
    rcases handleNullRequest_cases s q dlen with h' | ⟨h2, hv, h'⟩ | ⟨h2, cmd, hc, h'⟩
    · rw [h']
    · rw [h']; exact (frame_handleVersion s q _).other v hV
    · rw [h']
      have hT' : ¬ cmdTouches s q dlen cmd v := fun k => hT ⟨dlen, cmd, hd, hns, hwww, hty, h2, hc, k⟩
      by_cases hcd : cmd = .data
      · subst hcd
        exact (handleData_sharp s q dlen).1.other v hT'
      · apply (frame_runCmd s q dlen cmd).other v
        intro k
        apply hT'
        refine ⟨k.1, ?_⟩
        rcases k.2 with k2 | k2
        · exact Or.inl k2
        · exact absurd k2.1 hcd

/-! ### raw mode -/

/-- what `handle_raw_data` stores in the slot before it calls `handle_full_packet` -/
def rawStore (s : Srv) (q : Query) (body : List Nat) (x : Session) : Session :=
  { x with lastPkt := s.now, q := q, inpacket := { x.inpacket with offset := 0, data := body, len := body.length } }

/-- the raw-mode data frame `body` for session `w` carries a packet that is handed to session `v` -/
def RawFwd (s : Srv) (body : List Nat) (q : Query) (w v : Nat) : Prop :=
  FwdTo (setUser s w (rawStore s q body)) w v

theorem handleRawData_sharp (s : Srv) (body : List Nat) (q : Query) (w : Nat) :
    Frame erData (fun v => checkAuthenticatedUserAndIp s w q = false ∧ (v = w ∨ RawFwd s body q w v)) s
        (handleRawData s body q w).1 ∧
      Tg (fun v => checkAuthenticatedUserAndIp s w q = false ∧ RawFwd s body q w v) (handleRawData s body q w).2 := by
  unfold handleRawData
  cases hr : checkAuthenticatedUserAndIp s w q with
  | true => rw [if_pos rfl]; exact ⟨Frame.refl _ _ _, Tg.nil _⟩
  | false =>
    rw [if_neg (by simp)]
    split
    · exact ⟨Frame.refl _ _ _, Tg.nil _⟩
    · have f1 : Frame erData (· = w) s (setUser s w (rawStore s q body)) := Frame.set erData s w _ (fun _ => rfl)
      have k1 : ∀ v, v = w → false = false ∧ (v = w ∨ RawFwd s body q w v) := fun v hv => ⟨rfl, Or.inl hv⟩
      have k2 : ∀ v, (v = w ∨ FwdTo (setUser s w (rawStore s q body)) w v) →
          false = false ∧ (v = w ∨ RawFwd s body q w v) := by
        intro v hv
        rcases hv with hv | hv
        · exact ⟨rfl, Or.inl hv⟩
        · exact ⟨rfl, Or.inr hv⟩
      exact ⟨(f1.mono k1).trans ((frame_handleFullPacket (setUser s w (rawStore s q body)) w).mono k2),
        (tg_handleFullPacket (setUser s w (rawStore s q body)) w).mono (fun v hv => ⟨rfl, hv⟩)⟩

theorem tg_handleRawLogin (U : Nat → Prop) (s : Srv) (p : List Nat) (q : Query) (u : Nat) :
    Tg U (handleRawLogin s p q u).2 := by
  unfold handleRawLogin
  dsimp only
  repeat' split
  all_goals tg_ctrl

theorem tg_handleRawPing (U : Nat → Prop) (s : Srv) (q : Query) (u : Nat) : Tg U (handleRawPing s q u).2 := by
  unfold handleRawPing
  repeat' split
  all_goals tg_ctrl

end Iodine.C05N
