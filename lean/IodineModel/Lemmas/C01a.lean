import IodineModel.Client.Loop
/-
Helper lemmas for C01 (end-to-end integrity), part a: the CLIENT's downstream reassembly.

`tunnel_dns` does many things (ping scheduling, counters, upstream acks, sending the next chunk); what it does to
`inpkt` and to the tun device is a small machine on `Packet` alone (`rxStep`): this file defines that machine and
proves that `tunnelDns` (and `cstep`) project onto it.
-/
namespace Iodine.C01L
open Iodine Iodine.Client

/-- the frames written to the tun device among a list of client events -/
def tunws : List CEvent → List (List Nat)
  | [] => []
  | .tunw f :: es => f :: tunws es
  | _ :: es => tunws es

@[simp] theorem tunws_nil : tunws [] = [] := rfl

theorem tunws_append (a b : List CEvent) : tunws (a ++ b) = tunws a ++ tunws b := by
  induction a with
  | nil => rfl
  | cons e es ih => cases e <;> simp [tunws, ih]

/-! ### the senders neither touch `inpkt` nor write to tun -/

theorem wireQuery_tunws {id ty : Nat} {e : Bool} {h : List Nat} {ev : CEvent} (hw : wireQuery id ty e h = some ev) :
    tunws [ev] = [] := by
  unfold wireQuery at hw
  split at hw
  · split at hw
    · cases hw
    · split at hw <;> (cases hw; rfl)
  · cases hw
  · cases hw

theorem rotateChunkid_inpkt (c : Cli) : (rotateChunkid c).inpkt = c.inpkt := by
  simp only [rotateChunkid]

theorem sendQueryPlain_rx (c : Cli) (h : List Nat) :
    (sendQueryPlain c h).1.1.inpkt = c.inpkt ∧ tunws (sendQueryPlain c h).1.2 = [] := by
  unfold sendQueryPlain
  dsimp only
  cases hw : wireQuery (rotateChunkid c).chunkid (rotateChunkid c).doQtype (rotateChunkid c).edns0 h with
  | none => exact ⟨rotateChunkid_inpkt c, rfl⟩
  | some ev => exact ⟨rotateChunkid_inpkt c, wireQuery_tunws hw⟩

theorem sendHandshakeQuery_rx (c : Cli) (p : List Nat) :
    (sendHandshakeQuery c p).1.inpkt = c.inpkt ∧ tunws (sendHandshakeQuery c p).2 = [] := by
  unfold sendHandshakeQuery
  exact sendQueryPlain_rx _ _

theorem lazyoffIter_rx (c : Cli) (i : Nat) :
    (lazyoffIter c i).c.inpkt = c.inpkt ∧ tunws (lazyoffIter c i).evs = [] := by
  unfold lazyoffIter
  split
  · exact sendHandshakeQuery_rx _ _
  · exact ⟨rfl, rfl⟩

theorem sendQueryCount_rx (c : Cli) :
    (sendQueryCount c).c.inpkt = c.inpkt ∧ tunws (sendQueryCount c).evs = [] := by
  unfold sendQueryCount
  split
  · dsimp only
    split
    · split
      · exact ⟨rfl, rfl⟩
      · exact lazyoffIter_rx _ _
    · exact ⟨rfl, rfl⟩
  · exact ⟨rfl, rfl⟩

theorem sendQuery_rx (c : Cli) (h : List Nat) :
    (sendQuery c h).c.inpkt = c.inpkt ∧ tunws (sendQuery c h).evs = [] := by
  unfold sendQuery
  dsimp only
  have h1 := sendQueryPlain_rx c h
  split
  · have h2 := sendQueryCount_rx (sendQueryPlain c h).1.1
    exact ⟨h2.1.trans h1.1, by rw [tunws_append, h1.2, h2.2]; rfl⟩
  · exact h1

theorem sendChunk_rx (c : Cli) : (sendChunk c).c.inpkt = c.inpkt ∧ tunws (sendChunk c).evs = [] := by
  unfold sendChunk
  exact sendQuery_rx _ _

theorem sendPing_rx (c : Cli) : (sendPing c).c.inpkt = c.inpkt ∧ tunws (sendPing c).evs = [] := by
  unfold sendPing
  split
  · unfold sendPacket; exact sendQuery_rx _ _
  · exact ⟨rfl, rfl⟩

theorem resume_inpkt (c : Cli) (k : Resume) : (resume c k).1.inpkt = c.inpkt := by
  cases k <;> rfl

theorem afterSend_rx (s : Sent) (pre : List CEvent) (k : Resume) :
    (afterSend s pre k).1.inpkt = s.c.inpkt ∧ tunws (afterSend s pre k).2.1 = tunws pre ++ tunws s.evs := by
  unfold afterSend
  split
  · exact ⟨rfl, tunws_append _ _⟩
  · exact ⟨resume_inpkt _ _, tunws_append _ _⟩


/-! ### the reassembly machine on `inpkt` alone -/

/-- `acceptFragment` on the packet -/
def rxAccept (p : Packet) (h : Hdr) : Option Packet :=
  if h.dnSeq ≠ p.seqno then some { p with seqno := sChar h.dnSeq, fragment := sChar h.dnFrag, len := 0 }
  else if p.fragment = 0 ∧ h.dnFrag = 0 ∧ p.len = 0 then some p
  else if h.dnFrag ≤ p.fragment then none
  else if h.dnFrag > p.fragment + 1 then none
  else some p

/-- `appendFragment` on the packet -/
def rxAppend (p : Packet) (h : Hdr) (buf : List Nat) (read : Int) : Packet :=
  { p with fragment := sChar h.dnFrag,
           data := p.data.take p.len ++ ((buf.take read.toNat).drop 2).take (Gen.PACKET_DATA_SIZE - p.len),
           len := p.len + (((buf.take read.toNat).drop 2).take (Gen.PACKET_DATA_SIZE - p.len)).length }

/-- what `deliver` hands to the tun device for the buffer `b` -/
def frames (b : List Nat) : List CEvent :=
  match uncompress b 65536 with
  | some out => [writeTun out]
  | none => []

/-- `deliver` on the packet -/
def rxDeliver (p : Packet) : Packet × List CEvent := ({ p with len := 0 }, frames (p.data.take p.len))

/-- `downstream` on the packet -/
def rxDown (p : Packet) (h : Hdr) (buf : List Nat) (read : Int) : Packet × List CEvent :=
  if read > 2 then
    match rxAccept p h with
    | none => (p, [])
    | some p => if h.last then rxDeliver (rxAppend p h buf read) else (rxAppend p h buf read, [])
  else (p, [])

/-- `datalessAdopt` on the packet -/
def rxAdopt (p : Packet) (h : Hdr) (read : Int) : Packet :=
  if read = 2 ∧ h.dnSeq ≠ p.seqno ∧ !recentSeqno p.seqno h.dnSeq then
    { p with seqno := sChar h.dnSeq, fragment := sChar h.dnFrag, len := 0 }
  else p

/-- `read` after the "previous seqno, or a bit earlier" test -/
def rxRead (p : Packet) (h : Hdr) (rv : Int) : Int :=
  if rv > 2 ∧ h.dnSeq ≠ p.seqno ∧ recentSeqno p.seqno h.dnSeq then 2 else rv

/-- One `tunnel_dns` as far as `inpkt` and the tun device are concerned; `acc` = the answer got past the four
filters in front of the reassembly code. -/
def rxStep (p : Packet) (acc : Bool) (rq : Rq) : Packet × List CEvent :=
  if acc then
    rxDown (rxAdopt p (decodeHdr rq.buf) (rxRead p (decodeHdr rq.buf) rq.rv)) (decodeHdr rq.buf) rq.buf
      (rxRead p (decodeHdr rq.buf) rq.rv)
  else (p, [])

/-- the four filters: `q.name[0]` is ours, at least a header, not the BADIP message, a recent DNS id -/
def accepted (c : Cli) (rq : Rq) : Bool :=
  !notData c rq.name0 && !decide (rq.rv < 2) && !decide (rq.rv = 5 ∧ rq.buf.take 5 = ascii "BADIP") &&
    recentId c rq.id

theorem acceptFragment_rx (c : Cli) (h : Hdr) :
    acceptFragment c h = (rxAccept c.inpkt h).map (fun p => { c with inpkt := p }) := by
  unfold acceptFragment rxAccept
  split
  · rfl
  · split
    · rfl
    · split
      · rfl
      · split <;> rfl

theorem downstream_rx (c : Cli) (h : Hdr) (buf : List Nat) (read : Int) (sn : Bool) :
    (downstream c h buf read sn).1.inpkt = (rxDown c.inpkt h buf read).1 ∧
    (downstream c h buf read sn).2.1 = (rxDown c.inpkt h buf read).2 := by
  unfold downstream rxDown
  split
  · rw [acceptFragment_rx]
    cases rxAccept c.inpkt h with
    | none => exact ⟨rfl, rfl⟩
    | some p =>
      dsimp only [Option.map]
      by_cases hl : h.last = true
      · simp only [hl, if_true]
        split <;> exact ⟨rfl, rfl⟩
      · simp only [hl, Bool.false_eq_true, if_false]
        split <;> exact ⟨rfl, rfl⟩
  · exact ⟨rfl, rfl⟩

theorem finalPing_rx (c : Cli) (evs : List CEvent) (sn : Bool) (read : Int) :
    (finalPing c evs sn read).1.inpkt = c.inpkt ∧ tunws (finalPing c evs sn read).2.1 = tunws evs := by
  unfold finalPing
  split
  · have h := afterSend_rx (sendPing c) evs (.dnsPing read)
    have h2 := sendPing_rx c
    exact ⟨h.1.trans h2.1, by rw [h.2, h2.2, List.append_nil]⟩
  · exact ⟨rfl, rfl⟩

theorem upstream_rx (c : Cli) (h : Hdr) (evs : List CEvent) (sn : Bool) (read : Int) :
    (upstream c h evs sn read).1.inpkt = c.inpkt ∧ tunws (upstream c h evs sn read).2.1 = tunws evs := by
  unfold upstream
  split
  · dsimp only
    split
    · split
      · exact finalPing_rx _ _ _ _
      · exact finalPing_rx _ _ _ _
    · have h1 := afterSend_rx (sendChunk { c with
          outpkt := { c.outpkt with offset := c.outpkt.offset + c.outpkt.sentlen,
                                    fragment := sChar (c.outpkt.fragment + 1) }, outchunkresent := 0 }) evs (.dnsChunk read)
      have h2 := sendChunk_rx { c with
          outpkt := { c.outpkt with offset := c.outpkt.offset + c.outpkt.sentlen,
                                    fragment := sChar (c.outpkt.fragment + 1) }, outchunkresent := 0 }
      exact ⟨h1.1.trans h2.1, by rw [h1.2, h2.2, List.append_nil]⟩
  · exact finalPing_rx _ _ _ _


theorem dupeSeqno_rx (c : Cli) (h : Hdr) (rv : Int) :
    (dupeSeqno c h rv).1.inpkt = c.inpkt ∧ (dupeSeqno c h rv).2 = rxRead c.inpkt h rv ∧
    (∀ id, recentId (dupeSeqno c h rv).1 id = recentId c id) := by
  unfold dupeSeqno rxRead
  split <;> exact ⟨rfl, rfl, fun _ => rfl⟩

theorem datalessAdopt_rx (c : Cli) (h : Hdr) (read : Int) :
    (datalessAdopt c h read).inpkt = rxAdopt c.inpkt h read := by
  unfold datalessAdopt rxAdopt
  split <;> rfl

theorem lazyHint_inpkt (c : Cli) (id : Nat) : (lazyHint c id).inpkt = c.inpkt := by
  unfold lazyHint
  split
  · split <;> rfl
  · rfl

theorem oosCount_inpkt (c : Cli) : (oosCount c).inpkt = c.inpkt := by
  unfold oosCount
  dsimp only
  split <;> rfl

theorem servfailCount_inpkt (c : Cli) (rq : Rq) : (servfailCount c rq).inpkt = c.inpkt := by
  unfold servfailCount
  split
  · split
    · rfl
    · split
      · rfl
      · split <;> rfl
  · rfl

/-- the part of `tunnel_dns` behind the three early exits, as a function of the state with `send_ping_soon`
cleared and of `send_something_now` -/
def dnsCore (c : Cli) (sendNow : Bool) (rq : Rq) : Cli × List CEvent × Stop :=
  let h := decodeHdr rq.buf
  let d := dupeSeqno c h rq.rv
  let read := d.2
  let c := countRecv d.1
  if !recentId c rq.id then
    let c := oosCount c
    if sendNow then afterSend (sendPing c) [] .dnsOosPing else (c, [], .ret (-1))
  else
    let c := { c with lastdownstreamtime := c.now }
    let c := lazyHint c rq.id
    let c := datalessAdopt c h read
    let r := downstream c h rq.buf read sendNow
    upstream r.1 h r.2.1 r.2.2 read

theorem tunnelDns_eq (c : Cli) (rq : Rq) :
    tunnelDns c rq =
      if notData c rq.name0 then ({ c with sendPingSoon := 700 }, [], .ret (-1))
      else if rq.rv < 2 then ({ servfailCount c rq with sendPingSoon := 900 }, [], .ret (-1))
      else if rq.rv = 5 ∧ rq.buf.take 5 = ascii "BADIP" then (c, [], .ret (-1))
      else dnsCore { c with sendPingSoon := 0 } (c.sendPingSoon != 0) rq := rfl

theorem dnsCore_rx (c : Cli) (sn : Bool) (rq : Rq) :
    (dnsCore c sn rq).1.inpkt = (rxStep c.inpkt (recentId c rq.id) rq).1 ∧
    tunws (dnsCore c sn rq).2.1 = tunws (rxStep c.inpkt (recentId c rq.id) rq).2 := by
  unfold dnsCore rxStep
  dsimp only
  obtain ⟨d1, d2, d3⟩ := dupeSeqno_rx c (decodeHdr rq.buf) rq.rv
  generalize dupeSeqno c (decodeHdr rq.buf) rq.rv = d at d1 d2 d3 ⊢
  have hcr : recentId (countRecv d.1) rq.id = recentId c rq.id := d3 rq.id
  have hci : (countRecv d.1).inpkt = c.inpkt := d1
  generalize countRecv d.1 = c1 at hcr hci ⊢
  rw [hcr, d2]
  cases recentId c rq.id with
  | false =>
    simp only [Bool.not_false, if_true, Bool.false_eq_true, if_false]
    split
    · have a1 := afterSend_rx (sendPing (oosCount c1)) [] .dnsOosPing
      have a2 := sendPing_rx (oosCount c1)
      refine ⟨a1.1.trans (a2.1.trans ((oosCount_inpkt _).trans hci)), ?_⟩
      rw [a1.2, a2.2]; rfl
    · exact ⟨(oosCount_inpkt _).trans hci, rfl⟩
  | true =>
    simp only [Bool.not_true, Bool.false_eq_true, if_false, if_true]
    have hin : (datalessAdopt (lazyHint { c1 with lastdownstreamtime := c1.now } rq.id) (decodeHdr rq.buf)
        (rxRead c.inpkt (decodeHdr rq.buf) rq.rv)).inpkt
        = rxAdopt c.inpkt (decodeHdr rq.buf) (rxRead c.inpkt (decodeHdr rq.buf) rq.rv) := by
      rw [datalessAdopt_rx, lazyHint_inpkt]
      show rxAdopt c1.inpkt _ _ = _
      rw [hci]
    generalize datalessAdopt (lazyHint { c1 with lastdownstreamtime := c1.now } rq.id) (decodeHdr rq.buf)
        (rxRead c.inpkt (decodeHdr rq.buf) rq.rv) = c2 at hin ⊢
    obtain ⟨w1, w2⟩ := downstream_rx c2 (decodeHdr rq.buf) rq.buf (rxRead c.inpkt (decodeHdr rq.buf) rq.rv) sn
    generalize downstream c2 (decodeHdr rq.buf) rq.buf (rxRead c.inpkt (decodeHdr rq.buf) rq.rv) sn = r at w1 w2 ⊢
    obtain ⟨u1, u2⟩ := upstream_rx r.1 (decodeHdr rq.buf) r.2.1 r.2.2 (rxRead c.inpkt (decodeHdr rq.buf) rq.rv)
    rw [hin] at w1 w2
    exact ⟨u1.trans w1, by rw [u2, w2]⟩

/-- **`tunnel_dns` projects onto the reassembly machine**: what it does to `inpkt` and what it writes to the tun
device is `rxStep` of the old `inpkt`, the filter verdict and the answer. -/
theorem tunnelDns_rx (c : Cli) (rq : Rq) :
    (tunnelDns c rq).1.inpkt = (rxStep c.inpkt (accepted c rq) rq).1 ∧
    tunws (tunnelDns c rq).2.1 = tunws (rxStep c.inpkt (accepted c rq) rq).2 := by
  rw [tunnelDns_eq]
  unfold accepted
  by_cases h1 : notData c rq.name0 = true
  · rw [if_pos h1]
    have hacc : (!notData c rq.name0 && !decide (rq.rv < 2) && !decide (rq.rv = 5 ∧ rq.buf.take 5 = ascii "BADIP")
      && recentId c rq.id) = false := by simp [h1]
    rw [hacc]
    exact ⟨rfl, rfl⟩
  rw [if_neg h1]
  by_cases h2 : rq.rv < 2
  · rw [if_pos h2]
    have hacc : (!notData c rq.name0 && !decide (rq.rv < 2) && !decide (rq.rv = 5 ∧ rq.buf.take 5 = ascii "BADIP")
      && recentId c rq.id) = false := by simp [h2]
    rw [hacc]
    exact ⟨servfailCount_inpkt c rq, rfl⟩
  rw [if_neg h2]
  by_cases h3 : rq.rv = 5 ∧ rq.buf.take 5 = ascii "BADIP"
  · rw [if_pos h3]
    have hacc : (!notData c rq.name0 && !decide (rq.rv < 2) && !decide (rq.rv = 5 ∧ rq.buf.take 5 = ascii "BADIP")
      && recentId c rq.id) = false := by simp [h3]
    rw [hacc]
    exact ⟨rfl, rfl⟩
  rw [if_neg h3]
  have hacc : (!notData c rq.name0 && !decide (rq.rv < 2) && !decide (rq.rv = 5 ∧ rq.buf.take 5 = ascii "BADIP")
      && recentId c rq.id) = recentId { c with sendPingSoon := 0 } rq.id := by
    simp only [h1, h2, h3, decide_false, Bool.not_false, Bool.true_and]
    rfl
  rw [hacc]
  exact dnsCore_rx { c with sendPingSoon := 0 } (c.sendPingSoon != 0) rq

end Iodine.C01L
