import IodineModel.Lemmas.C02u1
/-
Server side of an upstream transfer in IMMEDIATE mode: what one iteration does with a fresh data query when nothing is
to be sent downstream (`outpacket.len = 0`, no query waiting).
-/
namespace Iodine.C02L
open Iodine Iodine.Gen Iodine.Server

/-- the slot is idle in the downstream direction and holds no query (immediate mode between two queries) -/
structure IdleImm (x : Session) : Prop where
  out : x.outpacket.len = 0
  q : x.q.id = 0
  qs : x.qs.id = 0
  lazy : x.lazy = false

/-- the slot after a fragment was accepted into `inpacket` (`I` = `inpacket` as `dataUpstream` left it) and stored -/
def stored (x : Session) (I : Packet) (payload : List Nat) : Session := dataStore { x with inpacket := I } payload

theorem dataASess_accept (x : Session) (h : UpHdr) (payload : List Nat) (I : Packet) (hout : x.outpacket.len = 0)
    (hup : dataUpstream x h.upSeq h.upFrag = ({ x with inpacket := I }, true)) :
    dataASess x h.upSeq h.upFrag h.dnSeq h.dnFrag payload = (stored x I payload, true) := by
  unfold dataASess stored
  have : ackSess x h.dnSeq h.dnFrag = x := by simp [ackSess, hout]
  simp only [this, hup, if_true]

/-- a fragment that is not the last one: stored, and the query is answered at once with a dataless packet that
acknowledges it -/
theorem dataSess_imm_mid (x : Session) (u : Nat) (Q : Query) (h : UpHdr) (payload : List Nat) (now : Nat) (I : Packet)
    (hi : IdleImm x) (hlast : h.last = false) (hid2 : Q.id2 = 0)
    (hup : dataUpstream x h.upSeq h.upFrag = ({ x with inpacket := I }, true)) :
    dataSess x u Q h payload now =
      (let y := saveQ (stored x I payload) Q now
       ({ cacheUpd (qmemUpd y Q) Q (scPkt y 0) with q := { Q with id := 0 } }, [writeDns Q (scPkt y 0) y.downenc (.chunk u)])) := by
  obtain ⟨h1, h2, h3, h4⟩ := hi
  unfold dataSess
  rw [dataASess_accept x h payload I h1 hup]
  simp only [hlast, Bool.false_eq_true, and_false, if_false]
  have e1 : stepQsSess (stored x I payload) u = ((stored x I payload, []), false) := by
    simp [stepQsSess, stored, dataStore, h3]
  rw [e1]
  simp only
  have e2 : stepQSess (stored x I payload) u true false false = ((stored x I payload, []), false) := by
    simp [stepQSess, stored, dataStore, h2]
  rw [e2]
  simp only
  have e3 : stepFinalSess (saveQ (stored x I payload) Q now) u true false false =
      (scSess (saveQ (stored x I payload) Q now) u .q).1 := by
    simp [stepFinalSess, saveQ, stored, dataStore, h1]
  rw [e3, scSess_dataless _ _ _ (by simp [saveQ, stored, dataStore, h1]) (by simp [QSel.get, saveQ, hid2])]
  simp [QSel.get, QSel.set, saveQ]

/-- the last fragment: stored, the packet handed on, the query parked in `q_sendrealsoon` (answered by the next
iteration's sweep) -/
theorem dataSess_imm_last (x : Session) (u : Nat) (Q : Query) (h : UpHdr) (payload : List Nat) (now : Nat) (I : Packet)
    (hi : IdleImm x) (hlast : h.last = true)
    (hup : dataUpstream x h.upSeq h.upFrag = ({ x with inpacket := I }, true)) :
    dataSess x u Q h payload now =
      (parkQ (saveQ (fullSess (stored x I payload)) Q now), fullEvs (stored x I payload)) := by
  obtain ⟨h1, h2, h3, h4⟩ := hi
  unfold dataSess
  rw [dataASess_accept x h payload I h1 hup]
  simp only [hlast, and_self, if_true]
  have e1 : stepQsSess (fullSess (stored x I payload)) u = ((fullSess (stored x I payload), []), false) := by
    simp [stepQsSess, fullSess, stored, dataStore, h3]
  rw [e1]
  simp only
  have e2 : stepQSess (fullSess (stored x I payload)) u true true false = ((fullSess (stored x I payload), []), false) := by
    simp [stepQSess, fullSess, stored, dataStore, h2]
  rw [e2]
  simp only
  have e3 : stepFinalSess (saveQ (fullSess (stored x I payload)) Q now) u true true false =
      (parkQ (saveQ (fullSess (stored x I payload)) Q now), []) := by
    simp [stepFinalSess, saveQ, fullSess, stored, dataStore, h1]
  rw [e3]
  simp

/-! ### one iteration with a fresh data query -/

/-- the entry state of an iteration: `qsNew` cleared, clock advanced -/
def entryS (s : Srv) (u now' : Nat) : Srv := { putUser s u (topSess (getUser s u) s.now) with now := now' }

theorem getUser_entryS {u : Nat} {s : Srv} (hs : Solo u s) (now' : Nat) :
    getUser (entryS s u now') u = topSess (getUser s u) s.now := by
  unfold entryS
  rw [getUser_withNow, getUser_putUser_self _ _ _ hs.lt]

theorem entryS_solo {u : Nat} {s : Srv} (hs : Solo u s) (now' : Nat) : Solo u (entryS s u now') :=
  (hs.putUser _).withNow now'

/-- An iteration that receives a fresh (no filter hits) data query of session `u`: the slot is rewritten by the data
handler and then by the sweep. -/
theorem iteration_data {u : Nat} {s : Srv} (hs : Solo u s) (Q : Query) (now' dlen : Nat) (hu : u < 16)
    (hdl : Common.queryDatalen Q.name s.cfg.topdomain = some dlen) (h6 : 6 ≤ dlen)
    (hc : Q.name.getD 0 0 = hexLower u) (hty : TunnelType Q.type) (hid : Q.id ≠ 0)
    (hadm : Admitted (entryS s u now') u Q)
    (hcache : CacheMiss (topSess (getUser s u) s.now) Q) (hqmem : QmemMiss (topSess (getUser s u) s.now) Q)
    (hdup1 : (topSess (getUser s u) s.now).q.id = 0 ∨ (topSess (getUser s u) s.now).q.name ≠ Q.name)
    (hdup2 : (topSess (getUser s u) s.now).qs.id = 0 ∨ (topSess (getUser s u) s.now).qs.name ≠ Q.name)
    (hns : (parseUpHdr (Q.name.take (min dlen 512))).last = true →
      ¬ selfAddressed (dataASess (topSess (getUser s u) s.now) (parseUpHdr (Q.name.take (min dlen 512))).upSeq
        (parseUpHdr (Q.name.take (min dlen 512))).upFrag (parseUpHdr (Q.name.take (min dlen 512))).dnSeq
        (parseUpHdr (Q.name.take (min dlen 512))).dnFrag ((Q.name.take (min dlen 512)).drop 5)).1 now') :
    iteration s (.q Q) now' =
      (let r := dataSess (topSess (getUser s u) s.now) u Q (parseUpHdr (Q.name.take (min dlen 512)))
                  ((Q.name.take (min dlen 512)).drop 5) now'
       ({ putUser s u (sweepSess r.1 u now').1 with now := now' }, r.2 ++ [Event.sweep] ++ (sweepSess r.1 u now').2,
        ((topOfLoop s).2.1, (topOfLoop s).2.2))) := by
  have hs1 := entryS_solo hs now'
  have hg := getUser_entryS hs now'
  apply iteration_solo hs (.q Q) now' _ _ (by intro f hf; cases hf)
  show tunnelDns (entryS s u now') Q = _
  rw [tunnelDns_data (entryS s u now') Q u dlen hu hdl h6 hc hty hid (checkAuth_admitted hadm)
    (answerFromDnscache_none _ _ _ (by rw [hg]; exact hcache)) (answerFromQmemData_none _ _ _ (by rw [hg]; exact hqmem))
    (rememberDuplicate_none _ _ _ (by rw [hg]; exact hdup1) (by rw [hg]; exact hdup2))]
  rw [dataFresh_stages, dataStaged_eq hs1 _ _ _ (by rw [hg]; exact fun _ hl => hns hl), hg]
  unfold entryS
  simp only [putUser_withNow, putUser_putUser]

end Iodine.C02L
