import IodineModel.Lemmas.Downstream
import IodineModel.Lemmas.MxClient
/-
The server's MX/SRV loop (`mxBuild`): the list of host names it builds, each with the chunk of the payload it
carries (`mxItems`); the names satisfy `Carries`, all but the last have the same length, and the memory image
handed to `dns_encode` is C10's `mxPack` of the names.
-/
namespace Iodine.Downstream
open Iodine Iodine.Codec Iodine.Encoding Iodine.Wire Iodine.Wire.Strict Iodine.Wire.Put Iodine.Wire.DnsEncode
open Iodine.Server.WriteDns Iodine.Client.ReadDns Iodine.C10

theorem nameenc_buflen (td : Td) (b : Nat) (hb : 255 ≤ b) (d : List Nat) (dn : Nat) :
    nameenc td b d dn = nameenc td 255 d dn := by
  have : min 255 b = 255 := by omega
  simp [nameenc, this]

/-! ### a name of `write_dns_nameenc` carries its chunk -/

theorem namedec_take_congr {letter : Nat} {c : Codec} (hc : HostCodec letter c) (N : Nat) (m0 rest rest' : List Nat)
    (l t : Nat) (hl : 1 ≤ l) (hlm : l ≤ m0.length + 1) (ht : t ≤ l + 1) :
    dnsNamedec N ((letter :: m0).take l ++ 0 :: rest) t = dnsNamedec N ((letter :: m0) ++ 0 :: rest') t := by
  obtain ⟨l', rfl⟩ : ∃ l', l = l' + 1 := ⟨l - 1, by omega⟩
  simp only [List.take_succ_cons, List.cons_append]
  rw [hc.namedec, hc.namedec]
  by_cases h5 : t < 5
  · rw [if_pos h5, if_pos h5]
  · rw [if_neg h5, if_neg h5]
    congr 1
    rw [List.take_append_of_le_length (by simp only [List.length_take]; omega),
      List.take_append_of_le_length (by omega), List.take_take]
    congr 1
    omega

theorem carries_nameenc (td : Td) (htd : TdOk td) (b : Nat) (hb : 255 ≤ b) (d : List Nat) (hd : Codec.Bytes d)
    (hne : d ≠ []) (dn : Nat) :
    Carries (nameenc td b d dn).name (d.take (nameenc td b d dn).used) := by
  have hs := nameenc_shape td htd b hb d hd dn
  have hu := nameenc_used td b hb d dn
  have hc := hostCodec dn
  have hC := C07.capacity_contract hc.wf 245 d hd
  have hP := C07.progress hc.wf 245 d (by omega) hne
  rw [hu]
  generalize (nameenc td b d dn).name = name at hs
  have hused := hC.used_le
  obtain ⟨Dt, hname, _⟩ := hs.shape
  have hchars : (enc (nameCodec dn).2 245 d).chars ≠ [] := by
    intro he
    have hr := hC.ratio
    rw [he] at hr
    simp only [List.length_nil] at hr
    have := nchars_pos (nameCodec dn).2.k _ hc.wf.k_ok hP
    omega
  have hcl : (d.take (enc (nameCodec dn).2 245 d).used).length = (enc (nameCodec dn).2 245 d).used := by
    simp only [List.length_take]; omega
  have hm0 : name = (nameCodec dn).1 :: (Dt ++ [DOT, 97 + (tdStep td).1, 97 + (tdStep td).2]) := hname
  have hnlen : name.length = Dt.length + 4 := by rw [hname]; simp
  refine ⟨by omega, ?_, fun c hcm => (hs.legal.2.1 c hcm).1, ?_, ?_, ?_, ?_⟩
  · intro he
    have := congrArg List.length he
    simp only [List.length_take, List.length_nil] at this
    omega
  · intro N l t rest hl hln ht
    have hcong := namedec_take_congr hc N (Dt ++ [DOT, 97 + (tdStep td).1, 97 + (tdStep td).2]) rest rest l t hl
      (by rw [hname] at hln; simpa using hln) ht
    rw [← hname] at hcong
    rw [hcong]
    obtain ⟨a, ha, hau⟩ := namedec_cut hc 245 d hd hs N t rest (by omega)
    rw [ha]
    have : d.take a = (d.take (enc (nameCodec dn).2 245 d).used).take a := by
      rw [List.take_take, Nat.min_eq_left hau]
    rw [this]
    exact List.take_prefix _ _
  · intro N t rest ht hN
    rw [hcl] at hN
    exact namedec_exact hc 245 d hd hs N t rest ht hN
  · intro N rest hN
    rw [hcl] at hN
    have hcong := namedec_take_congr hc N (Dt ++ [DOT, 97 + (tdStep td).1, 97 + (tdStep td).2]) rest rest
      (name.length - 1) name.length (by omega) (by rw [hnlen]; simp) (by omega)
    rw [← hname] at hcong
    rw [hcong]
    exact namedec_exact hc 245 d hd hs N name.length rest (Or.inl rfl) hN
  · intro N l rest hl hl2
    have hcong := namedec_take_congr hc N (Dt ++ [DOT, 97 + (tdStep td).1, 97 + (tdStep td).2]) rest rest
      l (l + 1) hl (by rw [hnlen] at hl2; simp; omega) (Nat.le_refl _)
    rw [← hname] at hcong
    rw [hcong, hcl]
    exact namedec_strict hc 245 d hd hchars hs N (l + 1) rest (by omega)

/-! ### the list of names -/

/-- the names the MX/SRV loop builds, each with the part of the payload it carries -/
def mxItems : Nat → Td → List Nat → Nat → List (List Nat × List Nat)
  | 0, _, _, _ => []
  | fuel + 1, td, data, dn =>
    let r := nameenc td 255 data dn
    if r.used ≥ data.length then [(r.name, data)]
    else (r.name, data.take r.used) :: mxItems fuel r.td (data.drop r.used) dn

theorem used_ge_152 {c : Codec} (wf : WF c) (d : List Nat) (h : (enc c 245 d).used < d.length) :
    152 ≤ (enc c 245 d).used := by
  have hk := wf.k_ok
  unfold enc at h ⊢
  simp only [] at h ⊢
  split
  · rename_i hm; rw [if_pos hm] at h; simp at h
  · simp only []
    rcases hk with h5 | h6 | h7
    · rw [h5]; split <;> omega
    · rw [h6]; split <;> omega
    · rw [h7]; split <;> omega

theorem drop_ne_nil {d : List Nat} {u : Nat} (h : u < d.length) : d.drop u ≠ [] := by
  intro he
  have := congrArg List.length he
  simp only [List.length_drop, List.length_nil] at this
  omega

theorem mxBuild_eq (dn : Nat) : ∀ (fuel : Nat) (td : Td) (boff : Nat) (data : List Nat), TdOk td → Codec.Bytes data →
    data ≠ [] → data.length ≤ fuel → boff + 254 * (data.length / 152) + 254 ≤ 65280 →
    (mxBuild fuel td boff data dn).2 = some (mxPack ((mxItems fuel td data dn).map (·.1))) := by
  intro fuel
  induction fuel with
  | zero =>
    intro td boff data _ _ hne hlen _
    exact absurd (List.eq_nil_of_length_eq_zero (by omega)) hne
  | succ fuel ih =>
    intro td boff data htd hd hne hlen hroom
    have hc := hostCodec dn
    have hP := C07.progress hc.wf 245 data (by omega) hne
    have hb : 255 ≤ 65536 - boff := by omega
    have hu := nameenc_used td 255 (by omega) data dn
    have hs := nameenc_shape td htd 255 (by omega) data hd dn
    have hl253 := hs.legal.1
    simp only [mxBuild, mxItems]
    have hroom' : ¬ 65536 < boff + 256 := by omega
    rw [if_neg hroom', nameenc_buflen td _ hb]
    rw [if_neg (by rw [hu]; omega)]
    by_cases hlast : (nameenc td 255 data dn).used ≥ data.length
    · rw [if_pos hlast, if_pos hlast]
      simp [mxPack]
    · rw [if_neg hlast, if_neg hlast]
      have hlt : (enc (nameCodec dn).2 245 data).used < data.length := by rw [← hu]; omega
      have h152 := used_ge_152 hc.wf data hlt
      have hih := ih (nameenc td 255 data dn).td (boff + (nameenc td 255 data dn).name.length + 1)
        (data.drop (nameenc td 255 data dn).used) (by rw [nameenc_td]; exact tdStep_ok htd)
        (fun x hx => hd x (List.mem_of_mem_drop hx)) (drop_ne_nil (by omega))
        (by simp only [List.length_drop]; omega)
        (by
          simp only [List.length_drop]
          rw [hu]
          omega)
      generalize hmb : mxBuild fuel (nameenc td 255 data dn).td (boff + (nameenc td 255 data dn).name.length + 1)
        (data.drop (nameenc td 255 data dn).used) dn = res at hih
      obtain ⟨td', o⟩ := res
      simp only at hih
      subst hih
      simp [mxPack]

/-! ### properties of the names -/

theorem mxItems_flatten (dn : Nat) : ∀ (fuel : Nat) (td : Td) (data : List Nat), data.length ≤ fuel → data ≠ [] →
    ((mxItems fuel td data dn).map (·.2)).flatten = data := by
  intro fuel
  induction fuel with
  | zero => intro td data h hne; exact absurd (List.eq_nil_of_length_eq_zero (by omega)) hne
  | succ fuel ih =>
    intro td data h hne
    simp only [mxItems]
    split
    · simp
    · rename_i hlast
      have hu := nameenc_used td 255 (by omega) data dn
      have hP := C07.progress (hostCodec dn).wf 245 data (by omega) hne
      simp only [List.map_cons, List.flatten_cons]
      rw [ih _ _ (by simp only [List.length_drop]; omega) (drop_ne_nil (by omega)), List.take_append_drop]

theorem mxItems_props (dn : Nat) : ∀ (fuel : Nat) (td : Td) (data : List Nat), TdOk td → Codec.Bytes data →
    data.length ≤ fuel → data ≠ [] →
    ∀ it ∈ mxItems fuel td data dn, Carries it.1 it.2 ∧ LegalName it.1 := by
  intro fuel
  induction fuel with
  | zero => intro td data _ _ h hne; exact absurd (List.eq_nil_of_length_eq_zero (by omega)) hne
  | succ fuel ih =>
    intro td data htd hd h hne it hit
    have hu := nameenc_used td 255 (by omega) data dn
    have hP := C07.progress (hostCodec dn).wf 245 data (by omega) hne
    have hcar := carries_nameenc td htd 255 (by omega) data hd hne dn
    have hleg := (nameenc_shape td htd 255 (by omega) data hd dn).legal
    simp only [mxItems] at hit
    split at hit
    · rename_i hlast
      simp only [List.mem_cons, List.not_mem_nil, or_false] at hit
      subst hit
      rw [List.take_of_length_le hlast] at hcar
      exact ⟨hcar, hleg⟩
    · rename_i hlast
      simp only [List.mem_cons] at hit
      rcases hit with rfl | hit
      · exact ⟨hcar, hleg⟩
      · exact ih _ _ (by rw [nameenc_td]; exact tdStep_ok htd) (fun x hx => hd x (List.mem_of_mem_drop hx))
          (by simp only [List.length_drop]; omega) (drop_ne_nil (by omega)) it hit

theorem mxItems_ne_nil (dn : Nat) (fuel : Nat) (td : Td) (data : List Nat) : mxItems (fuel + 1) td data dn ≠ [] := by
  simp only [mxItems]
  split <;> simp

theorem mxItems_length (dn : Nat) : ∀ (fuel : Nat) (td : Td) (data : List Nat), data.length ≤ fuel → data ≠ [] →
    (mxItems fuel td data dn).length ≤ data.length / 152 + 1 := by
  intro fuel
  induction fuel with
  | zero => intro td data h hne; exact absurd (List.eq_nil_of_length_eq_zero (by omega)) hne
  | succ fuel ih =>
    intro td data h hne
    simp only [mxItems]
    split
    · simp
    · rename_i hlast
      have hu := nameenc_used td 255 (by omega) data dn
      have h152 := used_ge_152 (hostCodec dn).wf data (by rw [← hu]; omega)
      have := ih (nameenc td 255 data dn).td (data.drop (nameenc td 255 data dn).used)
        (by simp only [List.length_drop]; omega) (drop_ne_nil (by omega))
      simp only [List.length_cons, List.length_drop] at this ⊢
      omega

/-! ### lengths of the names -/

theorem dotifyAux_last (s : List Nat) (hs : NoDot s) : ∀ k, k < 57 → s ≠ [] →
    ((dotifyAux k s).getLast? = some DOT ↔ (k + s.length) % 57 = 0) := by
  induction s with
  | nil => intro k _ h; exact absurd rfl h
  | cons c r ih =>
    intro k hk _
    have hc : c ≠ DOT := hs c (by simp)
    have hr : NoDot r := fun x hx => hs x (by simp [hx])
    cases r with
    | nil =>
      simp only [dotifyAux, List.length_cons, List.length_nil]
      by_cases h57 : k + 1 = 57
      · simp [h57]
      · simp [h57, hc]; omega
    | cons c' r' =>
      rw [show dotifyAux k (c :: c' :: r') = (if k + 1 = 57 then c :: DOT :: dotifyAux 0 (c' :: r')
        else c :: dotifyAux (k + 1) (c' :: r')) from rfl]
      by_cases h57 : k + 1 = 57
      · rw [if_pos h57]
        have hne : dotifyAux 0 (c' :: r') ≠ [] := dotifyAux_ne_nil 0 _ (by simp)
        obtain ⟨a, l, hal⟩ := List.exists_cons_of_ne_nil hne
        rw [hal, List.getLast?_cons_cons, List.getLast?_cons_cons, ← hal, ih hr 0 (by omega) (by simp)]
        simp only [List.length_cons]
        omega
      · rw [if_neg h57]
        have hne : dotifyAux (k + 1) (c' :: r') ≠ [] := dotifyAux_ne_nil _ _ (by simp)
        obtain ⟨a, l, hal⟩ := List.exists_cons_of_ne_nil hne
        rw [hal, List.getLast?_cons_cons, ← hal, ih hr (k + 1) (by omega) (by simp)]
        simp only [List.length_cons]
        omega

/-- length of the name `write_dns_nameenc` builds around `m` encoded characters -/
def nameLenOf (m : Nat) : Nat := m + 1 + (m + 1) / 57 + (if (m + 1) % 57 = 0 then 0 else 1) + 2

theorem dotted_length (s : List Nat) (hs : NoDot s) (hne : s ≠ []) (x y : Nat) :
    ((if (dotify s).getLast?.getD 0 = DOT then dotify s else dotify s ++ [DOT]) ++ [x, y]).length =
      s.length + s.length / 57 + (if s.length % 57 = 0 then 0 else 1) + 2 := by
  have hlen : (dotify s).length = s.length + s.length / 57 := by
    unfold dotify; rw [dotifyAux_length 0 _ (by omega)]; simp
  have hdne : dotify s ≠ [] := dotifyAux_ne_nil 0 s hne
  have hlast := dotifyAux_last s hs 0 (by omega) hne
  have hiff : (dotify s).getLast?.getD 0 = DOT ↔ s.length % 57 = 0 := by
    rw [← (by simpa [dotify] using hlast : (dotify s).getLast? = some DOT ↔ s.length % 57 = 0)]
    cases hgl : (dotify s).getLast? with
    | none => exact absurd (List.getLast?_eq_none_iff.mp hgl) hdne
    | some v => simp
  by_cases h : s.length % 57 = 0
  · rw [if_pos (hiff.mpr h), if_pos h]
    simp only [List.length_append, hlen, List.length_cons, List.length_nil]
  · rw [if_neg (fun h' => h (hiff.mp h')), if_neg h]
    simp only [List.length_append, hlen, List.length_cons, List.length_nil]

theorem nameenc_length (td : Td) (b : Nat) (hb : 255 ≤ b) (d : List Nat) (dn : Nat) :
    (nameenc td b d dn).name.length = nameLenOf (enc (nameCodec dn).2 245 d).chars.length := by
  obtain ⟨wf, nodot, _, _, hl, _⟩ := hostCodec dn
  have hmin : min 255 b = 255 := by omega
  have hnd : NoDot ((nameCodec dn).1 :: (enc (nameCodec dn).2 245 d).chars) := by
    intro c hc
    simp only [List.mem_cons] at hc
    rcases hc with rfl | hc
    · exact hl.1
    · exact nodot c (C07.chars_in_table wf 245 d c hc)
  have hname : (nameenc td b d dn).name =
      ((if (dotify ((nameCodec dn).1 :: (enc (nameCodec dn).2 245 d).chars)).getLast?.getD 0 = DOT
          then dotify ((nameCodec dn).1 :: (enc (nameCodec dn).2 245 d).chars)
          else dotify ((nameCodec dn).1 :: (enc (nameCodec dn).2 245 d).chars) ++ [DOT]) ++
        [97 + (tdStep td).1, 97 + (tdStep td).2]) := by
    simp [nameenc, hmin]
  rw [hname, dotted_length _ hnd (by simp)]
  simp only [nameLenOf, List.length_cons]

/-- number of characters of a capacity-limited encoding into 245 characters -/
def jcap (k : Nat) : Nat := if k * (245 - 1) / 8 < k * 245 / 8 then 245 else 245 - 1

theorem enc_capped {c : Codec} (_wf : WF c) (d : List Nat) (h : (enc c 245 d).used < d.length) :
    (enc c 245 d).chars.length = jcap c.k ∧ (enc c 245 d).used = c.k * jcap c.k / 8 := by
  have hfl := encFull_length c d
  unfold enc at h ⊢
  simp only [] at h ⊢
  split
  · rename_i hm; rw [if_pos hm] at h; simp at h
  · rename_i hm
    simp only [jcap]
    refine ⟨?_, trivial⟩
    rw [List.length_take, hfl]
    split <;> omega

theorem enc_last_le {c : Codec} (wf : WF c) (d : List Nat) :
    (enc c 245 d).chars.length ≤ jcap c.k := by
  have hfl := encFull_length c d
  have hk := wf.k_ok
  unfold enc
  simp only []
  split
  · rename_i hm
    simp only [hfl, jcap]
    unfold nchars at hm ⊢
    rcases hk with h5 | h6 | h7
    · rw [h5] at hm ⊢; split <;> omega
    · rw [h6] at hm ⊢; split <;> omega
    · rw [h7] at hm ⊢; split <;> omega
  · simp only [jcap, List.length_take, hfl]
    split <;> omega

theorem nameLenOf_mono {a b : Nat} (h : a ≤ b) : nameLenOf a ≤ nameLenOf b := by
  induction b with
  | zero =>
    have : a = 0 := by omega
    rw [this]; exact Nat.le_refl _
  | succ b ih =>
    by_cases hab : a = b + 1
    · rw [hab]; exact Nat.le_refl _
    · refine Nat.le_trans (ih (by omega)) ?_
      unfold nameLenOf
      split <;> split <;> omega

theorem mxItems_uniform (dn : Nat) : ∀ (fuel : Nat) (td : Td) (data : List Nat), data.length ≤ fuel → data ≠ [] →
    Uniform (nameLenOf (jcap (nameCodec dn).2.k)) (mxItems fuel td data dn) := by
  intro fuel
  induction fuel with
  | zero => intro td data h hne; exact absurd (List.eq_nil_of_length_eq_zero (by omega)) hne
  | succ fuel ih =>
    intro td data h hne
    have hwf := (hostCodec dn).wf
    have hu := nameenc_used td 255 (by omega) data dn
    have hlen := nameenc_length td 255 (by omega) data dn
    simp only [mxItems]
    split
    · rename_i hlast
      refine ⟨?_, fun h => absurd rfl h, trivial⟩
      simp only [hlen]
      exact nameLenOf_mono (enc_last_le hwf data)
    · rename_i hlast
      have hcap := enc_capped hwf data (by rw [← hu]; omega)
      have hP := C07.progress hwf 245 data (by omega) hne
      refine ⟨?_, fun _ => ?_, ih _ _ (by simp only [List.length_drop]; omega) (drop_ne_nil (by omega))⟩
      · simp only [hlen, hcap.1]; exact Nat.le_refl _
      · simp only [hlen, hcap.1]

theorem uniform_first (L : Nat) (it : List Nat × List Nat) (rest : List (List Nat × List Nat))
    (h : Uniform L (it :: rest)) : Uniform it.1.length (it :: rest) := by
  obtain ⟨h1, h2, h3⟩ := h
  cases rest with
  | nil => exact ⟨Nat.le_refl _, fun h => absurd rfl h, trivial⟩
  | cons a b =>
    have := h2 (by simp)
    rw [this]
    exact ⟨Nat.le_of_eq this, fun _ => this, h3⟩

/-! ### independence of the pseudo-TLD state -/

/-- the name without its last two letters does not depend on the pseudo-TLD state -/
def nameBody (d : List Nat) (dn : Nat) : List Nat :=
  if (dotify ((nameCodec dn).1 :: (enc (nameCodec dn).2 245 d).chars)).getLast?.getD 0 = DOT
  then dotify ((nameCodec dn).1 :: (enc (nameCodec dn).2 245 d).chars)
  else dotify ((nameCodec dn).1 :: (enc (nameCodec dn).2 245 d).chars) ++ [DOT]

theorem nameenc_split (td : Td) (b : Nat) (hb : 255 ≤ b) (d : List Nat) (dn : Nat) :
    (nameenc td b d dn).name = nameBody d dn ++ [97 + (tdStep td).1, 97 + (tdStep td).2] := by
  have hmin : min 255 b = 255 := by omega
  simp [nameenc, nameBody, hmin]

theorem nameBody_cons (d : List Nat) (dn : Nat) : ∃ m0, nameBody d dn = (nameCodec dn).1 :: m0 := by
  unfold nameBody
  have hs : dotify ((nameCodec dn).1 :: (enc (nameCodec dn).2 245 d).chars) =
      (nameCodec dn).1 :: dotifyAux 1 (enc (nameCodec dn).2 245 d).chars := by simp [dotify, dotifyAux]
  rw [hs]
  split
  · exact ⟨_, rfl⟩
  · exact ⟨_, rfl⟩

/-- `dns_namedec` on a cut of the name never looks at the two pseudo-TLD letters -/
theorem namedec_indep_xy (d : List Nat) (dn : Nat) (x y x' y' N l t : Nat) (rest rest' : List Nat)
    (hl : 1 ≤ l) (hlen : l ≤ (nameBody d dn).length + 2) (ht : t ≤ l + 1) :
    dnsNamedec N ((nameBody d dn ++ [x, y]).take l ++ 0 :: rest) t =
      dnsNamedec N ((nameBody d dn ++ [x', y']).take l ++ 0 :: rest') t := by
  have hc := hostCodec dn
  obtain ⟨m0, hm0⟩ := nameBody_cons d dn
  rw [hm0] at hlen ⊢
  obtain ⟨l', rfl⟩ : ∃ l', l = l' + 1 := ⟨l - 1, by omega⟩
  simp only [List.cons_append, List.take_succ_cons, List.length_cons] at hlen ⊢
  rw [hc.namedec, hc.namedec]
  by_cases h5 : t < 5
  · rw [if_pos h5, if_pos h5]
  · rw [if_neg h5, if_neg h5]
    congr 1
    have key : ∀ (u v : Nat) (r : List Nat), ((m0 ++ [u, v]).take l' ++ 0 :: r).take (t - 4) = m0.take (t - 4) := by
      intro u v r
      have h1 : ((m0 ++ [u, v]).take l').length = l' := by
        simp only [List.length_take, List.length_append, List.length_cons, List.length_nil]
        omega
      rw [List.take_append_of_le_length (by rw [h1]; omega), List.take_take]
      have h2 : min (t - 4) l' = t - 4 := by omega
      rw [h2, List.take_append_of_le_length (by omega)]
    have e1 := key x y rest
    have e2 := key x' y' rest'
    rw [e1, e2]

/-- `mxExpected` for the names built from two states of the pseudo-TLD rotation -/
theorem mxExpected_indep (L B dn : Nat) : ∀ (fuel : Nat) (td td' : Td) (data : List Nat) (o a : Nat),
    mxExpected L B (mxItems fuel td data dn) o a = mxExpected L B (mxItems fuel td' data dn) o a := by
  intro fuel
  induction fuel with
  | zero => intro td td' data o a; rfl
  | succ fuel ih =>
    intro td td' data o a
    have hu := nameenc_used td 255 (by omega) data dn
    have hu' := nameenc_used td' 255 (by omega) data dn
    have hlen := nameenc_length td 255 (by omega) data dn
    have hlen' := nameenc_length td' 255 (by omega) data dn
    have hsp := nameenc_split td 255 (by omega) data dn
    have hsp' := nameenc_split td' 255 (by omega) data dn
    have hbl : (nameenc td 255 data dn).name.length = (nameBody data dn).length + 2 := by rw [hsp]; simp
    have hdec : ∀ l, dnsNamedec (dataSize - a) ((nameenc td 255 data dn).name.take (min l (B - (o + 2))) ++ [0, 0])
          (min l (B - (o + 2)) + 1) =
        dnsNamedec (dataSize - a) ((nameenc td' 255 data dn).name.take (min l (B - (o + 2))) ++ [0, 0])
          (min l (B - (o + 2)) + 1) ∨ min l (B - (o + 2)) = 0 ∨ (nameBody data dn).length + 2 < min l (B - (o + 2)) := by
      intro l
      by_cases h0 : min l (B - (o + 2)) = 0
      · exact Or.inr (Or.inl h0)
      by_cases h1 : (nameBody data dn).length + 2 < min l (B - (o + 2))
      · exact Or.inr (Or.inr h1)
      left
      rw [hsp, hsp']
      exact namedec_indep_xy data dn _ _ _ _ _ _ _ [0] [0] (by omega) (by omega) (Nat.le_refl _)
    simp only [mxItems]
    rw [hu, hu']
    by_cases hlast : (enc (nameCodec dn).2 245 data).used ≥ data.length
    · rw [if_pos hlast, if_pos hlast]
      simp only [mxExpected, hlen, hlen']
      split
      · rfl
      · split
        · rfl
        · rcases hdec (nameLenOf (enc (nameCodec dn).2 245 data).chars.length) with h | h | h
          · exact h
          · omega
          · rw [← hbl, hlen] at h; omega
    · rw [if_neg hlast, if_neg hlast]
      simp only [mxExpected, hlen, hlen']
      split
      · rfl
      · split
        · rw [nameenc_td, nameenc_td]
          congr 1
          exact ih _ _ _ _ _
        · rcases hdec (nameLenOf (enc (nameCodec dn).2 245 data).chars.length) with h | h | h
          · exact h
          · omega
          · rw [← hbl, hlen] at h; omega

end Iodine.Downstream
