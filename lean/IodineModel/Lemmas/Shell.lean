import IodineModel.Client.Shell
/-
Helper lemmas about Client/Shell.lean (stated in the model's own terms; the specification
predicates live in Props/C13.lean).
-/
namespace Iodine.Client.Shell

/-! ### `utoa` is Lean's decimal printing -/

theorem digitChar_toNat : ∀ d, d < 10 → (Nat.digitChar d).toNat = 48 + d := by decide

theorem utoaGo_eq_toDigitsCore (fuel n : Nat) (ds : List Char) :
    utoaGo fuel n (ds.map Char.toNat) = (Nat.toDigitsCore 10 fuel n ds).map Char.toNat := by
  induction fuel generalizing n ds with
  | zero => simp [utoaGo, Nat.toDigitsCore]
  | succ f ih =>
    simp only [utoaGo, Nat.toDigitsCore]
    have hd : 48 + n % 10 = (Nat.digitChar (n % 10)).toNat :=
      (digitChar_toNat _ (Nat.mod_lt _ (by decide))).symm
    split
    · simp [hd]
    · rw [hd, ← List.map_cons, ih]

theorem utoa_eq_toDigits (n : Nat) : utoa n = (Nat.toDigits 10 n).map Char.toNat := by
  have := utoaGo_eq_toDigitsCore (n + 1) n []
  simpa [utoa, Nat.toDigits] using this

theorem utoa_digit {d : Nat} (h : d < 10) : utoa d = [48 + d] := by
  rw [utoa_eq_toDigits, Nat.toDigits_of_lt_base h]
  simp [digitChar_toNat d h]

theorem utoa_snoc {c d : Nat} (hc : 0 < c) (hd : d < 10) : utoa (c * 10 + d) = utoa c ++ [48 + d] := by
  rw [utoa_eq_toDigits, utoa_eq_toDigits, Nat.mul_comm,
    ← Nat.toDigits_append_toDigits (by decide) hc hd, Nat.toDigits_of_lt_base hd]
  simp [digitChar_toNat d hd]

/-! ### `inet_pton4` accepts only canonical dotted quads -/

/-- `.x.y.z` … -/
def dotFields (xs : List Nat) : List Nat := xs.flatMap (fun x => 46 :: utoa x)

theorem pton4Go_sound : ∀ (rest : List Nat) (saw : Bool) (oct cur : Nat),
    pton4Go saw oct cur rest = true → cur ≤ 255 → oct ≤ 4 → (saw = false → cur = 0 ∧ oct < 4) →
    ∃ n xs, n ≤ 255 ∧ (∀ x ∈ xs, x ≤ 255) ∧ xs.length + oct + (if saw then 0 else 1) = 4 ∧
      (if saw then utoa cur else []) ++ rest = utoa n ++ dotFields xs := by
  intro rest
  induction rest with
  | nil =>
    intro saw oct cur h hcur hoct hs
    simp only [pton4Go, beq_iff_eq] at h
    cases saw with
    | false => have := (hs rfl).2; omega
    | true => exact ⟨cur, [], hcur, by simp, by simp [h], by simp [dotFields]⟩
  | cons ch rest ih =>
    intro saw oct cur h hcur hoct hs
    unfold pton4Go at h
    split at h
    · -- digit
      rename_i hdig
      simp only [] at h
      split at h
      · exact absurd h (by simp)
      rename_i hlz
      split at h
      · exact absurd h (by simp)
      rename_i hnew
      have hd : ch - 48 < 10 := by omega
      have hch : 48 + (ch - 48) = ch := by omega
      cases saw with
      | true =>
        simp only [if_true] at h
        have hc0 : 0 < cur := by
          rcases Nat.eq_zero_or_pos cur with h0 | h0
          · exact absurd ⟨rfl, h0⟩ hlz
          · exact h0
        obtain ⟨n, xs, hn, hxs, hlen, heq⟩ := ih true oct (cur * 10 + (ch - 48)) h (by omega) hoct (by simp)
        refine ⟨n, xs, hn, hxs, hlen, ?_⟩
        simp only [if_true] at heq ⊢
        rw [← heq, utoa_snoc hc0 hd, hch]
        simp
      | false =>
        have hcur0 := (hs rfl).1
        subst hcur0
        simp only [Bool.false_eq_true, if_false] at h
        split at h
        · exact absurd h (by simp)
        obtain ⟨n, xs, hn, hxs, hlen, heq⟩ := ih true (oct + 1) (0 * 10 + (ch - 48)) h (by omega) (by omega) (by simp)
        refine ⟨n, xs, hn, hxs, by simp at hlen ⊢; omega, ?_⟩
        simp only [if_true, Nat.zero_mul, Nat.zero_add] at heq
        rw [utoa_digit hd, hch] at heq
        simpa using heq
    · split at h
      · -- dot
        rename_i hdot
        obtain ⟨rfl, rfl⟩ := hdot
        split at h
        · exact absurd h (by simp)
        rename_i h4
        obtain ⟨n, xs, hn, hxs, hlen, heq⟩ := ih false oct 0 h (by omega) hoct (by intro _; exact ⟨rfl, by omega⟩)
        refine ⟨cur, n :: xs, hcur, ?_, by simp at hlen ⊢; omega, ?_⟩
        · intro x hx
          rcases List.mem_cons.mp hx with rfl | hx
          · exact hn
          · exact hxs x hx
        · simp only [Bool.false_eq_true, if_false, List.nil_append] at heq
          simp [dotFields, heq]
      · exact absurd h (by simp)

theorem inetPton4_quad {s : List Nat} (h : inetPton4 s = true) :
    ∃ a b c d, a ≤ 255 ∧ b ≤ 255 ∧ c ≤ 255 ∧ d ≤ 255 ∧
      s = utoa a ++ 46 :: (utoa b ++ 46 :: (utoa c ++ 46 :: utoa d)) := by
  obtain ⟨n, xs, hn, hxs, hlen, heq⟩ := pton4Go_sound s false 0 0 h (by omega) (by omega) (by simp)
  simp only [Bool.false_eq_true, if_false, List.nil_append] at heq hlen
  match xs, hlen, hxs with
  | [b, c, d], _, hxs =>
    refine ⟨n, b, c, d, hn, hxs b (by simp), hxs c (by simp), hxs d (by simp), ?_⟩
    simp [heq, dotFields]

/-! ### … and all of them -/

theorem pton4Go_first_digit {d oct : Nat} (hd : d < 10) (ho : oct < 4) (rest : List Nat) :
    pton4Go false oct 0 ((48 + d) :: rest) = pton4Go true (oct + 1) d rest := by
  rw [pton4Go]
  have h1 : 48 ≤ 48 + d ∧ 48 + d ≤ 57 := by omega
  have h2 : 48 + d - 48 = d := by omega
  have h3 : ¬ d > 255 := by omega
  have h4 : ¬ oct + 1 > 4 := by omega
  simp [h1, h2, h3, h4]

theorem pton4Go_next_digit {c d oct : Nat} (hc : 0 < c) (hd : d < 10) (hn : c * 10 + d ≤ 255) (rest : List Nat) :
    pton4Go true oct c ((48 + d) :: rest) = pton4Go true oct (c * 10 + d) rest := by
  rw [pton4Go]
  have h1 : 48 ≤ 48 + d ∧ 48 + d ≤ 57 := by omega
  have h2 : 48 + d - 48 = d := by omega
  have h3 : ¬ c * 10 + d > 255 := by omega
  have h4 : c ≠ 0 := by omega
  simp [h1, h2, h3, h4]

theorem pton4Go_dot {c oct : Nat} (ho : oct ≠ 4) (rest : List Nat) :
    pton4Go true oct c (46 :: rest) = pton4Go false oct 0 rest := by
  rw [pton4Go]
  simp [ho]

theorem pton4Go_field (n : Nat) : ∀ (oct : Nat) (rest : List Nat), n ≤ 255 → oct < 4 →
    pton4Go false oct 0 (utoa n ++ rest) = pton4Go true (oct + 1) n rest := by
  induction n using Nat.strongRecOn with
  | _ n ih =>
    intro oct rest hn ho
    by_cases h10 : n < 10
    · rw [utoa_digit h10]; exact pton4Go_first_digit h10 ho rest
    · have hc : 0 < n / 10 := by omega
      have hd : n % 10 < 10 := by omega
      have hn' : n = n / 10 * 10 + n % 10 := by omega
      rw [hn', utoa_snoc hc hd, List.append_assoc, ih (n / 10) (by omega) oct _ (by omega) ho]
      exact pton4Go_next_digit hc hd (by omega) rest

theorem inetPton4_of_quad {a b c d : Nat} (ha : a ≤ 255) (hb : b ≤ 255) (hc : c ≤ 255) (hd : d ≤ 255) :
    inetPton4 (utoa a ++ 46 :: (utoa b ++ 46 :: (utoa c ++ 46 :: utoa d))) = true := by
  unfold inetPton4
  rw [pton4Go_field a 0 _ ha (by omega), pton4Go_dot (by omega),
    pton4Go_field b 1 _ hb (by omega), pton4Go_dot (by omega),
    pton4Go_field c 2 _ hc (by omega), pton4Go_dot (by omega)]
  have := pton4Go_field d 3 [] hd (by omega)
  rw [List.append_nil] at this
  rw [this]
  simp [pton4Go]

theorem utoa_length_le_3 : ∀ n, n ≤ 255 → (utoa n).length ≤ 3 := by decide +kernel
theorem utoa_length_le_4 : ∀ n, n ≤ 1500 → (utoa n).length ≤ 4 := by decide +kernel

theorem inetNtoa_quad (m : Nat) :
    ∃ a b c d, a ≤ 255 ∧ b ≤ 255 ∧ c ≤ 255 ∧ d ≤ 255 ∧
      inetNtoa m = utoa a ++ 46 :: (utoa b ++ 46 :: (utoa c ++ 46 :: utoa d)) :=
  ⟨m / 2 ^ 24 % 256, m / 2 ^ 16 % 256, m / 2 ^ 8 % 256, m % 256,
    by omega, by omega, by omega, by omega, by simp [inetNtoa]⟩

/-! ### what the scanners consume -/

theorem of_mem_takeWhile {p : Nat → Bool} {l : List Nat} {c : Nat} (h : c ∈ l.takeWhile p) : p c = true := by
  induction l with
  | nil => simp at h
  | cons x xs ih =>
    simp only [List.takeWhile_cons] at h
    split at h
    · rcases List.mem_cons.mp h with rfl | h
      · assumption
      · exact ih h
    · simp at h

theorem drop_length_takeWhile (p : Nat → Bool) (l : List Nat) :
    l.drop (l.takeWhile p).length = l.dropWhile p := by
  induction l with
  | nil => simp
  | cons x xs ih =>
    simp only [List.takeWhile_cons, List.dropWhile_cons]
    split <;> simp [*]

theorem eq_append_drop_of_prefix {f s : List Nat} (h : f <+: s) : s = f ++ s.drop f.length := by
  obtain ⟨t, rfl⟩ := h; simp

theorem scanSet_some {s f r : List Nat} (h : scanSet s = some (f, r)) :
    s = f ++ r ∧ f ≠ [] ∧ f.length ≤ 64 ∧ ∀ c ∈ f, c ≠ 45 := by
  unfold scanSet at h
  simp only [] at h
  split at h
  · exact absurd h (by simp)
  rename_i hne
  simp only [Option.some.injEq, Prod.mk.injEq] at h
  obtain ⟨rfl, rfl⟩ := h
  refine ⟨?_, ?_, ?_, ?_⟩
  · exact eq_append_drop_of_prefix ((List.take_prefix _ _).trans (List.takeWhile_prefix _))
  · intro h0; exact hne (by rw [h0]; rfl)
  · simp [List.length_take]; omega
  · intro c hc
    have := of_mem_takeWhile (List.mem_of_mem_take hc)
    simpa using this

theorem dropWhile_head (p : Nat → Bool) (l : List Nat) :
    l.dropWhile p = [] ∨ ∃ x t, l.dropWhile p = x :: t ∧ p x = false := by
  induction l with
  | nil => simp
  | cons x xs ih =>
    simp only [List.dropWhile_cons]
    split
    · exact ih
    · rename_i h; exact Or.inr ⟨x, xs, rfl, by simpa using h⟩

theorem scanDash_some {s r : List Nat} (h : scanDash s = some r) : s = 45 :: r := by
  unfold scanDash at h
  split at h
  · simpa using congrArg (45 :: ·) (Option.some.inj h)
  · exact absurd h (by simp)

theorem scanSign_eq (s : List Nat) :
    ∃ sg, (sg = [] ∨ sg = [43] ∨ sg = [45]) ∧ s = sg ++ (scanSign s).2 ∧ (scanSign s).1 = decide (sg = [45]) := by
  unfold scanSign
  split
  · exact ⟨[45], by simp, by simp, by simp⟩
  · exact ⟨[43], by simp, by simp, by simp⟩
  · exact ⟨[], by simp, by simp, by simp⟩

theorem scanInt_some {s r : List Nat} {v : Int} (h : scanInt s = some (v, r)) :
    ∃ ws sg ds, s = ws ++ (sg ++ (ds ++ r)) ∧ (∀ c ∈ ws, isSpace c = true) ∧
      (sg = [] ∨ sg = [43] ∨ sg = [45]) ∧ ds ≠ [] ∧ (∀ c ∈ ds, isDigit c = true) ∧
      v = toInt32 (strtolSat (decide (sg = [45])) (digitsVal ds)) := by
  unfold scanInt at h
  simp only [] at h
  obtain ⟨sg, hsg, hs1, hneg⟩ := scanSign_eq (s.dropWhile isSpace)
  generalize hss : scanSign (s.dropWhile isSpace) = ss at h hs1 hneg
  obtain ⟨neg, s2⟩ := ss
  simp only [] at h hs1 hneg
  split at h
  · exact absurd h (by simp)
  rename_i hne
  simp only [Option.some.injEq, Prod.mk.injEq] at h
  obtain ⟨hv, hr⟩ := h
  refine ⟨s.takeWhile isSpace, sg, s2.takeWhile isDigit, ?_, ?_, hsg, ?_, ?_, ?_⟩
  · rw [← hr, drop_length_takeWhile, List.takeWhile_append_dropWhile, ← hs1,
      List.takeWhile_append_dropWhile]
  · intro c hc; exact of_mem_takeWhile hc
  · intro h0; exact hne (by rw [h0]; rfl)
  · intro c hc; exact of_mem_takeWhile hc
  · rw [← hv, hneg]

theorem scanLogin_some {s : List Nat} {l : Login} (h : scanLogin s = some l) :
    ∃ mtuR maskR r3 r4 tail, s = l.server ++ 45 :: (l.client ++ 45 :: r3) ∧
      scanSet s = some (l.server, 45 :: (l.client ++ 45 :: r3)) ∧
      scanSet (l.client ++ 45 :: r3) = some (l.client, 45 :: r3) ∧
      scanInt r3 = some (l.mtu, 45 :: r4) ∧ scanInt r4 = some (l.netmask, tail) ∧
      mtuR = r3 ∧ maskR = r4 := by
  unfold scanLogin at h
  split at h; · exact absurd h (by simp)
  rename_i server r1 h1
  split at h; · exact absurd h (by simp)
  rename_i r2 h2
  split at h; · exact absurd h (by simp)
  rename_i client r3 h3
  split at h; · exact absurd h (by simp)
  rename_i r4 h4
  split at h; · exact absurd h (by simp)
  rename_i mtu r5 h5
  split at h; · exact absurd h (by simp)
  rename_i r6 h6
  split at h; · exact absurd h (by simp)
  rename_i netmask tail h7
  have hl := Option.some.inj h
  subst hl
  have e2 := scanDash_some h2
  have e4 := scanDash_some h4
  have e6 := scanDash_some h6
  subst e2 e4 e6
  have e1 := (scanSet_some h1).1
  have e3 := (scanSet_some h3).1
  subst e3
  exact ⟨r4, r6, r4, r6, tail, e1, h1, h3, h5, h7, rfl, rfl⟩

/-! ### the command builders -/

theorem tunSetip_cases (dev ip other : List Nat) (nb sysret : Int) :
    tunSetip dev ip other nb sysret = ([], 1) ∨
    (0 ≤ nb ∧ nb ≤ 32 ∧ inetPton4 ip = true ∧ inetPton4 other = true ∧
      tunSetip dev ip other nb sysret =
        ([snprintf512 (ifconfig ++ dev ++ 32 :: ip ++ 32 :: ip ++ sNetmask ++ inetNtoa (maskOf nb.toNat))], sysret)) := by
  unfold tunSetip
  split
  · exact Or.inl rfl
  rename_i hnb
  split
  · exact Or.inl rfl
  rename_i hip
  split
  · exact Or.inl rfl
  rename_i hot
  refine Or.inr ⟨by omega, by omega, by simpa using hip, by simpa using hot, rfl⟩

theorem tunSetmtu_cases (dev : List Nat) (mtu sysret : Int) :
    tunSetmtu dev mtu sysret = ([], 1) ∨
    (200 < (mtu % 2 ^ 32).toNat ∧ (mtu % 2 ^ 32).toNat ≤ 1500 ∧
      tunSetmtu dev mtu sysret = ([snprintf512 (ifconfig ++ dev ++ sMtu ++ utoa (mtu % 2 ^ 32).toNat)], sysret)) := by
  unfold tunSetmtu
  simp only []
  split
  · rename_i h; exact Or.inr ⟨h.1, h.2, rfl⟩
  · exact Or.inl rfl

/-- The ways one reply can end. -/
theorem loginStep_cases (dev reply : List Nat) (sysret : Int) :
    ((loginStep dev reply sysret).commands = [] ∧ (loginStep dev reply sysret).result ≠ .ok) ∨
    ∃ l, scanLogin (cstr reply) = some l ∧ reply ≠ [] ∧
      inetPton4 l.client = true ∧ inetPton4 l.server = true ∧ 0 ≤ l.netmask ∧ l.netmask ≤ 32 ∧
      let ipcmd := snprintf512 (ifconfig ++ dev ++ 32 :: l.client ++ 32 :: l.client ++ sNetmask ++ inetNtoa (maskOf l.netmask.toNat))
      ((loginStep dev reply sysret = ⟨[ipcmd], .errx⟩) ∨
       (sysret = 0 ∧ 200 < (l.mtu % 2 ^ 32).toNat ∧ (l.mtu % 2 ^ 32).toNat ≤ 1500 ∧
        loginStep dev reply sysret =
          ⟨[ipcmd, snprintf512 (ifconfig ++ dev ++ sMtu ++ utoa (l.mtu % 2 ^ 32).toNat)], .ok⟩)) := by
  unfold loginStep
  split
  · exact Or.inl ⟨rfl, by simp⟩
  rename_i hne
  simp only []
  split
  · exact Or.inl ⟨rfl, by simp⟩
  split
  · exact Or.inl ⟨rfl, by simp⟩
  split
  · exact Or.inl ⟨rfl, by simp⟩
  rename_i l hl
  rcases tunSetip_cases dev l.client l.server l.netmask sysret with hip | ⟨h0, h32, hc, hs, hip⟩
  · rw [hip]; simp
  · rw [hip]
    simp only []
    refine Or.inr ⟨l, hl, by intro h; simp [h] at hne, hc, hs, h0, h32, ?_⟩
    split
    · rename_i hz
      rcases tunSetmtu_cases dev l.mtu sysret with hm | ⟨hlo, hhi, hm⟩
      · rw [hm]; left; simp
      · rw [hm]; right
        refine ⟨hz, hlo, hhi, ?_⟩
        simp [hz]
    · left; rfl

end Iodine.Client.Shell
