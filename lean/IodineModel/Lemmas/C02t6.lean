import IodineModel.Lemmas.C02t5
/-
TESTS, part 6 — the sequence-number window (finding c02:seqno-window): the client's number 6 ahead of the server's (what six
give-ups in a row leave behind, `test_giveup_up_1`); on the clean path the next two packets are lost (the second one
silently: the server's own numbers look like its acknowledgement), the third arrives.
-/
namespace Iodine.C02L
open Iodine Iodine.World

theorem test_desync_up_6 :
    (offerAllC 0 20 (shiftUp (demoImmediate .b32 .b32) 6) [demoFrame 9 4, demoFrame 9 5, demoFrame 9 6]).tunS = [demoFrame 9 6] := by
  decide +kernel

end Iodine.C02L
