import IodineModel.Lemmas.C02v10
import IodineModel.Lemmas.C02rA3
/-
C02 phase 3, sub-package "lift" (4): the two server iterations of a ONE-FRAGMENT upstream packet in immediate mode, WITHOUT the
freshness invariant.  Copies of `srv_recv_last` and `srv_tick_ack` (C02v6, not edited) under new names:
* `srv_recv_last_rA` assumes only what `srv_recv_last` really uses of `Aged … 1`: `Fresh P x k 1` — no remembered data query of
  the session carries the data-CMC character of the query that arrives;
* `srv_tick_ack_rA` assumes nothing about the memories and says what happens to them: the slot's memories after the sweep are
  those of `cacheUpd (qmemUpd x0 Q) Q ans` (`MemEq`), so that `AgedTo.memo`, `PAgedTo.memo_data`, `Fresh.memo` apply.
-/
namespace Iodine.C02L
open Iodine Iodine.Gen Iodine.Server Iodine.World

/-- the last (here: only) fragment of an upstream packet arrives; its data-CMC character is not remembered -/
theorem srv_recv_last_rA {P : Par} (hP : P.Ok) {s : Srv} (hS : SStat P s) (hi : IdleImm (getUser s P.u)) {k : Nat}
    (hk : k < 36) (hf : Fresh P (getUser s P.u) k (0 + 1))
    {Q : Query} {sq fr : Nat} {dsq dfr : Int} {frame : List Nat} {o m : Nat}
    (hQ : UpQ P Q ⟨sq, fr, dsq, dfr, true⟩ k (((0x5a :: frame).drop o).take m))
    (hE : Expect (getUser s P.u) (0x5a :: frame) sq o fr) (hsq : sq < 8) (hfr : fr < 16)
    (hm : o + m = (0x5a :: frame).length) (h64 : (0x5a :: frame).length ≤ 65536) (h24 : 24 ≤ frame.length)
    (hdst : ipDst frame ≠ (getUser s P.u).tunIp) :
    ∃ s' evs t, iteration s (.q Q) s.now = (s', evs, t) ∧ downOfEvents evs = [] ∧
      tunOfSEvents evs = [[0, 0, 8, 0] ++ frame.drop 4] ∧ AfterLast P s s' Q sq fr := by
  obtain ⟨dlen, hdl, h6, hparse, hpl⟩ := hQ.parse
  have htop := topSess_live hS
  have hu := hS.solo.lt
  generalize hx0 : ({ getUser s P.u with qsNew := false } : Session) = x0 at htop
  have hx0s : XStat P x0 := by subst hx0; exact ⟨hS.x.active, hS.x.auth, hS.x.enabled, hS.x.conn, hS.x.enc, hS.x.oseq, hS.x.ofrag, hS.x.iseq, hS.x.ifrag⟩
  have hx0i : IdleImm x0 := by subst hx0; exact ⟨hi.out, hi.q, hi.qs, hi.lazy⟩
  have hx0f : Fresh P x0 k (0 + 1) := by subst hx0; exact ⟨hf.cache, hf.qmem⟩
  have hx0e : Expect x0 (0x5a :: frame) sq o fr := by subst hx0; exact hE
  have hx0o : x0.outpacket = (getUser s P.u).outpacket := by subst hx0; rfl
  have hx0h : x0.host = (getUser s P.u).host := by subst hx0; rfl
  have hx0t : x0.tunIp = (getUser s P.u).tunIp := by subst hx0; rfl
  have hx0g : x0.fragsize = (getUser s P.u).fragsize := by subst hx0; rfl
  have hx0c : x0.dnscache = (getUser s P.u).dnscache := by subst hx0; rfl
  have hx0m : x0.qmemdata = (getUser s P.u).qmemdata := by subst hx0; rfl
  obtain ⟨I, hup, hI⟩ := accept_of_expect hx0e hx0s.iseq
  obtain ⟨e1, e2, e3, e4, e5, _⟩ := expect_stored hP (sq := sq) (f := fr) hx0s.enc _ hpl hI (Nat.le_of_eq hm) h64
  generalize hst : stored x0 I ((Q.name.take (min dlen 512)).drop 5) = st at e1 e2 e3 e4 e5
  have hstc : core st = core { x0 with inpacket := st.inpacket } := by
    subst hst; unfold stored dataStore; rfl
  have hun : uncompress (st.inpacket.data.take st.inpacket.len) 65536 = some frame := by
    rw [e5, e4, hm, List.take_take, Nat.min_self, List.take_length]
    exact uncompress_compress frame (by simp at h64; omega)
  have hit := iteration_data hS.solo Q s.now dlen hP.hu (by rw [hS.td]; exact hdl) h6 hQ.c0 (hQ.ty ▸ hP.tty) hQ.id
    (admitted_entry hS Q hQ.from_)
    (by rw [htop]; exact hx0f.cacheMiss Q hQ.ty hQ.c0 hQ.c4 hk)
    (by rw [htop]; exact hx0f.qmemMiss Q hQ.ty hQ.c4 hk)
    (by rw [htop]; exact Or.inl hx0i.q) (by rw [htop]; exact Or.inl hx0i.qs)
    (by
      rw [htop, hparse]
      intro _
      rw [dataASess_accept x0 _ _ I hx0i.out hup, hst]
      intro ⟨out', h1, _, _, _, _, _, h7⟩
      rw [hun] at h1
      have : out' = frame := (Option.some.inj h1).symm
      subst this
      have : st.tunIp = x0.tunIp := by have h9 := core_tunIp hstc; exact h9
      rw [this, hx0t] at h7
      exact hdst h7)
  rw [htop, hparse, dataSess_imm_last x0 P.u Q _ _ s.now I hx0i rfl hup, hst] at hit
  simp only at hit
  have hfe : fullEvs st = [writeTun frame] := by
    unfold fullEvs
    rw [hun]
    simp only
    rw [if_pos (by omega)]
  generalize hY : parkQ (saveQ (fullSess st) Q s.now) = Y at hit
  have hYc : core Y = core { x0 with
      inpacket := { st.inpacket with len := 0, offset := 0 }, qs := Q, qsNew := true, q := { Q with id := 0 }, lastPkt := s.now } := by
    subst hY
    have := hstc
    unfold core at this ⊢
    unfold parkQ saveQ fullSess
    simp only [Session.mk.injEq] at this ⊢
    simp [this]
  have fA : Y.active = x0.active := by have h9 := core_active hYc; exact h9
  have fB : Y.authenticated = x0.authenticated := by have h9 := core_authenticated hYc; exact h9
  have fC : Y.disabled = x0.disabled := by have h9 := core_disabled hYc; exact h9
  have fD : Y.conn = x0.conn := by have h9 := core_conn hYc; exact h9
  have fE : Y.encoder = x0.encoder := by have h9 := core_encoder hYc; exact h9
  have fF : Y.outpacket = x0.outpacket := by have h9 := core_outpacket hYc; exact h9
  have fG : Y.inpacket = { st.inpacket with len := 0, offset := 0 } := by have h9 := core_inpacket hYc; exact h9
  have fH : Y.q = { Q with id := 0 } := by have h9 := core_q hYc; exact h9
  have fI : Y.qs = Q := by have h9 := core_qs hYc; exact h9
  have fJ : Y.lazy = x0.lazy := by have h9 := core_lazy hYc; exact h9
  have fK : Y.host = x0.host := by have h9 := core_host hYc; exact h9
  have fL : Y.lastPkt = s.now := by have h9 := core_lastPkt hYc; exact h9
  have fM : Y.qsNew = true := by have h9 := core_qsNew hYc; exact h9
  have fN : Y.dnscache = x0.dnscache := by subst hY; subst hst; rfl
  have fO : Y.qmemdata = x0.qmemdata := by subst hY; subst hst; rfl
  have fN2 : Y.dcLast = x0.dcLast := by subst hY; subst hst; rfl
  have fO2 : Y.qmemdataLast = x0.qmemdataLast := by subst hY; subst hst; rfl
  have fP : Y.qmemping = x0.qmemping := by subst hY; subst hst; rfl
  have fP2 : Y.qmempingLast = x0.qmempingLast := by subst hY; subst hst; rfl
  have fQ : Y.oqFilled = x0.oqFilled := by have h9 := core_oqFilled hYc; exact h9
  have fT : Y.tunIp = x0.tunIp := by have h9 := core_tunIp hYc; exact h9
  have fGz : Y.fragsize = x0.fragsize := by have h9 := core_fragsize hYc; exact h9
  have hx0q : x0.oqFilled = (getUser s P.u).oqFilled := by subst hx0; rfl
  have hsw : sweepSess Y P.u s.now = (Y, []) := by
    unfold sweepSess
    rw [if_neg (by intro hc; have := hc.2.2.2; rw [fM] at this; simp at this)]
  rw [hsw, hfe] at hit
  dsimp only at hit
  have hg : getUser { putUser s P.u Y with now := s.now } P.u = Y := by
    rw [getUser_withNow, getUser_putUser_self _ _ _ hu]
  refine ⟨_, _, _, hit, ?_, ?_, ?_⟩
  · rfl
  · rfl
  · refine ⟨?_, ?_, ?_, ?_, ?_, ?_, ?_, ?_, ?_, ?_, rfl, ?_, ?_, ?_, ?_, ?_, ?_⟩
    · refine ⟨(hS.solo.putUser Y).withNow _, hS.td, ?_, ?_, ?_⟩
      · rw [hg]
        refine ⟨fA ▸ hx0s.active, fB ▸ hx0s.auth, fC ▸ hx0s.enabled, fD ▸ hx0s.conn, fE ▸ hx0s.enc, fF ▸ hx0s.oseq, fF ▸ hx0s.ofrag, ?_, ?_⟩
        · rw [fG]; show 0 ≤ st.inpacket.seqno ∧ st.inpacket.seqno < 8; rw [e1]; omega
        · rw [fG]; show 0 ≤ st.inpacket.fragment ∧ st.inpacket.fragment < 16; rw [e2]; omega
      · rw [hg, fK, hx0h]; exact hS.host
      · rw [hg, fL]; show s.now < s.now + 60; omega
    · rw [hg, fH]
    · rw [hg, fI]
    · rw [hg, fJ]; exact hx0i.lazy
    · rw [hg, fF, hx0o]
    · rw [hg, fQ, hx0q]
    · rw [hg, fT, hx0t]
    · rw [hg, fGz, hx0g]
    · rw [hg, fG]; exact e1
    · rw [hg, fG]; exact e2
    · rw [hg, fN, hx0c]
    · rw [hg, fO, hx0m]
    · rw [hg, fN2]; subst hx0; rfl
    · rw [hg, fO2]; subst hx0; rfl
    · rw [hg, fP]; subst hx0; rfl
    · rw [hg, fP2]; subst hx0; rfl


/-- the sweep answers the parked query of the last fragment with a dataless packet, whatever the duplicate memories hold;
the query and its answer are remembered (`save_to_qmem_pingordata`, `save_to_dnscache`) -/
theorem srv_tick_ack_rA {P : Par} {s : Srv} (hS : SStat P s) {Q : Query}
    (hq : (getUser s P.u).q.id = 0) (hqs : (getUser s P.u).qs = Q) (hlz : (getUser s P.u).lazy = false)
    (hout : (getUser s P.u).outpacket.len = 0)
    (hfrom : Q.from_ = clientAddr) (hid : Q.id ≠ 0) (hid2 : Q.id2 = 0) :
    ∃ s' evs tunsel, iteration s .tick s.now = (s', evs, (20000, tunsel)) ∧
      downOfEvents evs = [.ans Q.id Q.type Q.name (scPkt (getUser s P.u) 0)] ∧ tunOfSEvents evs = [] ∧
      SStat P s' ∧ IdleImm (getUser s' P.u) ∧
      (∃ x0 : Session, MemEq x0 (getUser s P.u) ∧ MemEq (getUser s' P.u) (cacheUpd (qmemUpd x0 Q) Q (scPkt x0 0))) ∧
      (getUser s' P.u).inpacket = (getUser s P.u).inpacket ∧ (getUser s' P.u).outpacket = (getUser s P.u).outpacket ∧
      (getUser s' P.u).oqFilled = (getUser s P.u).oqFilled ∧ (getUser s' P.u).tunIp = (getUser s P.u).tunIp ∧
      (getUser s' P.u).fragsize = (getUser s P.u).fragsize ∧ s'.now = s.now := by
  have htop := topSess_live hS
  have hu := hS.solo.lt
  have hit := iteration_tick hS.solo s.now
  have hto : (topOfLoop s).2.1 = 20000 := by
    rw [topOfLoop_timeout hS.solo]
    have : live (getUser s P.u) s.now = true := by simp [live, hS.x.active, hS.x.enabled, hS.live]
    rw [if_pos ⟨this, by rw [hqs]; exact hid⟩]
  rw [hto, htop] at hit
  generalize hx0 : ({ getUser s P.u with qsNew := false } : Session) = x0 at hit
  have hlive : live x0 s.now = true := by subst hx0; simp [live, hS.x.active, hS.x.enabled, hS.live]
  have hx0qs : x0.qs = Q := by subst hx0; exact hqs
  have hx0out : x0.outpacket = (getUser s P.u).outpacket := by subst hx0; rfl
  have hx0in : x0.inpacket = (getUser s P.u).inpacket := by subst hx0; rfl
  have hsw : sweepSess x0 P.u s.now =
      ({ cacheUpd (qmemUpd x0 Q) Q (scPkt x0 0) with qs := { Q with id := 0 } }, [writeDns Q (scPkt x0 0) x0.downenc (.chunk P.u)]) := by
    unfold sweepSess
    rw [if_pos ⟨hlive, by rw [hx0qs]; exact hid, by subst hx0; exact hS.x.conn, by subst hx0; rfl⟩]
    rw [scSess_dataless x0 P.u .qs (by rw [hx0out]; exact hout) (by show x0.qs.id2 = 0; rw [hx0qs]; exact hid2)]
    simp only [QSel.get, QSel.set, hx0qs]
  rw [hsw] at hit
  dsimp only at hit
  generalize hY : ({ cacheUpd (qmemUpd x0 Q) Q (scPkt x0 0) with qs := { Q with id := 0 } } : Session) = Y at hit
  have hYc : core Y = core { x0 with qs := { Q with id := 0 } } := by
    subst hY
    have := core_memo x0 Q (scPkt x0 0)
    unfold core at this ⊢
    simp only [Session.mk.injEq] at this ⊢
    simp [this]
  have hg : getUser { putUser s P.u Y with now := s.now } P.u = Y := by
    rw [getUser_withNow, getUser_putUser_self _ _ _ hu]
  have hpk : scPkt x0 0 = scPkt (getUser s P.u) 0 := by subst hx0; rfl
  have fA : Y.active = x0.active := by have h9 := core_active hYc; exact h9
  have fB : Y.authenticated = x0.authenticated := by have h9 := core_authenticated hYc; exact h9
  have fC : Y.disabled = x0.disabled := by have h9 := core_disabled hYc; exact h9
  have fD : Y.conn = x0.conn := by have h9 := core_conn hYc; exact h9
  have fE : Y.encoder = x0.encoder := by have h9 := core_encoder hYc; exact h9
  have fF : Y.outpacket = x0.outpacket := by have h9 := core_outpacket hYc; exact h9
  have fG : Y.inpacket = x0.inpacket := by have h9 := core_inpacket hYc; exact h9
  have fH : Y.q = x0.q := by have h9 := core_q hYc; exact h9
  have fI : Y.qs = { Q with id := 0 } := by have h9 := core_qs hYc; exact h9
  have fJ : Y.lazy = x0.lazy := by have h9 := core_lazy hYc; exact h9
  have fK : Y.host = x0.host := by have h9 := core_host hYc; exact h9
  have fL : Y.lastPkt = x0.lastPkt := by have h9 := core_lastPkt hYc; exact h9
  have fQ : Y.oqFilled = x0.oqFilled := by have h9 := core_oqFilled hYc; exact h9
  have fT : Y.tunIp = x0.tunIp := by have h9 := core_tunIp hYc; exact h9
  have fGz : Y.fragsize = x0.fragsize := by have h9 := core_fragsize hYc; exact h9
  refine ⟨_, _, _, hit, ?_, ?_, ?_, ?_, ?_, ?_, ?_, ?_, ?_, ?_, rfl⟩
  · simp only [downOfEvents_append, downOfEvents_sweep, downOfEvents_writeDns _ _ _ _ hfrom, List.nil_append, hpk]
  · simp only [tunOfSEvents_append, tunOfSEvents_writeDns, tunOfSEvents_sweep, List.append_nil]
  · refine ⟨(hS.solo.putUser Y).withNow _, hS.td, ?_, ?_, ?_⟩
    · rw [hg]
      subst hx0
      exact ⟨fA ▸ hS.x.active, fB ▸ hS.x.auth, fC ▸ hS.x.enabled, fD ▸ hS.x.conn, fE ▸ hS.x.enc, fF ▸ hS.x.oseq, fF ▸ hS.x.ofrag,
        fG ▸ hS.x.iseq, fG ▸ hS.x.ifrag⟩
    · rw [hg, fK]; subst hx0; exact hS.host
    · rw [hg, fL]; subst hx0; exact hS.live
  · rw [hg]
    refine ⟨?_, ?_, ?_, ?_⟩
    · rw [fF, hx0out]; exact hout
    · rw [fH]; subst hx0; exact hq
    · rw [fI]
    · rw [fJ]; subst hx0; exact hlz
  · rw [hg]
    subst hY
    refine ⟨x0, ?_, ⟨rfl, rfl, rfl, rfl, rfl, rfl⟩⟩
    subst hx0
    exact ⟨rfl, rfl, rfl, rfl, rfl, rfl⟩
  · rw [hg, fG, hx0in]
  · rw [hg, fF, hx0out]
  · rw [hg, fQ]; subst hx0; rfl
  · rw [hg, fT]; subst hx0; rfl
  · rw [hg, fGz]; subst hx0; rfl


end Iodine.C02L
