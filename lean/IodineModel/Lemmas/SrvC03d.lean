import IodineModel.Lemmas.SrvC03c
/-
Helper lemmas for property C03, part d: `handleNullRequest`, `tunnelDns`, the raw handlers, `dispatch`.
-/
namespace Iodine.C03L
open Iodine Iodine.Server Iodine.Gen

theorem outcome_handleNullRequest (s : Srv) (q : Query) (dlen : Nat)
    (hd : Common.queryDatalen q.name s.cfg.topdomain = some dlen) :
    Outcome s (.q q) (handleNullRequest s q dlen) := by
  unfold handleNullRequest
  by_cases h2 : dlen < 2
  · rw [if_pos h2]; exact Outcome.quiet (QuietH.refl_nil s)
  · rw [if_neg h2]
    have h2 : 2 ≤ dlen := by omega
    have h0 : (q.name.take (min dlen 512)).getD 0 0 = q.name.getD 0 0 := getD_take_zero _ _ (by omega)
    simp only []
    rw [h0]
    by_cases hc : q.name.getD 0 0 = 86 ∨ q.name.getD 0 0 = 118
    · rw [if_pos hc]
      apply outcome_handleVersion
      rcases hc with hc | hc
      · exact Or.inl ⟨dlen, hd, h2, hc⟩
      · exact Or.inr ⟨dlen, hd, h2, hc⟩
    rw [if_neg hc]
    clear hc
    by_cases hc : q.name.getD 0 0 = 76 ∨ q.name.getD 0 0 = 108
    · rw [if_pos hc]; exact outcome_handleLogin s q dlen hd h2 hc
    rw [if_neg hc]
    clear hc
    by_cases hc : q.name.getD 0 0 = 73 ∨ q.name.getD 0 0 = 105
    · rw [if_pos hc]; exact outcome_handleIp s q dlen hd h2 hc
    rw [if_neg hc]
    clear hc
    by_cases hc : q.name.getD 0 0 = 90 ∨ q.name.getD 0 0 = 122
    · rw [if_pos hc]; exact outcome_handleZ s q dlen hc
    rw [if_neg hc]
    clear hc
    by_cases hc : q.name.getD 0 0 = 83 ∨ q.name.getD 0 0 = 115
    · rw [if_pos hc]; exact outcome_handleSwitchCodec s q dlen hd h2 hc
    rw [if_neg hc]
    clear hc
    by_cases hc : q.name.getD 0 0 = 79 ∨ q.name.getD 0 0 = 111
    · rw [if_pos hc]; exact outcome_handleOptions s q dlen hd h2 hc
    rw [if_neg hc]
    clear hc
    by_cases hc : q.name.getD 0 0 = 89 ∨ q.name.getD 0 0 = 121
    · rw [if_pos hc]; exact outcome_handleDownCodecCheck s q dlen hc
    rw [if_neg hc]
    clear hc
    by_cases hc : q.name.getD 0 0 = 82 ∨ q.name.getD 0 0 = 114
    · rw [if_pos hc]; exact outcome_handleFragsizeProbe s q dlen hd h2 hc
    rw [if_neg hc]
    clear hc
    by_cases hc : q.name.getD 0 0 = 78 ∨ q.name.getD 0 0 = 110
    · rw [if_pos hc]; exact outcome_handleSetFragsize s q dlen hd h2 hc
    rw [if_neg hc]
    clear hc
    by_cases hc : q.name.getD 0 0 = 80 ∨ q.name.getD 0 0 = 112
    · rw [if_pos hc]; exact outcome_handlePing s q dlen hd h2 hc
    rw [if_neg hc]
    clear hc
    by_cases hc : isHexDigit (q.name.getD 0 0) = true
    · rw [if_pos hc]; exact outcome_handleData s q dlen hd h2 hc
    · rw [if_neg hc]; exact Outcome.quiet (QuietH.refl_nil s)

theorem quiet_of_harmless_same (s : Srv) (evs : List Event) (h : ∀ e ∈ evs, Harmless e) : Quiet s (s, evs) :=
  ⟨rfl, MLe.refl s, h⟩

theorem quiet_handleARequest (s : Srv) (q : Query) (b : Bool) : QuietH s (handleARequest s q b) := by
  unfold handleARequest
  simp only []
  generalize (if b = true then ({ fam := 4, ip := 2130706433, port := q.dest.port } : Addr)
    else if s.cfg.nsIp ≠ 0 then { fam := 4, ip := s.cfg.nsIp, port := q.dest.port } else q.dest) = dest
  split
  · exact QuietH.refl_nil s
  · exact quietH_answer s _ (by unfold Harmless; trivial) (by unfold NoChunk; trivial)

theorem quiet_handleNsRequest (s : Srv) (q : Query) (n : Nat) : QuietH s (handleNsRequest s q n) := by
  unfold handleNsRequest
  split
  · exact QuietH.refl_nil s
  · exact quietH_answer s _ (by unfold Harmless; trivial) (by unfold NoChunk; trivial)

theorem quiet_forwardQuery (s : Srv) (q : Query) : QuietH s (forwardQuery s q) := by
  unfold forwardQuery
  refine ⟨⟨rfl, fun v => Nat.le_refl _, ?_⟩, ?_⟩
  · intro e he
    simp only [List.mem_cons, List.not_mem_nil, or_false] at he
    subst he; simp [Harmless]
  · intro e he
    simp only [List.mem_cons, List.not_mem_nil, or_false] at he
    subst he; simp [NoChunk]

theorem outcome_tunnelDns (s : Srv) (q : Query) : Outcome s (.q q) (tunnelDns s q) := by
  unfold tunnelDns
  split
  · exact Outcome.quiet (QuietH.refl_nil s)
  · split
    · next dlen hd =>
      simp only []
      split
      · exact Outcome.quiet (quiet_handleARequest _ _ _)
      split
      · exact Outcome.quiet (quiet_handleARequest _ _ _)
      split
      · exact outcome_handleNullRequest s q dlen hd
      split
      · exact Outcome.quiet (quiet_handleNsRequest _ _ _)
      · exact Outcome.quiet (QuietH.refl_nil s)
    · split
      · exact Outcome.quiet (quiet_forwardQuery _ _)
      · exact Outcome.quiet (QuietH.refl_nil s)

theorem quiet_tunnelBind (s : Srv) (d : List Nat) : QuietH s (tunnelBind s d) := by
  unfold tunnelBind
  split
  · exact QuietH.refl_nil s
  · split
    · exact QuietH.refl_nil s
    · exact quietH_answer s _ (by unfold Harmless; trivial) (by unfold NoChunk; trivial)

/-! ### raw mode -/

theorem getD_take_three (l : List Nat) : (l.take 65536).getD 3 0 = l.getD 3 0 := by
  simp [List.getD_eq_getElem?_getD]

theorem rawcmd_bits : ∀ x, x < 16 → (16 ||| x) &&& 240 = 16 ∧ (32 ||| x) &&& 240 = 32 ∧ (48 ||| x) &&& 240 = 48 := by
  decide

theorem harmless_sendRaw (buf : List Nat) (n u cmd : Nat) (q : Query) (hcmd : cmd = 16 ∨ cmd = 48) :
    Harmless (sendRaw buf n u cmd q) := by
  unfold sendRaw Harmless
  simp only []
  have hx : u &&& 15 < 16 := Nat.lt_succ_of_le Nat.and_le_right
  have hb := rawcmd_bits (u &&& 15) hx
  have : (List.take 3 rawHeader ++ [cmd ||| u &&& 15] ++ List.take (min (4096 - RAW_HDR_LEN) n) buf).getD 3 0
      = cmd ||| u &&& 15 := by
    simp [rawHeader, List.getD_eq_getElem?_getD]
  rw [this]
  rcases hcmd with rfl | rfl
  · rw [hb.1]; decide
  · rw [hb.2.2]; decide

theorem outcome_handleRawLogin (s : Srv) (src : Addr) (bytes : List Nat) :
    Outcome s (.rawf src bytes) (handleRawLogin s ((bytes.take 65536).drop RAW_HDR_LEN) (rawQuery src)
      (bytes.getD 3 0 &&& RAW_HDR_USR_MASK)) := by
  unfold handleRawLogin
  generalize hu : bytes.getD 3 0 &&& RAW_HDR_USR_MASK = u
  split
  · exact Outcome.quiet (QuietH.refl_nil s)
  split
  · exact Outcome.quiet (QuietH.refl_nil s)
  next hlen hlt =>
  simp only []
  split
  · exact Outcome.quiet (QuietH.refl_nil s)
  next hact =>
  split
  · exact Outcome.quiet (QuietH.refl_nil s)
  next hauth =>
  split
  · exact Outcome.quiet (QuietH.refl_nil s)
  next hfresh =>
  split
  · next hhash =>
    have hact' : (getUser s u).active = true ∧ (getUser s u).disabled = false := by
      cases ha : (getUser s u).active <;> cases hb : (getUser s u).disabled <;> simp_all
    have hl : u < s.users.length := lt_length_of_active hact'.1
    refine Outcome.rawLogin src bytes u rfl ?_
    have hs1 : ¬ u ≥ usercount (setUser s u fun x => { x with lastPkt := s.now, q := rawQuery src, host := (rawQuery src).from_ }) := by
      simp [usercount]; exact hl
    refine ⟨hu.symm, hhash, by omega, hact'.1, hact'.2, by simpa using hauth, hfresh, ?_, ?_, ?_, ?_, ?_⟩
    · unfold userSetConnType
      rw [if_neg hs1]
      exact ⟨rfl, rfl, by simp⟩
    · intro v hv
      unfold userSetConnType
      rw [if_neg hs1]
      simp only []
      rw [getUser_setUser_ne _ _ hv, getUser_setUser_ne _ _ hv, getUser_setUser_ne _ _ hv]
    · unfold userSetConnType
      rw [if_neg hs1]
      simp only []
      rw [getUser_setUser_self _ _ (by simpa using hl), getUser_setUser_self _ _ (by simpa using hl),
        getUser_setUser_self _ _ hl]
      rfl
    · intro e he
      simp only [List.mem_cons, List.not_mem_nil, or_false] at he
      subst he
      exact harmless_sendRaw _ _ _ _ _ (Or.inl rfl)
    · intro e he
      simp only [List.mem_cons, List.not_mem_nil, or_false] at he
      subst he
      unfold sendRaw NoChunk; trivial
  · exact Outcome.quiet (QuietH.refl_nil s)

theorem outcome_handleRawData (s : Srv) (src : Addr) (bytes : List Nat) :
    Outcome s (.rawf src bytes) (handleRawData s ((bytes.take 65536).drop RAW_HDR_LEN) (rawQuery src)
      (bytes.getD 3 0 &&& RAW_HDR_USR_MASK)) := by
  unfold handleRawData
  split
  · exact Outcome.quiet (QuietH.refl_nil s)
  next hchk =>
  split
  · exact Outcome.quiet (QuietH.refl_nil s)
  next hraw =>
  refine Outcome.authedRaw src bytes _ rfl rfl ((Bool.not_eq_true _).mp hchk) (by simpa using hraw) ?_
  simp only []
  rw [view_handleFullPacket]
  apply view_setUser; intro x; rfl

theorem outcome_handleRawPing (s : Srv) (src : Addr) (bytes : List Nat) :
    Outcome s (.rawf src bytes) (handleRawPing s (rawQuery src) (bytes.getD 3 0 &&& RAW_HDR_USR_MASK)) := by
  unfold handleRawPing
  split
  · exact Outcome.quiet (QuietH.refl_nil s)
  split
  · exact Outcome.quiet (QuietH.refl_nil s)
  apply Outcome.quiet
  refine ⟨⟨?_, ?_, ?_⟩, ?_⟩
  · apply view_setUser; intro x; rfl
  · apply MLe.set; exact Nat.le_refl _
  · intro e he
    simp only [List.mem_cons, List.not_mem_nil, or_false] at he
    subst he
    exact harmless_sendRaw _ _ _ _ _ (Or.inr rfl)
  · intro e he
    simp only [List.mem_cons, List.not_mem_nil, or_false] at he
    subst he
    unfold sendRaw NoChunk; trivial

/-! ### tun input, dispatch -/

theorem events_sendWaiting (s : Srv) (u : Nat) : ∀ e ∈ (sendWaiting s u).2, Harmless e := by
  unfold sendWaiting
  simp only []
  split
  · exact fun e he => Harmless.of_chunkEv (chunkEv_sendChunkOrDataless _ _ _ e he)
  · split
    · exact fun e he => Harmless.of_chunkEv (chunkEv_sendChunkOrDataless _ _ _ e he)
    · intro e he; cases he

theorem events_tunnelTun (s : Srv) (f : List Nat) :
    ∀ e ∈ (tunnelTun s f).2, Harmless e ∨ ∃ d b, e = .raw d b := by
  unfold tunnelTun
  split
  · intro e he; cases he
  split
  · intro e he; cases he
  split
  · intro e he; cases he
  simp only []
  split
  · split
    · intro e he; cases he
    · exact fun e he => Or.inl (events_sendWaiting _ _ e he)
  · intro e he
    simp only [List.mem_cons, List.not_mem_nil, or_false] at he
    subst he
    exact Or.inr ⟨_, _, rfl⟩

theorem outcome_rawDecode (s : Srv) (src : Addr) (bytes : List Nat) (r : Res)
    (h : rawDecode s (bytes.take 65536) src = some r) : Outcome s (.rawf src bytes) r := by
  unfold rawDecode at h
  split at h
  · cases h
  split at h
  · cases h
  simp only [getD_take_three] at h
  split at h
  · cases h; exact outcome_handleRawLogin s src bytes
  split at h
  · cases h; exact outcome_handleRawData s src bytes
  split at h
  · cases h; exact outcome_handleRawPing s src bytes
  · cases h; exact Outcome.quiet (QuietH.refl_nil s)

theorem outcome_dispatch (s : Srv) (inp : Input) (tunsel : Bool) : Outcome s inp (dispatch s inp tunsel) := by
  unfold dispatch
  cases inp with
  | tick => exact Outcome.quiet (QuietH.refl_nil s)
  | tun frame =>
    simp only []
    split
    · exact Outcome.tunIn frame rfl (view_tunnelTun _ _) (events_tunnelTun _ _)
    · exact Outcome.quiet (QuietH.refl_nil s)
  | q q => exact outcome_tunnelDns s q
  | rawf src bytes =>
    simp only []
    cases h : rawDecode s (List.take 65536 bytes) src with
    | none => exact Outcome.quiet (QuietH.refl_nil s)
    | some r => exact outcome_rawDecode s src bytes r h
  | bind bytes =>
    simp only []
    split
    · exact Outcome.quiet (quiet_tunnelBind _ _)
    · exact Outcome.quiet (QuietH.refl_nil s)

end Iodine.C03L
