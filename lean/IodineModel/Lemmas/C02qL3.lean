import IodineModel.Lemmas.C02qL2
import IodineModel.Lemmas.C02M7
/-
C02 phase 2 / upstream, lazy mode, desynchronised — SERVER side, part 2: the ping the client sends when it gives a packet up
reaches a server that HOLDS a data query of the client.  The held query is answered at once (dataless) and remembered, the
ping is held.
-/
namespace Iodine.C02L
open Iodine Iodine.Gen Iodine.Server Iodine.World

/-- the ping handler on a slot that is idle downstream and holds one query: answer it, hold the ping -/
theorem pingSess_lazy_swap (x : Session) (u : Nat) (Q : Query) (a b : Int) (now : Nat) (hi : IdleLazy x) :
    pingSess x u Q a b now =
      (saveQ { cacheUpd (qmemUpd x x.q) x.q (scPkt x 0) with q := { x.q with id := 0 } } Q now,
       [writeDns x.q (scPkt x 0) x.downenc (.chunk u)]) := by
  obtain ⟨h1, h2, h2', h3, h4⟩ := hi
  have hack : ackSess x a b = x := by simp [ackSess, h1]
  have eA : pingASess x u a b = (x, []) := by
    unfold pingASess
    simp only [hack, h3, ne_eq, not_true_eq_false, if_false]
  have eB : pingBSess x u = ((scSess x u .q).1, !(scSess x u .q).2) := by
    unfold pingBSess
    rw [if_pos h2]
  unfold pingSess
  rw [eA]
  simp only
  rw [eB, scSess_dataless _ _ _ h1 (by simp [QSel.get, h2'])]
  simp only [QSel.get, QSel.set, Bool.not_false]
  generalize hY : ({ cacheUpd (qmemUpd x x.q) x.q (scPkt x 0) with q := { x.q with id := 0 } } : Session) = Y
  have hYc : core Y = core { x with q := { x.q with id := 0 } } := by
    subst hY
    have := core_memo x x.q (scPkt x 0)
    unfold core at this ⊢
    simp only [Session.mk.injEq] at this ⊢
    simp [this]
  have hYl : Y.lazy = true := by
    have := core_lazy hYc
    rw [this]; exact h4
  have eC : pingCSess Y u Q true now = (saveQ Y Q now, []) := by
    unfold pingCSess
    have h5 : (saveQ Y Q now).lazy = true := hYl
    simp [h5]
  rw [eC]
  simp

/-- the slot after the give-up ping was held -/
structure AfterSwapL (P : Par) (s s' : Srv) (Q : Query) (pkt : List Nat) : Prop where
  stat : SStat P s'
  idle : IdleLazy (getUser s' P.u)
  qeq : (getUser s' P.u).q = Q
  inp : (getUser s' P.u).inpacket = (getUser s P.u).inpacket
  outp : (getUser s' P.u).outpacket = (getUser s P.u).outpacket
  oq : (getUser s' P.u).oqFilled = (getUser s P.u).oqFilled
  tun : (getUser s' P.u).tunIp = (getUser s P.u).tunIp
  frag : (getUser s' P.u).fragsize = (getUser s P.u).fragsize
  now : s'.now = s.now
  pkt : ∃ y : Session, pkt = scPkt y 0 ∧ y.outpacket = (getUser s P.u).outpacket ∧ y.inpacket = (getUser s P.u).inpacket

/-- A ping (ping counter value `sd`) reaches the server in lazy mode while a DATA query `H` of the client is held and nothing
is to be sent downstream: `H` is answered with a dataless packet and remembered, the ping is held. -/
theorem srv_ping_lazy_swap {P : Par} (hP : P.Ok) {s : Srv} (hS : SStat P s) (hi : IdleLazy (getUser s P.u))
    (hB : HeldBase P (getUser s P.u).q) {k k0 sd : Nat}
    (hD : HeldData P (getUser s P.u).q k0) (hb : Behind 36 k k0 1)
    (hA : Aged P (getUser s P.u) k 2) (hPA : PAged P (getUser s P.u) sd 1)
    {Q : Query} {a b : Int} (hQ : PingQ P Q a b sd) :
    ∃ s' evs t pkt, iteration s (.q Q) s.now = (s', evs, t) ∧
      downOfEvents evs = [.ans (getUser s P.u).q.id (getUser s P.u).q.type (getUser s P.u).q.name pkt] ∧
      tunOfSEvents evs = [] ∧ AfterSwapL P s s' Q pkt ∧
      HeldMem P (getUser s' P.u) Q k ((sd + 1) % 65536) := by
  obtain ⟨dlen, hdl, h2, h4, huid, ha, hb', hc2, hc3⟩ := hQ.parse
  have htop := topSess_live hS
  have hu := hS.solo.lt
  generalize hx0 : ({ getUser s P.u with qsNew := false } : Session) = x0 at htop
  have hx0s : XStat P x0 := by subst hx0; exact ⟨hS.x.active, hS.x.auth, hS.x.enabled, hS.x.conn, hS.x.enc, hS.x.oseq, hS.x.ofrag, hS.x.iseq, hS.x.ifrag⟩
  have hx0i : IdleLazy x0 := by subst hx0; exact ⟨hi.out, hi.q, hi.q2, hi.qs, hi.lazy⟩
  have hx0H : x0.q = (getUser s P.u).q := by subst hx0; rfl
  have hx0A : Aged P x0 k 2 := by subst hx0; exact hA.congr rfl rfl rfl rfl
  have hx0P : PAged P x0 sd 1 := by subst hx0; exact hPA.congr rfl rfl rfl rfl
  have hx0o : x0.outpacket = (getUser s P.u).outpacket := by subst hx0; rfl
  have hx0in : x0.inpacket = (getUser s P.u).inpacket := by subst hx0; rfl
  have hx0h : x0.host = (getUser s P.u).host := by subst hx0; rfl
  have hx0q : x0.oqFilled = (getUser s P.u).oqFilled := by subst hx0; rfl
  have hx0t : x0.tunIp = (getUser s P.u).tunIp := by subst hx0; rfl
  rw [← hx0H] at hB hD ⊢
  have hne : x0.q.name ≠ Q.name := by
    intro he
    have h1 := hD.c0
    rw [he, hQ.c0] at h1
    exact (hexLower_ne_p hP.hu).2 h1.symm
  have hit := iteration_ping hS.solo Q s.now dlen (by rw [hS.td]; exact hdl) h2 hQ.c0 (hQ.ty ▸ hP.tty) hQ.id h4 huid
    (admitted_entry hS Q hQ.from_)
    (by rw [htop]; exact hx0P.cacheMiss hQ.sdlt (by omega) Q hQ.ty hQ.c0 hQ.seed)
    (by rw [htop]; exact hx0P.qmemMiss hQ.sdlt (by omega) Q hQ.ty _ hc2 hc3)
    (by rw [htop]; exact Or.inr hne) (by rw [htop]; exact Or.inl hx0i.qs)
  rw [htop, ha, hb', pingSess_lazy_swap x0 P.u Q a b s.now hx0i] at hit
  simp only at hit
  generalize hH : x0.q = H at hit hB hD
  -- the memories after `H` was remembered
  have hset : Aged P (cacheUpd (qmemUpd x0 H) H (scPkt x0 0)) k 1 ∧ PAged P (cacheUpd (qmemUpd x0 H) H (scPkt x0 0)) sd 1 :=
    HeldMem.settle hP.hu (Or.inl ⟨k0, hD, hb, hx0A, hx0P⟩) (scPkt x0 0) (scPkt0_len x0)
  generalize hY : (saveQ { cacheUpd (qmemUpd x0 H) H (scPkt x0 0) with q := { H with id := 0 } } Q s.now : Session) = Y at hit
  have hYM : HeldMem P Y Q k ((sd + 1) % 65536) := by
    subst hY
    right
    exact ⟨sd, ⟨hQ.sdlt, hQ.c0, hQ.fp, hQ.seed⟩, behind_next16 _ hQ.sdlt, hset.1.congr rfl rfl rfl rfl,
      (hset.2.step hQ.sdlt (by omega)).congr rfl rfl rfl rfl⟩
  have hYc : core Y = core { x0 with q := Q, lastPkt := s.now } := by
    subst hY
    have h1 := core_memo x0 H (scPkt x0 0)
    unfold core at h1 ⊢
    unfold saveQ
    simp only [Session.mk.injEq] at h1 ⊢
    simp [h1]
  have fA : Y.active = x0.active := by have := core_active hYc; exact this
  have fB : Y.authenticated = x0.authenticated := by have := core_authenticated hYc; exact this
  have fC : Y.disabled = x0.disabled := by have := core_disabled hYc; exact this
  have fD : Y.conn = x0.conn := by have := core_conn hYc; exact this
  have fE : Y.encoder = x0.encoder := by have := core_encoder hYc; exact this
  have fF : Y.outpacket = x0.outpacket := by have := core_outpacket hYc; exact this
  have fG : Y.inpacket = x0.inpacket := by have := core_inpacket hYc; exact this
  have fH : Y.q = Q := by have := core_q hYc; exact this
  have fI : Y.qs = x0.qs := by have := core_qs hYc; exact this
  have fJ : Y.lazy = x0.lazy := by have := core_lazy hYc; exact this
  have fK : Y.host = x0.host := by have := core_host hYc; exact this
  have fL : Y.lastPkt = s.now := by have := core_lastPkt hYc; exact this
  have fQ : Y.oqFilled = x0.oqFilled := by have := core_oqFilled hYc; exact this
  have fT : Y.tunIp = x0.tunIp := by have := core_tunIp hYc; exact this
  have hsw : sweepSess Y P.u s.now = (Y, []) := by
    unfold sweepSess
    rw [if_neg (by intro hc; apply hc.2.1; rw [fI]; exact hx0i.qs)]
  rw [hsw] at hit
  dsimp only at hit
  have hg : getUser { putUser s P.u Y with now := s.now } P.u = Y := by
    rw [getUser_withNow, getUser_putUser_self _ _ _ hu]
  refine ⟨_, _, _, scPkt x0 0, hit, ?_, ?_, ?_, ?_⟩
  · simp only [List.append_nil, downOfEvents_append, downOfEvents_sweep, downOfEvents_writeDns _ _ _ _ hB.from_]
  · simp only [List.append_nil, tunOfSEvents_append, tunOfSEvents_writeDns, tunOfSEvents_sweep]
  · refine ⟨?_, ?_, ?_, ?_, ?_, ?_, ?_, ?_, rfl, ?_⟩
    · refine ⟨(hS.solo.putUser Y).withNow _, hS.td, ?_, ?_, ?_⟩
      · rw [hg]
        exact ⟨fA ▸ hx0s.active, fB ▸ hx0s.auth, fC ▸ hx0s.enabled, fD ▸ hx0s.conn, fE ▸ hx0s.enc, fF ▸ hx0s.oseq, fF ▸ hx0s.ofrag,
          fG ▸ hx0s.iseq, fG ▸ hx0s.ifrag⟩
      · rw [hg, fK, hx0h]; exact hS.host
      · rw [hg, fL]; show s.now < s.now + 60; omega
    · rw [hg]
      exact ⟨fF ▸ hx0i.out, by rw [fH]; exact hQ.id, by rw [fH]; exact hQ.id2, fI ▸ hx0i.qs, fJ ▸ hx0i.lazy⟩
    · rw [hg]; exact fH
    · rw [hg, fG, hx0in]
    · rw [hg, fF, hx0o]
    · rw [hg, fQ, hx0q]
    · rw [hg, fT, hx0t]
    · rw [hg]
      have : Y.fragsize = x0.fragsize := by have h9 := core_fragsize hYc; exact h9
      rw [this]; subst hx0; rfl
    · exact ⟨x0, rfl, hx0o, hx0in⟩
  · rw [hg]; exact hYM

end Iodine.C02L
