import IodineModel.Lemmas.C11c
/-
C11, part e — the downstream codec check against Base128 and Raw (continuation of part d; separate file only
for build time).
-/
namespace Iodine.C11L
open Iodine Iodine.Gen Iodine.Codec Iodine.Encoding

theorem down_128 :
    (∀ f ∈ familyFns,
      namedec NAMEDEC_CAP ((txtText 86 DOWNCODECCHECK1).map f) = DOWNCODECCHECK1 → IdOn f cb128) ∧
    (∀ f ∈ familyFns,
      namedec NAMEDEC_CAP ((nameenc 86 DOWNCODECCHECK1 97 97).1.map f) = DOWNCODECCHECK1 → IdOn f cb128) := by
  rw [namedec_fast]; decide +kernel

/-- Raw (TXT only): the check passes only if the map is the identity on the bytes of the check string —
which are 36 of the 256 byte values. -/
theorem down_txt_raw : ∀ f ∈ familyFns,
    namedec NAMEDEC_CAP ((txtText 82 DOWNCODECCHECK1).map f) = DOWNCODECCHECK1 → IdOn f DOWNCODECCHECK1 := by
  decide +kernel

/-- without a relay the client decodes the check to the 48 bytes (the hypotheses above are satisfiable) -/
theorem down_clean_128 :
    namedec NAMEDEC_CAP (txtText 86 DOWNCODECCHECK1) = DOWNCODECCHECK1 ∧
    namedec NAMEDEC_CAP (nameenc 86 DOWNCODECCHECK1 97 97).1 = DOWNCODECCHECK1 := by
  rw [namedec_fast]; decide +kernel

end Iodine.C11L
