import IodineModel.Lemmas.C05N5
/-
Helper lemmas for C05 "established sessions continue", part 6: OWN steps.  The ping handler for userid `u`
(`handle_null_request` case 'P') reads and writes slot `u`, the clock and the configuration only, so on two states that
`Agree u` it produces the same events and states that `Agree u` again; the same for the whole handler phase of a DNS
query that `tunnel_dns` routes to the ping handler with userid `u`.  `Est` (the model-side copy of `C05.Established`)
survives every iteration whose handler phase changes slot `u` only in its data-path fields.
-/
namespace Iodine.C05N
open Iodine Iodine.Server Iodine.Gen Iodine.C04L

section Own
variable {u : Nat} {s t : Srv}

theorem agree_checkUserAndIp (h : Agree u s t) (uid : Int) (hu : uid.toNat = u) (q : Query) :
    checkUserAndIp s uid q = checkUserAndIp t uid q := by
  unfold checkUserAndIp
  rw [hu, h.user, h.now, h.cfg]

theorem agree_checkAuth (h : Agree u s t) (uid : Int) (hu : uid.toNat = u) (q : Query) :
    checkAuthenticatedUserAndIp s uid q = checkAuthenticatedUserAndIp t uid q := by
  unfold checkAuthenticatedUserAndIp
  rw [agree_checkUserAndIp h uid hu q, hu, h.user]

theorem agree_answerFromDnscache (h : Agree u s t) (q : Query) :
    answerFromDnscache s u q = answerFromDnscache t u q := by
  unfold answerFromDnscache
  rw [h.user]

theorem agree_saveQuery (h : Agree u s t) (q : Query) : Agree u (saveQuery s u q) (saveQuery t u q) := by
  unfold saveQuery
  exact h.set _ _ (by rw [h.user, h.now])

/-- `rememberDuplicate` gives `none` on both sides or agreeing states on both sides -/
theorem agree_rememberDuplicate (h : Agree u s t) (q : Query) :
    (rememberDuplicate s u q = none ∧ rememberDuplicate t u q = none) ∨
    ∃ s' t', rememberDuplicate s u q = some s' ∧ rememberDuplicate t u q = some t' ∧ Agree u s' t' := by
  unfold rememberDuplicate
  dsimp only
  rw [h.user]
  by_cases c1 : (getUser t u).q.id ≠ 0 ∧ q.type = (getUser t u).q.type ∧ q.name = (getUser t u).q.name ∧
      (getUser t u).lazy = true
  · rw [if_pos c1, if_pos c1]
    exact Or.inr ⟨_, _, rfl, rfl, h.setf _⟩
  · rw [if_neg c1, if_neg c1]
    by_cases c2 : (getUser t u).qs.id ≠ 0 ∧ q.type = (getUser t u).qs.type ∧ q.name = (getUser t u).qs.name
    · rw [if_pos c2, if_pos c2]
      exact Or.inr ⟨_, _, rfl, rfl, h.setf _⟩
    · rw [if_neg c2, if_neg c2]
      exact Or.inl ⟨rfl, rfl⟩

/-- the ping handler behind the duplicate filters is slot-local -/
theorem agree_pingFresh (h : Agree u s t) (q : Query) (unp : List Nat) :
    Agree u (pingFresh s u q unp).1 (pingFresh t u q unp).1 ∧ (pingFresh s u q unp).2 = (pingFresh t u q unp).2 := by
  unfold pingFresh
  dsimp only
  have h1 := agree_processDownstreamAck h (charVal (unp.getD 1 0) / 16) (charVal (unp.getD 1 0) % 16)
  generalize processDownstreamAck s u (charVal (unp.getD 1 0) / 16) (charVal (unp.getD 1 0) % 16) = s1 at h1 ⊢
  generalize processDownstreamAck t u (charVal (unp.getD 1 0) / 16) (charVal (unp.getD 1 0) % 16) = t1 at h1 ⊢
  -- r1
  have h2 : Agree u (if (getUser s1 u).qs.id ≠ 0 then (sendChunkOrDataless s1 u .qs).1 else (s1, [])).1
      (if (getUser t1 u).qs.id ≠ 0 then (sendChunkOrDataless t1 u .qs).1 else (t1, [])).1 ∧
      (if (getUser s1 u).qs.id ≠ 0 then (sendChunkOrDataless s1 u .qs).1 else (s1, [])).2 =
      (if (getUser t1 u).qs.id ≠ 0 then (sendChunkOrDataless t1 u .qs).1 else (t1, [])).2 := by
    rw [h1.user]
    by_cases c : (getUser t1 u).qs.id ≠ 0
    · rw [if_pos c, if_pos c]
      have k := agree_sendChunkOrDataless h1 .qs
      exact ⟨k.1, k.2.1⟩
    · rw [if_neg c, if_neg c]; exact ⟨h1, rfl⟩
  generalize (if (getUser s1 u).qs.id ≠ 0 then (sendChunkOrDataless s1 u .qs).1 else (s1, [])) = r1 at h2 ⊢
  generalize (if (getUser t1 u).qs.id ≠ 0 then (sendChunkOrDataless t1 u .qs).1 else (t1, [])) = r1' at h2 ⊢
  obtain ⟨h2a, h2e⟩ := h2
  -- r2
  have h3 : Agree u
      (if (getUser r1.1 u).q.id ≠ 0 then ((sendChunkOrDataless r1.1 u .q).1, !(sendChunkOrDataless r1.1 u .q).2)
        else ((r1.1, []), false)).1.1
      (if (getUser r1'.1 u).q.id ≠ 0 then ((sendChunkOrDataless r1'.1 u .q).1, !(sendChunkOrDataless r1'.1 u .q).2)
        else ((r1'.1, []), false)).1.1 ∧
      (if (getUser r1.1 u).q.id ≠ 0 then ((sendChunkOrDataless r1.1 u .q).1, !(sendChunkOrDataless r1.1 u .q).2)
        else ((r1.1, []), false)).1.2 =
      (if (getUser r1'.1 u).q.id ≠ 0 then ((sendChunkOrDataless r1'.1 u .q).1, !(sendChunkOrDataless r1'.1 u .q).2)
        else ((r1'.1, []), false)).1.2 ∧
      (if (getUser r1.1 u).q.id ≠ 0 then ((sendChunkOrDataless r1.1 u .q).1, !(sendChunkOrDataless r1.1 u .q).2)
        else ((r1.1, []), false)).2 =
      (if (getUser r1'.1 u).q.id ≠ 0 then ((sendChunkOrDataless r1'.1 u .q).1, !(sendChunkOrDataless r1'.1 u .q).2)
        else ((r1'.1, []), false)).2 := by
    rw [h2a.user]
    by_cases c : (getUser r1'.1 u).q.id ≠ 0
    · rw [if_pos c, if_pos c]
      have k := agree_sendChunkOrDataless h2a .q
      exact ⟨k.1, k.2.1, by rw [k.2.2]⟩
    · rw [if_neg c, if_neg c]; exact ⟨h2a, rfl, rfl⟩
  generalize (if (getUser r1.1 u).q.id ≠ 0 then ((sendChunkOrDataless r1.1 u .q).1, !(sendChunkOrDataless r1.1 u .q).2)
        else ((r1.1, []), false)) = r2 at h3 ⊢
  generalize (if (getUser r1'.1 u).q.id ≠ 0 then ((sendChunkOrDataless r1'.1 u .q).1, !(sendChunkOrDataless r1'.1 u .q).2)
        else ((r1'.1, []), false)) = r2' at h3 ⊢
  obtain ⟨h3a, h3e, h3b⟩ := h3
  have h4 := agree_saveQuery h3a q
  rw [h4.user, h3b, h2e, h3e]
  by_cases c : ((!r2'.2) = true ∧ (getUser (saveQuery r2'.1.1 u q) u).outpacket.len > 0) ∨
      (!(getUser (saveQuery r2'.1.1 u q) u).lazy) = true
  · rw [if_pos c, if_pos c]
    have k := agree_sendChunkOrDataless h4 .q
    exact ⟨k.1, by rw [k.2.1]⟩
  · rw [if_neg c, if_neg c]
    exact ⟨h4, rfl⟩

/-- **the ping handler for userid `u` is slot-local** -/
theorem agree_handlePing (h : Agree u s t) (q : Query) (inb : List Nat)
    (hu : (charVal ((Encoding.unpackData Codec.b32 65536 (inb.drop 1)).getD 0 0)).toNat = u) :
    Agree u (handlePing s q inb).1 (handlePing t q inb).1 ∧ (handlePing s q inb).2 = (handlePing t q inb).2 := by
  unfold handlePing
  by_cases h0 : q.id = 0
  · rw [if_pos h0, if_pos h0]; exact ⟨h, rfl⟩
  rw [if_neg h0, if_neg h0]
  dsimp only
  by_cases h1 : (Encoding.unpackData Codec.b32 65536 (List.drop 1 inb)).length < 4
  · rw [if_pos h1, if_pos h1]; exact ⟨h, rfl⟩
  rw [if_neg h1, if_neg h1]
  rw [agree_checkAuth h _ hu q, hu]
  by_cases h2 : checkAuthenticatedUserAndIp t (charVal ((Encoding.unpackData Codec.b32 65536 (List.drop 1 inb)).getD 0 0)) q = true
  · rw [if_pos h2, if_pos h2]; exact ⟨h, rfl⟩
  rw [if_neg h2, if_neg h2]
  rw [agree_answerFromDnscache h q, h.user]
  cases answerFromDnscache t u q with
  | some e => exact ⟨h, rfl⟩
  | none =>
    dsimp only
    cases answerFromQmem q (getUser t u).qmemping (List.take 4 (Encoding.unpackData Codec.b32 65536 (List.drop 1 inb))) u with
    | some e => exact ⟨h, rfl⟩
    | none =>
      dsimp only
      rcases agree_rememberDuplicate h q with ⟨e1, e2⟩ | ⟨s', t', e1, e2, k⟩
      · rw [e1, e2]; exact agree_pingFresh h q _
      · rw [e1, e2]; exact ⟨k, rfl⟩

/-- a DNS query that `tunnel_dns` hands to the ping handler with userid `u` -/
def pingFor (cfg : Config) (q : Query) (u : Nat) : Prop :=
  ∃ dlen, Common.queryDatalen q.name cfg.topdomain = some dlen ∧ ¬ isNsA q dlen ∧ ¬ isWwwA q dlen ∧
    tunnelType q.type ∧ 2 ≤ dlen ∧ cmdOf ((inbOf q dlen).getD 0 0) = some .ping ∧ (uidOf q dlen .ping).toNat = u

theorem tunnelDns_pingFor (s : Srv) (q : Query) (dlen : Nat)
    (hd : Common.queryDatalen q.name s.cfg.topdomain = some dlen) (hns : ¬ isNsA q dlen) (hwww : ¬ isWwwA q dlen)
    (hty : tunnelType q.type) (h2 : 2 ≤ dlen) (hc : cmdOf ((inbOf q dlen).getD 0 0) = some .ping) :
    tunnelDns s q = handlePing s q (inbOf q dlen) := by
  rw [tunnelDns_null s q dlen hd hns hwww hty, handleNullRequest_cmd s q dlen .ping h2 hc]; rfl

/-- **own step**: the handler phase of a ping naming `u` is slot-local, and changes slot `u` in its data-path fields only -/
theorem own_ping_dispatch (h : Agree u s t) (q : Query) (hp : pingFor s.cfg q u) (ts tt : Bool) :
    (Agree u (dispatch s (.q q) ts).1 (dispatch t (.q q) tt).1 ∧
      dataOf u (dispatch s (.q q) ts).2 = dataOf u (dispatch t (.q q) tt).2) ∧
    erData (getUser (dispatch s (.q q) ts).1 u) = erData (getUser s u) := by
  obtain ⟨dlen, hd, hns, hwww, hty, h2, hc, hu⟩ := hp
  have hd' : Common.queryDatalen q.name t.cfg.topdomain = some dlen := by rw [← h.cfg]; exact hd
  show (Agree u (tunnelDns s q).1 (tunnelDns t q).1 ∧ dataOf u (tunnelDns s q).2 = dataOf u (tunnelDns t q).2) ∧
    erData (getUser (tunnelDns s q).1 u) = erData (getUser s u)
  rw [tunnelDns_pingFor s q dlen hd hns hwww hty h2 hc, tunnelDns_pingFor t q dlen hd' hns hwww hty h2 hc]
  have k := agree_handlePing h q (inbOf q dlen) hu
  exact ⟨⟨k.1, by rw [k.2]⟩, (frame_handlePing s q dlen).rel u⟩

end Own

/-! ### `Established` survives -/

/-- model-side copy of `C05.Established` -/
structure Est (s : Srv) (u : Nat) (a : Addr) : Prop where
  ck : s.cfg.checkIp = true
  cr : u < s.cfg.createdUsers
  ln : u < s.users.length
  act : (getUser s u).active = true
  en : (getUser s u).disabled = false
  au : (getUser s u).authenticated = true
  fam : (getUser s u).host.fam = a.fam
  ip : (getUser s u).host.ip = a.ip

theorem Est.bound {s : Srv} {u : Nat} {a : Addr} (h : Est s u a) : Bound s u a := ⟨h.ck, h.act, h.fam, h.ip⟩

/-- an iteration whose handler phase changes slot `u` only in its data-path fields keeps `u` established -/
theorem est_next {s : Srv} {u : Nat} {a : Addr} (he : Est s u a) (inp : Input) (n : Nat)
    (hk : erData (getUser (dispatch (pre s n) inp (tunsel s)).1 u) = erData (getUser (pre s n) u)) :
    Est (next s ⟨inp, n⟩) u a := by
  have hs := ((frame_sweep (dispatch (pre s n) inp (tunsel s)).1).rel u).trans hk
  have e0 : getUser (next s ⟨inp, n⟩) u = getUser (sweep (dispatch (pre s n) inp (tunsel s)).1).1 u := by
    rw [next_eq, body_fst]
  have p : (getUser (pre s n) u).active = (getUser s u).active ∧ (getUser (pre s n) u).disabled = (getUser s u).disabled ∧
      (getUser (pre s n) u).authenticated = (getUser s u).authenticated ∧ (getUser (pre s n) u).host = (getUser s u).host := by
    rw [getUser_pre]; split <;> exact ⟨rfl, rfl, rfl, rfl⟩
  refine ⟨by rw [next_cfg]; exact he.ck, by rw [next_cfg]; exact he.cr, by rw [next_len]; exact he.ln, ?_, ?_, ?_, ?_, ?_⟩
  · rw [e0, erData_active hs, p.1]; exact he.act
  · rw [e0, erData_disabled hs, p.2.1]; exact he.en
  · rw [e0, erData_authenticated hs, p.2.2.1]; exact he.au
  · rw [e0, erData_host hs, p.2.2.2]; exact he.fam
  · rw [e0, erData_host hs, p.2.2.2]; exact he.ip

/-! ### mixed runs -/

/-- a step of a mixed run: a foreign step satisfying the hypotheses, or a ping from anywhere that names `u` (own step;
if it does not come from `a` it is refused on both sides alike) -/
def MixedStep (u : Nat) (a : Addr) (s : Srv) (st : Step) : Prop :=
  (foreign a st.inp ∧ ¬ (getUser s u).lastPkt + 60 < st.now ∧ ¬ rawLoginFor (pre s st.now) st.inp u ∧
      ¬ fwdTo (pre s st.now) st.inp u) ∨
  (¬ foreign a st.inp ∧ ∃ q, st.inp = .q q ∧ pingFor s.cfg q u)

def MixedRun (u : Nat) (a : Addr) : Srv → List Step → Prop
  | _, [] => True
  | s, st :: rest => MixedStep u a s st ∧ MixedRun u a (next s st) rest

/-- one step of a mixed run against its masked counterpart -/
theorem mixed_iteration {s t : Srv} {u : Nat} {a : Addr} (h : Agree u s t) (he : Est s u a) (st st' : Step)
    (hst : (foreign a st.inp → st' = ⟨.tick, st.now⟩) ∧ (¬ foreign a st.inp → st' = st))
    (hm : MixedStep u a s st) :
    Agree u (next s st) (next t st') ∧ dataOf u (out s st) = dataOf u (out t st') ∧ Est (next s st) u a := by
  rcases hm with ⟨hf, hl, hlog, hw⟩ | ⟨hnf, q, hq, hp⟩
  · rw [hst.1 hf]
    have k := foreign_iteration h he.bound st.inp st.now hl hf hlog hw
    have hk := (foreign_dispatch (bound_pre he.bound st.now) (by rw [lastPkt_pre]; exact hl) st.inp (tunsel s) hf hlog hw).1
    exact ⟨k.1, k.2, est_next he st.inp st.now (by rw [hk])⟩
  · rw [hst.2 hnf]
    obtain ⟨inp, n⟩ := st
    simp only at hq
    subst hq
    have hp' : pingFor (pre s n).cfg q u := hp
    have k := own_ping_dispatch (agree_pre h n) q hp' (tunsel s) (tunsel t)
    have r := agree_iteration (s := s) (t := t) (.q q) (.q q) n k.1
    exact ⟨r.1, r.2, est_next he (.q q) n k.2⟩

end Iodine.C05N
