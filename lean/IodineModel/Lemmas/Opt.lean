import IodineModel.Getopt
/-
Helper lemmas about the libc pieces of IodineModel/Getopt.lean: the 33-byte password buffer (`strncpy` / `snprintf`),
ranges of `atoi` and `inet_addr`.
-/
namespace Iodine.OptL
open Iodine Iodine.Getopt Iodine.Client.Shell

/-- the password cut at 32 bytes and zero padded: the block `login_calculate` reads (same as `C19.pad32`) -/
def pad32 (pw : List Nat) : List Nat := (pw ++ List.replicate 32 0).take 32

theorem pad32_length (pw : List Nat) : (pad32 pw).length = 32 := by
  simp only [pad32, List.length_take, List.length_append, List.length_replicate]; omega

theorem take32_replicate33 (a : List Nat) : (a ++ List.replicate 33 0).take 32 = pad32 a := by
  have h : List.replicate 33 (0 : Nat) = List.replicate 32 0 ++ [0] := by decide
  rw [h, ← List.append_assoc, pad32]
  exact List.take_append_of_le_length (by simp)

/-- `strncpy(password, optarg, 33); password[32] = 0;` leaves the argument cut at 32 bytes and ZERO PADDED, whatever the buffer
held before -/
theorem strncpy_set (buf a : List Nat) (h : buf.length = 33) :
    (strncpy buf a 33).set 32 0 = pad32 a ++ [0] := by
  have hd : buf.drop 33 = [] := List.drop_eq_nil_of_le (by omega)
  have hl : ((a ++ List.replicate 33 0).take 33).length = 33 := by
    simp only [List.length_take, List.length_append, List.length_replicate]; omega
  unfold strncpy
  rw [hd, List.append_nil]
  generalize hx : (a ++ List.replicate 33 0).take 33 = x at hl
  have h32 : x.take 32 = pad32 a := by
    rw [← hx, List.take_take]; exact take32_replicate33 a
  rw [← h32]
  apply List.ext_getElem
  · simp [hl]
  · intro i h1 h2
    simp only [List.length_set] at h1
    by_cases hi : i = 32
    · subst hi; simp [List.getElem_append_right, hl]
    · have : i < 32 := by omega
      rw [List.getElem_set_ne (by omega), List.getElem_append_left (by simp; omega), List.getElem_take]

theorem strncpy_set_length (buf a : List Nat) (h : buf.length = 33) : ((strncpy buf a 33).set 32 0).length = 33 := by
  rw [strncpy_set buf a h]; simp [pad32_length]

/-- on an all-zero buffer `snprintf(password, 33, "%s", e)` gives the same block -/
theorem snprintf_zeros (e : List Nat) : snprintfS (List.replicate 33 0) e 33 = pad32 e ++ [0] := by
  unfold snprintfS pad32
  apply List.ext_getElem?
  intro i
  simp only [Nat.add_one_sub_one, List.drop_replicate, List.getElem?_append, List.length_take, List.length_append,
    List.length_replicate, List.getElem?_take, List.getElem?_replicate, List.length_cons, List.length_nil]
  have hk : min e.length 32 ≤ 32 := by omega
  have hk2 : min e.length 32 ≤ e.length := by omega
  have hk3 : e.length ≤ 32 → min e.length 32 = e.length := by omega
  have hk4 : 32 ≤ e.length → min e.length 32 = 32 := by omega
  generalize min e.length 32 = k at *
  have hm : min k e.length = k := Nat.min_eq_left hk2
  simp only [hm]
  rcases Nat.lt_trichotomy i k with hi | hi | hi
  · have a1 : i < k + 1 := by omega
    have a2 : i < 32 := by omega
    have a3 : i < e.length := by omega
    simp [hi, a1, a2, a3]
  · subst hi
    by_cases h32 : i = 32
    · subst h32; simp
    · have a2 : i < 32 := by omega
      have a3 : ¬ i < e.length := by omega
      have a5 : i - e.length < 32 := by omega
      simp [a2, a3, a5]
  · have a1 : ¬ i < k := by omega
    have a0 : ¬ i < k + 1 := by omega
    by_cases h32 : i < 32
    · have a3 : ¬ i < e.length := by omega
      have a4 : i - (k + 1) < 32 - k := by omega
      have a5 : i - e.length < 32 := by omega
      simp [a0, h32, a3, a4, a5]
    · by_cases h33 : i = 32
      · subst h33
        simp [a0]
        omega
      · have a4 : ¬ i - (k + 1) < 32 - k := by omega
        have a7 : i - 32 ≠ 0 := by omega
        simp [a0, h32, a4, a7]

theorem toInt32_lt (x : Int) : toInt32 x < 2 ^ 31 := by unfold toInt32; omega
theorem toInt32_ge (x : Int) : -(2 ^ 31) ≤ toInt32 x := by unfold toInt32; omega

theorem atoi_lt (s : List Nat) : atoi s < 2 ^ 31 := toInt32_lt _
theorem atoi_ge (s : List Nat) : -(2 ^ 31) ≤ atoi s := toInt32_ge _

theorem fold_bytes_lt : ∀ (bytes : List Nat) (acc : Nat), (∀ b ∈ bytes, b ≤ 255) →
    bytes.foldl (fun acc b => acc * 256 + b) acc < (acc + 1) * 256 ^ bytes.length
  | [], acc, _ => by simp
  | b :: rest, acc, h => by
    have hb : b ≤ 255 := h b (by simp)
    have ih := fold_bytes_lt rest (acc * 256 + b) (fun x hx => h x (by simp [hx]))
    simp only [List.foldl_cons, List.length_cons]
    calc _ < (acc * 256 + b + 1) * 256 ^ rest.length := ih
      _ ≤ ((acc + 1) * 256) * 256 ^ rest.length := Nat.mul_le_mul_right _ (by omega)
      _ = (acc + 1) * 256 ^ (rest.length + 1) := by rw [Nat.pow_succ, Nat.mul_assoc, Nat.mul_comm 256]

/-- every address `inet_aton` accepts fits 32 bits -/
theorem atonGo_lt : ∀ (n : Nat) (bytes s : List Nat) (v : Nat), (∀ b ∈ bytes, b ≤ 255) → bytes.length ≤ 3 →
    atonGo n bytes s = some v → v < 2 ^ 32
  | 0, _, _, _, _, _, h => by simp [atonGo] at h
  | n + 1, bytes, s, v, hb, hlen, h => by
    unfold atonGo at h
    split at h
    · exact absurd h (by simp)
    · split at h
      · exact absurd h (by simp)
      · simp only at h
        split at h
        · exact absurd h (by simp)
        · split at h
          · split at h
            · exact absurd h (by simp)
            · rename_i hnot
              refine atonGo_lt n _ _ v ?_ ?_ h
              · intro b hb'
                rcases List.mem_append.1 hb' with hb' | hb'
                · exact hb b hb'
                · simp only [List.mem_singleton] at hb'; omega
              · simp only [List.length_append, List.length_cons, List.length_nil]; omega
          · have hf := fold_bytes_lt bytes 0 hb
            generalize List.foldl (fun acc b => acc * 256 + b) 0 bytes = f at *
            generalize (strtoul0 s).fst = r at *
            repeat' split at h
            all_goals try (simp at h; done)
            all_goals
              rename_i hmax
              simp only [Option.some.injEq] at h
              subst h
              obtain h0 | h1 | h2 | h3 : bytes.length = 0 ∨ bytes.length = 1 ∨ bytes.length = 2 ∨ bytes.length = 3 := by omega
              · rw [h0] at hmax hf ⊢; simp at hmax hf ⊢; omega
              · rw [h1] at hmax hf ⊢; simp at hmax hf ⊢; omega
              · rw [h2] at hmax hf ⊢; simp at hmax hf ⊢; omega
              · rw [h3] at hmax hf ⊢; simp at hmax hf ⊢; omega

theorem inetAddr_le (s : List Nat) : inetAddr s ≤ 0xffffffff := by
  unfold inetAddr
  cases h : atonGo 4 [] s with
  | none => simp
  | some v => have := atonGo_lt 4 [] s v (by simp) (by simp) h; simp only [Option.getD_some]; omega

/-- the 33-byte block for "the last `-P` argument so far" (`none`: no `-P` yet, the zero-initialised static) -/
def blk : Option (List Nat) → List Nat
  | none => List.replicate 33 0
  | some p => pad32 p ++ [0]

theorem blk_length (l : Option (List Nat)) : (blk l).length = 33 := by
  cases l <;> simp [blk, pad32_length]

/-- the password both programs end up with: the last `-P` argument if it is not empty, else the environment variable, else the
first line typed at the prompt (at most 79 characters) -/
def effective (last envPass : Option (List Nat)) (typed : List Nat) : List Nat :=
  match last with
  | some (c :: p) => c :: p
  | _ =>
    match envPass with
    | some e => e
    | none => (typed.takeWhile (· ≠ 10)).take 79

theorem strlen_zeros : strlen (List.replicate 33 0) = 0 := by decide

theorem blk_nil : blk (some []) = List.replicate 33 0 := by decide

/-- the password block after the `if (strlen(password) == 0)` block: the effective password cut at 32 bytes and zero padded -/
theorem passwordPhase_block (envPass : Option (List Nat)) (typed : List Nat) (last : Option (List Nat))
    (hnz : ∀ p, last = some p → 0 ∉ p) :
    (passwordPhase envPass typed (blk last)).1 = pad32 (effective last envPass typed) ++ [0] := by
  have zero_case : (passwordPhase envPass typed (List.replicate 33 0)).1 =
      pad32 (match envPass with | some e => e | none => (typed.takeWhile (· ≠ 10)).take 79) ++ [0] := by
    unfold passwordPhase
    rw [if_pos strlen_zeros]
    cases envPass with
    | some e => exact snprintf_zeros e
    | none => exact strncpy_set _ _ (by simp)
  match last, hnz with
  | none, _ => exact zero_case
  | some [], _ => rw [blk_nil]; exact zero_case
  | some (c :: p), hnz =>
    have hc : c ≠ 0 := fun h => hnz (c :: p) rfl (by simp [h])
    have hne : strlen (blk (some (c :: p))) ≠ 0 := by
      simp only [blk, pad32, strlen, List.cons_append, List.take_succ_cons]
      rw [List.takeWhile_cons_of_pos (by simpa using hc)]
      simp
    unfold passwordPhase
    rw [if_neg hne]
    rfl

end Iodine.OptL
