import IodineModel.Lemmas.C02M5
/-
C02 / lazy mode, DOWNSTREAM — part 6: the LAST fragment (three scheduler steps: `deliverDown` — the client writes the packet
to its tun device and arms its 5 ms timer —, `tickC` — the ping that acknowledges the last fragment goes out —, `deliverUp` —
the server completes the packet and HOLDS the ping: quiescent again).  When a ping was already due at the client
(`send_ping_soon ≠ 0`) the acknowledging ping goes out with the first step and there is no timer step.
-/
namespace Iodine.C02L
open Iodine Iodine.Gen Iodine.World

/-- the acknowledgement of the last fragment: the outpacket is complete (or had been dropped when its only fragment was
sent) -/
theorem ackSess_fin (x : Server.Session) (out : List Nat) (sq : Int) (o D f : Nat) (hoq : x.oqFilled = 0) (hD : 0 < D)
    (heq : o + D = out.length) (hf : f + 1 < 128)
    (hop : x.outpacket = ⟨out.length, D, o, out, sq, (f : Int)⟩ ∨ (x.outpacket = ⟨0, 0, 0, out, sq, 0⟩ ∧ o = 0 ∧ f = 0 ∧ D = out.length)) :
    (ackSess x sq f).outpacket = ⟨0, 0, 0, out, sq, (f : Int)⟩ := by
  rcases hop with hop | ⟨hop, _, hf0, _⟩
  · have hsf : Server.sChar (Server.sChar ((f : Int) + 1) - 1) = (f : Int) := by unfold Server.sChar; omega
    rw [ackSess_complete x sq f (by rw [hop]; show out.length ≠ 0; omega) (by rw [hop]) (by rw [hop]) (by rw [hop]; show D ≠ 0; omega)
      (by rw [hop]; show out.length ≤ o + D; omega) hoq]
    rw [hop]
    simp only [hsf]
  · have : ackSess x sq f = x := by
      unfold ackSess
      rw [if_pos (by rw [hop])]
    rw [this, hop, hf0]
    rfl

/-- the final `deliverUp`: the ping that acknowledges the last fragment reaches the server, which completes the packet and
HOLDS the ping — quiescent again -/
theorem down_hold_lazy {P : Par} (hP : P.Ok) {out : List Nat} {w3 : W} {c2 : Client.Cli} {sq : Int} {o D f : Nat} {name' : List Nat}
    (hcs : w3.cs = ⟨pingStateL c2, .tunnel⟩) (hc2st : CStatL P c2) (hc2cnt : CntOk c2 0) (hc2idle : Client.isSending c2 = false)
    (e3 : c2.inpkt.seqno = sq)
    (hup : w3.up = [.query (pingStateL c2).chunkid P.ty name']) (hdown : w3.down = [])
    (hpq : PingQ P (upQuery (pingStateL c2).chunkid P.ty name') sq (f : Int) c2.randSeed)
    (hsrv : PingSrvL P w3.srv) (hsqr : 0 ≤ sq ∧ sq < 8) (hD : 0 < D) (heq : o + D = out.length) (hf : f < 16)
    (hop : (Server.getUser w3.srv P.u).outpacket = ⟨out.length, D, o, out, sq, (f : Int)⟩ ∨
      ((Server.getUser w3.srv P.u).outpacket = ⟨0, 0, 0, out, sq, 0⟩ ∧ o = 0 ∧ f = 0 ∧ D = out.length))
    (hsyncu : (Server.getUser w3.srv P.u).inpacket.seqno = c2.outpkt.seqno)
    (haged : Aged P (Server.getUser w3.srv P.u) c2.datacmc 1) (hpaged : PAged P (Server.getUser w3.srv P.u) c2.randSeed 1) :
    ∃ w', step w3 (promptEv w3) = w' ∧ quiet P.u w3 = false ∧ QuietLazy P w' ∧ w'.cs.c.sendPingSoon = 0 ∧
      w'.tunC = w3.tunC ∧ w'.tunS = w3.tunS ∧
      (Server.getUser w'.srv P.u).fragsize = (Server.getUser w3.srv P.u).fragsize ∧
      (Server.getUser w'.srv P.u).tunIp = (Server.getUser w3.srv P.u).tunIp := by
  have hpf := pingFactsL c2
  have hq3 : quiet P.u w3 = false := quiet_false_of_up _ _ _ _ hup
  generalize hx0 : ({ Server.getUser w3.srv P.u with qsNew := false } : Server.Session) = x0
  have hfin : (ackSess x0 sq f).outpacket = ⟨0, 0, 0, out, sq, (f : Int)⟩ :=
    ackSess_fin x0 _ sq o D f (by subst hx0; exact hsrv.oq) hD heq (by omega) (by subst hx0; exact hop)
  obtain ⟨s', evs, t, hit, hdown3, htun3, hah, hsame⟩ :=
    srv_ping_lazy_hold hP hsrv.stat hsrv.q hsrv.qs hsrv.lz hsrv.oq hpq hpaged (by rw [hx0, hfin])
  generalize hQ : upQuery (pingStateL c2).chunkid P.ty name' = Q at hit hah hpq
  obtain ⟨hS', hq', hqs', hlz', hoq', hfs', hin', htun', hop'⟩ := afterHold_stat hsrv.stat hsrv.oq hah
    (by rw [hx0, hfin]; exact hsqr) (by rw [hx0, hfin]; show (0 : Int) ≤ (f : Int) ∧ (f : Int) < 16; omega)
  rw [hx0, hfin] at hop'
  have hs3 : step w3 (promptEv w3) = { w3 with up := [], srv := s' } := by
    rw [promptEv_up w3 _ _ hup, step_deliverUp w3 _ _ hup, srvInput_query, hQ,
      stepS_zero { w3 with up := [] } _ s' evs t (by exact hit), hdown3, htun3]
    simp [hdown]
  have hQid : Q.id = (pingStateL c2).chunkid := by rw [← hQ]; rfl
  refine ⟨_, hs3, hq3, ?_, ?_, rfl, rfl, hfs', htun'⟩
  · refine ⟨by show w3.cs.ph = _; rw [hcs], ?_, ?_, ?_, rfl, hdown, hS', ?_, hoq', ?_, ?_, ?_, ?_, ?_⟩
    · show CStatL P w3.cs.c
      rw [hcs]; exact cstatL_pingStateL hc2st
    · show CntOk w3.cs.c 1
      rw [hcs]; exact (pingStateL_ids c2).2.2 0 hc2cnt
    · show Client.isSending w3.cs.c = false
      rw [hcs]
      unfold Client.isSending
      rw [hpf.outpkt]
      exact hc2idle
    · exact ⟨by rw [hop'], by rw [hq']; exact hpq.id, by rw [hq']; exact hpq.id2, by rw [hqs']; exact hsrv.qs,
        by rw [hlz']; exact hsrv.lz⟩
    · show HeldBase P (Server.getUser s' P.u).q
      rw [hq']; exact ⟨hpq.from_, hpq.id2, hpq.id, hpq.ty⟩
    · show (Server.getUser s' P.u).q.id = w3.cs.c.chunkid
      rw [hq', hQid, hcs]
    · show (Server.getUser s' P.u).inpacket.seqno = w3.cs.c.outpkt.seqno
      rw [hin', hsyncu, hcs, hpf.outpkt]
    · show (Server.getUser s' P.u).outpacket.seqno = w3.cs.c.inpkt.seqno
      rw [hop', hcs, hpf.inpkt, e3]
    · show HeldMem P (Server.getUser s' P.u) (Server.getUser s' P.u).q w3.cs.c.datacmc w3.cs.c.randSeed
      rw [hq', hcs, hpf.datacmc, hpf.seed]
      right
      refine ⟨c2.randSeed, ⟨hpq.sdlt, hpq.c0, hpq.fp, hpq.seed⟩, behind_next16 _ hpq.sdlt, ?_, ?_⟩
      · exact haged.congr hsame.1 hsame.2.1 hsame.2.2.2.2.1 hsame.2.2.2.2.2
      · exact (hpaged.step hpq.sdlt (by omega)).congr hsame.2.2.1 hsame.2.2.2.1 hsame.2.2.2.2.1 hsame.2.2.2.2.2
  · show w3.cs.c.sendPingSoon = 0
    rw [hcs]; exact hpf.sps

/-- the last fragment when no ping was due at the client (three scheduler steps) -/
theorem down_last_lazy {P : Par} (hP : P.Ok) {frame : List Nat} {w : W} {sq : Int} {o D f : Nat}
    (h : DownFlightL P (0x5a :: frame) w sq o D f) (hsps : w.cs.c.sendPingSoon = 0) (h64 : (0x5a :: frame).length ≤ 65536)
    (h4 : 4 ≤ frame.length) (heq : o + D = (0x5a :: frame).length) (hf : f < 16) :
    ∃ w', promptSteps P.u 3 w = some w' ∧ QuietLazy P w' ∧ w'.cs.c.sendPingSoon = 0 ∧
      w'.tunC = w.tunC ++ [tunImage frame] ∧ w'.tunS = w.tunS ∧
      (Server.getUser w'.srv P.u).fragsize = (Server.getUser w.srv P.u).fragsize ∧
      (Server.getUser w'.srv P.u).tunIp = (Server.getUser w.srv P.u).tunIp := by
  obtain ⟨name, pkt, hdown, hnd, hfp⟩ := h.down
  have hsqr := h.hsq
  have hfl : FragPkt pkt (0x5a :: frame) sq o D f true := by
    have : decide ((0x5a :: frame).length > 0 ∧ (0x5a :: frame).length = o + D) = true := by
      rw [decide_eq_true_iff]; simp only [List.length_cons] at heq ⊢; omega
    rw [this] at hfp; exact hfp
  generalize hc : w.cs.c = c at hdown hnd
  have hwc : w.cs = ⟨c, .tunnel⟩ := by rw [cstate_eta w.cs h.ph, hc]
  have hcst : CStatL P c := by rw [← hc]; exact h.cst
  have hcnt : CntOk c 1 := by rw [← hc]; exact h.cnt
  have hidle : Client.isSending c = false := by rw [← hc]; exact h.idleC
  -- step 1: the client receives the last fragment and writes the packet to its tun device
  generalize hrq : (Client.Rq.mk (pkt.length : Int) c.chunkid (answerType P.ty) 0 (name.headD 0) pkt) = rq
  have hci : cliInput (.ans c.chunkid P.ty name pkt) = .rq rq := by subst hrq; rfl
  have hrok : RecvOkL P c rq pkt := by
    subst hrq
    exact ⟨hcst, hidle, hnd, rfl, rfl, rfl⟩
  have hstep := recv_lastL hrok (by rw [← hc]; exact hsps) hfl h.hD (by rw [← hc]; exact h.dup) (by rw [← hc]; exact h.exp) hsqr hf heq h64
  generalize hc2 : lastStateL c (0x5a :: frame) sq o D f = c2 at hstep
  have hc2st : CStatL P c2 := by rw [← hc2]; exact cstatL_last hcst _ sq o D f hsqr hf
  have hc2cnt : CntOk c2 0 := by rw [← hc2]; exact cntOk_last _ sq o D f 0 hcnt
  have hc2idle : Client.isSending c2 = false := by rw [← hc2]; exact hidle
  have hc2sps : c2.sendPingSoon = 5 := by rw [← hc2]; rfl
  have hq1 : quiet P.u w = false := quiet_false_of_down _ _ _ _ hdown
  have hs1 : step w (promptEv w) = { w with down := [], cs := ⟨c2, .tunnel⟩, tunC := w.tunC ++ [tunImage frame] } := by
    rw [promptEv_down w _ _ h.up hdown, step_deliverDown w _ _ hdown, hci,
      stepC_of { w with down := [] } (.rq rq) ⟨c2, .tunnel⟩ [Client.writeTun frame] (.sel (Client.selectOf c2))
        (by show Client.cstep w.cs _ = _; rw [hwc]; exact hstep)
        (by show c2.now = w.cs.c.now; rw [hc, ← hc2]; rfl)]
    rw [tunOfC_writeTun frame h4]
    have hno : upOfEvents [Client.writeTun frame] = [] := rfl
    rw [hno]
    simp [h.up]
  generalize hw2 : ({ w with down := [], cs := ⟨c2, .tunnel⟩, tunC := w.tunC ++ [tunImage frame] } : W) = w2 at hs1
  have hw2srv : w2.srv = w.srv := by subst hw2; rfl
  have hw2c : w2.cs.c = c2 := by subst hw2; rfl
  have hw2up : w2.up = [] := by subst hw2; exact h.up
  have hw2down : w2.down = [] := by subst hw2; rfl
  have hq2 : quiet P.u w2 = false := quiet_false_of_noq (by rw [hw2srv]; exact h.srv)
  -- step 2: the client's 5 ms timer: the ping that acknowledges the last fragment
  have hsel : (Client.selectOf c2).to = 5000 := by
    simp [Client.selectOf, hc2sps]
  obtain ⟨name', hs2, hpq⟩ := poll_stepL hP (w := w2) (by subst hw2; rfl) (by rw [hw2c]; exact hc2st)
    (by rw [hw2c]; exact hc2cnt.mono (by omega)) (by rw [hw2c]; exact hc2idle) hw2up hw2down
    (by rw [hw2c, hsel]; omega) (timeoutS_idleL (by rw [hw2srv]; exact h.srv))
  rw [hw2c] at hs2 hpq
  have e3 : c2.inpkt.seqno = sq := by rw [← hc2]; rfl
  have e4 : c2.inpkt.fragment = (f : Int) := by rw [← hc2]; rfl
  have e5 : c2.randSeed = c.randSeed := by rw [← hc2]; rfl
  have e6 : c2.datacmc = c.datacmc := by rw [← hc2]; rfl
  have e7 : c2.outpkt = c.outpkt := by rw [← hc2]; rfl
  rw [e3, e4] at hpq
  generalize hw3 : ({ w2 with cs := ⟨pingStateL c2, .tunnel⟩, up := [.query (pingStateL c2).chunkid P.ty name'] } : W) = w3 at hs2
  have hw3srv : w3.srv = w.srv := by subst hw3; exact hw2srv
  -- step 3: the server completes the packet and holds the ping
  obtain ⟨w', hs3, hq3, hQL, hsps', htc, hts, hfs, htip⟩ := down_hold_lazy hP (out := 0x5a :: frame) (w3 := w3) (c2 := c2) (sq := sq)
    (o := o) (D := D) (f := f) (name' := name') (by subst hw3; rfl) hc2st hc2cnt hc2idle e3 (by subst hw3; rfl)
    (by subst hw3; exact hw2down) hpq (by rw [hw3srv]; exact h.srv) hsqr h.hD heq hf (by rw [hw3srv]; exact h.op)
    (by rw [hw3srv, h.syncu, e7, hc]) (by rw [hw3srv, e6, ← hc]; exact h.aged) (by rw [hw3srv, e5, ← hc]; exact h.paged)
  refine ⟨w', ?_, hQL, hsps', ?_, ?_, ?_, ?_⟩
  · rw [promptSteps_succ hq1, hs1, promptSteps_succ hq2, hs2, promptSteps_succ hq3, hs3]; rfl
  · rw [htc]; subst hw3; subst hw2; rfl
  · rw [hts]; subst hw3; subst hw2; rfl
  · rw [hfs, hw3srv]
  · rw [htip, hw3srv]

/-- the last fragment when a ping WAS due at the client (`send_ping_soon ≠ 0`: the first fragment of a one-fragment packet that
follows an upstream packet): the acknowledging ping goes out at once, so there is no timer step (two scheduler steps) -/
theorem down_last_lazy_now {P : Par} (hP : P.Ok) {frame : List Nat} {w : W} {sq : Int} {o D f : Nat}
    (h : DownFlightL P (0x5a :: frame) w sq o D f) (hsps : w.cs.c.sendPingSoon ≠ 0) (h64 : (0x5a :: frame).length ≤ 65536)
    (h4 : 4 ≤ frame.length) (heq : o + D = (0x5a :: frame).length) (hf : f < 16) :
    ∃ w', promptSteps P.u 2 w = some w' ∧ QuietLazy P w' ∧ w'.cs.c.sendPingSoon = 0 ∧
      w'.tunC = w.tunC ++ [tunImage frame] ∧ w'.tunS = w.tunS ∧
      (Server.getUser w'.srv P.u).fragsize = (Server.getUser w.srv P.u).fragsize ∧
      (Server.getUser w'.srv P.u).tunIp = (Server.getUser w.srv P.u).tunIp := by
  obtain ⟨name, pkt, hdown, hnd, hfp⟩ := h.down
  have hsqr := h.hsq
  have hfl : FragPkt pkt (0x5a :: frame) sq o D f true := by
    have : decide ((0x5a :: frame).length > 0 ∧ (0x5a :: frame).length = o + D) = true := by
      rw [decide_eq_true_iff]; simp only [List.length_cons] at heq ⊢; omega
    rw [this] at hfp; exact hfp
  generalize hc : w.cs.c = c at hdown hnd
  have hwc : w.cs = ⟨c, .tunnel⟩ := by rw [cstate_eta w.cs h.ph, hc]
  have hcst : CStatL P c := by rw [← hc]; exact h.cst
  have hcnt : CntOk c 1 := by rw [← hc]; exact h.cnt
  have hidle : Client.isSending c = false := by rw [← hc]; exact h.idleC
  -- step 1: the client receives the last fragment, writes the packet to its tun device and pings at once
  generalize hrq : (Client.Rq.mk (pkt.length : Int) c.chunkid (answerType P.ty) 0 (name.headD 0) pkt) = rq
  have hci : cliInput (.ans c.chunkid P.ty name pkt) = .rq rq := by subst hrq; rfl
  have hrok : RecvOkL P c rq pkt := by
    subst hrq
    exact ⟨hcst, hidle, hnd, rfl, rfl, rfl⟩
  obtain ⟨name', hstep, hpq⟩ := recv_lastL_now hP hrok hcnt (by rw [← hc]; exact hsps) hfl h.hD (by rw [← hc]; exact h.dup)
    (by rw [← hc]; exact h.exp) hsqr hf heq h64
  generalize hc2 : lastStateL c (0x5a :: frame) sq o D f = c2 at hstep hpq
  have hc2st : CStatL P c2 := by rw [← hc2]; exact cstatL_last hcst _ sq o D f hsqr hf
  have hc2cnt : CntOk c2 0 := by rw [← hc2]; exact cntOk_last _ sq o D f 0 hcnt
  have hc2idle : Client.isSending c2 = false := by rw [← hc2]; exact hidle
  have hpf := pingFactsL c2
  have hq1 : quiet P.u w = false := quiet_false_of_down _ _ _ _ hdown
  have hs1 : step w (promptEv w) =
      { w with down := [], cs := ⟨pingStateL c2, .tunnel⟩, up := [.query (pingStateL c2).chunkid P.ty name'],
               tunC := w.tunC ++ [tunImage frame] } := by
    rw [promptEv_down w _ _ h.up hdown, step_deliverDown w _ _ hdown, hci,
      stepC_of { w with down := [] } (.rq rq) ⟨pingStateL c2, .tunnel⟩
        [Client.writeTun frame, .query (pingStateL c2).chunkid P.ty name'] (.sel (Client.selectOf (pingStateL c2)))
        (by show Client.cstep w.cs _ = _; rw [hwc]; exact hstep)
        (by show (pingStateL c2).now = w.cs.c.now; rw [hpf.now, hc, ← hc2]; rfl)]
    have htn : tunOfCEvents [Client.writeTun frame, .query (pingStateL c2).chunkid P.ty name'] = [tunImage frame] := by
      have h1 : tunOfCEvents [Client.writeTun frame, .query (pingStateL c2).chunkid P.ty name'] =
          tunOfCEvents [Client.writeTun frame] := rfl
      rw [h1]
      exact tunOfC_writeTun frame h4
    have hno : upOfEvents [Client.writeTun frame, .query (pingStateL c2).chunkid P.ty name'] =
        [.query (pingStateL c2).chunkid P.ty name'] := rfl
    rw [htn, hno]
    simp [h.up]
  have e3 : c2.inpkt.seqno = sq := by rw [← hc2]; rfl
  have e4 : c2.inpkt.fragment = (f : Int) := by rw [← hc2]; rfl
  have e5 : c2.randSeed = c.randSeed := by rw [← hc2]; rfl
  have e6 : c2.datacmc = c.datacmc := by rw [← hc2]; rfl
  have e7 : c2.outpkt = c.outpkt := by rw [← hc2]; rfl
  rw [← e5] at hpq
  generalize hw3 : ({ w with down := [], cs := ⟨pingStateL c2, .tunnel⟩, up := [.query (pingStateL c2).chunkid P.ty name'], tunC := w.tunC ++ [tunImage frame] } : W) = w3 at hs1
  have hw3srv : w3.srv = w.srv := by subst hw3; rfl
  -- step 2: the server completes the packet and holds the ping
  obtain ⟨w', hs3, hq3, hQL, hsps', htc, hts, hfs, htip⟩ := down_hold_lazy hP (out := 0x5a :: frame) (w3 := w3) (c2 := c2) (sq := sq)
    (o := o) (D := D) (f := f) (name' := name') (by subst hw3; rfl) hc2st hc2cnt hc2idle e3 (by subst hw3; rfl)
    (by subst hw3; rfl) hpq (by rw [hw3srv]; exact h.srv) hsqr h.hD heq hf (by rw [hw3srv]; exact h.op)
    (by rw [hw3srv, h.syncu, e7, hc]) (by rw [hw3srv, e6, ← hc]; exact h.aged) (by rw [hw3srv, e5, ← hc]; exact h.paged)
  refine ⟨w', ?_, hQL, hsps', ?_, ?_, ?_, ?_⟩
  · rw [promptSteps_succ hq1, hs1, promptSteps_succ hq3, hs3]; rfl
  · rw [htc]; subst hw3; rfl
  · rw [hts]; subst hw3; rfl
  · rw [hfs, hw3srv]
  · rw [htip, hw3srv]

end Iodine.C02L
