import IodineModel.Lemmas.C02M2
/-
C02 / lazy mode, DOWNSTREAM — part 3: the joint invariant `DownFlightL` (a fragment is on its way to the client) and the
first step: `offerS` makes the server start the outpacket AND send its first fragment as the answer to the held query.
-/
namespace Iodine.C02L
open Iodine Iodine.Gen Iodine.World

/-- the server conditions of a downstream transfer in lazy mode: no query held (every one was answered with a fragment),
nothing waiting real soon, nothing queued -/
structure PingSrvL (P : Par) (s : Server.Srv) : Prop where
  stat : SStat P s
  q : (Server.getUser s P.u).q.id = 0
  qs : (Server.getUser s P.u).qs.id = 0
  lz : (Server.getUser s P.u).lazy = true
  oq : (Server.getUser s P.u).oqFilled = 0
  res : (Server.getUser s P.u).outfragresent ≤ 1

theorem timeoutS_idleL {P : Par} {w : W} (h : PingSrvL P w.srv) : timeoutS w = 10000000 := by
  unfold timeoutS
  rw [topOfLoop_timeout h.stat.solo, if_neg (by intro hc; exact hc.2 h.qs)]

/-- no query held in lazy mode: not quiescent -/
theorem quiet_false_of_noq {P : Par} {w : W} (h : PingSrvL P w.srv) : quiet P.u w = false := by
  unfold World.quiet
  simp [h.lz, h.q]

/-- the static part of the server invariant after an answered ping -/
theorem pingSrvL_after {P : Par} {s s' : Server.Srv} {Q : Server.Query} {a b : Int} {pkt : List Nat} (h : PingSrvL P s)
    (hid2 : Q.id2 = 0) (hap : AfterPing P s s' Q a b pkt)
    (hos : 0 ≤ (Server.getUser s' P.u).outpacket.seqno ∧ (Server.getUser s' P.u).outpacket.seqno < 8)
    (hof : 0 ≤ (Server.getUser s' P.u).outpacket.fragment ∧ (Server.getUser s' P.u).outpacket.fragment < 16)
    (hres : (Server.getUser s' P.u).outfragresent ≤ 1) :
    PingSrvL P s' ∧ (Server.getUser s' P.u).fragsize = (Server.getUser s P.u).fragsize ∧
    (Server.getUser s' P.u).inpacket = (Server.getUser s P.u).inpacket ∧
    (Server.getUser s' P.u).tunIp = (Server.getUser s P.u).tunIp ∧ (Server.getUser s' P.u).downenc = (Server.getUser s P.u).downenc := by
  obtain ⟨h1, h2, h3, h4, h5, h6, h7, h8, h9⟩ := afterPing_stat h.stat h.q h.oq (by have := h.res; omega) hid2 hap hos hof
  exact ⟨⟨h1, h2, by rw [h3]; exact h.qs, by rw [h4]; exact h.lz, h5, hres⟩, h6, h7, h8, h9⟩

/-- Fragment `f` (`D` bytes at offset `o`) of the downstream packet `out` (seqno `sq`) is on its way to the client as the
answer to the client's MOST RECENT query; the client has the `o` bytes before it and its answer counting is in balance; the
server holds no query and has the fragment unacknowledged (or, if the whole packet fitted that one
fragment, has dropped the packet already). -/
structure DownFlightL (P : Par) (out : List Nat) (w : W) (sq : Int) (o D f : Nat) : Prop where
  ph : w.cs.ph = .tunnel
  cst : CStatL P w.cs.c
  cnt : CntOk w.cs.c 1
  idleC : Client.isSending w.cs.c = false
  up : w.up = []
  down : ∃ name pkt, w.down = [.ans w.cs.c.chunkid P.ty name pkt] ∧ Client.notData w.cs.c (name.headD 0) = false ∧
    FragPkt pkt out sq o D f (decide (out.length > 0 ∧ out.length = o + D))
  exp : CExpect w.cs.c out sq o f
  dup : sq = w.cs.c.inpkt.seqno ∨ Client.recentSeqno w.cs.c.inpkt.seqno sq = false
  hsq : 0 ≤ sq ∧ sq < 8
  hD : 0 < D
  hle : o + D ≤ out.length
  srv : PingSrvL P w.srv
  frag : 0 < (Server.getUser w.srv P.u).fragsize
  op : (Server.getUser w.srv P.u).outpacket = ⟨out.length, D, o, out, sq, (f : Int)⟩ ∨
    ((Server.getUser w.srv P.u).outpacket = ⟨0, 0, 0, out, sq, 0⟩ ∧ o = 0 ∧ f = 0 ∧ D = out.length)
  syncu : (Server.getUser w.srv P.u).inpacket.seqno = w.cs.c.outpkt.seqno
  aged : Aged P (Server.getUser w.srv P.u) w.cs.c.datacmc 1
  paged : PAged P (Server.getUser w.srv P.u) w.cs.c.randSeed 1

/-- `offerS` in lazy mode: the frame is read from the server's tun device, becomes the outpacket, and its first fragment
goes out at once as the answer to the held query -/
theorem down_offer_lazy {P : Par} (hP : P.Ok) {w : W} (hq : QuietLazy P w) (frame : List Nat)
    (h24 : 24 ≤ frame.length) (hl : frame.length < 65536) (hdst : Server.ipDst frame = (Server.getUser w.srv P.u).tunIp)
    (hF : 0 < (Server.getUser w.srv P.u).fragsize) :
    ∃ w1, step w (.offerS frame) = w1 ∧
      DownFlightL P (0x5a :: frame) w1 ((w.cs.c.inpkt.seqno + 1) % 8) 0
        (downLen (Server.getUser w.srv P.u).fragsize (0x5a :: frame).length) 0 ∧
      w1.tunS = w.tunS ∧ w1.tunC = w.tunC ∧ (Server.getUser w1.srv P.u).tunIp = (Server.getUser w.srv P.u).tunIp ∧
      (Server.getUser w1.srv P.u).fragsize = (Server.getUser w.srv P.u).fragsize ∧ w1.cs = w.cs := by
  have hS := hq.srv
  have hu := hS.solo.lt
  have hsel : tunSelS w = true := tunSelS_idle hS hq.oq
  have htop := topSess_live hS
  have hHB := hq.held
  have hHid := hq.heldid
  have hHM := hq.mem
  generalize hx0 : ({ Server.getUser w.srv P.u with qsNew := false } : Server.Session) = x0 at htop
  have ht : frame.take 65536 = frame := List.take_of_length_le (by omega)
  have hs1 : Solo P.u { putUser w.srv P.u x0 with now := w.srv.now } := (hS.solo.putUser x0).withNow _
  have hg1 : Server.getUser { putUser w.srv P.u x0 with now := w.srv.now } P.u = x0 := by
    rw [getUser_withNow, getUser_putUser_self _ _ _ hu]
  generalize hy : startOut x0 (Server.compress frame) (Server.compress frame).length = y
  have htt : Server.tunnelTun { putUser w.srv P.u x0 with now := w.srv.now } (frame.take 65536) =
      ({ putUser w.srv P.u (scSess y P.u .q).1.1 with now := w.srv.now }, (scSess y P.u .q).1.2) := by
    rw [ht, tunnelTun_start_lazy hs1 frame h24 (by
        rw [hg1]; subst hx0
        exact ⟨hS.x.active, hS.x.auth, hS.x.enabled, by show (Server.getUser w.srv P.u).lastPkt + 60 > w.srv.now; have := hS.live; omega, hdst⟩)
      (by rw [hg1]; subst hx0; exact hS.x.conn) (by rw [hg1]; subst hx0; exact hq.idle.out)
      (by rw [hg1]; subst hx0; exact hq.idle.q) (by rw [hg1]; subst hx0; exact hq.idle.qs), hg1, hy]
    rw [putUser_withNow, putUser_putUser]
  have hit := iteration_tun hS.solo frame w.srv.now (scSess y P.u .q).1.1 (scSess y P.u .q).1.2 (by exact hsel) (by rw [htop]; exact htt)
  -- the new outpacket
  have hclen : (Server.compress frame).length = frame.length + 1 := by simp [Server.compress]
  have hyop : y.outpacket = ⟨(0x5a :: frame).length, 0, 0, 0x5a :: frame, ((w.cs.c.inpkt.seqno + 1) % 8), 0⟩ := by
    subst hy
    unfold startOut
    simp only [hclen, PACKET_DATA_SIZE]
    have h1 : min (frame.length + 1) 65536 = frame.length + 1 := Nat.min_eq_left (by omega)
    rw [h1]
    have h2 : (Server.compress frame).take (frame.length + 1) = 0x5a :: frame := by
      unfold Server.compress
      exact List.take_of_length_le (by simp)
    rw [h2]
    subst hx0
    simp only [List.length_cons]
    congr 1
    show ((Server.getUser w.srv P.u).outpacket.seqno + 1) % 8 = _
    rw [hq.syncd]
  have hyq : y.q = (Server.getUser w.srv P.u).q := by subst hy; subst hx0; rfl
  have hyres : y.outfragresent = 0 := by subst hy; rfl
  have hyoq : y.oqFilled = 0 := by subst hy; subst hx0; exact hq.oq
  have hyrest : rest y = rest (Server.getUser w.srv P.u) := by subst hy; subst hx0; rfl
  have hylp : y.lastPkt = (Server.getUser w.srv P.u).lastPkt := by subst hy; subst hx0; rfl
  have hyfs : y.fragsize = (Server.getUser w.srv P.u).fragsize := rest_fragsize hyrest
  have hyM : HeldMem P y y.q w.cs.c.datacmc w.cs.c.randSeed := by
    rw [hyq]; subst hy; subst hx0; exact hHM.congr rfl rfl rfl rfl rfl rfl
  generalize hH : (Server.getUser w.srv P.u).q = H at hHB hHid hyq
  rw [hyq] at hyM
  -- `send_chunk_or_dataless` on it, read as a ping handler run whose ack is stale and whose query is the held one
  have hself : saveQ (ackSess y 0 0) H y.lastPkt = y := by
    rw [ackSess_stale y 0 0 (by rw [hyop]), ← hyq, saveQ_self]
  have hZ : (scSess y P.u .q).1.1 = pingZ y P.u H 0 0 y.lastPkt := by
    unfold pingZ; rw [hself]
  obtain ⟨D, hDdef, hzo, hzr, hDpos, hDle, yy, hyev, hyo, hyi⟩ := pingZ_first y P.u H 0 0 y.lastPkt (0x5a :: frame)
    ((w.cs.c.inpkt.seqno + 1) % 8) hHB.id2 hyoq hyres hyop (by simp) (by rw [hyfs]; exact hF)
  have hzrest := pingZ_rest y P.u H 0 0 y.lastPkt hHB.id2 hyoq (by omega)
  have hzq := pingZ_q y P.u H 0 0 y.lastPkt hHB.id2 hyoq (by omega)
  rw [hself] at hyev
  rw [← hZ] at hzo hzr hzrest hzq
  rw [hyfs] at hDdef
  obtain ⟨y1, pkt', hm1, hpl, hev', _, hm2, _⟩ := scSess_q_shape y P.u (by rw [hyq]; exact hHB.id2) hyoq (by omega)
  rw [hyq] at hev' hm2
  have hmemo := (hyM.congr hm1.1 hm1.2.1 hm1.2.2.2.2.1 hm1.2.2.2.2.2 hm1.2.2.1 hm1.2.2.2.1).settle hP.hu pkt' hpl
  generalize hz : (scSess y P.u .q).1.1 = z at hit hzo hzr hzrest hzq hm2
  have hzr' : rest z = rest (Server.getUser w.srv P.u) := hzrest.trans hyrest
  have hzqs : z.qs.id = 0 := by rw [rest_qs hzr']; exact hq.idle.qs
  have hsw : sweepSess z P.u w.srv.now = (z, []) := by
    unfold sweepSess
    rw [if_neg (by intro hc; exact hc.2.1 hzqs)]
  rw [hsw, hyev] at hit
  dsimp only at hit
  have hg : Server.getUser { putUser w.srv P.u z with now := w.srv.now } P.u = z := by
    rw [getUser_withNow, getUser_putUser_self _ _ _ hu]
  have hsqr : 0 ≤ (w.cs.c.inpkt.seqno + 1) % 8 ∧ (w.cs.c.inpkt.seqno + 1) % 8 < 8 := by omega
  have hdn : downOfEvents ([Server.writeDns H (Server.scPkt yy D) y.downenc (.chunk P.u)] ++ [Server.Event.sweep] ++ []) =
      [DownD.ans w.cs.c.chunkid P.ty H.name (Server.scPkt yy D)] := by
    simp only [List.append_nil, downOfEvents_append, downOfEvents_sweep, downOfEvents_writeDns _ _ _ _ hHB.from_, hHid, hHB.ty]
  have htn : tunOfSEvents ([Server.writeDns H (Server.scPkt yy D) y.downenc (.chunk P.u)] ++ [Server.Event.sweep] ++ []) = [] := by
    simp only [List.append_nil, tunOfSEvents_append, tunOfSEvents_writeDns, tunOfSEvents_sweep]
  have hw1 : step w (.offerS frame) =
      { w with srv := { putUser w.srv P.u z with now := w.srv.now },
               down := [.ans w.cs.c.chunkid P.ty H.name (Server.scPkt yy D)] } := by
    rw [step_offerS w frame hsel, stepS_zero w _ _ _ _ hit, hdn, htn, hq.down]
    simp
  have hfp := fragPkt_of yy (0x5a :: frame) ((w.cs.c.inpkt.seqno + 1) % 8) 0 D 0 hyo (by omega) hsqr (by omega)
    (by rw [hyi, rest_inpacket hyrest]; exact hS.x.iseq) (by rw [hyi, rest_inpacket hyrest]; exact hS.x.ifrag)
  have hstat : SStat P { putUser w.srv P.u z with now := w.srv.now } := by
    refine ⟨(hS.solo.putUser z).withNow _, hS.td, ?_, ?_, ?_⟩
    · rw [hg]
      refine ⟨(rest_active hzr').trans hS.x.active, (rest_authenticated hzr').trans hS.x.auth, (rest_disabled hzr').trans hS.x.enabled,
        (rest_conn hzr').trans hS.x.conn, (rest_encoder hzr').trans hS.x.enc, ?_, ?_,
        by rw [rest_inpacket hzr']; exact hS.x.iseq, by rw [rest_inpacket hzr']; exact hS.x.ifrag⟩
      · rw [hzo]; split <;> exact hsqr
      · rw [hzo]; split <;> (show (0 : Int) ≤ 0 ∧ (0 : Int) < 16; omega)
    · show _ ∨ ((Server.getUser { putUser w.srv P.u z with now := w.srv.now } P.u).host.fam = 4 ∧ _)
      rw [hg, rest_host hzr']; exact hS.host
    · show w.srv.now < (Server.getUser { putUser w.srv P.u z with now := w.srv.now } P.u).lastPkt + 60
      rw [hg, hzq.2, hylp]; exact hS.live
  refine ⟨_, rfl, ?_, ?_, ?_, ?_, ?_, ?_⟩
  · rw [hw1, ← hDdef]
    refine ⟨hq.ph, hq.cst, hq.cnt, hq.idleC, hq.up, ⟨H.name, Server.scPkt yy D, rfl, ?_, hfp⟩, Or.inl ⟨rfl, rfl, 1, Nat.le_refl _, by omega, rfl⟩,
      Or.inr (recentSeqno_next _ hq.cst.iseq), hsqr, hDpos, by omega, ⟨hstat, ?_, ?_, ?_, ?_, ?_⟩, ?_, ?_, ?_, ?_, ?_⟩
    · rw [headD_eq_getD]
      have := hHM.c0
      rw [hH] at this
      exact notData_held hq.cst.uch _ this
    · show (Server.getUser { putUser w.srv P.u z with now := w.srv.now } P.u).q.id = 0
      rw [hg, hzq.1]
    · show (Server.getUser { putUser w.srv P.u z with now := w.srv.now } P.u).qs.id = 0
      rw [hg]; exact hzqs
    · show (Server.getUser { putUser w.srv P.u z with now := w.srv.now } P.u).lazy = true
      rw [hg, rest_lazy hzr']; exact hq.idle.lazy
    · show (Server.getUser { putUser w.srv P.u z with now := w.srv.now } P.u).oqFilled = 0
      rw [hg, rest_oqFilled hzr']; exact hq.oq
    · show (Server.getUser { putUser w.srv P.u z with now := w.srv.now } P.u).outfragresent ≤ 1
      rw [hg, hzr]; split <;> omega
    · show 0 < (Server.getUser { putUser w.srv P.u z with now := w.srv.now } P.u).fragsize
      rw [hg, rest_fragsize hzr']; exact hF
    · show (Server.getUser { putUser w.srv P.u z with now := w.srv.now } P.u).outpacket = _ ∨ _
      rw [hg, hzo]
      by_cases hw : D = (0x5a :: frame).length
      · rw [if_pos hw]; exact Or.inr ⟨rfl, rfl, rfl, hw⟩
      · rw [if_neg hw]; exact Or.inl rfl
    · show (Server.getUser { putUser w.srv P.u z with now := w.srv.now } P.u).inpacket.seqno = _
      rw [hg, rest_inpacket hzr']; exact hq.syncu
    · show Aged P (Server.getUser { putUser w.srv P.u z with now := w.srv.now } P.u) _ 1
      rw [hg]; exact hmemo.1.congr hm2.1 hm2.2.1 hm2.2.2.2.2.1 hm2.2.2.2.2.2
    · show PAged P (Server.getUser { putUser w.srv P.u z with now := w.srv.now } P.u) _ 1
      rw [hg]; exact hmemo.2.congr hm2.2.2.1 hm2.2.2.2.1 hm2.2.2.2.2.1 hm2.2.2.2.2.2
  · rw [hw1]
  · rw [hw1]
  · rw [hw1]
    show (Server.getUser { putUser w.srv P.u z with now := w.srv.now } P.u).tunIp = _
    rw [hg, rest_tunIp hzr']
  · rw [hw1]
    show (Server.getUser { putUser w.srv P.u z with now := w.srv.now } P.u).fragsize = _
    rw [hg, rest_fragsize hzr']
  · rw [hw1]

end Iodine.C02L
