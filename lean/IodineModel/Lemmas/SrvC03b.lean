import IodineModel.Lemmas.SrvC03a
import IodineModel.Lemmas.Users
/-
Helper lemmas for property C03, part b: the user/source checks, the slot a request names, and the
classification (`Outcome`) of what one handler call can do.
-/
namespace Iodine.C03L
open Iodine Iodine.Server Iodine.Gen

/-! ### the checks -/

/-- what a passed `check_user_and_ip` establishes -/
structure UserOk (s : Srv) (i : Int) (q : Query) : Prop where
  nonneg : 0 ≤ i
  lt : i < (s.cfg.createdUsers : Int)
  active : (getUser s i.toNat).active = true
  enabled : (getUser s i.toNat).disabled = false
  fresh : ¬ (getUser s i.toNat).lastPkt + 60 < s.now
  src : s.cfg.checkIp = true →
    q.from_.fam = (getUser s i.toNat).host.fam ∧ q.from_.ip = (getUser s i.toNat).host.ip ∧
    (q.from_.fam = 4 ∨ q.from_.fam = 6)

theorem userOk_of_check {s : Srv} {i : Int} {q : Query} (h : checkUserAndIp s i q = false) : UserOk s i q := by
  unfold checkUserAndIp at h
  split at h
  · cases h
  · next h1 =>
    simp only [] at h
    split at h
    · cases h
    · next h2 =>
      split at h
      · cases h
      · next h3 =>
        have h2' : (getUser s i.toNat).active = true ∧ (getUser s i.toNat).disabled = false := by
          cases ha : (getUser s i.toNat).active <;> cases hb : (getUser s i.toNat).disabled <;> simp_all
        refine ⟨by omega, by omega, h2'.1, h2'.2, h3, ?_⟩
        intro hc
        split at h
        · next h4 => simp [hc] at h4
        · split at h
          · cases h
          · next h5 =>
            split at h
            · next h6 =>
              have : (getUser s i.toNat).host.ip = q.from_.ip := by simpa using h
              exact ⟨by simpa using h5, this.symm, Or.inl h6⟩
            · split at h
              · next h7 =>
                have : (getUser s i.toNat).host.ip = q.from_.ip := by simpa using h
                exact ⟨by simpa using h5, this.symm, Or.inr h7⟩
              · cases h

theorem auth_of_check {s : Srv} {i : Int} {q : Query} (h : checkAuthenticatedUserAndIp s i q = false) :
    UserOk s i q ∧ (getUser s i.toNat).authenticated = true := by
  unfold checkAuthenticatedUserAndIp at h
  split at h
  · cases h
  · next h1 =>
    split at h
    · cases h
    · next h2 => exact ⟨userOk_of_check (by simpa using h1), by simpa using h2⟩

theorem auth_of_checkOptions {s : Srv} {i : Int} {q : Query}
    (h : checkAuthenticatedUserAndIpAndOptions s i q = false) : checkAuthenticatedUserAndIp s i q = false := by
  unfold checkAuthenticatedUserAndIpAndOptions at h
  simp only [] at h
  split at h
  · exact h
  · next h1 =>
    cases hc : checkAuthenticatedUserAndIp s i q
    · rfl
    · simp [hc] at h1

/-! ### the slot a request names -/

/-- the user id field of a request, as the handlers read it (`none` for requests without one) -/
def reqSlot (cfg : Config) : Input → Option Int
  | .q q =>
    match Common.queryDatalen q.name cfg.topdomain with
    | none => none
    | some dlen =>
      if dlen < 2 then none
      else
        let inb := q.name.take (min dlen 512)
        let c := q.name.getD 0 0
        if c = 76 ∨ c = 108 ∨ c = 78 ∨ c = 110 ∨ c = 80 ∨ c = 112 then
          some (charVal ((Encoding.unpackData Codec.b32 65536 (inb.drop 1)).getD 0 0))
        else if c = 73 ∨ c = 105 ∨ c = 83 ∨ c = 115 ∨ c = 79 ∨ c = 111 then
          some ((b32_8to5 (inb.getD 1 0) : Nat) : Int)
        else if c = 82 ∨ c = 114 then some ((((b32_8to5 (inb.getD 1 0)) >>> 1) &&& 15 : Nat) : Int)
        else if isHexDigit c then some (hexCode c)
        else none
  | .rawf _ bytes => some ((bytes.getD 3 0 &&& RAW_HDR_USR_MASK : Nat) : Int)
  | _ => none

/-! ### outcomes of a handler call -/

/-- the fields no request of an authenticated session changes either (raw login apart) -/
structure Core where
  active : Bool
  authenticated : Bool
  authenticatedRaw : Bool
  disabled : Bool
  seed : Nat
  tunIp : Nat
  conn : Conn
deriving DecidableEq

def core (x : Session) : Core :=
  ⟨x.active, x.authenticated, x.authenticatedRaw, x.disabled, x.seed, x.tunIp, x.conn⟩

theorem core_of_prot {x y : Session} (h : prot x = prot y) : core x = core y := by
  unfold prot at h
  simp only [Prot.mk.injEq] at h
  simp only [core, Core.mk.injEq]
  simp [h]

/-- cfg, clock and table length are unchanged -/
def Base (s : Srv) (r : Res) : Prop := r.1.cfg = s.cfg ∧ r.1.now = s.now ∧ r.1.users.length = s.users.length

theorem Base.of_view {s : Srv} {r : Res} (h : view r.1 = view s) : Base s r :=
  ⟨cfg_of_view h, now_of_view h, length_of_view h⟩

/-- the first character of the name of a query inside the tunnel domain with at least two data characters -/
def CmdChar (cfg : Config) (q : Query) (c : Nat) : Prop :=
  ∃ dlen, Common.queryDatalen q.name cfg.topdomain = some dlen ∧ 2 ≤ dlen ∧ q.name.getD 0 0 = c

/-- `V` allocated slot `u` with seed `sd` -/
structure Alloc (s : Srv) (q : Query) (u sd : Nat) (r : Res) : Prop where
  cmd : CmdChar s.cfg q 86 ∨ CmdChar s.cfg q 118
  base : Base s r
  lt : u < s.users.length
  free : ((getUser s u).active = false ∨ (getUser s u).lastPkt + 60 < s.now) ∧ (getUser s u).disabled = false
  others : ∀ v, v ≠ u → getUser r.1 v = getUser s v
  auth : (getUser r.1 u).authenticated = false
  authRaw : (getUser r.1 u).authenticatedRaw = false
  seed : (getUser r.1 u).seed = sd
  active : (getUser r.1 u).active = true
  backlog : backlog (getUser r.1 u) = 0
  conn : (getUser r.1 u).conn = .dnsNull
  evs : ∃ dn, r.2 = [Event.ans q.from_ q.id q.type dn q.name (ascii "VACK" ++ beBytes 4 sd ++ [u % 256]) .ctrl]

/-- a quiet result of a request handler: moreover no data-path answers among the events -/
structure QuietH (s : Srv) (r : Res) : Prop extends Quiet s r where
  nochunk : ∀ e ∈ r.2, NoChunk e

theorem QuietH.refl_nil (s : Srv) : QuietH s (s, []) := ⟨Quiet.refl_nil s, by intro e he; cases he⟩

/-- `L` with the right hash for slot `u` -/
structure LoginOk (s : Srv) (q : Query) (dlen u : Nat) (r : Res) : Prop where
  hd : Common.queryDatalen q.name s.cfg.topdomain = some dlen
  h2 : 2 ≤ dlen
  cmd : q.name.getD 0 0 = 76 ∨ q.name.getD 0 0 = 108
  len : 18 ≤ (Encoding.unpackData Codec.b32 65536 ((q.name.take (min dlen 512)).drop 1)).length
  uid : charVal ((Encoding.unpackData Codec.b32 65536 ((q.name.take (min dlen 512)).drop 1)).getD 0 0) = (u : Int)
  hash : ((Encoding.unpackData Codec.b32 65536 ((q.name.take (min dlen 512)).drop 1)).drop 1).take 16
          = Login.loginCalcC s.cfg.password (getUser s u).seed
  ok : UserOk s u q
  base : Base s r
  others : ∀ v, v ≠ u → getUser r.1 v = getUser s v
  self : getUser r.1 u = { getUser s u with lastPkt := s.now, authenticated := true }
  evs : ∀ e ∈ r.2, Harmless e
  nochunk : ∀ e ∈ r.2, NoChunk e

/-- raw login with the right hash for slot `u` -/
structure RawLoginOk (s : Srv) (src : Addr) (bytes : List Nat) (u : Nat) (r : Res) : Prop where
  uid : u = bytes.getD 3 0 &&& RAW_HDR_USR_MASK
  hash : (((bytes.take 65536).drop RAW_HDR_LEN).take 16) = Login.loginCalcC s.cfg.password ((getUser s u).seed + 1)
  lt : u < s.cfg.createdUsers
  active : (getUser s u).active = true
  enabled : (getUser s u).disabled = false
  auth : (getUser s u).authenticated = true
  fresh : ¬ (getUser s u).lastPkt + 60 < s.now
  base : Base s r
  others : ∀ v, v ≠ u → getUser r.1 v = getUser s v
  self : getUser r.1 u = { getUser s u with lastPkt := s.now, q := rawQuery src, host := src, conn := .rawUdp,
                                            authenticatedRaw := true }
  evs : ∀ e ∈ r.2, Harmless e
  nochunk : ∀ e ∈ r.2, NoChunk e

/-- what one call of `dispatch` can be -/
inductive Outcome (s : Srv) (inp : Input) (r : Res) : Prop where
  /-- nothing privileged -/
  | quiet (h : QuietH s r)
  /-- a frame from the tun device (may fill backlogs and emit raw DATA frames) -/
  | tunIn (f : List Nat) (hi : inp = .tun f) (hv : view r.1 = view s)
      (he : ∀ e ∈ r.2, Harmless e ∨ ∃ d b, e = .raw d b)
  | alloc (q : Query) (u sd : Nat) (hi : inp = .q q) (h : Alloc s q u sd r)
  | login (q : Query) (dlen u : Nat) (hi : inp = .q q) (h : LoginOk s q dlen u r)
  /-- a DNS request of a session that passed `check_authenticated_user_and_ip` -/
  | authedQ (q : Query) (i : Int) (hi : inp = .q q) (hreq : reqSlot s.cfg inp = some i)
      (hchk : checkAuthenticatedUserAndIp s i q = false) (hbase : Base s r)
      (hcore : ∀ v, core (getUser r.1 v) = core (getUser s v))
      (hoth : ∀ v, v ≠ i.toNat → prot (getUser r.1 v) = prot (getUser s v))
  | rawLogin (src : Addr) (bytes : List Nat) (u : Nat) (hi : inp = .rawf src bytes) (h : RawLoginOk s src bytes u r)
  /-- raw DATA of a session that passed the check and is `authenticated_raw` -/
  | authedRaw (src : Addr) (bytes : List Nat) (u : Nat) (hi : inp = .rawf src bytes)
      (hreq : reqSlot s.cfg inp = some (u : Int))
      (hchk : checkAuthenticatedUserAndIp s u (rawQuery src) = false)
      (hraw : (getUser s u).authenticatedRaw = true) (hv : view r.1 = view s)

/-- an answer to query `q` that is harmless because of its data or because `q` is neither an I nor a V request -/
theorem harmless_writeDns (q : Query) (data : List Nat) (dn : Nat)
    (h : ¬ ((q.name.getD 0 0 = 73 ∨ q.name.getD 0 0 = 105) ∧ data.head? = some 73) ∧
         ¬ ((q.name.getD 0 0 = 86 ∨ q.name.getD 0 0 = 118) ∧ data.take 4 = ascii "VACK")) :
    Harmless (writeDns q data dn) := by
  unfold writeDns Harmless
  intro _; exact h

/-- a state-preserving handler exit with one harmless answer -/
theorem quiet_answer (s : Srv) (e : Event) (h : Harmless e) : Quiet s (s, [e]) :=
  ⟨rfl, MLe.refl s, by intro e' he; simp at he; subst he; exact h⟩

theorem quietH_answer (s : Srv) (e : Event) (h : Harmless e) (hn : NoChunk e) : QuietH s (s, [e]) :=
  ⟨quiet_answer s e h, by intro e' he; simp at he; subst he; exact hn⟩

theorem noChunk_writeDns (q : Query) (data : List Nat) (dn : Nat) : NoChunk (writeDns q data dn) := rfl

theorem Outcome.authedQ_of_view {s : Srv} {q : Query} {r : Res} (i : Int)
    (hreq : reqSlot s.cfg (.q q) = some i) (hchk : checkAuthenticatedUserAndIp s i q = false)
    (hv : view r.1 = view s) : Outcome s (.q q) r :=
  Outcome.authedQ q i rfl hreq hchk (Base.of_view hv)
    (fun v => core_of_prot (prot_getUser_of_view hv v)) (fun v _ => prot_getUser_of_view hv v)

theorem Outcome.authedQ_of_setUser {s : Srv} {q : Query} (i : Int) (f : Session → Session) (evs : List Event)
    (hreq : reqSlot s.cfg (.q q) = some i) (hchk : checkAuthenticatedUserAndIp s i q = false)
    (hf : ∀ x, core (f x) = core x) : Outcome s (.q q) (setUser s i.toNat f, evs) := by
  refine Outcome.authedQ q i rfl hreq hchk ⟨rfl, rfl, by simp⟩ ?_ ?_
  · intro v
    simp only []
    rw [getUser_setUser]
    split
    · next h => rw [h.1, hf]
    · rfl
  · intro v hv
    simp only []
    rw [getUser_setUser_ne _ _ hv]

/-! ### `V` and `L` -/

theorem getD_take_zero (l : List Nat) (n : Nat) (h : 0 < n) : (l.take n).getD 0 0 = l.getD 0 0 := by
  simp [List.getD_eq_getElem?_getD, h]

theorem getD_take_one (l : List Nat) (n : Nat) (h : 1 < n) : (l.take n).getD 1 0 = l.getD 1 0 := by
  simp [List.getD_eq_getElem?_getD, h]

theorem findAvailableUser_some {s : Srv} {u : Nat} (h : (Users.findAvailableUser (s.users.map toSlot) s.now).1 = some u) :
    u < s.users.length ∧
    ((getUser s u).active = false ∨ (getUser s u).lastPkt + 60 < s.now) ∧ (getUser s u).disabled = false := by
  unfold Users.findAvailableUser at h
  obtain ⟨k, hk, hlt, hp, -, -⟩ := Users.findAvailableFrom_some s.now (s.users.map toSlot) 0 u
    (Users.findAvailableFrom s.now (s.users.map toSlot) 0).2 (by rw [← h])
  have hk' : u = k := by omega
  subst hk'
  have hlt' : u < s.users.length := by simpa using hlt
  refine ⟨hlt', ?_⟩
  have hg : getUser s u = s.users[u] := by
    unfold getUser; simp [List.getD_eq_getElem?_getD, hlt']
  rw [hg]
  simpa [toSlot] using hp

theorem backlog_resetSession (x : Session) : backlog (resetSession x) = 0 := by
  simp [backlog, resetSession]

theorem outcome_handleVersion (s : Srv) (q : Query) (inb : List Nat)
    (hcmd : CmdChar s.cfg q 86 ∨ CmdChar s.cfg q 118) :
    Outcome s (.q q) (handleVersion s q inb) := by
  have hV : q.name.getD 0 0 = 86 ∨ q.name.getD 0 0 = 118 := by
    rcases hcmd with ⟨_, _, _, h⟩ | ⟨_, _, _, h⟩
    · exact Or.inl h
    · exact Or.inr h
  have hnotI : ¬ (q.name.getD 0 0 = 73 ∨ q.name.getD 0 0 = 105) := by omega
  unfold handleVersion
  simp only []
  generalize (if (Encoding.unpackData Codec.b32 65536 (List.drop 1 inb)).length > 4 then
    beVal (List.take 4 (Encoding.unpackData Codec.b32 65536 (List.drop 1 inb))) else 0) = version
  split
  · -- right version
    unfold findAvailableUser
    cases hf : (Users.findAvailableUser (s.users.map toSlot) s.now).1 with
    | none =>
      simp only []
      apply Outcome.quiet
      unfold sendVersionResponse
      refine quietH_answer _ _ (harmless_writeDns _ _ _ ?_) (noChunk_writeDns _ _ _)
      refine ⟨fun h => hnotI h.1, fun h => ?_⟩
      have := h.2
      simp [ascii] at this
    | some u =>
      simp only []
      obtain ⟨hlt, hfree⟩ := findAvailableUser_some hf
      refine Outcome.alloc q u (popRand (setUser s u (claim s.now))).1 rfl ?_
      have hr : ∀ s' : Srv, (popRand s').2.users = s'.users ∧ (popRand s').2.cfg = s'.cfg ∧ (popRand s').2.now = s'.now := by
        intro s'; unfold popRand; split <;> simp
      have hg : ∀ (s' : Srv) v, getUser (popRand s').2 v = getUser s' v := by
        intro s' v; unfold getUser; rw [(hr s').1]
      have hl2 : u < (popRand (setUser s u (claim s.now))).2.users.length := by
        rw [(hr _).1]; simpa using hlt
      refine ⟨hcmd, ⟨?_, ?_, ?_⟩, hlt, hfree, ?_, ?_, ?_, ?_, ?_, ?_, ?_, ?_⟩
      · simp [(hr _).2.1]
      · simp [(hr _).2.2]
      · simp [(hr _).1]
      · intro v hv
        simp only []
        rw [getUser_setUser_ne _ _ hv, getUser_setUser_ne _ _ hv, hg, getUser_setUser_ne _ _ hv]
      · simp only []
        rw [getUser_setUser_self _ _ (by simpa using hl2), getUser_setUser_self _ _ hl2, hg,
          getUser_setUser_self _ _ hlt]
        rfl
      · simp only []
        rw [getUser_setUser_self _ _ (by simpa using hl2), getUser_setUser_self _ _ hl2, hg,
          getUser_setUser_self _ _ hlt]
        rfl
      · simp only []
        rw [getUser_setUser_self _ _ (by simpa using hl2), getUser_setUser_self _ _ hl2]
        rfl
      · simp only []
        rw [getUser_setUser_self _ _ (by simpa using hl2), getUser_setUser_self _ _ hl2, hg,
          getUser_setUser_self _ _ hlt]
        rfl
      · simp only []
        rw [getUser_setUser_self _ _ (by simpa using hl2)]
        exact backlog_resetSession _
      · simp only []
        rw [getUser_setUser_self _ _ (by simpa using hl2)]
        rfl
      · exact ⟨_, rfl⟩
  · apply Outcome.quiet
    unfold sendVersionResponse
    refine quietH_answer _ _ (harmless_writeDns _ _ _ ?_) (noChunk_writeDns _ _ _)
    refine ⟨fun h => hnotI h.1, fun h => ?_⟩
    have := h.2
    simp [ascii] at this

/-- the query is neither an I nor a V request: every `ctrl` answer to it is harmless -/
theorem harmless_of_notIV (q : Query) (data : List Nat) (dn : Nat)
    (h : q.name.getD 0 0 ≠ 73 ∧ q.name.getD 0 0 ≠ 105 ∧ q.name.getD 0 0 ≠ 86 ∧ q.name.getD 0 0 ≠ 118) :
    Harmless (writeDns q data dn) := by
  apply harmless_writeDns
  refine ⟨fun hh => ?_, fun hh => ?_⟩
  · rcases hh.1 with h' | h'
    · exact h.1 h'
    · exact h.2.1 h'
  · rcases hh.1 with h' | h'
    · exact h.2.2.1 h'
    · exact h.2.2.2 h'

theorem quietH_notIV (s : Srv) (q : Query) (data : List Nat) (dn : Nat)
    (h : q.name.getD 0 0 ≠ 73 ∧ q.name.getD 0 0 ≠ 105 ∧ q.name.getD 0 0 ≠ 86 ∧ q.name.getD 0 0 ≠ 118) :
    QuietH s (s, [writeDns q data dn]) :=
  quietH_answer s _ (harmless_of_notIV q data dn h) (noChunk_writeDns q data dn)

theorem outcome_handleLogin (s : Srv) (q : Query) (dlen : Nat)
    (hd : Common.queryDatalen q.name s.cfg.topdomain = some dlen) (h2 : 2 ≤ dlen)
    (hc : q.name.getD 0 0 = 76 ∨ q.name.getD 0 0 = 108) :
    Outcome s (.q q) (handleLogin s q (q.name.take (min dlen 512))) := by
  have hn : q.name.getD 0 0 ≠ 73 ∧ q.name.getD 0 0 ≠ 105 ∧ q.name.getD 0 0 ≠ 86 ∧ q.name.getD 0 0 ≠ 118 := by omega
  unfold handleLogin
  simp only []
  split
  · exact Outcome.quiet (quietH_notIV _ q _ _ hn)
  · split
    · exact Outcome.quiet (quietH_notIV _ q _ _ hn)
    · next hlen hchk =>
      have hok := userOk_of_check ((Bool.not_eq_true _).mp hchk)
      generalize hi : charVal ((Encoding.unpackData Codec.b32 65536 (List.drop 1 (q.name.take (min dlen 512)))).getD 0 0) = i at *
      have hi' : ((i.toNat : Nat) : Int) = i := Int.toNat_of_nonneg hok.nonneg
      have hlt : i.toNat < s.users.length := lt_length_of_active hok.active
      split
      · next hgood =>
        refine Outcome.login q dlen i.toNat rfl ?_
        rw [getUser_setUser_self _ _ hlt] at hgood
        refine ⟨hd, h2, hc, hgood.1, by rw [hi, hi'], hgood.2.symm, by rw [hi']; exact hok, ⟨rfl, rfl, by simp⟩, ?_, ?_, ?_, ?_⟩
        · intro v hv
          simp only []
          rw [getUser_setUser_ne _ _ hv, getUser_setUser_ne _ _ hv]
        · simp only []
          rw [getUser_setUser_self _ _ (by simpa using hlt), getUser_setUser_self _ _ hlt]
        · intro e he
          simp only [List.mem_cons, List.not_mem_nil, or_false] at he
          subst he
          exact harmless_of_notIV q _ _ hn
        · intro e he
          simp only [List.mem_cons, List.not_mem_nil, or_false] at he
          subst he
          exact noChunk_writeDns q _ _
      · apply Outcome.quiet
        refine ⟨⟨?_, ?_, ?_⟩, ?_⟩
        · apply view_setUser; intro x; rfl
        · apply MLe.set; exact Nat.le_refl _
        · intro e he
          simp only [List.mem_cons, List.not_mem_nil, or_false] at he
          subst he
          exact harmless_of_notIV q _ _ hn
        · intro e he
          simp only [List.mem_cons, List.not_mem_nil, or_false] at he
          subst he
          exact noChunk_writeDns q _ _

end Iodine.C03L
